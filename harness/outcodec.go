package main

// `outcodec` projection (C10): the outcome codecs obtained from OffchainConfig.GetOutcomeCodec for versions 0
// and 1: Encode of generated outcomes (bytes predicted by the model), Decode of those bytes and of
// hand-mutated protobuf messages, decode-then-encode.

import (
	"bytes"
	"fmt"
	"math"
	"math/rand"

	"google.golang.org/protobuf/proto"

	llotypes "github.com/smartcontractkit/chainlink-common/pkg/types/llo"

	"github.com/smartcontractkit/chainlink-data-streams/llo"
)

type outcodecIn struct {
	PVer    uint32    `json:"pver"`
	Outcome *prevDesc `json:"outcome,omitempty"`
	Raw     []byte    `json:"raw,omitempty"` // bytes to decode when no outcome is given (mutated message)
}

func resBytesCoq(b []byte, err error, panicked bool) string {
	switch {
	case panicked:
		return "(Panic 0)"
	case err != nil:
		return "(Err EOther)"
	}
	return "(Ok " + coqHex(b) + ")"
}

func outcodecCase(in outcodecIn, tags ...string) caseRec {
	codec := llo.OffchainConfig{ProtocolVersion: in.PVer}.GetOutcomeCodec()
	rec := map[string]any{}
	inTerm := "None"
	var enc []byte
	encTerm := "(Err EOther)"
	stable := true
	raw := in.Raw
	if in.Outcome != nil {
		o := in.Outcome.outcome()
		inTerm = "(Some " + coqOutcome(o) + ")"
		var err error
		e, p, _ := protect(func() error { enc, err = codec.Encode(o); return err })
		encTerm = resBytesCoq(enc, e, p)
		rec["encode"] = fmt.Sprint(e, p)
		if e == nil && !p {
			// canonical: encoding again (and from a freshly built copy of the maps) gives the same bytes
			for i := 0; i < 4; i++ {
				e2, err2 := codec.Encode(in.Outcome.outcome())
				if err2 != nil || !bytes.Equal(e2, enc) {
					stable = false
				}
			}
			raw = enc
		}
	}
	var dec llo.Outcome
	de, dp, dpv := protect(func() error { var err error; dec, err = codec.Decode(raw); return err })
	decTerm := "(Err EOther)"
	reencTerm := "(Err EOther)"
	switch {
	case dp:
		decTerm = "(Panic 0)"
		rec["decode"] = fmt.Sprint("panic: ", dpv)
	case de != nil:
		rec["decode"] = "error: " + de.Error()
	default:
		decTerm = "(Ok " + coqOutcome(dec) + ")"
		var re []byte
		var err error
		e, p, _ := protect(func() error { re, err = codec.Encode(dec); return err })
		reencTerm = resBytesCoq(re, e, p)
	}
	coq := fmt.Sprintf("{| oc_pver := %d; oc_in := %s; oc_enc := %s; oc_stable := %s; oc_raw := %s; oc_dec := %s; oc_reenc := %s |}",
		in.PVer, inTerm, encTerm, coqBool(stable), coqHex(raw), decTerm, reencTerm)
	return caseRec{Input: in, Output: rec, Coq: coq, Tags: tags}
}

func randBytes(r *rand.Rand, n int) []byte {
	b := make([]byte, n)
	r.Read(b)
	return b
}
func randU32(r *rand.Rand) uint32 {
	switch r.Intn(5) {
	case 0:
		return uint32(r.Intn(10))
	case 1:
		return math.MaxUint32 - uint32(r.Intn(3))
	case 2:
		return uint32(1) << uint(r.Intn(32))
	}
	return r.Uint32()
}
func randU64(r *rand.Rand) uint64 {
	switch r.Intn(6) {
	case 0:
		return uint64(r.Intn(10))
	case 1:
		return math.MaxUint64 - uint64(r.Intn(3))
	case 2:
		return uint64(1) << uint(r.Intn(64))
	case 3:
		return math.MaxInt64 + uint64(r.Intn(3)) - 1
	case 4:
		return uint64(math.MaxUint32)*1e9 + uint64(r.Int63n(3e9)) - 1e9 // around the v0 seconds limit
	}
	return r.Uint64()
}

func genOutcomeDesc(r *rand.Rand, pver uint32, maxCh int) *prevDesc {
	p := &prevDesc{Stage: []string{"staging", "production", "retired", "", "weird stage", "Production"}[r.Intn(6)]}
	p.Ts = randU64(r)
	if pver == 0 && r.Intn(4) != 0 {
		p.Ts = uint64(r.Int63())
	}
	p.Defs = map[uint32]defDesc{}
	p.VA = map[uint32]uint64{}
	n := r.Intn(maxCh + 1)
	for i := 0; i < n; i++ {
		id := randU32(r)
		d := defDesc{Fmt: randU32(r)}
		for k := r.Intn(5); k > 0; k-- {
			d.Streams = append(d.Streams, streamDesc{ID: randU32(r), Agg: randU32(r)})
		}
		if r.Intn(2) == 0 {
			d.Opts = randBytes(r, r.Intn(6))
		}
		p.Defs[id] = d
		if r.Intn(3) != 0 {
			p.VA[id] = randU64(r)
			if pver == 0 && r.Intn(5) != 0 {
				p.VA[id] = uint64(r.Int63n(4e18))
			}
		}
	}
	for k := r.Intn(3); k > 0; k-- {
		p.VA[randU32(r)] = uint64(r.Int63n(4e18))
	}
	for k := r.Intn(6); k > 0; k-- {
		v := genWild(r, 0)
		if v.T == "nil" {
			continue
		}
		sid := uint32(r.Intn(4))
		if r.Intn(3) == 0 {
			sid = randU32(r)
		}
		p.Aggs = append(p.Aggs, aggDesc{Sid: sid, Agg: uint32(r.Intn(5)), V: v})
	}
	return p
}

// hand-mutated messages (structure-aware): the decoders must return an outcome or an error
func genMutatedOutcomeMsg(r *rand.Rand, pver uint32) []byte {
	defs := []*llo.LLOChannelIDAndDefinitionProto{}
	for k := r.Intn(4); k > 0; k-- {
		d := &llo.LLOChannelIDAndDefinitionProto{ChannelID: uint32(r.Intn(3))} // duplicates likely
		if r.Intn(4) != 0 {
			d.ChannelDefinition = &llo.LLOChannelDefinitionProto{ReportFormat: randU32(r), Opts: randBytes(r, r.Intn(3))}
			for j := r.Intn(3); j > 0; j-- {
				if r.Intn(5) == 0 {
					d.ChannelDefinition.Streams = append(d.ChannelDefinition.Streams, nil)
				} else {
					d.ChannelDefinition.Streams = append(d.ChannelDefinition.Streams, &llo.LLOStreamDefinition{StreamID: randU32(r), Aggregator: uint32(r.Intn(4))})
				}
			}
		}
		defs = append(defs, d)
	}
	aggs := []*llo.LLOStreamAggregate{}
	for k := r.Intn(4); k > 0; k-- {
		a := &llo.LLOStreamAggregate{StreamID: uint32(r.Intn(3)), Aggregator: uint32(r.Intn(3))}
		switch r.Intn(6) {
		case 0: // nil value
		case 1: // unknown type
			a.StreamValue = &llo.LLOStreamValue{Type: llo.LLOStreamValue_Type(3 + r.Intn(5)), Value: randBytes(r, 6)}
		case 2: // negative enum
			a.StreamValue = &llo.LLOStreamValue{Type: llo.LLOStreamValue_Type(-1 - r.Intn(3)), Value: randBytes(r, 6)}
		case 3: // truncated decimal
			a.StreamValue = &llo.LLOStreamValue{Type: llo.LLOStreamValue_Decimal, Value: randBytes(r, r.Intn(5))}
		case 4: // bad gob version
			a.StreamValue = &llo.LLOStreamValue{Type: llo.LLOStreamValue_Decimal, Value: []byte{0, 0, 0, 1, byte(4 + r.Intn(200)), 7}}
		default:
			v := genWild(r, 0)
			if v.T == "nil" {
				v = decOf(5, 0)
			}
			b, _ := v.value().MarshalBinary()
			a.StreamValue = &llo.LLOStreamValue{Type: v.value().Type(), Value: b}
		}
		aggs = append(aggs, a)
	}
	var b []byte
	if pver == 0 {
		m := &llo.LLOOutcomeProtoV0{LifeCycleStage: "production", ObservationTimestampNanoseconds: r.Int63() - (1 << 61), ChannelDefinitions: defs, StreamAggregates: aggs}
		for k := r.Intn(3); k > 0; k-- {
			m.ValidAfterSeconds = append(m.ValidAfterSeconds, &llo.LLOChannelIDAndValidAfterSecondsProto{ChannelID: uint32(r.Intn(3)), ValidAfterSeconds: randU32(r)})
		}
		b, _ = proto.Marshal(m)
	} else {
		m := &llo.LLOOutcomeProtoV1{LifeCycleStage: "staging", ObservationTimestampNanoseconds: randU64(r), ChannelDefinitions: defs, StreamAggregates: aggs}
		for k := r.Intn(3); k > 0; k-- {
			m.ValidAfterNanoseconds = append(m.ValidAfterNanoseconds, &llo.LLOChannelIDAndValidAfterNanosecondsProto{ChannelID: uint32(r.Intn(3)), ValidAfterNanoseconds: randU64(r)})
		}
		b, _ = proto.Marshal(m)
	}
	return b
}

const outcodecHeader = "From stdpp Require Import gmap.\nFrom DS Require Import Base Decimal StreamValue Aggregators Outcome OutcomeCodec CasesOutCodec.\n"

func cmdOutcodec(seed int64, n int, out, replay, tier string) {
	var cs []caseRec
	if replay != "" {
		for _, in := range loadReplayInputs[outcodecIn](replay) {
			cs = append(cs, outcodecCase(in, "replay"))
		}
	} else {
		r := rand.New(rand.NewSource(seed))
		maxCh := 8
		// one large outcome (channel cap) per version
		big := 40
		if tier == "thorough" {
			big = int(llo.MaxOutcomeChannelDefinitionsLength)
		}
		for pver := uint32(0); pver < 2; pver++ {
			cs = append(cs, outcodecCase(outcodecIn{PVer: pver, Outcome: &prevDesc{Stage: "production"}}, "empty"))
			d := genOutcomeDesc(r, pver, 0)
			d.Ts = 1
			for i := 0; i < big; i++ {
				d.Defs[uint32(i*7+1)] = defDesc{Fmt: 2, Streams: []streamDesc{{ID: uint32(i % 50), Agg: 1}}}
				d.VA[uint32(i*7+1)] = uint64(1700000000e9) + uint64(i)
			}
			cs = append(cs, outcodecCase(outcodecIn{PVer: pver, Outcome: d}, "large"))
		}
		for len(cs) < n {
			pver := uint32(r.Intn(2))
			if k := r.Intn(8); k == 0 || k == 1 {
				cs = append(cs, outcodecCase(outcodecIn{PVer: pver, Raw: genMutatedOutcomeMsg(r, pver)}, "mutated-message"))
			} else if k == 2 {
				// raw byte damage to a valid encoding: bit flips, truncation, duplicated spans, unknown-field groups
				cs = append(cs, outcodecCase(outcodecIn{PVer: pver, Raw: flipBytes(r, genValidOutcomeBytes(r, pver, false))}, "damaged-bytes"))
			} else {
				cs = append(cs, outcodecCase(outcodecIn{PVer: pver, Outcome: genOutcomeDesc(r, pver, maxCh)}, "structured"))
			}
		}
	}
	if err := writeCasesSharded(out, "outcodec", seed, outcodecHeader, "outcodec_case", "outcodec_eval", cs, 150); err != nil {
		fatal(err)
	}
}

var _ = llotypes.ChannelDefinition{}
