package main

// Projection `textforms` (C17): text forms of stream values, the typed text envelope, llo.JSONReportCodec
// Encode/Decode (viewed at the level of the Go structs around encoding/json) and Pack/Unpack.

import (
	"bytes"
	"encoding/hex"
	"encoding/json"
	"fmt"
	"math"
	"math/big"
	"math/rand"
	"os"
	"strings"

	llotypes "github.com/smartcontractkit/chainlink-common/pkg/types/llo"
	"github.com/smartcontractkit/libocr/commontypes"
	ocr2types "github.com/smartcontractkit/libocr/offchainreporting2plus/types"

	"github.com/smartcontractkit/chainlink-data-streams/llo"
)

type textIn struct {
	Kind string `json:"kind"` // text | parse | report | decode | pack
	// text
	V *svDesc `json:"v,omitempty"`
	// parse
	T int32  `json:"t,omitempty"`
	S string `json:"s_hex,omitempty"`
	// report / decode / pack
	Digest   string    `json:"digest,omitempty"` // report: hex of 32 bytes; decode: the text itself
	Seq      uint64    `json:"seq,omitempty"`
	Chan     uint32    `json:"chan,omitempty"`
	VA       uint64    `json:"va,omitempty"`
	TS       uint64    `json:"ts,omitempty"`
	Specimen bool      `json:"specimen,omitempty"`
	Values   []*svDesc `json:"values,omitempty"`
	JValues  []jval    `json:"jvalues,omitempty"`
	Sigs     []string  `json:"sigs,omitempty"`
	Signers  []uint8   `json:"signers,omitempty"`
	// packbytes: pass an empty non-nil signature slice instead of nil
	EmptySigs bool `json:"empty_sigs,omitempty"`
}

type jval struct {
	T int32  `json:"t"`
	V string `json:"v"`
}

func svRes(v llo.StreamValue, err error, panicked bool) (resOut, string) {
	switch {
	case panicked:
		return resOut{Kind: "panic"}, ""
	case err != nil:
		return resOut{Kind: "err", Err: "EOther", Text: err.Error()}, ""
	case malformedValue(v):
		return resOut{Kind: "panic", Text: "nil nested value"}, ""
	}
	d := descOfValue(v)
	return resOut{Kind: "ok", Val: fmt.Sprint(d)}, d.coqVal()
}

func coqJReport(digest string, seq uint64, ch uint32, va, ts uint64, vals []jval, spec bool) string {
	var vs []string
	for _, v := range vals {
		vs = append(vs, fmt.Sprintf("(%d, %s)", v.T, coqHex([]byte(v.V))))
	}
	return fmt.Sprintf("{| j_digest := %s; j_seq := %s; j_chan := %d; j_va := %s; j_ts := %s; j_values := %s; j_specimen := %s |}",
		coqHex([]byte(digest)), coqZu(seq), ch, coqZu(va), coqZu(ts), coqList(vs), coqBool(spec))
}

func coqFReport(r llo.Report) (string, bool) {
	var vs []string
	for _, v := range r.Values {
		if malformedValue(v) {
			return "", false
		}
		vs = append(vs, descOfValue(v).coqSlot())
	}
	return fmt.Sprintf("{| f_digest := %s; f_seq := %s; f_chan := %d; f_va := %s; f_ts := %s; f_values := %s; f_specimen := %s |}",
		coqHex(r.ConfigDigest[:]), coqZu(r.SeqNr), r.ChannelID, coqZu(r.ValidAfterNanoseconds), coqZu(r.ObservationTimestampNanoseconds),
		coqList(vs), coqBool(r.Specimen)), true
}

func decodeRes(b []byte) (resOut, string) {
	var rep llo.Report
	err, panicked, pv := protect(func() error {
		var e error
		rep, e = llo.JSONReportCodec{}.Decode(b)
		return e
	})
	switch {
	case panicked:
		return resOut{Kind: "panic", Text: fmt.Sprint(pv)}, ""
	case err != nil:
		return resOut{Kind: "err", Err: "EOther", Text: err.Error()}, ""
	}
	s, ok := coqFReport(rep)
	if !ok {
		return resOut{Kind: "panic", Text: "nil nested value"}, ""
	}
	return resOut{Kind: "ok"}, s
}

func textCase(in textIn, tags ...string) caseRec {
	tags = append(tags, in.Kind)
	switch in.Kind {
	case "text":
		v := in.V.value()
		var txt []byte
		err, panicked, _ := protect(func() error {
			var e error
			txt, e = v.MarshalText()
			return e
		})
		tr := resOut{Kind: "ok", Val: string(txt)}
		if panicked {
			tr = resOut{Kind: "panic"}
		} else if err != nil {
			tr = resOut{Kind: "err", Err: "EOther", Text: err.Error()}
		}
		var back llo.StreamValue
		br, bc := resOut{Kind: "err", Err: "EOther"}, ""
		if tr.Kind == "ok" {
			err, panicked, _ = protect(func() error {
				var e error
				back, e = llo.UnmarshalTypedTextStreamValue(&llo.TypedTextStreamValue{Type: v.Type(), SerializedStreamValue: string(txt)})
				return e
			})
			br, bc = svRes(back, err, panicked)
		}
		coq := fmt.Sprintf("TText %s %s %s", in.V.coqVal(), tr.coq(coqHex(txt)), br.coq(bc))
		return caseRec{Input: in, Output: map[string]any{"text": tr, "back": br}, Coq: coq, Tags: tags}
	case "parse":
		s, _ := hex.DecodeString(in.S)
		var out llo.StreamValue
		err, panicked, _ := protect(func() error {
			var e error
			out, e = llo.UnmarshalTypedTextStreamValue(&llo.TypedTextStreamValue{Type: llo.LLOStreamValue_Type(in.T), SerializedStreamValue: string(s)})
			return e
		})
		or, oc := svRes(out, err, panicked)
		tags = append(tags, "out-"+or.Kind)
		return caseRec{Input: in, Output: or, Coq: fmt.Sprintf("TParse %s %s %s", coqZi(int64(in.T)), coqHex(s), or.coq(oc)), Tags: tags}
	case "report":
		var rep llo.Report
		db, _ := hex.DecodeString(in.Digest)
		copy(rep.ConfigDigest[:], db)
		rep.SeqNr, rep.ChannelID, rep.ValidAfterNanoseconds, rep.ObservationTimestampNanoseconds, rep.Specimen = in.Seq, in.Chan, in.VA, in.TS, in.Specimen
		for _, v := range in.Values {
			rep.Values = append(rep.Values, v.value())
		}
		fr, _ := coqFReport(rep)
		var enc []byte
		err, panicked, _ := protect(func() error {
			var e error
			enc, e = llo.JSONReportCodec{}.Encode(rep, llotypes.ChannelDefinition{})
			return e
		})
		er, ec := resOut{Kind: "ok", Val: string(enc)}, ""
		dr, dc := resOut{Kind: "err", Err: "EOther"}, ""
		switch {
		case panicked:
			er = resOut{Kind: "panic"}
		case err != nil:
			er = resOut{Kind: "err", Err: "EOther", Text: err.Error()}
		default:
			// the JSON document as the struct json.Marshal was given
			var j struct {
				ConfigDigest                    string
				SeqNr                           uint64
				ChannelID                       uint32
				ValidAfterNanoseconds           uint64
				ObservationTimestampNanoseconds uint64
				Values                          []jval
				Specimen                        bool
			}
			dec := json.NewDecoder(bytes.NewReader(enc))
			dec.DisallowUnknownFields()
			if e := dec.Decode(&j); e != nil {
				er = resOut{Kind: "panic", Text: "harness could not read the encoder's JSON: " + e.Error()}
			} else {
				ec = coqJReport(j.ConfigDigest, j.SeqNr, j.ChannelID, j.ValidAfterNanoseconds, j.ObservationTimestampNanoseconds, j.Values, j.Specimen)
				dr, dc = decodeRes(enc)
			}
		}
		rawTerm := "None"
		if er.Kind == "ok" {
			rawTerm = "(Some " + coqHex(enc) + ")"
		}
		coq := fmt.Sprintf("TReport %s %s %s %s", fr, er.coq(ec), rawTerm, dr.coq(dc))
		return caseRec{Input: in, Output: map[string]any{"encode": er, "decode": dr}, Coq: coq, Tags: tags}
	case "decode":
		doc, err := json.Marshal(struct {
			ConfigDigest                    string
			SeqNr                           uint64
			ChannelID                       uint32
			ValidAfterNanoseconds           uint64
			ObservationTimestampNanoseconds uint64
			Values                          []jval
			Specimen                        bool
		}{in.Digest, in.Seq, in.Chan, in.VA, in.TS, in.JValues, in.Specimen})
		if err != nil {
			panic(err)
		}
		dr, dc := decodeRes(doc)
		tags = append(tags, "out-"+dr.Kind)
		coq := fmt.Sprintf("TDecode %s %s", coqJReport(in.Digest, in.Seq, in.Chan, in.VA, in.TS, in.JValues, in.Specimen), dr.coq(dc))
		return caseRec{Input: in, Output: dr, Coq: coq, Tags: tags}
	case "pack", "packbytes":
		var digest ocr2types.ConfigDigest
		db, _ := hex.DecodeString(in.Digest)
		copy(digest[:], db)
		var sigs []ocr2types.AttributedOnchainSignature
		for i, s := range in.Sigs {
			sb, _ := hex.DecodeString(s)
			sigs = append(sigs, ocr2types.AttributedOnchainSignature{Signature: sb, Signer: commontypes.OracleID(in.Signers[i])})
		}
		var rep llo.Report
		rep.ConfigDigest, rep.SeqNr, rep.ChannelID, rep.ValidAfterNanoseconds, rep.ObservationTimestampNanoseconds = digest, in.Seq, in.Chan, in.VA, in.TS
		for _, v := range in.Values {
			rep.Values = append(rep.Values, v.value())
		}
		coqSigs := func(ss []ocr2types.AttributedOnchainSignature) string {
			var xs []string
			for _, s := range ss {
				xs = append(xs, fmt.Sprintf("(%s, %d)", coqHex(s.Signature), s.Signer))
			}
			return coqList(xs)
		}
		// the expectation is taken before the call, from an independent copy
		var enc []byte
		if e, p, _ := protect(func() error {
			var e error
			enc, e = llo.JSONReportCodec{}.Encode(rep, llotypes.ChannelDefinition{})
			return e
		}); e != nil || p {
			enc = []byte("{}")
		}
		tcoq := fmt.Sprintf("{| pt_digest := %s; pt_seq := %s; pt_report := %s; pt_sigs := %s |}", coqHex(digest[:]), coqZu(in.Seq), coqHex(enc), coqSigs(sigs))
		if in.Kind == "packbytes" {
			// the exact bytes Pack returns (signature slice nil when there are none, or empty-but-non-nil on request)
			if in.EmptySigs && len(sigs) == 0 {
				sigs = []ocr2types.AttributedOnchainSignature{}
			}
			var packed []byte
			err, panicked, _ := protect(func() error {
				var e error
				packed, e = llo.JSONReportCodec{}.Pack(digest, in.Seq, append([]byte(nil), enc...), sigs)
				return e
			})
			if err != nil || panicked {
				packed = nil
			}
			// UnpackDecode of those bytes
			ud := resOut{Kind: "err", Err: "EOther"}
			udc := ""
			if packed != nil {
				var d2 ocr2types.ConfigDigest
				var s2 uint64
				var r2 llo.Report
				var sg2 []ocr2types.AttributedOnchainSignature
				err, panicked, pv := protect(func() error {
					var e error
					d2, s2, r2, sg2, e = llo.JSONReportCodec{}.UnpackDecode(packed)
					return e
				})
				switch {
				case panicked:
					ud = resOut{Kind: "panic", Text: fmt.Sprint(pv)}
				case err != nil:
					ud = resOut{Kind: "err", Err: "EOther", Text: err.Error()}
				default:
					if fr, ok := coqFReport(r2); ok {
						ud = resOut{Kind: "ok"}
						udc = fmt.Sprintf("(%s, %s, %s, %s)", coqHex(d2[:]), coqZu(s2), fr, coqSigs(sg2))
					} else {
						ud = resOut{Kind: "panic", Text: "nil nested value"}
					}
				}
			}
			return caseRec{Input: in, Output: map[string]any{"packed": string(packed), "unpack_decode": ud}, Tags: append(tags, "packbytes"),
				Coq: fmt.Sprintf("TPackBytes %s %s %s %s", tcoq, coqBool(sigs == nil), coqHex(packed), ud.coq(udc))}
		}
		var packed []byte
		pr, pc := resOut{Kind: "ok"}, ""
		ur, uc := resOut{Kind: "err", Err: "EOther"}, ""
		err, panicked, _ := protect(func() error {
			var e error
			packed, e = llo.JSONReportCodec{}.Pack(digest, in.Seq, append([]byte(nil), enc...), sigs)
			return e
		})
		switch {
		case panicked:
			pr = resOut{Kind: "panic"}
		case err != nil:
			pr = resOut{Kind: "err", Err: "EOther", Text: err.Error()}
		default:
			var j struct {
				ConfigDigest string                                 `json:"configDigest"`
				SeqNr        uint64                                 `json:"seqNr"`
				Report       json.RawMessage                        `json:"report"`
				Sigs         []ocr2types.AttributedOnchainSignature `json:"sigs"`
			}
			dec := json.NewDecoder(bytes.NewReader(packed))
			dec.DisallowUnknownFields()
			if e := dec.Decode(&j); e != nil {
				pr = resOut{Kind: "panic", Text: "harness could not read the packed JSON: " + e.Error()}
				break
			}
			pc = fmt.Sprintf("{| jp_digest := %s; jp_seq := %s; jp_report := %s; jp_sigs := %s |}", coqHex([]byte(j.ConfigDigest)), coqZu(j.SeqNr), coqHex(j.Report), coqSigs(j.Sigs))
			var d2 ocr2types.ConfigDigest
			var s2 uint64
			var r2 []byte
			var sg2 []ocr2types.AttributedOnchainSignature
			err, panicked, _ = protect(func() error {
				var e error
				d2, s2, r2, sg2, e = llo.JSONReportCodec{}.Unpack(packed)
				return e
			})
			switch {
			case panicked:
				ur = resOut{Kind: "panic"}
			case err != nil:
				ur = resOut{Kind: "err", Err: "EOther", Text: err.Error()}
			default:
				ur = resOut{Kind: "ok"}
				uc = fmt.Sprintf("{| pt_digest := %s; pt_seq := %s; pt_report := %s; pt_sigs := %s |}", coqHex(d2[:]), coqZu(s2), coqHex(r2), coqSigs(sg2))
			}
		}
		return caseRec{Input: in, Output: map[string]any{"pack": pr, "unpack": ur}, Coq: fmt.Sprintf("TPack %s %s %s", tcoq, pr.coq(pc), ur.coq(uc)), Tags: tags}
	}
	panic("bad kind " + in.Kind)
}

// decimals of either sign, exponents in [-40, 40], up to 60 digits
func genDecText(r *rand.Rand) decDesc {
	switch r.Intn(10) {
	case 0:
		return mkDec(r.Intn(2) == 0, big.NewInt(0), int32(r.Intn(81)-40))
	case 1:
		return mkDec(r.Intn(2) == 0, bigPow10(r.Intn(60)), int32(r.Intn(81)-40))
	case 2, 3:
		m := new(big.Int).Rand(r, bigPow10(1+r.Intn(60)))
		return mkDec(r.Intn(2) == 0, m, int32(r.Intn(81)-40))
	case 4: // trailing zeros in the fraction
		m := new(big.Int).Mul(big.NewInt(int64(1+r.Intn(99999))), bigPow10(r.Intn(8)))
		return mkDec(r.Intn(2) == 0, m, int32(-r.Intn(12)))
	case 5: // fewer digits than the scale
		return mkDec(r.Intn(2) == 0, big.NewInt(int64(r.Intn(1000))), int32(-3-r.Intn(30)))
	default:
		return mkDec(r.Intn(3) == 0, big.NewInt(int64(r.Intn(2000000))), int32(r.Intn(9)-6))
	}
}

func genValText(r *rand.Rand, depth int) *svDesc {
	switch r.Intn(6) {
	case 0, 1:
		d := genDecText(r)
		return &svDesc{T: "dec", D: &d}
	case 2, 3:
		a, b, c := genDecText(r), genDecText(r), genDecText(r)
		return &svDesc{T: "quote", Bid: &a, Bm: &b, Ask: &c}
	default:
		if depth >= 3 {
			d := genDecText(r)
			return &svDesc{T: "dec", D: &d}
		}
		at := r.Uint64()
		switch r.Intn(4) {
		case 0:
			at = math.MaxUint64 - uint64(r.Intn(2))
		case 1:
			at = uint64(r.Intn(3))
		}
		return &svDesc{T: "tsv", At: at, In: genValText(r, depth+1)}
	}
}

var fixedTexts = []struct {
	t int32
	s string
}{
	{0, ""}, {0, "-"}, {0, "+"}, {0, "."}, {0, "-."}, {0, "+7"}, {0, ".5"}, {0, "5."}, {0, "-.5"}, {0, "1.2.3"}, {0, "1e5"}, {0, "1E-5"}, {0, "0x10"},
	{0, "--1"}, {0, " 1"}, {0, "1 "}, {0, "00012.3400"}, {0, "-0"}, {0, "-0.000"}, {0, "1_000"}, {0, "١"},
	{1, "Q{Bid: 1, Benchmark: 2, Ask: 3}"}, {1, "xxQ{Bid: 1, Benchmark: 2, Ask: 3}yy"}, {1, "Q{Bid: -1, Benchmark: -2.5, Ask: -.3}"},
	{1, "Q{Bid: 1, Benchmark: 2, Ask: 3"}, {1, "Q{Bid: 1.2.3, Benchmark: 2, Ask: 3}"}, {1, "Q{Bid: ., Benchmark: 2, Ask: 3}"},
	{1, "Q{Bid: 1,Benchmark: 2, Ask: 3}"}, {1, "Q{Bid: --1, Benchmark: 2, Ask: 3}"}, {1, "Q{Bid: 1-, Benchmark: 2, Ask: 3}"},
	{1, "Q{Bid: , Benchmark: 2, Ask: 3}"}, {1, "Q{Bid: 1e2, Benchmark: 2, Ask: 3}"}, {1, "Q{Bid: 1, Benchmark: 2, Ask: 3}Q{Bid: 4, Benchmark: 5, Ask: 6}"},
	{1, "Q{Bid: 9, Q{Bid: 1, Benchmark: 2, Ask: 3}"}, {1, ""},
	{2, `TSV{ObservedAtNanoseconds: 5, StreamValue: {"t":0,"v":"1.5"}}`}, {2, `TSV{ObservedAtNanoseconds: 18446744073709551615, StreamValue: {"t":0,"v":"1"}}`},
	{2, `TSV{ObservedAtNanoseconds: 18446744073709551616, StreamValue: {"t":0,"v":"1"}}`}, {2, `TSV{ObservedAtNanoseconds: 007, StreamValue: {"t":0,"v":"1"}}`},
	{2, `TSV{ObservedAtNanoseconds: -1, StreamValue: {"t":0,"v":"1"}}`}, {2, `TSV{ObservedAtNanoseconds: 5, StreamValue: {"t":3,"v":"1"}}`},
	{2, `TSV{ObservedAtNanoseconds: 5, StreamValue: {"t":0,"v":"1"}}x`}, {2, `xTSV{ObservedAtNanoseconds: 5, StreamValue: {"t":0,"v":"1"}}`},
	{2, `TSV{ObservedAtNanoseconds: 5, StreamValue: }`}, {2, `TSV{ObservedAtNanoseconds: 5, StreamValue: {"t":0,"v":"1"}` + "\n}"},
	{2, `TSV{ObservedAtNanoseconds: 5, StreamValue: {"t":2147483648,"v":"1"}}`}, {2, `TSV{ObservedAtNanoseconds: 5, StreamValue: {"t":1,"v":"Q{Bid: 1, Benchmark: 2, Ask: 3}"}}`},
	{2, `TSV{ObservedAtNanoseconds: 5, StreamValue: {"t":0,"v":"10"}}`}, {2, `TSV{ObservedAtNanoseconds: 5, StreamValue: {"v":"1","t":0}}`},
	{2, `TSV{ObservedAtNanoseconds: 5, StreamValue: {"t":0,"v":"1"} }`}, {2, ""}, {3, "1"}, {-1, "1"}, {7, ""},
}

func genTextforms(seed int64, n int) []caseRec {
	r := rand.New(rand.NewSource(seed))
	var cs []caseRec
	for _, f := range fixedTexts {
		cs = append(cs, textCase(textIn{Kind: "parse", T: f.t, S: hex.EncodeToString([]byte(f.s))}, "fixed"))
	}
	randDigest := func() string {
		b := make([]byte, 32)
		r.Read(b)
		return hex.EncodeToString(b)
	}
	for len(cs) < n {
		switch k := r.Intn(10); {
		case k < 4:
			cs = append(cs, textCase(textIn{Kind: "text", V: genValText(r, 0)}, "random"))
		case k < 6: // a valid text, mutated
			v := genValText(r, 0)
			txt, _ := v.value().MarshalText()
			t := int32(v.value().Type())
			for m := r.Intn(3); m >= 0 && len(txt) > 0; m-- {
				i := r.Intn(len(txt))
				switch r.Intn(5) {
				case 0:
					txt = append(txt[:i:i], txt[i+1:]...)
				case 1:
					txt = append(txt[:i:i], append([]byte{"0123456789.-,{}\": QeE+\\"[r.Intn(23)]}, txt[i:]...)...)
				case 2:
					txt[i] = "0123456789.-,{}\": QeE+\\"[r.Intn(23)]
				case 3:
					txt = txt[:i]
				default:
					if r.Intn(3) == 0 {
						t = int32(r.Intn(4))
					}
				}
			}
			cs = append(cs, textCase(textIn{Kind: "parse", T: t, S: hex.EncodeToString(txt)}, "mutated"))
		case k < 8:
			in := textIn{Kind: "report", Digest: randDigest(), Seq: 1 + uint64(r.Int63()), Chan: r.Uint32(), VA: r.Uint64(), TS: r.Uint64(), Specimen: r.Intn(2) == 0}
			if r.Intn(3) == 0 {
				in.Seq, in.VA, in.TS = math.MaxUint64-uint64(r.Intn(2)), math.MaxUint64, math.MaxUint64-1
			}
			for i := r.Intn(6); i > 0; i-- {
				in.Values = append(in.Values, genValText(r, 0))
			}
			switch r.Intn(25) {
			case 0:
				in.Seq = 0
			case 1:
				if len(in.Values) > 0 {
					in.Values[r.Intn(len(in.Values))] = &svDesc{T: "nil"}
				}
			}
			cs = append(cs, textCase(in, "random"))
		case k < 9:
			in := textIn{Kind: "decode", Digest: randDigest(), Seq: 1 + uint64(r.Int63()), Chan: r.Uint32(), VA: r.Uint64(), TS: r.Uint64(), Specimen: r.Intn(2) == 0}
			for i := r.Intn(4); i > 0; i-- {
				v := genValText(r, 0)
				txt, _ := v.value().MarshalText()
				in.JValues = append(in.JValues, jval{T: int32(v.value().Type()), V: string(txt)})
			}
			switch r.Intn(10) {
			case 0:
				in.Digest = strings.ToUpper(in.Digest)
			case 1:
				in.Digest = in.Digest[:r.Intn(64)]
			case 2:
				in.Digest = in.Digest + "00"
			case 3:
				b := []byte(in.Digest)
				b[r.Intn(64)] = "gxz -"[r.Intn(5)]
				in.Digest = string(b)
			case 4:
				in.Seq = 0
			case 5:
				if len(in.JValues) > 0 {
					in.JValues[0].T = int32(r.Intn(6) - 1)
				}
			case 6:
				if len(in.JValues) > 0 {
					f := fixedTexts[r.Intn(len(fixedTexts))]
					ok := true
					for _, c := range []byte(f.s) {
						ok = ok && c >= 32 && c < 127
					}
					if ok {
						in.JValues[0] = jval{T: f.t, V: f.s}
					}
				}
			case 7:
				in.Digest = ""
			}
			cs = append(cs, textCase(in, "random"))
		default:
			in := textIn{Kind: "pack", Digest: randDigest(), Seq: r.Uint64(), Chan: r.Uint32(), VA: r.Uint64(), TS: r.Uint64()}
			for i := r.Intn(4); i > 0; i-- {
				in.Values = append(in.Values, genValText(r, 0))
			}
			for i := r.Intn(6); i > 0; i-- {
				sb := make([]byte, r.Intn(70))
				r.Read(sb)
				in.Sigs = append(in.Sigs, hex.EncodeToString(sb))
				in.Signers = append(in.Signers, uint8(r.Intn(256)))
			}
			if in.Seq == 0 {
				in.Seq = 1
			}
			cs = append(cs, textCase(in, "random"))
			// the same tuple once more, for the exact bytes
			in.Kind = "packbytes"
			in.EmptySigs = r.Intn(2) == 0
			cs = append(cs, textCase(in, "random"))
		}
	}
	return cs
}

func cmdTextforms(seed int64, n int, out, replay, tier string) {
	var cs []caseRec
	if replay != "" {
		var f struct {
			Cases []struct {
				Input textIn `json:"input"`
			} `json:"cases"`
		}
		b, err := os.ReadFile(replay)
		if err != nil {
			fatal(err)
		}
		if err := json.Unmarshal(b, &f); err != nil {
			fatal(err)
		}
		for _, c := range f.Cases {
			cs = append(cs, textCase(c.Input, "replay"))
		}
	} else {
		cs = genTextforms(seed, n)
	}
	header := "From DS Require Import Base Decimal StreamValue TextForms JsonReportBytes CasesText.\n"
	if err := writeCasesSharded(out, "textforms", seed, header, "text_case", "text_eval", cs, 300); err != nil {
		fatal(err)
	}
	fmt.Printf("textforms: %d cases\n", len(cs))
}
