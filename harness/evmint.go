package main

import (
	"encoding/hex"
	"encoding/json"
	"fmt"
	"math/big"
	"math/rand"
	"os"
	"strings"

	"github.com/smartcontractkit/chainlink-data-streams/llo/reportcodecs/evm"
)

type evmintIn struct {
	V string `json:"v"`     // decimal
	T string `json:"t_hex"` // type string bytes, hex
	S string `json:"t"`     // type string, for reading
}

func evmErrKind(err error) string {
	s := err.Error()
	switch {
	case strings.Contains(s, "invalid Solidity type"):
		return "EInvalidType"
	case strings.Contains(s, "out of range"), strings.Contains(s, "negative value provided"), strings.Contains(s, "is too large"):
		return "EOutOfRange"
	}
	return "EOther"
}

func runEvmint(v *big.Int, t string) (resOut, resOut, []byte, []byte) {
	var pk, pd []byte
	one := func(f func(*big.Int, string) ([]byte, error), dst *[]byte) resOut {
		var b []byte
		err, panicked, pv := protect(func() error {
			var e error
			b, e = f(new(big.Int).Set(v), t)
			return e
		})
		if panicked {
			return resOut{Kind: "panic", Text: fmt.Sprint(pv)}
		}
		if err != nil {
			return resOut{Kind: "err", Err: evmErrKind(err), Text: err.Error()}
		}
		*dst = b
		return resOut{Kind: "ok", Val: hex.EncodeToString(b)}
	}
	a := one(evm.EncodePackedBigInt, &pk)
	b := one(evm.EncodePaddedBigInt, &pd)
	return a, b, pk, pd
}

func evmintCase(v *big.Int, t string, tags ...string) caseRec {
	a, b, pk, pd := runEvmint(v, t)
	coq := fmt.Sprintf("{| ec_v := %s; ec_t := %s; ec_packed := %s; ec_padded := %s |}",
		coqZ(v), coqHex([]byte(t)), a.coq(coqHex(pk)), b.coq(coqHex(pd)))
	return caseRec{
		Input:  evmintIn{V: v.String(), T: hex.EncodeToString([]byte(t)), S: t},
		Output: map[string]resOut{"packed": a, "padded": b},
		Coq:    coq, Tags: tags,
	}
}

var malformedTypes = []string{"", "uint", "int", "uint08", "Uint8", "UINT8", "int7", "uint7", "uint264", "int512",
	"uint8\n", "\nuint8", " uint8", "uint8 ", "uint256x", "xuint256", "uuint8", "uint-8", "uint+8", "uint 8",
	"bytes32", "bool", "address", "int0", "uint0", "uint00008", "uint1", "int2560", "uint816", "int88 ", "u", "i",
	"uint25", "uint2566", "int\x008", "uint８", "bytes0", "string", "uint8|16", "(u?int)(8)", "^uint8$"}

func genEvmint(seed int64, n int, directed []evmintIn) []caseRec {
	r := rand.New(rand.NewSource(seed))
	var cs []caseRec
	for _, d := range directed {
		v, _ := new(big.Int).SetString(d.V, 10)
		tb, _ := hex.DecodeString(d.T)
		cs = append(cs, evmintCase(v, string(tb), "replay"))
	}
	one := big.NewInt(1)
	// exhaustive boundary grid: 64 types x {min-1,min,min+1,-1,0,1,max-1,max,max+1}
	for k := 1; k <= 32; k++ {
		w := 8 * k
		for _, signed := range []bool{false, true} {
			t := fmt.Sprintf("uint%d", w)
			lo, hi := big.NewInt(0), new(big.Int).Sub(pow2(w), one)
			if signed {
				t = fmt.Sprintf("int%d", w)
				lo, hi = new(big.Int).Neg(pow2(w-1)), new(big.Int).Sub(pow2(w-1), one)
			}
			for _, b := range []*big.Int{lo, hi} {
				for d := int64(-1); d <= 1; d++ {
					cs = append(cs, evmintCase(new(big.Int).Add(b, big.NewInt(d)), t, "grid"))
				}
			}
			for _, x := range []int64{-1, 0, 1} {
				cs = append(cs, evmintCase(big.NewInt(x), t, "grid"))
			}
		}
	}
	// +-2^k against a rotating selection of types
	for k := 0; k <= 300; k += 1 {
		w := 8 * (1 + (k*7)%32)
		for _, pfx := range []string{"uint", "int"} {
			t := fmt.Sprintf("%s%d", pfx, w)
			cs = append(cs, evmintCase(pow2(k), t, "pow2"), evmintCase(new(big.Int).Neg(pow2(k)), t, "pow2"))
		}
	}
	for _, t := range malformedTypes {
		cs = append(cs, evmintCase(big.NewInt(int64(r.Intn(5)-2)), t, "malformed"))
	}
	// random: values up to 300 bits, bit length centred on the type's width half of the time
	for len(cs) < n {
		w := 8 * (1 + r.Intn(32))
		t := fmt.Sprintf("uint%d", w)
		if r.Intn(2) == 0 {
			t = fmt.Sprintf("int%d", w)
		}
		var v *big.Int
		switch r.Intn(4) {
		case 0:
			v = randBig(r, 300)
		case 1:
			v = randBig(r, w+1)
		case 2: // near a boundary
			v = pow2(w - r.Intn(2))
			if r.Intn(2) == 0 {
				v.Neg(v)
			}
			v.Add(v, big.NewInt(int64(r.Intn(7)-3)))
		default:
			v = randBig(r, w-1)
		}
		if r.Intn(25) == 0 { // mutate the type string
			bs := []byte(t)
			bs[r.Intn(len(bs))] = byte(32 + r.Intn(95))
			t = string(bs)
		}
		cs = append(cs, evmintCase(v, t, "random"))
	}
	return cs
}

const evmintHeader = "From DS Require Import Base EvmInt CasesEvmInt.\n"

func cmdEvmint(seed int64, n int, out, replay string) {
	var directed []evmintIn
	if replay != "" {
		directed = loadReplayInputs[evmintIn](replay)
		n = 0
	}
	cs := genEvmint(seed, n, directed)
	if replay != "" {
		cs = cs[:len(directed)]
	}
	if err := writeCases(out, "evmint", seed, evmintHeader, "evmint_case", "evmint_eval", cs); err != nil {
		fatal(err)
	}
}

// loadReplayInputs reads either a replay file {"cases":[{"input":...}]} or a corpus file with the same shape
func loadReplayInputs[T any](path string) []T {
	b, err := os.ReadFile(path)
	if err != nil {
		fatal(err)
	}
	var f struct {
		Cases []struct {
			Input json.RawMessage `json:"input"`
		} `json:"cases"`
	}
	if err := json.Unmarshal(b, &f); err != nil {
		fatal(err)
	}
	var out []T
	for _, c := range f.Cases {
		var t T
		if err := json.Unmarshal(c.Input, &t); err != nil {
			fatal(err)
		}
		out = append(out, t)
	}
	return out
}
