package main

// Shared pieces for the LLO projections: plugin construction through the real factory, mock
// caches, a recording report codec, and Gallina printers for outcomes / observations / reports.

import (
	"bytes"
	"context"
	"encoding/json"
	"errors"
	"fmt"
	"sort"
	"strings"
	"sync"

	"github.com/smartcontractkit/libocr/offchainreporting2/types"
	"github.com/smartcontractkit/libocr/offchainreporting2plus/ocr3types"

	"github.com/smartcontractkit/chainlink-common/pkg/logger"
	llotypes "github.com/smartcontractkit/chainlink-common/pkg/types/llo"

	"github.com/smartcontractkit/chainlink-data-streams/llo"
)

// ---- channel definitions ----
type streamDesc struct {
	ID  uint32 `json:"id"`
	Agg uint32 `json:"agg"`
}
type defDesc struct {
	Fmt     uint32       `json:"fmt"`
	Streams []streamDesc `json:"streams"`
	Opts    []byte       `json:"opts,omitempty"`
}

func (d defDesc) def() llotypes.ChannelDefinition {
	cd := llotypes.ChannelDefinition{ReportFormat: llotypes.ReportFormat(d.Fmt), Opts: d.Opts}
	for _, s := range d.Streams {
		cd.Streams = append(cd.Streams, llotypes.Stream{StreamID: s.ID, Aggregator: llotypes.Aggregator(s.Agg)})
	}
	return cd
}
func descOfDef(cd llotypes.ChannelDefinition) defDesc {
	d := defDesc{Fmt: uint32(cd.ReportFormat), Opts: cd.Opts}
	for _, s := range cd.Streams {
		d.Streams = append(d.Streams, streamDesc{ID: s.StreamID, Agg: uint32(s.Aggregator)})
	}
	return d
}
func coqDef(cd llotypes.ChannelDefinition) string {
	var ss []string
	for _, s := range cd.Streams {
		ss = append(ss, fmt.Sprintf("(%d, %d)", s.StreamID, uint32(s.Aggregator)))
	}
	return fmt.Sprintf("{| cd_fmt := %d; cd_streams := %s; cd_opts := %s |}", uint32(cd.ReportFormat), coqList(ss), coqHex(cd.Opts))
}
func coqDefs(m llotypes.ChannelDefinitions) string {
	ids := make([]uint32, 0, len(m))
	for id := range m {
		ids = append(ids, id)
	}
	sort.Slice(ids, func(i, j int) bool { return ids[i] < ids[j] })
	var xs []string
	for _, id := range ids {
		xs = append(xs, fmt.Sprintf("(%d, %s)", id, coqDef(m[id])))
	}
	return "(list_to_map " + coqList(xs) + ")"
}
func coqU64Map(m map[uint32]uint64) string {
	ids := make([]uint32, 0, len(m))
	for id := range m {
		ids = append(ids, id)
	}
	sort.Slice(ids, func(i, j int) bool { return ids[i] < ids[j] })
	var xs []string
	for _, id := range ids {
		xs = append(xs, fmt.Sprintf("(%d, %s)", id, coqZu(m[id])))
	}
	return "(list_to_map " + coqList(xs) + ")"
}
func coqStage(s llotypes.LifeCycleStage) string {
	switch s {
	case llo.LifeCycleStageStaging:
		return "Staging"
	case llo.LifeCycleStageProduction:
		return "Production"
	case llo.LifeCycleStageRetired:
		return "Retired"
	}
	return "(OtherStage " + coqHex([]byte(s)) + ")"
}

// Gallina term of type `outcome`
func coqOutcome(o llo.Outcome) string {
	type pair struct{ sid, agg uint32 }
	var ps []pair
	for sid, m := range o.StreamAggregates {
		for agg := range m {
			ps = append(ps, pair{sid, uint32(agg)})
		}
	}
	sort.Slice(ps, func(i, j int) bool {
		if ps[i].sid == ps[j].sid {
			return ps[i].agg < ps[j].agg
		}
		return ps[i].sid < ps[j].sid
	})
	var as []string
	for _, p := range ps {
		v := o.StreamAggregates[p.sid][llotypes.Aggregator(p.agg)]
		as = append(as, fmt.Sprintf("((%d, %d), %s)", p.sid, p.agg, descOfValue(v).coqVal()))
	}
	return fmt.Sprintf("{| o_stage := %s; o_ts := %s; o_defs := %s; o_va := %s; o_aggs := (list_to_map %s) |}",
		coqStage(o.LifeCycleStage), coqZu(o.ObservationTimestampNanoseconds), coqDefs(o.ChannelDefinitions),
		coqU64Map(o.ValidAfterNanoseconds), coqList(as))
}

// ---- mocks ----
type mockRetirementCache struct {
	mu       sync.Mutex
	attested []byte            // what honest successor nodes attach (nil until the predecessor retired)
	fail     bool              // AttestedRetirementReport returns an error
	accepted map[string][]byte // attested blob -> retirement report bytes it attests
}

const attPrefix = "ATTESTED:"

func newMockRetirementCache() *mockRetirementCache {
	return &mockRetirementCache{accepted: map[string][]byte{}}
}
func (c *mockRetirementCache) publish(report []byte) {
	c.mu.Lock()
	defer c.mu.Unlock()
	blob := append([]byte(attPrefix), report...)
	c.attested = blob
	c.accepted[string(blob)] = report
}
func (c *mockRetirementCache) AttestedRetirementReport(types.ConfigDigest) ([]byte, error) {
	c.mu.Lock()
	defer c.mu.Unlock()
	if c.fail {
		return nil, errors.New("retirement report cache unavailable")
	}
	return c.attested, nil
}
func (c *mockRetirementCache) CheckAttestedRetirementReport(_ types.ConfigDigest, blob []byte) (llo.RetirementReport, error) {
	c.mu.Lock()
	defer c.mu.Unlock()
	rep, ok := c.accepted[string(blob)]
	if !ok {
		return llo.RetirementReport{}, errors.New("invalid attestation")
	}
	return llo.StandardRetirementReportCodec{}.Decode(rep)
}

type mockShouldRetire struct {
	v    bool
	fail bool
}

func (m *mockShouldRetire) ShouldRetire(types.ConfigDigest) (bool, error) {
	if m.fail {
		return false, errors.New("should-retire cache unavailable")
	}
	return m.v, nil
}

type mockDefs struct{ defs llotypes.ChannelDefinitions }

func (m *mockDefs) Definitions() llotypes.ChannelDefinitions { return m.defs }

type mockDataSource struct {
	vals map[uint32]*svDesc
	fail bool
}

func (m *mockDataSource) Observe(_ context.Context, sv llo.StreamValues, _ llo.DSOpts) error {
	if m.fail {
		return errors.New("data source unavailable")
	}
	for id := range sv {
		if d, ok := m.vals[id]; ok {
			sv[id] = d.value()
		}
	}
	return nil
}

// recording report codec: remembers the Report structs the plugin hands to it
type recordedReport struct {
	Report llo.Report
	Def    llotypes.ChannelDefinition
}
type recordingCodec struct {
	mu      sync.Mutex
	reports []recordedReport
	verify  func(llotypes.ChannelDefinition) error
	inner   llo.ReportCodec // if set, the bytes come from this real codec
}

func (c *recordingCodec) Encode(r llo.Report, cd llotypes.ChannelDefinition) ([]byte, error) {
	c.mu.Lock()
	defer c.mu.Unlock()
	c.reports = append(c.reports, recordedReport{r, cd})
	if c.inner != nil {
		return c.inner.Encode(r, cd)
	}
	return []byte(fmt.Sprintf("report-%d", r.ChannelID)), nil
}
func (c *recordingCodec) Verify(cd llotypes.ChannelDefinition) error {
	if c.verify != nil {
		return c.verify(cd)
	}
	return nil
}
func (c *recordingCodec) take() []recordedReport {
	c.mu.Lock()
	defer c.mu.Unlock()
	r := c.reports
	c.reports = nil
	return r
}

// ---- plugin construction through the real factory ----
type instCfg struct {
	F        int    `json:"f"`
	N        int    `json:"n"`
	PVer     uint32 `json:"pver"`
	Interval uint64 `json:"interval"`
	HasPred  bool   `json:"has_pred"`
}

type node struct {
	plugin  *llo.Plugin
	rec     *recordingCodec
	retire  *mockShouldRetire
	defs    *mockDefs
	ds      *mockDataSource
	rcache  *mockRetirementCache
	digest  types.ConfigDigest
	hasPred bool
}

var predDigest = types.ConfigDigest{0xaa, 1}

func buildNode(cfg instCfg, digest types.ConfigDigest, rcache *mockRetirementCache, telemetry bool) (*node, error) {
	n := &node{rec: &recordingCodec{}, retire: &mockShouldRetire{}, defs: &mockDefs{}, ds: &mockDataSource{vals: map[uint32]*svDesc{}}, rcache: rcache, digest: digest, hasPred: cfg.HasPred}
	oc := llo.OnchainConfig{Version: 1}
	if cfg.HasPred {
		pd := predDigest
		oc.PredecessorConfigDigest = &pd
	}
	ocb, err := llo.EVMOnchainConfigCodec{}.Encode(oc)
	if err != nil {
		return nil, err
	}
	offb, err := llo.OffchainConfig{ProtocolVersion: cfg.PVer, DefaultMinReportIntervalNanoseconds: cfg.Interval}.Encode()
	if err != nil {
		return nil, err
	}
	params := llo.PluginFactoryParams{
		Config:                           llo.Config{},
		PredecessorRetirementReportCache: rcache,
		ShouldRetireCache:                n.retire,
		RetirementReportCodec:            llo.StandardRetirementReportCodec{},
		ChannelDefinitionCache:           n.defs,
		DataSource:                       n.ds,
		Logger:                           logger.Nop(),
		OnchainConfigCodec:               llo.EVMOnchainConfigCodec{},
		ReportCodecs: map[llotypes.ReportFormat]llo.ReportCodec{
			llotypes.ReportFormatJSON:                 n.rec,
			llotypes.ReportFormatEVMPremiumLegacy:     n.rec,
			llotypes.ReportFormatEVMABIEncodeUnpacked: n.rec,
			llotypes.ReportFormat(99):                 n.rec, // a format without special treatment; histories never lack a codec (C11 covers that)
		},
	}
	if telemetry {
		params.OutcomeTelemetryCh = make(chan *llo.LLOOutcomeTelemetry, 1)
		params.ReportTelemetryCh = make(chan *llo.LLOReportTelemetry, 1)
	}
	rp, _, err := llo.NewPluginFactory(params).NewReportingPlugin(context.Background(), ocr3types.ReportingPluginConfig{
		ConfigDigest: digest, N: cfg.N, F: cfg.F, OnchainConfig: ocb, OffchainConfig: offb,
	})
	if err != nil {
		return nil, err
	}
	p, ok := rp.(*llo.Plugin)
	if !ok {
		return nil, fmt.Errorf("factory returned %T", rp)
	}
	n.plugin = p
	return n, nil
}

func coqCfg(c instCfg) string {
	return fmt.Sprintf("{| c_f := %s; c_pver := %d; c_interval := %s; c_has_pred := %s |}", coqNat(c.F), c.PVer, coqZu(c.Interval), coqBool(c.HasPred))
}

// ---- observations ----
type obsIn struct {
	Honest   bool               `json:"honest"`
	Scripted bool               `json:"scripted,omitempty"` // use the fields below even for a correct observer (directed histories)
	Raw      []byte             `json:"raw,omitempty"`      // if set: these bytes are the observation (undecodable / hand-mutated)
	Att      string             `json:"att,omitempty"`      // "" | "bad" | "good"
	Retire   bool               `json:"retire,omitempty"`
	Ts       uint64             `json:"ts"`
	Removes  []uint32           `json:"removes,omitempty"`
	Updates  map[uint32]defDesc `json:"updates,omitempty"`
	Values   map[uint32]*svDesc `json:"values,omitempty"`
}

func (o obsIn) observation(rc *mockRetirementCache) llo.Observation {
	ob := llo.Observation{ShouldRetire: o.Retire, UnixTimestampNanoseconds: o.Ts}
	switch o.Att {
	case "bad":
		ob.AttestedPredecessorRetirement = []byte("FORGED")
	case "good":
		ob.AttestedPredecessorRetirement, _ = rc.AttestedRetirementReport(predDigest)
		if ob.AttestedPredecessorRetirement == nil {
			ob.AttestedPredecessorRetirement = []byte("FORGED-EARLY")
		}
	}
	if len(o.Removes) > 0 {
		ob.RemoveChannelIDs = map[llotypes.ChannelID]struct{}{}
		for _, id := range o.Removes {
			ob.RemoveChannelIDs[id] = struct{}{}
		}
	}
	if len(o.Updates) > 0 {
		ob.UpdateChannelDefinitions = llotypes.ChannelDefinitions{}
		for id, d := range o.Updates {
			ob.UpdateChannelDefinitions[id] = d.def()
		}
	}
	if len(o.Values) > 0 {
		ob.StreamValues = llo.StreamValues{}
		for id, v := range o.Values {
			ob.StreamValues[id] = v.value()
		}
	}
	return ob
}

// Gallina term of type `option observation`, as the implementation decodes these bytes
func coqObservation(p *llo.Plugin, rc *mockRetirementCache, raw []byte) string {
	ob, err := p.ObservationCodec.Decode(raw)
	if err != nil {
		return "None"
	}
	att := "NoAttest"
	if len(ob.AttestedPredecessorRetirement) != 0 {
		rr, err := rc.CheckAttestedRetirementReport(predDigest, ob.AttestedPredecessorRetirement)
		if err != nil {
			att = "BadAttest"
		} else {
			att = "(GoodAttest " + coqU64Map(rr.ValidAfterNanoseconds) + ")"
		}
	}
	var rem []uint32
	for id := range ob.RemoveChannelIDs {
		rem = append(rem, id)
	}
	sort.Slice(rem, func(i, j int) bool { return rem[i] < rem[j] })
	var rs []string
	for _, id := range rem {
		rs = append(rs, fmt.Sprint(id))
	}
	var sids []uint32
	for id := range ob.StreamValues {
		sids = append(sids, id)
	}
	sort.Slice(sids, func(i, j int) bool { return sids[i] < sids[j] })
	var vs []string
	for _, id := range sids {
		vs = append(vs, fmt.Sprintf("(%d, %s)", id, descOfValue(ob.StreamValues[id]).coqVal()))
	}
	return fmt.Sprintf("(Some {| ob_att := %s; ob_retire := %s; ob_ts := %s; ob_removes := %s; ob_updates := %s; ob_values := (list_to_map %s) |})",
		att, coqBool(ob.ShouldRetire), coqZu(ob.UnixTimestampNanoseconds), coqList(rs), coqDefs(ob.UpdateChannelDefinitions), coqList(vs))
}

func coqReport(r recordedReport) string {
	var vs []string
	for _, v := range r.Report.Values {
		vs = append(vs, descOfValue(v).coqSlot())
	}
	return fmt.Sprintf("{| r_chan := %d; r_va := %s; r_ts := %s; r_values := %s; r_specimen := %s; r_def := %s |}",
		r.Report.ChannelID, coqZu(r.Report.ValidAfterNanoseconds), coqZu(r.Report.ObservationTimestampNanoseconds),
		coqList(vs), coqBool(r.Report.Specimen), coqDef(r.Def))
}

func errKindLLO(err error) string {
	s := err.Error()
	switch {
	case strings.Contains(s, "invariant violation: expected at least 2f+1"):
		return "EInvalid"
	case strings.Contains(s, "no valid observations"):
		return "ETooFew"
	}
	return "EOther"
}

var _ = bytes.Equal
var _ = json.Marshal

func ocrCtx(seq uint64) ocr3types.OutcomeContext { return ocr3types.OutcomeContext{SeqNr: seq} }
func ocrAO(raw []byte) types.AttributedObservation {
	return types.AttributedObservation{Observation: raw}
}
