package main

// Projection `mtls` (C20): rpc/mtls. Handshake matrix over in-memory pipes with the package's transport
// credentials, VerifyPeerCertificate on every certificate shape, constructor checks, a concurrent Replace / verify /
// Keys stress run, and the same stress under the race detector (go test -race of this module).

import (
	"bytes"
	"context"
	"crypto/ecdsa"
	"crypto/ed25519"
	"crypto/elliptic"
	crand "crypto/rand"
	"crypto/tls"
	"crypto/x509"
	"encoding/json"
	"fmt"
	"google.golang.org/grpc/credentials"
	"io"
	"math/big"
	"math/rand"
	"net"
	"os"
	"os/exec"
	"path/filepath"
	"strings"
	"sync"
	"sync/atomic"
	"time"

	"github.com/smartcontractkit/chainlink-data-streams/rpc/mtls"
)

type mtlsIn struct {
	Kind    string     `json:"kind"` // hand | verify | ctor | conc | race
	Seeds   []int64    `json:"key_seeds,omitempty"`
	SAllow  []int      `json:"server_allow,omitempty"` // indices into Seeds
	CAllow  []int      `json:"client_allow,omitempty"`
	SKey    int        `json:"server_key,omitempty"`
	CKey    int        `json:"client_key,omitempty"`
	Certs   []string   `json:"certs,omitempty"` // ed:<i> | ecdsa | garbage | empty
	KeyLens []int      `json:"key_lens,omitempty"`
	Rounds  int        `json:"rounds,omitempty"`
	Steps   [][2][]int `json:"steps,omitempty"` // seq: per connection attempt the (server, client) allow-lists installed by Replace
	// verify: a SECOND allow-list object built from the same key slice gets this list installed by Replace first;
	// the list under test must not notice (allow-lists are independent objects)
	SiblingReplace []int `json:"sibling_replace,omitempty"`
}

func detKey(seed int64) (ed25519.PublicKey, ed25519.PrivateKey) {
	s := make([]byte, ed25519.SeedSize)
	rand.New(rand.NewSource(seed)).Read(s)
	priv := ed25519.NewKeyFromSeed(s)
	return priv.Public().(ed25519.PublicKey), priv
}

func coqKeys(ks []ed25519.PublicKey) string {
	var xs []string
	for _, k := range ks {
		xs = append(xs, coqHex(k))
	}
	return coqList(xs)
}

func selfSigned(pub any, priv any) []byte {
	t := x509.Certificate{SerialNumber: big.NewInt(0)}
	b, err := x509.CreateCertificate(crand.Reader, &t, &t, pub, priv)
	if err != nil {
		panic(err)
	}
	return b
}

// a full connection attempt: handshake on both sides, then one application-data round trip
// (with TLS 1.3 the client only learns of a rejected client certificate when it reads)
func tryConnect(sPriv, cPriv ed25519.PrivateKey, sAllow, cAllow []ed25519.PublicKey) (bool, string) {
	// both constructors of the package: NewTransportCredentials (from the raw key) and NewTransportSigner (from a
	// crypto.Signer), alternating by the parity of the key material so that every pairing occurs
	mk := func(priv ed25519.PrivateKey, allow []ed25519.PublicKey) (credentials.TransportCredentials, error) {
		if len(priv) > 0 && priv[len(priv)-1]%2 == 0 {
			return mtls.NewTransportSigner(priv, allow)
		}
		return mtls.NewTransportCredentials(priv, allow)
	}
	sCreds, err := mk(sPriv, sAllow)
	if err != nil {
		return false, "server creds: " + err.Error()
	}
	cCreds, err := mk(cPriv, cAllow)
	if err != nil {
		return false, "client creds: " + err.Error()
	}
	return tryConnectWith(
		func(c net.Conn) (net.Conn, error) { conn, _, e := sCreds.ServerHandshake(c); return conn, e },
		func(c net.Conn) (net.Conn, error) {
			conn, _, e := cCreds.ClientHandshake(context.Background(), "peer", c)
			return conn, e
		})
}

func tryConnectCfg(sCfg, cCfg *tls.Config) (bool, string) {
	return tryConnectWith(
		func(c net.Conn) (net.Conn, error) { t := tls.Server(c, sCfg); return t, t.Handshake() },
		func(c net.Conn) (net.Conn, error) { t := tls.Client(c, cCfg); return t, t.Handshake() })
}

func tryConnectWith(serverHS, clientHS func(net.Conn) (net.Conn, error)) (bool, string) {
	a, b, err := connPair()
	if err != nil {
		return false, "transport: " + err.Error()
	}
	defer a.Close()
	defer b.Close()
	dl := time.Now().Add(30 * time.Second)
	a.SetDeadline(dl)
	b.SetDeadline(dl)
	var wg sync.WaitGroup
	var sErr, cErr error
	wg.Add(2)
	go func() {
		defer wg.Done()
		conn, e := serverHS(a)
		if e != nil {
			sErr = e
			a.Close()
			return
		}
		buf := make([]byte, 4)
		if _, e = io.ReadFull(conn, buf); e != nil {
			sErr = e
			a.Close()
			return
		}
		_, sErr = conn.Write([]byte("pong"))
	}()
	go func() {
		defer wg.Done()
		conn, e := clientHS(b)
		if e != nil {
			cErr = e
			b.Close()
			return
		}
		if _, e = conn.Write([]byte("ping")); e != nil {
			cErr = e
			b.Close()
			return
		}
		buf := make([]byte, 4)
		if _, e = io.ReadFull(conn, buf); e != nil || !bytes.Equal(buf, []byte("pong")) {
			cErr = fmt.Errorf("no reply: %v", e)
			b.Close()
		}
	}()
	wg.Wait()
	if sErr != nil || cErr != nil {
		return false, fmt.Sprintf("server: %v; client: %v", sErr, cErr)
	}
	return true, ""
}

// a connected pair with kernel buffering (net.Pipe is unbuffered: an alert written while the peer is also writing
// would block both sides until the deadline). Loopback TCP, falling back to a unix socket pair.
func connPair() (net.Conn, net.Conn, error) {
	for _, nw := range [][2]string{{"tcp", "127.0.0.1:0"}, {"unix", filepath.Join(os.TempDir(), fmt.Sprintf("verif-mtls-%d-%d.sock", os.Getpid(), time.Now().UnixNano()))}} {
		ln, err := net.Listen(nw[0], nw[1])
		if err != nil {
			continue
		}
		type res struct {
			c net.Conn
			e error
		}
		ch := make(chan res, 1)
		go func() { c, e := ln.Accept(); ch <- res{c, e} }()
		c, err := net.Dial(nw[0], ln.Addr().String())
		if err != nil {
			ln.Close()
			continue
		}
		r := <-ch
		ln.Close()
		if nw[0] == "unix" {
			os.Remove(nw[1])
		}
		if r.e != nil {
			c.Close()
			continue
		}
		return r.c, c, nil
	}
	return nil, nil, fmt.Errorf("no local transport available")
}

// concurrent Replace / isValidPublicKey / Keys: returns the number of atomicity violations
func mtlsStress(rounds int, verifiers int) (violations int64, detail string) {
	both, _ := detKey(1001)
	neither, _ := detKey(1002)
	oldOnly, _ := detKey(1003)
	newOnly, _ := detKey(1004)
	pad1, _ := detKey(1005)
	pad2, _ := detKey(1006)
	oldList := []ed25519.PublicKey{pad1, oldOnly, both}
	newList := []ed25519.PublicKey{both, pad2, newOnly, pad1}
	cur, err := mtls.ValidPublicKeysFromEd25519(append([]ed25519.PublicKey(nil), oldList...)...)
	if err != nil {
		return 1, err.Error()
	}
	verify := cur.VerifyPeerCertificate()
	_, bothPriv := detKey(1001)
	_, neitherPriv := detKey(1002)
	certBoth := selfSigned(both, bothPriv)
	certNeither := selfSigned(neither, neitherPriv)
	var bad int64
	var msg atomic.Value
	stop := make(chan struct{})
	var wg sync.WaitGroup
	for v := 0; v < verifiers; v++ {
		wg.Add(1)
		go func(v int) {
			defer wg.Done()
			for {
				select {
				case <-stop:
					return
				default:
				}
				if e := verify([][]byte{certBoth}, nil); e != nil {
					atomic.AddInt64(&bad, 1)
					msg.Store("key in old and new list rejected: " + e.Error())
				}
				if e := verify([][]byte{certNeither}, nil); e == nil {
					atomic.AddInt64(&bad, 1)
					msg.Store("key in neither list accepted")
				}
				ks := cur.Keys()
				if !sameKeys(ks, oldList) && !sameKeys(ks, newList) {
					atomic.AddInt64(&bad, 1)
					msg.Store(fmt.Sprintf("Keys() returned a list that is neither the old nor the new one (%d keys)", len(ks)))
				}
			}
		}(v)
	}
	for i := 0; i < rounds; i++ {
		src := oldList
		if i%2 == 0 {
			src = newList
		}
		p, _ := mtls.ValidPublicKeysFromEd25519(append([]ed25519.PublicKey(nil), src...)...)
		cur.Replace(p)
	}
	close(stop)
	wg.Wait()
	if m, ok := msg.Load().(string); ok {
		detail = m
	}
	return bad, detail
}

func sameKeys(a, b []ed25519.PublicKey) bool {
	if len(a) != len(b) {
		return false
	}
	for i := range a {
		if !bytes.Equal(a[i], b[i]) {
			return false
		}
	}
	return true
}

func harnessDir() string {
	if d := os.Getenv("VERIF_HARNESS_DIR"); d != "" {
		return d
	}
	if exe, err := os.Executable(); err == nil {
		d := filepath.Join(filepath.Dir(exe), "..", "..", "harness")
		if _, err := os.Stat(filepath.Join(d, "go.mod")); err == nil {
			return d
		}
	}
	return "/verif/harness"
}

func mtlsCase(in mtlsIn, tags ...string) caseRec {
	tags = append(tags, in.Kind)
	var pubs []ed25519.PublicKey
	var privs []ed25519.PrivateKey
	for _, s := range in.Seeds {
		p, k := detKey(s)
		pubs = append(pubs, p)
		privs = append(privs, k)
	}
	pick := func(ix []int) []ed25519.PublicKey {
		var r []ed25519.PublicKey
		for _, i := range ix {
			r = append(r, pubs[i])
		}
		return r
	}
	switch in.Kind {
	case "hand":
		ok, why := tryConnect(privs[in.SKey], privs[in.CKey], pick(in.SAllow), pick(in.CAllow))
		coq := fmt.Sprintf("MHand %s %s %s %s %s", coqHex(pubs[in.SKey]), coqHex(pubs[in.CKey]), coqKeys(pick(in.SAllow)), coqKeys(pick(in.CAllow)), coqBool(ok))
		return caseRec{Input: in, Output: map[string]any{"established": ok, "why": why}, Coq: coq, Tags: tags}
	case "seq":
		// long-lived endpoints: the same two tls.Config objects (from mtls.NewTLSConfig, the server requiring a client
		// certificate as NewTransportSigner does) across several connections, the allow-lists replaced in between
		sPubs, err := mtls.ValidPublicKeysFromEd25519(pick(in.Steps[0][0])...)
		if err != nil {
			panic(err)
		}
		cPubs, err := mtls.ValidPublicKeysFromEd25519(pick(in.Steps[0][1])...)
		if err != nil {
			panic(err)
		}
		sCfg, err := mtls.NewTLSConfig(privs[in.SKey], pick(in.Steps[0][0]))
		if err != nil {
			panic(err)
		}
		cCfg, err := mtls.NewTLSConfig(privs[in.CKey], pick(in.Steps[0][1]))
		if err != nil {
			panic(err)
		}
		sCfg.ClientAuth = tls.RequireAnyClientCert
		sCfg.VerifyPeerCertificate = sPubs.VerifyPeerCertificate()
		cCfg.VerifyPeerCertificate = cPubs.VerifyPeerCertificate()
		cCfg.ServerName = "peer"
		var steps []string
		var outs []bool
		for _, st := range in.Steps {
			ns, _ := mtls.ValidPublicKeysFromEd25519(pick(st[0])...)
			nc, _ := mtls.ValidPublicKeysFromEd25519(pick(st[1])...)
			sPubs.Replace(ns)
			cPubs.Replace(nc)
			ok, _ := tryConnectCfg(sCfg, cCfg)
			outs = append(outs, ok)
			steps = append(steps, fmt.Sprintf("(%s, %s, %s)", coqKeys(pick(st[0])), coqKeys(pick(st[1])), coqBool(ok)))
		}
		coq := fmt.Sprintf("MSeq %s %s %s", coqHex(pubs[in.SKey]), coqHex(pubs[in.CKey]), coqList(steps))
		return caseRec{Input: in, Output: outs, Coq: coq, Tags: tags}
	case "verify":
		allow := pick(in.SAllow)
		pk, err := mtls.ValidPublicKeysFromEd25519(allow...)
		if err != nil {
			panic(err)
		}
		allowTerm := coqKeys(allow) // printed before anything can scribble on the slice
		if in.SiblingReplace != nil {
			sibling, err := mtls.ValidPublicKeysFromEd25519(allow...)
			if err != nil {
				panic(err)
			}
			nl, err := mtls.ValidPublicKeysFromEd25519(pick(in.SiblingReplace)...)
			if err != nil {
				panic(err)
			}
			sibling.Replace(nl)
		}
		var raw [][]byte
		var descs []string
		for _, c := range in.Certs {
			switch {
			case strings.HasPrefix(c, "ed:"):
				var i int
				fmt.Sscanf(c, "ed:%d", &i)
				raw = append(raw, selfSigned(pubs[i], privs[i]))
				descs = append(descs, "CEd "+coqHex(pubs[i]))
			case c == "ecdsa":
				k, _ := ecdsa.GenerateKey(elliptic.P256(), crand.Reader)
				raw = append(raw, selfSigned(&k.PublicKey, k))
				descs = append(descs, "COtherAlg")
			case c == "empty":
				raw = append(raw, []byte{})
				descs = append(descs, "CUnparsable")
			default:
				g := selfSigned(pubs[0], privs[0])
				raw = append(raw, g[:len(g)/2])
				descs = append(descs, "CUnparsable")
			}
		}
		var res error
		_, panicked, _ := protect(func() error { res = pk.VerifyPeerCertificate()(raw, nil); return nil })
		ok := res == nil && !panicked
		coq := fmt.Sprintf("MVerify %s %s %s", coqList(descs), allowTerm, coqBool(ok))
		return caseRec{Input: in, Output: map[string]any{"accepted": ok, "panicked": panicked}, Coq: coq, Tags: tags}
	case "ctor":
		var ks []ed25519.PublicKey
		var xs []string
		for _, l := range in.KeyLens {
			k := make([]byte, l)
			ks = append(ks, k)
			xs = append(xs, coqHex(k))
			if l == 0 {
				xs[len(xs)-1] = "[]"
			}
		}
		_, err := mtls.ValidPublicKeysFromEd25519(ks...)
		coq := fmt.Sprintf("MCtor %s %s", coqList(xs), coqBool(err == nil))
		return caseRec{Input: in, Output: err == nil, Coq: coq, Tags: tags}
	case "conc":
		bad, detail := mtlsStress(in.Rounds, 6)
		return caseRec{Input: in, Output: map[string]any{"violations": bad, "detail": detail}, Coq: "MConc " + coqBool(bad == 0), Tags: tags}
	case "race":
		cmd := exec.Command("go", "test", "-race", "-count=1", "-run", "TestMtlsRace", ".")
		cmd.Dir = harnessDir()
		cmd.Env = append(os.Environ(), "GOFLAGS=-mod=mod", "GOPROXY=off")
		out, err := cmd.CombinedOutput()
		ok := err == nil && !bytes.Contains(out, []byte("DATA RACE"))
		txt := string(out)
		if len(txt) > 1500 {
			txt = txt[len(txt)-1500:]
		}
		return caseRec{Input: in, Output: map[string]any{"race_free": ok, "output": txt}, Coq: "MConc " + coqBool(ok), Tags: tags}
	}
	panic("bad kind " + in.Kind)
}

func genMtls(seed int64, n int, tier string) []caseRec {
	r := rand.New(rand.NewSource(seed))
	var cs []caseRec
	// the full listed / unlisted matrix with one-element and padded lists
	for _, cl := range []bool{true, false} {
		for _, sl := range []bool{true, false} {
			for _, pad := range []bool{false, true} {
				in := mtlsIn{Kind: "hand", Seeds: []int64{11, 12, 13, 14}, SKey: 0, CKey: 1}
				if cl {
					in.SAllow = append(in.SAllow, 1)
				}
				if sl {
					in.CAllow = append(in.CAllow, 0)
				}
				if pad || len(in.SAllow) == 0 {
					in.SAllow = append([]int{2}, in.SAllow...)
				}
				if pad || len(in.CAllow) == 0 {
					in.CAllow = append(in.CAllow, 3)
				}
				cs = append(cs, mtlsCase(in, "matrix"))
			}
		}
	}
	// every certificate shape
	for _, certs := range [][]string{{}, {"ed:1"}, {"ed:2"}, {"ed:1", "ed:1"}, {"ed:1", "ed:2"}, {"ecdsa"}, {"garbage"}, {"empty"}, {"ed:2", "ed:1"}, {"garbage", "ed:1"}} {
		cs = append(cs, mtlsCase(mtlsIn{Kind: "verify", Seeds: []int64{21, 22, 23}, SAllow: []int{0, 1}, Certs: certs}, "shapes"))
	}
	// several allow-list objects built from one key slice: replacing the list of one must not change what another admits
	for k := 0; k < 5; k++ {
		for _, repl := range [][]int{{3, 4}, {4}, {3, 4, 0}} {
			cs = append(cs, mtlsCase(mtlsIn{Kind: "verify", Seeds: []int64{31, 32, 33, 34, 35}, SAllow: []int{0, 1, 2}, SiblingReplace: repl,
				Certs: []string{fmt.Sprintf("ed:%d", k)}}, "sibling-replace"))
		}
	}
	for _, lens := range [][]int{{}, {32}, {31}, {33}, {0}, {32, 32}, {32, 31}, {64}, {32, 0, 32}} {
		cs = append(cs, mtlsCase(mtlsIn{Kind: "ctor", KeyLens: lens}, "ctor"))
	}
	// long-lived endpoints with the allow-lists replaced between connections (listed -> dropped -> listed again ...)
	for v := 0; v < 6; v++ {
		in := mtlsIn{Kind: "seq", Seeds: []int64{31, 32, 33}, SKey: 0, CKey: 1}
		full := [2][]int{{1, 2}, {0, 2}}
		noClient := [2][]int{{2}, {0, 2}}
		noServer := [2][]int{{1, 2}, {2}}
		switch v {
		case 0:
			in.Steps = [][2][]int{full, full, noClient, noClient, full}
		case 1:
			in.Steps = [][2][]int{full, noServer, full, full, noServer}
		case 2:
			in.Steps = [][2][]int{noClient, full, full, noClient}
		case 3:
			in.Steps = [][2][]int{full, full, full, {{2}, {2}}, full}
		case 4:
			in.Steps = [][2][]int{noServer, noServer, full, noClient}
		default:
			in.Steps = [][2][]int{full, noClient, full, noServer, full, noClient}
		}
		cs = append(cs, mtlsCase(in, "sequence"))
	}
	rounds := 3000
	if tier == "thorough" {
		rounds = 200000
	}
	cs = append(cs, mtlsCase(mtlsIn{Kind: "conc", Rounds: rounds}, "stress"))
	cs = append(cs, mtlsCase(mtlsIn{Kind: "race"}, "race-detector"))
	for len(cs) < n {
		k := 2 + r.Intn(5)
		in := mtlsIn{Kind: "hand", SKey: r.Intn(k), CKey: r.Intn(k)}
		for i := 0; i < k; i++ {
			in.Seeds = append(in.Seeds, 100+int64(r.Intn(50)))
		}
		for i := 0; i < k; i++ {
			if r.Intn(2) == 0 {
				in.SAllow = append(in.SAllow, i)
			}
			if r.Intn(2) == 0 {
				in.CAllow = append(in.CAllow, i)
			}
		}
		if len(in.SAllow) == 0 {
			in.SAllow = []int{r.Intn(k)}
		}
		if len(in.CAllow) == 0 {
			in.CAllow = []int{r.Intn(k)}
		}
		if r.Intn(3) == 0 {
			in.Kind = "verify"
			for i := r.Intn(3); i >= 0; i-- {
				in.Certs = append(in.Certs, []string{fmt.Sprintf("ed:%d", r.Intn(k)), "ecdsa", "garbage", "empty"}[r.Intn(4)])
			}
			if r.Intn(2) == 0 {
				in.Certs = []string{fmt.Sprintf("ed:%d", r.Intn(k))}
			}
		}
		cs = append(cs, mtlsCase(in, "random"))
	}
	return cs
}

func cmdMtls(seed int64, n int, out, replay, tier string) {
	var cs []caseRec
	if replay != "" {
		var f struct {
			Cases []struct {
				Input mtlsIn `json:"input"`
			} `json:"cases"`
		}
		b, err := os.ReadFile(replay)
		if err != nil {
			fatal(err)
		}
		if err := json.Unmarshal(b, &f); err != nil {
			fatal(err)
		}
		for _, c := range f.Cases {
			cs = append(cs, mtlsCase(c.Input, "replay"))
		}
	} else {
		cs = genMtls(seed, n, tier)
	}
	header := "From DS Require Import Base Locks CasesMtls.\n"
	if err := writeCasesSharded(out, "mtls", seed, header, "mtls_case", "mtls_eval", cs, 400); err != nil {
		fatal(err)
	}
	fmt.Printf("mtls: %d cases\n", len(cs))
}
