// Package main: the correspondence-check harness. One sub-command per projection (DESIGN.md §5.1).
// Each sub-command generates cases from one PRNG, runs the implementation in /repo on them and
// writes <out>/cases_<proj>_<shard>.v (inputs + observed outputs as Gallina terms) and
// <out>/cases_<proj>_<shard>.json (the same cases, for replay and for the evidence samples).
package main

import (
	"encoding/json"
	"fmt"
	"math/big"
	"math/rand"
	"os"
	"path/filepath"
	"strings"
)

type caseRec struct {
	Input  any      `json:"input"`
	Output any      `json:"output"`
	Coq    string   `json:"-"`
	Tags   []string `json:"tags,omitempty"`
}

type caseFile struct {
	Projection string    `json:"projection"`
	Seed       int64     `json:"seed"`
	Shard      int       `json:"shard"`
	Cases      []caseRec `json:"cases"`
}

const shardSize = 400

// writeCases writes the .v / .json pairs. header = Coq preamble (Require lines), typ = Coq type of a case,
// eval = name of the evaluation function applied to the list.
func writeCases(out, proj string, seed int64, header, typ, eval string, cases []caseRec) error {
	return writeCasesSharded(out, proj, seed, header, typ, eval, cases, shardSize)
}

func writeCasesSharded(out, proj string, seed int64, header, typ, eval string, cases []caseRec, shardSize int) error {
	if err := os.MkdirAll(out, 0o755); err != nil {
		return err
	}
	for shard := 0; shard*shardSize < len(cases) || shard == 0; shard++ {
		lo, hi := shard*shardSize, (shard+1)*shardSize
		if hi > len(cases) {
			hi = len(cases)
		}
		var sb strings.Builder
		sb.WriteString(header)
		sb.WriteString("\nDefinition cases : list " + typ + " := [\n")
		for i, c := range cases[lo:hi] {
			if i > 0 {
				sb.WriteString(";\n")
			}
			sb.WriteString(" " + c.Coq)
		}
		sb.WriteString("\n].\nDefinition R := Eval vm_compute in " + eval + " cases.\nPrint R.\n")
		base := filepath.Join(out, fmt.Sprintf("cases_%s_%d", proj, shard))
		if err := os.WriteFile(base+".v", []byte(sb.String()), 0o644); err != nil {
			return err
		}
		jb, err := json.Marshal(caseFile{Projection: proj, Seed: seed, Shard: shard, Cases: cases[lo:hi]})
		if err != nil {
			return err
		}
		if err := os.WriteFile(base+".json", jb, 0o644); err != nil {
			return err
		}
		if hi >= len(cases) {
			break
		}
	}
	return nil
}

// ---- Coq term printers ----
// big numbers are printed as hex literals: Coq parses 0x... about five times faster than decimal
func coqZ(v *big.Int) string {
	if v.BitLen() <= 30 {
		if v.Sign() < 0 {
			return "(" + v.String() + ")"
		}
		return v.String()
	}
	if v.Sign() < 0 {
		return "(-0x" + new(big.Int).Neg(v).Text(16) + ")"
	}
	return "0x" + v.Text(16)
}
func coqZi(v int64) string  { return coqZ(big.NewInt(v)) }
func coqZu(v uint64) string { return new(big.Int).SetUint64(v).String() }
func coqHex(b []byte) string {
	if len(b) == 0 {
		return "[]"
	}
	return fmt.Sprintf("(bz %d %s)", len(b), coqZ(new(big.Int).SetBytes(b)))
}
func coqBool(b bool) string {
	if b {
		return "true"
	}
	return "false"
}
func coqNat(n int) string        { return fmt.Sprintf("%d%%nat", n) }
func coqList(xs []string) string { return "[" + strings.Join(xs, "; ") + "]" }
func coqOpt(s string, present bool) string {
	if !present {
		return "None"
	}
	return "(Some " + s + ")"
}

// result of an implementation call, already mapped to the model's res type
type resOut struct {
	Kind string `json:"kind"` // ok | err | panic
	Val  string `json:"val,omitempty"`
	Err  string `json:"err,omitempty"` // errkind constructor
	Text string `json:"text,omitempty"`
}

func (r resOut) coq(okTerm string) string {
	switch r.Kind {
	case "ok":
		return "(Ok " + okTerm + ")"
	case "err":
		return "(Err " + r.Err + ")"
	default:
		return "(Panic 0)"
	}
}

// protect runs f under recover()
func protect(f func() error) (err error, panicked bool, pv any) {
	defer func() {
		if r := recover(); r != nil {
			panicked = true
			pv = r
		}
	}()
	err = f()
	return
}

// random big integer of up to maxBits bits, either sign
func randBig(r *rand.Rand, maxBits int) *big.Int {
	bits := r.Intn(maxBits + 1)
	v := new(big.Int)
	if bits > 0 {
		v.Rand(r, new(big.Int).Lsh(big.NewInt(1), uint(bits)))
	}
	if r.Intn(2) == 0 {
		v.Neg(v)
	}
	return v
}

func pow2(k int) *big.Int { return new(big.Int).Lsh(big.NewInt(1), uint(k)) }

func fatal(err error) {
	fmt.Fprintln(os.Stderr, "harness:", err)
	os.Exit(2)
}
