package main

// Projection `evmcodec` (C12, C11): ReportCodec.Verify and ReportCodec.Encode of the premium-legacy,
// ABI-encode-unpacked and streamlined codecs. The channel options are produced as JSON text, decoded by the real
// (exported) Decode methods, and the *decoded* options are what the Coq case carries; the report and the returned
// bytes are printed verbatim.

import (
	"encoding/hex"
	"encoding/json"
	"fmt"
	"math"
	"math/big"
	"math/rand"
	"os"
	"strings"

	"github.com/smartcontractkit/chainlink-common/pkg/logger"
	llotypes "github.com/smartcontractkit/chainlink-common/pkg/types/llo"
	"github.com/smartcontractkit/libocr/offchainreporting2plus/types"

	"github.com/smartcontractkit/chainlink-data-streams/llo"
	"github.com/smartcontractkit/chainlink-data-streams/llo/reportcodecs/evm"
)

type evmcodecIn struct {
	Codec    string    `json:"codec"` // legacy | unpacked | streamlined
	Opts     string    `json:"opts"`  // JSON text handed to the codec
	Streams  int       `json:"streams"`
	Fmt      uint32    `json:"fmt"`
	Channel  uint32    `json:"channel"`
	VA       uint64    `json:"va"`
	TS       uint64    `json:"ts"`
	Specimen bool      `json:"specimen,omitempty"`
	Values   []*svDesc `json:"values"`
}

type encJSON struct {
	Type       string  `json:"type"`
	Multiplier *string `json:"multiplier"`
}

func coqEnc1(e encJSON) string {
	m := "None"
	if e.Multiplier != nil {
		v, ok := new(big.Int).SetString(*e.Multiplier, 10)
		if !ok {
			panic("bad multiplier " + *e.Multiplier)
		}
		m = "(Some " + coqZ(v) + ")"
	}
	return fmt.Sprintf("{| e_type := %s; e_mult := %s |}", coqHex([]byte(e.Type)), m)
}

// the decoded []ABIEncoder, through its exported MarshalJSON (the fields themselves are unexported)
func coqABI(abi []evm.ABIEncoder) string {
	var outer []string
	for _, a := range abi {
		b, err := json.Marshal(a)
		if err != nil {
			panic(err)
		}
		s := strings.TrimSpace(string(b))
		var encs []encJSON
		if strings.HasPrefix(s, "[") || s == "null" {
			if err := json.Unmarshal(b, &encs); err != nil {
				panic(err)
			}
		} else {
			var e encJSON
			if err := json.Unmarshal(b, &e); err != nil {
				panic(err)
			}
			encs = []encJSON{e}
		}
		var inner []string
		for _, e := range encs {
			inner = append(inner, coqEnc1(e))
		}
		outer = append(outer, coqList(inner))
	}
	return coqList(outer)
}

func coqOptBig(b interface{ ToInt() *big.Int }, isNil bool) string {
	if isNil {
		return "None"
	}
	return "(Some " + coqZ(b.ToInt()) + ")"
}

func coqEvmReport(in evmcodecIn) string {
	var vs []string
	for _, v := range in.Values {
		vs = append(vs, v.coqSlot())
	}
	return fmt.Sprintf("{| r_chan := %d; r_va := %s; r_ts := %s; r_values := %s; r_specimen := %s; r_def := {| cd_fmt := %d; cd_streams := []; cd_opts := [] |} |}",
		in.Channel, coqZu(in.VA), coqZu(in.TS), coqList(vs), coqBool(in.Specimen), in.Fmt)
}

func evmcodecCase(in evmcodecIn, tags ...string) caseRec {
	cd := llotypes.ChannelDefinition{ReportFormat: llotypes.ReportFormat(in.Fmt), Opts: []byte(in.Opts)}
	for i := 0; i < in.Streams; i++ {
		cd.Streams = append(cd.Streams, llotypes.Stream{StreamID: uint32(i + 1), Aggregator: llotypes.AggregatorMedian})
	}
	rep := llo.Report{ConfigDigest: types.ConfigDigest{1, 2, 3}, SeqNr: 7, ChannelID: in.Channel,
		ValidAfterNanoseconds: in.VA, ObservationTimestampNanoseconds: in.TS, Specimen: in.Specimen}
	for _, v := range in.Values {
		rep.Values = append(rep.Values, v.value())
	}
	var codec llo.ReportCodec
	var verify func(llotypes.ChannelDefinition) error
	var optsCoq, ctor string
	var window uint64
	var feeDesc *decDesc
	switch in.Codec {
	case "legacy":
		c := evm.NewReportCodecPremiumLegacy(logger.Nop(), 1)
		codec, verify, ctor = c, c.Verify, "ELegacy"
		var o evm.ReportFormatEVMPremiumLegacyOpts
		if err := (&o).Decode([]byte(in.Opts)); err != nil {
			optsCoq = "None"
		} else {
			fd := descOfDecimal(o.BaseUSDFee)
			feeDesc, window = &fd, uint64(o.ExpirationWindow)
			optsCoq = fmt.Sprintf("(Some {| lo_fee := %s; lo_window := %d; lo_feed := %s; lo_mult := %s |})",
				fd.coq(), o.ExpirationWindow, coqHex(o.FeedID[:]), coqOptBig(o.Multiplier, o.Multiplier == nil))
		}
	case "unpacked":
		c := evm.NewReportCodecEVMABIEncodeUnpacked(logger.Nop(), 1)
		codec, verify, ctor = c, c.Verify, "EUnpacked"
		var o evm.ReportFormatEVMABIEncodeOpts
		if err := (&o).Decode([]byte(in.Opts)); err != nil {
			optsCoq = "None"
		} else {
			fd := descOfDecimal(o.BaseUSDFee)
			feeDesc, window = &fd, uint64(o.ExpirationWindow)
			optsCoq = fmt.Sprintf("(Some {| uo_fee := %s; uo_window := %d; uo_feed := %s; uo_abi := %s |})",
				fd.coq(), o.ExpirationWindow, coqHex(o.FeedID[:]), coqABI(o.ABI))
		}
	case "streamlined":
		c := evm.NewReportCodecStreamlined()
		codec, verify, ctor = c, c.Verify, "EStream"
		var o evm.ReportFormatEVMStreamlinedOpts
		if err := (&o).Decode([]byte(in.Opts)); err != nil {
			optsCoq = "None"
		} else {
			feed := "None"
			if o.FeedID != nil {
				feed = "(Some " + coqHex(o.FeedID[:]) + ")"
			}
			optsCoq = fmt.Sprintf("(Some {| so_feed := %s; so_abi := %s |})", feed, coqABI(o.ABI))
		}
	default:
		panic("unknown codec " + in.Codec)
	}
	var vok bool
	verr, vpanicked, _ := protect(func() error { return verify(cd) })
	vok = !vpanicked && verr == nil
	var b []byte
	out := resOut{}
	err, panicked, pv := protect(func() error {
		var e error
		b, e = codec.Encode(rep, cd)
		return e
	})
	switch {
	case panicked:
		out = resOut{Kind: "panic", Text: fmt.Sprint(pv)}
	case err != nil:
		out = resOut{Kind: "err", Err: "EOther", Text: err.Error()}
	default:
		out = resOut{Kind: "ok", Val: hex.EncodeToString(b)}
	}
	tags = append(tags, in.Codec, "out-"+out.Kind)
	if vok {
		tags = append(tags, "verified")
	} else {
		tags = append(tags, "unverified")
	}
	// input classes of the recorded findings
	if in.Codec != "streamlined" && feeDesc != nil {
		if in.TS/1e9+window >= 1<<32 && in.TS/1e9 <= math.MaxUint32 {
			tags = append(tags, "F3")
		}
		for i := 0; i < 2 && i < len(in.Values); i++ {
			var p *decDesc
			switch v := in.Values[i]; {
			case v == nil:
			case v.T == "dec":
				p = v.D
			case v.T == "quote":
				p = v.Bm
			}
			if p != nil && !feeDesc.Neg && feeDesc.Mag != "0" && !p.Neg && p.Mag != "0" {
				e := int64(feeDesc.Exp) - int64(p.Exp) + 18
				if e > math.MaxInt32 || e < math.MinInt32 {
					tags = append(tags, "F4")
				}
			}
		}
	}
	var coq string
	if in.Codec == "streamlined" {
		coq = fmt.Sprintf("%s %s %s %d %s %s %s", ctor, optsCoq, coqNat(in.Streams), in.Fmt, coqEvmReport(in), coqBool(vok), out.coq(coqHex(b)))
	} else {
		coq = fmt.Sprintf("%s %s %s %s %s %s", ctor, optsCoq, coqNat(in.Streams), coqEvmReport(in), coqBool(vok), out.coq(coqHex(b)))
	}
	return caseRec{Input: in, Output: map[string]any{"verify_ok": vok, "encode": out}, Coq: coq, Tags: tags}
}

// ---- generators ----
func bigPow10(k int) *big.Int { return new(big.Int).Exp(big.NewInt(10), big.NewInt(int64(k)), nil) }

func dvDec(d decDesc) *svDesc { return &svDesc{T: "dec", D: &d} }

// decimal text accepted by decimal.NewFromString / UnmarshalJSON
func decText(d decDesc) string {
	s := d.Mag
	if d.Neg {
		s = "-" + s
	}
	if d.Exp != 0 {
		s += fmt.Sprintf("e%d", d.Exp)
	}
	return s
}

func genFeed(r *rand.Rand) string {
	b := make([]byte, 32)
	switch r.Intn(12) {
	case 0: // zero
	case 1:
		b[31] = 1
	default:
		r.Read(b)
	}
	return "0x" + hex.EncodeToString(b)
}

// a decimal d with trunc(d * 10^k) = target (for non-negative k) and a random fractional tail
func decWithProduct(r *rand.Rand, target *big.Int, k int) decDesc {
	j := r.Intn(4)
	mag := new(big.Int).Abs(target)
	mag.Mul(mag, bigPow10(j))
	if j > 0 {
		mag.Add(mag, big.NewInt(int64(r.Intn(int(bigPow10(j).Int64())))))
	}
	return mkDec(target.Sign() < 0, mag, int32(-(k + j)))
}

func genTypeName(r *rand.Rand) (string, bool, int) {
	w := 8 * (1 + r.Intn(32))
	if r.Intn(3) == 0 {
		w = []int{8, 32, 64, 128, 192, 256}[r.Intn(6)]
	}
	signed := r.Intn(2) == 0
	if signed {
		return fmt.Sprintf("int%d", w), true, w
	}
	return fmt.Sprintf("uint%d", w), false, w
}

// one single encoder and a decimal aimed at its range boundaries / interior / outside
func genEncAndDec(r *rand.Rand) (encJSON, decDesc) {
	t, signed, w := genTypeName(r)
	e := encJSON{Type: t}
	k := 0
	mult := big.NewInt(1)
	switch r.Intn(6) {
	case 0: // no multiplier
	case 1:
		k = r.Intn(19)
		mult = bigPow10(k)
	case 2:
		mult = big.NewInt(int64(r.Intn(2000) - 1000))
		k = -1
	case 3:
		mult = big.NewInt(-1)
		k = -2
	default:
		k = 18
		mult = bigPow10(18)
	}
	if r.Intn(6) != 0 || mult.Cmp(big.NewInt(1)) != 0 {
		s := mult.String()
		e.Multiplier = &s
	}
	lo, hi := big.NewInt(0), new(big.Int).Sub(pow2(w), big.NewInt(1))
	if signed {
		lo, hi = new(big.Int).Neg(pow2(w-1)), new(big.Int).Sub(pow2(w-1), big.NewInt(1))
	}
	var target *big.Int
	switch r.Intn(12) {
	case 0:
		target = new(big.Int).Add(hi, big.NewInt(int64(r.Intn(3)-1)))
	case 1:
		target = new(big.Int).Add(lo, big.NewInt(int64(r.Intn(3)-1)))
	case 2:
		target = big.NewInt(int64(r.Intn(5) - 2))
	case 3:
		target = randBig(r, w+2)
	case 4:
		target = new(big.Int).Sub(hi, big.NewInt(int64(r.Intn(3))))
	case 5:
		target = new(big.Int).Add(lo, big.NewInt(int64(r.Intn(3))))
	default:
		target = randBig(r, w-1)
		if !signed {
			target.Abs(target)
		}
	}
	switch {
	case k >= 0:
		return e, decWithProduct(r, target, k)
	case k == -2:
		return e, decWithProduct(r, new(big.Int).Neg(target), 0)
	default:
		if r.Intn(2) == 0 {
			return e, genDecNear(r, int64(r.Intn(100000)))
		}
		return e, genDecWild(r)
	}
}

func encText(e encJSON) string {
	b, _ := json.Marshal(e)
	if e.Multiplier == nil && len(e.Type) > 0 {
		return fmt.Sprintf(`{"type":%q}`, e.Type)
	}
	return string(b)
}

// timestamps: observation second boundaries, validAfter < timestamp mostly
func genTimes(r *rand.Rand) (va, ts uint64) {
	var sec uint64
	switch r.Intn(14) {
	case 0:
		sec = uint64(r.Intn(3))
	case 1:
		sec = 1<<31 + uint64(r.Intn(5)) - 2
	case 2:
		sec = 1<<32 - 3 + uint64(r.Intn(6))
	case 3:
		sec = uint64(r.Int63n(1 << 34))
	default:
		sec = 1700000000 + uint64(r.Intn(100000000))
	}
	ts = sec*1e9 + uint64(r.Intn(1e9))
	switch r.Intn(16) {
	case 0:
		va = ts
	case 1:
		va = ts + uint64(r.Intn(2e9))
	case 2:
		va = 0
	case 3:
		if ts > 0 {
			va = ts - 1
		}
	case 4: // validAfter second near the uint32 edge
		va = (1<<32-3+uint64(r.Intn(4)))*1e9 + uint64(r.Intn(1e9))
		if r.Intn(2) == 0 {
			ts = va + uint64(r.Intn(3e9))
		}
	default:
		d := uint64(r.Int63n(5e9))
		if d > ts {
			d = ts
		}
		va = ts - d
	}
	return
}

func genWindow(r *rand.Rand, ts uint64) uint32 {
	sec := ts / 1e9
	switch r.Intn(8) {
	case 0:
		return 0
	case 1:
		return math.MaxUint32
	case 2:
		return 1 << 31
	case 3: // right at the edge of the 32-bit expiry
		if sec <= math.MaxUint32 {
			x := int64(math.MaxUint32) - int64(sec) + int64(r.Intn(3)) - 1
			if x >= 0 && x <= math.MaxUint32 {
				return uint32(x)
			}
		}
		return 1
	default:
		return uint32(r.Intn(1000000))
	}
}

// base fee text and price values; includes fee boundaries at 2^192, rounding ties, non-positive and missing prices
func genFeeAndPrices(r *rand.Rand) (fee string, p0, p1 *svDesc) {
	price := func() *svDesc {
		switch r.Intn(24) {
		case 0:
			return &svDesc{T: "nil"}
		case 1:
			return dvDec(mkDec(r.Intn(2) == 0, big.NewInt(0), int32(r.Intn(5)-2)))
		case 2:
			d := genDecNear(r, 1000)
			d.Neg = true
			return dvDec(d)
		case 3:
			return genQuoteNear(r, int64(1+r.Intn(100000)))
		case 4:
			return &svDesc{T: "tsv", At: uint64(r.Int63()), In: dvDec(genDecNear(r, 1000))}
		case 5:
			return dvDec(genDecWild(r))
		default:
			return dvDec(genDecNear(r, int64(1+r.Intn(1000000))))
		}
	}
	p0, p1 = price(), price()
	switch r.Intn(10) {
	case 0:
		fee = "0"
	case 1:
		fee = decText(mkDec(true, big.NewInt(int64(1+r.Intn(100))), int32(-r.Intn(4))))
	case 2: // fee = F / 1e18 with price 1: the fee field is exactly F, near 2^192
		F := new(big.Int).Add(pow2(192), big.NewInt(int64(r.Intn(5)-3)))
		fee = decText(mkDec(false, F, -18))
		p0 = dvDec(mkDec(false, big.NewInt(1), 0))
		if r.Intn(2) == 0 {
			p1 = dvDec(mkDec(false, bigPow10(3), -3))
		}
	case 3: // exact rounding tie: (2k+1) / 2
		k := big.NewInt(int64(r.Intn(1000)))
		c := new(big.Int).Add(new(big.Int).Lsh(k, 1), big.NewInt(1))
		fee = decText(mkDec(false, c, -18))
		p0 = dvDec(mkDec(false, big.NewInt(2), 0))
		p1 = dvDec(mkDec(false, big.NewInt(20), -1))
	case 4: // just below / above a tie
		c := big.NewInt(int64(2*r.Intn(1000) + 1))
		c.Mul(c, bigPow10(6))
		c.Add(c, big.NewInt(int64(r.Intn(3)-1)))
		fee = decText(mkDec(false, c, -24))
		p0 = dvDec(mkDec(false, big.NewInt(2), 0))
	case 5:
		fee = decText(genDecWild(r))
	case 6: // huge fee against a tiny price
		fee = decText(mkDec(false, big.NewInt(int64(1+r.Intn(9))), int32(20+r.Intn(20))))
		p0 = dvDec(mkDec(false, big.NewInt(int64(1+r.Intn(9))), int32(-20-r.Intn(20))))
	default:
		fee = decText(mkDec(false, big.NewInt(int64(1+r.Intn(500))), int32(-r.Intn(5))))
	}
	return
}

func genLegacy(r *rand.Rand) evmcodecIn {
	in := evmcodecIn{Codec: "legacy", Fmt: 1, Channel: uint32(r.Intn(1000)), Streams: 3}
	in.VA, in.TS = genTimes(r)
	fee, p0, p1 := genFeeAndPrices(r)
	parts := []string{fmt.Sprintf(`"baseUSDFee":%q`, fee), fmt.Sprintf(`"expirationWindow":%d`, genWindow(r, in.TS)), fmt.Sprintf(`"feedID":%q`, genFeed(r))}
	// quote aimed at the int192 boundaries after multiplication
	mk := func() decDesc {
		k := 0
		if r.Intn(2) == 0 {
			k = 18
		}
		var target *big.Int
		switch r.Intn(6) {
		case 0:
			target = new(big.Int).Add(pow2(191), big.NewInt(int64(r.Intn(3)-2)))
		case 1:
			target = new(big.Int).Add(new(big.Int).Neg(pow2(191)), big.NewInt(int64(r.Intn(3)-1)))
		case 2:
			target = randBig(r, 194)
		default:
			target = big.NewInt(int64(r.Intn(2000000) - 1000))
		}
		_ = k
		return decWithProduct(r, target, 0)
	}
	var q *svDesc
	multText := ""
	switch r.Intn(5) {
	case 0: // with a power-of-ten multiplier: values such that the product sits at the boundary
		k := r.Intn(19)
		multText = bigPow10(k).String()
		a, b, c := mk(), mk(), mk()
		a.Exp -= int32(k)
		b.Exp -= int32(k)
		c.Exp -= int32(k)
		q = &svDesc{T: "quote", Bid: &a, Bm: &b, Ask: &c}
	case 1:
		a, b, c := mk(), mk(), mk()
		q = &svDesc{T: "quote", Bid: &a, Bm: &b, Ask: &c}
	case 2:
		multText = fmt.Sprint(r.Intn(2001) - 1000) // includes 0 and negatives
		q = genQuoteNear(r, int64(r.Intn(100000)))
	default:
		if r.Intn(2) == 0 {
			multText = "1000000000000000000"
		}
		q = genQuoteNear(r, int64(1+r.Intn(1000000)))
	}
	if multText != "" {
		if r.Intn(8) == 0 {
			if v, ok := new(big.Int).SetString(multText, 10); ok && v.Sign() >= 0 {
				multText = "0x" + v.Text(16)
			}
		}
		parts = append(parts, fmt.Sprintf(`"multiplier":%q`, multText))
	}
	in.Opts = "{" + strings.Join(parts, ",") + "}"
	in.Values = []*svDesc{p0, p1, q}
	// shapes the codec must refuse
	switch r.Intn(30) {
	case 0:
		in.Values = in.Values[:2]
	case 1:
		in.Values = append(in.Values, dvDec(genDecNear(r, 5)))
	case 2:
		in.Values[2] = dvDec(genDecNear(r, 5))
	case 3:
		in.Values[2] = &svDesc{T: "nil"}
	case 4:
		in.Specimen = true
	case 5:
		in.Opts = `{"baseUSDFee":"1","unknownField":1}`
	case 6:
		in.Opts = ""
	case 7:
		in.Streams = 2 + 2*r.Intn(2)
	case 8:
		in.Opts = `{"feedID":"0x01"}`
	}
	return in
}

func genABIAndValues(r *rand.Rand, n int, padded bool) (abi []string, vals []*svDesc) {
	for i := 0; i < n; i++ {
		switch r.Intn(8) {
		case 0: // timestamped value with a nested pair of encoders
			e0 := encJSON{Type: []string{"uint64", "uint32", "uint128", "int64", "uint56"}[r.Intn(5)]}
			if r.Intn(3) == 0 {
				m := []string{"1", "1000", "0", "-1", "1000000000"}[r.Intn(5)]
				e0.Multiplier = &m
			}
			if !padded && r.Intn(6) == 0 {
				e0.Type = "bytes0"
			}
			e1, d := genEncAndDec(r)
			if !padded && r.Intn(8) == 0 {
				e1.Type = "bytes0"
			}
			at := uint64(r.Int63())
			switch r.Intn(4) {
			case 0:
				at = math.MaxUint64 - uint64(r.Intn(3))
			case 1:
				at = 1<<32 - 2 + uint64(r.Intn(4))
			}
			inner := dvDec(d)
			if r.Intn(15) == 0 {
				inner = genQuoteNear(r, 100)
			}
			abi = append(abi, "["+encText(e0)+","+encText(e1)+"]")
			vals = append(vals, &svDesc{T: "tsv", At: at, In: inner})
		default:
			e, d := genEncAndDec(r)
			if !padded && r.Intn(20) == 0 {
				e.Type = "bytes0"
			}
			if r.Intn(40) == 0 {
				e.Type = malformedTypes[r.Intn(len(malformedTypes))]
			}
			txt := encText(e)
			if r.Intn(10) == 0 {
				txt = "[" + txt + "]"
			}
			abi = append(abi, txt)
			vals = append(vals, dvDec(d))
		}
	}
	// mismatches between encoder shape and value kind, missing values
	for i := range vals {
		switch r.Intn(40) {
		case 0:
			vals[i] = &svDesc{T: "nil"}
		case 1:
			vals[i] = genQuoteNear(r, 100)
		case 2:
			vals[i] = &svDesc{T: "tsv", At: 5, In: dvDec(genDecNear(r, 5))}
		case 3:
			vals[i] = dvDec(genDecNear(r, 5))
		}
	}
	return
}

func genUnpacked(r *rand.Rand) evmcodecIn {
	in := evmcodecIn{Codec: "unpacked", Fmt: 4, Channel: uint32(r.Intn(1000))}
	in.VA, in.TS = genTimes(r)
	fee, p0, p1 := genFeeAndPrices(r)
	n := 1 + r.Intn(4)
	abi, vals := genABIAndValues(r, n, true)
	in.Streams = n + 2
	in.Opts = fmt.Sprintf(`{"baseUSDFee":%q,"expirationWindow":%d,"feedID":%q,"abi":[%s]}`, fee, genWindow(r, in.TS), genFeed(r), strings.Join(abi, ","))
	in.Values = append([]*svDesc{p0, p1}, vals...)
	switch r.Intn(30) {
	case 0:
		in.Values = in.Values[:len(in.Values)-1]
	case 1:
		in.Values = append(in.Values, dvDec(genDecNear(r, 5)))
	case 2:
		in.Values = in.Values[:1]
	case 3:
		in.Specimen = true
	case 4:
		in.Opts = `{"baseUSDFee":"1","abi":[{"type":"uint8"}],"x":1}`
	case 5:
		in.Opts = ""
	case 6:
		in.Streams = r.Intn(6)
	case 7:
		in.Opts = fmt.Sprintf(`{"baseUSDFee":"1","expirationWindow":1,"feedID":%q,"abi":null}`, genFeed(r))
	}
	return in
}

func genStreamlined(r *rand.Rand) evmcodecIn {
	in := evmcodecIn{Codec: "streamlined", Fmt: []uint32{5, 6, 7, 8, 1 << 31, math.MaxUint32}[r.Intn(6)], Channel: uint32(r.Uint32())}
	if r.Intn(2) == 0 {
		in.Channel = uint32(r.Intn(1000))
	}
	in.VA, in.TS = genTimes(r)
	if r.Intn(6) == 0 {
		in.VA = math.MaxUint64 - uint64(r.Intn(3))
	}
	n := r.Intn(5)
	abi, vals := genABIAndValues(r, n, false)
	in.Streams = n
	if r.Intn(3) == 0 {
		in.Opts = fmt.Sprintf(`{"feedID":%q,"abi":[%s]}`, genFeed(r), strings.Join(abi, ","))
	} else {
		in.Opts = fmt.Sprintf(`{"abi":[%s]}`, strings.Join(abi, ","))
	}
	in.Values = vals
	switch r.Intn(30) {
	case 0:
		if len(in.Values) > 0 {
			in.Values = in.Values[:len(in.Values)-1]
		}
	case 1:
		in.Values = append(in.Values, dvDec(genDecNear(r, 5)))
	case 2:
		in.Specimen = true
	case 3:
		in.Opts = `{"abi":[{"type":"uint8"}],"x":1}`
	case 4:
		in.Opts = ""
	case 5:
		in.Streams = r.Intn(6)
	}
	return in
}

// fixed witnesses: the recorded findings and the repaired defects
func directedEvmcodec() []caseRec {
	feed := "0x" + strings.Repeat("11", 32)
	q := func(v int64) *svDesc {
		d := mkDec(false, big.NewInt(v), 0)
		return &svDesc{T: "quote", Bid: &d, Bm: &d, Ask: &d}
	}
	one := dvDec(mkDec(false, big.NewInt(1), 0))
	var cs []caseRec
	// F3: expiresAt wraps
	cs = append(cs, evmcodecCase(evmcodecIn{Codec: "legacy", Fmt: 1, Streams: 3, VA: 4294967290e9, TS: 4294967294e9 + 5,
		Opts: fmt.Sprintf(`{"baseUSDFee":"1","expirationWindow":4294967295,"feedID":%q}`, feed), Values: []*svDesc{one, one, q(5)}}, "directed"))
	cs = append(cs, evmcodecCase(evmcodecIn{Codec: "unpacked", Fmt: 4, Streams: 3, VA: 1700000000e9, TS: 1700000001e9,
		Opts: fmt.Sprintf(`{"baseUSDFee":"1","expirationWindow":4294967295,"feedID":%q,"abi":[{"type":"int192"}]}`, feed), Values: []*svDesc{one, one, one}}, "directed"))
	// B3: validAfter second = MaxUint32
	cs = append(cs, evmcodecCase(evmcodecIn{Codec: "legacy", Fmt: 1, Streams: 3, VA: 4294967295e9, TS: 4294967295e9 + 5,
		Opts: fmt.Sprintf(`{"baseUSDFee":"1","expirationWindow":0,"feedID":%q}`, feed), Values: []*svDesc{one, one, q(5)}}, "directed"))
	// F4: QuoRem overflow panic
	cs = append(cs, evmcodecCase(evmcodecIn{Codec: "legacy", Fmt: 1, Streams: 3, VA: 1700000000e9, TS: 1700000001e9,
		Opts:   fmt.Sprintf(`{"baseUSDFee":"1e2147483647","expirationWindow":1,"feedID":%q}`, feed),
		Values: []*svDesc{dvDec(mkDec(false, big.NewInt(1), -5)), one, q(5)}}, "directed"))
	// D6: benchmark 2^191 does not fit int192; fee 2^192 does not fit uint192
	b191 := mkDec(false, pow2(191), 0)
	cs = append(cs, evmcodecCase(evmcodecIn{Codec: "legacy", Fmt: 1, Streams: 3, VA: 1700000000e9, TS: 1700000001e9,
		Opts:   fmt.Sprintf(`{"baseUSDFee":"1","expirationWindow":1,"feedID":%q}`, feed),
		Values: []*svDesc{one, one, {T: "quote", Bid: &b191, Bm: &b191, Ask: &b191}}}, "directed"))
	cs = append(cs, evmcodecCase(evmcodecIn{Codec: "unpacked", Fmt: 4, Streams: 3, VA: 1700000000e9, TS: 1700000001e9,
		Opts:   fmt.Sprintf(`{"baseUSDFee":%q,"expirationWindow":1,"feedID":%q,"abi":[{"type":"int192"}]}`, decText(mkDec(false, pow2(192), -18)), feed),
		Values: []*svDesc{one, one, one}}, "directed"))
	return cs
}

func genEvmcodec(seed int64, n int) []caseRec {
	r := rand.New(rand.NewSource(seed))
	cs := directedEvmcodec()
	for len(cs) < n {
		switch r.Intn(3) {
		case 0:
			cs = append(cs, evmcodecCase(genLegacy(r), "random"))
		case 1:
			cs = append(cs, evmcodecCase(genUnpacked(r), "random"))
		default:
			cs = append(cs, evmcodecCase(genStreamlined(r), "random"))
		}
	}
	return cs
}

func cmdEvmcodec(seed int64, n int, out, replay, tier string) {
	var cs []caseRec
	if replay != "" {
		var f struct {
			Cases []struct {
				Input evmcodecIn `json:"input"`
			} `json:"cases"`
		}
		b, err := os.ReadFile(replay)
		if err != nil {
			fatal(err)
		}
		if err := json.Unmarshal(b, &f); err != nil {
			fatal(err)
		}
		for _, c := range f.Cases {
			cs = append(cs, evmcodecCase(c.Input, "replay"))
		}
	} else {
		cs = genEvmcodec(seed, n)
	}
	header := "From DS Require Import Base Decimal StreamValue Outcome EvmCodecs CasesEvmCodec.\n"
	if err := writeCasesSharded(out, "evmcodec", seed, header, "evm_case", "evm_eval", cs, 250); err != nil {
		fatal(err)
	}
	fmt.Printf("evmcodec: %d cases\n", len(cs))
}
