package main

// Projection `nopanic` (C11): adversarial byte strings through every plugin entry point and public decoder
// under recover(). Each case records the entry point, the outcome class (value / error / panic) and, where the
// property says invalid observations are ignored, whether the result with garbage mixed in equals the result without.

import (
	"context"
	"encoding/hex"
	"encoding/json"
	"fmt"
	"math/rand"
	"os"
	"reflect"

	llotypes "github.com/smartcontractkit/chainlink-common/pkg/types/llo"
	"github.com/smartcontractkit/libocr/commontypes"
	"github.com/smartcontractkit/libocr/offchainreporting2plus/ocr3types"
	"github.com/smartcontractkit/libocr/offchainreporting2plus/types"
	"google.golang.org/protobuf/encoding/protowire"
	"google.golang.org/protobuf/proto"

	"github.com/smartcontractkit/chainlink-common/pkg/logger"

	"github.com/smartcontractkit/chainlink-data-streams/llo"
	"github.com/smartcontractkit/chainlink-data-streams/llo/reportcodecs/evm"
	"github.com/smartcontractkit/chainlink-data-streams/mercury"
)

type npIn struct {
	Entry   string     `json:"entry"`
	Cfg     *instCfg   `json:"cfg,omitempty"`
	Tele    bool       `json:"telemetry,omitempty"`
	Seq     uint64     `json:"seq,omitempty"`
	Prev    string     `json:"prev_hex,omitempty"` // previous outcome / outcome / previous report / decoder input
	Obs     []string   `json:"obs_hex,omitempty"`  // observations (raw bytes)
	Garbage []string   `json:"garbage_hex,omitempty"`
	MCfg    *mercCfg   `json:"mcfg,omitempty"`
	Defs    []defDesc  `json:"defs,omitempty"`
	Vals    []*svDesc  `json:"vals,omitempty"`
	Extra   [][]uint32 `json:"extra,omitempty"`
	NilVA   bool       `json:"retirement_without_channels,omitempty"` // the predecessor retired with no channels
}

var npEntries = []string{"validate", "outcome", "reports", "observation", "mercury", "decoders", "evmnil"}

func entryID(e string) int {
	for i, x := range npEntries {
		if x == e {
			return i
		}
	}
	return -1
}

func hx(b []byte) string { return hex.EncodeToString(b) }
func unhx(s string) []byte {
	b, _ := hex.DecodeString(s)
	return b
}

type npOut struct {
	Kind    string `json:"kind"` // ok | err | panic
	Text    string `json:"text,omitempty"`
	Ignored bool   `json:"garbage_ignored"`
}

func classify(err error, panicked bool, pv any) npOut {
	switch {
	case panicked:
		return npOut{Kind: "panic", Text: fmt.Sprint(pv), Ignored: true}
	case err != nil:
		t := err.Error()
		if len(t) > 200 {
			t = t[:200]
		}
		return npOut{Kind: "err", Text: t, Ignored: true}
	}
	return npOut{Kind: "ok", Ignored: true}
}

// several calls in one case: the first panic wins
func firstPanic(outs ...npOut) npOut {
	res := npOut{Kind: "err", Ignored: true}
	for _, o := range outs {
		if o.Kind == "panic" {
			return o
		}
		if o.Kind == "ok" {
			res.Kind = "ok"
		}
		res.Ignored = res.Ignored && o.Ignored
	}
	return res
}

// a retirement cache holding one attested report of the predecessor
func npCache(nilVA bool) *mockRetirementCache {
	rc := newMockRetirementCache()
	rr := llo.RetirementReport{ProtocolVersion: 1, ValidAfterNanoseconds: map[llotypes.ChannelID]uint64{1: 1699999990e9, 2: 1699999991e9}}
	if nilVA {
		rr.ValidAfterNanoseconds = nil
	}
	b, err := llo.StandardRetirementReportCodec{}.Encode(rr)
	if err != nil {
		fatal(err)
	}
	rc.publish(b)
	return rc
}

func npNode(cfg instCfg, tele bool, nilVA bool) *node {
	rc := npCache(nilVA)
	n, err := buildNode(cfg, types.ConfigDigest{7}, rc, tele)
	if err != nil {
		fatal(err)
	}
	return n
}

func runNP(in npIn) npOut {
	ctx := context.Background()
	switch in.Entry {
	case "validate":
		n := npNode(*in.Cfg, false, in.NilVA)
		var outs []npOut
		for _, o := range in.Obs {
			raw := unhx(o)
			outs = append(outs, classify(protect(func() error {
				return n.plugin.ValidateObservation(ctx, ocr3types.OutcomeContext{SeqNr: in.Seq}, nil, ocrAO(raw))
			})))
		}
		return firstPanic(outs...)
	case "outcome":
		n := npNode(*in.Cfg, in.Tele, in.NilVA)
		octx := ocr3types.OutcomeContext{SeqNr: in.Seq, PreviousOutcome: unhx(in.Prev)}
		var aos []types.AttributedObservation
		for i, o := range in.Obs {
			raw := unhx(o)
			// Outcome is only assumed to receive observations that passed ValidateObservation
			err, panicked, _ := protect(func() error { return n.plugin.ValidateObservation(ctx, octx, nil, ocrAO(raw)) })
			if err == nil && !panicked {
				aos = append(aos, types.AttributedObservation{Observation: raw, Observer: commontypes.OracleID(i)})
			}
		}
		return classify(protect(func() error {
			_, e := n.plugin.Outcome(ctx, octx, nil, aos)
			return e
		}))
	case "reports":
		n := npNode(*in.Cfg, in.Tele, in.NilVA)
		return classify(protect(func() error {
			_, e := n.plugin.Reports(ctx, in.Seq, unhx(in.Prev))
			return e
		}))
	case "observation":
		n := npNode(*in.Cfg, in.Tele, in.NilVA)
		defs := llotypes.ChannelDefinitions{}
		for i, d := range in.Defs {
			defs[uint32(i+1)] = d.def()
		}
		n.defs.defs = defs
		for i, v := range in.Vals {
			n.ds.vals[uint32(i+1)] = v
		}
		return classify(protect(func() error {
			_, e := n.plugin.Observation(ctx, ocr3types.OutcomeContext{SeqNr: in.Seq, PreviousOutcome: unhx(in.Prev)}, nil)
			return e
		}))
	case "mercury":
		var good, mixed []types.AttributedObservation
		for i, o := range in.Obs {
			ao := types.AttributedObservation{Observation: unhx(o), Observer: commontypes.OracleID(i)}
			good = append(good, ao)
			mixed = append(mixed, ao)
		}
		for i, g := range in.Garbage {
			ao := types.AttributedObservation{Observation: unhx(g), Observer: commontypes.OracleID(len(in.Obs) + i)}
			// interleave
			pos := 0
			if len(mixed) > 0 {
				pos = (i * 7) % (len(mixed) + 1)
			}
			mixed = append(mixed[:pos:pos], append([]types.AttributedObservation{ao}, mixed[pos:]...)...)
		}
		var prev types.Report
		if in.Prev != "" {
			prev = unhx(in.Prev)
		}
		a, _ := runMercRound(*in.MCfg, "ok", prev, mixed)
		out := npOut{Kind: "ok", Ignored: true}
		switch a.Kind {
		case "panic":
			return npOut{Kind: "panic", Text: a.Text, Ignored: true}
		case "err":
			out.Kind, out.Text = "err", a.Text
		}
		if len(in.Garbage) > 0 {
			b, _ := runMercRound(*in.MCfg, "ok", prev, good)
			if b.Kind == "panic" {
				return npOut{Kind: "panic", Text: b.Text, Ignored: true}
			}
			out.Ignored = a.Kind == b.Kind && reflect.DeepEqual(a.Fields, b.Fields)
			if !out.Ignored {
				out.Text = fmt.Sprintf("with garbage: %s %+v; without: %s %+v", a.Kind, a.Fields, b.Kind, b.Fields)
			}
		}
		return out
	case "decoders":
		b := unhx(in.Prev)
		p := c16Plugin(true)
		jc := llo.JSONReportCodec{}
		calls := []func() error{
			func() error { _, e := p.ObservationCodec.Decode(b); return e },
			func() error { _, e := p.OutcomeCodec.Decode(b); return e },
			func() error { _, e := c16PluginV(1).OutcomeCodec.Decode(b); return e },
			func() error {
				for t := int32(-1); t <= 3; t++ {
					if _, e := llo.UnmarshalProtoStreamValue(&llo.LLOStreamValue{Type: llo.LLOStreamValue_Type(t), Value: b}); e != nil && t == 3 {
						return e
					}
				}
				_, e := llo.UnmarshalProtoStreamValue(nil)
				return e
			},
			func() error {
				for t := int32(-1); t <= 3; t++ {
					_, _ = llo.UnmarshalTypedTextStreamValue(&llo.TypedTextStreamValue{Type: llo.LLOStreamValue_Type(t), SerializedStreamValue: string(b)})
				}
				_, e := llo.UnmarshalTypedTextStreamValue(nil)
				return e
			},
			func() error { _, e := jc.Decode(b); return e },
			func() error { _, _, _, _, e := jc.Unpack(b); return e },
			func() error { _, _, _, _, e := jc.UnpackDecode(b); return e },
			func() error { _, e := llo.EVMOnchainConfigCodec{}.Decode(b); return e },
			func() error { _, e := llo.DecodeOffchainConfig(b); return e },
			func() error { _, e := llo.StandardRetirementReportCodec{}.Decode(b); return e },
			func() error { _, e := mercury.StandardOnchainConfigCodec{}.Decode(context.Background(), b); return e },
			func() error { _, e := mercury.DecodeOffchainConfig(b); return e },
			func() error { _, e := mercury.DecodeValueInt192(b); return e },
			func() error { _, e := evm.NewReportCodecPremiumLegacy(logger.Nop(), 1).Decode(b); return e },
			func() error { var a evm.ABIEncoder; return json.Unmarshal(b, &a) },
			func() error { var o evm.ReportFormatEVMPremiumLegacyOpts; return (&o).Decode(b) },
			func() error { var o evm.ReportFormatEVMABIEncodeOpts; return (&o).Decode(b) },
			func() error { var o evm.ReportFormatEVMStreamlinedOpts; return (&o).Decode(b) },
			func() error {
				cd := llotypes.ChannelDefinition{ReportFormat: llotypes.ReportFormatEVMABIEncodeUnpacked, Opts: b, Streams: []llotypes.Stream{{StreamID: 1}, {StreamID: 2}, {StreamID: 3}}}
				_ = evm.NewReportCodecPremiumLegacy(logger.Nop(), 1).Verify(cd)
				_ = evm.NewReportCodecEVMABIEncodeUnpacked(logger.Nop(), 1).Verify(cd)
				_ = evm.NewReportCodecStreamlined().Verify(cd)
				return jc.Verify(cd)
			},
		}
		var outs []npOut
		for i, f := range calls {
			o := classify(protect(f))
			if o.Kind == "panic" {
				o.Text = fmt.Sprintf("decoder #%d: %s", i, o.Text)
			}
			outs = append(outs, o)
		}
		return firstPanic(outs...)
	case "evmnil":
		// report codecs must tolerate nil and wrong-kind values, unverified definitions and any value count
		cd := llotypes.ChannelDefinition{ReportFormat: llotypes.ReportFormat(in.Seq), Opts: unhx(in.Prev)}
		for i := range in.Vals {
			cd.Streams = append(cd.Streams, llotypes.Stream{StreamID: uint32(i + 1), Aggregator: llotypes.AggregatorMedian})
		}
		if len(in.Extra) > 0 {
			cd.Streams = cd.Streams[:len(cd.Streams)*int(in.Extra[0][0]%3)/2]
		}
		rep := llo.Report{SeqNr: 5, ChannelID: 1, ValidAfterNanoseconds: 1700000000e9, ObservationTimestampNanoseconds: 1700000001e9}
		for _, v := range in.Vals {
			rep.Values = append(rep.Values, v.value())
		}
		codecs := []llo.ReportCodec{evm.NewReportCodecPremiumLegacy(logger.Nop(), 1), evm.NewReportCodecEVMABIEncodeUnpacked(logger.Nop(), 1),
			evm.NewReportCodecStreamlined(), llo.JSONReportCodec{}}
		var outs []npOut
		for _, c := range codecs {
			c := c
			outs = append(outs, classify(protect(func() error { _, e := c.Encode(rep, cd); return e })))
		}
		return firstPanic(outs...)
	}
	panic("unknown entry " + in.Entry)
}

func c16PluginV(pver uint32) *llo.Plugin {
	n, err := buildNode(instCfg{F: 1, N: 4, PVer: pver, Interval: uint64(pver), HasPred: false}, types.ConfigDigest{9}, newMockRetirementCache(), false)
	if err != nil {
		fatal(err)
	}
	return n.plugin
}

func npCase(in npIn, tags ...string) caseRec {
	out := runNP(in)
	tags = append(tags, in.Entry, "out-"+out.Kind)
	r := "(Ok tt)"
	switch out.Kind {
	case "err":
		r = "(Err EOther)"
	case "panic":
		r = "(Panic 0)"
	}
	coq := fmt.Sprintf("NP %d %s %s", entryID(in.Entry), r, coqBool(out.Ignored))
	return caseRec{Input: in, Output: out, Coq: coq, Tags: tags}
}

// ---- generators ----
// unknown-field groups (wire types 3/4): protobuf-go skips a well-formed group — also one that uses the number of a
// known non-group field — and rejects unterminated / mismatched / stray ones
func groupBytes(r *rand.Rand) []byte {
	tag := func(field, wt int) []byte {
		return protowire.AppendTag(nil, protowire.Number(field), protowire.Type(wt))
	}
	f := []int{99, 1, 2, 5, 1000, 3}[r.Intn(6)]
	inner := [][]byte{nil, {0x08, 0x01}, append(tag(7, 2), 0x02, 0xaa, 0xbb), append(append(tag(8, 3), 0x10, 0x05), tag(8, 4)...),
		append(tag(9, 1), 1, 2, 3, 4, 5, 6, 7, 8), append(tag(9, 5), 1, 2, 3, 4)}[r.Intn(6)]
	switch r.Intn(7) {
	case 0: // unterminated
		return append(tag(f, 3), inner...)
	case 1: // end-group of another field
		return append(append(tag(f, 3), inner...), tag(f+1, 4)...)
	case 2: // stray end-group
		return tag(f, 4)
	default:
		return append(append(tag(f, 3), inner...), tag(f, 4)...)
	}
}

func flipBytes(r *rand.Rand, b []byte) []byte {
	c := append([]byte(nil), b...)
	if r.Intn(4) == 0 {
		g := groupBytes(r)
		switch r.Intn(3) {
		case 0:
			return append(c, g...)
		case 1:
			return append(g, c...)
		default:
			return append(append(append([]byte(nil), g...), c...), groupBytes(r)...)
		}
	}
	for k := 1 + r.Intn(3); k > 0 && len(c) > 0; k-- {
		i := r.Intn(len(c))
		switch r.Intn(4) {
		case 0:
			c[i] ^= byte(1 << uint(r.Intn(8)))
		case 1:
			c = c[:i]
		case 2:
			c = append(c[:i:i], append([]byte{byte(r.Intn(256))}, c[i:]...)...)
		default:
			j := r.Intn(len(c))
			if i > j {
				i, j = j, i
			}
			c = append(c[:j:j], append(append([]byte(nil), c[i:j]...), c[j:]...)...) // duplicate a span (repeated fields)
		}
	}
	return c
}

func advBytes(r *rand.Rand, valid func() []byte) []byte {
	switch r.Intn(5) {
	case 0:
		return randBytes(r, r.Intn(40))
	case 1:
		return nil
	case 2:
		return valid()
	default:
		return flipBytes(r, valid())
	}
}

// an observation that passes ValidateObservation (most of the time)
func genGoodObsIn(r *rand.Rand, hasPred bool) *obsIn {
	o := &obsIn{Honest: true, Scripted: true, Ts: 1700000000e9 + uint64(r.Intn(1e9)), Retire: r.Intn(6) == 0}
	if hasPred && r.Intn(3) == 0 {
		o.Att = []string{"bad", "good"}[r.Intn(2)]
	}
	for k := r.Intn(4); k > 0; k-- {
		o.Removes = appendUnique(o.Removes, uint32(1+r.Intn(6)))
	}
	if r.Intn(2) == 0 {
		o.Updates = map[uint32]defDesc{}
		for k := r.Intn(4); k > 0; k-- {
			d := defDesc{Fmt: []uint32{1, 2, 4, 99}[r.Intn(4)]}
			for j := 1 + r.Intn(3); j > 0; j-- {
				d.Streams = append(d.Streams, streamDesc{ID: uint32(1 + r.Intn(6)), Agg: uint32(1 + r.Intn(3))})
			}
			o.Updates[uint32(1+r.Intn(6))] = d
		}
	}
	o.Values = map[uint32]*svDesc{}
	for sid := uint32(1); sid <= 6; sid++ {
		switch r.Intn(6) {
		case 0:
		case 1:
			o.Values[sid] = genQuoteNear(r, 1000)
		case 2:
			d := genDecNear(r, 1000)
			o.Values[sid] = &svDesc{T: "tsv", At: uint64(r.Int63()), In: &svDesc{T: "dec", D: &d}}
		case 3:
			o.Values[sid] = genWild(r, 1)
			if o.Values[sid].T == "nil" || (o.Values[sid].T == "tsv" && o.Values[sid].In.T != "dec") {
				delete(o.Values, sid)
			}
		default:
			d := genDecNear(r, 1000)
			o.Values[sid] = &svDesc{T: "dec", D: &d}
		}
	}
	return o
}

func genValidObsBytes(r *rand.Rand, hasPred bool, nilVA ...bool) []byte {
	o := genGoodObsIn(r, hasPred)
	ob := o.observation(npCache(len(nilVA) > 0 && nilVA[0]))
	b, err := c16Plugin(true).ObservationCodec.Encode(ob)
	if err != nil {
		return nil
	}
	return b
}

// an outcome as a running instance would hold it; dropAggs removes aggregates the definitions refer to
func genValidOutcomeBytes(r *rand.Rand, pver uint32, dropAggs bool) []byte {
	if r.Intn(8) == 0 { // codec-level extremes
		d := genOutcomeDesc(r, pver, 4)
		if b, err := c16PluginV(pver).OutcomeCodec.Encode(d.outcome()); err == nil {
			return b
		}
	}
	o := llo.Outcome{LifeCycleStage: llotypes.LifeCycleStage([]string{"production", "production", "staging", "retired"}[r.Intn(4)]),
		ObservationTimestampNanoseconds: 1699999999e9 + uint64(r.Intn(2e9)),
		ChannelDefinitions:              llotypes.ChannelDefinitions{},
		ValidAfterNanoseconds:           map[llotypes.ChannelID]uint64{},
		StreamAggregates:                llo.StreamAggregates{}}
	for i := r.Intn(5); i > 0; i-- {
		id := uint32(1 + r.Intn(6))
		d := llotypes.ChannelDefinition{ReportFormat: llotypes.ReportFormat([]uint32{1, 2, 4, 99, 7}[r.Intn(5)])}
		for j := 1 + r.Intn(3); j > 0; j-- {
			agg := uint32(1 + r.Intn(3))
			if r.Intn(25) == 0 {
				agg = uint32(r.Intn(6))
			}
			d.Streams = append(d.Streams, llotypes.Stream{StreamID: uint32(1 + r.Intn(6)), Aggregator: llotypes.Aggregator(agg)})
		}
		o.ChannelDefinitions[id] = d
		if r.Intn(6) != 0 {
			o.ValidAfterNanoseconds[id] = o.ObservationTimestampNanoseconds - uint64(r.Intn(3e9))
		}
		for _, st := range d.Streams {
			if dropAggs && r.Intn(3) == 0 {
				continue
			}
			var v *svDesc
			switch st.Aggregator {
			case llotypes.AggregatorQuote:
				v = genQuoteNear(r, 1000)
			default:
				dd := genDecNear(r, 1000)
				v = &svDesc{T: "dec", D: &dd}
				if r.Intn(4) == 0 {
					v = &svDesc{T: "tsv", At: uint64(r.Int63()), In: v}
				}
			}
			if o.StreamAggregates[st.StreamID] == nil {
				o.StreamAggregates[st.StreamID] = map[llotypes.Aggregator]llo.StreamValue{}
			}
			o.StreamAggregates[st.StreamID][st.Aggregator] = v.value()
		}
	}
	if dropAggs && r.Intn(6) == 0 {
		o.StreamAggregates = nil
	}
	b, err := c16PluginV(pver).OutcomeCodec.Encode(o)
	if err != nil {
		return nil
	}
	return b
}

func genMercValid(r *rand.Rand, ver int) (mercCfg, []string) {
	h := genMercHistory(r, ver, 1)
	var obs []string
	for _, o := range h.Rounds[0].Obs {
		if o.Raw == nil {
			obs = append(obs, hx(o.bytes(ver)))
		}
	}
	return h.Cfg, obs
}

// no protobuf message decodes these bytes: some field is cut short or has an invalid tag / wire type
func undecodable(b []byte) bool {
	for len(b) > 0 {
		_, _, n := protowire.ConsumeField(b)
		if n < 0 {
			return true
		}
		b = b[n:]
	}
	return false
}

func genNoPanic(seed int64, n int) []caseRec {
	r := rand.New(rand.NewSource(seed))
	var cs []caseRec
	// fixed witnesses of the repaired defects: D4 (telemetry + missing aggregate), B5 (streamlined, unverified definition)
	{
		pl := c16PluginV(1)
		o := llo.Outcome{LifeCycleStage: "production", ObservationTimestampNanoseconds: 2e9,
			ChannelDefinitions:    llotypes.ChannelDefinitions{1: {ReportFormat: llotypes.ReportFormatJSON, Streams: []llotypes.Stream{{StreamID: 1, Aggregator: llotypes.AggregatorMedian}, {StreamID: 2, Aggregator: llotypes.AggregatorMedian}}}},
			ValidAfterNanoseconds: map[llotypes.ChannelID]uint64{1: 1e9},
			StreamAggregates:      llo.StreamAggregates{1: {llotypes.AggregatorMedian: llo.ToDecimal(decOf(5, 0).D.decimal())}}}
		b, _ := pl.OutcomeCodec.Encode(o)
		for _, tele := range []bool{true, false} {
			cs = append(cs, npCase(npIn{Entry: "reports", Cfg: &instCfg{F: 1, N: 4, PVer: 1, Interval: 1}, Tele: tele, Seq: 5, Prev: hx(b)}, "directed"))
		}
		cs = append(cs, npCase(npIn{Entry: "evmnil", Seq: 7, Prev: hx([]byte(`{"abi":[{"type":"int192"},{"type":"int192"}]}`)), Vals: []*svDesc{decOf(1, 0)}}, "directed"))
		cs = append(cs, npCase(npIn{Entry: "evmnil", Seq: 7, Prev: hx([]byte(`{"abi":[]}`)), Vals: []*svDesc{decOf(1, 0), {T: "nil"}}}, "directed"))
	}
	// promotion on a retirement report without channels (nil map) while the new outcome has channels
	for _, pver := range []uint32{0, 1} {
		pl := c16PluginV(pver)
		o := llo.Outcome{LifeCycleStage: "staging", ObservationTimestampNanoseconds: 1700000000e9,
			ChannelDefinitions: llotypes.ChannelDefinitions{1: {ReportFormat: llotypes.ReportFormatJSON, Streams: []llotypes.Stream{{StreamID: 1, Aggregator: llotypes.AggregatorMedian}}}}}
		pb, _ := pl.OutcomeCodec.Encode(o)
		cfg := instCfg{F: 1, N: 4, PVer: pver, Interval: uint64(pver), HasPred: true}
		in := npIn{Entry: "outcome", Cfg: &cfg, Seq: 5, Prev: hx(pb), NilVA: true}
		for i := 0; i < 3; i++ {
			ob := obsIn{Honest: true, Scripted: true, Att: "good", Ts: 1700000001e9, Values: map[uint32]*svDesc{1: decOf(100+int64(i), 0)}}
			b, _ := pl.ObservationCodec.Encode(ob.observation(npCache(true)))
			in.Obs = append(in.Obs, hx(b))
		}
		cs = append(cs, npCase(in, "directed"))
	}
	for len(cs) < n {
		cfg := instCfg{F: 1 + r.Intn(2), PVer: uint32(r.Intn(2)), Interval: uint64(r.Intn(3)) * 1e9, HasPred: r.Intn(2) == 0}
		cfg.N = 3*cfg.F + 1
		if cfg.PVer == 0 {
			cfg.Interval = 0
		} else if cfg.Interval == 0 {
			cfg.Interval = 1
		}
		seq := uint64(r.Intn(4))
		if r.Intn(5) == 0 {
			seq = r.Uint64()
		}
		switch k := r.Intn(14); {
		case k < 2:
			in := npIn{Entry: "validate", Cfg: &cfg, Seq: seq}
			for i := 1 + r.Intn(4); i > 0; i-- {
				switch r.Intn(3) {
				case 0:
					in.Obs = append(in.Obs, hx(genMutatedObsMsg(r)))
				default:
					in.Obs = append(in.Obs, hx(advBytes(r, func() []byte { return genValidObsBytes(r, true) })))
				}
			}
			cs = append(cs, npCase(in, "random"))
		case k < 5:
			if seq < 2 && r.Intn(4) != 0 {
				seq = 2 + uint64(r.Intn(5))
			}
			in := npIn{Entry: "outcome", Cfg: &cfg, Seq: seq, Tele: r.Intn(2) == 0, NilVA: r.Intn(3) == 0}
			switch r.Intn(4) {
			case 0:
				in.Prev = hx(genMutatedOutcomeMsg(r, cfg.PVer))
			case 1:
				in.Prev = hx(advBytes(r, func() []byte { return genValidOutcomeBytes(r, cfg.PVer, false) }))
			default:
				in.Prev = hx(genValidOutcomeBytes(r, cfg.PVer, r.Intn(2) == 0))
			}
			nGood := 2*cfg.F + 1
			if r.Intn(6) == 0 {
				nGood = r.Intn(nGood)
			}
			for i := nGood; i > 0; i-- {
				in.Obs = append(in.Obs, hx(genValidObsBytes(r, cfg.HasPred, in.NilVA)))
			}
			for i := r.Intn(cfg.F + 1); i > 0; i-- {
				switch r.Intn(3) {
				case 0:
					in.Obs = append(in.Obs, hx(genMutatedObsMsg(r)))
				case 1:
					in.Obs = append(in.Obs, hx(flipBytes(r, genValidObsBytes(r, cfg.HasPred, in.NilVA))))
				default:
					in.Obs = append(in.Obs, hx(genValidObsBytes(r, true)))
				}
			}
			r.Shuffle(len(in.Obs), func(i, j int) { in.Obs[i], in.Obs[j] = in.Obs[j], in.Obs[i] })
			cs = append(cs, npCase(in, "random"))
		case k < 8:
			in := npIn{Entry: "reports", Cfg: &cfg, Seq: seq, Tele: r.Intn(2) == 0}
			switch r.Intn(5) {
			case 0:
				in.Prev = hx(genMutatedOutcomeMsg(r, cfg.PVer))
			case 1:
				in.Prev = hx(advBytes(r, func() []byte { return genValidOutcomeBytes(r, cfg.PVer, true) }))
			default:
				in.Prev = hx(genValidOutcomeBytes(r, cfg.PVer, true))
			}
			cs = append(cs, npCase(in, "random"))
		case k < 9:
			in := npIn{Entry: "observation", Cfg: &cfg, Seq: seq, Tele: r.Intn(2) == 0}
			switch r.Intn(3) {
			case 0:
				in.Prev = hx(genMutatedOutcomeMsg(r, cfg.PVer))
			default:
				in.Prev = hx(advBytes(r, func() []byte { return genValidOutcomeBytes(r, cfg.PVer, true) }))
			}
			g := &histGen{r: r}
			for i := r.Intn(3); i > 0; i-- {
				in.Defs = append(in.Defs, g.randDef())
			}
			for i := r.Intn(4); i > 0; i-- {
				in.Vals = append(in.Vals, genWild(r, 0))
			}
			cs = append(cs, npCase(in, "random"))
		case k < 11:
			ver := 1 + r.Intn(4)
			mc, obs := genMercValid(r, ver)
			in := npIn{Entry: "mercury", MCfg: &mc, Obs: obs}
			for i := r.Intn(mc.F + 2); i > 0; i-- {
				var g []byte
				switch r.Intn(4) {
				case 0:
					g = append(randBytes(r, 1+r.Intn(30)), 0xff) // ends inside a varint: never decodable
				case 1:
					if len(obs) > 0 {
						g = unhx(obs[r.Intn(len(obs))])
						g = g[:r.Intn(len(g)+1)/2]
						g = append(g, 0xff)
					} else {
						g = []byte{0xff}
					}
				default:
					g = []byte{0x0a, 0xff, 0xff, 0xff, 0xff, 0x0f, byte(r.Intn(256))} // length-delimited field running past the end
				}
				if undecodable(g) {
					in.Garbage = append(in.Garbage, hx(g))
				}
			}
			switch r.Intn(4) {
			case 0:
				in.Prev = hx(randBytes(r, r.Intn(20)))
			case 1:
				in.Prev = hx([]byte{})
			}
			if r.Intn(4) == 0 && len(in.Obs) > 0 { // structure-aware mutation of one good observation (may stay decodable)
				i := r.Intn(len(in.Obs))
				in.Obs[i] = hx(flipBytes(r, unhx(in.Obs[i])))
				in.Garbage = nil
			}
			cs = append(cs, npCase(in, "random"))
		case k < 13:
			var b []byte
			switch r.Intn(9) {
			case 0:
				b = genMutatedObsMsg(r)
			case 1:
				b = genMutatedOutcomeMsg(r, uint32(r.Intn(2)))
			case 2:
				v := genWild(r, 0)
				if v.T == "nil" {
					v = decOf(3, 0)
				}
				b, _ = v.value().MarshalBinary()
				b = flipBytes(r, b)
			case 3:
				v := genValText(r, 0)
				b, _ = v.value().MarshalText()
				b = flipBytes(r, b)
			case 4:
				rep := llo.Report{SeqNr: 1 + uint64(r.Intn(5)), Values: []llo.StreamValue{genValText(r, 0).value()}}
				b, _ = llo.JSONReportCodec{}.Encode(rep, llotypes.ChannelDefinition{})
				if r.Intn(2) == 0 {
					b, _ = llo.JSONReportCodec{}.Pack(types.ConfigDigest{1}, 3, b, []types.AttributedOnchainSignature{{Signature: randBytes(r, 5), Signer: 2}})
				}
				b = flipBytes(r, b)
			case 5:
				b = flipBytes(r, []byte(`{"baseUSDFee":"1.5","expirationWindow":10,"feedID":"0x`+hx(randBytes(r, 32))+`","abi":[{"type":"int192","multiplier":"100"},[{"type":"uint64"},{"type":"int8"}]]}`))
			case 6:
				b = randBytes(r, 32*(1+r.Intn(12)))
			case 7:
				pm, _ := proto.Marshal(&llo.LLOOffchainConfigProto{ProtocolVersion: uint32(r.Intn(3)), DefaultMinReportIntervalNanoseconds: r.Uint64()})
				b = flipBytes(r, pm)
			default:
				b = randBytes(r, r.Intn(80))
			}
			cs = append(cs, npCase(npIn{Entry: "decoders", Prev: hx(b)}, "random"))
		default:
			in := npIn{Entry: "evmnil", Seq: uint64([]uint32{1, 2, 4, 5, 7, 99}[r.Intn(6)])}
			nv := r.Intn(5)
			for i := 0; i < nv; i++ {
				switch r.Intn(4) {
				case 0:
					in.Vals = append(in.Vals, &svDesc{T: "nil"})
				default:
					in.Vals = append(in.Vals, genWild(r, 0))
				}
			}
			abiN := r.Intn(5)
			abi := ""
			for i := 0; i < abiN; i++ {
				if i > 0 {
					abi += ","
				}
				abi += []string{`{"type":"int192"}`, `{"type":"uint8","multiplier":"0"}`, `[{"type":"uint64"},{"type":"int64"}]`, `{"type":"bytes0"}`, `[]`, `null`}[r.Intn(6)]
			}
			switch r.Intn(4) {
			case 0:
				in.Prev = hx([]byte(`{"abi":[` + abi + `]}`))
			case 1:
				in.Prev = hx([]byte(`{"baseUSDFee":"1","expirationWindow":5,"feedID":"0x` + hx(randBytes(r, 32)) + `","abi":[` + abi + `]}`))
			case 2:
				in.Prev = hx([]byte(`{"baseUSDFee":"1","expirationWindow":5,"feedID":"0x` + hx(randBytes(r, 32)) + `","multiplier":"` + fmt.Sprint(r.Intn(3)-1) + `"}`))
			default:
				in.Prev = hx(randBytes(r, r.Intn(10)))
			}
			in.Extra = [][]uint32{{uint32(r.Intn(3))}}
			cs = append(cs, npCase(in, "random"))
		}
	}
	return cs
}

func cmdNoPanic(seed int64, n int, out, replay, tier string) {
	var cs []caseRec
	if replay != "" {
		var f struct {
			Cases []struct {
				Input npIn `json:"input"`
			} `json:"cases"`
		}
		b, err := os.ReadFile(replay)
		if err != nil {
			fatal(err)
		}
		if err := json.Unmarshal(b, &f); err != nil {
			fatal(err)
		}
		for _, c := range f.Cases {
			cs = append(cs, npCase(c.Input, "replay"))
		}
	} else {
		cs = genNoPanic(seed, n)
	}
	header := "From DS Require Import Base CasesNoPanic.\n"
	if err := writeCasesSharded(out, "nopanic", seed, header, "np_case", "np_eval", cs, 1000); err != nil {
		fatal(err)
	}
	fmt.Printf("nopanic: %d cases\n", len(cs))
}
