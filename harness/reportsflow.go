package main

// `reportsflow` projection (C11): the control flow of llo.Plugin.Reports on arbitrary outcome bytes — decoding,
// retirement report, one report per reportable channel in ascending order, a missing codec or an encoding error
// drops that report — compared with the model PluginReports.plugin_reports under recover().
// The report codecs registered for a case are mocks with a per-format mode: ok (returns the channel id as four
// bytes), err (returns an error), missing (no codec registered); the retirement-report codec is a mock returning one
// fixed byte, so the whole result (number, order and bytes of the reports) is comparable.

import (
	"context"
	"encoding/binary"
	"errors"
	"fmt"
	"math/rand"
	"sort"

	"github.com/smartcontractkit/libocr/offchainreporting2/types"
	"github.com/smartcontractkit/libocr/offchainreporting2plus/ocr3types"

	"github.com/smartcontractkit/chainlink-common/pkg/logger"
	llotypes "github.com/smartcontractkit/chainlink-common/pkg/types/llo"
	"github.com/smartcontractkit/chainlink-data-streams/llo"
)

type rfIn struct {
	Cfg   instCfg        `json:"cfg"`
	Seq   uint64         `json:"seq"`
	Modes map[uint32]int `json:"modes"` // report format -> 0 ok | 1 err (absent: no codec)
	Prev  string         `json:"outcome_hex"`
	Tele  bool           `json:"telemetry"`
}
type rfOut struct {
	Kind    string   `json:"kind"`
	Text    string   `json:"text,omitempty"`
	Reports []string `json:"reports_hex,omitempty"`
}

type flowCodec struct{ mode int }

func (c flowCodec) Encode(r llo.Report, _ llotypes.ChannelDefinition) ([]byte, error) {
	if c.mode == 1 {
		return nil, errors.New("mock codec refuses")
	}
	b := make([]byte, 4)
	binary.BigEndian.PutUint32(b, r.ChannelID)
	return b, nil
}
func (c flowCodec) Verify(llotypes.ChannelDefinition) error { return nil }

type flowRetirementCodec struct{}

func (flowRetirementCodec) Encode(llo.RetirementReport) ([]byte, error) { return []byte{170}, nil }
func (flowRetirementCodec) Decode([]byte) (llo.RetirementReport, error) {
	return llo.RetirementReport{}, errors.New("not used")
}

func runRF(in rfIn) rfOut {
	oc := llo.OnchainConfig{Version: 1}
	ocb, err := llo.EVMOnchainConfigCodec{}.Encode(oc)
	if err != nil {
		fatal(err)
	}
	offb, err := llo.OffchainConfig{ProtocolVersion: in.Cfg.PVer, DefaultMinReportIntervalNanoseconds: in.Cfg.Interval}.Encode()
	if err != nil {
		fatal(err)
	}
	codecs := map[llotypes.ReportFormat]llo.ReportCodec{}
	for f, m := range in.Modes {
		codecs[llotypes.ReportFormat(f)] = flowCodec{mode: m}
	}
	params := llo.PluginFactoryParams{
		Config:                           llo.Config{},
		PredecessorRetirementReportCache: newMockRetirementCache(),
		ShouldRetireCache:                &mockShouldRetire{},
		RetirementReportCodec:            flowRetirementCodec{},
		ChannelDefinitionCache:           &mockDefs{},
		DataSource:                       &mockDataSource{vals: map[uint32]*svDesc{}},
		Logger:                           logger.Nop(),
		OnchainConfigCodec:               llo.EVMOnchainConfigCodec{},
		ReportCodecs:                     codecs,
	}
	if in.Tele {
		params.ReportTelemetryCh = make(chan *llo.LLOReportTelemetry, 1)
	}
	rp, _, err := llo.NewPluginFactory(params).NewReportingPlugin(context.Background(), ocr3types.ReportingPluginConfig{
		ConfigDigest: types.ConfigDigest{9}, N: in.Cfg.N, F: in.Cfg.F, OnchainConfig: ocb, OffchainConfig: offb,
	})
	if err != nil {
		fatal(err)
	}
	var reps []ocr3types.ReportPlus[llotypes.ReportInfo]
	e, panicked, pv := protect(func() error {
		var e error
		reps, e = rp.Reports(context.Background(), in.Seq, unhx(in.Prev))
		return e
	})
	switch {
	case panicked:
		return rfOut{Kind: "panic", Text: fmt.Sprint(pv)}
	case e != nil:
		t := e.Error()
		if len(t) > 200 {
			t = t[:200]
		}
		return rfOut{Kind: "err", Text: t}
	}
	out := rfOut{Kind: "ok"}
	for _, r := range reps {
		out.Reports = append(out.Reports, hx(r.ReportWithInfo.Report))
	}
	return out
}

func rfCase(in rfIn, tags ...string) caseRec {
	out := runRF(in)
	tags = append(tags, "out-"+out.Kind, fmt.Sprintf("reports-%d", len(out.Reports)))
	var res string
	switch out.Kind {
	case "panic":
		res = "(Panic 0)"
	case "err":
		res = "(Err EOther)"
	default:
		var rs []string
		for _, r := range out.Reports {
			rs = append(rs, coqHex(unhx(r)))
		}
		res = "(Ok " + coqList(rs) + ")"
	}
	var fs []uint32
	for f := range in.Modes {
		fs = append(fs, f)
	}
	sort.Slice(fs, func(i, j int) bool { return fs[i] < fs[j] })
	var ms []string
	for _, f := range fs {
		ms = append(ms, fmt.Sprintf("(%d, %d)", f, in.Modes[f]))
	}
	coq := fmt.Sprintf("RF %s %d %s %s %s", coqCfg(in.Cfg), in.Seq, coqList(ms), coqHex(unhx(in.Prev)), res)
	return caseRec{Input: in, Output: out, Coq: coq, Tags: tags}
}

const rfHeader = "From stdpp Require Import gmap.\nFrom DS Require Import Base Outcome CasesReportsFlow.\n"

func cmdReportsFlow(seed int64, n int, out, replay, tier string) {
	var cs []caseRec
	if replay != "" {
		for _, in := range loadReplayInputs[rfIn](replay) {
			cs = append(cs, rfCase(in, "replay"))
		}
	} else {
		r := rand.New(rand.NewSource(seed))
		for len(cs) < n {
			cfg := instCfg{F: 1, N: 4, PVer: uint32(r.Intn(2))}
			if cfg.PVer == 1 {
				cfg.Interval = []uint64{1, 1e9, 5e8}[r.Intn(3)]
			}
			in := rfIn{Cfg: cfg, Seq: []uint64{0, 1, 2, 5, 1 << 40}[r.Intn(5)], Modes: map[uint32]int{}, Tele: r.Intn(2) == 0}
			for _, f := range []uint32{1, 2, 4, 99} {
				switch r.Intn(4) {
				case 0:
				case 1:
					in.Modes[f] = 1
				default:
					in.Modes[f] = 0
				}
			}
			tag := "valid-outcome"
			switch r.Intn(6) {
			case 0:
				in.Prev = hx(genMutatedOutcomeMsg(r, cfg.PVer))
				tag = "mutated-message"
			case 1:
				in.Prev = hx(flipBytes(r, genValidOutcomeBytes(r, cfg.PVer, true)))
				tag = "flipped-bytes"
			default:
				in.Prev = hx(genValidOutcomeBytes(r, cfg.PVer, true))
			}
			cs = append(cs, rfCase(in, tag, fmt.Sprintf("pver%d", cfg.PVer)))
		}
	}
	if err := writeCasesSharded(out, "reportsflow", seed, rfHeader, "rf_case", "rf_eval", cs, 100); err != nil {
		fatal(err)
	}
}
