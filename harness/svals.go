package main

// Descriptions of stream values that can be (a) turned into llo.StreamValue, (b) printed as Gallina
// terms of type `sval`, (c) stored in replay files.

import (
	"encoding/binary"
	"fmt"
	"math/big"
	"math/rand"

	"github.com/shopspring/decimal"

	"github.com/smartcontractkit/chainlink-data-streams/llo"
)

type decDesc struct {
	Neg bool   `json:"neg,omitempty"`
	Mag string `json:"mag"` // decimal digits of the magnitude
	Exp int32  `json:"exp"`
}

type svDesc struct {
	T   string   `json:"t"` // nil | dec | quote | tsv
	D   *decDesc `json:"d,omitempty"`
	Bid *decDesc `json:"bid,omitempty"`
	Bm  *decDesc `json:"bm,omitempty"`
	Ask *decDesc `json:"ask,omitempty"`
	At  uint64   `json:"at,omitempty"`
	In  *svDesc  `json:"in,omitempty"`
}

func (d decDesc) mag() *big.Int {
	m, ok := new(big.Int).SetString(d.Mag, 10)
	if !ok {
		panic("bad magnitude " + d.Mag)
	}
	return m
}

// binary form exactly as decimal.MarshalBinary would produce it (allows negative zero)
func (d decDesc) bytes() []byte {
	b := make([]byte, 4)
	binary.BigEndian.PutUint32(b, uint32(d.Exp))
	if d.Neg {
		b = append(b, 3)
	} else {
		b = append(b, 2)
	}
	return append(b, d.mag().Bytes()...)
}

// built by decoding, like every value the plugin ever aggregates
func (d decDesc) decimal() decimal.Decimal {
	var x decimal.Decimal
	if err := x.UnmarshalBinary(d.bytes()); err != nil {
		panic(err)
	}
	return x
}

func (d decDesc) coq() string {
	return fmt.Sprintf("(mkd %s %s %s)", coqBool(d.Neg), coqZ(d.mag()), coqZi(int64(d.Exp)))
}

func descOfDecimal(x decimal.Decimal) decDesc {
	b, err := x.MarshalBinary()
	if err != nil {
		panic(err)
	}
	d := decDesc{Exp: int32(binary.BigEndian.Uint32(b[:4]))}
	if len(b) > 4 {
		d.Neg = b[4]&1 == 1
		d.Mag = new(big.Int).SetBytes(b[5:]).String()
	} else {
		d.Mag = "0"
	}
	return d
}

func (s *svDesc) value() llo.StreamValue {
	if s == nil {
		return nil
	}
	switch s.T {
	case "nil":
		return nil
	case "dec":
		return llo.ToDecimal(s.D.decimal())
	case "quote":
		return &llo.Quote{Bid: s.Bid.decimal(), Benchmark: s.Bm.decimal(), Ask: s.Ask.decimal()}
	case "tsv":
		return &llo.TimestampedStreamValue{ObservedAtNanoseconds: s.At, StreamValue: s.In.value()}
	}
	panic("bad svDesc " + s.T)
}

// Gallina term of type sval (not for nil)
func (s *svDesc) coqVal() string {
	switch s.T {
	case "dec":
		return "(SDec " + s.D.coq() + ")"
	case "quote":
		return "(SQuote " + s.Bid.coq() + " " + s.Bm.coq() + " " + s.Ask.coq() + ")"
	case "tsv":
		return "(STsv " + coqZu(s.At) + " " + s.In.coqVal() + ")"
	}
	// a nil value cannot be written as an sval; callers report such results as malformed (see malformedValue)
	return "(SDec (mkd false 0 0))"
}

// Gallina term of type option sval
func (s *svDesc) coqSlot() string {
	if s == nil || s.T == "nil" {
		return "None"
	}
	return "(Some " + s.coqVal() + ")"
}

func descOfValue(v llo.StreamValue) *svDesc {
	switch x := v.(type) {
	case nil:
		return &svDesc{T: "nil"}
	case *llo.Decimal:
		if x == nil {
			return &svDesc{T: "nil"}
		}
		d := descOfDecimal(x.Decimal())
		return &svDesc{T: "dec", D: &d}
	case *llo.Quote:
		if x == nil {
			return &svDesc{T: "nil"}
		}
		a, b, c := descOfDecimal(x.Bid), descOfDecimal(x.Benchmark), descOfDecimal(x.Ask)
		return &svDesc{T: "quote", Bid: &a, Bm: &b, Ask: &c}
	case *llo.TimestampedStreamValue:
		if x == nil {
			return &svDesc{T: "nil"}
		}
		return &svDesc{T: "tsv", At: x.ObservedAtNanoseconds, In: descOfValue(x.StreamValue)}
	}
	panic(fmt.Sprintf("unknown stream value %T", v))
}

// ---- generators ----
func mkDec(neg bool, mag *big.Int, exp int32) decDesc {
	return decDesc{Neg: neg, Mag: mag.String(), Exp: exp}
}

// a decimal near `base` (an integer number of 10^-4 units), in a random representation
func genDecNear(r *rand.Rand, base int64) decDesc {
	v := base + int64(r.Intn(41)) - 20
	if r.Intn(10) == 0 {
		v = -v
	}
	neg := v < 0
	mag := big.NewInt(v)
	mag.Abs(mag)
	exp := int32(-4)
	// change representation without changing the value
	switch r.Intn(4) {
	case 0:
		k := r.Intn(6)
		mag.Mul(mag, new(big.Int).Exp(big.NewInt(10), big.NewInt(int64(k)), nil))
		exp -= int32(k)
	case 1:
		for new(big.Int).Mod(mag, big.NewInt(10)).Sign() == 0 && mag.Sign() != 0 {
			mag.Div(mag, big.NewInt(10))
			exp++
		}
	}
	return mkDec(neg, mag, exp)
}

// anything at all: extreme magnitudes, scales in [-40,40], either sign, zero, negative zero
func genDecWild(r *rand.Rand) decDesc {
	switch r.Intn(8) {
	case 0:
		return mkDec(r.Intn(2) == 0, big.NewInt(0), int32(r.Intn(5)-2)) // +-0
	case 1:
		return mkDec(r.Intn(2) == 0, new(big.Int).Exp(big.NewInt(10), big.NewInt(int64(r.Intn(40))), nil), int32(r.Intn(81)-40))
	case 2:
		m := new(big.Int).Rand(r, new(big.Int).Lsh(big.NewInt(1), uint(1+r.Intn(200))))
		return mkDec(r.Intn(2) == 0, m, int32(r.Intn(81)-40))
	default:
		return mkDec(r.Intn(2) == 0, big.NewInt(int64(r.Intn(200000))), int32(r.Intn(11)-8))
	}
}

func genQuoteNear(r *rand.Rand, base int64) *svDesc {
	bm := genDecNear(r, base)
	bid := genDecNear(r, base-40)
	ask := genDecNear(r, base+40)
	if bid.Neg != bm.Neg || bm.Neg != ask.Neg { // keep it a valid quote: all three with the sign of base
		bid.Neg, ask.Neg = false, false
		bm.Neg = false
	}
	return &svDesc{T: "quote", Bid: &bid, Bm: &bm, Ask: &ask}
}

func genWild(r *rand.Rand, depth int) *svDesc {
	switch r.Intn(7) {
	case 0:
		return &svDesc{T: "nil"}
	case 1, 2:
		d := genDecWild(r)
		return &svDesc{T: "dec", D: &d}
	case 3, 4:
		a, b, c := genDecWild(r), genDecWild(r), genDecWild(r)
		return &svDesc{T: "quote", Bid: &a, Bm: &b, Ask: &c}
	default:
		if depth >= 2 {
			d := genDecWild(r)
			return &svDesc{T: "dec", D: &d}
		}
		in := genWild(r, depth+1)
		if in.T == "nil" {
			d := genDecWild(r)
			in = &svDesc{T: "dec", D: &d}
		}
		at := uint64(r.Int63())
		if r.Intn(4) == 0 {
			at = r.Uint64()
		}
		return &svDesc{T: "tsv", At: at, In: in}
	}
}

// a decoded value that cannot be represented as an `sval` (nil nested value): decoders must never produce one
func malformedValue(v llo.StreamValue) bool {
	switch x := v.(type) {
	case *llo.TimestampedStreamValue:
		if x == nil {
			return false
		}
		if x.StreamValue == nil {
			return true
		}
		return malformedValue(x.StreamValue)
	}
	return false
}
