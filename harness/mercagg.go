package main

import (
	"fmt"
	"math/big"
	"math/rand"

	"github.com/smartcontractkit/libocr/commontypes"

	v1types "github.com/smartcontractkit/chainlink-common/pkg/types/mercury/v1"

	"github.com/smartcontractkit/chainlink-data-streams/mercury"
	mv1 "github.com/smartcontractkit/chainlink-data-streams/mercury/v1"
	mv4 "github.com/smartcontractkit/chainlink-data-streams/mercury/v4"
)

// a parsed attributed observation carrying one field of interest; implements every PAO interface
type fieldPAO struct {
	ts     uint32
	v      *big.Int
	valid  bool
	blocks []v1types.Block
	cur    *v1types.Block
}

func (p fieldPAO) GetTimestamp() uint32                      { return p.ts }
func (p fieldPAO) GetObserver() commontypes.OracleID         { return 0 }
func (p fieldPAO) GetBenchmarkPrice() (*big.Int, bool)       { return p.v, p.valid }
func (p fieldPAO) GetBid() (*big.Int, bool)                  { return p.v, p.valid }
func (p fieldPAO) GetAsk() (*big.Int, bool)                  { return p.v, p.valid }
func (p fieldPAO) GetLinkFee() (*big.Int, bool)              { return p.v, p.valid }
func (p fieldPAO) GetNativeFee() (*big.Int, bool)            { return p.v, p.valid }
func (p fieldPAO) GetMaxFinalizedTimestamp() (int64, bool)   { return p.v.Int64(), p.valid }
func (p fieldPAO) GetMaxFinalizedBlockNumber() (int64, bool) { return p.v.Int64(), p.valid }
func (p fieldPAO) GetMarketStatus() (uint32, bool)           { return uint32(p.v.Uint64()), p.valid }
func (p fieldPAO) GetLatestBlocks() []v1types.Block          { return p.blocks }
func (p fieldPAO) GetCurrentBlockNum() (int64, bool) {
	if p.cur == nil {
		return 0, false
	}
	return p.cur.Num, true
}
func (p fieldPAO) GetCurrentBlockHash() ([]byte, bool) {
	if p.cur == nil {
		return nil, false
	}
	return p.cur.HashBytes(), true
}
func (p fieldPAO) GetCurrentBlockTimestamp() (uint64, bool) {
	if p.cur == nil {
		return 0, false
	}
	return p.cur.Ts, true
}

type mfield struct {
	V      string `json:"v"`
	Valid  bool   `json:"valid"`
	Honest bool   `json:"honest"`
}
type mblock struct {
	Num  int64  `json:"num"`
	Hash []byte `json:"hash"`
	Ts   uint64 `json:"ts"`
}
type mobs struct {
	Blocks []mblock `json:"blocks"`
	Cur    *mblock  `json:"cur,omitempty"`
	Honest bool     `json:"honest"`
}
type maggIn struct {
	Kind   string   `json:"kind"` // timestamp price bid ask linkfee nativefee maxfints maxfinblock status latestblock
	F      int      `json:"f"`
	Fields []mfield `json:"fields,omitempty"`
	Obs    []mobs   `json:"obs,omitempty"`
	Perm   []int    `json:"perm"`
}
type maggOut struct {
	Kind  string  `json:"kind"` // ok | err | panic
	V     string  `json:"v,omitempty"`
	Block *mblock `json:"block,omitempty"`
	Text  string  `json:"text,omitempty"`
}

func (o maggOut) coq() string {
	switch o.Kind {
	case "ok":
		if o.Block != nil {
			return "(Ok (OBlock " + o.Block.coq() + "))"
		}
		z, _ := new(big.Int).SetString(o.V, 10)
		return "(Ok (OZ " + coqZ(z) + "))"
	case "err":
		return "(Err EOther)"
	}
	return "(Panic 0)"
}
func (b mblock) coq() string {
	return fmt.Sprintf("{| bnum := %s; bhash := %s; bts := %s |}", coqZi(b.Num), coqHex(b.Hash), coqZu(b.Ts))
}
func (b mblock) block() v1types.Block { return v1types.NewBlock(b.Num, b.Hash, b.Ts) }

func bigOf(s string) *big.Int { z, _ := new(big.Int).SetString(s, 10); return z }

func runMagg(in maggIn, order []int) maggOut {
	var outZ *big.Int
	var outB *mblock
	err, panicked, pv := protect(func() error {
		switch in.Kind {
		case "latestblock":
			paos := make([]mv1.PAO, len(in.Obs))
			for i, j := range order {
				o := in.Obs[j]
				p := fieldPAO{v: big.NewInt(0)}
				for _, b := range o.Blocks {
					p.blocks = append(p.blocks, b.block())
				}
				if o.Cur != nil {
					c := o.Cur.block()
					p.cur = &c
				}
				paos[i] = p
			}
			h, n, ts, e := mv1.GetConsensusLatestBlock(paos, in.F)
			if e == nil {
				outB = &mblock{Num: n, Hash: h, Ts: ts}
			}
			return e
		}
		fs := make([]fieldPAO, len(in.Fields))
		for i, j := range order {
			f := in.Fields[j]
			fs[i] = fieldPAO{v: bigOf(f.V), valid: f.Valid}
			if in.Kind == "timestamp" {
				fs[i].ts = uint32(bigOf(f.V).Uint64())
			}
		}
		var e error
		switch in.Kind {
		case "timestamp":
			paos := make([]mercury.PAO, len(fs))
			for i := range fs {
				paos[i] = fs[i]
			}
			outZ = new(big.Int).SetUint64(uint64(mercury.GetConsensusTimestamp(paos)))
		case "price":
			paos := make([]mercury.PAO, len(fs))
			for i := range fs {
				paos[i] = fs[i]
			}
			outZ, e = mercury.GetConsensusBenchmarkPrice(paos, in.F)
		case "bid":
			paos := make([]mercury.PAOBid, len(fs))
			for i := range fs {
				paos[i] = fs[i]
			}
			outZ, e = mercury.GetConsensusBid(paos, in.F)
		case "ask":
			paos := make([]mercury.PAOAsk, len(fs))
			for i := range fs {
				paos[i] = fs[i]
			}
			outZ, e = mercury.GetConsensusAsk(paos, in.F)
		case "linkfee":
			paos := make([]mercury.PAOLinkFee, len(fs))
			for i := range fs {
				paos[i] = fs[i]
			}
			outZ, e = mercury.GetConsensusLinkFee(paos, in.F)
		case "nativefee":
			paos := make([]mercury.PAONativeFee, len(fs))
			for i := range fs {
				paos[i] = fs[i]
			}
			outZ, e = mercury.GetConsensusNativeFee(paos, in.F)
		case "maxfints":
			paos := make([]mercury.PAOMaxFinalizedTimestamp, len(fs))
			for i := range fs {
				paos[i] = fs[i]
			}
			var v int64
			v, e = mercury.GetConsensusMaxFinalizedTimestamp(paos, in.F)
			outZ = big.NewInt(v)
		case "maxfinblock":
			paos := make([]mv1.PAO, len(fs))
			for i := range fs {
				paos[i] = fs[i]
			}
			var v int64
			v, e = mv1.GetConsensusMaxFinalizedBlockNum(paos, in.F)
			outZ = big.NewInt(v)
		case "status":
			paos := make([]mv4.PAOMarketStatus, len(fs))
			for i := range fs {
				paos[i] = fs[i]
			}
			var v uint32
			v, e = mv4.GetConsensusMarketStatus(paos, in.F)
			outZ = new(big.Int).SetUint64(uint64(v))
		}
		return e
	})
	if panicked {
		return maggOut{Kind: "panic", Text: fmt.Sprint(pv)}
	}
	if err != nil {
		return maggOut{Kind: "err", Text: err.Error()}
	}
	if outB != nil {
		return maggOut{Kind: "ok", Block: outB}
	}
	return maggOut{Kind: "ok", V: outZ.String()}
}

func maggCase(in maggIn, tags ...string) caseRec {
	n := len(in.Fields)
	if in.Kind == "latestblock" {
		n = len(in.Obs)
	}
	id := make([]int, n)
	for i := range id {
		id[i] = i
	}
	out := runMagg(in, id)
	outp := runMagg(in, in.Perm)
	var inCoq string
	fieldList := func() string {
		var xs []string
		for _, f := range in.Fields {
			xs = append(xs, fmt.Sprintf("((%s, %s), %s)", coqZ(bigOf(f.V)), coqBool(f.Valid), coqBool(f.Honest)))
		}
		return coqList(xs)
	}
	switch in.Kind {
	case "timestamp":
		var xs []string
		for _, f := range in.Fields {
			xs = append(xs, fmt.Sprintf("(%s, %s)", coqZ(bigOf(f.V)), coqBool(f.Honest)))
		}
		inCoq = "(MTimestamp " + coqList(xs) + ")"
	case "price", "bid", "ask":
		inCoq = "(MPrice " + fieldList() + ")"
	case "linkfee", "nativefee":
		inCoq = "(MFee " + fieldList() + ")"
	case "maxfints":
		inCoq = "(MMaxFinTs " + fieldList() + ")"
	case "maxfinblock":
		inCoq = "(MMaxFinBlock " + fieldList() + ")"
	case "status":
		inCoq = "(MStatus " + fieldList() + ")"
	case "latestblock":
		var xs []string
		for _, o := range in.Obs {
			var bs []string
			for _, b := range o.Blocks {
				bs = append(bs, b.coq())
			}
			cur := "None"
			if o.Cur != nil {
				cur = "(Some " + o.Cur.coq() + ")"
			}
			xs = append(xs, fmt.Sprintf("((%s, %s), %s)", coqList(bs), cur, coqBool(o.Honest)))
		}
		inCoq = "(MLatestBlock " + coqList(xs) + ")"
	}
	coq := fmt.Sprintf("{| mg_in := %s; mg_f := %s; mg_out := %s; mg_out_perm := %s |}", inCoq, coqNat(in.F), out.coq(), outp.coq())
	return caseRec{Input: in, Output: map[string]maggOut{"out": out, "out_perm": outp}, Coq: coq, Tags: append(tags, in.Kind)}
}

var medianKinds = []string{"timestamp", "price", "bid", "ask", "linkfee", "nativefee"}
var selectorKinds = []string{"maxfints", "maxfinblock", "status"}

func genMaggMedian(r *rand.Rand, kind string, maxF int) maggIn {
	f := 1 + r.Intn(maxF)
	n := 2*f + 1 + r.Intn(f+1)
	b := r.Intn(f + 1)
	if r.Intn(15) == 0 {
		b = r.Intn(n + 1)
	}
	base := int64(1000 + r.Intn(1000000))
	var fs []mfield
	for i := 0; i < n; i++ {
		honest := i >= b
		var v *big.Int
		valid := true
		if honest {
			v = big.NewInt(base + int64(r.Intn(21)) - 10)
			if kind != "timestamp" && r.Intn(6) == 0 {
				valid = false // a correct observer whose data source failed
				v = big.NewInt(0)
			}
		} else {
			switch r.Intn(5) {
			case 0:
				v = big.NewInt(0)
			case 1:
				v = new(big.Int).Neg(pow2(r.Intn(200)))
			case 2:
				v = pow2(r.Intn(200))
			case 3:
				v = big.NewInt(base + int64(r.Intn(41)) - 20)
			default:
				v = big.NewInt(-1 - int64(r.Intn(5)))
			}
			valid = r.Intn(5) != 0
		}
		if kind == "timestamp" {
			if !honest {
				v = new(big.Int).SetUint64(uint64(r.Uint32()))
				if r.Intn(3) == 0 {
					v = big.NewInt(int64([]uint32{0, 1, 4294967295, 2147483648}[r.Intn(4)]))
				}
			}
			valid = true
		}
		fs = append(fs, mfield{V: v.String(), Valid: valid, Honest: honest})
	}
	r.Shuffle(n, func(i, j int) { fs[i], fs[j] = fs[j], fs[i] })
	return maggIn{Kind: kind, F: f, Fields: fs, Perm: r.Perm(n)}
}

func genMaggSelector(r *rand.Rand, kind string, maxF int) maggIn {
	f := 1 + r.Intn(maxF)
	n := 2*f + 1 + r.Intn(f+2)
	b := r.Intn(f + 1)
	if r.Intn(15) == 0 {
		b = r.Intn(n + 1)
	}
	cands := []int64{-1, 0, 1, 5, 6, 9223372036854775807}
	if kind == "status" {
		cands = []int64{0, 1, 2, 3, 4294967295}
	}
	k := 1 + r.Intn(3)
	off := r.Intn(len(cands) - k + 1)
	var fs []mfield
	for i := 0; i < n; i++ {
		honest := i >= b
		v := cands[off+r.Intn(k)]
		valid := true
		if !honest {
			v = cands[r.Intn(len(cands))]
			valid = r.Intn(6) != 0
		} else if r.Intn(8) == 0 {
			valid = false
			v = 0
			if r.Intn(2) == 0 {
				v = cands[r.Intn(len(cands))] // an invalid field still carries a number
			}
		}
		fs = append(fs, mfield{V: big.NewInt(v).String(), Valid: valid, Honest: honest})
	}
	r.Shuffle(n, func(i, j int) { fs[i], fs[j] = fs[j], fs[i] })
	return maggIn{Kind: kind, F: f, Fields: fs, Perm: r.Perm(n)}
}

func genMaggLatestBlock(r *rand.Rand, maxF int) maggIn {
	f := 1 + r.Intn(maxF)
	n := 2*f + 1 + r.Intn(f+1)
	b := r.Intn(f + 1)
	top := int64(100 + r.Intn(1000))
	canonical := func(num int64) mblock {
		return mblock{Num: num, Hash: []byte{byte(num), byte(num >> 8), 7}, Ts: uint64(num * 12)}
	}
	var obs []mobs
	for i := 0; i < n; i++ {
		honest := i >= b
		o := mobs{Honest: honest}
		head := top - int64(r.Intn(3))
		if !honest && r.Intn(2) == 0 {
			head = top + int64(r.Intn(5))
		}
		cnt := r.Intn(5)
		for k := 0; k < cnt; k++ {
			blk := canonical(head - int64(k))
			if !honest && r.Intn(2) == 0 {
				blk.Hash = []byte{byte(r.Intn(4))} // a forked / invented block
				if r.Intn(2) == 0 {
					blk.Ts += uint64(r.Intn(3))
				}
			}
			o.Blocks = append(o.Blocks, blk)
		}
		if cnt == 0 && r.Intn(3) != 0 {
			c := canonical(head)
			o.Cur = &c
		}
		obs = append(obs, o)
	}
	r.Shuffle(n, func(i, j int) { obs[i], obs[j] = obs[j], obs[i] })
	return maggIn{Kind: "latestblock", F: f, Obs: obs, Perm: r.Perm(n)}
}

// exhaustive small vote tables / order types
func genMaggExhaustive(r *rand.Rand, maxN int) []maggIn {
	var out []maggIn
	vals := []int64{1, 2, 3}
	for _, kind := range append(append([]string{}, medianKinds...), selectorKinds...) {
		for n := 1; n <= maxN; n++ {
			total := 1
			for i := 0; i < n; i++ {
				total *= len(vals) + 1
			}
			for code := 0; code < total; code++ {
				c := code
				fs := make([]mfield, n)
				for i := 0; i < n; i++ {
					d := c % (len(vals) + 1)
					c /= len(vals) + 1
					if d == len(vals) {
						fs[i] = mfield{V: "0", Valid: kind == "timestamp", Honest: i != 0}
					} else {
						fs[i] = mfield{V: big.NewInt(vals[d]).String(), Valid: true, Honest: i != 0}
					}
				}
				out = append(out, maggIn{Kind: kind, F: 1, Fields: fs, Perm: r.Perm(n)})
			}
		}
	}
	return out
}

const maggHeader = "From DS Require Import Base Sort MercuryAgg CasesMercAgg.\n"

func cmdMercAgg(seed int64, n int, out, replay, tier string) {
	var cs []caseRec
	if replay != "" {
		for _, in := range loadReplayInputs[maggIn](replay) {
			cs = append(cs, maggCase(in, "replay"))
		}
	} else {
		r := rand.New(rand.NewSource(seed))
		maxN, maxF := 4, 3
		if tier == "thorough" {
			maxN = 5
		}
		ex := genMaggExhaustive(r, maxN)
		lim := n / 3
		step := 1
		if len(ex) > lim && lim > 0 {
			step = len(ex)/lim + 1
		}
		for i := 0; i < len(ex); i += step {
			cs = append(cs, maggCase(ex[i], "exhaustive-small"))
		}
		for len(cs) < n {
			switch r.Intn(3) {
			case 0:
				cs = append(cs, maggCase(genMaggMedian(r, medianKinds[r.Intn(len(medianKinds))], maxF), "structured"))
			case 1:
				cs = append(cs, maggCase(genMaggSelector(r, selectorKinds[r.Intn(len(selectorKinds))], maxF), "structured"))
			default:
				cs = append(cs, maggCase(genMaggLatestBlock(r, maxF), "structured"))
			}
		}
	}
	if err := writeCases(out, "mercagg", seed, maggHeader, "magg_case", "magg_eval", cs); err != nil {
		fatal(err)
	}
}
