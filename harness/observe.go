package main

// `observe` projection (C14, C11): the whole of llo.Plugin.Observation — sequence-number guard, decoding of the
// previous outcome, the retired short-cut, verification of the previous outcome's definitions (the refusal of F1),
// attestation attached only while staging with a predecessor, retire vote, removal / update votes, the stream ids
// handed to the data source, and every error path of the three caches and the data source — compared with the model
// Observe.plugin_observation. The wall-clock timestamp is the only field not compared.

import (
	"context"
	"fmt"
	"math/rand"
	"sort"
	"time"

	"github.com/smartcontractkit/libocr/offchainreporting2/types"
	"github.com/smartcontractkit/libocr/offchainreporting2plus/ocr3types"

	llotypes "github.com/smartcontractkit/chainlink-common/pkg/types/llo"
	"github.com/smartcontractkit/chainlink-data-streams/llo"
)

type obvIn struct {
	Cfg        instCfg            `json:"cfg"`
	Seq        uint64             `json:"seq"`
	Prev       string             `json:"previous_outcome_hex"`
	Att        string             `json:"cache"`         // none | blob | fail
	Retire     string             `json:"should_retire"` // false | true | fail
	Expected   map[uint32]defDesc `json:"expected_definitions"`
	Values     map[uint32]*svDesc `json:"data_source_values"`
	SourceFail bool               `json:"data_source_fails"`
}
type obvOut struct {
	Kind string `json:"kind"` // empty | obs | err | panic
	Text string `json:"text,omitempty"`
	Hex  string `json:"observation_hex,omitempty"`
}

var obvBlob = []byte("ATTESTED:blob")

// the harness's own clock readings around the last call of Plugin.Observation
var obvT0, obvT1 int64

func runObv(in obvIn) (obvOut, *llo.Observation) {
	rc := newMockRetirementCache()
	switch in.Att {
	case "blob":
		rc.attested = obvBlob
	case "fail":
		rc.fail = true
	}
	n, err := buildNode(in.Cfg, types.ConfigDigest{4}, rc, false)
	if err != nil {
		fatal(err)
	}
	n.retire.v = in.Retire == "true"
	n.retire.fail = in.Retire == "fail"
	n.defs.defs = llotypes.ChannelDefinitions{}
	for id, d := range in.Expected {
		n.defs.defs[id] = d.def()
	}
	n.ds.vals = in.Values
	n.ds.fail = in.SourceFail
	var raw []byte
	obvT0 = time.Now().UnixNano()
	e, panicked, pv := protect(func() error {
		var e error
		raw, e = n.plugin.Observation(context.Background(), ocr3types.OutcomeContext{SeqNr: in.Seq, PreviousOutcome: unhx(in.Prev)}, nil)
		return e
	})
	obvT1 = time.Now().UnixNano()
	switch {
	case panicked:
		return obvOut{Kind: "panic", Text: fmt.Sprint(pv)}, nil
	case e != nil:
		t := e.Error()
		if len(t) > 200 {
			t = t[:200]
		}
		return obvOut{Kind: "err", Text: t}, nil
	case len(raw) == 0:
		return obvOut{Kind: "empty"}, nil
	}
	ob, derr := n.plugin.ObservationCodec.Decode(raw)
	if derr != nil {
		return obvOut{Kind: "err", Text: "own observation does not decode: " + derr.Error()}, nil
	}
	return obvOut{Kind: "obs", Hex: hx(raw)}, &ob
}

func obvCase(in obvIn, tags ...string) caseRec {
	out, ob := runObv(in)
	tags = append(tags, "out-"+out.Kind)
	res := ""
	switch out.Kind {
	case "panic":
		res = "(Panic 0)"
	case "err":
		res = "(Err EOther)"
	case "empty":
		res = "(Ok None)"
	default:
		res = "(Ok (Some " + coqRawObs(*ob) + "))"
	}
	var vals []string
	var ks []uint32
	for k := range in.Values {
		ks = append(ks, k)
	}
	sort.Slice(ks, func(i, j int) bool { return ks[i] < ks[j] })
	for _, k := range ks {
		if in.Values[k] != nil && in.Values[k].T != "nil" {
			vals = append(vals, fmt.Sprintf("(%d, %s)", k, in.Values[k].coqVal()))
		}
	}
	att := "(Ok [])"
	switch in.Att {
	case "blob":
		att = "(Ok " + coqHex(obvBlob) + ")"
	case "fail":
		att = "(Err EOther)"
	}
	ret := "(Ok false)"
	switch in.Retire {
	case "true":
		ret = "(Ok true)"
	case "fail":
		ret = "(Err EOther)"
	}
	coq := fmt.Sprintf("OBV %s %d %s %s %s %s (list_to_map %s) %s %s %d %d", coqCfg(in.Cfg), in.Seq, coqHex(unhx(in.Prev)), att, ret,
		coqDefs(expDefs(in.Expected)), coqList(vals), coqBool(in.SourceFail), res, obvT0, obvT1)
	return caseRec{Input: in, Output: out, Coq: coq, Tags: tags}
}

func expDefs(m map[uint32]defDesc) llotypes.ChannelDefinitions {
	out := llotypes.ChannelDefinitions{}
	for id, d := range m {
		out[id] = d.def()
	}
	return out
}

const obvHeader = "From stdpp Require Import gmap.\nFrom DS Require Import Base Decimal StreamValue Aggregators Outcome OutcomeCodec Observe ObservationCodec CasesObserve.\n"

func cmdObserve(seed int64, n int, out, replay, tier string) {
	var cs []caseRec
	if replay != "" {
		for _, in := range loadReplayInputs[obvIn](replay) {
			cs = append(cs, obvCase(in, "replay"))
		}
	} else {
		r := rand.New(rand.NewSource(seed))
		g := &histGen{r: r}
		for len(cs) < n {
			cfg := instCfg{F: 1, N: 4, PVer: uint32(r.Intn(2)), HasPred: r.Intn(2) == 0}
			if cfg.PVer == 1 {
				cfg.Interval = 1
			}
			in := obvIn{Cfg: cfg, Seq: []uint64{0, 1, 2, 3, 9, 1 << 50}[r.Intn(6)], Att: []string{"none", "blob", "blob", "fail"}[r.Intn(4)],
				Retire: []string{"false", "false", "true", "fail"}[r.Intn(4)], Expected: map[uint32]defDesc{}, Values: map[uint32]*svDesc{}, SourceFail: r.Intn(10) == 0}
			if r.Intn(12) != 0 {
				in.Att = []string{"none", "blob"}[r.Intn(2)]
			}
			if r.Intn(12) != 0 && in.Retire == "fail" {
				in.Retire = "false"
			}
			// previous outcome: a valid one with a random stage, sometimes mutated bytes
			tag := "valid-previous"
			o := llo.Outcome{LifeCycleStage: llotypes.LifeCycleStage([]string{"production", "production", "staging", "retired", "other"}[r.Intn(5)]),
				ObservationTimestampNanoseconds: 1700000000e9, ChannelDefinitions: llotypes.ChannelDefinitions{}, ValidAfterNanoseconds: map[llotypes.ChannelID]uint64{}}
			if r.Intn(4) == 0 {
				// a previous outcome whose timestamp is ahead of this node's clock (other nodes' clocks run ahead)
				o.ObservationTimestampNanoseconds = uint64(time.Now().Add(time.Hour).UnixNano())
				tag = "previous-outcome-ahead-of-clock"
			}
			for k := r.Intn(9); k > 0; k-- {
				id := uint32(1 + r.Intn(14))
				d := g.randDef()
				if r.Intn(15) == 0 {
					d.Streams = append(d.Streams, streamDesc{ID: uint32(1 + r.Intn(6)), Agg: 0}) // a definition that does not verify
				}
				o.ChannelDefinitions[id] = d.def()
				o.ValidAfterNanoseconds[id] = 1699999999e9
			}
			if r.Intn(5) == 0 {
				o.ValidAfterNanoseconds[uint32(20+r.Intn(5))] = 1699999990e9 // inherited entry without a definition
			}
			pb, err := c16PluginV(cfg.PVer).OutcomeCodec.Encode(o)
			if err != nil {
				continue
			}
			switch r.Intn(8) {
			case 0:
				pb = genMutatedOutcomeMsg(r, cfg.PVer)
				tag = "mutated-previous"
			case 1:
				pb = flipBytes(r, pb)
				tag = "flipped-previous"
			}
			in.Prev = hx(pb)
			// expected definitions: previous ones kept / dropped / changed, new ones, sometimes an invalid file
			for id, d := range o.ChannelDefinitions {
				switch r.Intn(4) {
				case 0:
				case 1:
					in.Expected[id] = g.randDef()
				default:
					in.Expected[id] = descOfDef(d)
				}
			}
			for k := r.Intn(9); k > 0; k-- {
				in.Expected[uint32(1+r.Intn(30))] = g.randDef()
			}
			if r.Intn(10) == 0 {
				in.Expected[uint32(40)] = defDesc{Fmt: 2} // no streams: the whole file is invalid, no votes
			}
			for sid := uint32(1); sid <= 8; sid++ {
				switch r.Intn(5) {
				case 0:
				case 1:
					in.Values[sid] = &svDesc{T: "nil"}
				case 2:
					in.Values[sid] = genQuoteNear(r, 1000)
				case 3:
					dd := genDecNear(r, 500)
					in.Values[sid] = &svDesc{T: "tsv", At: uint64(r.Int63()), In: &svDesc{T: "dec", D: &dd}}
				default:
					dd := genDecNear(r, 500)
					in.Values[sid] = &svDesc{T: "dec", D: &dd}
				}
			}
			cs = append(cs, obvCase(in, tag, fmt.Sprintf("pver%d", cfg.PVer)))
		}
	}
	if err := writeCasesSharded(out, "observe", seed, obvHeader, "obv_case", "obv_eval", cs, 100); err != nil {
		fatal(err)
	}
}
