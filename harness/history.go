package main

// `history` projection: chained Observation -> ValidateObservation -> Outcome -> Reports for one or two
// protocol instances (predecessor P = instance 0, successor S = instance 1) sharing a mock retirement
// cache. Honest observations come from the real Plugin.Observation (with mock caches / data source);
// faulty ones are arbitrary. Every round is evaluated by the model from the implementation's own state.

import (
	"context"
	"fmt"
	"math/rand"
	"sort"

	"github.com/smartcontractkit/libocr/commontypes"
	"github.com/smartcontractkit/libocr/offchainreporting2/types"
	"github.com/smartcontractkit/libocr/offchainreporting2plus/ocr3types"

	llotypes "github.com/smartcontractkit/chainlink-common/pkg/types/llo"

	"github.com/smartcontractkit/chainlink-data-streams/llo"
)

type roundIn struct {
	Inst   int                `json:"inst"`
	Seq    uint64             `json:"seq"`
	Target map[uint32]defDesc `json:"target"`           // what the ChannelDefinitionCache of correct nodes returns
	Retire bool               `json:"retire,omitempty"` // ShouldRetireCache of correct nodes
	Obs    []obsIn            `json:"obs"`
	Prev   *prevDesc          `json:"prev,omitempty"` // hand-built previous outcome (replaces the instance's state)
}
type prevDesc struct {
	Stage string             `json:"stage"`
	Ts    uint64             `json:"ts"`
	Defs  map[uint32]defDesc `json:"defs,omitempty"`
	VA    map[uint32]uint64  `json:"va,omitempty"`
	Aggs  []aggDesc          `json:"aggs,omitempty"`
}
type aggDesc struct {
	Sid uint32  `json:"sid"`
	Agg uint32  `json:"agg"`
	V   *svDesc `json:"v"`
}
type histIn struct {
	Cfgs   []instCfg `json:"cfgs"`
	Rounds []roundIn `json:"rounds"`
}

func (p prevDesc) outcome() llo.Outcome {
	o := llo.Outcome{LifeCycleStage: llotypes.LifeCycleStage(p.Stage), ObservationTimestampNanoseconds: p.Ts}
	if len(p.Defs) > 0 {
		o.ChannelDefinitions = llotypes.ChannelDefinitions{}
		for id, d := range p.Defs {
			o.ChannelDefinitions[id] = d.def()
		}
	}
	if len(p.VA) > 0 {
		o.ValidAfterNanoseconds = map[uint32]uint64{}
		for id, v := range p.VA {
			o.ValidAfterNanoseconds[id] = v
		}
	}
	if len(p.Aggs) > 0 {
		o.StreamAggregates = llo.StreamAggregates{}
		for _, a := range p.Aggs {
			if o.StreamAggregates[a.Sid] == nil {
				o.StreamAggregates[a.Sid] = map[llotypes.Aggregator]llo.StreamValue{}
			}
			o.StreamAggregates[a.Sid][llotypes.Aggregator(a.Agg)] = a.V.value()
		}
	}
	return o
}

type histRun struct {
	nodes  []*node // one plugin per instance (all correct nodes of an instance behave identically)
	rcache *mockRetirementCache
	state  [][]byte // last committed outcome bytes per instance
	hashes map[string]string
	rounds []string // Gallina terms
	outs   []map[string]any
}

func newHistRun(cfgs []instCfg) (*histRun, error) {
	h := &histRun{rcache: newMockRetirementCache(), hashes: map[string]string{}}
	for i, c := range cfgs {
		d := types.ConfigDigest{0xaa, byte(i + 1)}
		n, err := buildNode(c, d, h.rcache, i%2 == 1)
		if err != nil {
			return nil, err
		}
		h.nodes = append(h.nodes, n)
		h.state = append(h.state, nil)
	}
	return h, nil
}

// the honest observation for this round, produced by the real Plugin.Observation, with the timestamp
// (wall clock in the implementation) and the data-source values replaced by the scripted ones
func (h *histRun) honestObservation(r roundIn, o obsIn) ([]byte, error) {
	n := h.nodes[r.Inst]
	n.defs.defs = llotypes.ChannelDefinitions{}
	for id, d := range r.Target {
		n.defs.defs[id] = d.def()
	}
	n.retire.v = r.Retire
	n.ds.vals = o.Values
	outctx := ocr3types.OutcomeContext{SeqNr: r.Seq, PreviousOutcome: h.prevBytes(r)}
	raw, err := n.plugin.Observation(context.Background(), outctx, nil)
	if err != nil || len(raw) == 0 {
		return raw, err
	}
	ob, err := n.plugin.ObservationCodec.Decode(raw)
	if err != nil {
		return nil, err
	}
	ob.UnixTimestampNanoseconds = o.Ts
	return n.plugin.ObservationCodec.Encode(ob)
}

func (h *histRun) prevBytes(r roundIn) []byte {
	if r.Prev != nil {
		b, err := h.nodes[r.Inst].plugin.OutcomeCodec.Encode(r.Prev.outcome())
		if err != nil {
			return []byte{0xff}
		}
		return b
	}
	return h.state[r.Inst]
}

func (h *histRun) recordHashes(ob llo.Observation) {
	for id, cd := range ob.UpdateChannelDefinitions {
		dg := llo.MakeChannelHash(llo.ChannelDefinitionWithID{ChannelDefinition: cd, ChannelID: id})
		key := fmt.Sprintf("((%d, %s), %s)", id, coqDef(cd), coqHex(dg[:]))
		h.hashes[key] = key
	}
}

func (h *histRun) step(r roundIn) {
	n := h.nodes[r.Inst]
	p := n.plugin
	ctx := context.Background()
	prev := h.prevBytes(r)
	outctx := ocr3types.OutcomeContext{SeqNr: r.Seq, PreviousOutcome: prev}
	var aos []types.AttributedObservation
	var obsTerms, validTerms []string
	rec := map[string]any{}
	var honestErr string
	for i, o := range r.Obs {
		var raw []byte
		if o.Raw != nil {
			raw = o.Raw
		} else if o.Honest && !o.Scripted && r.Seq > 1 {
			var err error
			raw, err = h.honestObservation(r, o)
			if err != nil {
				honestErr = err.Error() // a correct node refused to observe
				continue
			}
		} else if r.Seq > 1 {
			raw, _ = p.ObservationCodec.Encode(o.observation(h.rcache))
		}
		ao := types.AttributedObservation{Observation: raw, Observer: commontypes.OracleID(i)}
		verr, vp, _ := protect(func() error { return p.ValidateObservation(ctx, outctx, nil, ao) })
		valid := verr == nil && !vp
		// the protocol only hands validated observations to Outcome
		if valid {
			aos = append(aos, ao)
			if ob, err := p.ObservationCodec.Decode(raw); err == nil {
				h.recordHashes(ob)
			}
			obsTerms = append(obsTerms, fmt.Sprintf("(%s, %s)", coqObservation(p, h.rcache, raw), coqBool(o.Honest)))
		}
		validTerms = append(validTerms, fmt.Sprintf("(%s, %s)", coqBool(o.Honest), coqBool(valid)))
	}
	rec["honest_observation_error"] = honestErr
	// wire level: the observation bytes handed to Outcome and the cache's answer for every attestation in them
	wireTerm := "None"
	{
		total := 0
		var bs, tbl []string
		seen := map[string]bool{}
		for _, ao := range aos {
			total += len(ao.Observation)
			bs = append(bs, coqHex(ao.Observation))
			if ob, err := p.ObservationCodec.Decode(ao.Observation); err == nil && len(ob.AttestedPredecessorRetirement) != 0 && !seen[string(ob.AttestedPredecessorRetirement)] {
				seen[string(ob.AttestedPredecessorRetirement)] = true
				ans := "None"
				if rr, err := h.rcache.CheckAttestedRetirementReport(predDigest, ob.AttestedPredecessorRetirement); err == nil {
					ans = "(Some " + coqU64Map(rr.ValidAfterNanoseconds) + ")"
				}
				tbl = append(tbl, fmt.Sprintf("(%s, %s)", coqHex(ob.AttestedPredecessorRetirement), ans))
			}
		}
		if total < 4000 && len(aos) <= 12 {
			wireTerm = fmt.Sprintf("(Some (%s, %s))", coqList(bs), coqList(tbl))
		}
	}
	// the remaining callbacks
	quorum, _ := p.ObservationQuorum(ctx, outctx, nil, aos)
	acceptAll := true
	// Outcome
	var outBytes []byte
	oerr, opanic, opv := protect(func() error {
		var e error
		outBytes, e = p.Outcome(ctx, outctx, nil, aos)
		return e
	})
	outTerm := ""
	var repRet string = "None"
	var repTerms []string
	repKind := "RepNone"
	switch {
	case opanic:
		outTerm = "(Panic 0)"
		rec["outcome"] = fmt.Sprint("panic: ", opv)
	case oerr != nil:
		outTerm = "(Err " + errKindLLO(oerr) + ")"
		rec["outcome"] = "error: " + oerr.Error()
	default:
		dec, derr := p.OutcomeCodec.Decode(outBytes)
		if derr != nil {
			outTerm = "(Err EMalformed)"
			rec["outcome"] = "undecodable outcome: " + derr.Error()
			break
		}
		outTerm = "(Ok " + coqOutcome(dec) + ")"
		rec["outcome"] = fmt.Sprintf("stage=%s ts=%d channels=%d", dec.LifeCycleStage, dec.ObservationTimestampNanoseconds, len(dec.ChannelDefinitions))
		if r.Prev == nil {
			h.state[r.Inst] = outBytes
		}
		// Reports
		n.rec.take()
		var rwis []ocr3types.ReportPlus[llotypes.ReportInfo]
		rerr, rpanic, rpv := protect(func() error {
			var e error
			rwis, e = p.Reports(ctx, r.Seq, outBytes)
			return e
		})
		switch {
		case rpanic:
			repKind = "RepPanic"
			rec["reports"] = fmt.Sprint("panic: ", rpv)
		case rerr != nil:
			repKind = "RepErr"
			rec["reports"] = "error: " + rerr.Error()
		default:
			repKind = "RepOk"
			for _, rw := range rwis {
				a1, e1 := p.ShouldAcceptAttestedReport(ctx, r.Seq, rw.ReportWithInfo)
				a2, e2 := p.ShouldTransmitAcceptedReport(ctx, r.Seq, rw.ReportWithInfo)
				acceptAll = acceptAll && a1 && a2 && e1 == nil && e2 == nil
				if rw.ReportWithInfo.Info.ReportFormat == llotypes.ReportFormatRetirement {
					rr, err := llo.StandardRetirementReportCodec{}.Decode(rw.ReportWithInfo.Report)
					if err == nil {
						repRet = "(Some " + coqU64Map(rr.ValidAfterNanoseconds) + ")"
						if r.Inst == 0 && r.Prev == nil {
							h.rcache.publish(rw.ReportWithInfo.Report)
						}
					}
				}
			}
			recs := n.rec.take()
			for _, rr := range recs {
				repTerms = append(repTerms, coqReport(rr))
			}
			rec["reports"] = fmt.Sprintf("%d channel reports, retirement=%v", len(recs), repRet != "None")
		}
	}
	prevTerm := "None"
	if r.Prev != nil {
		if dec, err := p.OutcomeCodec.Decode(prev); err == nil {
			prevTerm = "(Some " + coqOutcome(dec) + ")"
		} else {
			prevTerm = "(Some {| o_stage := OtherStage [0]; o_ts := 0; o_defs := ∅; o_va := ∅; o_aggs := ∅ |})"
		}
	}
	tgt := llotypes.ChannelDefinitions{}
	for id, d := range r.Target {
		tgt[id] = d.def()
	}
	scriptedRound := false
	for _, o := range r.Obs {
		if o.Honest && o.Scripted {
			scriptedRound = true
		}
	}
	// byte level: the previous outcome bytes handed to Outcome and the bytes it returned (kept only for small rounds,
	// where the model reproduces Go's sort of numerically tied decimals exactly)
	bytesTerm := "None"
	if oerr == nil && !opanic && len(prev)+len(outBytes) < 6000 {
		bytesTerm = fmt.Sprintf("(Some (%s, %s))", coqHex(prev), coqHex(outBytes))
	}
	h.rounds = append(h.rounds, fmt.Sprintf("{| rd_inst := %s; rd_seq := %d; rd_prev := %s; rd_target := %s; rd_scripted := %s; rd_retire := %s; rd_aos := %s; rd_valid := %s; rd_refused := %s; rd_out := %s; rd_bytes := %s; rd_wire := %s; rd_callbacks := (%s, %s); rd_rep := %s; rd_retirement := %s; rd_reports := %s |}",
		coqNat(r.Inst), r.Seq, prevTerm, coqDefs(tgt), coqBool(scriptedRound), coqBool(r.Retire), coqList(obsTerms), coqList(validTerms), coqBool(honestErr != ""), outTerm, bytesTerm, wireTerm, coqBool(quorum), coqBool(acceptAll), repKind, repRet, coqList(repTerms)))
	h.outs = append(h.outs, rec)
}

func histCase(in histIn, tags ...string) caseRec {
	var cfgs []string
	for _, c := range in.Cfgs {
		cfgs = append(cfgs, coqCfg(c))
	}
	h, err := newHistRun(in.Cfgs)
	if err != nil {
		// the plugin factory refused a configuration: no instance, no rounds (C03: "for every ACCEPTED configuration")
		coq := fmt.Sprintf("{| hc_cfgs := %s; hc_hashes := []; hc_rejected := true; hc_rounds := [] |}", coqList(cfgs))
		return caseRec{Input: in, Output: "factory refused the configuration: " + err.Error(), Coq: coq, Tags: append(tags, "config-refused")}
	}
	for _, r := range in.Rounds {
		h.step(r)
	}
	var hs []string
	for k := range h.hashes {
		hs = append(hs, k)
	}
	sort.Strings(hs)
	coq := fmt.Sprintf("{| hc_cfgs := %s; hc_hashes := %s; hc_rejected := false; hc_rounds := %s |}", coqList(cfgs), coqList(hs), "[\n   "+joinLines(h.rounds)+"]")
	return caseRec{Input: in, Output: h.outs, Coq: coq, Tags: tags}
}

func joinLines(xs []string) string {
	s := ""
	for i, x := range xs {
		if i > 0 {
			s += ";\n   "
		}
		s += x
	}
	return s
}

// ---------------------------------------------------------------- generation
type histGen struct {
	r      *rand.Rand
	in     histIn
	run    *histRun
	target []map[uint32]defDesc
	retire []bool
	ts     []uint64
	seq    []uint64
}

var fmtChoices = []uint32{2, 2, 1, 4, 2, 99}

func (g *histGen) randDef() defDesc {
	r := g.r
	d := defDesc{Fmt: fmtChoices[r.Intn(len(fmtChoices))]}
	ns := 1 + r.Intn(3)
	for i := 0; i < ns; i++ {
		sid := uint32(1 + r.Intn(6))
		agg := uint32(1)
		switch {
		case sid == 5: // quote stream
			agg = 3
		case sid == 6: // mode stream
			agg = 2
		case sid == 4 && r.Intn(3) == 0:
			agg = 2
		}
		d.Streams = append(d.Streams, streamDesc{ID: sid, Agg: agg})
	}
	if r.Intn(3) == 0 {
		d.Opts = []byte{byte(r.Intn(3))}
	}
	return d
}

func (g *histGen) honestValues(inst int, jitter int64) map[uint32]*svDesc {
	r := g.r
	vals := map[uint32]*svDesc{}
	base := int64(250000)
	for sid := uint32(1); sid <= 6; sid++ {
		if r.Intn(12) == 0 {
			continue // this node could not observe the stream
		}
		switch sid {
		case 3, 4: // timestamped streams
			d := genDecNear(r, base*int64(sid))
			at := g.ts[inst] - uint64(r.Int63n(3e9))
			if r.Intn(6) == 0 {
				at = g.ts[inst] - uint64(10e9+r.Int63n(50e9)) // stale
			}
			vals[sid] = &svDesc{T: "tsv", At: at, In: &svDesc{T: "dec", D: &d}}
		case 5:
			vals[sid] = genQuoteNear(r, base*5)
		case 6:
			vals[sid] = decOf(int64(1+r.Intn(2)), 0)
		default:
			d := genDecNear(r, base*int64(sid)+jitter)
			vals[sid] = &svDesc{T: "dec", D: &d}
		}
	}
	return vals
}

func (g *histGen) faultyObs(inst int, cur llo.Outcome) obsIn {
	r := g.r
	o := obsIn{Honest: false, Ts: g.ts[inst]}
	switch r.Intn(6) {
	case 0:
		o.Ts = 0
	case 1:
		o.Ts = []uint64{1 << 63, ^uint64(0), 1<<63 + g.ts[inst] + 1e9, 1}[r.Intn(4)]
	case 2:
		o.Ts = g.ts[inst] + uint64(r.Int63n(1e12))
	}
	if r.Intn(4) == 0 {
		o.Retire = true
	}
	if g.in.Cfgs[inst].HasPred && r.Intn(3) == 0 {
		o.Att = []string{"bad", "good"}[r.Intn(2)]
	}
	// removal votes for existing channels
	for id := range cur.ChannelDefinitions {
		if r.Intn(3) == 0 && len(o.Removes) < 5 {
			o.Removes = append(o.Removes, id)
		}
	}
	if r.Intn(3) == 0 {
		o.Updates = map[uint32]defDesc{}
		k := 1 + r.Intn(3)
		for i := 0; i < k; i++ {
			id := uint32(1 + r.Intn(12))
			if r.Intn(2) == 0 { // compete with the target's definition for an id
				for tid := range g.target[inst] {
					id = tid
					break
				}
			}
			o.Updates[id] = g.randDef()
		}
	}
	if r.Intn(2) == 0 {
		o.Values = map[uint32]*svDesc{}
		for sid := uint32(1); sid <= 6; sid++ {
			if r.Intn(2) == 0 {
				v := genWild(r, 1)
				if v.T == "nil" {
					continue
				}
				if v.T == "tsv" && v.In.T != "dec" { // would be rejected by validation: sometimes keep to exercise that
					if r.Intn(3) != 0 {
						d := genDecWild(r)
						v.In = &svDesc{T: "dec", D: &d}
					}
				}
				o.Values[sid] = v
			}
		}
	} else {
		o.Values = g.honestValues(inst, int64(r.Intn(2000000))-1000000)
	}
	if r.Intn(25) == 0 {
		o.Raw = []byte{0xff, 0xff, byte(r.Intn(256))}
	}
	return o
}

func (g *histGen) mutateTarget(inst int) {
	r := g.r
	t := g.target[inst]
	switch r.Intn(5) {
	case 0, 1: // add a few
		k := 1 + r.Intn(7)
		for i := 0; i < k; i++ {
			t[uint32(1+r.Intn(12))] = g.randDef()
		}
	case 2: // replace one in place, often changing the time resolution of the format
		for id, d := range t {
			nd := g.randDef()
			if is1s(d.Fmt) {
				nd.Fmt = 2
			} else {
				nd.Fmt = []uint32{1, 4}[r.Intn(2)]
			}
			t[id] = nd
			break
		}
	case 3: // remove some
		for id := range t {
			if r.Intn(2) == 0 {
				delete(t, id)
			}
		}
	default:
	}
}
func is1s(f uint32) bool { return f == 1 || f == 4 }

func (g *histGen) advanceTime(inst int) {
	r := g.r
	switch r.Intn(8) {
	case 0: // repeat
	case 1: // backwards
		g.ts[inst] -= uint64(r.Int63n(3e9))
	case 2, 3: // sub-second
		g.ts[inst] += uint64(r.Int63n(9e8))
	case 4:
		g.ts[inst] += uint64(1e9)
	default:
		g.ts[inst] += uint64(r.Int63n(4e9))
	}
}

// a hand-built previous outcome: any stage string, dangling validity starts, aggregates of every type
func (g *histGen) randPrev(inst int) *prevDesc {
	r := g.r
	p := &prevDesc{Stage: []string{"staging", "production", "production", "retired", "retired", "weird"}[r.Intn(6)]}
	p.Ts = g.ts[inst] - uint64(r.Int63n(3e9))
	p.Defs = map[uint32]defDesc{}
	p.VA = map[uint32]uint64{}
	nd := r.Intn(5)
	for i := 0; i < nd; i++ {
		id := uint32(1 + r.Intn(12))
		p.Defs[id] = g.randDef()
		switch r.Intn(4) {
		case 0: // no validity start yet
		case 1:
			p.VA[id] = p.Ts // not reportable: empty window
		default:
			p.VA[id] = p.Ts - uint64(r.Int63n(4e9))
		}
	}
	if r.Intn(2) == 0 {
		p.VA[uint32(20+r.Intn(3))] = p.Ts - uint64(r.Int63n(4e9)) // entry of a channel that is not defined (yet)
	}
	for sid := uint32(1); sid <= 6; sid++ {
		if r.Intn(2) == 0 {
			continue
		}
		agg := uint32(1 + r.Intn(3))
		var v *svDesc
		switch r.Intn(3) {
		case 0:
			d := genDecNear(r, 250000*int64(sid))
			v = &svDesc{T: "dec", D: &d}
		case 1:
			v = genQuoteNear(r, 1250000)
		default:
			d := genDecNear(r, 250000*int64(sid))
			at := g.ts[inst] - uint64(r.Int63n(6e9))
			if r.Intn(3) == 0 {
				at = g.ts[inst] + uint64(r.Int63n(6e9)) // newer than anything observers will report
			}
			v = &svDesc{T: "tsv", At: at, In: &svDesc{T: "dec", D: &d}}
		}
		p.Aggs = append(p.Aggs, aggDesc{Sid: sid, Agg: agg, V: v})
	}
	return p
}

func appendUnique(l []uint32, x uint32) []uint32 {
	for _, y := range l {
		if y == x {
			return l
		}
	}
	return append(l, x)
}

func cloneTarget(t map[uint32]defDesc) map[uint32]defDesc {
	c := map[uint32]defDesc{}
	for k, v := range t {
		c[k] = v
	}
	return c
}

func genHistory(r *rand.Rand, maxRounds int, maxF int) histIn {
	g := &histGen{r: r}
	f := 1 + r.Intn(maxF)
	n := 3*f + 1
	pver := uint32(r.Intn(2))
	interval := uint64(0)
	if pver == 1 {
		interval = []uint64{1, 1, 5e8, 1e9, 1 << 40, ^uint64(0)}[r.Intn(6)]
	}
	two := r.Intn(3) == 0
	g.in.Cfgs = []instCfg{{F: f, N: n, PVer: pver, Interval: interval, HasPred: false}}
	if two {
		g.in.Cfgs = append(g.in.Cfgs, instCfg{F: f, N: n, PVer: pver, Interval: interval, HasPred: true})
	}
	run, err := newHistRun(g.in.Cfgs)
	if err != nil {
		fatal(err)
	}
	g.run = run
	for range g.in.Cfgs {
		g.target = append(g.target, map[uint32]defDesc{})
		g.retire = append(g.retire, false)
		g.ts = append(g.ts, uint64(1700000000e9)+uint64(r.Int63n(1e9)))
		g.seq = append(g.seq, 0)
	}
	g.mutateTarget(0)
	g.mutateTarget(0)
	if two {
		// the successor starts with only part of the predecessor's channels and ramps up later,
		// possibly after its promotion (C04: channels defined many rounds after promotion)
		g.target[1] = map[uint32]defDesc{}
		for id, d := range g.target[0] {
			if r.Intn(2) == 0 {
				g.target[1][id] = d
			}
		}
	}
	rounds := 3 + r.Intn(maxRounds-2)
	retireAt, sRetireAt, rampAt := -1, -1, -1
	if two {
		rounds = maxRounds + r.Intn(maxRounds)
		retireAt = 4 + r.Intn(5)
		rampAt = retireAt + r.Intn(8) - 2
		if r.Intn(2) == 0 {
			sRetireAt = retireAt + 6 + r.Intn(6)
		}
	} else if r.Intn(3) == 0 {
		retireAt = 2 + rounds/3 + r.Intn(rounds)
	}
	for k := 0; k < rounds; k++ {
		inst := 0
		if two && r.Intn(2) == 0 {
			inst = 1
		}
		g.seq[inst]++
		if r.Intn(10) == 0 && g.seq[inst] > 1 {
			g.seq[inst] += uint64(r.Intn(3)) // skipped sequence numbers (never the very first round)
		}
		if k == retireAt {
			g.retire[0] = true
		}
		if two && k == sRetireAt {
			g.retire[1] = true
		}
		if two && k == rampAt {
			for id, d := range g.target[0] {
				g.target[1][id] = d
			}
		}
		if r.Intn(4) == 0 {
			g.mutateTarget(inst)
		}
		g.advanceTime(inst)
		var cur llo.Outcome
		if g.run.state[inst] != nil {
			cur, _ = g.run.nodes[inst].plugin.OutcomeCodec.Decode(g.run.state[inst])
		}
		rd := roundIn{Inst: inst, Seq: g.seq[inst], Target: cloneTarget(g.target[inst]), Retire: g.retire[inst]}
		handBuilt := g.seq[inst] > 1 && r.Intn(6) == 0
		if handBuilt {
			rd.Prev = g.randPrev(inst)
			cur = rd.Prev.outcome()
		}
		nobs := 2*f + 1 + r.Intn(f+1)
		if (r.Intn(10) < 7 && !handBuilt) || g.seq[inst] <= 1 {
			// ordinary round: correct nodes (real Plugin.Observation) plus at most f arbitrary ones
			b := r.Intn(f + 1)
			for i := 0; i < nobs; i++ {
				if i < b {
					rd.Obs = append(rd.Obs, g.faultyObs(inst, cur))
				} else {
					ts := g.ts[inst] + uint64(r.Int63n(2e8))
					rd.Obs = append(rd.Obs, obsIn{Honest: true, Ts: ts, Values: g.honestValues(inst, 0)})
				}
			}
		} else {
			// coordinated round: every observation is scripted; each motion is carried by exactly f, f+1 or 2f+1
			// observers (the thresholds of C06), also while staging / retired, also with competing definitions
			for i := 0; i < nobs; i++ {
				ts := g.ts[inst] + uint64(r.Int63n(2e8))
				rd.Obs = append(rd.Obs, obsIn{Honest: false, Ts: ts, Values: g.honestValues(inst, 0)})
			}
			var ids []uint32
			for id := range cur.ChannelDefinitions {
				ids = append(ids, id)
			}
			sort.Slice(ids, func(i, j int) bool { return ids[i] < ids[j] })
			motions := 1 + r.Intn(4)
			for m := 0; m < motions; m++ {
				k := []int{f, f + 1, f + 1, 2*f + 1}[r.Intn(4)]
				if k > nobs {
					k = nobs
				}
				perm := r.Perm(nobs)[:k]
				switch []int{0, 0, 0, 1, 1, 1, 1, 1, 3, 4, 4, 5, 6, 6, 6}[r.Intn(15)] {
				case 0: // remove an existing (or not) channel
					id := uint32(1 + r.Intn(12))
					if len(ids) > 0 && r.Intn(4) != 0 {
						id = ids[r.Intn(len(ids))]
					}
					for _, i := range perm {
						rd.Obs[i].Removes = appendUnique(rd.Obs[i].Removes, id)
					}
				case 1, 2: // add / replace, and a competing definition for the same id from the other observers
					id := uint32(1 + r.Intn(12))
					d1, d2 := g.randDef(), g.randDef()
					for _, i := range perm {
						if rd.Obs[i].Updates == nil {
							rd.Obs[i].Updates = map[uint32]defDesc{}
						}
						rd.Obs[i].Updates[id] = d1
					}
					if r.Intn(2) == 0 {
						in := map[int]bool{}
						for _, i := range perm {
							in[i] = true
						}
						for i := 0; i < nobs; i++ {
							if !in[i] {
								if rd.Obs[i].Updates == nil {
									rd.Obs[i].Updates = map[uint32]defDesc{}
								}
								rd.Obs[i].Updates[id] = d2
							}
						}
					}
				case 3:
					for _, i := range perm {
						rd.Obs[i].Retire = true
					}
				case 4:
					if g.in.Cfgs[inst].HasPred {
						for _, i := range perm {
							rd.Obs[i].Att = "good"
						}
					}
				case 5:
					if g.in.Cfgs[inst].HasPred {
						for _, i := range perm {
							rd.Obs[i].Att = "bad"
						}
					}
				default: // too few values for a stream this round (C18 carry-forward)
					sid := uint32(3 + r.Intn(2))
					for i := range rd.Obs {
						if i >= f || r.Intn(2) == 0 {
							delete(rd.Obs[i].Values, sid)
						}
					}
				}
			}
		}
		r.Shuffle(len(rd.Obs), func(i, j int) { rd.Obs[i], rd.Obs[j] = rd.Obs[j], rd.Obs[i] })
		g.in.Rounds = append(g.in.Rounds, rd)
		g.run.step(rd)
	}
	return g.in
}

const histHeader = "From stdpp Require Import gmap.\nFrom DS Require Import Base Decimal StreamValue Aggregators Outcome CasesHistory.\n"

func cmdHistory(seed int64, n int, out, replay, tier string) {
	var cs []caseRec
	if replay != "" {
		for _, in := range loadReplayInputs[histIn](replay) {
			cs = append(cs, histCase(in, "replay"))
		}
	} else {
		for _, d := range directedHistories() {
			cs = append(cs, histCase(d.in, "directed", d.name))
		}
		r := rand.New(rand.NewSource(seed))
		maxRounds, maxF := 12, 2
		if tier == "thorough" {
			maxRounds, maxF = 40, 3
		}
		for random := 0; random < n; random++ { // n random histories in addition to the directed ones
			in := genHistory(r, maxRounds, maxF)
			tag := "one-instance"
			if len(in.Cfgs) > 1 {
				tag = "two-instances"
			}
			cs = append(cs, histCase(in, tag, fmt.Sprintf("pver%d", in.Cfgs[0].PVer)))
		}
	}
	shard := 12
	if tier == "thorough" {
		shard = 4 // long histories: a shard of 12 needs more than 5 GB inside coqc
	}
	if err := writeCasesSharded(out, "history", seed, histHeader, "hist_case", "hist_eval", cs, shard); err != nil {
		fatal(err)
	}
}
