package main

// `mercobserve` projection (C08, C11, C07): MercuryPlugin.Observation of v1..v4 built through the real factories with a
// scripted data source (value or error per field, incl. values outside int192, the "missing price" marker, zero
// prices), arbitrary base fees in the off-chain configuration, with and without a previous report; and
// mercury.CalculateFee on its own. The model gets what the data source returned and must reproduce the bytes.

import (
	"context"
	"errors"
	"fmt"
	"math/big"
	"math/rand"
	"time"

	"github.com/shopspring/decimal"

	"github.com/smartcontractkit/libocr/commontypes"

	"github.com/smartcontractkit/libocr/offchainreporting2plus/ocr3types"
	"github.com/smartcontractkit/libocr/offchainreporting2plus/types"

	"github.com/smartcontractkit/chainlink-common/pkg/logger"
	mercurytypes "github.com/smartcontractkit/chainlink-common/pkg/types/mercury"
	tv1 "github.com/smartcontractkit/chainlink-common/pkg/types/mercury/v1"
	tv2 "github.com/smartcontractkit/chainlink-common/pkg/types/mercury/v2"
	tv3 "github.com/smartcontractkit/chainlink-common/pkg/types/mercury/v3"
	tv4 "github.com/smartcontractkit/chainlink-common/pkg/types/mercury/v4"

	"github.com/smartcontractkit/chainlink-data-streams/mercury"
	mv1 "github.com/smartcontractkit/chainlink-data-streams/mercury/v1"
	mv2 "github.com/smartcontractkit/chainlink-data-streams/mercury/v2"
	mv3 "github.com/smartcontractkit/chainlink-data-streams/mercury/v3"
	mv4 "github.com/smartcontractkit/chainlink-data-streams/mercury/v4"
)

// one data-source field: nil Val = the fetch failed
type dsBig struct {
	Val *string `json:"val"`
}
type dsInt struct {
	Val *int64 `json:"val"`
}
type dsBytes struct {
	Ok  bool   `json:"ok"`
	Val []byte `json:"val"`
}
type mobvIn struct {
	Kind    string `json:"kind"` // obs | fee
	Ver     int    `json:"ver"`
	BaseFee string `json:"base_fee"` // JSON number text of baseUSDFee
	PrevNil bool   `json:"prev_nil"`
	DsFail  bool   `json:"ds_fail"`
	Bm      dsBig  `json:"bm"`
	Bid     dsBig  `json:"bid"`
	Ask     dsBig  `json:"ask"`
	Mf      dsInt  `json:"mf"`
	Link    dsBig  `json:"link"`
	Native  dsBig  `json:"native"`
	Status  dsInt  `json:"status"`
	// v1
	CurNum  dsInt   `json:"cur_num"`
	CurHash dsBytes `json:"cur_hash"`
	CurTs   dsInt   `json:"cur_ts"`
	Blocks  []mblk  `json:"blocks,omitempty"`
	// fee
	Price string `json:"price,omitempty"`
	// round: correct nodes (each with its own scripted data source) and faulty senders, then the real Report
	F      int       `json:"f,omitempty"`
	Nodes  []mobvIn  `json:"nodes,omitempty"`  // correct nodes (Kind "obs" inputs)
	Faulty []mercObs `json:"faulty,omitempty"` // hand-made or raw observations of the other senders
}

var errDS = errors.New("scripted data source failure")

func obsBig(d dsBig) mercurytypes.ObsResult[*big.Int] {
	if d.Val == nil {
		return mercurytypes.ObsResult[*big.Int]{Err: errDS}
	}
	return mercurytypes.ObsResult[*big.Int]{Val: bigOf(*d.Val)}
}
func obsI64(d dsInt) mercurytypes.ObsResult[int64] {
	if d.Val == nil {
		return mercurytypes.ObsResult[int64]{Err: errDS}
	}
	return mercurytypes.ObsResult[int64]{Val: *d.Val}
}

type scriptDS struct {
	in      mobvIn
	askedMf *bool
}

func (s scriptDS) record(fetch bool) { *s.askedMf = fetch }

type ds1 struct{ scriptDS }
type ds2 struct{ scriptDS }
type ds3 struct{ scriptDS }
type ds4 struct{ scriptDS }

func (s ds1) Observe(_ context.Context, _ types.ReportTimestamp, fetch bool) (tv1.Observation, error) {
	s.record(fetch)
	if s.in.DsFail {
		return tv1.Observation{}, errDS
	}
	o := tv1.Observation{BenchmarkPrice: obsBig(s.in.Bm), Bid: obsBig(s.in.Bid), Ask: obsBig(s.in.Ask),
		CurrentBlockNum: obsI64(s.in.CurNum), MaxFinalizedBlockNumber: obsI64(s.in.Mf)}
	if s.in.CurHash.Ok {
		o.CurrentBlockHash = mercurytypes.ObsResult[[]byte]{Val: s.in.CurHash.Val}
	} else {
		o.CurrentBlockHash = mercurytypes.ObsResult[[]byte]{Err: errDS}
	}
	if s.in.CurTs.Val != nil {
		o.CurrentBlockTimestamp = mercurytypes.ObsResult[uint64]{Val: uint64(*s.in.CurTs.Val)}
	} else {
		o.CurrentBlockTimestamp = mercurytypes.ObsResult[uint64]{Err: errDS}
	}
	for _, b := range s.in.Blocks {
		o.LatestBlocks = append(o.LatestBlocks, tv1.NewBlock(b.Num, b.Hash, b.Ts))
	}
	return o, nil
}
func (s ds2) Observe(_ context.Context, _ types.ReportTimestamp, fetch bool) (tv2.Observation, error) {
	s.record(fetch)
	if s.in.DsFail {
		return tv2.Observation{}, errDS
	}
	return tv2.Observation{BenchmarkPrice: obsBig(s.in.Bm), MaxFinalizedTimestamp: obsI64(s.in.Mf), LinkPrice: obsBig(s.in.Link), NativePrice: obsBig(s.in.Native)}, nil
}
func (s ds3) Observe(_ context.Context, _ types.ReportTimestamp, fetch bool) (tv3.Observation, error) {
	s.record(fetch)
	if s.in.DsFail {
		return tv3.Observation{}, errDS
	}
	return tv3.Observation{BenchmarkPrice: obsBig(s.in.Bm), Bid: obsBig(s.in.Bid), Ask: obsBig(s.in.Ask), MaxFinalizedTimestamp: obsI64(s.in.Mf),
		LinkPrice: obsBig(s.in.Link), NativePrice: obsBig(s.in.Native)}, nil
}
func (s ds4) Observe(_ context.Context, _ types.ReportTimestamp, fetch bool) (tv4.Observation, error) {
	s.record(fetch)
	if s.in.DsFail {
		return tv4.Observation{}, errDS
	}
	o := tv4.Observation{BenchmarkPrice: obsBig(s.in.Bm), MaxFinalizedTimestamp: obsI64(s.in.Mf), LinkPrice: obsBig(s.in.Link), NativePrice: obsBig(s.in.Native)}
	if s.in.Status.Val != nil {
		o.MarketStatus = mercurytypes.ObsResult[uint32]{Val: uint32(*s.in.Status.Val)}
	} else {
		o.MarketStatus = mercurytypes.ObsResult[uint32]{Err: errDS}
	}
	return o, nil
}

func offchainJSON(baseFee string) []byte {
	return []byte(fmt.Sprintf(`{"expirationWindow":3600,"baseUSDFee":%s}`, baseFee))
}

func newMercPluginDS(in mobvIn, asked *bool) (ocr3types.MercuryPlugin, error) {
	occ := mercury.StandardOnchainConfigCodec{}
	ocb, err := occ.Encode(context.Background(), mercurytypes.OnchainConfig{Min: big.NewInt(0), Max: pow2(100)})
	if err != nil {
		return nil, err
	}
	pc := ocr3types.MercuryPluginConfig{ConfigDigest: types.ConfigDigest{1}, N: 4, F: 1, OnchainConfig: ocb, OffchainConfig: offchainJSON(in.BaseFee)}
	codec := &mercCodec{mode: "ok", maxLen: 4096}
	ctx := context.Background()
	sd := scriptDS{in, asked}
	var p ocr3types.MercuryPlugin
	switch in.Ver {
	case 1:
		p, _, err = mv1.NewFactory(ds1{sd}, logger.Nop(), occ, codec1{codec}).NewMercuryPlugin(ctx, pc)
	case 2:
		p, _, err = mv2.NewFactory(ds2{sd}, logger.Nop(), occ, codec2{codec}).NewMercuryPlugin(ctx, pc)
	case 3:
		p, _, err = mv3.NewFactory(ds3{sd}, logger.Nop(), occ, codec3{codec}).NewMercuryPlugin(ctx, pc)
	default:
		p, _, err = mv4.NewFactory(ds4{sd}, logger.Nop(), occ, codec4{codec}).NewMercuryPlugin(ctx, pc)
	}
	return p, err
}

// MaxObservationLength as declared by the real factory of that version
func mercObservationLimit(ver int) int {
	occ := mercury.StandardOnchainConfigCodec{}
	ocb, err := occ.Encode(context.Background(), mercurytypes.OnchainConfig{Min: big.NewInt(0), Max: pow2(100)})
	if err != nil {
		fatal(err)
	}
	pc := ocr3types.MercuryPluginConfig{ConfigDigest: types.ConfigDigest{1}, N: 4, F: 1, OnchainConfig: ocb, OffchainConfig: offchainJSON("0")}
	codec := &mercCodec{mode: "ok", maxLen: 4096}
	ctx := context.Background()
	var info ocr3types.MercuryPluginInfo
	switch ver {
	case 1:
		_, info, err = mv1.NewFactory(nil, logger.Nop(), occ, codec1{codec}).NewMercuryPlugin(ctx, pc)
	case 2:
		_, info, err = mv2.NewFactory(nil, logger.Nop(), occ, codec2{codec}).NewMercuryPlugin(ctx, pc)
	case 3:
		_, info, err = mv3.NewFactory(nil, logger.Nop(), occ, codec3{codec}).NewMercuryPlugin(ctx, pc)
	default:
		_, info, err = mv4.NewFactory(nil, logger.Nop(), occ, codec4{codec}).NewMercuryPlugin(ctx, pc)
	}
	if err != nil {
		fatal(err)
	}
	return info.Limits.MaxObservationLength
}

type mobvOut struct {
	Kind  string `json:"kind"` // ok | err | panic
	Bytes []byte `json:"bytes,omitempty"`
	Text  string `json:"text,omitempty"`
	Ts    uint32 `json:"ts"`
	Asked bool   `json:"asked_max_finalized"`
	Fee   string `json:"fee,omitempty"`
}

func coqDsBig(d dsBig) string {
	if d.Val == nil {
		return "None"
	}
	return "(Some " + coqZ(bigOf(*d.Val)) + ")"
}
func coqOptI64(d dsInt) string {
	if d.Val == nil {
		return "None"
	}
	return "(Some " + coqZi(*d.Val) + ")"
}
func coqOptU64(d dsInt) string {
	if d.Val == nil {
		return "None"
	}
	return "(Some " + coqZu(uint64(*d.Val)) + ")"
}
func coqDecimal(d decimal.Decimal) string {
	return fmt.Sprintf("(mkdec %s %s)", coqZ(d.Coefficient()), coqZi(int64(d.Exponent())))
}

func mobvCase(in mobvIn, tags ...string) caseRec {
	oc, err := mercury.DecodeOffchainConfig(offchainJSON(in.BaseFee))
	if err != nil {
		fatal(fmt.Errorf("mercobserve: base fee %q does not decode: %w", in.BaseFee, err))
	}
	base := coqDecimal(oc.BaseUSDFee)
	if in.Kind == "fee" {
		var fee *big.Int
		_, panicked, pv := protect(func() error { fee = mercury.CalculateFee(bigOf(in.Price), oc.BaseUSDFee); return nil })
		out := mobvOut{Kind: "ok"}
		term := ""
		if panicked {
			out = mobvOut{Kind: "panic", Text: fmt.Sprint(pv)}
			term = "(Panic 0)"
		} else {
			out.Fee = fee.String()
			term = "(Ok " + coqZ(fee) + ")"
		}
		return caseRec{Input: in, Output: out, Tags: append(tags, "fee"),
			Coq: fmt.Sprintf("MFee %s %s %s", coqZ(bigOf(in.Price)), base, term)}
	}
	if in.Kind == "round" {
		return mobvRound(in, base, tags...)
	}
	var asked bool
	p, err := newMercPluginDS(in, &asked)
	if err != nil {
		fatal(err)
	}
	var prev types.Report
	if !in.PrevNil {
		prev = types.Report(`{"Ts":100}`)
	}
	var ob types.Observation
	e, panicked, pv := protect(func() error {
		var e2 error
		ob, e2 = p.Observation(context.Background(), types.ReportTimestamp{}, prev)
		return e2
	})
	out := mobvOut{Asked: asked}
	term := ""
	switch {
	case panicked:
		out.Kind, out.Text = "panic", fmt.Sprint(pv)
		term = "(Panic 0)"
	case e != nil:
		out.Kind, out.Text = "err", e.Error()
		term = "(Err EOther)"
	default:
		out.Kind, out.Bytes = "ok", ob
		if d, ok := mercFromBytes(in.Ver, ob); ok {
			out.Ts = d.Ts
		}
		term = "(Ok " + coqHex(ob) + ")"
	}
	// the data source must have been asked for the max-finalized value exactly when there is no previous report
	askedOK := in.PrevNil == asked
	if in.Ver == 1 {
		var bs []string
		for _, b := range in.Blocks {
			bs = append(bs, b.coq())
		}
		hash := "None"
		if in.CurHash.Ok {
			hash = "(Some " + coqHex(in.CurHash.Val) + ")"
		}
		ds := fmt.Sprintf("{| d1_bm := %s; d1_bid := %s; d1_ask := %s; d1_cur_num := %s; d1_cur_hash := %s; d1_cur_ts := %s; d1_mfb := %s; d1_blocks := %s |}",
			coqDsBig(in.Bm), coqDsBig(in.Bid), coqDsBig(in.Ask), coqOptI64(in.CurNum), hash, coqOptU64(in.CurTs), coqOptI64(in.Mf), coqList(bs))
		return caseRec{Input: in, Output: out, Tags: append(tags, "v1"),
			Coq: fmt.Sprintf("MO1 %s %s %s %s %d %s", coqBool(in.PrevNil), coqBool(in.DsFail), ds, term, out.Ts, coqBool(askedOK))}
	}
	ds := fmt.Sprintf("{| ds_bm := %s; ds_bid := %s; ds_ask := %s; ds_mfts := %s; ds_link := %s; ds_native := %s; ds_status := %s |}",
		coqDsBig(in.Bm), coqDsBig(in.Bid), coqDsBig(in.Ask), coqOptI64(in.Mf), coqDsBig(in.Link), coqDsBig(in.Native), coqOptI64(in.Status))
	return caseRec{Input: in, Output: out, Tags: append(tags, fmt.Sprintf("v%d", in.Ver)),
		Coq: fmt.Sprintf("MO234 %d %s %s %s %s %d %s", in.Ver, base, coqBool(in.DsFail), ds, term, out.Ts, coqBool(askedOK))}
}

// ---- generators ----
var baseFees = []string{"0", "0.001", "1", "0.5", "1e-5", "12.345", "1e3", "-0.25", "3e-20", "7e20", "0.1e1", "100000000000000000000", "1e-17", "4.9e-35"}

func genPrice(r *rand.Rand) dsBig {
	var v *big.Int
	switch r.Intn(12) {
	case 0:
		return dsBig{}
	case 1:
		v = big.NewInt(-1) // MissingPrice
	case 2:
		v = big.NewInt(0)
	case 3:
		v = pow2(191) // one past max int192
	case 4:
		v = new(big.Int).Neg(pow2(191)) // min int192
	case 5:
		v = new(big.Int).Sub(pow2(191), big.NewInt(1))
	case 6:
		v = randBig(r, 260)
	case 7:
		v = big.NewInt(int64(r.Intn(5)) - 2)
	default:
		v = new(big.Int).Add(new(big.Int).Mul(big.NewInt(int64(1+r.Intn(5000))), new(big.Int).Exp(big.NewInt(10), big.NewInt(int64(r.Intn(22))), nil)), big.NewInt(int64(r.Intn(1000))))
	}
	s := v.String()
	return dsBig{&s}
}
func genI64(r *rand.Rand, failP int) dsInt {
	if r.Intn(failP) == 0 {
		return dsInt{}
	}
	var v int64
	switch r.Intn(6) {
	case 0:
		v = -1
	case 1:
		v = 0
	case 2:
		v = int64(r.Uint64())
	case 3:
		v = 1<<32 - 1
	default:
		v = int64(r.Intn(2000000000))
	}
	return dsInt{&v}
}
func genU32ish(r *rand.Rand, failP int) dsInt {
	if r.Intn(failP) == 0 {
		return dsInt{}
	}
	v := int64(r.Intn(6))
	if r.Intn(5) == 0 {
		v = int64(r.Uint32())
	}
	return dsInt{&v}
}

func genMobv(r *rand.Rand) mobvIn {
	if r.Intn(4) == 0 {
		fee := baseFees[r.Intn(len(baseFees))]
		if r.Intn(3) == 0 {
			fee = fmt.Sprintf("%d.%de%d", r.Intn(1000), r.Intn(100000), r.Intn(60)-40)
			if r.Intn(4) == 0 {
				fee = "-" + fee
			}
		}
		p := genPrice(r)
		for p.Val == nil {
			p = genPrice(r)
		}
		return mobvIn{Kind: "fee", BaseFee: fee, Price: *p.Val}
	}
	in := mobvIn{Kind: "obs", Ver: 1 + r.Intn(4), BaseFee: baseFees[r.Intn(len(baseFees))], PrevNil: r.Intn(2) == 0, DsFail: r.Intn(25) == 0}
	in.Bm, in.Bid, in.Ask = genPrice(r), genPrice(r), genPrice(r)
	if r.Intn(2) == 0 && in.Bm.Val != nil {
		// mostly ordered quotes around the benchmark
		b := bigOf(*in.Bm.Val)
		lo, hi := new(big.Int).Sub(b, big.NewInt(int64(r.Intn(50)))), new(big.Int).Add(b, big.NewInt(int64(r.Intn(50))))
		if r.Intn(6) == 0 {
			lo, hi = hi, lo
		}
		ls, hs := lo.String(), hi.String()
		in.Bid, in.Ask = dsBig{&ls}, dsBig{&hs}
	}
	in.Mf = genI64(r, 6)
	in.Link, in.Native = genPrice(r), genPrice(r)
	in.Status = genU32ish(r, 6)
	if in.Ver == 1 {
		in.CurNum = genI64(r, 8)
		if in.CurNum.Val != nil && in.Mf.Val != nil && r.Intn(3) == 0 {
			// around the "out-of-date RPC" comparison
			v := *in.Mf.Val + int64(r.Intn(3)) - 1
			in.CurNum = dsInt{&v}
		}
		if r.Intn(8) != 0 {
			h := make([]byte, []int{32, 32, 32, 0, 31, 33}[r.Intn(6)])
			r.Read(h)
			in.CurHash = dsBytes{true, h}
		}
		in.CurTs = genI64(r, 8)
		for i, nb := 0, r.Intn(5); i < nb; i++ {
			h := make([]byte, []int{32, 32, 0, 5}[r.Intn(4)])
			r.Read(h)
			in.Blocks = append(in.Blocks, mblk{Num: int64(r.Intn(100)) - 2, Hash: h, Ts: uint64(r.Intn(1000))})
		}
	}
	return in
}

func directedMobv() []mobvIn {
	s := func(x string) dsBig { return dsBig{&x} }
	i := func(x int64) dsInt { return dsInt{&x} }
	var out []mobvIn
	for ver := 2; ver <= 4; ver++ {
		// everything fine
		out = append(out, mobvIn{Kind: "obs", Ver: ver, BaseFee: "0.001", PrevNil: true, Bm: s("1000"), Bid: s("999"), Ask: s("1001"), Mf: i(-1), Link: s("7000000000000000000"), Native: s("2000000000000000000000"), Status: i(2)})
		// every fetch failed
		out = append(out, mobvIn{Kind: "obs", Ver: ver, BaseFee: "0.001", PrevNil: false})
		// the data source itself failed
		out = append(out, mobvIn{Kind: "obs", Ver: ver, BaseFee: "0.001", DsFail: true})
		// missing prices -> maximal fee; zero price -> zero fee; fee beyond int192 -> the field is invalid
		out = append(out, mobvIn{Kind: "obs", Ver: ver, BaseFee: "1", Bm: s("5"), Bid: s("5"), Ask: s("5"), Mf: i(10), Link: s("-1"), Native: s("0"), Status: i(1)})
		out = append(out, mobvIn{Kind: "obs", Ver: ver, BaseFee: "1e40", Bm: s("5"), Bid: s("4"), Ask: s("6"), Mf: i(10), Link: s("1"), Native: s("3"), Status: i(1)})
		// crossed quote (v3: PricesValid must be false, the bytes still sent)
		out = append(out, mobvIn{Kind: "obs", Ver: ver, BaseFee: "0.5", Bm: s("5"), Bid: s("6"), Ask: s("7"), Mf: i(10), Link: s("10"), Native: s("30"), Status: i(1)})
		// benchmark outside int192
		out = append(out, mobvIn{Kind: "obs", Ver: ver, BaseFee: "0.5", Bm: s(pow2(191).String()), Bid: s("6"), Ask: s("7"), Mf: i(10), Link: s("10"), Native: s("30"), Status: i(1)})
		// negative base fee: negative fee, flagged valid (the consensus function skips negative fees)
		out = append(out, mobvIn{Kind: "obs", Ver: ver, BaseFee: "-0.25", Bm: s("5"), Bid: s("5"), Ask: s("5"), Mf: i(10), Link: s("3"), Native: s("7"), Status: i(1)})
		// a base fee whose exponent makes decimal.QuoRem panic (exp + 16 > MaxInt32): modelled panic site, reached
		// only through the owner-set configuration
		out = append(out, mobvIn{Kind: "obs", Ver: ver, BaseFee: "1e2147483640", Bm: s("5"), Bid: s("5"), Ask: s("5"), Mf: i(10), Link: s("3"), Native: s("7"), Status: i(1)})
	}
	out = append(out, mobvIn{Kind: "fee", BaseFee: "1e2147483640", Price: "3"})
	out = append(out, mobvIn{Kind: "fee", BaseFee: "1e2147483640", Price: "0"})
	// rounding: exactly half, just below, just above, negative quotient
	for _, c := range [][2]string{{"0.5e-34", "1"}, {"1e-34", "2"}, {"1e-34", "3"}, {"-1e-34", "2"}, {"1e-34", "-2"}, {"3e-34", "2"}, {"1e-33", "3"}, {"0.000000000000000049", "100000000000000000000"}} {
		out = append(out, mobvIn{Kind: "fee", BaseFee: c[0], Price: c[1]})
	}
	// whole rounds, every version, new feeds and running feeds
	for k := int64(0); k < 24; k++ {
		out = append(out, genMobvRound(rand.New(rand.NewSource(1000+k))))
	}
	// v1
	h32 := make([]byte, 32)
	h32[0] = 9
	out = append(out, mobvIn{Kind: "obs", Ver: 1, BaseFee: "0", PrevNil: true, Bm: s("10"), Bid: s("9"), Ask: s("11"), Mf: i(50), CurNum: i(49), CurHash: dsBytes{true, h32}, CurTs: i(7)})
	out = append(out, mobvIn{Kind: "obs", Ver: 1, BaseFee: "0", PrevNil: true, Bm: s("10"), Bid: s("9"), Ask: s("11"), Mf: i(50), CurNum: i(50), CurHash: dsBytes{true, h32}, CurTs: i(7)})
	out = append(out, mobvIn{Kind: "obs", Ver: 1, BaseFee: "0", PrevNil: true, Bm: s("10"), Bid: s("9"), Ask: s("11"), Mf: i(50), CurHash: dsBytes{true, h32}, CurTs: i(7)})
	out = append(out, mobvIn{Kind: "obs", Ver: 1, BaseFee: "0", PrevNil: false, Bm: s("10"), Bid: s("19"), Ask: s("11"), Mf: i(50), CurNum: i(60), CurHash: dsBytes{true, h32}, CurTs: i(7),
		Blocks: []mblk{{Num: 60, Hash: h32, Ts: 7}, {Num: 59, Hash: h32[:31], Ts: 6}, {Num: -1, Hash: nil, Ts: 0}}})
	out = append(out, mobvIn{Kind: "obs", Ver: 1, BaseFee: "0", PrevNil: true, Mf: i(-1)})
	return out
}

const mobvHeader = `From DS Require Import Base Decimal MercuryAgg Config MercuryReport MercuryWire MercuryObserve CasesMercObserve.
Open Scope Z_scope.
`

func cmdMercObserve(seed int64, n int, out, replay, tier string) {
	var cs []caseRec
	if replay != "" {
		for _, in := range loadReplayInputs[mobvIn](replay) {
			cs = append(cs, mobvCase(in, "replay"))
		}
	} else {
		r := rand.New(rand.NewSource(seed))
		for _, d := range directedMobv() {
			cs = append(cs, mobvCase(d, "directed"))
		}
		for k := 0; k < n; k++ {
			if k%8 == 7 {
				cs = append(cs, mobvCase(genMobvRound(r), "random"))
				continue
			}
			cs = append(cs, mobvCase(genMobv(r), "random"))
		}
	}
	if err := writeCases(out, "mercobserve", seed, mobvHeader, "mobv_case", "mobv_eval", cs); err != nil {
		fatal(err)
	}
}

// ---- whole rounds on the implementation: Observation of every correct node, then Report over what they sent plus the
// faulty senders' bytes. Nominal rounds (every correct data source returns valid, mutually consistent values): the real
// plugin must report, with the benchmark between two correct data-source values and the timestamp between the harness's
// clock readings around the calls. ----
func mobvRound(in mobvIn, base string, tags ...string) caseRec {
	t0 := time.Now().Unix()
	var aos []types.AttributedObservation
	var correct []string
	for i, nd := range in.Nodes {
		nd.Ver, nd.BaseFee, nd.PrevNil, nd.Kind = in.Ver, in.BaseFee, true, "obs"
		var asked bool
		p, err := newMercPluginDS(nd, &asked)
		if err != nil {
			fatal(err)
		}
		var ob types.Observation
		e, panicked, _ := protect(func() error {
			var e2 error
			ob, e2 = p.Observation(context.Background(), types.ReportTimestamp{}, nil)
			return e2
		})
		if e == nil && !panicked {
			aos = append(aos, types.AttributedObservation{Observation: ob, Observer: commontypes.OracleID(i)})
		}
		bm := "None"
		if nd.Bm.Val != nil {
			bm = "(Some " + coqZ(bigOf(*nd.Bm.Val)) + ")"
		}
		correct = append(correct, bm)
	}
	for j, fo := range in.Faulty {
		aos = append(aos, types.AttributedObservation{Observation: fo.bytes(in.Ver), Observer: commontypes.OracleID(len(in.Nodes) + j)})
	}
	// faulty senders first in the list now and then: the order must not matter
	if len(in.Faulty) > 0 && len(in.Nodes)%2 == 0 {
		aos = append(aos[len(in.Nodes):], aos[:len(in.Nodes)]...)
	}
	cfg := mercCfg{Ver: in.Ver, F: in.F, Min: "0", Max: pow2(100).String(), Window: 3600, MaxLen: 4096}
	out, _ := runMercRound(cfg, "ok", nil, aos)
	t1 := time.Now().Unix()
	term := "MRNone"
	switch out.Kind {
	case "report":
		term = fmt.Sprintf("(MRReport %s %d)", z(out.Fields.Bm), out.Fields.Ts)
	case "decline":
		term = "MRDecline"
	case "err":
		term = "MRErr"
	case "panic":
		term = "MRPanic"
	}
	return caseRec{Input: in, Output: out, Tags: append(tags, "round", fmt.Sprintf("v%d", in.Ver)),
		Coq: fmt.Sprintf("MRound %d %d %s %d %s %d %d", in.Ver, in.F, coqList(correct), len(in.Faulty), term, t0, t1)}
}

func genMobvRound(r *rand.Rand) mobvIn {
	f := 1 + r.Intn(2)
	n := 3*f + 1
	nf := r.Intn(f + 1)
	in := mobvIn{Kind: "round", Ver: 1 + r.Intn(4), F: f, BaseFee: []string{"0.001", "1", "0.5", "0"}[r.Intn(4)]}
	basePrice := int64(1000 + r.Intn(1000000))
	newFeed := r.Intn(2) == 0
	h := make([]byte, 32)
	r.Read(h)
	var blocks []mblk
	for k := 0; k < 3; k++ {
		bh := make([]byte, 32)
		r.Read(bh)
		blocks = append(blocks, mblk{Num: int64(100 - k), Hash: bh, Ts: uint64(1000 - k)})
	}
	blocks[0].Hash = h
	for i := 0; i < n-nf; i++ {
		bm := basePrice + int64(r.Intn(21)) - 10
		s := func(v int64) dsBig { x := fmt.Sprint(v); return dsBig{&x} }
		i64 := func(v int64) dsInt { return dsInt{&v} }
		nd := mobvIn{Bm: s(bm), Bid: s(bm - int64(r.Intn(5))), Ask: s(bm + int64(r.Intn(5))), Link: s(7000000000000000000), Native: s(2000000000000000000), Status: i64(2)}
		if newFeed {
			nd.Mf = i64(-1)
		} else if in.Ver == 1 {
			nd.Mf = i64(50)
		} else {
			nd.Mf = i64(1000)
		}
		if in.Ver == 1 {
			nd.CurNum, nd.CurHash, nd.CurTs, nd.Blocks = i64(100), dsBytes{true, h}, i64(1000), blocks
		}
		in.Nodes = append(in.Nodes, nd)
	}
	for j := 0; j < nf; j++ {
		big := new(big.Int).Exp(big.NewInt(10), big.NewInt(30), nil)
		fo := mercObs{Ts: uint32(r.Uint32()), PV: true, Bm: i192(big), Bid: i192(big), Ask: i192(big), MfV: true, Mf: int64(r.Intn(100)), LV: true, Link: i192(big), NV: true, Native: i192(big), SV: true, Status: 0,
			CurV: true, Cur: mblk{Num: 100, Hash: h, Ts: 1000}, Blocks: blocks}
		if r.Intn(3) == 0 {
			fo = mercObs{Raw: []byte{0xff, 0x01, 0x02}}
		}
		in.Faulty = append(in.Faulty, fo)
	}
	return in
}
