package main

import "testing"

// run by the `mtls` projection under the race detector: go test -race -run TestMtlsRace
func TestMtlsRace(t *testing.T) {
	bad, detail := mtlsStress(2000, 6)
	if bad != 0 {
		t.Fatalf("%d atomicity violations: %s", bad, detail)
	}
}
