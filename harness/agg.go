package main

import (
	"fmt"
	"math/big"
	"math/rand"
	"strings"

	"github.com/smartcontractkit/chainlink-data-streams/llo"
)

type aggVal struct {
	V *svDesc `json:"v"`
	H bool    `json:"honest"`
}
type aggIn struct {
	Kind int      `json:"kind"` // 0 median, 1 quote, 2 mode
	F    int      `json:"f"`
	Vals []aggVal `json:"vals"`
	Perm []int    `json:"perm"`
}
type aggOut struct {
	Kind string  `json:"kind"` // ok | oknil | err | panic
	V    *svDesc `json:"v,omitempty"`
	Text string  `json:"text,omitempty"`
}

func (o aggOut) coq() string {
	switch o.Kind {
	case "ok":
		return "(Ok (Some " + o.V.coqVal() + "))"
	case "oknil":
		return "(Ok None)"
	case "err":
		return "(Err EOther)"
	}
	return "(Panic 0)"
}

func runAgg(kind, f int, vals []llo.StreamValue) aggOut {
	var res llo.StreamValue
	err, panicked, pv := protect(func() error {
		var e error
		switch kind {
		case 0:
			res, e = llo.MedianAggregator(vals, f)
		case 1:
			res, e = llo.QuoteAggregator(vals, f)
		default:
			res, e = llo.ModeAggregator(vals, f)
		}
		return e
	})
	if panicked {
		return aggOut{Kind: "panic", Text: fmt.Sprint(pv)}
	}
	if err != nil {
		return aggOut{Kind: "err", Text: err.Error()}
	}
	d := descOfValue(res)
	if d.T == "nil" {
		return aggOut{Kind: "oknil"}
	}
	return aggOut{Kind: "ok", V: d}
}

func aggCase(in aggIn, tags ...string) caseRec {
	vals := make([]llo.StreamValue, len(in.Vals))
	for i, v := range in.Vals {
		vals[i] = v.V.value()
	}
	out := runAgg(in.Kind, in.F, vals)
	pvals := make([]llo.StreamValue, len(in.Vals))
	for i, j := range in.Perm {
		pvals[i] = in.Vals[j].V.value()
	}
	outp := runAgg(in.Kind, in.F, pvals)
	var items []string
	for _, v := range in.Vals {
		items = append(items, "("+v.V.coqSlot()+", "+coqBool(v.H)+")")
	}
	coq := fmt.Sprintf("{| ag_kind := %d; ag_f := %s; ag_vals := %s; ag_out := %s; ag_out_perm := %s |}",
		in.Kind, coqNat(in.F), coqList(items), out.coq(), outp.coq())
	return caseRec{Input: in, Output: map[string]aggOut{"out": out, "out_perm": outp}, Coq: coq, Tags: tags}
}

func decOf(v int64, exp int32) *svDesc {
	neg := v < 0
	if neg {
		v = -v
	}
	d := mkDec(neg, big.NewInt(v), exp)
	return &svDesc{T: "dec", D: &d}
}

// structured: honest values of one kind, faulty ones of any
func genAggStructured(r *rand.Rand, kind int, maxF int) aggIn {
	f := r.Intn(maxF + 1)
	if kind != 2 && f == 0 && r.Intn(3) != 0 {
		f = 1
	}
	n := 2*f + 1 + r.Intn(f+2)
	b := r.Intn(f + 1) // faulty
	if r.Intn(12) == 0 {
		b = r.Intn(n + 1) // hypothesis-violating cases too
	}
	if b > n {
		b = n
	}
	h := n - b
	base := int64(10000 + r.Intn(1000000))
	hk := kind // honest kind: median: dec / quote / tsv ; quote: quote ; mode: anything
	if kind == 0 {
		hk = []int{0, 0, 1, 2}[r.Intn(4)]
	} else if kind == 2 {
		hk = r.Intn(3)
	}
	nowNs := uint64(1700000000000000000) + uint64(r.Int63n(1e15))
	var vals []aggVal
	// mode: honest observers agree on one of a few candidates
	cands := []*svDesc{}
	for i := 0; i < 3; i++ {
		switch hk {
		case 0:
			d := genDecNear(r, base)
			cands = append(cands, &svDesc{T: "dec", D: &d})
		case 1:
			cands = append(cands, genQuoteNear(r, base))
		default:
			d := genDecNear(r, base)
			cands = append(cands, &svDesc{T: "tsv", At: nowNs + uint64(r.Intn(3))*1e9, In: &svDesc{T: "dec", D: &d}})
		}
	}
	for i := 0; i < h; i++ {
		if r.Intn(15) == 0 {
			vals = append(vals, aggVal{V: &svDesc{T: "nil"}, H: true}) // a correct node missing the stream
			continue
		}
		if kind == 2 {
			vals = append(vals, aggVal{V: cands[r.Intn(1+r.Intn(3))], H: true})
			continue
		}
		switch hk {
		case 0:
			d := genDecNear(r, base)
			vals = append(vals, aggVal{V: &svDesc{T: "dec", D: &d}, H: true})
		case 1:
			vals = append(vals, aggVal{V: genQuoteNear(r, base), H: true})
		default:
			d := genDecNear(r, base)
			at := nowNs + uint64(r.Int63n(5e9))
			vals = append(vals, aggVal{V: &svDesc{T: "tsv", At: at, In: &svDesc{T: "dec", D: &d}}, H: true})
		}
	}
	for i := 0; i < b; i++ {
		var v *svDesc
		switch r.Intn(4) {
		case 0: // same kind as honest, extreme
			v = genWild(r, 0)
		case 1: // copies a candidate / honest-looking value (vote stuffing)
			v = cands[r.Intn(3)]
		case 2: // same type, wild numbers
			switch hk {
			case 0:
				d := genDecWild(r)
				v = &svDesc{T: "dec", D: &d}
			case 1:
				a, bb, c := genDecWild(r), genDecWild(r), genDecWild(r)
				v = &svDesc{T: "quote", Bid: &a, Bm: &bb, Ask: &c}
			default:
				in := genWild(r, 1)
				if in.T == "nil" {
					in = decOf(1, 0)
				}
				at := r.Uint64()
				if r.Intn(2) == 0 {
					at = 0
				}
				v = &svDesc{T: "tsv", At: at, In: in}
			}
		default:
			v = genWild(r, 0)
		}
		vals = append(vals, aggVal{V: v, H: false})
	}
	r.Shuffle(len(vals), func(i, j int) { vals[i], vals[j] = vals[j], vals[i] })
	return aggIn{Kind: kind, F: f, Vals: vals, Perm: r.Perm(len(vals))}
}

// exhaustive: all assignments of n <= maxN values from a small alphabet (every weak ordering of the
// values occurs), every tagging with fewer faulty than honest and at most f faulty
func genAggExhaustive(r *rand.Rand, kind int, maxN int) []aggIn {
	var out []aggIn
	alphabet := []*svDesc{decOf(10, -1), decOf(2, 0), decOf(300, -2), decOf(4, 0)} // 1.0 2 3.00 4
	if kind == 1 {
		q := func(a, b, c int64) *svDesc {
			x, y, z := decOf(a, 0), decOf(b, 0), decOf(c, 0)
			return &svDesc{T: "quote", Bid: x.D, Bm: y.D, Ask: z.D}
		}
		alphabet = []*svDesc{q(1, 2, 3), q(2, 3, 9), q(3, 3, 3), q(2, 8, 9)}
	}
	if kind == 2 {
		alphabet = []*svDesc{decOf(10, -1), decOf(1, 0), decOf(2, 0), {T: "nil"}}
	}
	for n := 1; n <= maxN; n++ {
		total := 1
		for i := 0; i < n; i++ {
			total *= len(alphabet)
		}
		for code := 0; code < total; code++ {
			c := code
			vals := make([]aggVal, n)
			for i := 0; i < n; i++ {
				vals[i] = aggVal{V: alphabet[c%len(alphabet)], H: true}
				c /= len(alphabet)
			}
			for f := 0; f <= 1 && f < n; f++ {
				for mask := 0; mask < 1<<n; mask++ {
					b := 0
					for i := 0; i < n; i++ {
						if mask>>i&1 == 1 {
							b++
						}
					}
					if b > f || 2*b >= n {
						continue
					}
					vv := make([]aggVal, n)
					copy(vv, vals)
					for i := 0; i < n; i++ {
						if mask>>i&1 == 1 {
							vv[i].H = false
						}
					}
					out = append(out, aggIn{Kind: kind, F: f, Vals: vv, Perm: r.Perm(n)})
				}
			}
		}
	}
	return out
}

func aggHeader(eval string) string {
	return "From DS Require Import Base Decimal StreamValue Aggregators CasesAgg.\n"
}

func cmdAgg(seed int64, n int, out, replay, kindsArg, tier string) {
	kinds := []int{}
	for _, k := range strings.Split(kindsArg, ",") {
		switch k {
		case "0":
			kinds = append(kinds, 0)
		case "1":
			kinds = append(kinds, 1)
		case "2":
			kinds = append(kinds, 2)
		}
	}
	eval := "agg_eval_all"
	if kindsArg == "0,1" {
		eval = "agg_eval_c02"
	} else if kindsArg == "2" {
		eval = "agg_eval_c15"
	}
	var cs []caseRec
	if replay != "" {
		for _, in := range loadReplayInputs[aggIn](replay) {
			cs = append(cs, aggCase(in, "replay"))
		}
	} else {
		r := rand.New(rand.NewSource(seed))
		maxN, maxF := 3, 3
		if tier == "thorough" {
			maxN, maxF = 4, 10
		}
		for _, k := range kinds {
			ex := genAggExhaustive(r, k, maxN)
			// keep the exhaustive part to at most a third of the budget (sampled evenly otherwise)
			lim := n / (3 * len(kinds))
			step := 1
			if len(ex) > lim && lim > 0 {
				step = len(ex)/lim + 1
			}
			for i := 0; i < len(ex); i += step {
				cs = append(cs, aggCase(ex[i], "exhaustive-small"))
			}
		}
		for len(cs) < n {
			k := kinds[r.Intn(len(kinds))]
			cs = append(cs, aggCase(genAggStructured(r, k, maxF), "structured"))
		}
	}
	if err := writeCases(out, "agg", seed, aggHeader(eval), "agg_case", eval, cs); err != nil {
		fatal(err)
	}
}
