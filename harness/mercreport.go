package main

// `mercreport` projection (C07, C09, C01, C11): MercuryPlugin.Report of v1..v4 built through the real factories
// with a recording codec; single rounds and threaded histories.

import (
	"context"
	"encoding/json"
	"errors"
	"fmt"
	"math/big"
	"math/rand"
	"reflect"

	"google.golang.org/protobuf/proto"

	"github.com/smartcontractkit/libocr/offchainreporting2plus/ocr3types"
	"github.com/smartcontractkit/libocr/offchainreporting2plus/types"

	"github.com/smartcontractkit/chainlink-common/pkg/logger"
	mercurytypes "github.com/smartcontractkit/chainlink-common/pkg/types/mercury"
	tv1 "github.com/smartcontractkit/chainlink-common/pkg/types/mercury/v1"
	tv2 "github.com/smartcontractkit/chainlink-common/pkg/types/mercury/v2"
	tv3 "github.com/smartcontractkit/chainlink-common/pkg/types/mercury/v3"
	tv4 "github.com/smartcontractkit/chainlink-common/pkg/types/mercury/v4"

	"github.com/smartcontractkit/chainlink-data-streams/mercury"
	mv1 "github.com/smartcontractkit/chainlink-data-streams/mercury/v1"
	mv2 "github.com/smartcontractkit/chainlink-data-streams/mercury/v2"
	mv3 "github.com/smartcontractkit/chainlink-data-streams/mercury/v3"
	mv4 "github.com/smartcontractkit/chainlink-data-streams/mercury/v4"
)

// ---- recording codec: a faithful JSON encoding of the fields (so the previous report can be read back) ----
type recFields struct {
	Ts, ValidFrom, Expires     uint32
	Bm, Bid, Ask, Link, Native *big.Int
	Status                     uint32
	// v1
	CurNum, ValidFromBlock int64
	CurHash                []byte
	CurTs                  uint64
}
type mercCodec struct {
	mode   string // ok | empty | long | err
	maxLen int
	last   *recFields
}

func (c *mercCodec) build(f recFields) (types.Report, error) {
	c.last = &f
	switch c.mode {
	case "empty":
		return types.Report{}, nil
	case "long":
		return make([]byte, c.maxLen+1), nil
	case "err":
		return nil, errors.New("codec refuses")
	}
	b, _ := json.Marshal(f)
	return b, nil
}
func (c *mercCodec) MaxReportLength(context.Context, int) (int, error) { return c.maxLen, nil }
func (c *mercCodec) tsFrom(r types.Report) (uint32, error) {
	var f recFields
	if err := json.Unmarshal(r, &f); err != nil {
		return 0, err
	}
	return f.Ts, nil
}

type codec1 struct{ *mercCodec }
type codec2 struct{ *mercCodec }
type codec3 struct{ *mercCodec }
type codec4 struct{ *mercCodec }

func (c codec1) BuildReport(_ context.Context, f tv1.ReportFields) (types.Report, error) {
	return c.build(recFields{Ts: f.Timestamp, Bm: f.BenchmarkPrice, Bid: f.Bid, Ask: f.Ask, CurNum: f.CurrentBlockNum, CurHash: f.CurrentBlockHash, CurTs: f.CurrentBlockTimestamp, ValidFromBlock: f.ValidFromBlockNum})
}
func (c codec1) CurrentBlockNumFromReport(_ context.Context, r types.Report) (int64, error) {
	var f recFields
	if err := json.Unmarshal(r, &f); err != nil {
		return 0, err
	}
	return f.CurNum, nil
}
func (c codec2) BuildReport(_ context.Context, f tv2.ReportFields) (types.Report, error) {
	return c.build(recFields{Ts: f.Timestamp, ValidFrom: f.ValidFromTimestamp, Expires: f.ExpiresAt, Bm: f.BenchmarkPrice, Link: f.LinkFee, Native: f.NativeFee})
}
func (c codec2) ObservationTimestampFromReport(_ context.Context, r types.Report) (uint32, error) {
	return c.tsFrom(r)
}
func (c codec3) BuildReport(_ context.Context, f tv3.ReportFields) (types.Report, error) {
	return c.build(recFields{Ts: f.Timestamp, ValidFrom: f.ValidFromTimestamp, Expires: f.ExpiresAt, Bm: f.BenchmarkPrice, Bid: f.Bid, Ask: f.Ask, Link: f.LinkFee, Native: f.NativeFee})
}
func (c codec3) ObservationTimestampFromReport(_ context.Context, r types.Report) (uint32, error) {
	return c.tsFrom(r)
}
func (c codec4) BuildReport(_ context.Context, f tv4.ReportFields) (types.Report, error) {
	return c.build(recFields{Ts: f.Timestamp, ValidFrom: f.ValidFromTimestamp, Expires: f.ExpiresAt, Bm: f.BenchmarkPrice, Link: f.LinkFee, Native: f.NativeFee, Status: f.MarketStatus})
}
func (c codec4) ObservationTimestampFromReport(_ context.Context, r types.Report) (uint32, error) {
	return c.tsFrom(r)
}

// ---- inputs ----
type mercCfg struct {
	Ver    int    `json:"ver"`
	F      int    `json:"f"`
	Min    string `json:"min"`
	Max    string `json:"max"`
	Window uint32 `json:"window"`
	MaxLen int    `json:"maxlen"`
}
type mblk struct {
	Num  int64  `json:"num"`
	Hash []byte `json:"hash"`
	Ts   uint64 `json:"ts"`
}
type mercObs struct {
	Honest  bool   `json:"honest"`
	Raw     []byte `json:"raw,omitempty"` // undecodable bytes
	Ts      uint32 `json:"ts"`
	PV      bool   `json:"prices_valid"`
	Bm      []byte `json:"bm"`
	Bid     []byte `json:"bid"`
	Ask     []byte `json:"ask"`
	decoded bool   // set on values read back from bytes with proto.Unmarshal
	MfV     bool   `json:"mf_valid"`
	Mf      int64  `json:"mf"`
	LV      bool   `json:"link_valid"`
	Link    []byte `json:"link"`
	NV      bool   `json:"native_valid"`
	Native  []byte `json:"native"`
	SV      bool   `json:"status_valid"`
	Status  uint32 `json:"status"`
	Blocks  []mblk `json:"blocks,omitempty"`
	CurV    bool   `json:"cur_valid,omitempty"`
	Cur     mblk   `json:"cur"`
}
type mercRound struct {
	Mode string    `json:"codec_mode"` // ok | empty | long | err
	Obs  []mercObs `json:"obs"`
	// "thread" (default): previous report = the last emitted one; "none": no previous report;
	// "garbage": bytes the codec cannot read; "tsmax": a report whose timestamp is 2^32-1
	Prev string `json:"prev,omitempty"`
}
type mercIn struct {
	Cfg    mercCfg     `json:"cfg"`
	Rounds []mercRound `json:"rounds"`
}

func (o mercObs) bytes(ver int) []byte {
	if o.Raw != nil {
		return o.Raw
	}
	var m proto.Message
	switch ver {
	case 1:
		x := &mv1.MercuryObservationProto{Timestamp: o.Ts, PricesValid: o.PV, BenchmarkPrice: o.Bm, Bid: o.Bid, Ask: o.Ask,
			MaxFinalizedBlockNumberValid: o.MfV, MaxFinalizedBlockNumber: o.Mf, CurrentBlockValid: o.CurV,
			CurrentBlockNum: o.Cur.Num, CurrentBlockHash: o.Cur.Hash, CurrentBlockTimestamp: o.Cur.Ts}
		for _, b := range o.Blocks {
			x.LatestBlocks = append(x.LatestBlocks, &mv1.BlockProto{Num: b.Num, Hash: b.Hash, Ts: b.Ts})
		}
		m = x
	case 2:
		m = &mv2.MercuryObservationProto{Timestamp: o.Ts, PricesValid: o.PV, BenchmarkPrice: o.Bm, MaxFinalizedTimestampValid: o.MfV, MaxFinalizedTimestamp: o.Mf,
			LinkFeeValid: o.LV, LinkFee: o.Link, NativeFeeValid: o.NV, NativeFee: o.Native}
	case 3:
		m = &mv3.MercuryObservationProto{Timestamp: o.Ts, PricesValid: o.PV, BenchmarkPrice: o.Bm, Bid: o.Bid, Ask: o.Ask, MaxFinalizedTimestampValid: o.MfV, MaxFinalizedTimestamp: o.Mf,
			LinkFeeValid: o.LV, LinkFee: o.Link, NativeFeeValid: o.NV, NativeFee: o.Native}
	default:
		m = &mv4.MercuryObservationProto{Timestamp: o.Ts, PricesValid: o.PV, BenchmarkPrice: o.Bm, MaxFinalizedTimestampValid: o.MfV, MaxFinalizedTimestamp: o.Mf,
			LinkFeeValid: o.LV, LinkFee: o.Link, NativeFeeValid: o.NV, NativeFee: o.Native, MarketStatusValid: o.SV, MarketStatus: o.Status}
	}
	b, _ := proto.Marshal(m)
	return b
}

func mercFromBytes(ver int, raw []byte) (mercObs, bool) {
	var o mercObs
	switch ver {
	case 1:
		var m mv1.MercuryObservationProto
		if proto.Unmarshal(raw, &m) != nil {
			return o, false
		}
		o = mercObs{Ts: m.Timestamp, PV: m.PricesValid, Bm: m.BenchmarkPrice, Bid: m.Bid, Ask: m.Ask, MfV: m.MaxFinalizedBlockNumberValid, Mf: m.MaxFinalizedBlockNumber,
			CurV: m.CurrentBlockValid, Cur: mblk{m.CurrentBlockNum, m.CurrentBlockHash, m.CurrentBlockTimestamp}}
		for _, b := range m.LatestBlocks {
			if b == nil {
				o.Blocks = append(o.Blocks, mblk{})
			} else {
				o.Blocks = append(o.Blocks, mblk{b.Num, b.Hash, b.Ts})
			}
		}
	case 2:
		var m mv2.MercuryObservationProto
		if proto.Unmarshal(raw, &m) != nil {
			return o, false
		}
		o = mercObs{Ts: m.Timestamp, PV: m.PricesValid, Bm: m.BenchmarkPrice, MfV: m.MaxFinalizedTimestampValid, Mf: m.MaxFinalizedTimestamp,
			LV: m.LinkFeeValid, Link: m.LinkFee, NV: m.NativeFeeValid, Native: m.NativeFee}
	case 3:
		var m mv3.MercuryObservationProto
		if proto.Unmarshal(raw, &m) != nil {
			return o, false
		}
		o = mercObs{Ts: m.Timestamp, PV: m.PricesValid, Bm: m.BenchmarkPrice, Bid: m.Bid, Ask: m.Ask, MfV: m.MaxFinalizedTimestampValid, Mf: m.MaxFinalizedTimestamp,
			LV: m.LinkFeeValid, Link: m.LinkFee, NV: m.NativeFeeValid, Native: m.NativeFee}
	default:
		var m mv4.MercuryObservationProto
		if proto.Unmarshal(raw, &m) != nil {
			return o, false
		}
		o = mercObs{Ts: m.Timestamp, PV: m.PricesValid, Bm: m.BenchmarkPrice, MfV: m.MaxFinalizedTimestampValid, Mf: m.MaxFinalizedTimestamp,
			LV: m.LinkFeeValid, Link: m.LinkFee, NV: m.NativeFeeValid, Native: m.NativeFee, SV: m.MarketStatusValid, Status: m.MarketStatus}
	}
	return o, true
}

func (b mblk) coq() string {
	return fmt.Sprintf("{| bnum := %s; bhash := %s; bts := %s |}", coqZi(b.Num), coqHex(b.Hash), coqZu(b.Ts))
}

// the observation as the plugin's proto.Unmarshal sees it: for hand-made bytes the message is read back with the
// real library (None if it does not unmarshal)
func (o mercObs) coq(ver int) string {
	if !o.decoded {
		d, ok := mercFromBytes(ver, o.bytes(ver))
		if !ok {
			return fmt.Sprintf("(None, %s)", coqBool(o.Honest))
		}
		d.Honest = o.Honest
		d.decoded = true
		return d.coq(ver)
	}
	if ver == 1 {
		var bs []string
		for _, b := range o.Blocks {
			bs = append(bs, b.coq())
		}
		return fmt.Sprintf("(Some {| m1_ts := %d; m1_prices_valid := %s; m1_bm := %s; m1_bid := %s; m1_ask := %s; m1_blocks := %s; m1_cur_valid := %s; m1_cur := %s; m1_mfb_valid := %s; m1_mfb := %s |}, %s)",
			o.Ts, coqBool(o.PV), coqHex(o.Bm), coqHex(o.Bid), coqHex(o.Ask), coqList(bs), coqBool(o.CurV), o.Cur.coq(), coqBool(o.MfV), coqZi(o.Mf), coqBool(o.Honest))
	}
	return fmt.Sprintf("(Some {| mo_ts := %d; mo_prices_valid := %s; mo_bm := %s; mo_bid := %s; mo_ask := %s; mo_mfts_valid := %s; mo_mfts := %s; mo_link_valid := %s; mo_link := %s; mo_native_valid := %s; mo_native := %s; mo_status_valid := %s; mo_status := %d |}, %s)",
		o.Ts, coqBool(o.PV), coqHex(o.Bm), coqHex(o.Bid), coqHex(o.Ask), coqBool(o.MfV), coqZi(o.Mf), coqBool(o.LV), coqHex(o.Link), coqBool(o.NV), coqHex(o.Native), coqBool(o.SV), o.Status, coqBool(o.Honest))
}

func newMercPlugin(cfg mercCfg, codec *mercCodec) (ocr3types.MercuryPlugin, error) {
	occ := mercury.StandardOnchainConfigCodec{}
	ocb, err := occ.Encode(context.Background(), mercurytypes.OnchainConfig{Min: bigOf(cfg.Min), Max: bigOf(cfg.Max)})
	if err != nil {
		return nil, err
	}
	offb, _ := mercury.OffchainConfig{ExpirationWindow: cfg.Window}.Encode()
	pc := ocr3types.MercuryPluginConfig{ConfigDigest: types.ConfigDigest{1}, N: 3*cfg.F + 1, F: cfg.F, OnchainConfig: ocb, OffchainConfig: offb}
	ctx := context.Background()
	var p ocr3types.MercuryPlugin
	switch cfg.Ver {
	case 1:
		p, _, err = mv1.NewFactory(nil, logger.Nop(), occ, codec1{codec}).NewMercuryPlugin(ctx, pc)
	case 2:
		p, _, err = mv2.NewFactory(nil, logger.Nop(), occ, codec2{codec}).NewMercuryPlugin(ctx, pc)
	case 3:
		p, _, err = mv3.NewFactory(nil, logger.Nop(), occ, codec3{codec}).NewMercuryPlugin(ctx, pc)
	default:
		p, _, err = mv4.NewFactory(nil, logger.Nop(), occ, codec4{codec}).NewMercuryPlugin(ctx, pc)
	}
	return p, err
}

type mercOut struct {
	Kind   string     `json:"kind"` // report | decline | err | panic
	Fields *recFields `json:"fields,omitempty"`
	Text   string     `json:"text,omitempty"`
	Len    int        `json:"len"`
}

func runMercRound(cfg mercCfg, mode string, prev types.Report, aos []types.AttributedObservation) (mercOut, types.Report) {
	codec := &mercCodec{mode: mode, maxLen: cfg.MaxLen}
	p, err := newMercPlugin(cfg, codec)
	if err != nil {
		fatal(err)
	}
	var should bool
	var rep types.Report
	e, panicked, pv := protect(func() error {
		var e2 error
		should, rep, e2 = p.Report(context.Background(), types.ReportTimestamp{}, prev, aos)
		return e2
	})
	switch {
	case panicked:
		return mercOut{Kind: "panic", Text: fmt.Sprint(pv)}, nil
	case e != nil:
		return mercOut{Kind: "err", Text: e.Error()}, nil
	case !should:
		return mercOut{Kind: "decline"}, nil
	}
	return mercOut{Kind: "report", Fields: codec.last, Len: len(rep)}, rep
}

func z(b *big.Int) string {
	if b == nil {
		return "0"
	}
	return coqZ(b)
}

func mercCase(in mercIn, k int, tags ...string) caseRec {
	var prev types.Report
	var rounds []string
	var outs []mercOut
	for _, r := range in.Rounds {
		aos := make([]types.AttributedObservation, len(r.Obs))
		var obsTerms, rawTerms []string
		for i, o := range r.Obs {
			aos[i] = types.AttributedObservation{Observation: o.bytes(in.Cfg.Ver)}
			obsTerms = append(obsTerms, o.coq(in.Cfg.Ver))
			rawTerms = append(rawTerms, coqHex(o.bytes(in.Cfg.Ver)))
		}
		usePrev := prev
		switch r.Prev {
		case "none":
			usePrev = nil
		case "garbage":
			usePrev = types.Report("not json")
		case "tsmax":
			b, _ := json.Marshal(recFields{Ts: 4294967295, CurNum: 9223372036854775807})
			usePrev = b
		}
		// what the codec makes of the previous report
		prevTerm := "None"
		if usePrev != nil {
			c := &mercCodec{}
			if in.Cfg.Ver == 1 {
				v, err := codec1{c}.CurrentBlockNumFromReport(context.Background(), usePrev)
				prevTerm = "(Some " + resTerm(coqZi(v), err, false) + ")"
			} else {
				v, err := c.tsFrom(usePrev)
				prevTerm = "(Some " + resTerm(fmt.Sprint(v), err, false) + ")"
			}
		}
		out, rep := runMercRound(in.Cfg, r.Mode, usePrev, aos)
		stable := true
		for e := 1; e < k; e++ {
			o2, _ := runMercRound(in.Cfg, r.Mode, usePrev, aos)
			if !reflect.DeepEqual(o2, out) {
				stable = false
			}
		}
		outs = append(outs, out)
		replen := "(Ok 1%nat)"
		switch r.Mode {
		case "empty":
			replen = "(Ok 0%nat)"
		case "long":
			replen = fmt.Sprintf("(Ok %d%%nat)", in.Cfg.MaxLen+1)
		case "err":
			replen = "(Err EOther)"
		default:
			if out.Kind == "report" {
				replen = fmt.Sprintf("(Ok %d%%nat)", out.Len)
			}
		}
		outTerm := ""
		switch out.Kind {
		case "panic":
			outTerm = "(Panic 0)"
		case "err":
			outTerm = "(Err EOther)"
		case "decline":
			outTerm = "(Ok (false, None))"
		default:
			f := out.Fields
			if in.Cfg.Ver == 1 {
				outTerm = fmt.Sprintf("(Ok (true, Some {| r1_ts := %d; r1_valid_from := %s; r1_cur := %s; r1_bm := %s; r1_bid := %s; r1_ask := %s |}))",
					f.Ts, coqZi(f.ValidFromBlock), mblk{f.CurNum, f.CurHash, f.CurTs}.coq(), z(f.Bm), z(f.Bid), z(f.Ask))
			} else {
				outTerm = fmt.Sprintf("(Ok (true, Some {| rf_ts := %d; rf_valid_from := %d; rf_expires := %d; rf_bm := %s; rf_bid := %s; rf_ask := %s; rf_link := %s; rf_native := %s; rf_status := %d |}))",
					f.Ts, f.ValidFrom, f.Expires, z(f.Bm), z(f.Bid), z(f.Ask), z(f.Link), z(f.Native), f.Status)
			}
		}
		if in.Cfg.Ver == 1 {
			rounds = append(rounds, fmt.Sprintf("{| r1d_prev := %s; r1d_replen := %s; r1d_obs := %s; r1d_raw := %s; r1d_out := %s; r1d_stable := %s |}", prevTerm, replen, coqList(obsTerms), coqList(rawTerms), outTerm, coqBool(stable)))
		} else {
			rounds = append(rounds, fmt.Sprintf("{| rd_prev := %s; rd_replen := %s; rd_obs := %s; rd_raw := %s; rd_out := %s; rd_stable := %s |}", prevTerm, replen, coqList(obsTerms), coqList(rawTerms), outTerm, coqBool(stable)))
		}
		if rep != nil && r.Mode == "" || (rep != nil && r.Mode == "ok") {
			prev = rep
		}
	}
	cfgTerm := fmt.Sprintf("{| mc_f := %s; mc_min := %s; mc_max := %s; mc_window := %d; mc_maxlen := %s |}", coqNat(in.Cfg.F), coqZ(bigOf(in.Cfg.Min)), coqZ(bigOf(in.Cfg.Max)), in.Cfg.Window, coqNat(in.Cfg.MaxLen))
	coq := ""
	if in.Cfg.Ver == 1 {
		coq = fmt.Sprintf("(M1 %s [\n  %s])", cfgTerm, joinLines(rounds))
	} else {
		coq = fmt.Sprintf("(M234 %d %s [\n  %s])", in.Cfg.Ver, cfgTerm, joinLines(rounds))
	}
	return caseRec{Input: in, Output: outs, Coq: coq, Tags: append(tags, fmt.Sprintf("v%d", in.Cfg.Ver))}
}

// ---- generation ----
func i192(v *big.Int) []byte {
	b, err := mercury.EncodeValueInt192(v)
	if err != nil {
		return []byte{1, 2, 3} // undecodable
	}
	return b
}

func genMercHistory(r *rand.Rand, ver int, rounds int) mercIn {
	f := 1 + r.Intn(3)
	min, max := big.NewInt(0), big.NewInt(1000000)
	switch r.Intn(4) {
	case 0:
		min = big.NewInt(-500)
	case 1:
		max = new(big.Int).Sub(pow2(191), big.NewInt(1))
	}
	window := uint32(r.Intn(100))
	switch r.Intn(6) {
	case 0:
		window = 4294967295
	case 1:
		window = uint32(2500000000 + r.Intn(1000000000))
	case 2:
		window = 0
	}
	in := mercIn{Cfg: mercCfg{Ver: ver, F: f, Min: min.String(), Max: max.String(), Window: window, MaxLen: 400}}
	ts := uint32(1700000000 + r.Intn(1000))
	if r.Intn(8) == 0 {
		ts = 4294967295 - uint32(r.Intn(4))
	}
	block := int64(1000 + r.Intn(1000))
	price := int64(r.Intn(1200000)) - 100
	mf := int64(ts) - 30
	if r.Intn(3) == 0 {
		mf = -1
	}
	for k := 0; k < rounds; k++ {
		rd := mercRound{Mode: "ok"}
		switch r.Intn(14) {
		case 0:
			rd.Mode = "empty"
		case 1:
			rd.Mode = "long"
		case 2:
			rd.Mode = "err"
		}
		switch r.Intn(14) {
		case 0:
			rd.Prev = "none"
		case 1:
			rd.Prev = "garbage"
		case 2:
			rd.Prev = "tsmax"
		}
		// time and blocks: advancing, stalling, regressing
		switch r.Intn(6) {
		case 0:
		case 1:
			ts -= uint32(r.Intn(5))
			block -= int64(r.Intn(3))
		default:
			ts += uint32(r.Intn(20))
			block += int64(r.Intn(4))
		}
		n := 2*f + 1 + r.Intn(f+1)
		b := r.Intn(f + 1)
		canon := func(num int64) mblk {
			return mblk{Num: num, Hash: append(make([]byte, 30), byte(num), byte(num>>8)), Ts: uint64(num) * 12}
		}
		for i := 0; i < n; i++ {
			o := mercObs{Honest: i >= b}
			if o.Honest {
				o.Ts = ts + uint32(r.Intn(3))
				p := price + int64(r.Intn(11)) - 5
				o.PV = r.Intn(8) != 0
				o.Bm, o.Bid, o.Ask = i192(big.NewInt(p)), i192(big.NewInt(p-int64(r.Intn(4)))), i192(big.NewInt(p+int64(r.Intn(4))))
				o.MfV, o.Mf = r.Intn(10) != 0, mf
				if ver == 1 {
					o.Mf = block - 5
				}
				if r.Intn(3) == 0 {
					o.Mf -= 10 // a correct node that lags behind: two values can both reach f+1 votes
				}
				o.LV, o.Link = r.Intn(6) != 0, i192(big.NewInt(int64(1000+r.Intn(10))))
				o.NV, o.Native = r.Intn(6) != 0, i192(big.NewInt(int64(2000+r.Intn(10))))
				// a correct node whose fee fetch failed sends the invalid flag with NO bytes (what Observation() does)
				if !o.LV && r.Intn(2) == 0 {
					o.Link = nil
				}
				if !o.NV && r.Intn(2) == 0 {
					o.Native = nil
				}
				o.SV, o.Status = r.Intn(10) != 0, uint32(1+r.Intn(2)/2)
				if ver == 1 {
					head := block - int64(r.Intn(2))
					cnt := r.Intn(4)
					for j := 0; j < cnt; j++ {
						o.Blocks = append(o.Blocks, canon(head-int64(j)))
					}
					if cnt == 0 {
						o.CurV, o.Cur = true, canon(head)
					}
				}
			} else {
				o.Ts = []uint32{0, 4294967295, ts + 1000000, ts, r.Uint32()}[r.Intn(5)]
				wild := func() []byte {
					switch r.Intn(6) {
					case 0:
						return i192(new(big.Int).Neg(pow2(r.Intn(191))))
					case 1:
						return i192(new(big.Int).Sub(pow2(191), big.NewInt(1)))
					case 2:
						return randBytes(r, r.Intn(30)) // wrong length: the whole observation is dropped
					case 3:
						return i192(big.NewInt(price))
					default:
						return i192(big.NewInt(int64(r.Intn(3000000)) - 1000000))
					}
				}
				o.PV, o.Bm, o.Bid, o.Ask = r.Intn(5) != 0, wild(), wild(), wild()
				o.MfV, o.Mf = r.Intn(4) != 0, []int64{-1, 0, mf, int64(ts), 4294967295, 9223372036854775807, -5}[r.Intn(7)]
				o.LV, o.Link = r.Intn(4) != 0, wild()
				o.NV, o.Native = r.Intn(4) != 0, wild()
				o.SV, o.Status = r.Intn(4) != 0, uint32(r.Intn(4))
				if ver == 1 {
					cnt := r.Intn(12)
					for j := 0; j < cnt; j++ {
						bl := canon(block + int64(r.Intn(6)) - 2)
						switch r.Intn(5) {
						case 0:
							bl.Hash = randBytes(r, 32)
						case 1:
							bl.Hash = randBytes(r, 31) // wrong hash length
						case 2:
							bl.Num = -1
						}
						o.Blocks = append(o.Blocks, bl)
					}
					if r.Intn(3) == 0 {
						o.CurV, o.Cur = true, canon(block+int64(r.Intn(5)))
					}
				}
				if r.Intn(12) == 0 {
					o.Raw = []byte{0xff, 0xff, 0xff}
					if r.Intn(2) == 0 { // damage to the real encoding: flips, truncation, duplicated spans, unknown-field groups
						o.Raw = nil
						o.Raw = flipBytes(r, o.bytes(ver))
						if o.Raw == nil {
							o.Raw = []byte{}
						}
					}
				}
			}
			rd.Obs = append(rd.Obs, o)
		}
		// coordinated split of the max-finalized votes between two (possibly extreme) candidates, any ratio
		if r.Intn(5) == 0 {
			cands := []int64{-1, 0, 9223372036854775807, mf, mf - 10, int64(ts), 4294967295}
			a, bb := cands[r.Intn(len(cands))], cands[r.Intn(len(cands))]
			k := r.Intn(len(rd.Obs) + 1)
			for i := range rd.Obs {
				rd.Obs[i].MfV = true
				if i < k {
					rd.Obs[i].Mf = a
				} else {
					rd.Obs[i].Mf = bb
				}
			}
			if r.Intn(2) == 0 {
				rd.Prev = "none"
			}
		}
		// too few valid observations sometimes
		if r.Intn(15) == 0 {
			for i := range rd.Obs {
				if r.Intn(2) == 0 {
					rd.Obs[i].PV = false
				}
			}
		}
		r.Shuffle(len(rd.Obs), func(i, j int) { rd.Obs[i], rd.Obs[j] = rd.Obs[j], rd.Obs[i] })
		in.Rounds = append(in.Rounds, rd)
		// prices drift; sometimes out of the configured range
		price += int64(r.Intn(21)) - 10
		if r.Intn(12) == 0 {
			price = []int64{-600, 1000001, 999999, 0, -1}[r.Intn(5)]
		}
	}
	return in
}

const mercHeader = "From DS Require Import Base Sort MercuryAgg Config MercuryReport CasesMercReport.\n"

func cmdMercReport(seed int64, n int, out, replay, tier string) {
	k := 4
	if tier == "thorough" {
		k = 20
	}
	var cs []caseRec
	if replay != "" {
		for _, in := range loadReplayInputs[mercIn](replay) {
			cs = append(cs, mercCase(in, 10, "replay"))
		}
	} else {
		r := rand.New(rand.NewSource(seed))
		for _, d := range directedMerc() {
			cs = append(cs, mercCase(d, 6*k, "directed"))
		}
		// n random histories IN ADDITION to the directed tables (which grow with every scenario found worth keeping)
		for random := 0; random < n; random++ {
			ver := 1 + r.Intn(4)
			cs = append(cs, mercCase(genMercHistory(r, ver, 2+r.Intn(9)), k, "history"))
		}
	}
	if err := writeCasesSharded(out, "mercreport", seed, mercHeader, "merc_case", "merc_eval", cs, 25); err != nil {
		fatal(err)
	}
}

// directed: equal-count ties between extreme max-finalized values with no previous report (f = 1, n = 4, 2:2),
// for every version; the tie-break must be a fixed function of the vote table
func directedMerc() []mercIn {
	var out []mercIn
	pairs := [][2]int64{{-1, 9223372036854775807}, {0, 9223372036854775807}, {5, 6}, {-1, 0}, {4294967294, 4294967295}, {-1, -1}}
	for ver := 1; ver <= 4; ver++ {
		for _, pr := range pairs {
			in := mercIn{Cfg: mercCfg{Ver: ver, F: 1, Min: "0", Max: "1000000", Window: 10, MaxLen: 400}}
			rd := mercRound{Mode: "ok", Prev: "none"}
			for i := 0; i < 4; i++ {
				o := mercObs{Honest: true, Ts: 1700000000 + uint32(i), PV: true, Bm: i192(big.NewInt(500)), Bid: i192(big.NewInt(499)), Ask: i192(big.NewInt(501)),
					MfV: true, Mf: pr[i/2], LV: true, Link: i192(big.NewInt(1)), NV: true, Native: i192(big.NewInt(2)), SV: true, Status: uint32(1 + i/2)}
				if ver == 1 {
					o.Blocks = []mblk{{Num: 100, Hash: make([]byte, 32), Ts: 1200}}
				}
				rd.Obs = append(rd.Obs, o)
			}
			in.Rounds = []mercRound{rd, rd}
			out = append(out, in)
		}
	}
	// threaded rounds whose consensus end equals / is one below / is one above the previous report's end (seeded C09-F): equal and
	// below must DECLINE WITHOUT ERROR (the new end precedes the start prev+1), one above must report from prev+1
	for ver := 1; ver <= 4; ver++ {
		in := mercIn{Cfg: mercCfg{Ver: ver, F: 1, Min: "0", Max: "1000000", Window: 10, MaxLen: 400}}
		mk := func(prev string, d int64) mercRound {
			rd := mercRound{Mode: "ok", Prev: prev}
			for i := 0; i < 4; i++ {
				o := mercObs{Honest: true, Ts: uint32(5000 + d), PV: true, Bm: i192(big.NewInt(500)), Bid: i192(big.NewInt(499)), Ask: i192(big.NewInt(501)),
					MfV: true, Mf: 100, LV: true, Link: i192(big.NewInt(1)), NV: true, Native: i192(big.NewInt(2)), SV: true, Status: 2}
				if ver == 1 {
					o.Blocks = []mblk{{Num: 7000 + d, Hash: make([]byte, 32), Ts: 1200}}
				}
				rd.Obs = append(rd.Obs, o)
			}
			return rd
		}
		in.Rounds = []mercRound{mk("none", 0), mk("", 0), mk("", -1), mk("", 1), mk("", 1), mk("", 2)}
		out = append(out, in)
	}
	// two values with at least f+1 votes each and unequal counts (f = 2, n = 7): the HIGHER one is the agreed
	// max-finalized timestamp (v2-v4); for v1 the most common block number wins
	for ver := 1; ver <= 4; ver++ {
		for _, split := range []int{4, 3} {
			in := mercIn{Cfg: mercCfg{Ver: ver, F: 2, Min: "0", Max: "1000000", Window: 10, MaxLen: 400}}
			rd := mercRound{Mode: "ok", Prev: "none"}
			for i := 0; i < 7; i++ {
				v := int64(900)
				if i >= split {
					v = 901
				}
				o := mercObs{Honest: true, Ts: 1000 + uint32(i), PV: true, Bm: i192(big.NewInt(500)), Bid: i192(big.NewInt(499)), Ask: i192(big.NewInt(501)),
					MfV: true, Mf: v, LV: true, Link: i192(big.NewInt(1)), NV: true, Native: i192(big.NewInt(2)), SV: true, Status: 2}
				if ver == 1 {
					o.Blocks = []mblk{{Num: 1000, Hash: make([]byte, 32), Ts: 1200}}
				}
				rd.Obs = append(rd.Obs, o)
			}
			in.Rounds = []mercRound{rd}
			out = append(out, in)
		}
	}
	// each of the three consensus prices alone outside the on-chain [min, max] (seeded C07-D): no report may go out
	for ver := 1; ver <= 4; ver++ {
		for _, tr := range [][3]int64{{996, 999, 1002}, {-3, 1, 4}, {990, 1001, 1003}, {-2, -1, 5}, {996, 999, 1000}, {0, 1, 4}} {
			in := mercIn{Cfg: mercCfg{Ver: ver, F: 1, Min: "0", Max: "1000", Window: 10, MaxLen: 400}}
			rd := mercRound{Mode: "ok", Prev: "none"}
			for i := 0; i < 4; i++ {
				o := mercObs{Honest: true, Ts: 3000 + uint32(i), PV: true, Bm: i192(big.NewInt(tr[1])), Bid: i192(big.NewInt(tr[0])), Ask: i192(big.NewInt(tr[2])),
					MfV: true, Mf: 100, LV: true, Link: i192(big.NewInt(1)), NV: true, Native: i192(big.NewInt(2)), SV: true, Status: 2}
				if ver == 1 {
					o.Blocks = []mblk{{Num: 5000, Hash: make([]byte, 32), Ts: 1200}}
				}
				rd.Obs = append(rd.Obs, o)
			}
			in.Rounds = []mercRound{rd}
			out = append(out, in)
		}
	}
	// correct observers with a partial fee-fetch failure (invalid flag, no bytes) plus one faulty outlier (seeded C08-C):
	// the three correct prices still outnumber the faulty one, the consensus must stay among them
	for ver := 2; ver <= 4; ver++ {
		for pos := 0; pos < 4; pos++ {
			in := mercIn{Cfg: mercCfg{Ver: ver, F: 1, Min: "0", Max: "1000000", Window: 10, MaxLen: 400}}
			rd := mercRound{Mode: "ok", Prev: "none"}
			k := 0
			for i := 0; i < 4; i++ {
				var o mercObs
				if i == pos {
					o = mercObs{Honest: false, Ts: 4001, PV: true, Bm: i192(big.NewInt(999)), Bid: i192(big.NewInt(998)), Ask: i192(big.NewInt(1000)),
						MfV: true, Mf: 100, LV: true, Link: i192(big.NewInt(1)), NV: true, Native: i192(big.NewInt(2)), SV: true, Status: 2}
				} else {
					p := int64(100 + k)
					o = mercObs{Honest: true, Ts: 4000 + uint32(k), PV: true, Bm: i192(big.NewInt(p)), Bid: i192(big.NewInt(p - 1)), Ask: i192(big.NewInt(p + 1)),
						MfV: true, Mf: 100, LV: true, Link: i192(big.NewInt(1)), NV: true, Native: i192(big.NewInt(2)), SV: true, Status: 2}
					if k < 2 { // fee fetch failed on this node
						o.LV, o.Link = false, nil
						if k == 1 {
							o.NV, o.Native = false, nil
						}
					}
					k++
				}
				rd.Obs = append(rd.Obs, o)
			}
			in.Rounds = []mercRound{rd}
			out = append(out, in)
		}
	}
	// v4 market status without f+1 agreement (seeded C07-C): statuses split so that no value has f+1 valid votes, or
	// nobody could observe it: no report may carry a status nobody agreed on
	for _, sp := range []struct {
		f     int
		stats []int // 0 = invalid flag
	}{{1, []int{1, 2, 3, 0}}, {1, []int{0, 0, 0, 0}}, {1, []int{1, 2, 0, 0}}, {2, []int{1, 1, 2, 2, 3, 3, 0}}, {2, []int{1, 1, 2, 2, 3, 0, 0}}, {1, []int{2, 2, 1, 0}}} {
		in := mercIn{Cfg: mercCfg{Ver: 4, F: sp.f, Min: "0", Max: "1000000", Window: 10, MaxLen: 400}}
		rd := mercRound{Mode: "ok", Prev: "none"}
		for i, st := range sp.stats {
			o := mercObs{Honest: true, Ts: 5000 + uint32(i), PV: true, Bm: i192(big.NewInt(500)), Bid: i192(big.NewInt(499)), Ask: i192(big.NewInt(501)),
				MfV: true, Mf: 100, LV: true, Link: i192(big.NewInt(1)), NV: true, Native: i192(big.NewInt(2)), SV: st != 0, Status: uint32(st)}
			rd.Obs = append(rd.Obs, o)
		}
		in.Rounds = []mercRound{rd}
		out = append(out, in)
	}
	// bootstrap with failed max-finalized fetches (seeded C09-C): k observers agree on a valid value, the other
	// n-k carry the invalid flag (and whatever number, here 0 / -1 / the same value): an invalid entry is not a vote
	for ver := 1; ver <= 4; ver++ {
		for _, nk := range [][3]int{{4, 2, 1}, {4, 3, 1}, {7, 3, 2}, {7, 4, 2}, {4, 1, 1}} {
			for _, junk := range []int64{0, -1, 1000} {
				in := mercIn{Cfg: mercCfg{Ver: ver, F: nk[2], Min: "0", Max: "1000000", Window: 10, MaxLen: 400}}
				rd := mercRound{Mode: "ok", Prev: "none"}
				for i := 0; i < nk[0]; i++ {
					o := mercObs{Honest: true, Ts: 2000 + uint32(i), PV: true, Bm: i192(big.NewInt(500)), Bid: i192(big.NewInt(499)), Ask: i192(big.NewInt(501)),
						MfV: i%2 == 0 && i/2 < nk[1] || i%2 == 1 && (nk[0]+1)/2+i/2 < nk[1], Mf: 1000, LV: true, Link: i192(big.NewInt(1)), NV: true, Native: i192(big.NewInt(2)), SV: true, Status: 2}
					if !o.MfV {
						o.Mf = junk
					}
					if ver == 1 {
						o.Blocks = []mblk{{Num: 5000, Hash: make([]byte, 32), Ts: 1200}}
					}
					rd.Obs = append(rd.Obs, o)
				}
				in.Rounds = []mercRound{rd, rd}
				out = append(out, in)
			}
		}
	}
	return out
}
