package main

// Projection `converge` (C14): chained Observation -> ValidateObservation -> Outcome rounds of the real plugin from a
// given starting channel set towards a fixed target seen by all correct nodes, with up to f faulty observers voting
// arbitrarily. Only the channel-definition part of each round is handed to Coq: the votes of every accepted
// observation and the difference between the previous and the new outcome's definitions.

import (
	"context"
	"encoding/json"
	"fmt"
	"math/rand"
	"os"
	"sort"
	"strings"

	llotypes "github.com/smartcontractkit/chainlink-common/pkg/types/llo"
	"github.com/smartcontractkit/libocr/commontypes"
	"github.com/smartcontractkit/libocr/offchainreporting2plus/ocr3types"
	"github.com/smartcontractkit/libocr/offchainreporting2plus/types"

	"github.com/smartcontractkit/chainlink-data-streams/llo"
)

// compact description of a channel set: explicit definitions plus generated ranges
type defRange struct {
	From, To   uint32 // channel ids From..To inclusive
	Fmt        uint32
	StreamBase uint32 // channel id c gets the single stream StreamBase + c
	Agg        uint32
}
type bigDef struct {
	ID     uint32
	Fmt    uint32
	From   uint32 // streams From .. From+Count-1
	Count  uint32
	Agg    uint32
	AltAgg uint32 // if non-zero: odd streams use this aggregator
}
type setDesc struct {
	Ranges []defRange         `json:"ranges,omitempty"`
	Big    []bigDef           `json:"big,omitempty"`
	Defs   map[uint32]defDesc `json:"defs,omitempty"`
}

func (s setDesc) defs() llotypes.ChannelDefinitions {
	m := llotypes.ChannelDefinitions{}
	for _, r := range s.Ranges {
		for c := r.From; c <= r.To; c++ {
			m[c] = llotypes.ChannelDefinition{ReportFormat: llotypes.ReportFormat(r.Fmt), Streams: []llotypes.Stream{{StreamID: r.StreamBase + c, Aggregator: llotypes.Aggregator(r.Agg)}}}
		}
	}
	for _, b := range s.Big {
		d := llotypes.ChannelDefinition{ReportFormat: llotypes.ReportFormat(b.Fmt)}
		for i := uint32(0); i < b.Count; i++ {
			agg := b.Agg
			if b.AltAgg != 0 && i%2 == 1 {
				agg = b.AltAgg
			}
			d.Streams = append(d.Streams, llotypes.Stream{StreamID: b.From + i, Aggregator: llotypes.Aggregator(agg)})
		}
		m[b.ID] = d
	}
	for id, d := range s.Defs {
		m[id] = d.def()
	}
	return m
}

type faultyVote struct {
	Removes []uint32           `json:"removes,omitempty"`
	Updates map[uint32]defDesc `json:"updates,omitempty"`
}
type convIn struct {
	F      int            `json:"f"`
	Honest int            `json:"honest"` // correct observers per round (>= f+1, honest + faulty >= 2f+1)
	Start  setDesc        `json:"start"`
	Target setDesc        `json:"target"`
	Rounds int            `json:"rounds"`
	Faulty [][]faultyVote `json:"faulty"` // per round, per faulty observer
}

// Gallina term for a channel set, using the compact constructors of CasesConverge.v for generated parts.
// list_to_map keeps the first binding of a key; explicit definitions override ranges, so they come first.
func (s setDesc) coq() string {
	var xs []string
	ids := make([]uint32, 0, len(s.Defs))
	for id := range s.Defs {
		ids = append(ids, id)
	}
	sort.Slice(ids, func(i, j int) bool { return ids[i] < ids[j] })
	for _, id := range ids {
		xs = append(xs, fmt.Sprintf("(%d, %s)", id, coqDef(s.Defs[id].def())))
	}
	for _, b := range s.Big {
		xs = append(xs, fmt.Sprintf("(%d, big_def %d %d %d %d %d)", b.ID, b.Fmt, b.From, b.Count, b.Agg, b.AltAgg))
	}
	parts := []string{coqList(xs)}
	for _, r := range s.Ranges {
		parts = append(parts, fmt.Sprintf("range_defs %d %d %d %d %d", r.From, r.To, r.Fmt, r.StreamBase, r.Agg))
	}
	return "(list_to_map (" + strings.Join(parts, " ++ ") + "))"
}

// a definition whose streams are one generated run is printed compactly
func coqDefC(cd llotypes.ChannelDefinition) string {
	n := len(cd.Streams)
	if n < 50 || len(cd.Opts) != 0 {
		return coqDef(cd)
	}
	from, agg := cd.Streams[0].StreamID, uint32(cd.Streams[0].Aggregator)
	alt := uint32(0)
	if uint32(cd.Streams[1].Aggregator) != agg {
		alt = uint32(cd.Streams[1].Aggregator)
	}
	for i, st := range cd.Streams {
		want := agg
		if alt != 0 && i%2 == 1 {
			want = alt
		}
		if st.StreamID != from+uint32(i) || uint32(st.Aggregator) != want {
			return coqDef(cd)
		}
	}
	return fmt.Sprintf("(big_def %d %d %d %d %d)", uint32(cd.ReportFormat), from, n, agg, alt)
}
func coqDefsC(m llotypes.ChannelDefinitions) string {
	ids := make([]uint32, 0, len(m))
	for id := range m {
		ids = append(ids, id)
	}
	sort.Slice(ids, func(i, j int) bool { return ids[i] < ids[j] })
	var xs []string
	for _, id := range ids {
		xs = append(xs, fmt.Sprintf("(%d, %s)", id, coqDefC(m[id])))
	}
	return "(list_to_map " + coqList(xs) + ")"
}

func uniqueStreams(ms ...llotypes.ChannelDefinitions) int {
	u := map[uint32]struct{}{}
	for _, m := range ms {
		for _, d := range m {
			for _, s := range d.Streams {
				u[s.StreamID] = struct{}{}
			}
		}
	}
	return len(u)
}

func defsEqual(a, b llotypes.ChannelDefinition) bool {
	if a.ReportFormat != b.ReportFormat || len(a.Streams) != len(b.Streams) || string(a.Opts) != string(b.Opts) {
		return false
	}
	for i := range a.Streams {
		if a.Streams[i] != b.Streams[i] {
			return false
		}
	}
	return true
}

func convCase(in convIn, tags ...string) caseRec {
	ctx := context.Background()
	cfg := instCfg{F: in.F, N: 3*in.F + 1, PVer: 1, Interval: 1}
	n, err := buildNode(cfg, types.ConfigDigest{3}, newMockRetirementCache(), false)
	if err != nil {
		fatal(err)
	}
	start, target := in.Start.defs(), in.Target.defs()
	n.defs.defs = target
	t0 := uint64(1700000000e9)
	o0 := llo.Outcome{LifeCycleStage: llotypes.LifeCycleStage("production"), ObservationTimestampNanoseconds: t0,
		ChannelDefinitions: start, ValidAfterNanoseconds: map[llotypes.ChannelID]uint64{}}
	for id := range start {
		o0.ValidAfterNanoseconds[id] = t0 - 1
	}
	prevBytes, err := n.plugin.OutcomeCodec.Encode(o0)
	if err != nil {
		fatal(err)
	}
	prev := start
	var rounds []string
	type roundOut struct {
		HonestValid bool     `json:"honest_valid"`
		Refused     string   `json:"refused,omitempty"`
		OutErr      string   `json:"outcome_error,omitempty"`
		Removed     []uint32 `json:"removed"`
		Upserted    []uint32 `json:"upserted"`
		Size        int      `json:"size"`
		Equal       bool     `json:"equals_target"`
	}
	var outs []roundOut
	for k := 0; k < in.Rounds; k++ {
		seq := uint64(5 + k)
		octx := ocr3types.OutcomeContext{SeqNr: seq, PreviousOutcome: prevBytes}
		ro := roundOut{HonestValid: true}
		var aos []types.AttributedObservation
		var votes []string
		addObs := func(raw []byte, honest bool) {
			verr, vpanic, _ := protect(func() error { return n.plugin.ValidateObservation(ctx, octx, nil, ocrAO(raw)) })
			if verr != nil || vpanic {
				if honest {
					ro.HonestValid = false
				}
				return
			}
			ob, derr := n.plugin.ObservationCodec.Decode(raw)
			if derr != nil {
				return
			}
			var rem []uint32
			for id := range ob.RemoveChannelIDs {
				rem = append(rem, id)
			}
			sort.Slice(rem, func(i, j int) bool { return rem[i] < rem[j] })
			var rs []string
			for _, id := range rem {
				rs = append(rs, fmt.Sprint(id))
			}
			votes = append(votes, fmt.Sprintf("(%s, %s, %s)", coqBool(honest), coqList(rs), coqDefsC(ob.UpdateChannelDefinitions)))
			aos = append(aos, types.AttributedObservation{Observation: raw, Observer: commontypes.OracleID(len(aos))})
		}
		for i := 0; i < in.Honest; i++ {
			var raw []byte
			oerr, opanic, _ := protect(func() error {
				var e error
				raw, e = n.plugin.Observation(ctx, octx, nil)
				return e
			})
			if oerr != nil || opanic {
				ro.Refused = fmt.Sprint(oerr)
				continue
			}
			addObs(raw, true)
		}
		if k < len(in.Faulty) {
			for _, fv := range in.Faulty[k] {
				ob := llo.Observation{UnixTimestampNanoseconds: t0 + uint64(k+1)*1e9, RemoveChannelIDs: map[llotypes.ChannelID]struct{}{}, UpdateChannelDefinitions: llotypes.ChannelDefinitions{}}
				for _, id := range fv.Removes {
					ob.RemoveChannelIDs[id] = struct{}{}
				}
				for id, d := range fv.Updates {
					ob.UpdateChannelDefinitions[id] = d.def()
				}
				raw, e := n.plugin.ObservationCodec.Encode(ob)
				if e == nil {
					addObs(raw, false)
				}
			}
		}
		var outBytes []byte
		oerr, opanic, _ := protect(func() error {
			var e error
			outBytes, e = n.plugin.Outcome(ctx, octx, nil, aos)
			return e
		})
		next := prev
		outOK := oerr == nil && !opanic
		if outOK {
			o, derr := n.plugin.OutcomeCodec.Decode(outBytes)
			if derr != nil {
				outOK = false
				ro.OutErr = derr.Error()
			} else {
				next = o.ChannelDefinitions
				if next == nil {
					next = llotypes.ChannelDefinitions{}
				}
				prevBytes = outBytes
			}
		} else {
			ro.OutErr = fmt.Sprint(oerr)
		}
		var removed, ups []uint32
		for id := range prev {
			if _, ok := next[id]; !ok {
				removed = append(removed, id)
			}
		}
		for id, d := range next {
			if pd, ok := prev[id]; !ok || !defsEqual(pd, d) {
				ups = append(ups, id)
			}
		}
		sort.Slice(removed, func(i, j int) bool { return removed[i] < removed[j] })
		sort.Slice(ups, func(i, j int) bool { return ups[i] < ups[j] })
		var rs, us []string
		for _, id := range removed {
			rs = append(rs, fmt.Sprint(id))
		}
		for _, id := range ups {
			us = append(us, fmt.Sprintf("(%d, %s)", id, coqDefC(next[id])))
		}
		ro.Removed, ro.Upserted, ro.Size = removed, ups, len(next)
		ro.Equal = len(next) == len(target)
		for id, d := range target {
			if nd, ok := next[id]; !ok || !defsEqual(nd, d) {
				ro.Equal = false
			}
		}
		outs = append(outs, ro)
		rounds = append(rounds, fmt.Sprintf("{| cr_votes := %s; cr_honest_valid := %s; cr_refused := %s; cr_out_ok := %s; cr_removed := %s; cr_upserts := %s |}",
			coqList(votes), coqBool(ro.HonestValid), coqBool(ro.Refused != ""), coqBool(outOK), coqList(rs), coqList(us)))
		prev = next
	}
	if uniqueStreams(start, target) > 10000 && uniqueStreams(start) <= 10000 && uniqueStreams(target) <= 10000 {
		tags = append(tags, "F1")
	}
	coq := fmt.Sprintf("{| cc_f := %s; cc_start := %s; cc_target := %s; cc_rounds := %s |}", coqNat(in.F), in.Start.coq(), in.Target.coq(), coqList(rounds))
	return caseRec{Input: in, Output: outs, Coq: coq, Tags: tags}
}

// ---- generators ----
func bound(start, target llotypes.ChannelDefinitions) int {
	rm, up := 0, 0
	for id := range start {
		if _, ok := target[id]; !ok {
			rm++
		}
	}
	for id, d := range target {
		if sd, ok := start[id]; !ok || !defsEqual(sd, d) {
			up++
		}
	}
	m := rm
	if up > m {
		m = up
	}
	return (m + 4) / 5
}

func genFaulty(r *rand.Rand, f, rounds int, start, target llotypes.ChannelDefinitions) [][]faultyVote {
	ids := []uint32{}
	for id := range start {
		ids = append(ids, id)
	}
	for id := range target {
		ids = append(ids, id)
	}
	sort.Slice(ids, func(i, j int) bool { return ids[i] < ids[j] })
	var out [][]faultyVote
	for k := 0; k < rounds; k++ {
		var row []faultyVote
		for i := r.Intn(f + 1); i > 0; i-- {
			fv := faultyVote{Updates: map[uint32]defDesc{}}
			for j := r.Intn(6); j > 0 && len(ids) > 0; j-- {
				fv.Removes = appendUnique(fv.Removes, ids[r.Intn(len(ids))])
			}
			for j := r.Intn(6); j > 0; j-- {
				id := uint32(r.Intn(3000))
				if len(ids) > 0 && r.Intn(2) == 0 {
					id = ids[r.Intn(len(ids))]
				}
				fv.Updates[id] = defDesc{Fmt: []uint32{2, 99}[r.Intn(2)], Streams: []streamDesc{{ID: uint32(1 + r.Intn(50)), Agg: uint32(1 + r.Intn(3))}}}
			}
			row = append(row, fv)
		}
		out = append(out, row)
	}
	return out
}

func randSmallSet(r *rand.Rand, maxCh int) setDesc {
	s := setDesc{Defs: map[uint32]defDesc{}}
	for i := r.Intn(maxCh + 1); i > 0; i-- {
		d := defDesc{Fmt: []uint32{2, 99}[r.Intn(2)]}
		for j := 1 + r.Intn(3); j > 0; j-- {
			d.Streams = append(d.Streams, streamDesc{ID: uint32(1 + r.Intn(30)), Agg: uint32(1 + r.Intn(3))})
		}
		s.Defs[uint32(1+r.Intn(60))] = d
	}
	return s
}

func mkConv(r *rand.Rand, f int, start, target setDesc, extraRounds int, tags ...string) caseRec {
	s, t := start.defs(), target.defs()
	rounds := bound(s, t) + extraRounds
	in := convIn{F: f, Honest: f + 1 + r.Intn(f+1), Start: start, Target: target, Rounds: rounds}
	if in.Honest+f < 2*f+1 {
		in.Honest = f + 1
	}
	in.Faulty = genFaulty(r, f, rounds, s, t)
	// at least 2f+1 observations in total
	for k := range in.Faulty {
		for len(in.Faulty[k])+in.Honest < 2*f+1 {
			in.Honest++
		}
	}
	return convCase(in, tags...)
}

func genConverge(seed int64, n int, tier string) []caseRec {
	r := rand.New(rand.NewSource(seed))
	var cs []caseRec
	full := func(from, to uint32) setDesc {
		return setDesc{Ranges: []defRange{{From: from, To: to, Fmt: 99, StreamBase: 0, Agg: 1}}}
	}
	// at the channel cap: 2000 channels, the target swaps k ids (removals and additions in the same round)
	for _, k := range []uint32{5, 7} {
		cs = append(cs, mkConv(r, 1, full(1, 2000), full(1+k, 2000+k), 2, "directed", "cap-swap"))
	}
	// within 5 of the cap, replacing definitions in place at the same time
	{
		t := full(4, 2001)
		t.Defs = map[uint32]defDesc{10: {Fmt: 2, Streams: []streamDesc{{ID: 10, Agg: 2}}}, 11: {Fmt: 2, Streams: []streamDesc{{ID: 11, Agg: 3}}}}
		cs = append(cs, mkConv(r, 2, full(1, 1998), t, 2, "directed", "cap-near"))
	}
	// more than the cap offered: never above 2000 (additions by ascending id)
	cs = append(cs, mkConv(r, 1, full(1, 1995), full(1, 2010), 1, "directed", "cap-overflow"))
	// overlapping stream sets: the same 5001 stream ids under two aggregators (10002 pairs, 5001 unique ids)
	cs = append(cs, mkConv(r, 1, setDesc{}, setDesc{Big: []bigDef{{ID: 1, Fmt: 99, From: 0, Count: 5001, Agg: 1}, {ID: 2, Fmt: 99, From: 0, Count: 5001, Agg: 2}}}, 2, "directed", "pair-overlap"))
	// exactly at the unique-stream limit, and one above (an invalid target: nobody votes, nothing changes)
	cs = append(cs, mkConv(r, 1, full(1, 3), setDesc{Big: []bigDef{{ID: 7, Fmt: 99, From: 100, Count: 10000, Agg: 1}}}, 2, "directed", "stream-limit"))
	cs = append(cs, mkConv(r, 1, full(1, 3), setDesc{Big: []bigDef{{ID: 7, Fmt: 99, From: 100, Count: 6000, Agg: 1}, {ID: 8, Fmt: 99, From: 6100, Count: 4001, Agg: 1}}}, 2, "directed", "stream-limit-exceeded"))
	// F1: both end points valid, the intermediate union is not
	{
		st := full(1, 5)
		st.Big = []bigDef{{ID: 6, Fmt: 99, From: 1, Count: 6000, Agg: 1}}
		cs = append(cs, mkConv(r, 1, st, setDesc{Big: []bigDef{{ID: 7, Fmt: 99, From: 20001, Count: 6000, Agg: 1}}}, 3, "directed", "F1-witness"))
	}
	// empty target, empty start
	cs = append(cs, mkConv(r, 1, full(1, 12), setDesc{}, 2, "directed"))
	cs = append(cs, mkConv(r, 3, setDesc{}, full(1, 23), 2, "directed"))
	for len(cs) < n {
		f := 1 + r.Intn(3)
		start := randSmallSet(r, 25)
		target := randSmallSet(r, 25)
		if r.Intn(3) == 0 { // target derived from the start: some kept, some replaced in place, some dropped
			target = setDesc{Defs: map[uint32]defDesc{}}
			for id, d := range start.Defs {
				switch r.Intn(3) {
				case 0:
					target.Defs[id] = d
				case 1:
					target.Defs[id] = defDesc{Fmt: d.Fmt, Streams: append([]streamDesc{{ID: uint32(31 + r.Intn(9)), Agg: 1}}, d.Streams...)}
				}
			}
		}
		cs = append(cs, mkConv(r, f, start, target, 3, "random"))
	}
	return cs
}

func cmdConverge(seed int64, n int, out, replay, tier string) {
	var cs []caseRec
	if replay != "" {
		var f struct {
			Cases []struct {
				Input convIn `json:"input"`
			} `json:"cases"`
		}
		b, err := os.ReadFile(replay)
		if err != nil {
			fatal(err)
		}
		if err := json.Unmarshal(b, &f); err != nil {
			fatal(err)
		}
		for _, c := range f.Cases {
			cs = append(cs, convCase(c.Input, "replay"))
		}
	} else {
		cs = genConverge(seed, n, tier)
	}
	header := "From stdpp Require Import gmap.\nFrom DS Require Import Base Outcome CasesConverge.\n"
	if err := writeCasesSharded(out, "converge", seed, header, "conv_case", "conv_eval", cs, 12); err != nil {
		fatal(err)
	}
	fmt.Printf("converge: %d cases\n", len(cs))
}
