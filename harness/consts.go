package main

import (
	"fmt"

	"github.com/smartcontractkit/chainlink-data-streams/llo"
	mv1 "github.com/smartcontractkit/chainlink-data-streams/mercury/v1"
)

// cmdConsts prints the exported constants the theorems are stated over, as compiled from /repo now.
func cmdConsts() {
	fmt.Println("(* --- from `harness consts` (constants compiled from /repo) --- *)")
	z := func(name string, v int64) { fmt.Printf("Definition %s : Z := %d%%Z.\n", name, v) }
	z("MaxObservationRemoveChannelIDsLength", int64(llo.MaxObservationRemoveChannelIDsLength))
	z("MaxObservationUpdateChannelDefinitionsLength", int64(llo.MaxObservationUpdateChannelDefinitionsLength))
	z("MaxObservationStreamValuesLength", int64(llo.MaxObservationStreamValuesLength))
	z("MaxStreamsPerChannel", int64(llo.MaxStreamsPerChannel))
	z("MaxOutcomeChannelDefinitionsLength", int64(llo.MaxOutcomeChannelDefinitionsLength))
	z("MaxAllowedBlocks", int64(mv1.MaxAllowedBlocks))
	z("MaxReportCount", int64(llo.MaxReportCount)) // what the LLO plugin declares to libocr
	// the observation length limits the Mercury plugins declare to libocr (unexported constants, read from the
	// MercuryPluginInfo the real factories return)
	for ver := 1; ver <= 4; ver++ {
		z(fmt.Sprintf("MercMaxObservationLength%d", ver), int64(mercObservationLimit(ver)))
	}
}
