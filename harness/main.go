package main

import (
	"flag"
	"fmt"
	"os"
)

func main() {
	if len(os.Args) < 2 {
		fmt.Fprintln(os.Stderr, "usage: harness <projection> [-seed N] [-n N] [-out DIR] [-replay FILE]")
		os.Exit(2)
	}
	proj := os.Args[1]
	if proj == "consts" {
		cmdConsts()
		return
	}
	fs := flag.NewFlagSet(proj, flag.ExitOnError)
	seed := fs.Int64("seed", 1, "PRNG seed")
	n := fs.Int("n", 1000, "number of cases")
	out := fs.String("out", ".", "output directory")
	replay := fs.String("replay", "", "replay/corpus file: run exactly these inputs")
	tier := fs.String("tier", "quick", "quick|thorough")
	kinds := fs.String("kinds", "0,1,2", "agg: aggregator kinds")
	focus := fs.String("focus", "", "file with disagreeing cases to search around")
	_ = focus
	fs.Parse(os.Args[2:])
	switch proj {
	case "evmint":
		cmdEvmint(*seed, *n, *out, *replay)
	case "mercagg":
		cmdMercAgg(*seed, *n, *out, *replay, *tier)
	case "history":
		cmdHistory(*seed, *n, *out, *replay, *tier)
	case "determinism":
		cmdDeterminism(*seed, *n, *out, *replay, *tier)
	case "outcodec":
		cmdOutcodec(*seed, *n, *out, *replay, *tier)
	case "codecs16":
		cmdCodecs16(*seed, *n, *out, *replay, *tier)
	case "mercreport":
		cmdMercReport(*seed, *n, *out, *replay, *tier)
	case "converge":
		cmdConverge(*seed, *n, *out, *replay, *tier)
	case "cost":
		cmdCost(*seed, *n, *out, *replay, *tier)
	case "mtls":
		cmdMtls(*seed, *n, *out, *replay, *tier)
	case "nopanic":
		cmdNoPanic(*seed, *n, *out, *replay, *tier)
	case "mercobserve":
		cmdMercObserve(*seed, *n, *out, *replay, *tier)
	case "observe":
		cmdObserve(*seed, *n, *out, *replay, *tier)
	case "reportsflow":
		cmdReportsFlow(*seed, *n, *out, *replay, *tier)
	case "textforms":
		cmdTextforms(*seed, *n, *out, *replay, *tier)
	case "evmcodec":
		cmdEvmcodec(*seed, *n, *out, *replay, *tier)
	case "agg":
		cmdAgg(*seed, *n, *out, *replay, *kinds, *tier)
	default:
		fmt.Fprintln(os.Stderr, "unknown projection", proj)
		os.Exit(2)
	}
}
