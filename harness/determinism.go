package main

// `determinism` projection (C01): every round of a generated history is re-evaluated k times on FRESH plugin
// instances (new factory-built plugins, nothing shared) — Outcome from the same (seqNr, previous outcome,
// attributed observations) and Reports from the same (seqNr, outcome) — and the byte results are compared.

import (
	"context"
	"crypto/sha256"
	"fmt"
	"math/rand"

	"github.com/smartcontractkit/libocr/offchainreporting2/types"
	"github.com/smartcontractkit/libocr/offchainreporting2plus/ocr3types"

	llotypes "github.com/smartcontractkit/chainlink-common/pkg/types/llo"

	"github.com/smartcontractkit/chainlink-data-streams/llo"
)

type detStats struct {
	Evals            int      `json:"evaluations"`
	Rounds           int      `json:"rounds"`
	DistinctOutcomes int      `json:"max_distinct_outcomes"`
	DistinctReports  int      `json:"max_distinct_reports"`
	Witness          []string `json:"witness,omitempty"`
}

func digestReports(rwis []ocr3types.ReportPlus[llotypes.ReportInfo], err error) string {
	h := sha256.New()
	if err != nil {
		return "error"
	}
	for _, r := range rwis {
		fmt.Fprintf(h, "%x|%s|%d;", []byte(r.ReportWithInfo.Report), r.ReportWithInfo.Info.LifeCycleStage, r.ReportWithInfo.Info.ReportFormat)
	}
	return fmt.Sprintf("%x", h.Sum(nil))
}

// replays a history; for every round re-evaluates Outcome and Reports k times on fresh instances
func detCase(in histIn, k int, tags ...string) caseRec {
	st := detStats{DistinctOutcomes: 1, DistinctReports: 1}
	h, err := newHistRun(in.Cfgs)
	if err != nil {
		fatal(err)
	}
	ctx := context.Background()
	for ri, r := range in.Rounds {
		p := h.nodes[r.Inst].plugin
		prev := h.prevBytes(r)
		outctx := ocr3types.OutcomeContext{SeqNr: r.Seq, PreviousOutcome: prev}
		var aos []types.AttributedObservation
		for i, o := range r.Obs {
			var raw []byte
			if o.Raw != nil {
				raw = o.Raw
			} else if o.Honest && !o.Scripted && r.Seq > 1 {
				raw, err = h.honestObservation(r, o)
				if err != nil {
					continue
				}
			} else if r.Seq > 1 {
				raw, _ = p.ObservationCodec.Encode(o.observation(h.rcache))
			}
			ao := types.AttributedObservation{Observation: raw}
			_ = i
			verr, vp, _ := protect(func() error { return p.ValidateObservation(ctx, outctx, nil, ao) })
			if verr == nil && !vp {
				aos = append(aos, ao)
			}
		}
		outs := map[string]bool{}
		reps := map[string]bool{}
		var first []byte
		for e := 0; e < k; e++ {
			// a fresh instance of the same protocol configuration
			fresh, err := buildNode(in.Cfgs[r.Inst], h.nodes[r.Inst].digest, h.rcache, e%2 == 1)
			if err != nil {
				fatal(err)
			}
			fresh.rec.inner = llo.JSONReportCodec{} // real report bytes
			var ob []byte
			oerr, opanic, _ := protect(func() error {
				var e2 error
				ob, e2 = fresh.plugin.Outcome(ctx, outctx, nil, append([]types.AttributedObservation{}, aos...))
				return e2
			})
			key := fmt.Sprintf("%x", ob)
			if opanic {
				key = "panic"
			} else if oerr != nil {
				key = "error"
			}
			outs[key] = true
			if e == 0 && oerr == nil && !opanic {
				first = ob
			}
			st.Evals++
			if first != nil {
				rw, rerr := fresh.plugin.Reports(ctx, r.Seq, first)
				reps[digestReports(rw, rerr)] = true
			}
		}
		st.Rounds++
		if len(outs) > st.DistinctOutcomes {
			st.DistinctOutcomes = len(outs)
			st.Witness = append(st.Witness, fmt.Sprintf("round %d (seq %d): %d distinct Outcome results in %d evaluations", ri, r.Seq, len(outs), k))
		}
		if len(reps) > st.DistinctReports {
			st.DistinctReports = len(reps)
			st.Witness = append(st.Witness, fmt.Sprintf("round %d (seq %d): %d distinct Reports results in %d evaluations", ri, r.Seq, len(reps), k))
		}
		if first != nil && r.Prev == nil {
			h.state[r.Inst] = first
			// publish P's retirement report so that S can be promoted, as in the history projection
			if rw, err := p.Reports(ctx, r.Seq, first); err == nil {
				for _, x := range rw {
					if x.ReportWithInfo.Info.ReportFormat == llotypes.ReportFormatRetirement && r.Inst == 0 {
						h.rcache.publish(x.ReportWithInfo.Report)
					}
				}
			}
		}
	}
	coq := fmt.Sprintf("{| dc_evals := %s; dc_rounds := %s; dc_distinct_outcomes := %s; dc_distinct_reports := %s |}",
		coqNat(st.Evals), coqNat(st.Rounds), coqNat(st.DistinctOutcomes), coqNat(st.DistinctReports))
	return caseRec{Input: in, Output: st, Coq: coq, Tags: tags}
}

// histories that stress the order-sensitive spots: one stream under several aggregators, competing definitions
// with f+1 votes each, mode/type ties, many channels
func genDetHistory(r *rand.Rand) histIn {
	s := uint64(1e9)
	f := 1
	nobs := 4
	pver := uint32(r.Intn(2))
	iv := uint64(0)
	if pver == 1 {
		iv = 1
	}
	in := histIn{Cfgs: []instCfg{{F: f, N: 4, PVer: pver, Interval: iv}}}
	in.Rounds = append(in.Rounds, roundOf(0, 1, nobs, 0, nil))
	nch := 2 + r.Intn(20)
	defs := map[uint32]defDesc{}
	for c := 0; c < nch; c++ {
		d := defDesc{Fmt: 2}
		ns := 1 + r.Intn(4)
		for i := 0; i < ns; i++ {
			d.Streams = append(d.Streams, streamDesc{ID: uint32(1 + r.Intn(4)), Agg: uint32(1 + r.Intn(3))})
		}
		defs[uint32(1+r.Intn(40))] = d
	}
	ts := 1700000000 * s
	seq := uint64(2)
	// add the channels 5 at a time
	var ids []uint32
	for id := range defs {
		ids = append(ids, id)
	}
	for i := 0; i < len(ids); i += 5 {
		batch := map[uint32]defDesc{}
		for _, id := range ids[i:min(i+5, len(ids))] {
			batch[id] = defs[id]
		}
		competing := r.Intn(2) == 0
		in.Rounds = append(in.Rounds, roundOf(0, seq, nobs, ts, func(i int, o *obsIn) {
			o.Updates = map[uint32]defDesc{}
			for id, d := range batch {
				o.Updates[id] = d
				if competing && i >= 2 { // two definitions for one id, f+1 votes each
					d2 := d
					d2.Opts = []byte{1}
					o.Updates[id] = d2
				}
			}
			o.Values = detValues(r, i)
		}))
		seq++
		ts += uint64(r.Int63n(3e9))
	}
	for k := 0; k < 3; k++ {
		in.Rounds = append(in.Rounds, roundOf(0, seq, nobs, ts, func(i int, o *obsIn) { o.Values = detValues(r, i) }))
		seq++
		ts += uint64(1 + r.Int63n(3e9))
	}
	return in
}

// values with ties: equal counts of different types / serialisations, numerically equal decimals in
// different representations
func detValues(r *rand.Rand, i int) map[uint32]*svDesc {
	v := map[uint32]*svDesc{}
	for sid := uint32(1); sid <= 4; sid++ {
		switch (i + int(sid)) % 4 {
		case 0:
			v[sid] = decOf(10, -1)
		case 1:
			v[sid] = decOf(1, 0)
		case 2:
			v[sid] = genQuoteNear(r, 10000)
		default:
			v[sid] = &svDesc{T: "tsv", At: 1700000000e9 + uint64(r.Intn(3)), In: decOf(100, -2)}
		}
	}
	return v
}

const detHeader = "From DS Require Import Base CasesDet.\n"

func cmdDeterminism(seed int64, n int, out, replay, tier string) {
	k := 12
	if tier == "thorough" {
		k = 100
	}
	var cs []caseRec
	if replay != "" {
		for _, in := range loadReplayInputs[histIn](replay) {
			cs = append(cs, detCase(in, 50, "replay"))
		}
	} else {
		for _, d := range directedHistories() {
			if _, err := newHistRun(d.in.Cfgs); err != nil {
				continue // a configuration the factory refuses: nothing to evaluate repeatedly
			}
			cs = append(cs, detCase(d.in, 3*k, "directed", d.name))
		}
		r := rand.New(rand.NewSource(seed))
		for len(cs) < n {
			if r.Intn(2) == 0 {
				cs = append(cs, detCase(genDetHistory(r), k, "order-stress"))
			} else {
				cs = append(cs, detCase(genHistory(r, 10, 2), k, "random-history"))
			}
		}
	}
	if err := writeCases(out, "determinism", seed, detHeader, "det_case", "det_eval", cs); err != nil {
		fatal(err)
	}
}
