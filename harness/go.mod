module verifharness

go 1.24

toolchain go1.24.0

require (
	github.com/shopspring/decimal v1.4.0
	github.com/smartcontractkit/chainlink-common v0.4.2-0.20250130202959-6f1f48342e36
	github.com/smartcontractkit/chainlink-data-streams v0.0.0
	github.com/smartcontractkit/libocr v0.0.0-20250220133800-f3b940c4f298
	google.golang.org/grpc v1.70.0
	google.golang.org/protobuf v1.36.6
)

require (
	github.com/beorn7/perks v1.0.1 // indirect
	github.com/bits-and-blooms/bitset v1.17.0 // indirect
	github.com/cespare/xxhash/v2 v2.3.0 // indirect
	github.com/consensys/bavard v0.1.22 // indirect
	github.com/consensys/gnark-crypto v0.14.0 // indirect
	github.com/crate-crypto/go-ipa v0.0.0-20240724233137-53bbb0ceb27a // indirect
	github.com/crate-crypto/go-kzg-4844 v1.1.0 // indirect
	github.com/deckarep/golang-set/v2 v2.6.0 // indirect
	github.com/ethereum/go-ethereum v1.15.3 // indirect
	github.com/ethereum/go-verkle v0.2.2 // indirect
	github.com/fsnotify/fsnotify v1.7.0 // indirect
	github.com/go-logr/logr v1.4.2 // indirect
	github.com/go-logr/stdr v1.2.2 // indirect
	github.com/google/uuid v1.6.0 // indirect
	github.com/gorilla/websocket v1.5.3 // indirect
	github.com/holiman/uint256 v1.3.2 // indirect
	github.com/mmcloughlin/addchain v0.4.0 // indirect
	github.com/mr-tron/base58 v1.2.0 // indirect
	github.com/munnerz/goautoneg v0.0.0-20191010083416-a7dc8b61c822 // indirect
	github.com/pkg/errors v0.9.1 // indirect
	github.com/prometheus/client_golang v1.21.0 // indirect
	github.com/prometheus/client_model v0.6.1 // indirect
	github.com/prometheus/common v0.62.0 // indirect
	github.com/prometheus/procfs v0.15.1 // indirect
	github.com/shirou/gopsutil v3.21.11+incompatible // indirect
	github.com/tklauser/go-sysconf v0.3.12 // indirect
	github.com/tklauser/numcpus v0.6.1 // indirect
	go.opentelemetry.io/auto/sdk v1.1.0 // indirect
	go.opentelemetry.io/otel v1.34.0 // indirect
	go.opentelemetry.io/otel/metric v1.34.0 // indirect
	go.opentelemetry.io/otel/trace v1.34.0 // indirect
	go.uber.org/multierr v1.11.0 // indirect
	go.uber.org/zap v1.27.0 // indirect
	golang.org/x/crypto v0.33.0 // indirect
	golang.org/x/exp v0.0.0-20250218142911-aa4b98e5adaa // indirect
	golang.org/x/sync v0.11.0 // indirect
	golang.org/x/sys v0.30.0 // indirect
	rsc.io/tmplfunc v0.0.3 // indirect
)

replace github.com/smartcontractkit/chainlink-data-streams => /repo
