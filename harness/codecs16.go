package main

// `codecs16` projection (C16): observation codec (through a factory-built plugin), stream-value binary form,
// LLO off/on-chain config, Mercury on/off-chain config, int192 values, retirement report codec.

import (
	"bytes"
	"context"
	"fmt"
	"math/big"
	"math/rand"
	"reflect"
	"sort"

	"google.golang.org/protobuf/proto"

	llotypes "github.com/smartcontractkit/chainlink-common/pkg/types/llo"
	mercurytypes "github.com/smartcontractkit/chainlink-common/pkg/types/mercury"

	"github.com/smartcontractkit/chainlink-data-streams/llo"
	"github.com/smartcontractkit/chainlink-data-streams/mercury"
)

type c16In struct {
	Kind    string            `json:"kind"`
	Obs     *obsIn            `json:"obs,omitempty"`
	HasPred bool              `json:"has_pred,omitempty"`
	Raw     []byte            `json:"raw,omitempty"`
	Val     *svDesc           `json:"val,omitempty"`
	Type    int32             `json:"type,omitempty"`
	Ver     uint32            `json:"ver,omitempty"`
	Ival    uint64            `json:"interval,omitempty"`
	Z       string            `json:"z,omitempty"`
	VA      map[uint32]uint64 `json:"va,omitempty"`
}

func coqRawObs(ob llo.Observation) string {
	var rem []uint32
	for id := range ob.RemoveChannelIDs {
		rem = append(rem, id)
	}
	sort.Slice(rem, func(i, j int) bool { return rem[i] < rem[j] })
	var rs []string
	for _, id := range rem {
		rs = append(rs, fmt.Sprint(id))
	}
	var sids []uint32
	for id, v := range ob.StreamValues {
		if v != nil && !reflect.ValueOf(v).IsNil() {
			sids = append(sids, id)
		}
	}
	sort.Slice(sids, func(i, j int) bool { return sids[i] < sids[j] })
	var vs []string
	for _, id := range sids {
		vs = append(vs, fmt.Sprintf("(%d, %s)", id, descOfValue(ob.StreamValues[id]).coqVal()))
	}
	return fmt.Sprintf("{| ro_att := %s; ro_retire := %s; ro_ts := %s; ro_removes := %s; ro_updates := %s; ro_values := (list_to_map %s) |}",
		coqHex(ob.AttestedPredecessorRetirement), coqBool(ob.ShouldRetire), coqZu(ob.UnixTimestampNanoseconds), coqList(rs),
		coqDefs(ob.UpdateChannelDefinitions), coqList(vs))
}

var c16Nodes = map[bool]*node{}

func c16Plugin(hasPred bool) *llo.Plugin {
	if n, ok := c16Nodes[hasPred]; ok {
		return n.plugin
	}
	n, err := buildNode(instCfg{F: 1, N: 4, PVer: 1, Interval: 1, HasPred: hasPred}, predDigest, newMockRetirementCache(), false)
	if err != nil {
		fatal(err)
	}
	c16Nodes[hasPred] = n
	return n.plugin
}

func resTerm(ok string, err error, panicked bool) string {
	switch {
	case panicked:
		return "(Panic 0)"
	case err != nil:
		return "(Err EOther)"
	}
	return "(Ok " + ok + ")"
}

func c16Case(in c16In, tags ...string) caseRec {
	rec := map[string]any{}
	var coq string
	switch in.Kind {
	case "obs", "obsraw":
		p := c16Plugin(in.HasPred)
		raw := in.Raw
		inTerm := "None"
		if in.Kind == "obs" {
			ob := in.Obs.observation(newMockRetirementCache())
			var err error
			raw, err = p.ObservationCodec.Encode(ob)
			if err != nil {
				rec["encode_error"] = err.Error()
			}
			inTerm = "(Some " + coqRawObs(ob) + ")"
		}
		var dec llo.Observation
		de, dp, _ := protect(func() error { var e error; dec, e = p.ObservationCodec.Decode(raw); return e })
		validTerm := "None"
		for _, v := range dec.StreamValues {
			if malformedValue(v) {
				dp = true // reported as a malformed result: (Panic 0)
			}
		}
		if de == nil && !dp {
			ve, vp, _ := protect(func() error {
				return p.ValidateObservation(context.Background(), ocrCtx(5), nil, ocrAO(raw))
			})
			if !vp {
				validTerm = "(Some " + coqBool(ve == nil) + ")"
			}
		}
		// ValidateObservation as a whole, from the bytes, at the sequence numbers that matter (0: refused, 1: must be empty, later)
		var vs []string
		for _, seq := range []uint64{0, 1, 2} {
			ve, vp, _ := protect(func() error { return p.ValidateObservation(context.Background(), ocrCtx(seq), nil, ocrAO(raw)) })
			switch {
			case vp:
				vs = append(vs, "(Panic 0)")
			case ve != nil:
				vs = append(vs, "(Err EOther)")
			default:
				vs = append(vs, "(Ok tt)")
			}
		}
		coq = fmt.Sprintf("(KObs %s %s %s %s %s %s)", inTerm, coqHex(raw), resTerm(coqRawObs(dec), de, dp), validTerm, coqBool(in.HasPred), coqList(vs))
	case "sval":
		v := in.Val.value()
		var b []byte
		me, mp, _ := protect(func() error { var e error; b, e = v.MarshalBinary(); return e })
		var back llo.StreamValue
		var ue error
		up := false
		if me == nil && !mp {
			ue, up, _ = protect(func() error {
				var e error
				back, e = llo.UnmarshalProtoStreamValue(&llo.LLOStreamValue{Type: v.Type(), Value: b})
				return e
			})
		} else {
			ue = me
		}
		decTerm := "(Err EOther)"
		if ue == nil && !up && back != nil && malformedValue(back) {
			decTerm = "(Panic 0)"
		} else if ue == nil && !up && back != nil {
			decTerm = "(Ok " + descOfValue(back).coqVal() + ")"
		} else if up {
			decTerm = "(Panic 0)"
		}
		coq = fmt.Sprintf("(KSval %s %s %s)", in.Val.coqVal(), resTerm(coqHex(b), me, mp), decTerm)
	case "svalraw":
		var back llo.StreamValue
		ue, up, _ := protect(func() error {
			var e error
			back, e = llo.UnmarshalProtoStreamValue(&llo.LLOStreamValue{Type: llo.LLOStreamValue_Type(in.Type), Value: in.Raw})
			return e
		})
		decTerm := "(Err EOther)"
		if up || (ue == nil && malformedValue(back)) {
			decTerm = "(Panic 0)"
		} else if ue == nil {
			decTerm = "(Ok " + descOfValue(back).coqVal() + ")"
		}
		coq = fmt.Sprintf("(KSvalRaw %s %s %s)", coqZ(new(big.Int).SetUint64(uint64(uint32(in.Type)))), coqHex(in.Raw), decTerm)
	case "offchain":
		b, _ := llo.OffchainConfig{ProtocolVersion: in.Ver, DefaultMinReportIntervalNanoseconds: in.Ival}.Encode()
		var dec llo.OffchainConfig
		de, dp, _ := protect(func() error { var e error; dec, e = llo.DecodeOffchainConfig(b); return e })
		coq = fmt.Sprintf("(KOffchain {| oc_version := %d; oc_min_interval := %s |} %s %s)", in.Ver, coqZu(in.Ival), coqHex(b),
			resTerm(fmt.Sprintf("{| oc_version := %d; oc_min_interval := %s |}", dec.ProtocolVersion, coqZu(dec.DefaultMinReportIntervalNanoseconds)), de, dp))
	case "offchainraw":
		var dec llo.OffchainConfig
		de, dp, _ := protect(func() error { var e error; dec, e = llo.DecodeOffchainConfig(in.Raw); return e })
		coq = fmt.Sprintf("(KOffchainRaw %s %s)", coqHex(in.Raw),
			resTerm(fmt.Sprintf("{| oc_version := %d; oc_min_interval := %s |}", dec.ProtocolVersion, coqZu(dec.DefaultMinReportIntervalNanoseconds)), de, dp))
	case "lloonchain":
		var dec llo.OnchainConfig
		de, dp, _ := protect(func() error { var e error; dec, e = llo.EVMOnchainConfigCodec{}.Decode(in.Raw); return e })
		pred := "None"
		if dec.PredecessorConfigDigest != nil {
			pred = "(Some " + coqHex(dec.PredecessorConfigDigest[:]) + ")"
		}
		reTerm := "(Err EOther)"
		if de == nil && !dp {
			re, e := llo.EVMOnchainConfigCodec{}.Encode(dec)
			reTerm = resTerm(coqHex(re), e, false)
		}
		coq = fmt.Sprintf("(KLloOnchain %s %s %s)", coqHex(in.Raw), resTerm("{| lo_pred := "+pred+" |}", de, dp), reTerm)
	case "merconchain":
		var dec mercurytypes.OnchainConfig
		de, dp, _ := protect(func() error {
			var e error
			dec, e = mercury.StandardOnchainConfigCodec{}.Decode(context.Background(), in.Raw)
			return e
		})
		reTerm := "(Err EOther)"
		decOk := ""
		if de == nil && !dp {
			decOk = fmt.Sprintf("{| mo_min := %s; mo_max := %s |}", coqZ(dec.Min), coqZ(dec.Max))
			re, e := mercury.StandardOnchainConfigCodec{}.Encode(context.Background(), dec)
			reTerm = resTerm(coqHex(re), e, false)
		}
		coq = fmt.Sprintf("(KMercOnchain %s %s %s)", coqHex(in.Raw), resTerm(decOk, de, dp), reTerm)
	case "int192":
		v := bigOf(in.Z)
		var b []byte
		ee, ep, _ := protect(func() error { var e error; b, e = mercury.EncodeValueInt192(v); return e })
		decTerm := "(Err EOther)"
		if ee == nil && !ep {
			d, e := mercury.DecodeValueInt192(b)
			if e == nil {
				decTerm = "(Ok " + coqZ(d) + ")"
			}
		}
		coq = fmt.Sprintf("(KInt192 %s %s %s)", coqZ(v), resTerm(coqHex(b), ee, ep), decTerm)
	case "int192raw":
		var d *big.Int
		de, dp, _ := protect(func() error { var e error; d, e = mercury.DecodeValueInt192(in.Raw); return e })
		ok := ""
		if de == nil && !dp {
			ok = coqZ(d)
		}
		coq = fmt.Sprintf("(KInt192Raw %s %s)", coqHex(in.Raw), resTerm(ok, de, dp))
	case "retirement":
		rr := llo.RetirementReport{ProtocolVersion: in.Ver, ValidAfterNanoseconds: in.VA}
		b, e1 := llo.StandardRetirementReportCodec{}.Encode(rr)
		back, e2 := llo.StandardRetirementReportCodec{}.Decode(b)
		ok := e1 == nil && e2 == nil && back.ProtocolVersion == rr.ProtocolVersion && len(back.ValidAfterNanoseconds) == len(rr.ValidAfterNanoseconds)
		for k, v := range rr.ValidAfterNanoseconds {
			if back.ValidAfterNanoseconds[k] != v {
				ok = false
			}
		}
		_ = ok
		vaTerm := func(m map[uint32]uint64) string {
			if m == nil {
				return "None"
			}
			var ks []uint32
			for k := range m {
				ks = append(ks, k)
			}
			sort.Slice(ks, func(i, j int) bool { return ks[i] < ks[j] })
			var xs []string
			for _, k := range ks {
				xs = append(xs, fmt.Sprintf("(%d, %s)", k, coqZu(m[k])))
			}
			return "(Some (list_to_map " + coqList(xs) + "))"
		}
		decTerm := "None"
		if e2 == nil {
			decTerm = fmt.Sprintf("(Some (%d, %s))", back.ProtocolVersion, vaTerm(back.ValidAfterNanoseconds))
		}
		encTerm := "None"
		if e1 == nil {
			encTerm = "(Some " + coqHex(b) + ")"
		}
		coq = fmt.Sprintf("(KRetire %d %s %s %s)", in.Ver, vaTerm(in.VA), encTerm, decTerm)
	case "mercoffchain":
		oc := mercury.OffchainConfig{ExpirationWindow: in.Ver, BaseUSDFee: in.Val.D.decimal()}
		b, e1 := oc.Encode()
		back, e2 := mercury.DecodeOffchainConfig(b)
		ok := e1 == nil && e2 == nil && back.ExpirationWindow == oc.ExpirationWindow && back.BaseUSDFee.String() == oc.BaseUSDFee.String() // same number (negative zero has no JSON form)
		_ = ok
		encTerm, decTerm := "None", "None"
		if e1 == nil {
			encTerm = "(Some " + coqHex(b) + ")"
		}
		if e2 == nil {
			decTerm = fmt.Sprintf("(Some (%d, %s))", back.ExpirationWindow, descOfDecimal(back.BaseUSDFee).coq())
		}
		coq = fmt.Sprintf("(KMercOff %d %s %s %s)", in.Ver, in.Val.D.coq(), encTerm, decTerm)
	}
	return caseRec{Input: in, Output: rec, Coq: coq, Tags: append(tags, in.Kind)}
}

func genObsIn(r *rand.Rand) *obsIn {
	o := &obsIn{Honest: true, Scripted: true, Ts: randU64(r), Retire: r.Intn(2) == 0}
	if r.Intn(4) == 0 {
		o.Att = "bad"
	}
	for k := r.Intn(7); k > 0; k-- {
		o.Removes = appendUnique(o.Removes, randU32(r))
	}
	if r.Intn(2) == 0 {
		o.Updates = map[uint32]defDesc{}
		for k := r.Intn(7); k > 0; k-- {
			d := defDesc{Fmt: randU32(r)}
			for j := r.Intn(4); j > 0; j-- {
				d.Streams = append(d.Streams, streamDesc{ID: randU32(r), Agg: uint32(r.Intn(4))})
			}
			if r.Intn(2) == 0 {
				d.Opts = randBytes(r, 1+r.Intn(4))
			}
			o.Updates[randU32(r)] = d
		}
	}
	o.Values = map[uint32]*svDesc{}
	for k := r.Intn(8); k > 0; k-- {
		v := genWild(r, 0)
		if v.T == "nil" {
			continue
		}
		o.Values[randU32(r)] = v
	}
	return o
}

func genMutatedObsMsg(r *rand.Rand) []byte {
	m := &llo.LLOObservationProto{ShouldRetire: r.Intn(2) == 0}
	switch r.Intn(4) {
	case 0:
		m.UnixTimestampNanosecondsLegacy = -1 - r.Int63n(1000) // negative legacy timestamp, new field unset
	case 1:
		m.UnixTimestampNanosecondsLegacy = r.Int63()
	case 2:
		m.UnixTimestampNanoseconds = randU64(r)
		m.UnixTimestampNanosecondsLegacy = -5
	default:
		m.UnixTimestampNanoseconds = randU64(r)
	}
	for k := r.Intn(5); k > 0; k-- {
		m.RemoveChannelIDs = append(m.RemoveChannelIDs, uint32(r.Intn(4))) // duplicates likely
	}
	if r.Intn(2) == 0 {
		m.StreamValues = map[uint32]*llo.LLOStreamValue{}
		for k := 1 + r.Intn(3); k > 0; k-- {
			switch r.Intn(6) {
			case 0:
				m.StreamValues[uint32(k)] = nil
			case 1:
				m.StreamValues[uint32(k)] = &llo.LLOStreamValue{Type: llo.LLOStreamValue_Type(3 + r.Intn(4)), Value: randBytes(r, 6)}
			case 2:
				m.StreamValues[uint32(k)] = &llo.LLOStreamValue{Type: llo.LLOStreamValue_Type(-1), Value: randBytes(r, 6)}
			case 3:
				m.StreamValues[uint32(k)] = &llo.LLOStreamValue{Type: llo.LLOStreamValue_TimestampedStreamValue, Value: randBytes(r, r.Intn(3))}
			case 4: // timestamped value without inner value
				b, _ := proto.Marshal(&llo.LLOTimestampedStreamValue{ObservedAtNanoseconds: 7})
				m.StreamValues[uint32(k)] = &llo.LLOStreamValue{Type: llo.LLOStreamValue_TimestampedStreamValue, Value: b}
			default:
				v := genWild(r, 0)
				if v.T == "nil" {
					v = decOf(1, 0)
				}
				b, _ := v.value().MarshalBinary()
				m.StreamValues[uint32(k)] = &llo.LLOStreamValue{Type: v.value().Type(), Value: b}
			}
		}
	}
	if r.Intn(3) == 0 {
		m.UpdateChannelDefinitions = map[uint32]*llo.LLOChannelDefinitionProto{uint32(r.Intn(3)): nil, 9: {ReportFormat: 2, Streams: []*llo.LLOStreamDefinition{nil, {StreamID: 1, Aggregator: 1}}}}
	}
	b, _ := proto.Marshal(m)
	return b
}

func word(v *big.Int) []byte {
	m := new(big.Int).Mod(v, new(big.Int).Lsh(big.NewInt(1), 256))
	return m.FillBytes(make([]byte, 32))
}

const c16Header = "From stdpp Require Import gmap.\nFrom DS Require Import Base Decimal StreamValue Aggregators Outcome OutcomeCodec Observe ObservationCodec Config RetirementJson CasesCodec16.\n"

func cmdCodecs16(seed int64, n int, out, replay, tier string) {
	var cs []caseRec
	if replay != "" {
		for _, in := range loadReplayInputs[c16In](replay) {
			cs = append(cs, c16Case(in, "replay"))
		}
	} else {
		r := rand.New(rand.NewSource(seed))
		// directed: the D5 witnesses and boundary configurations
		for _, c := range [][2]uint64{{0, 0}, {0, 1}, {1, 0}, {1, 1}, {7, 3}, {2, 0}, {1, ^uint64(0)}, {4294967295, 1}} {
			cs = append(cs, c16Case(c16In{Kind: "offchain", Ver: uint32(c[0]), Ival: c[1]}, "directed"))
		}
		for _, z := range []string{"0", "-1", "3138550867693340381917894711603833208051177722232017256447", "3138550867693340381917894711603833208051177722232017256448",
			"-3138550867693340381917894711603833208051177722232017256448", "-3138550867693340381917894711603833208051177722232017256449"} {
			cs = append(cs, c16Case(c16In{Kind: "int192", Z: z}, "directed"))
		}
		one := big.NewInt(1)
		cs = append(cs, c16Case(c16In{Kind: "merconchain", Raw: append(append(word(one), word(big.NewInt(5))...), word(big.NewInt(4))...)}, "directed")) // min > max
		cs = append(cs, c16Case(c16In{Kind: "merconchain", Raw: append(append(word(big.NewInt(2)), word(big.NewInt(1))...), word(big.NewInt(4))...)}, "directed"))
		cs = append(cs, c16Case(c16In{Kind: "lloonchain", Raw: append(word(new(big.Int).Add(new(big.Int).Lsh(one, 64), one)), make([]byte, 32)...)}, "directed")) // version 2^64+1
		cs = append(cs, c16Case(c16In{Kind: "lloonchain", Raw: append(word(big.NewInt(-1)), make([]byte, 32)...)}, "directed"))
		for len(cs) < n {
			switch r.Intn(12) {
			case 0, 1, 2:
				cs = append(cs, c16Case(c16In{Kind: "obs", Obs: genObsIn(r), HasPred: r.Intn(2) == 0}, "structured"))
			case 3:
				cs = append(cs, c16Case(c16In{Kind: "obsraw", Raw: genMutatedObsMsg(r), HasPred: r.Intn(2) == 0}, "mutated-message"))
				if r.Intn(2) == 0 { // raw byte damage: bit flips, truncation, duplicated spans, unknown-field groups
					cs = append(cs, c16Case(c16In{Kind: "obsraw", Raw: flipBytes(r, genMutatedObsMsg(r)), HasPred: r.Intn(2) == 0}, "damaged-bytes"))
				}
			case 4, 5:
				v := genWild(r, 0)
				if v.T == "nil" {
					continue
				}
				cs = append(cs, c16Case(c16In{Kind: "sval", Val: v}, "structured"))
			case 6:
				t := int32(r.Intn(4))
				if r.Intn(4) == 0 {
					t = -1 - int32(r.Intn(3))
				}
				var raw []byte
				if r.Intn(2) == 0 {
					v := genWild(r, 0)
					if v.T != "nil" {
						raw, _ = v.value().MarshalBinary()
						if r.Intn(2) == 0 && len(raw) > 0 {
							raw = raw[:r.Intn(len(raw))]
						}
					}
				} else {
					raw = randBytes(r, r.Intn(12))
				}
				cs = append(cs, c16Case(c16In{Kind: "svalraw", Type: t, Raw: raw}, "malformed"))
			case 7:
				cs = append(cs, c16Case(c16In{Kind: "offchain", Ver: uint32(r.Intn(3)), Ival: randU64(r) * uint64(r.Intn(2))}, "structured"))
				cs = append(cs, c16Case(c16In{Kind: "offchainraw", Raw: randBytes(r, r.Intn(10))}, "malformed"))
			case 8:
				ver := big.NewInt(1)
				if r.Intn(4) == 0 {
					ver = randBig(r, 255)
				}
				raw := append(word(ver), randBytes(r, 32*r.Intn(2)+32*r.Intn(2))...)
				if r.Intn(3) == 0 {
					raw = append(word(ver), make([]byte, 32)...)
				}
				cs = append(cs, c16Case(c16In{Kind: "lloonchain", Raw: raw}, "structured"))
			case 9:
				ver := big.NewInt(1)
				if r.Intn(5) == 0 {
					ver = randBig(r, 255)
				}
				a, b := randBig(r, 200), randBig(r, 200)
				if r.Intn(3) != 0 && a.Cmp(b) > 0 {
					a, b = b, a
				}
				raw := append(append(word(ver), word(a)...), word(b)...)
				if r.Intn(8) == 0 {
					raw = raw[:len(raw)-1-r.Intn(40)]
				}
				cs = append(cs, c16Case(c16In{Kind: "merconchain", Raw: raw}, "structured"))
			case 10:
				cs = append(cs, c16Case(c16In{Kind: "int192", Z: randBig(r, 195).String()}, "structured"))
				cs = append(cs, c16Case(c16In{Kind: "int192raw", Raw: randBytes(r, 20+r.Intn(9))}, "malformed"))
			default:
				va := map[uint32]uint64{}
				for k := r.Intn(6); k > 0; k-- {
					if r.Intn(2) == 0 {
						va[uint32(r.Intn(120))] = randU64(r) // small ids of different lengths: "10" sorts before "2"
					} else {
						va[randU32(r)] = randU64(r)
					}
				}
				if r.Intn(6) == 0 {
					va = nil
				}
				cs = append(cs, c16Case(c16In{Kind: "retirement", Ver: []uint32{0, 1, 1, randU32(r)}[r.Intn(4)], VA: va}, "structured"))
				d := genDecWild(r)
				cs = append(cs, c16Case(c16In{Kind: "mercoffchain", Ver: randU32(r), Val: &svDesc{T: "dec", D: &d}}, "structured"))
			}
		}
	}
	if err := writeCasesSharded(out, "codecs16", seed, c16Header, "c16_case", "c16_eval", cs, 200); err != nil {
		fatal(err)
	}
}

var _ = bytes.Equal
var _ = llotypes.ChannelDefinition{}
