package main

// Projection `cost` (C19): CPU time and allocated bytes of the plugin callbacks on adversarial inputs of known size.
// Every measurement runs on one goroutine after a GC; allocated bytes (runtime.MemStats.TotalAlloc delta) are the
// primary, noise-free signal; time is compared against a generous bound and re-measured once before being reported.

import (
	"context"
	"encoding/binary"
	"encoding/json"
	"fmt"
	"math/big"
	"os"
	"runtime"
	"time"

	llotypes "github.com/smartcontractkit/chainlink-common/pkg/types/llo"
	"github.com/smartcontractkit/libocr/commontypes"
	"github.com/smartcontractkit/libocr/offchainreporting2plus/ocr3types"
	"github.com/smartcontractkit/libocr/offchainreporting2plus/types"
	"google.golang.org/protobuf/encoding/protowire"

	"github.com/smartcontractkit/chainlink-common/pkg/logger"

	"github.com/smartcontractkit/chainlink-data-streams/llo"
	"github.com/smartcontractkit/chainlink-data-streams/llo/reportcodecs/evm"
)

type costIn struct {
	Kind string `json:"kind"`
	N    int    `json:"n"`
	Exp  int32  `json:"exp,omitempty"`
}

type costOut struct {
	Size  int   `json:"input_bytes"`
	Alloc int64 `json:"alloc_bytes"`
	CPUus int64 `json:"cpu_us"`
	Err   bool  `json:"returned_error"`
	Panic bool  `json:"panicked"`
}

func measure(f func() error) (alloc int64, us int64, err error, panicked bool) {
	best := int64(-1)
	for try := 0; try < 2; try++ {
		runtime.GC()
		var m0, m1 runtime.MemStats
		runtime.ReadMemStats(&m0)
		t0 := time.Now()
		err, panicked, _ = protect(f)
		d := time.Since(t0).Microseconds()
		runtime.ReadMemStats(&m1)
		alloc = int64(m1.TotalAlloc - m0.TotalAlloc)
		if best < 0 || d < best {
			best = d
		}
		if d < 200000 { // fast enough: no need for a second sample
			break
		}
	}
	return alloc, best, err, panicked
}

// n-fold nested timestamped value, built from the inside out with the final size known in advance
func nestedTSV(depth int) []byte {
	dec := []byte{0, 0, 0, 0, 2, 7} // decimal 7
	// LLOStreamValue{type=0, value=dec}
	inner := protowire.AppendBytes(protowire.AppendTag(nil, 2, protowire.BytesType), dec)
	for i := 0; i < depth; i++ {
		// LLOTimestampedStreamValue{observedAt=1, streamValue=inner}
		tsv := protowire.AppendVarint(protowire.AppendTag(nil, 1, protowire.VarintType), 1)
		tsv = protowire.AppendBytes(protowire.AppendTag(tsv, 2, protowire.BytesType), inner)
		// LLOStreamValue{type=2, value=tsv}
		sv := protowire.AppendVarint(protowire.AppendTag(nil, 1, protowire.VarintType), 2)
		inner = protowire.AppendBytes(protowire.AppendTag(sv, 2, protowire.BytesType), tsv)
	}
	return inner // an LLOStreamValue message body
}

func obsWithRawValue(sv []byte) []byte {
	// LLOObservationProto{unixTimestampNanoseconds(7)=5, streamValues(6)={1: sv}}
	entry := protowire.AppendVarint(protowire.AppendTag(nil, 1, protowire.VarintType), 1)
	entry = protowire.AppendBytes(protowire.AppendTag(entry, 2, protowire.BytesType), sv)
	ob := protowire.AppendVarint(protowire.AppendTag(nil, 7, protowire.VarintType), 5)
	return protowire.AppendBytes(protowire.AppendTag(ob, 6, protowire.BytesType), entry)
}

func decWithExp(coef int64, exp int32) *llo.Decimal {
	b := make([]byte, 4)
	binary.BigEndian.PutUint32(b, uint32(exp))
	b = append(b, 2)
	b = append(b, big.NewInt(coef).Bytes()...)
	var d llo.Decimal
	if err := d.UnmarshalBinary(b); err != nil {
		panic(err)
	}
	return &d
}

func costCase(in costIn, tags ...string) caseRec {
	ctx := context.Background()
	cfg := instCfg{F: 1, N: 4, PVer: 1, Interval: 1}
	n := npNode(cfg, false, false)
	var out costOut
	run := func(size int, f func() error) {
		out.Size = size
		var err error
		out.Alloc, out.CPUus, err, out.Panic = measure(f)
		out.Err = err != nil
	}
	validate := func(raw []byte) {
		run(len(raw), func() error {
			return n.plugin.ValidateObservation(ctx, ocr3types.OutcomeContext{SeqNr: 3}, nil, ocrAO(raw))
		})
	}
	switch in.Kind {
	case "nested-tsv": // D7
		validate(obsWithRawValue(nestedTSV(in.N)))
	case "many-values":
		ob := llo.Observation{UnixTimestampNanoseconds: 5, StreamValues: llo.StreamValues{}}
		for i := 0; i < in.N; i++ {
			ob.StreamValues[uint32(i)] = decWithExp(int64(1000+i), -2)
		}
		raw, _ := n.plugin.ObservationCodec.Encode(ob)
		validate(raw)
	case "zero-aggregators": // B9
		ob := llo.Observation{UnixTimestampNanoseconds: 5, UpdateChannelDefinitions: llotypes.ChannelDefinitions{}}
		for c := uint32(1); c <= 5; c++ {
			d := llotypes.ChannelDefinition{ReportFormat: 2}
			for i := 0; i < in.N; i++ {
				d.Streams = append(d.Streams, llotypes.Stream{StreamID: uint32(i)})
			}
			ob.UpdateChannelDefinitions[c] = d
		}
		raw, _ := n.plugin.ObservationCodec.Encode(ob)
		validate(raw)
	case "many-streams-valid":
		ob := llo.Observation{UnixTimestampNanoseconds: 5, UpdateChannelDefinitions: llotypes.ChannelDefinitions{}}
		for c := uint32(1); c <= 5; c++ {
			d := llotypes.ChannelDefinition{ReportFormat: 2}
			for i := 0; i < in.N; i++ {
				d.Streams = append(d.Streams, llotypes.Stream{StreamID: uint32(i), Aggregator: llotypes.AggregatorMedian})
			}
			ob.UpdateChannelDefinitions[c] = d
		}
		raw, _ := n.plugin.ObservationCodec.Encode(ob)
		validate(raw)
	case "many-removes": // k distinct channel ids to remove (validation only accepts 5, after decoding)
		var packed []byte
		for i := 0; i < in.N; i++ {
			packed = protowire.AppendVarint(packed, uint64(i+1))
		}
		ob := protowire.AppendVarint(protowire.AppendTag(nil, 7, protowire.VarintType), 5)
		ob = protowire.AppendBytes(protowire.AppendTag(ob, 4, protowire.BytesType), packed)
		validate(ob)
	case "shared-stream": // N channels all reading one stream whose observed values are long
		mag := make([]byte, 100000)
		for i := range mag {
			mag[i] = byte(1 + i%250)
		}
		var d llo.Decimal
		if err := d.UnmarshalBinary(append([]byte{0xff, 0xff, 0xff, 0xf6, 2}, mag...)); err != nil {
			panic(err)
		}
		var aos []types.AttributedObservation
		size := 0
		for i := 0; i < 3; i++ {
			raw, _ := n.plugin.ObservationCodec.Encode(llo.Observation{UnixTimestampNanoseconds: 1700000000e9, StreamValues: llo.StreamValues{1: &d}})
			size += len(raw)
			aos = append(aos, types.AttributedObservation{Observation: raw, Observer: commontypes.OracleID(i)})
		}
		defs := llotypes.ChannelDefinitions{}
		va := map[llotypes.ChannelID]uint64{}
		for c := 1; c <= in.N; c++ {
			defs[uint32(c)] = llotypes.ChannelDefinition{ReportFormat: 99, Streams: []llotypes.Stream{{StreamID: 1, Aggregator: llotypes.AggregatorMode}}}
			va[uint32(c)] = 1699999998e9
		}
		prev, _ := n.plugin.OutcomeCodec.Encode(llo.Outcome{LifeCycleStage: "production", ObservationTimestampNanoseconds: 1699999999e9, ChannelDefinitions: defs, ValidAfterNanoseconds: va})
		run(size+len(prev), func() error {
			_, err := n.plugin.Outcome(ctx, ocr3types.OutcomeContext{SeqNr: 5, PreviousOutcome: prev}, nil, aos)
			return err
		})
	case "random-bytes":
		raw := make([]byte, in.N)
		for i := range raw {
			raw[i] = byte(i*131 + 7)
		}
		validate(raw)
	case "long-digits": // a decimal with an N-byte coefficient, through Outcome (sorting) and the JSON codec (String)
		mag := make([]byte, in.N)
		for i := range mag {
			mag[i] = byte(1 + i%250)
		}
		b := append([]byte{0xff, 0xff, 0xff, 0xf6, 2}, mag...) // exponent -10
		var d llo.Decimal
		if err := d.UnmarshalBinary(b); err != nil {
			panic(err)
		}
		var aos []types.AttributedObservation
		size := 0
		for i := 0; i < 3; i++ {
			raw, _ := n.plugin.ObservationCodec.Encode(llo.Observation{UnixTimestampNanoseconds: 1700000000e9, StreamValues: llo.StreamValues{1: &d, 2: decWithExp(int64(5+i), 0)}})
			size += len(raw)
			aos = append(aos, types.AttributedObservation{Observation: raw, Observer: commontypes.OracleID(i)})
		}
		prev, _ := n.plugin.OutcomeCodec.Encode(llo.Outcome{LifeCycleStage: "production", ObservationTimestampNanoseconds: 1699999999e9,
			ChannelDefinitions:    llotypes.ChannelDefinitions{1: {ReportFormat: llotypes.ReportFormatJSON, Streams: []llotypes.Stream{{StreamID: 1, Aggregator: llotypes.AggregatorMedian}, {StreamID: 2, Aggregator: llotypes.AggregatorMedian}}}},
			ValidAfterNanoseconds: map[llotypes.ChannelID]uint64{1: 1699999998e9}})
		run(size+len(prev), func() error {
			o, err := n.plugin.Outcome(ctx, ocr3types.OutcomeContext{SeqNr: 5, PreviousOutcome: prev}, nil, aos)
			if err != nil {
				return err
			}
			rep := llo.Report{SeqNr: 5, ChannelID: 1, Values: []llo.StreamValue{&d}}
			if _, err := (llo.JSONReportCodec{}).Encode(rep, llotypes.ChannelDefinition{}); err != nil {
				return err
			}
			_, err = n.plugin.Reports(ctx, 5, o)
			return err
		})
	case "outcome-many-streams":
		var aos []types.AttributedObservation
		size := 0
		for i := 0; i < 3; i++ {
			ob := llo.Observation{UnixTimestampNanoseconds: 1700000000e9, StreamValues: llo.StreamValues{}}
			for s := 0; s < in.N; s++ {
				ob.StreamValues[uint32(s)] = decWithExp(int64(1000+s+i), -2)
			}
			raw, _ := n.plugin.ObservationCodec.Encode(ob)
			size += len(raw)
			aos = append(aos, types.AttributedObservation{Observation: raw, Observer: commontypes.OracleID(i)})
		}
		d := llotypes.ChannelDefinition{ReportFormat: llotypes.ReportFormatJSON}
		for s := 0; s < in.N; s++ {
			d.Streams = append(d.Streams, llotypes.Stream{StreamID: uint32(s), Aggregator: llotypes.AggregatorMedian})
		}
		prev, _ := n.plugin.OutcomeCodec.Encode(llo.Outcome{LifeCycleStage: "production", ObservationTimestampNanoseconds: 1699999999e9,
			ChannelDefinitions: llotypes.ChannelDefinitions{1: d}, ValidAfterNanoseconds: map[llotypes.ChannelID]uint64{1: 1699999998e9}})
		run(size+len(prev), func() error {
			o, err := n.plugin.Outcome(ctx, ocr3types.OutcomeContext{SeqNr: 5, PreviousOutcome: prev}, nil, aos)
			if err != nil {
				return err
			}
			_, err = n.plugin.Reports(ctx, 5, o)
			return err
		})
	case "extreme-scale-median": // F2 (stand-in exponent; the real bound is -2^31)
		var aos []types.AttributedObservation
		size := 0
		for i := 0; i < 3; i++ {
			v := decWithExp(1, in.Exp)
			if i == 0 {
				v = decWithExp(1, 0)
			}
			raw, _ := n.plugin.ObservationCodec.Encode(llo.Observation{UnixTimestampNanoseconds: 1700000000e9, StreamValues: llo.StreamValues{1: v}})
			size += len(raw)
			aos = append(aos, types.AttributedObservation{Observation: raw, Observer: commontypes.OracleID(i)})
		}
		prev, _ := n.plugin.OutcomeCodec.Encode(llo.Outcome{LifeCycleStage: "production", ObservationTimestampNanoseconds: 1699999999e9,
			ChannelDefinitions: llotypes.ChannelDefinitions{1: {ReportFormat: llotypes.ReportFormatJSON, Streams: []llotypes.Stream{{StreamID: 1, Aggregator: llotypes.AggregatorMedian}}}}})
		run(size+len(prev), func() error {
			_, err := n.plugin.Outcome(ctx, ocr3types.OutcomeContext{SeqNr: 5, PreviousOutcome: prev}, nil, aos)
			return err
		})
	case "extreme-scale-evm": // F2 in the report codecs: BigInt materialises 10^scale
		cd := llotypes.ChannelDefinition{ReportFormat: llotypes.ReportFormatEVMABIEncodeUnpacked,
			Opts:    []byte(`{"baseUSDFee":"1","expirationWindow":5,"feedID":"0x1111111111111111111111111111111111111111111111111111111111111111","abi":[{"type":"int192"}]}`),
			Streams: []llotypes.Stream{{StreamID: 1}, {StreamID: 2}, {StreamID: 3}}}
		rep := llo.Report{SeqNr: 5, ChannelID: 1, ValidAfterNanoseconds: 1700000000e9, ObservationTimestampNanoseconds: 1700000001e9,
			Values: []llo.StreamValue{decWithExp(1, 0), decWithExp(1, 0), decWithExp(1, in.Exp)}}
		c := evm.NewReportCodecEVMABIEncodeUnpacked(logger.Nop(), 1)
		run(40+len(cd.Opts), func() error { _, err := c.Encode(rep, cd); return err })
	case "unencodable-values": // B9, second site: buildPayload
		nv := in.N
		abi := "["
		cd := llotypes.ChannelDefinition{ReportFormat: llotypes.ReportFormatEVMABIEncodeUnpacked, Streams: []llotypes.Stream{{StreamID: 1}, {StreamID: 2}}}
		rep := llo.Report{SeqNr: 5, ChannelID: 1, ValidAfterNanoseconds: 1700000000e9, ObservationTimestampNanoseconds: 1700000001e9,
			Values: []llo.StreamValue{decWithExp(1, 0), decWithExp(1, 0)}}
		for i := 0; i < nv; i++ {
			if i > 0 {
				abi += ","
			}
			abi += `{"type":"uint8"}`
			rep.Values = append(rep.Values, decWithExp(300, 0)) // does not fit uint8
			cd.Streams = append(cd.Streams, llotypes.Stream{StreamID: uint32(3 + i)})
		}
		cd.Opts = []byte(`{"baseUSDFee":"1","expirationWindow":5,"feedID":"0x1111111111111111111111111111111111111111111111111111111111111111","abi":` + abi + `]}`)
		c := evm.NewReportCodecEVMABIEncodeUnpacked(logger.Nop(), 1)
		run(len(cd.Opts)+10*nv, func() error { _, err := c.Encode(rep, cd); return err })
	default:
		panic("bad kind " + in.Kind)
	}
	tags = append(tags, in.Kind)
	if in.Kind == "extreme-scale-median" || in.Kind == "extreme-scale-evm" {
		tags = append(tags, "F2")
	}
	coq := fmt.Sprintf("CCost %d %d %d %s", out.Size, out.Alloc, out.CPUus, coqBool(out.Panic))
	return caseRec{Input: in, Output: out, Coq: coq, Tags: tags}
}

func genCost(tier string) []caseRec {
	var cs []caseRec
	scale := 1
	if tier == "thorough" {
		scale = 4
	}
	for _, d := range []int{1, 2, 3, 10, 100, 1000, 3000 * scale} {
		cs = append(cs, costCase(costIn{Kind: "nested-tsv", N: d}, "directed"))
	}
	for _, k := range []int{10, 1000, 10000, 10001} {
		cs = append(cs, costCase(costIn{Kind: "many-values", N: k}, "directed"))
	}
	for _, k := range []int{10, 1000, 3000 * scale} {
		cs = append(cs, costCase(costIn{Kind: "zero-aggregators", N: k}, "directed"))
		cs = append(cs, costCase(costIn{Kind: "many-streams-valid", N: k}, "directed"))
	}
	for _, k := range []int{1000, 100000, 1 << 20} {
		cs = append(cs, costCase(costIn{Kind: "random-bytes", N: k}, "directed"))
	}
	for _, k := range []int{5, 6, 1000, 100000, 300000} {
		cs = append(cs, costCase(costIn{Kind: "many-removes", N: k}, "directed"))
	}
	for _, k := range []int{1, 100, 2000} {
		cs = append(cs, costCase(costIn{Kind: "shared-stream", N: k}, "directed"))
	}
	for _, k := range []int{100, 10000, 100000} {
		cs = append(cs, costCase(costIn{Kind: "long-digits", N: k}, "directed"))
	}
	for _, k := range []int{10, 1000, 3000} {
		cs = append(cs, costCase(costIn{Kind: "outcome-many-streams", N: k}, "directed"))
	}
	for _, k := range []int{10, 1000, 3000 * scale} {
		cs = append(cs, costCase(costIn{Kind: "unencodable-values", N: k}, "directed"))
	}
	for _, e := range []int32{-40, 40} {
		cs = append(cs, costCase(costIn{Kind: "extreme-scale-median", Exp: e}, "directed"))
		cs = append(cs, costCase(costIn{Kind: "extreme-scale-evm", Exp: e}, "directed"))
	}
	// F2 witnesses (safe stand-ins for exponent +-2^31)
	cs = append(cs, costCase(costIn{Kind: "extreme-scale-median", Exp: -4000000}, "directed"))
	cs = append(cs, costCase(costIn{Kind: "extreme-scale-evm", Exp: 4000000}, "directed"))
	return cs
}

func cmdCost(seed int64, n int, out, replay, tier string) {
	var cs []caseRec
	if replay != "" {
		var f struct {
			Cases []struct {
				Input costIn `json:"input"`
			} `json:"cases"`
		}
		b, err := os.ReadFile(replay)
		if err != nil {
			fatal(err)
		}
		if err := json.Unmarshal(b, &f); err != nil {
			fatal(err)
		}
		for _, c := range f.Cases {
			cs = append(cs, costCase(c.Input, "replay"))
		}
	} else {
		cs = genCost(tier)
	}
	header := "From DS Require Import Base CasesCost.\n"
	if err := writeCasesSharded(out, "cost", seed, header, "cost_case", "cost_eval", cs, 400); err != nil {
		fatal(err)
	}
	fmt.Printf("cost: %d cases\n", len(cs))
}
