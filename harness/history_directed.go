package main

// Directed histories: the witnesses of DESIGN.md Appendix B (defects repaired in /repo, kept here so that their
// return is found immediately) and scenarios taken from the properties' quantifier texts that random generation
// reaches only rarely. They run first in every `history` run (tag "directed").

func scripted(ts uint64, f func(o *obsIn)) obsIn {
	o := obsIn{Honest: true, Scripted: true, Ts: ts, Values: map[uint32]*svDesc{1: decOf(100, 0), 2: decOf(200, 0)}}
	if f != nil {
		f(&o)
	}
	return o
}
func roundOf(inst int, seq uint64, n int, ts uint64, f func(i int, o *obsIn)) roundIn {
	r := roundIn{Inst: inst, Seq: seq, Target: map[uint32]defDesc{}}
	for i := 0; i < n; i++ {
		i := i
		r.Obs = append(r.Obs, scripted(ts+uint64(i), func(o *obsIn) {
			if f != nil {
				f(i, o)
			}
		}))
	}
	return r
}

var (
	jsonDef   = defDesc{Fmt: 2, Streams: []streamDesc{{ID: 1, Agg: 1}}}
	legacyDef = defDesc{Fmt: 1, Streams: []streamDesc{{ID: 1, Agg: 1}}}
	jsonDef2  = defDesc{Fmt: 2, Streams: []streamDesc{{ID: 2, Agg: 1}}}
)

func directedHistories() []struct {
	name string
	in   histIn
} {
	var out []struct {
		name string
		in   histIn
	}
	add := func(name string, in histIn) {
		out = append(out, struct {
			name string
			in   histIn
		}{name, in})
	}
	s := uint64(1e9)
	upd := func(id uint32, d defDesc) func(int, *obsIn) {
		return func(_ int, o *obsIn) { o.Updates = map[uint32]defDesc{id: d} }
	}
	// D2a: a reported window (1.1s, 1.5s] under a nanosecond format, then the definition is replaced by a
	// seconds-resolution format: the new validity start must be 1.5s
	for _, pver := range []uint32{1} {
		add("D2a-resolution-swap", histIn{
			Cfgs: []instCfg{{F: 1, N: 4, PVer: pver, Interval: 1}},
			Rounds: []roundIn{
				roundOf(0, 1, 4, 0, nil),
				roundOf(0, 2, 4, 1*s+100000000, upd(1, jsonDef)),
				roundOf(0, 3, 4, 1*s+500000000, nil),
				roundOf(0, 4, 4, 1*s+700000000, upd(1, legacyDef)),
				roundOf(0, 5, 4, 2*s+700000000, nil),
				roundOf(0, 6, 4, 3*s+900000000, nil),
			}})
	}
	// D2b: P reports channels 1 and 2 and retires; S is promoted while defining only channel 1 and adds
	// channel 2 one round later: S's first report of 2 must start where P's last report of 2 ended
	for _, pver := range []uint32{0, 1} {
		iv := uint64(1)
		if pver == 0 {
			iv = 0
		}
		two := func(_ int, o *obsIn) { o.Updates = map[uint32]defDesc{1: jsonDef, 2: jsonDef2} }
		retire := func(_ int, o *obsIn) { o.Retire = true }
		good := func(_ int, o *obsIn) { o.Att = "good" }
		add("D2b-late-channel-after-promotion", histIn{
			Cfgs: []instCfg{{F: 1, N: 4, PVer: pver, Interval: iv}, {F: 1, N: 4, PVer: pver, Interval: iv, HasPred: true}},
			Rounds: []roundIn{
				roundOf(0, 1, 4, 0, nil),
				roundOf(1, 1, 4, 0, nil),
				roundOf(0, 2, 4, 10*s, two),
				roundOf(1, 2, 4, 10*s, upd(1, jsonDef)),
				roundOf(0, 3, 4, 12*s, nil),
				roundOf(1, 3, 4, 12*s, nil),
				roundOf(0, 4, 4, 14*s, nil),
				roundOf(0, 5, 4, 16*s, retire),
				roundOf(0, 6, 4, 18*s, retire),
				roundOf(1, 4, 4, 19*s, good),
				roundOf(1, 5, 4, 21*s, upd(2, jsonDef2)),
				roundOf(1, 6, 4, 23*s, nil),
				roundOf(1, 7, 4, 25*s, nil),
			}})
		// found by the thorough tier (the check was wrong, see DESIGN 11.4): the observers that carry the attestation also
		// vote channel 2 out in the promotion round itself; its adopted validity start is deleted with it, so the
		// successor's later first report of 2 starts at the successor's own round — not a handover violation
		goodAndRemove2 := func(_ int, o *obsIn) { o.Att = "good"; o.Removes = []uint32{2} }
		add("voted-out-in-the-promotion-round", histIn{
			Cfgs: []instCfg{{F: 1, N: 4, PVer: pver, Interval: iv}, {F: 1, N: 4, PVer: pver, Interval: iv, HasPred: true}},
			Rounds: []roundIn{
				roundOf(0, 1, 4, 0, nil),
				roundOf(1, 1, 4, 0, nil),
				roundOf(0, 2, 4, 10*s, two),
				roundOf(1, 2, 4, 10*s, upd(1, jsonDef)),
				roundOf(0, 3, 4, 12*s, nil),
				roundOf(1, 3, 4, 12*s, nil),
				roundOf(0, 4, 4, 14*s, nil),
				roundOf(0, 5, 4, 16*s, retire),
				roundOf(0, 6, 4, 18*s, retire),
				roundOf(1, 4, 4, 19*s, goodAndRemove2),
				roundOf(1, 5, 4, 21*s, upd(2, jsonDef2)),
				roundOf(1, 6, 4, 23*s, nil),
				roundOf(1, 7, 4, 25*s, nil),
			}})
		// C05-A / C06-B: a retired successor that keeps receiving the (genuine) attestation and > f votes
		votes := func(_ int, o *obsIn) {
			o.Att = "good"
			o.Removes = []uint32{1}
			o.Updates = map[uint32]defDesc{3: jsonDef2}
			o.Retire = true
		}
		add("retired-successor-with-attestation-and-votes", histIn{
			Cfgs: []instCfg{{F: 1, N: 4, PVer: pver, Interval: iv}, {F: 1, N: 4, PVer: pver, Interval: iv, HasPred: true}},
			Rounds: []roundIn{
				roundOf(0, 1, 4, 0, nil), roundOf(1, 1, 4, 0, nil),
				roundOf(0, 2, 4, 10*s, two), roundOf(1, 2, 4, 10*s, two),
				roundOf(0, 3, 4, 12*s, nil), roundOf(0, 4, 4, 14*s, retire), roundOf(0, 5, 4, 16*s, nil),
				roundOf(1, 3, 4, 17*s, good), roundOf(1, 4, 4, 19*s, nil),
				roundOf(1, 5, 4, 21*s, retire), roundOf(1, 6, 4, 23*s, votes), roundOf(1, 7, 4, 25*s, votes),
				roundOf(0, 6, 4, 27*s, votes),
			}})
	}
	// C04-D (seeded): the same handover with CORRECT nodes only, their observations produced by the real
	// Plugin.Observation from a channel-definition cache that lists channel 2 only two rounds after the promotion:
	// whatever correct nodes vote in between, S's first report of 2 must start where P's last report of 2 ended
	for _, pver := range []uint32{0, 1} {
		iv := uint64(1)
		if pver == 0 {
			iv = 0
		}
		hr := func(inst int, seq uint64, ts uint64, target map[uint32]defDesc, retire bool) roundIn {
			r := roundIn{Inst: inst, Seq: seq, Target: target, Retire: retire}
			for i := 0; i < 4; i++ {
				r.Obs = append(r.Obs, obsIn{Honest: true, Ts: ts + uint64(i), Values: map[uint32]*svDesc{1: decOf(100, 0), 2: decOf(200, 0)}})
			}
			return r
		}
		both := map[uint32]defDesc{1: jsonDef, 2: jsonDef2}
		one := map[uint32]defDesc{1: jsonDef}
		add("handover-late-channel-correct-nodes-only", histIn{
			Cfgs: []instCfg{{F: 1, N: 4, PVer: pver, Interval: iv}, {F: 1, N: 4, PVer: pver, Interval: iv, HasPred: true}},
			Rounds: []roundIn{
				hr(0, 1, 0, both, false), hr(1, 1, 0, one, false),
				hr(0, 2, 10*s, both, false), hr(1, 2, 10*s, one, false),
				hr(0, 3, 12*s, both, false), hr(1, 3, 12*s, one, false),
				hr(0, 4, 14*s, both, false), hr(0, 5, 16*s, both, true), hr(0, 6, 18*s, both, true),
				hr(1, 4, 19*s, one, false), hr(1, 5, 21*s, one, false), hr(1, 6, 23*s, one, false),
				hr(1, 7, 25*s, both, false), hr(1, 8, 27*s, both, false), hr(1, 9, 29*s, both, false),
			}})
	}
	// D5: configurations the offchain-config decoder must refuse (version 1 needs a minimum report interval >= 1;
	// unknown versions); were they accepted, a channel would report an empty window in the round that adds it
	for _, bad := range []instCfg{{F: 1, N: 4, PVer: 1, Interval: 0}, {F: 1, N: 4, PVer: 7, Interval: 3}, {F: 1, N: 4, PVer: 0, Interval: 5}} {
		add("D5-config-must-be-refused", histIn{
			Cfgs: []instCfg{bad},
			Rounds: []roundIn{
				roundOf(0, 1, 4, 0, nil),
				roundOf(0, 2, 4, 1700000000*s, upd(1, jsonDef)),
				roundOf(0, 3, 4, 1700000000*s, nil),
				roundOf(0, 4, 4, 1700000001*s, nil),
			}})
	}
	// B1: interval 2^64-1 and a repeated timestamp: validAfter == observation timestamp must NOT be reportable
	add("B1-interval-overflow", histIn{
		Cfgs: []instCfg{{F: 1, N: 4, PVer: 1, Interval: ^uint64(0)}},
		Rounds: []roundIn{
			roundOf(0, 1, 4, 0, nil),
			roundOf(0, 2, 4, 1700000000*s, upd(1, jsonDef)),
			roundOf(0, 3, 4, 1700000000*s, nil),
			roundOf(0, 4, 4, 1700000000*s, nil),
		}})
	// D1: two competing definitions for one channel id with f+1 votes each (n = 4, f = 1)
	comp := func(i int, o *obsIn) {
		if i < 2 {
			o.Updates = map[uint32]defDesc{7: jsonDef}
		} else {
			o.Updates = map[uint32]defDesc{7: jsonDef2}
		}
	}
	add("D1-competing-definitions", histIn{
		Cfgs:   []instCfg{{F: 1, N: 4, PVer: 1, Interval: 1}},
		Rounds: []roundIn{roundOf(0, 1, 4, 0, nil), roundOf(0, 2, 4, 100*s, comp), roundOf(0, 3, 4, 102*s, comp), roundOf(0, 4, 4, 104*s, nil)},
	})
	// C02-A: a faulty timestamp at least 2^63 above the honest ones, in every position
	for pos := 0; pos < 3; pos++ {
		pos := pos
		far := func(i int, o *obsIn) {
			if i == pos {
				o.Ts = 1<<63 + 1700000001*s
				o.Honest = false
			}
		}
		add("far-future-timestamp", histIn{
			Cfgs:   []instCfg{{F: 1, N: 4, PVer: 1, Interval: 1}},
			Rounds: []roundIn{roundOf(0, 1, 3, 0, nil), roundOf(0, 2, 3, 1700000000*s, far), {Inst: 0, Seq: 3, Target: map[uint32]defDesc{}, Obs: []obsIn{scripted(1700000002*s, nil), scripted(1<<63+1700000001*s, func(o *obsIn) { o.Honest = false }), scripted(1700000000*s, nil)}}},
		})
	}
	// C18-B: a round in which nobody reports a still-referenced timestamped stream, then an older value
	tsvDef := defDesc{Fmt: 2, Streams: []streamDesc{{ID: 3, Agg: 1}, {ID: 3, Agg: 2}}}
	withTsv := func(at uint64, k int) func(int, *obsIn) {
		return func(i int, o *obsIn) {
			if i < k {
				o.Values[3] = &svDesc{T: "tsv", At: at, In: decOf(5, 0)}
			}
		}
	}
	add("tsv-empty-round-then-older", histIn{
		Cfgs: []instCfg{{F: 1, N: 4, PVer: 1, Interval: 1}},
		Rounds: []roundIn{
			roundOf(0, 1, 4, 0, nil),
			roundOf(0, 2, 4, 100*s, upd(9, tsvDef)),
			roundOf(0, 3, 4, 102*s, withTsv(1000, 4)),
			roundOf(0, 4, 4, 104*s, withTsv(900, 4)),
			roundOf(0, 5, 4, 106*s, withTsv(2000, 1)),
			roundOf(0, 6, 4, 108*s, withTsv(0, 0)),
			roundOf(0, 7, 4, 110*s, withTsv(950, 4)),
		}})
	// C18-D (seeded): observed-at times over the full uint64 range — an agreed value at or above 2^63 (e.g. a MaxUint64
	// sentinel) followed by realistic wall-clock values: the aggregate must not move back
	add("tsv-observed-at-beyond-int63", histIn{
		Cfgs: []instCfg{{F: 1, N: 4, PVer: 1, Interval: 1}},
		Rounds: []roundIn{
			roundOf(0, 1, 4, 0, nil),
			roundOf(0, 2, 4, 100*s, upd(9, tsvDef)),
			roundOf(0, 3, 4, 102*s, withTsv(1<<63, 4)),
			roundOf(0, 4, 4, 104*s, withTsv(1700000000*s, 4)),
			roundOf(0, 5, 4, 106*s, withTsv(^uint64(0), 4)),
			roundOf(0, 6, 4, 108*s, withTsv(1<<63+5, 4)),
			roundOf(0, 7, 4, 110*s, withTsv(1<<63-1, 4)),
		}})
	return out
}
