module srcscan

go 1.23
