package main

// placeholder, filled in with the C20 lock-program translator
func emitMtls() {}
