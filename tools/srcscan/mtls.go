package main

// Translator for C20: rpc/mtls/mtls.go -> the lock/access programs of every function that touches the allow-list.
// For each function it walks the body in evaluation order and emits, per object (0 = the receiver, 1.. = parameters
// of type *PublicKeys), the sequence of
//   0 RLock  1 RUnlock  2 Lock  3 Unlock  4 Read(.keys)  5 Write(.keys)
// `defer X.mu.RUnlock()` / `defer X.mu.Unlock()` are appended at the end of the function in LIFO order.
// Anything it does not understand (lock calls in loops or branches, keys accessed in a closure or goroutine,
// go statements) sets mtls_shape_ok to false, which breaks the proof obligation rather than being guessed at.

import (
	"fmt"
	"go/ast"
	"go/token"
	"strings"
)

type mtlsOp struct{ code, obj int }

type mtlsWalker struct {
	objs     map[string]int
	ops      []mtlsOp
	deferred []mtlsOp
	ok       bool
	depth    int // inside a loop / branch / closure
}

func (w *mtlsWalker) lockCall(call *ast.CallExpr) (mtlsOp, bool) {
	sel, ok := call.Fun.(*ast.SelectorExpr)
	if !ok {
		return mtlsOp{}, false
	}
	code := map[string]int{"RLock": 0, "RUnlock": 1, "Lock": 2, "Unlock": 3}
	c, isLock := code[sel.Sel.Name]
	if !isLock {
		return mtlsOp{}, false
	}
	mu, ok := sel.X.(*ast.SelectorExpr)
	if !ok || mu.Sel.Name != "mu" {
		return mtlsOp{}, false
	}
	id, ok := mu.X.(*ast.Ident)
	if !ok {
		return mtlsOp{}, false
	}
	obj, known := w.objs[id.Name]
	if !known {
		w.ok = false
		return mtlsOp{}, false
	}
	return mtlsOp{c, obj}, true
}

func (w *mtlsWalker) keysAccess(e ast.Expr) (int, bool) {
	sel, ok := e.(*ast.SelectorExpr)
	if !ok || sel.Sel.Name != "keys" {
		return 0, false
	}
	id, ok := sel.X.(*ast.Ident)
	if !ok {
		w.ok = false
		return 0, false
	}
	obj, known := w.objs[id.Name]
	if !known {
		w.ok = false
		return 0, false
	}
	return obj, true
}

// reads inside an expression, in source order
func (w *mtlsWalker) expr(e ast.Expr) {
	if e == nil {
		return
	}
	ast.Inspect(e, func(n ast.Node) bool {
		switch x := n.(type) {
		case *ast.FuncLit:
			// a closure: must not touch the allow-list or its lock directly
			ast.Inspect(x.Body, func(m ast.Node) bool {
				if s, ok := m.(*ast.SelectorExpr); ok && (s.Sel.Name == "keys" || s.Sel.Name == "mu") {
					w.ok = false
				}
				return true
			})
			return false
		case *ast.CallExpr:
			if id, isId := x.Fun.(*ast.Ident); isId && (id.Name == "copy" || id.Name == "append" || id.Name == "clear") && len(x.Args) > 0 {
				if _, ok := w.keysAccess(x.Args[0]); ok && id.Name != "append" { // copy(r.keys, ...), clear(r.keys): in-place write
					w.ok = false
				}
			}
			if op, ok := w.lockCall(x); ok {
				if w.depth > 0 {
					w.ok = false
				}
				w.ops = append(w.ops, op)
				return false
			}
		case *ast.SelectorExpr:
			if obj, ok := w.keysAccess(x); ok {
				w.ops = append(w.ops, mtlsOp{4, obj})
				return false
			}
		}
		return true
	})
}

func (w *mtlsWalker) stmt(s ast.Stmt) {
	switch x := s.(type) {
	case nil:
	case *ast.ExprStmt:
		w.expr(x.X)
	case *ast.DeferStmt:
		if op, ok := w.lockCall(x.Call); ok {
			if w.depth > 0 || (op.code != 1 && op.code != 3) {
				w.ok = false
			}
			w.deferred = append([]mtlsOp{op}, w.deferred...)
		} else {
			w.ok = false
		}
	case *ast.GoStmt:
		w.ok = false
	case *ast.AssignStmt:
		for _, r := range x.Rhs {
			// `ks := r.keys` creates an alias of the backing array that outlives the lock: not the copy-then-swap shape
			if _, alias := w.keysAccess(r); alias {
				w.ok = false
			}
			if sl, isSlice := r.(*ast.SliceExpr); isSlice {
				if _, alias := w.keysAccess(sl.X); alias {
					w.ok = false
				}
			}
			w.expr(r)
		}
		for _, l := range x.Lhs {
			if obj, ok := w.keysAccess(l); ok {
				w.ops = append(w.ops, mtlsOp{5, obj})
			} else if ix, isIx := l.(*ast.IndexExpr); isIx {
				if obj, ok := w.keysAccess(ix.X); ok { // in-place element write
					w.ops = append(w.ops, mtlsOp{5, obj})
					w.ok = false
				} else {
					w.expr(l)
				}
			} else {
				w.expr(l)
			}
		}
	case *ast.DeclStmt, *ast.IncDecStmt, *ast.BranchStmt, *ast.EmptyStmt:
	case *ast.ReturnStmt:
		for _, r := range x.Results {
			w.expr(r)
		}
	case *ast.BlockStmt:
		for _, t := range x.List {
			w.stmt(t)
		}
	case *ast.IfStmt:
		w.stmt(x.Init)
		w.expr(x.Cond)
		w.depth++
		w.stmt(x.Body)
		w.stmt(x.Else)
		w.depth--
	case *ast.ForStmt:
		w.stmt(x.Init)
		w.expr(x.Cond)
		w.depth++
		w.stmt(x.Body)
		w.stmt(x.Post)
		w.depth--
	case *ast.RangeStmt:
		w.expr(x.X)
		w.depth++
		w.stmt(x.Body)
		w.depth--
	default:
		// switch, select, labeled, send ...: not expected in this file's lock-handling functions
		ast.Inspect(s, func(m ast.Node) bool {
			if sel, ok := m.(*ast.SelectorExpr); ok && (sel.Sel.Name == "keys" || sel.Sel.Name == "mu") {
				w.ok = false
			}
			return true
		})
	}
}

func isPublicKeysPtr(t ast.Expr) bool {
	st, ok := t.(*ast.StarExpr)
	if !ok {
		return false
	}
	id, ok := st.X.(*ast.Ident)
	return ok && id.Name == "PublicKeys"
}

func emitMtls() {
	_, f, err := parseFile("rpc/mtls/mtls.go")
	fmt.Printf("Definition mtls_found : bool := %v.\n", err == nil)
	shapeOK := err == nil
	var entries []string
	if err == nil {
		for _, d := range f.Decls {
			fd, ok := d.(*ast.FuncDecl)
			if !ok || fd.Body == nil {
				continue
			}
			w := &mtlsWalker{objs: map[string]int{}, ok: true}
			next := 0
			if fd.Recv != nil {
				for _, fld := range fd.Recv.List {
					if isPublicKeysPtr(fld.Type) {
						for _, n := range fld.Names {
							w.objs[n.Name] = next
							next++
						}
					}
				}
			}
			if next == 0 {
				next = 1 // object 0 is reserved for a receiver
			}
			for _, fld := range fd.Type.Params.List {
				if isPublicKeysPtr(fld.Type) {
					for _, n := range fld.Names {
						w.objs[n.Name] = next
						next++
					}
				}
			}
			w.stmt(fd.Body)
			ops := append(w.ops, w.deferred...)
			if len(ops) == 0 && w.ok {
				continue
			}
			if !w.ok {
				shapeOK = false
			}
			var xs []string
			for _, o := range ops {
				xs = append(xs, fmt.Sprintf("(%d, %d)", o.code, o.obj))
			}
			entries = append(entries, fmt.Sprintf("(%s, [%s])", coqString(fd.Name.Name), strings.Join(xs, "; ")))
		}
		// the allow-list field must not be reachable except through these functions: no exported field, no other selector
		for _, d := range f.Decls {
			gd, ok := d.(*ast.GenDecl)
			if !ok || gd.Tok != token.TYPE {
				continue
			}
			for _, sp := range gd.Specs {
				ts := sp.(*ast.TypeSpec)
				st, ok := ts.Type.(*ast.StructType)
				if !ok || ts.Name.Name != "PublicKeys" {
					continue
				}
				names := []string{}
				for _, fld := range st.Fields.List {
					for _, n := range fld.Names {
						names = append(names, n.Name)
					}
				}
				if strings.Join(names, ",") != "mu,keys" {
					shapeOK = false
				}
			}
		}
	}
	fmt.Printf("Definition mtls_shape_ok : bool := %v.\n", shapeOK)
	fmt.Printf("Definition mtls_programs : list (string * list (Z * Z)) := [%s]%%Z.\n", strings.Join(entries, "; "))
}
