// srcscan: derives Coq definitions from /repo's *current* source text (stdlib go/parser only).
// Output (stdout): a Coq fragment that bin/check concatenates into coq/gen/RepoConstants.v.
package main

import (
	"fmt"
	"go/ast"
	"go/parser"
	"go/token"
	"os"
	"path/filepath"
	"regexp"
	"strconv"
	"strings"
)

var repo = "/repo"

func coqString(s string) string { return "\"" + strings.ReplaceAll(s, "\"", "\"\"") + "\"%string" }

func parseFile(rel string) (*token.FileSet, *ast.File, error) {
	fset := token.NewFileSet()
	f, err := parser.ParseFile(fset, filepath.Join(repo, rel), nil, parser.ParseComments)
	return fset, f, err
}

// regexLiteral finds `var <name> = regexp.MustCompile(<string literal>)` and returns the literal's value.
func regexLiteral(rel, name string) (string, bool) {
	_, f, err := parseFile(rel)
	if err != nil {
		return "", false
	}
	for _, d := range f.Decls {
		gd, ok := d.(*ast.GenDecl)
		if !ok || gd.Tok != token.VAR {
			continue
		}
		for _, sp := range gd.Specs {
			vs := sp.(*ast.ValueSpec)
			for i, n := range vs.Names {
				if n.Name != name || i >= len(vs.Values) {
					continue
				}
				call, ok := vs.Values[i].(*ast.CallExpr)
				if !ok || len(call.Args) != 1 {
					return "", false
				}
				lit, ok := call.Args[0].(*ast.BasicLit)
				if !ok || lit.Kind != token.STRING {
					return "", false
				}
				s, err := strconv.Unquote(lit.Value)
				if err != nil {
					return "", false
				}
				return s, true
			}
		}
	}
	return "", false
}

var typeRegexShape = regexp.MustCompile(`^\^\(u\?int\)\(([0-9|]+)\)\$$`)

func emitTypeRegex() {
	src, ok := regexLiteral("llo/reportcodecs/evm/report_codec_common.go", "typeRegex")
	fmt.Printf("Definition evm_type_regex_found : bool := %v.\n", ok)
	fmt.Printf("Definition evm_type_regex_src : string := %s.\n", coqString(src))
	m := typeRegexShape.FindStringSubmatch(src)
	fmt.Printf("Definition evm_type_regex_shape_ok : bool := %v.\n", m != nil)
	ws := []string{}
	if m != nil {
		for _, a := range strings.Split(m[1], "|") {
			// an alternative with a leading zero or empty would not be what dec_digits produces: keep shape_ok honest
			if a == "" || (len(a) > 1 && a[0] == '0') {
				ws = nil
				break
			}
			ws = append(ws, a)
		}
	}
	fmt.Printf("Definition evm_type_widths : list Z := [%s]%%Z.\n", strings.Join(ws, "; "))
}

func emitTextRegexes() {
	q, ok1 := regexLiteral("llo/stream_value.go", "quoteRegex")
	t, ok2 := regexLiteral("llo/stream_value.go", "timestampedStreamValueRegex")
	fmt.Printf("Definition quote_regex_found : bool := %v.\n", ok1)
	fmt.Printf("Definition quote_regex_src : string := %s.\n", coqString(q))
	fmt.Printf("Definition tsv_regex_found : bool := %v.\n", ok2)
	fmt.Printf("Definition tsv_regex_src : string := %s.\n", coqString(t))
}

func main() {
	if len(os.Args) > 1 {
		repo = os.Args[1]
	}
	fmt.Println("(* --- from tools/srcscan (source text of /repo) --- *)")
	emitTypeRegex()
	emitTextRegexes()
	emitMtls()
}
