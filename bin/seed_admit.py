#!/usr/bin/env python3
"""seed_admit.py <src_dir> <seed_id> <property>
Confirms a sub-agent's seeded change in a scratch worktree of /repo (outside /repo and /verif):
 (1) with the patch the repository builds and its whole suite passes,
 (2) with the patch the demonstration FAILS, (3) without the patch the demonstration PASSES.
Only then copies it to /verif/seeded/<seed_id>/ (patch.diff, demo_test.go, notes.md, meta.json)."""
import sys, os, re, subprocess, json, shutil
src, sid, prop = sys.argv[1:4]
env = dict(os.environ, GOFLAGS='-mod=mod', GOPROXY='off')
wt = '/tmp/wt/admit_' + sid
def sh(cmd, cwd=None):
    p = subprocess.run(cmd, shell=True, cwd=cwd, env=env, stdout=subprocess.PIPE, stderr=subprocess.STDOUT, text=True)
    return p.returncode, p.stdout
demo = open(src + '/demo_test.go').read()
m = re.search(r'go test [^\n]*?(\./\S+) -run (\w+)', demo)
pkg, run = m.group(1), m.group(2)
sh('git -C /repo worktree remove --force %s' % wt)
rc, out = sh('git -C /repo worktree add -q --detach %s HEAD' % wt)
assert rc == 0, out
res = {}
try:
    dst = '%s/%s/zz_seeded_demo_test.go' % (wt, pkg)
    # (3) demo passes on the unchanged tree
    shutil.copy(src + '/demo_test.go', dst)
    rc, out = sh('go test -vet=off -count=1 %s -run %s' % (pkg, run), cwd=wt)
    res['demo_without_change'] = 'PASS' if rc == 0 else 'FAIL'
    os.remove(dst)
    # (1) suite with patch
    rc, out = sh('git apply %s/patch.diff' % src, cwd=wt)
    assert rc == 0, 'patch does not apply: ' + out
    rc, out = sh('go build ./... && go test -vet=off -count=1 ./...', cwd=wt)
    res['suite_with_change'] = 'PASS' if rc == 0 else 'FAIL'
    if rc != 0:
        res['suite_output'] = out[-1500:]
    # (2) demo fails with the patch
    shutil.copy(src + '/demo_test.go', dst)
    rc, out = sh('go test -vet=off -count=1 %s -run %s' % (pkg, run), cwd=wt)
    res['demo_with_change'] = 'PASS' if rc == 0 else 'FAIL'
    res['demo_failure_excerpt'] = '\n'.join(l for l in out.splitlines() if 'FAIL' in l or 'Error' in l or 'panic' in l)[:1200]
finally:
    sh('git -C /repo worktree remove --force %s' % wt)
ok = res.get('suite_with_change') == 'PASS' and res.get('demo_with_change') == 'FAIL' and res.get('demo_without_change') == 'PASS'
print(sid, 'ADMITTED' if ok else 'REJECTED', json.dumps({k: v for k, v in res.items() if k != 'demo_failure_excerpt'}))
if ok:
    d = '/verif/seeded/' + sid
    os.makedirs(d, exist_ok=True)
    for f in ('patch.diff', 'demo_test.go', 'notes.md'):
        shutil.copy(src + '/' + f, d + '/' + f)
    notes = open(src + '/notes.md').read()
    json.dump(dict(id=sid, breaks=[prop], origin='independent sub-agent given only the property text and a scratch worktree',
                   demo=dict(package=pkg, run=run), needs_to_manifest=notes[:1500],
                   confirmed_by_me=dict(res, how='bin/seed_admit.py in a scratch worktree: suite with change / demo with change / demo without change')),
              open(d + '/meta.json', 'w'), indent=1)
sys.exit(0 if ok else 1)
