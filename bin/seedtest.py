#!/usr/bin/env python3
"""seedtest.py <seed_id> [property ...]   — applies /verif/seeded/<seed_id>/patch.diff to /repo, runs the
quick check of each property (default: those in meta.json `breaks`), reverts /repo straight afterwards,
and appends the outcome to /verif/seeded/RESULTS.jsonl."""
import sys, os, json, subprocess, time
sid = sys.argv[1]
# VERIF_ROOT / VERIF_REPO: run against a scratch copy of /verif and a scratch worktree of /repo (outside both), so that
# seeded changes can be tried while /verif is being edited; the default is /verif against /repo itself
VROOT = os.environ.get('VERIF_ROOT', '/verif')
REPO = os.environ.get('VERIF_REPO', '/repo')
d = '/verif/seeded/' + sid
meta = json.load(open(d + '/meta.json'))
props = sys.argv[2:] or meta['breaks']
def sh(cmd):
    p = subprocess.run(cmd, shell=True, stdout=subprocess.PIPE, stderr=subprocess.STDOUT, text=True)
    return p.returncode, p.stdout
rc, out = sh('git -C %s status --porcelain' % REPO)
assert out.strip() == '', REPO + ' not clean: ' + out
rc, out = sh('git -C %s apply %s/patch.diff' % (REPO, d))
assert rc == 0, out
results = []
try:
    for p in props:
        t = time.time()
        rc, out = sh('cd %s && bin/check %s --tier quick' % (VROOT, p))
        line = [l for l in out.splitlines() if l.startswith('VIOLATION') or l.startswith('OK')]
        kind = 'missed'
        replay = None
        if rc != 0 and line and line[0].startswith('VIOLATION'):
            kind = 'detected-no-failing-input' if 'no-failing-input-found' in line[0] else 'detected-with-replay'
            replay = line[0].split('replay=')[1].split()[0]
        r = dict(seed=sid, property=p, exit=rc, result=kind, line=(line[0] if line else out[-300:]), wall_s=round(time.time() - t, 1))
        if replay and os.path.exists(replay):
            rp = json.load(open(replay))
            r['replay_kind'] = rp.get('kind')
            r['replay_first_case'] = json.dumps(rp.get('cases', [None])[0])[:400] if rp.get('cases') else None
            r['broken'] = rp.get('broken') or rp.get('broken_obligations')
        results.append(r)
        print(json.dumps(r)[:700])
finally:
    sh('git -C %s checkout -- . && git -C %s clean -fdq' % (REPO, REPO))
    # evidence written while a seeded change was applied is not evidence about the real tree
    sh('cd %s && git checkout -- evidence 2>/dev/null; rm -rf %s/evidence/replay' % (VROOT, VROOT))
with open('/verif/seeded/RESULTS.jsonl', 'a') as f:
    for r in results:
        f.write(json.dumps(r) + '\n')
