#!/bin/sh
# quick_hist_mut.sh <seed_id> : apply a seeded patch to /repo, run the history projection directly, print R summaries, revert
sid=$1
cd /repo && git apply /verif/seeded/$sid/patch.diff || exit 1
export GOFLAGS=-mod=mod GOPROXY=off
cd /verif/harness && go build -o /tmp/harness_mut . 2>&1 | tail -3
cd /repo && git checkout -- . 
rm -rf /tmp/hm_$sid && /tmp/harness_mut history -seed 11 -n ${2:-60} -out /tmp/hm_$sid 2>&1 | tail -2
cd /tmp/hm_$sid && ls cases_*.v | xargs -P 8 -n 1 coqc -R /verif/coq/theories DS -R /verif/coq/gen DS 2>&1 | tr '\n' ' ' | sed 's/R = /\nR = /g' | sed 's/: list nat.*//' | grep "R =" | grep -v '(\[\], \[\], \[\], \[\], \[\], \[\], \[\], \[\],' | head -4
echo "== $sid done"
rm -rf /tmp/hm_$sid
