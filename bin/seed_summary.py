#!/usr/bin/env python3
"""writes seeded/SUMMARY.md: per seeded change the latest verdict of each property check it was run against"""
import json, os, glob
ROOT = os.path.dirname(os.path.dirname(os.path.abspath(__file__)))
latest = {}
for l in open(ROOT + '/seeded/RESULTS.jsonl'):
    l = l.strip()
    if not l:
        continue
    r = json.loads(l)
    latest[(r['seed'], r['property'])] = r
rows = []
for d in sorted(glob.glob(ROOT + '/seeded/*/meta.json')):
    m = json.load(open(d))
    sid = m['id']
    need = (m.get('needs_to_manifest') or m.get('needs') or '').strip().splitlines()
    title = next((x.lstrip('# ').strip() for x in need if x.strip()), '')[:110]
    for p in m['breaks']:
        r = latest.get((sid, p))
        verdict = r['result'] if r else 'not run'
        what = ''
        if r and r.get('replay_first_case'):
            what = 'replay: ' + r['replay_first_case'][:70].replace('|', '/') + '…'
        rows.append((sid, p, verdict, title.replace('|', '/'), what))
det = sum(1 for r in rows if r[2] == 'detected-with-replay')
nof = sum(1 for r in rows if r[2] == 'detected-no-failing-input')
mis = sum(1 for r in rows if r[2] == 'missed')
nr = sum(1 for r in rows if r[2] == 'not run')
with open(ROOT + '/seeded/SUMMARY.md', 'w') as f:
    f.write('# Seeded changes: latest verdict of the quick check of the property each one breaks\n\n')
    f.write('%d (change, property) pairs: %d detected with a concrete replay, %d detected as no-failing-input-found, %d missed, %d not run.\n\n' % (len(rows), det, nof, mis, nr))
    f.write('| change | property | verdict | what the change is / needs | first replay case |\n|---|---|---|---|---|\n')
    for r in rows:
        f.write('| %s | %s | %s | %s | %s |\n' % r)
print('%d pairs: %d replay, %d no-failing-input, %d missed, %d not run' % (len(rows), det, nof, mis, nr))
