#!/usr/bin/env python3
"""writes /verif/MANIFEST.json from bin/registry.py (so the two cannot drift)"""
import json, os, sys
ROOT = os.path.dirname(os.path.dirname(os.path.abspath(__file__)))
sys.path.insert(0, os.path.join(ROOT, 'bin'))
import registry
props = [json.loads(l) for l in open(ROOT + '/properties.jsonl')]
baseline = json.load(open('/root/.vp/BASELINE.json'))['cmd'] if os.path.exists('/root/.vp/BASELINE.json') else ''
checks, na = [], []
for p in props:
    pid = p['id']
    P = registry.PROPS.get(pid)
    if not P or P.get('disabled'):
        na.append(dict(property_id=pid, reason=registry.NOT_YET.get(pid, 'not yet built in this development (planned in DESIGN.md section 7)')))
        continue
    checks.append(dict(
        property_id=pid,
        quick_cmd='bin/check %s --tier quick' % pid,
        thorough_cmd='bin/check %s --tier thorough' % pid,
        evidence_file='/verif/evidence/%s.json' % pid,
        replay_cmd_template='bin/check %s --replay {path}' % pid,
        engine='coq-model+correspondence',
        level_claimed=dict(category=P['level'], text=P['level_text'], design_ref='DESIGN.md section 7, ' + pid),
        level_note=P['level_note'],
        technique=P.get('technique', 'machine-checked proof in Coq 8.16.1 over an executable Gallina model; model tied to /repo by a differential correspondence check evaluated inside Coq (vm_compute) plus source-derived obligations'),
    ))
m = dict(
    version=1,
    setup_cmd='cd /verif && bin/check setup',
    hooks=dict(guard='verif', enable='go build -tags verif (bin/check passes it when building the harness against /repo); no guarded hook is currently needed: all entry points are exported',
               baseline_off_cmd=baseline, source_commits=registry.SOURCE_COMMITS, add_only=True),
    engines=[dict(name='coq-model+correspondence', path='/verif/coq + /verif/harness + /verif/bin/check',
                  serves_properties=[c['property_id'] for c in checks],
                  kind_free_text='Coq 8.16.1 theorems over a hand-written executable model; Go differential harness; in-Coq evaluation of cases')],
    checks=checks,
    notes='See DESIGN.md. evidence/replay/ holds replay files of reported violations; known_findings.jsonl lists recorded findings and fixes.',
    not_applicable=na,
)
json.dump(m, open(ROOT + '/MANIFEST.json', 'w'), indent=1)
print('MANIFEST.json: %d checks, %d not claimed' % (len(checks), len(na)))
