#!/bin/sh
# usage: dbg_hist.sh <cases_history_N.v> <case index> [round]  — prints the per-round flag trace, or model-vs-impl at a round
f=$1; i=$2; k=$3
d=$(dirname $f)
if [ -z "$k" ]; then
  sed -e "s/^Definition R := .*/Definition T := Eval vm_compute in hist_trace (nth $i cases (Build_hist_case [] [] [])).\nPrint T./" -e 's/^Print R\.//' $f > $d/dbg.v
else
  sed -e "s/^Definition R := .*/Definition T := Eval vm_compute in hist_view_at (nth $i cases (Build_hist_case [] [] [])) $k.\nPrint T./" -e 's/^Print R\.//' $f > $d/dbg.v
fi
cd $d && timeout 300 coqc -R /verif/coq/theories DS -R /verif/coq/gen DS dbg.v 2>&1
