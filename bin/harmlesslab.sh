#!/bin/sh
# harmlesslab.sh — applies each behaviour-preserving rewrite of seeded/harmless/ to the scratch worktree of seedlab
# and runs the quick checks of the properties anchored in the touched files: every one of them must stay quiet.
LAB=/tmp/seedlab
OUT=/verif/seeded/harmless/RESULTS.txt
mkdir -p $LAB
rsync -a --delete --exclude .work/cache --exclude .work/cases /verif/ $LAB/verif/
[ -d $LAB/repo ] || git -C /repo worktree add -q --detach $LAB/repo HEAD
sed -i "s#=> /repo#=> $LAB/repo#" $LAB/verif/harness/go.mod
run() { # patch props...
  h=$1; shift
  git -C $LAB/repo checkout -- . ; git -C $LAB/repo clean -fdq
  git -C $LAB/repo apply /verif/seeded/harmless/$h.diff || { echo "$h: patch does not apply" >> $OUT; return; }
  for p in "$@"; do
    r=$(cd $LAB/verif && VERIF_REPO=$LAB/repo bin/check $p --tier quick 2>&1 | grep "^OK\|^VIOLATION" | head -1 | cut -c1-160)
    echo "$h $p: $r" >> $OUT
  done
  git -C $LAB/repo checkout -- . ; git -C $LAB/repo clean -fdq
  (cd $LAB/verif && git checkout -- evidence 2>/dev/null; rm -rf evidence/replay)
}
: > $OUT
run H01 C01 C02 C03 C04 C05 C06 C14 C18 C11 C19
run H02 C01 C02 C03 C05
run H03 C11 C14 C16 C19
run H04 C02 C15 C01 C18
run H05 C10 C01 C03
run H06 C13 C12 C11
run H07 C07 C08 C09 C01
run H08 C20
run H09 C16 C17 C10 C11 C19
run H10 C14 C04 C03 C06
run H11 C08 C07 C11
run H12 C08 C11
run H13 C08
run H14 C14 C02 C06 C11
run H15 C08 C07 C09 C16 C11 C01
cat $OUT
