#!/bin/sh
# seedlab.sh <seed-id>...  — tries seeded changes in a scratch copy of /verif against a scratch worktree of /repo
# (both under /tmp, removed by `seedlab.sh --clean`), so /verif and /repo stay untouched while being worked on.
set -e
LAB=/tmp/seedlab
if [ "$1" = "--clean" ]; then git -C /repo worktree remove --force $LAB/repo 2>/dev/null || true; rm -rf $LAB; exit 0; fi
mkdir -p $LAB
rsync -a --delete --exclude .work/cache --exclude .work/cases /verif/ $LAB/verif/
if [ ! -d $LAB/repo ]; then git -C /repo worktree add -q --detach $LAB/repo HEAD; fi
git -C $LAB/repo checkout -q --detach "$(git -C /repo rev-parse HEAD)"; git -C $LAB/repo checkout -- .; git -C $LAB/repo clean -fdq
sed -i "s#=> /repo#=> $LAB/repo#" $LAB/verif/harness/go.mod
(cd $LAB/verif && git update-index --assume-unchanged harness/go.mod 2>/dev/null || true)
for s in "$@"; do
  VERIF_ROOT=$LAB/verif VERIF_REPO=$LAB/repo python3 $LAB/verif/bin/seedtest.py "$s" 2>&1 | cut -c1-400
done
