"""Per-property configuration of bin/check (projections, budgets, evidence texts) and known-finding matchers."""
import json, os

TRUSTED_BASE = [
    'Coq 8.16.1 kernel incl. vm_compute (finite-domain lemmas, refuted-witnesses, case evaluation); native_compute not used; no extraction',
    'correspondence check = differential testing: Go harness (/verif/harness), generators, Coq-term printers, error-text->enum mapping',
    'tools/srcscan + `harness consts` (source-derived coq/gen/RepoConstants.v)',
    'the model is hand-written Gallina; /repo Go code, Go toolchain and third-party libraries are modelled, not verified',
]

BRANCH_NAMES = {
    'evmint': ['invalid_type', 'unsigned_ok', 'unsigned_out_of_range', 'signed_ok_nonneg', 'signed_ok_neg', 'signed_out_of_range'],
}

SOURCE_COMMITS = []   # no guarded hook commits; the unguarded fix: commits are listed in known_findings.jsonl
NOT_YET = {}

PROPS = {
    'C13': dict(
        level='proof',
        projections=[dict(name='evmint', n_quick=2400, n_thorough=40000)],
        exhaustive=True,
        rule='evmint: exhaustive 64-type x {min-1,min,min+1,-1,0,1,max-1,max,max+1} grid, +-2^k for k<=300, malformed type strings, '
             'then random values up to 300 bits; distinct by SHA-1 of (value,type); none is trivial',
        explanation='Theorems C13_* (coq/props/C13.v) prove, for all integers and all 64 Solidity integer types, that the model of '
                    'EncodePackedBigInt/EncodePaddedBigInt succeeds exactly on representable values and yields the N/8-byte two\'s '
                    'complement / 32-byte sign extension; the accepted type list is regenerated from typeRegex in /repo on every run '
                    '(obligation C13_gen_widths_complete). The model is tied to the Go code by running both on the boundary grid '
                    '(exhaustive) and random values and comparing bytes and error kinds inside Coq; the property predicate is also '
                    'evaluated directly on the Go outputs.',
        assumptions=['math/big arithmetic and regexp semantics of Go are as modelled (compared on every run)'],
        level_text='Coq theorems for all integers and all 64 Solidity integer types about the model of EncodePackedBigInt/EncodePaddedBigInt '
                   '(acceptance iff representable, exact two\'s-complement bytes, sign extension, rejection of every other type string); '
                   'the accepted width list is regenerated from /repo on every run and the model is compared with the Go functions on an '
                   'exhaustive boundary grid plus random values.',
        level_note='Trusted: Coq kernel + vm_compute; hand-written model tied to the code by differential testing (bytes and error kinds); '
                   'tools/srcscan regex extraction; Go regexp/math.big semantics as modelled. Axioms: none (Closed under the global context).',
    ),
}


def load_known_findings(root):
    p = os.path.join(root, 'known_findings.jsonl')
    out = []
    if os.path.exists(p):
        for line in open(p):
            line = line.strip()
            if line and not line.startswith('#'):
                out.append(json.loads(line))
    return out


def match_known(kf, pid, case):
    """a known finding suppresses a failing case only when the case carries the finding's tag, which the
    harness sets from the finding's input-class matcher (e.g. ts_sec + window >= 2^32 for F3)"""
    tags = set(case.get('tags') or [])
    for k in kf:
        if k.get('status') == 'known' and k['property'] == pid and k.get('tag') in tags:
            return k
    return None
