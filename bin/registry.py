"""Per-property configuration of bin/check (projections, budgets, evidence texts) and known-finding matchers."""
import json, os

TRUSTED_BASE = [
    'Coq 8.16.1 kernel incl. vm_compute (finite-domain lemmas, refuted-witnesses, case evaluation); native_compute not used; no extraction',
    'correspondence check = differential testing: Go harness (/verif/harness), generators, Coq-term printers, error-text->enum mapping',
    'tools/srcscan + `harness consts` (source-derived coq/gen/RepoConstants.v)',
    'the model is hand-written Gallina; /repo Go code, Go toolchain and third-party libraries are modelled, not verified',
]

BRANCH_NAMES = {
    'observe': ['first_round_empty', 'no_votes', 'votes', 'error', 'panic'],
    'mercobserve': ['v2_v4_observation', 'v1_observation', 'error', 'panic', 'fee', 'fee_panic', 'whole_rounds_observation_then_report'],
    'reportsflow': ['no_reports', 'reports', 'error', 'panic'],
    'mercagg': ['timestamp', 'price_ok', 'price_err', 'fee_ok', 'fee_err', 'maxfints_ok', 'maxfints_err', 'maxfinblock_ok',
                'maxfinblock_err', 'status_ok', 'status_err', 'latestblock_ok', 'latestblock_err'],
    'agg': ['too_few', 'plain_median', 'timestamped_median', 'quote', 'mode_value', 'mode_error', 'other_error'],
    'evmint': ['invalid_type', 'unsigned_ok', 'unsigned_out_of_range', 'signed_ok_nonneg', 'signed_ok_neg', 'signed_out_of_range'],
}

SOURCE_COMMITS = []   # no guarded hook commits; the unguarded fix: commits are listed in known_findings.jsonl
NOT_YET = {}

PROPS = {
    'C13': dict(
        level='proof',
        projections=[dict(name='evmint', n_quick=2400, n_thorough=40000)],
        exhaustive=True,
        rule='evmint: exhaustive 64-type x {min-1,min,min+1,-1,0,1,max-1,max,max+1} grid, +-2^k for k<=300, malformed type strings, '
             'then random values up to 300 bits; distinct by SHA-1 of (value,type); none is trivial',
        explanation='Theorems C13_* (coq/props/C13.v) prove, for all integers and all 64 Solidity integer types, that the model of '
                    'EncodePackedBigInt/EncodePaddedBigInt succeeds exactly on representable values and yields the N/8-byte two\'s '
                    'complement / 32-byte sign extension; the accepted type list is regenerated from typeRegex in /repo on every run '
                    '(obligation C13_gen_widths_complete). The model is tied to the Go code by running both on the boundary grid '
                    '(exhaustive) and random values and comparing bytes and error kinds inside Coq; the property predicate is also '
                    'evaluated directly on the Go outputs.',
        assumptions=['math/big arithmetic and regexp semantics of Go are as modelled (compared on every run)'],
        level_text='Coq theorems for all integers and all 64 Solidity integer types about the model of EncodePackedBigInt/EncodePaddedBigInt '
                   '(acceptance iff representable, exact two\'s-complement bytes, sign extension, rejection of every other type string); '
                   'the accepted width list is regenerated from /repo on every run and the model is compared with the Go functions on an '
                   'exhaustive boundary grid plus random values.',
        level_note='Trusted: Coq kernel + vm_compute; hand-written model tied to the code by differential testing (bytes and error kinds); '
                   'tools/srcscan regex extraction; Go regexp/math.big semantics as modelled. Axioms: none (Closed under the global context).',
    ),
    'C02': dict(
        level='proof',
        projections=[dict(name='agg', args=['-kinds', '0,1'], n_quick=1500, n_thorough=30000)],
        rule='agg: every assignment of n<=3 (thorough: 4) values from a 4-letter alphabet (all weak orderings) x every tagging with fewer '
             'faulty than honest values, then structured random cases: f in 0..3 (thorough 0..10), 2f+1..3f+2 values, honest values of one '
             'kind near a base price in varying representations, faulty values of any type/sign/scale incl. invalid quotes, nested '
             'timestamped values, nil, negative zero; every case is also run on a random permutation. Distinct by SHA-1 of the input.',
        explanation='Theorems C02_* prove for every list, f and adversary that the model of MedianAggregator / QuoteAggregator (plain, quote and '
                    'timestamped medians) and medianTimestamp returns a value between two honest values (numeric order on decimals, proved '
                    'a total preorder with which Go\'s Cmp is compatible, negative zero included), that quote results are ordered, and that '
                    'at most f present values give an error. The model is compared with llo.MedianAggregator/QuoteAggregator on generated '
                    'cases (exact value incl. representation up to 12 values, numeric above), and the property predicate is evaluated on '
                    'the Go results with the generator\'s honest/faulty tags. The same is proved at the level of Plugin.Outcome '
                    '(C02_outcome_*: the aggregate the NEW OUTCOME holds) and end to end (C02_llo_*_between_data_sources / _clocks): senders are '
                    'correct nodes - the model of Plugin.Observation applied to their caches, data source and clock, marshalled in any map order - or '
                    'arbitrary bytes, and the committed aggregate / timestamp lies between values the correct nodes\' DATA SOURCES / clocks '
                    'returned; the history projection evaluates the outcome-level predicate on every round of the real plugin and the observe '
                    'projection checks that a real correct node sends exactly its data source\'s values and its own clock.',
        assumptions=['honest observers report values of one type for a stream (needed: see DESIGN.md C02)',
                     'sort.Slice returns a numerically sorted permutation for a comparator compatible with a total preorder (pdqsort, n>12)'],
        level_text='Coq theorems (any list length, any f, any faulty values) that the modelled median / quote / timestamped-median aggregators '
                   'and the outcome timestamp lie between two values supplied by correct observers, quote aggregates are ordered, and <= f '
                   'present values yield no aggregate; model tied to the Go aggregators by differential testing evaluated in Coq.',
        level_note='Trusted: Coq kernel + vm_compute; hand-written model of aggregators.go, shopspring/decimal Cmp and math/big sign-magnitude '
                   'integers; Go sort.Slice modelled as insertion sort (exact for n<=12). Axioms: none.',
    ),
    'C08': dict(
        level='proof',
        projections=[dict(name='mercagg', n_quick=1600, n_thorough=30000), dict(name='mercreport', spec_index=4, n_quick=250, n_thorough=3000),
                     dict(name='mercobserve', spec_index=1, n_quick=800, n_thorough=20000)],
        rule='mercobserve: the real MercuryPlugin.Observation of v1-v4 (built through the real factories, scripted data source: value or '
             'error per field, values outside int192, missing-price marker, zero prices, crossed quotes, malformed block lists; base fees of '
             'either sign and many exponents incl. the one that makes decimal.QuoRem panic; with/without previous report) and '
             'mercury.CalculateFee alone (rounding ties, negative quotients): the model must reproduce the bytes. '
             'mercagg: every vote table / order type of n<=4 (thorough 5) observations over {1,2,3,invalid} for each of the nine '
             'consensus functions (f=1), then structured random cases f in 1..3, 2f+1..3f+1 observations, honest values near a base, '
             'faulty values 0, +-2^k, -1.., invalid flags, forked/invented blocks, deprecated current-block fields; every case also run on a '
             'random permutation of the observation list. Distinct by SHA-1 of the input.',
        explanation='Theorems C08_* prove for all observation lists, f and faulty values: consensus timestamp/price/bid/ask/fees lie between '
                    'two valid values of correct observers when those outnumber the faulty valid ones; max-finalized timestamp / block number, '
                    'market status and latest block are values reported identically by >= f+1 observers (hence by a correct one when <= f are '
                    'faulty), for every map iteration order; fewer than f+1 usable values give an error. The models are compared with the '
                    'exported Go functions on generated cases inside Coq and the predicate is evaluated on the Go results. "A value from a correct '
                    'observer" is grounded in the code a correct observer runs: MercuryObserve.v models MercuryPlugin.Observation (v1-v4), '
                    'mercury.CalculateFee and proto.Marshal of the observation messages (byte-exact against the real functions, projection '
                    'mercobserve); C08_correct_observation_is_counted proves every correct node parses a correct node\'s bytes as exactly the '
                    'sender\'s data-source values, and C08_consensus_benchmark_between_data_sources / _link_fee_between_computed_fees / '
                    '_timestamp_between_clocks state the honest-range theorems end to end, from data-source values and clocks of the correct '
                    'senders plus arbitrary bytes from the others to the consensus value.',
        assumptions=['sort.Slice returns a sorted permutation (insertion sort modelled, exact for n<=12; integer keys, so ties are identical)',
                     'the wall clock (time.Now) is an input of the Observation model: the correspondence hands the model the second the implementation used',
                     'data sources return typed values (int64 / uint32 / *big.Int non-nil): ds_typed'],
        level_text='Coq theorems for all lists/f/adversaries about the modelled Mercury consensus functions (medians in the honest range, '
                   'f+1-agreement selectors with an honest witness, errors below f+1); models tied to mercury.GetConsensus*, '
                   'v1.GetConsensus*, v4.GetConsensusMarketStatus by differential testing.',
        level_note='Trusted: Coq kernel + vm_compute; hand-written models of the aggregate functions; harness PAO stub. Axioms: none.',
    ),
    'C15': dict(
        level='proof',
        projections=[dict(name='agg', args=['-kinds', '2'], n_quick=1200, n_thorough=30000)],
        rule='agg(mode): every assignment of n<=3 (thorough 4) values from {1.0, 1, 2, nil} x taggings, then structured random cases with '
             'honest observers agreeing on one of three candidates, faulty values of any type incl. copies (vote stuffing); each case is also '
             'run on a random permutation. Distinct by SHA-1 of the input.',
        explanation='Theorems C15_* prove that the model of ModeAggregator returns a value only if >= f+1 values of the most common type '
                    'serialise to identical bytes (and then the decoding of exactly those bytes), that with <= f faulty values a correct '
                    'observer reported it, that the result is invariant under every permutation of the list, and that otherwise it errs. '
                    'The model (including the protobuf wire encoding used as the comparison key) is compared with llo.ModeAggregator; the '
                    'predicate is evaluated on the Go results. End to end (C15_llo_mode_from_a_correct_data_source): the Decimal / Quote the new '
                    'outcome holds for a (stream, mode) pair is a value some correct node\'s data source returned.',
        assumptions=['proto.Marshal of the quote / timestamped-value messages is as modelled in Wire.v (compared on every run)'],
        level_text='Coq theorems for all lists and f about the modelled mode aggregator: f+1 byte-identical reports needed, honest witness, '
                   'permutation invariance (fixed tie-break), error otherwise; model tied to llo.ModeAggregator by differential testing.',
        level_note='Trusted: Coq kernel + vm_compute; hand-written model incl. protobuf wire encoding of stream values; harness. Axioms: none.',
    ),
}

HIST_RULE = ("history: random multi-round histories of one or two LLO instances (predecessor/successor sharing a mock retirement cache); "
             "f in 1..2 (thorough 1..3), n = 3f+1, protocol version 0/1, intervals {1, 5e8, 1e9, 2^40, 2^64-1}; honest observations come from the "
             "real Plugin.Observation (mock caches), up to f arbitrary observers per ordinary round, and coordinated rounds in which every "
             "observation is scripted and each motion (remove, add/replace incl. competing definitions, retire, good/forged attestation, "
             "too-few-values) is carried by exactly f, f+1 or 2f+1 observers; timestamps forward/backward/repeating, sub-second and multi-second; "
             "targets with additions, in-place replacements (resolution-changing format swaps) and removals; skipped sequence numbers; "
             "hand-built previous outcomes (any stage string, dangling validity starts, aggregates of every type). Each round is evaluated "
             "from the implementation's own previous outcome. A case is one history; distinct by SHA-1 of its input.")
HIST_N = dict(n_quick=96, n_thorough=600)
BRANCH_NAMES['history'] = ['rounds', 'channel_reports', 'promotions', 'retirements', 'erroring_rounds', 'outcome_bytes_compared', 'rounds_run_from_observation_bytes']


def hist_prop(idx, expl, assume):
    return dict(
        level='proof',
        projections=[dict(name='history', spec_index=idx, **HIST_N)],
        rule=HIST_RULE,
        explanation=expl + " The model of Plugin.outcome / Plugin.reports (coq/theories/Outcome.v) is run by Coq on every round of generated "
                    "histories from the implementation's own previous outcome and compared with the decoded Outcome result and the Report "
                    "structs handed to the report codecs; on small rounds the wire-to-wire model (observation bytes and previous outcome bytes in, "
                    "outcome bytes out) must reproduce the bytes Outcome returned exactly, and BytesHistory proves that byte-level histories "
                    "abstract to the struct-level histories the theorems are stated over (C03_wire_history_abstracts, *_on_the_wire); the property "
                    "predicate is evaluated on the implementation's outcomes/reports.",
        assumptions=[assume, 'libocr delivers only observations that passed ValidateObservation, at most one per oracle'],
        level_text="Coq theorems about the model of the LLO outcome/report functions over all states, observation lists and histories; model tied "
                   "to llo.Plugin.Outcome/Reports by a per-round differential check evaluated inside Coq.",
        level_note="Trusted: Coq kernel + vm_compute; hand-written model (Outcome.v) of plugin_outcome.go/plugin_reports.go incl. the outcome "
                   "codec's effect on the state; std++ gmap; harness mocks (caches, recording codec). Axioms: none.",
    )


PROPS['C03'] = hist_prop(2,
    "Theorems C03_* prove over arbitrary histories of committed outcomes (any timestamps, any votes, no honesty assumption) that "
    "consecutive reports of a channel chain: start = previous observation timestamp (floored to seconds under version 0), start < end, "
    "different seconds for one-second formats, hence adjacent disjoint on-chain windows, as long as the channel is not voted out and "
    "no promotion intervenes (C04 covers that link).",
    "accepted configurations: (version 0, interval 0) or (version 1, interval >= 1), as DecodeOffchainConfig enforces after the D5 repair")
PROPS['C04'] = hist_prop(3,
    "Theorems C04_* prove: the predecessor's recorded validity start is where its last report ended, whatever follows (incl. "
    "retirement); a retired instance emits only the retirement report carrying those starts; promotion needs a verified attestation "
    "and adopts its starts; the successor's first report of a listed channel starts exactly there however late the channel is "
    "defined; non-production reports are specimen. The predecessor law, promotion-adopts and the handover start are also stated over "
    "byte-level histories of Plugin.Outcome (C04_*_on_the_wire).",
    "attestation verification (CheckAttestedRetirementReport) is external and assumed sound: GoodAttest va = the predecessor's report")
PROPS['C05'] = hist_prop(4,
    "Theorems C05_* prove for any previous outcome and any observation list: initial stage by presence of a predecessor; stage only "
    "moves staging -> production -> retired; a retired outcome stays retired with the same channel set and unchanged existing "
    "validity starts, emits exactly the retirement report and no channel report; specimen flag = not production.",
    "none beyond the model/implementation correspondence")
PROPS['C06'] = hist_prop(5,
    "Theorems C06_* prove for any f, previous outcome and observation list: every channel addition/replacement/removal has more than "
    "f votes for exactly that change among the accepted observations; retirement needs more than f retire votes; promotion needs a "
    "verified attestation carried by an observation (and a configured predecessor); with at most f faulty observers and correct "
    "ones not voting nothing changes; a retired instance ignores all votes. End to end (C06_def_change_traces_to_correct_cache, "
    "C06_stage_change_traces_back): with at most f senders of arbitrary bytes a change of the channel set traces back to some correct node's "
    "definitions cache, a retirement to a correct node's ShouldRetire cache, a promotion to a verified attestation. The two vote laws "
    "are also stated for one byte-level call of Plugin.Outcome (C06_*_on_the_wire: votes counted over the observation bytes that decode).",
    "MakeChannelHash (SHA-256) is collision-free on the definitions voted in a round (votes are grouped by (id, definition))")
PROPS['C18'] = hist_prop(7,
    "Theorems C18_* prove for one outcome step from any state: a timestamped aggregate of a still-referenced (stream, aggregator) "
    "pair is kept, replaced by a strictly newer one, or by a non-timestamped value only if aggregation yields one; when aggregation "
    "fails it is carried forward bit for bit; aggregates of unreferenced pairs are dropped. The same three laws are stated for one "
    "byte-level call of Plugin.Outcome (C18_*_on_the_wire), the observed-at monotonicity over byte-level histories.",
    "none beyond the model/implementation correspondence")
PROPS['C02']['projections'].append(dict(name='history', spec_index=1, n_quick=60, n_thorough=600))
PROPS['C02']['projections'].append(dict(name='observe', spec_index=1, n_quick=300, n_thorough=8000))

BRANCH_NAMES['determinism'] = ['evaluations', 'rounds']
PROPS['C01'] = dict(
    level='proof',
    projections=[dict(name='determinism', spec_index=1, n_quick=60, n_thorough=600),
                 dict(name='history', spec_index=None, n_quick=96, n_thorough=600),
                 dict(name='agg', args=['-kinds', '0,1,2'], spec_index=1, n_quick=900, n_thorough=20000)],
    rule="determinism: every round of directed histories (two competing definitions with f+1 votes each, ...) and of generated histories "
         "(order-stress: 2..22 channels over 4 streams under 3 aggregators, competing definitions, equal-count type/mode ties, numerically equal "
         "decimals; plus random histories) is re-evaluated k=12 (thorough 100) times on freshly built plugin instances, Outcome bytes and "
         "Reports (JSON codec bytes + info) compared; history/agg: see C03/C02. Distinct by SHA-1 of the input.",
    explanation="Theorems C01_* prove that every map-iteration site of the consensus code is insensitive to the iteration order: sort of "
                "entries with distinct keys is unique, the channel-definition update of Plugin.outcome (removal loop, candidate slice sorted by "
                "(id, hash)), ReportableChannels, the mode tie-break and the Mercury frequency-map selectors give one result for every "
                "permutation; C01_outcome_step_order_independent composes them: the WHOLE Plugin.outcome step with an explicit, arbitrary "
                "iteration order at each of its five range-over-map sites commits the same outcome (and fails under every order if it "
                "fails under one); the pre-repair id-only comparator is refuted by a witness. All model functions are pure functions of "
                "(config, seqNr, previous outcome, observations). The implementation is checked against this by repeated evaluation on fresh "
                "instances (byte comparison) and by the per-round correspondence of the history projection.",
    assumptions=["MakeChannelHash (SHA-256) distinguishes distinct definitions of one channel id",
                 "Go's sort.Slice and protobuf deterministic marshalling are functions of their input"],
    level_text="Coq theorems that the modelled consensus functions are insensitive to Go's map iteration order at every range site, plus "
               "repeated evaluation of the real Outcome/Reports on fresh plugin instances with byte comparison.",
    level_note="Trusted: Coq kernel + vm_compute; hand-written model; the clause about other processes/restarts is covered by fresh "
               "factory-built instances (no shared state), not by separate OS processes in the quick tier. Axioms: none.",
)

BRANCH_NAMES['outcodec'] = ['encode_ok', 'encode_err', 'mutated_msg_decodes', 'mutated_msg_rejected']
PROPS['C10'] = dict(
    level='proof',
    projections=[dict(name='outcodec', spec_index=1, n_quick=450, n_thorough=9000)],
    rule="outcodec: outcomes for both codec versions with 0..8 channels (one with 40, thorough 2000), ids/formats/stream ids over the full "
         "uint32 range incl. boundaries, opts bytes, validity starts over the full uint64 range (v1) and around the uint32-seconds limit (v0), "
         "timestamps around MaxInt64, aggregates of every value type incl. negative, huge-scale, negative-zero decimals and nested timestamped "
         "values; each encoded, re-encoded from rebuilt maps, decoded, re-encoded; plus structure-aware mutated messages (nil definitions, "
         "duplicate ids, nil/unknown/negative-typed values, truncated decimals, wrong gob version, negative timestamp). Distinct by SHA-1.",
    explanation="Theorems C10_* prove the protobuf wire layer round-trip (varints, fields), the binary round-trip of every stream value, that "
                "the flattened slices are canonical (sorted by distinct ids, any map order), that decoding any byte string is total (never a "
                "panic) and that version 0 only encodes representable values. The byte-level model of both codecs is compared with the Go "
                "codecs on every run (Encode bytes predicted exactly, Decode structure), and the C10 predicate (fields preserved, v0 seconds, "
                "canonical, decode-then-encode stable, no panic) is evaluated on the Go results. The composed statements are Coq theorems: "
                "C10_decode_encode (for every well-formed outcome of any size, decode(encode o) = the outcome, validity starts floored to "
                "seconds under version 0), C10_fields_preserved (field by field), C10_reencode_stable (encode(decode(encode o)) gives the "
                "same bytes), C10_decoded_outcome_wf / C10_decode_reencode_v1 (arbitrary bytes: whatever decodes is well-formed and "
                "re-encodes), and C10_plugin_outcome_refines: Plugin.Outcome at byte level (PluginOutcome.plugin_outcome, whose output is "
                "compared byte for byte with Go's Outcome on every history round) decodes to exactly the struct-level step the history "
                "theorems are about.",
    assumptions=["protobuf-go byte-level decoding of arbitrary input is as modelled in Wire.v (compared on generated and mutated messages)",
                 "lifecycle stage strings are ASCII (reachable states hold three ASCII constants)"],
    level_text="Coq theorems for the wire layer, stream-value round-trip, canonical ordering, total decoding and v0 range errors over a "
               "byte-level model of the two outcome codecs, composed into decode(encode o) = o (v0: seconds), field preservation and "
               "re-encode stability for whole outcomes of any size; model tied to the Go codecs by byte-exact differential testing.",
    level_note="Trusted: Coq kernel + vm_compute; hand-written byte-level model of protobuf-go marshalling for these messages; harness. Axioms: none.",
)

BRANCH_NAMES['codecs16'] = ['observation', 'mutated_obs_decodes', 'mutated_obs_rejected', 'stream_value', 'raw_stream_value', 'offchain', 'offchain_raw',
                            'llo_onchain', 'mercury_onchain', 'int192', 'int192_raw', 'json_go_only']
PROPS['C16'] = dict(
    level='proof',
    projections=[dict(name='codecs16', spec_index=1, n_quick=900, n_thorough=20000),
                 dict(name='mercobserve', spec_index=1, n_quick=800, n_thorough=20000)],
    rule="codecs16: observations built over the full uint32/uint64 ranges (removal ids, definition votes, values of every type, sign, magnitude, "
         "scale, negative zero, nested timestamped values) encoded/decoded by the factory-built plugin's ObservationCodec and validated; "
         "structure-aware mutated observation messages (duplicate removal ids, nil / unknown / negative-typed values, timestamped value "
         "without inner value, negative legacy timestamp, nil definitions); stream values through MarshalBinary/UnmarshalProtoStreamValue incl. "
         "truncated and random bytes; LLO offchain configs incl. the D5 witnesses and random bytes; LLO/Mercury onchain configs with version "
         "words up to 2^255, negative, min>max, wrong lengths; int192 boundary values; retirement reports and Mercury offchain configs (JSON, "
         "implementation-only round trip). Distinct by SHA-1 of the input.",
    explanation="Theorems C16_* prove the binary round-trip of every stream value, the LLO offchain config accept-iff-valid law (D5), the "
                "two's-complement word codecs (int192, onchain configs) with their range/length/version/min<=max rejections. The byte-level "
                "models (incl. the observation decoder over proto maps in any order and ValidateObservation) are compared with the Go "
                "decoders on every run and the round-trip / rejection predicate is evaluated on the Go results. C16_observation_roundtrip proves "
                "the observation envelope at byte level for ANY order of the proto map entries and removal ids (full uint64 timestamps via "
                "the legacy/new field pair, duplicate removal id refused); the encoder model reproduces Go's Encode bytes exactly once told "
                "the map order Go used (checked on every observation case). C16_retirement_roundtrip proves the retirement report's JSON "
                "transport at byte level (model = Go's json.Marshal bytes exactly: keys sorted as strings, nil map = null). The Mercury offchain "
                "config (JSON with a quoted decimal) is modelled byte-exactly too (C16_mercury_offchain_roundtrip). The JSON decoders are "
                "modelled on the canonical shapes their encoders produce; encoding/json's leniency on other inputs is library behaviour.",
    assumptions=["protobuf-go / encoding/json library behaviour as modelled or exercised", "byte strings are shorter than 2^64 bytes"],
    level_text="Coq theorems for stream-value, config and int192 codecs (round trip, accept-iff-valid, rejections) over byte-level models tied "
               "to the Go codecs by differential testing, incl. the byte-level observation envelope for any proto-map order and the "
               "retirement report's and the Mercury offchain config's JSON forms (canonical shapes; encoding/json leniency not modelled).",
    level_note="Trusted: Coq kernel + vm_compute; hand-written byte-level models; harness. Axioms: none.",
)

BRANCH_NAMES['mercreport'] = ['rounds', 'reported', 'declined', 'errors']
MERC_RULE = ("mercreport: threaded histories (2..10 rounds) of MercuryPlugin.Report for v1..v4 built through the real factories with a recording "
             "codec; f in 1..3, 2f+1..3f+1 observations, up to f faulty ones (extreme prices +-2^k, wrong-length int192 bytes, invalid flags, "
             "timestamps 0 / 2^32-1, forked/duplicate/short-hash/negative blocks, undecodable bytes), honest nodes lagging, coordinated splits "
             "of the max-finalized votes between extreme candidates; on-chain ranges incl. negative min and 2^191-1, windows 0..2^32-1, "
             "timestamps near 2^32; codec modes ok/empty/too-long/error; previous report threaded / absent / unreadable / at 2^32-1; "
             "directed equal-count and unequal-split vote tables; each round re-evaluated on fresh plugins. Distinct by SHA-1.")
PROPS['C07'] = dict(
    level='proof', projections=[dict(name='mercreport', spec_index=1, n_quick=250, n_thorough=3000)], rule=MERC_RULE,
    explanation="Theorems C07_* prove for all configurations, previous reports and observation lists that whenever the modelled Report returns "
                "shouldReport=true the fields satisfy every invariant of the property (price ranges, v3 bid<=mid<=ask, fees in [0, MaxInt192], "
                "validFrom <= ts <= expiresAt = ts + window <= 2^32-1, v1 block range and 32-byte hash, v4 status with f+1 votes, report "
                "non-empty and within the maximum length), and otherwise it errs or declines without fields. The model is compared with the "
                "four real plugins round by round; the invariants are also evaluated on the fields the real plugins handed to the codec.",
    assumptions=["the report codec is any function; only the length of its output matters for these invariants"],
    level_text="Coq theorems over the model of Mercury v1-v4 Report (parse, consensus, validateReport) for all inputs; tied to the Go plugins by "
               "differential testing through the real factories.",
    level_note="Trusted: Coq kernel + vm_compute; hand-written model of mercury/v*/mercury.go and validation.go; protobuf decoding of the "
               "observation messages is taken at message level. Axioms: none.",
)
PROPS['C09'] = dict(
    level='proof', projections=[dict(name='mercreport', spec_index=2, n_quick=250, n_thorough=3000),
                                dict(name='mercobserve', spec_index=1, n_quick=800, n_thorough=20000)], rule=MERC_RULE,
    explanation="Theorems C09_* prove: with a previous report the start is exactly one past its end without wrap (B2) and not after the new "
                "end; over any threaded history the windows of consecutive emitted reports are adjacent and disjoint; declining carries no "
                "fields, and a round whose consensus end lies below previous end + 1 with nothing else wrong answers (false, nil), never an "
                "error (C09_v234_must_decline; the evaluator judges the same condition on the implementation's own answer, v1 included). The bootstrap start (one past the greatest value with f+1 votes, or the timestamp when negative; overflow repaired, "
                "B8) is checked on the implementation by the predicate; the model agrees with the plugins on every generated round.",
    assumptions=["codec_consistent: the codec reads back the timestamp / block number a report was built with",
                 "observation timestamps are uint32 (>= 0)"],
    level_text="Coq theorems about chaining of the modelled Mercury reports over all threaded histories; tied to the Go plugins by differential "
               "testing with a faithful recording codec.",
    level_note="Trusted: Coq kernel + vm_compute; hand-written model; external report codec represented by what the plugin uses of it. Axioms: none.",
)
PROPS['C01']['projections'].append(dict(name='mercreport', spec_index=3, n_quick=250, n_thorough=3000))

BRANCH_NAMES['evmcodec'] = ['cases', 'verified', 'ok', 'err', 'panic']
EVMCODEC_RULE = ("evmcodec: the three codecs in equal shares; channel options produced as JSON text (feed ids incl. zero, windows 0 / 2^31 / 2^32-1 / "
                 "at the 32-bit expiry edge, base fees of either sign, zero, 1e40-scale, multipliers 10^k / negative / zero / hex, ABI type lists over "
                 "all (u)int8..256 with nested two-element encoders and the bytes0 sentinel, malformed and unknown-field JSON), decoded by the real "
                 "Decode methods; reports with observation seconds at 0 / 2^31 / 2^32 edges, validAfter before / at / after the timestamp, values "
                 "aimed at each declared type's min-1..max+1 after multiplication with random fractional tails, fees at 2^192 and at exact rounding "
                 "ties, nil / quote / timestamped / wrong-kind values, wrong value counts, specimen reports; six fixed witnesses (F3, F4, B3, D6). "
                 "Distinct by SHA-1 of the input.")
PROPS['C12'] = dict(
    level='proof',
    projections=[dict(name='evmcodec', spec_index=1, strict_index=2, n_quick=1500, n_thorough=40000)],
    rule=EVMCODEC_RULE,
    explanation="Theorems C12_* prove for every parsed option set and report that a successful encoding of the modelled premium-legacy, "
                "ABI-encode-unpacked and streamlined codecs reads back, under an independent layout reader, as exactly the fields the property "
                "names (feed id, validFrom, timestamp, round-half-up fees, expiresAt, truncated products in their declared integer types; "
                "fee and truncation values are proved unique), that unfit fields make success impossible, that specimen reports are refused, "
                "and that a panic can only come from the fee division in the F4 region. The statement without the F3/F4 hypotheses is refuted "
                "by witnesses (C12_expiry_wraps_refuted, C12_fee_panics_refuted = the recorded findings). The model is compared byte for byte "
                "with the Go codecs (real JSON option decoding) on every run and the same reader is evaluated on the Go output.",
    assumptions=["report timestamps are uint64 (>= 0); feed ids are 32 bytes; channel options are taken after the real JSON decoding",
                 "go-ethereum abi.Arguments.Pack of static words, shopspring/decimal Mul/DivRound/BigInt as modelled (compared on every run)"],
    level_text="Coq theorems over the model of the three EVM report codecs, CalculateFee and ExtractTimestamps for all options and reports "
               "(soundness against an independent ABI layout reader, failure when unfit, specimen refusal, panic only in F4); tied to the Go "
               "codecs by byte-for-byte differential testing; F3 and F4 are recorded known findings with refutation witnesses.",
    level_note="Trusted: Coq kernel + vm_compute; hand-written model; JSON decoding of channel options is performed by the real code in the "
               "harness and not modelled; harness. Axioms: none.",
)

BRANCH_NAMES['textforms'] = ['cases', 'outside-modelled-syntax', 'text', 'parse', 'report', 'decode', 'pack', 'pack_bytes_exact']
PROPS['C17'] = dict(
    level='proof',
    projections=[dict(name='textforms', spec_index=1, n_quick=1500, n_thorough=30000)],
    rule="textforms: stream values with decimals of either sign, exponents in [-40,40], up to 60 digits, zero and negative zero, trailing "
         "fraction zeros, fewer digits than the scale; quotes of such decimals; timestamped values nested up to depth 3 with timestamps over the "
         "full uint64 range (0, 1, 2^64-1); through MarshalText and UnmarshalTypedTextStreamValue. 60 fixed texts (signs, lone dots, exponents, "
         "unanchored quote matches, timestamp 2^64, reordered / spaced JSON, unknown types) and valid texts with 1-3 byte mutations through the "
         "parser. Reports with 0..5 values incl. nil values and SeqNr 0 through JSONReportCodec.Encode/Decode; Decode of documents with bad / "
         "upper-case / short / long digests, SeqNr 0, unknown value types, malformed texts; Pack/Unpack with 0..5 signatures of 0..69 bytes and "
         "unsorted signers, the expectation taken from an independent copy. Distinct by SHA-1 of the input.",
    explanation="Theorems C17_* prove for all decimals (any sign, magnitude, scale), quotes, timestamped values of any nesting depth with "
                "uint64 timestamps, reports and packed tuples that the modelled text / JSON forms parse back to the same value (numerically "
                "equal decimals, identical everything else): Decimal.String -> NewFromString, the quote and timestamped-value regular "
                "expressions (their source text is regenerated from /repo and must equal the modelled expressions), the JSON {t,v} envelope "
                "with string escaping, hex digests, SeqNr check. The model is compared with the Go functions on every run (texts byte for "
                "byte; the JSON report and the packed tuple also BYTE FOR BYTE on the encoder side - incl. base64 signatures - with readers for exactly "
                "those shapes run on the real bytes: C17_json_report_roundtrip_bytes, C17_pack_unpack_bytes, C17_unpack_decode_bytes, "
                "C17_signature_base64_roundtrip) and the round-trip predicate is evaluated on the Go results (Pack, Unpack, UnpackDecode).",
    assumptions=["JSONReportCodec.Encode is modelled byte for byte (json_report_bytes = json.Marshal's output, compared on every run; "
                 "C17_json_report_roundtrip_bytes reads those bytes back); encoding/json's DEcoder is modelled only on that canonical shape: its "
                 "treatment of other JSON (whitespace, field order, duplicates, scientific notation) is library behaviour, taken at struct "
                 "level in TDecode cases or counted as outside-modelled-syntax; Pack/Unpack are at struct level",
                 "reports carry SeqNr >= 1 (Decode rejects 0)", "report passed to Pack is the compact JSON produced by Encode"],
    level_text="Coq theorems (unbounded size, depth and digits) over byte-level models of the stream value text forms and struct-level models of "
               "the JSON report codec and Pack/Unpack; regular expressions regenerated from /repo; tied to the Go code by differential testing.",
    level_note="Trusted: Coq kernel + vm_compute; hand-written models; tools/srcscan extraction of the two regular expressions; encoding/json and "
               "base64 taken at struct level; harness. Axioms: none.",
)

BRANCH_NAMES['nopanic'] = ['validate', 'outcome', 'reports', 'observation', 'mercury', 'decoders', 'evm-nil-values', 'panics']
PROPS['C11'] = dict(
    level='proof',
    projections=[dict(name='reportsflow', spec_index=1, n_quick=400, n_thorough=10000), dict(name='observe', spec_index=1, n_quick=300, n_thorough=8000), dict(name='mercobserve', spec_index=1, n_quick=800, n_thorough=20000), dict(name='nopanic', spec_index=1, n_quick=3000, n_thorough=100000),
                 dict(name='evmcodec', spec_index=3, strict_index=4, n_quick=1500, n_thorough=40000)],
    rule="nopanic: under recover(): ValidateObservation, Outcome (observations first filtered by the real ValidateObservation; previous outcome "
         "random / structure-aware mutated / valid with missing aggregates; retirement report with and without channels), Reports (telemetry "
         "channels set and unset, outcomes with missing and nil aggregates, formats without codec), Observation (arbitrary previous outcome), "
         "Mercury v1-v4 Report (valid observations mixed with undecodable ones, mutated ones, arbitrary previous report; result compared with "
         "the run without the garbage), 20 public decoders on random bytes, bit flips / truncations / duplicated spans of valid encodings, "
         "hand-mutated protobuf messages (nil nested messages, unknown and negative enum values, duplicate fields), EVM and JSON codecs "
         "with nil / wrong-kind values and unverified definitions; fixed witnesses for D4, B5 and the nil-map promotion. "
         "evmcodec: see C12 (its panic list). Distinct by SHA-1 of the input.",
    explanation="Theorems C11_* prove for all byte strings / inputs that the modelled decoders (observation, outcome, stream value, typed text, "
                "JSON report), the LLO outcome step on observations that passed validation (with the refutation showing validation is needed), "
                "the aggregators, Mercury v1-v4 Report and all six Mercury consensus functions, and the streamlined codec never reach a Panic "
                "result; the premium-legacy codec only in the F4 region (refuted there: known finding). Invalid Mercury observations are "
                "proved to be ignored. The models are tied to the code by the other projections; this projection runs every real entry "
                "point on adversarial bytes under recover() and is the search for a failing input.",
    assumptions=["an external report codec (Mercury) does not panic itself", "decimal exponents are int32 (as decoded)",
                 "third-party byte decoders (protobuf-go, encoding/json, go-ethereum abi) are exercised, not modelled: PARTIAL"],
    level_text="Coq theorems that the Panic result of every modelled entry point is unreachable (all inputs); third-party byte decoders are "
               "only exercised under recover() (partial).",
    level_note="Trusted: Coq kernel + vm_compute; hand-written models tied to the code by the history/outcodec/codecs16/mercreport/evmcodec/"
               "textforms projections; harness recover() wrappers. Axioms: none. PARTIAL for third-party decoders.",
)

BRANCH_NAMES['mtls'] = ['handshake-established', 'handshake-rejected', 'verify-accepted', 'verify-rejected', 'constructor', 'concurrency-runs']
PROPS['C20'] = dict(
    level='proof',
    projections=[dict(name='mtls', spec_index=1, n_quick=150, n_thorough=3000, timeout=1500)],
    rule="mtls: the full listed/unlisted matrix (client listed or not x server listed or not x one-element or padded allow-lists) and random "
         "allow-list pairs over 2..6 keys, each a complete connection attempt (both handshakes plus one application-data round trip) between "
         "mtls.NewTransportCredentials endpoints; six sequences over long-lived mtls.NewTLSConfig endpoints whose allow-lists are replaced between connections (listed, dropped, listed again, on either side); VerifyPeerCertificate on no certificate, one listed / unlisted Ed25519, two certificates, "
         "an ECDSA certificate, truncated and empty DER; ValidPublicKeysFromEd25519 on empty lists and key lengths 0, 31, 32, 33, 64; a stress run "
         "of 6 goroutines verifying a key in both lists and a key in neither and reading Keys() while Replace alternates between two lists "
         "(3000 rounds; thorough 200000), and the same run under the Go race detector (go test -race). Distinct by SHA-1 of the input.",
    explanation="The lock/access programs of every function in rpc/mtls/mtls.go that touches the allow-list are regenerated from the source by "
                "tools/srcscan on every run; obligation C20_gen_programs_well_locked checks they obey the RWMutex discipline. Theorems C20_* then "
                "prove, for any number of goroutines running well-locked programs under sync.RWMutex semantics and any schedule, that a write of "
                "the list is never concurrent with another access (no data race) and that every verification reads the initial list or the "
                "complete new list of some Replace (so a key in both is never rejected, a key in neither never accepted); and that verification "
                "accepts exactly one parsable Ed25519 certificate with a listed key. The verification function is compared with the real "
                "VerifyPeerCertificate and with full TLS 1.3 connections; the concurrency claims are exercised by a stress run and the race detector.",
    assumptions=["sync.RWMutex provides the modelled exclusion; slice header reads and writes are atomic when not racing",
                 "crypto/tls calls VerifyPeerCertificate with the peer's certificates on both sides when ClientAuth requires a certificate (exercised)",
                 "x509 parsing and Ed25519 signatures are the Go standard library's (exercised, not modelled)"],
    level_text="Coq theorems over a small-step model of goroutines under RWMutex semantics (all thread counts and schedules) whose programs are "
               "translated from rpc/mtls/mtls.go on every run, plus the verification function; tied to the code by the translator, the handshake "
               "matrix and the race detector.",
    level_note="Trusted: Coq kernel + vm_compute; tools/srcscan translator (go/ast) of lock and field accesses; the RWMutex and memory-model "
               "abstraction; crypto/tls, x509. Axioms: none.",
)

BRANCH_NAMES['cost'] = ['measurements', 'inputs-of-100kB-or-more']
PROPS['C19'] = dict(
    level='other',
    projections=[dict(name='cost', spec_index=1, n_quick=1, n_thorough=1, timeout=1500)],
    rule="cost: fixed adversarial families measured on one goroutine after a GC (allocated bytes from runtime.MemStats, wall time, the better of "
         "two samples when slow): observations holding one timestamped value nested 1..3000 deep (thorough 12000) through ValidateObservation; "
         "10 / 1000 / 10000 / 10001 stream values; 5 definitions of 10..3000 streams with zero aggregators (B9) and with valid ones; 1 kB..1 MiB of "
         "random bytes; 5..300000 distinct channel ids to remove; 1..2000 channels sharing one mode-aggregated stream with 100 kB values; decimals with 100 B..100 kB coefficients through Outcome, Reports and the JSON codec; 3 observations x up to 3000 "
         "streams through Outcome and Reports; up to 3000 unencodable values through the ABI-encode-unpacked codec; decimals of scale +-40 and "
         "the F2 witnesses (scale -4000000 in a median, +4000000 in the EVM codec). Bound checked per case: 8 MiB + 256 B per input byte "
         "allocated, 1 s + 2 us per input byte. All cases are distinct by construction; none is trivial.",
    explanation="Theorems C19_* are about cost MODELS: the repaired nested-value decoder copies at most 4x the input at any depth while the "
                "pinned one is quadratic (refutation = D7), validation visits each vote and value once, and one decimal comparison materialises "
                "a number of digits that no function of the input size bounds (refutation = known finding F2). Whether the code meets a fixed "
                "cost per input byte is decided by measurement on adversarial families, with the allocation count as the noise-free signal. "
                "The measurement found a genuine defect (B9, nested errors.Join, 37 s for a 250 kB observation), repaired by a fix: commit.",
    assumptions=["the Go allocator's TotalAlloc is a faithful proxy for bytes copied", "measurements run on an otherwise idle core"],
    level_text="PARTIAL. Coq theorems hold for cost models of the decoder, validation and decimal comparison (linear bound, quadratic and "
               "unbounded refutations); the code itself is measured (allocated bytes and time per input byte on adversarial input families), "
               "not proved: a machine-checked proof cannot exhibit CPU time or allocator behaviour.",
    level_note="Technique: Coq proof about cost models + measurement harness. Trusted: Coq kernel; that the cost models describe the code "
               "(checked only by measurement); runtime.MemStats. Axioms: none.",
)

BRANCH_NAMES['converge'] = ['histories', 'rounds', 'histories-ending-at-the-target']
PROPS['C14'] = dict(
    level='proof',
    projections=[dict(name='observe', spec_index=1, n_quick=300, n_thorough=8000), dict(name='converge', spec_index=1, strict_index=2, n_quick=40, n_thorough=600, timeout=1500),
                 dict(name='history', spec_index=6, **HIST_N)],
    rule="converge: chained Observation -> ValidateObservation -> Outcome rounds of the real plugin (bound + 1..3 rounds) from a starting channel "
         "set towards a fixed target, f = 1..3, f+1..2f+1 correct observers and up to f faulty ones voting random removals and competing "
         "definitions every round. Directed: 2000 channels with 5 / 7 ids swapped (at the cap), 1998 channels + additions and in-place "
         "replacements, a 2010-channel target, two channels sharing 5001 streams under different aggregators (10002 pairs), exactly 10000 and "
         "10001 unique streams, the F1 witness, empty start / empty target; then random sets of 0..25 channels incl. targets derived from the "
         "start. Per round Coq receives the accepted votes and the implementation's definition diff. history: see C03 (its C14 predicate). "
         "Distinct by SHA-1 of the input.",
    explanation="Theorems C14_* prove on the model of plugin_outcome.go's definition step, for every hash function, f, current and target set and "
                "every vote pattern of at most f faulty observers among >= f+1 correct ones: the 2000-channel cap always holds (also as an invariant of "
                "whole histories of Plugin.outcome and of byte-level histories of Plugin.Outcome: C14_cap_history, C14_cap_on_the_wire); only changes "
                "voted by correct nodes happen; one round performs exactly the first 5 removals and first 5 additions/replacements (pointwise); "
                "the distance lists shrink by 5 each round, so after ceil(max(#remove,#add-or-replace)/5) rounds the set equals the target and "
                "then stays equal (also end to end over histories of rounds on the wire: C14_llo_agreed_round / _stays_at_target / _convergence, from the "
                "correct nodes' definition caches to the committed outcomes); what a correct node sends always passes ValidateObservation, as a struct and as "
                "bytes (C14_honest_observation_validates, C14_correct_bytes_validate, using that "
                "VerifyChannelDefinitions is monotone in the channel set). H_cap (ids of current and target together fit the cap) is the only size hypothesis; at the cap itself and "
                "for the stream-count limit (never refuses: known finding F1 outside H_streams) the harness decides on the real plugin chain. "
                "The model's step is compared with the real Outcome on every generated round and the property predicate (votes accepted, no "
                "refusal, bound met, cap) is evaluated on the real results.",
    assumptions=["all correct nodes see the same valid target from some round on; at least f+1 correct and at most f faulty accepted observations per round; instance not retired",
                 "H_cap: size(dom current ∪ dom target) <= 2000 (theorems); H_streams: the union has <= 10000 unique streams (else known finding F1)"],
    level_text="Coq theorems over all histories of rounds (unbounded length, any faulty votes) about the modelled definition step with the votes of "
               "correct nodes: cap, vote determination, exact per-round progress, convergence within the bound, stability; tied to the Go "
               "plugin by a per-round differential check of chained real rounds. PARTIAL at the cap (H_cap) and for validation acceptance "
               "of the votes (checked on the implementation).",
    level_note="Trusted: Coq kernel + vm_compute; hand-written model of the vote computation and the definition step; harness mocks. Axioms: none.",
)


def load_known_findings(root):
    p = os.path.join(root, 'known_findings.jsonl')
    out = []
    if os.path.exists(p):
        for line in open(p):
            line = line.strip()
            if line and not line.startswith('#'):
                out.append(json.loads(line))
    return out


def match_known(kf, pid, case):
    """a known finding suppresses a failing case only when the case carries the finding's tag, which the
    harness sets from the finding's input-class matcher (e.g. ts_sec + window >= 2^32 for F3)"""
    tags = set(case.get('tags') or [])
    for k in kf:
        if k.get('status') == 'known' and k['property'] == pid and k.get('tag') in tags:
            return k
    return None
