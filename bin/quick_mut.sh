#!/bin/sh
# quick_mut.sh <seed_id> <projection> <n> [extra harness args]: apply patch, run one projection with the mutated harness, show R, revert
sid=$1; proj=$2; n=$3; shift 3
cd /repo && git apply /verif/seeded/$sid/patch.diff || exit 1
export GOFLAGS=-mod=mod GOPROXY=off
cd /verif/harness && go build -o /tmp/harness_mut . 2>&1 | tail -3
cd /repo && git checkout -- .
rm -rf /tmp/qm_$sid && /tmp/harness_mut $proj -seed 11 -n $n -out /tmp/qm_$sid "$@" 2>&1 | tail -2
cd /tmp/qm_$sid && ls cases_*.v | xargs -P 8 -n 1 coqc -R /verif/coq/theories DS -R /verif/coq/gen DS 2>&1 | tr '\n' ' ' | sed 's/R = /\nR = /g' | sed 's/: list nat.*//' | grep "R =" | head -5
echo "== $sid done"; rm -rf /tmp/qm_$sid
