From Coq Require Import List Arith Lia Permutation.
Import ListNotations.
Section S.
Context {A : Type}.

Fixpoint pick (k : nat) (l : list A) : option (A * list A) :=
  match l with
  | [] => None
  | x :: xs => match k with
               | O => Some (x, xs)
               | S k' => match pick k' xs with Some (y, r) => Some (y, x :: r) | None => None end
               end
  end.

Fixpoint shuffle_aux (fuel : nat) (code : list nat) (l : list A) : list A :=
  match fuel with
  | O => []
  | S fu => match l with
            | [] => []
            | _ => match pick (hd 0 code mod length l) l with
                   | Some (y, r) => y :: shuffle_aux fu (tl code) r
                   | None => []
                   end
            end
  end.
Definition shuffle (code : list nat) (l : list A) := shuffle_aux (length l) code l.

Lemma pick_some k l : k < length l -> exists y r, pick k l = Some (y, r) /\ Permutation (y :: r) l /\ S (length r) = length l.
Proof.
  revert k. induction l as [|x xs IH]; intros k Hk; [simpl in Hk; lia|].
  destruct k as [|k].
  - exists x, xs. repeat split; auto.
  - assert (Hk' : k < length xs) by (simpl in Hk; lia).
    destruct (IH k Hk') as (y & r & Hp & Hperm & Hlen).
    exists y, (x :: r). cbn [pick]. rewrite Hp. repeat split.
    + rewrite perm_swap. constructor. exact Hperm.
    + simpl. lia.
Qed.

Lemma shuffle_aux_perm fuel code l : length l <= fuel -> Permutation (shuffle_aux fuel code l) l.
Proof.
  revert code l. induction fuel as [|fu IH]; intros code l Hl.
  - destruct l; simpl in *; [constructor|lia].
  - destruct l as [|x xs]; [constructor|].
    cbn [shuffle_aux].
    set (k := hd 0 code mod length (x :: xs)).
    assert (Hk : k < length (x :: xs)) by (apply Nat.mod_upper_bound; simpl; lia).
    destruct (pick_some k (x :: xs) Hk) as (y & r & Hp & Hperm & Hlen). rewrite Hp.
    etransitivity; [|exact Hperm]. constructor. apply IH. simpl in *. lia.
Qed.
Lemma shuffle_perm code l : Permutation (shuffle code l) l.
Proof. apply shuffle_aux_perm. lia. Qed.

Lemma in_pick y l : In y l -> exists k r, k < length l /\ pick k l = Some (y, r).
Proof.
  induction l as [|x xs IH]; intros H; [destruct H|].
  destruct H as [->|H].
  - exists 0, xs. simpl. split; [lia|reflexivity].
  - destruct (IH H) as (k & r & Hk & Hp). exists (S k), (x :: r). cbn [pick]. rewrite Hp. split; [simpl; lia|reflexivity].
Qed.

Lemma shuffle_aux_complete fuel : forall l l', length l <= fuel -> Permutation l l' -> exists code, shuffle_aux fuel code l = l'.
Proof.
  induction fuel as [|fu IH]; intros l l' Hl Hperm.
  - destruct l; simpl in Hl; [|lia]. apply Permutation_nil in Hperm. subst. exists []. reflexivity.
  - destruct l' as [|y l''].
    + apply Permutation_sym, Permutation_nil in Hperm. subst. exists []. reflexivity.
    + assert (Hin : In y l) by (eapply Permutation_in; [apply Permutation_sym; exact Hperm|left; reflexivity]).
      destruct (in_pick y l Hin) as (k & r & Hk & Hp).
      destruct (pick_some k l Hk) as (y0 & r0 & Hp0 & Hperm0 & Hlen0). rewrite Hp in Hp0. inversion Hp0; subst y0 r0.
      assert (Hr : Permutation r l'').
      { apply (Permutation_cons_inv (a := y)). etransitivity; [exact Hperm0|exact Hperm]. }
      destruct (IH r l'' ltac:(lia) Hr) as (code' & Hc).
      exists (k :: code'). destruct l as [|x xs]; [simpl in Hk; lia|].
      cbn [shuffle_aux hd tl]. rewrite Nat.mod_small by exact Hk. rewrite Hp. rewrite Hc. reflexivity.
Qed.
Theorem shuffle_complete l l' : Permutation l l' -> exists code, shuffle code l = l'.
Proof. intros H. apply shuffle_aux_complete; [lia|exact H]. Qed.

Context {B : Type} (step : B -> A -> B).
Hypothesis comm : forall a x y, step (step a x) y = step (step a y) x.
Lemma fold_perm_comm l l' : Permutation l l' -> forall a, fold_left step l a = fold_left step l' a.
Proof.
  induction 1; intros a; simpl; auto.
  - rewrite comm. reflexivity.
  - rewrite IHPermutation1. apply IHPermutation2.
Qed.
Corollary range_order_independent code l a : fold_left step (shuffle code l) a = fold_left step l a.
Proof. apply fold_perm_comm, shuffle_perm. Qed.
End S.
Print Assumptions shuffle_complete.
Print Assumptions range_order_independent.
Eval vm_compute in shuffle [2;0;5;1] [10;20;30;40;50].
