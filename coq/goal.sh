#!/bin/sh
# usage: goal.sh <file.v> <line> : prints the proof state before <line>
cd "$(dirname "$0")"
f=$1; n=$2
head -n $((n-1)) "$f" > /tmp/_goal.v
echo "Show. " >> /tmp/_goal.v
coqc -R theories DS -R gen DS -R proofs DS -R props DS /tmp/_goal.v 2>&1 | tail -${3:-40}
