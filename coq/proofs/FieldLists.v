(* FieldLists.v — a protobuf message body seen as a list of field specifications.
   Every encoder of the model is a concatenation of f_varint / f_bytes / f_msg pieces; this file proves once and
   for all that parsing such a concatenation yields exactly the raw fields one expects, and characterises the four
   accessors (last_varint, last_bytes, merged_msg, all_bytes) on them.  Used by the whole-message round-trip
   proofs (outcome codec C10, observation codec C16). *)
From DS Require Import Base Wire BaseProofs WireProofs.
From Coq Require Import Lia.
Open Scope Z_scope.

(* FV/FB: proto3 implicit presence (zero / empty not emitted); FVA: a varint that is always emitted (map-entry keys);
   FM: an embedded message that is present *)
Inductive fspec := FV (k v : Z) | FB (k : Z) (b : bytes) | FM (k : Z) (body : bytes) | FVA (k v : Z).

Definition enc_f (s : fspec) : bytes :=
  match s with FV k v => f_varint k v | FB k b => f_bytes k b | FM k b => f_msg k b | FVA k v => tag k 0 ++ varint v end.
Definition raw_f (s : fspec) : list rawfield :=
  match s with
  | FV k v => if v =? 0 then [] else [(k, RVarint v)]
  | FB k b => match b with [] => [] | _ => [(k, RBytes b)] end
  | FM k b => [(k, RBytes b)]
  | FVA k v => [(k, RVarint v)]
  end.
Definition fkey (s : fspec) : Z := match s with FV k _ | FB k _ | FM k _ | FVA k _ => k end.
Definition fspec_ok (s : fspec) : Prop :=
  match s with
  | FV k v | FVA k v => field_ok k /\ 0 <= v < 2 ^ 64
  | FB k b | FM k b => field_ok k /\ Z.of_nat (length b) < 2 ^ 64
  end.

Definition enc_fs (l : list fspec) : bytes := flat_map enc_f l.
Definition raw_fs (l : list fspec) : list rawfield := flat_map raw_f l.

Lemma parse_fields_varint_always k v rest :
  field_ok k -> 0 <= v < 2 ^ 64 ->
  parse_fields ((tag k 0 ++ varint v) ++ rest) = option_map (cons (k, RVarint v)) (parse_fields rest).
Proof.
  intros Hk Hv. unfold parse_fields at 1. cbn [parse_fields_fuel]. rewrite <- !app_assoc.
  destruct (tag k 0 ++ varint v ++ rest) as [|b bs] eqn:Eb.
  { exfalso. unfold tag in Eb. destruct (varint (k * 8 + 0)) eqn:Ev; [apply varint_nonempty in Ev; exact Ev|discriminate]. }
  rewrite <- Eb. rewrite (tag_parse k 0) by (assumption || lia).
  replace ((k * 8 + 0) / 8) with k by (unfold field_ok in Hk; lia).
  replace ((k * 8 + 0) mod 8) with 0 by lia.
  unfold field_ok in Hk.
  destruct ((k <? 1) || (2 ^ 29 <=? k)) eqn:Ek; [lia|]. simpl.
  rewrite parse_varint_varint by lia.
  rewrite parse_fields_fuel_parse; [reflexivity|].
  unfold tag. rewrite !app_length.
  pose proof (varint_nonempty (k * 8 + 0)). destruct (varint (k * 8 + 0)); [congruence|]. simpl. lia.
Qed.

Theorem parse_enc_fs l : Forall fspec_ok l -> parse_fields (enc_fs l) = Some (raw_fs l).
Proof.
  induction l as [|s l IH]; intros H; [reflexivity|].
  inversion H as [|? ? Hs Hl]; subst. specialize (IH Hl).
  unfold enc_fs, raw_fs in *. cbn [flat_map].
  destruct s as [k v|k b|k b|k v]; cbn [enc_f raw_f fspec_ok] in *.
  - destruct Hs as [Hk Hv]. destruct (v =? 0) eqn:E.
    + unfold f_varint. rewrite E. exact IH.
    + rewrite parse_fields_varint_field by (assumption || lia). rewrite IH. reflexivity.
  - destruct Hs as [Hk Hb]. destruct b as [|x b]; [exact IH|].
    rewrite parse_fields_bytes_field by (assumption || discriminate). rewrite IH. reflexivity.
  - destruct Hs as [Hk Hb]. rewrite parse_fields_msg_field by assumption. rewrite IH. reflexivity.
  - destruct Hs as [Hk Hv]. rewrite parse_fields_varint_always by assumption. rewrite IH. reflexivity.
Qed.

Lemma enc_fs_app a b : enc_fs (a ++ b) = enc_fs a ++ enc_fs b.
Proof. apply flat_map_app. Qed.
Lemma raw_fs_app a b : raw_fs (a ++ b) = raw_fs a ++ raw_fs b.
Proof. apply flat_map_app. Qed.
Lemma enc_fs_map_FM {A} k (g : A -> bytes) l : enc_fs (map (fun x => FM k (g x)) l) = flat_map (fun x => f_msg k (g x)) l.
Proof. induction l as [|x l IH]; [reflexivity|]. unfold enc_fs in *. cbn [map flat_map enc_f]. rewrite IH. reflexivity. Qed.

(* ---------- accessors ---------- *)
Definition nokey (k : Z) (fs : list rawfield) : Prop := Forall (fun f => fst f <> k) fs.
Definition nospec (k : Z) (l : list fspec) : Prop := Forall (fun s => fkey s <> k) l.

Lemma nokey_raw k l : nospec k l -> nokey k (raw_fs l).
Proof.
  induction l as [|s l IH]; intros H; [constructor|].
  inversion H as [|? ? Hs Hl]; subst. unfold raw_fs. cbn [flat_map]. apply Forall_app. split; [|exact (IH Hl)].
  destruct s as [k' v|k' b|k' b|k' v]; cbn [raw_f fkey] in *.
  - destruct (v =? 0); repeat constructor. exact Hs.
  - destruct b; repeat constructor. exact Hs.
  - repeat constructor. exact Hs.
  - repeat constructor. exact Hs.
Qed.
Lemma nospec_map_FM {A} k k' (g : A -> bytes) l : k' <> k -> nospec k (map (fun x => FM k' (g x)) l).
Proof. intros H. induction l; constructor; [exact H|assumption]. Qed.

Definition lv_step (k : Z) (acc : Z) (f : rawfield) : Z := match f with (k', RVarint v) => if k' =? k then v else acc | _ => acc end.
Definition lb_step (k : Z) (acc : bytes) (f : rawfield) : bytes := match f with (k', RBytes b) => if k' =? k then b else acc | _ => acc end.
Definition mm_step (k : Z) (acc : option bytes) (f : rawfield) : option bytes :=
  match f with
  | (k', RBytes b) => if k' =? k then Some (match acc with Some a => a ++ b | None => b end) else acc
  | _ => acc end.
Lemma last_varint_fold k fs : last_varint k fs = fold_left (lv_step k) fs 0. Proof. reflexivity. Qed.
Lemma last_bytes_fold k fs : last_bytes k fs = fold_left (lb_step k) fs []. Proof. reflexivity. Qed.
Lemma merged_msg_fold k fs : merged_msg k fs = fold_left (mm_step k) fs None. Proof. reflexivity. Qed.

Lemma fold_nokey_varint k fs acc : nokey k fs -> fold_left (lv_step k) fs acc = acc.
Proof.
  revert acc. induction fs as [|[k' r] fs IH]; intros acc H; [reflexivity|].
  inversion H as [|? ? Hk Hr]; subst. cbn [fold_left]. simpl in Hk.
  destruct r; cbn [lv_step lb_step mm_step]; try (apply IH; exact Hr). destruct (k' =? k) eqn:E; [lia|]. apply IH. exact Hr.
Qed.
Lemma fold_nokey_bytes k fs acc : nokey k fs -> fold_left (lb_step k) fs acc = acc.
Proof.
  revert acc. induction fs as [|[k' r] fs IH]; intros acc H; [reflexivity|].
  inversion H as [|? ? Hk Hr]; subst. cbn [fold_left]. simpl in Hk.
  destruct r; cbn [lv_step lb_step mm_step]; try (apply IH; exact Hr). destruct (k' =? k) eqn:E; [lia|]. apply IH. exact Hr.
Qed.
Lemma fold_nokey_merged k fs acc : nokey k fs -> fold_left (mm_step k) fs acc = acc.
Proof.
  revert acc. induction fs as [|[k' r] fs IH]; intros acc H; [reflexivity|].
  inversion H as [|? ? Hk Hr]; subst. cbn [fold_left]. simpl in Hk.
  destruct r; cbn [lv_step lb_step mm_step]; try (apply IH; exact Hr). destruct (k' =? k) eqn:E; [lia|]. apply IH. exact Hr.
Qed.
Lemma all_bytes_nokey k fs : nokey k fs -> all_bytes k fs = [].
Proof.
  induction fs as [|[k' r] fs IH]; intros H; [reflexivity|].
  inversion H as [|? ? Hk Hr]; subst. unfold all_bytes in *. cbn [flat_map]. rewrite (IH Hr). simpl in Hk.
  destruct r; try reflexivity. destruct (k' =? k) eqn:E; [lia|reflexivity].
Qed.
Lemma all_bytes_app k a b : all_bytes k (a ++ b) = all_bytes k a ++ all_bytes k b.
Proof. apply flat_map_app. Qed.

(* a scalar field that occurs once, anywhere in the message *)
Theorem last_varint_spec k v pre post : nospec k pre -> nospec k post ->
  last_varint k (raw_fs (pre ++ FV k v :: post)) = v.
Proof.
  intros Hp Hq. rewrite raw_fs_app, last_varint_fold. rewrite fold_left_app.
  rewrite (fold_nokey_varint k _ 0 (nokey_raw k pre Hp)).
  change (raw_fs (FV k v :: post)) with (raw_f (FV k v) ++ raw_fs post). rewrite fold_left_app.
  rewrite (fold_nokey_varint k _ _ (nokey_raw k post Hq)).
  cbn [raw_f]. destruct (v =? 0) eqn:E; cbn [fold_left lv_step]; [lia|]. rewrite Z.eqb_refl. reflexivity.
Qed.
Theorem last_bytes_spec k b pre post : nospec k pre -> nospec k post ->
  last_bytes k (raw_fs (pre ++ FB k b :: post)) = b.
Proof.
  intros Hp Hq. rewrite raw_fs_app, last_bytes_fold. rewrite fold_left_app.
  rewrite (fold_nokey_bytes k _ [] (nokey_raw k pre Hp)).
  change (raw_fs (FB k b :: post)) with (raw_f (FB k b) ++ raw_fs post). rewrite fold_left_app.
  rewrite (fold_nokey_bytes k _ _ (nokey_raw k post Hq)).
  cbn [raw_f]. destruct b; cbn [fold_left lb_step]; [reflexivity|]. rewrite Z.eqb_refl. reflexivity.
Qed.
Theorem merged_msg_spec k b pre post : nospec k pre -> nospec k post ->
  merged_msg k (raw_fs (pre ++ FM k b :: post)) = Some b.
Proof.
  intros Hp Hq. rewrite raw_fs_app, merged_msg_fold. rewrite fold_left_app.
  rewrite (fold_nokey_merged k _ None (nokey_raw k pre Hp)).
  change (raw_fs (FM k b :: post)) with (raw_f (FM k b) ++ raw_fs post). rewrite fold_left_app.
  rewrite (fold_nokey_merged k _ _ (nokey_raw k post Hq)).
  cbn [raw_f fold_left mm_step]. rewrite Z.eqb_refl. reflexivity.
Qed.
Theorem last_varint_always_spec k v pre post : nospec k pre -> nospec k post ->
  last_varint k (raw_fs (pre ++ FVA k v :: post)) = v.
Proof.
  intros Hp Hq. rewrite raw_fs_app, last_varint_fold. rewrite fold_left_app.
  rewrite (fold_nokey_varint k _ 0 (nokey_raw k pre Hp)).
  change (raw_fs (FVA k v :: post)) with (raw_f (FVA k v) ++ raw_fs post). rewrite fold_left_app.
  rewrite (fold_nokey_varint k _ _ (nokey_raw k post Hq)).
  cbn [raw_f fold_left lv_step]. rewrite Z.eqb_refl. reflexivity.
Qed.
(* a field that is absent reads as the zero value *)
Theorem last_varint_absent k l : nospec k l -> last_varint k (raw_fs l) = 0.
Proof. intros H. rewrite last_varint_fold. apply fold_nokey_varint. apply nokey_raw. exact H. Qed.
Theorem merged_msg_absent k l : nospec k l -> merged_msg k (raw_fs l) = None.
Proof. intros H. rewrite merged_msg_fold. apply fold_nokey_merged. apply nokey_raw. exact H. Qed.

(* a repeated embedded message *)
Lemma all_bytes_map_FM {A} k (g : A -> bytes) l : all_bytes k (raw_fs (map (fun x => FM k (g x)) l)) = map g l.
Proof.
  induction l as [|x l IH]; [reflexivity|]. unfold all_bytes, raw_fs in *. cbn [map flat_map raw_f].
  cbn [app flat_map]. rewrite Z.eqb_refl. cbn [app]. rewrite IH. reflexivity.
Qed.
Theorem all_bytes_spec {A} k (g : A -> bytes) l pre post : nospec k pre -> nospec k post ->
  all_bytes k (raw_fs (pre ++ map (fun x => FM k (g x)) l ++ post)) = map g l.
Proof.
  intros Hp Hq. rewrite !raw_fs_app, !all_bytes_app.
  rewrite (all_bytes_nokey k _ (nokey_raw k pre Hp)), (all_bytes_nokey k _ (nokey_raw k post Hq)).
  rewrite all_bytes_map_FM, app_nil_r. reflexivity.
Qed.

(* ---------- lengths: every piece is no longer than the whole ---------- *)
Lemma length_f_msg k b : (length b <= length (f_msg k b))%nat.
Proof. unfold f_msg. rewrite !app_length. lia. Qed.
Lemma length_f_bytes k b : (length b <= length (f_bytes k b))%nat.
Proof. unfold f_bytes. destruct b; [simpl; lia|]. rewrite !app_length. lia. Qed.
Lemma length_flat_map_in {A} (f : A -> bytes) x l : In x l -> (length (f x) <= length (flat_map f l))%nat.
Proof.
  induction l as [|y l IH]; intros H; [destruct H|]. cbn [flat_map]. rewrite app_length.
  destruct H as [->|H]; [lia|]. specialize (IH H). lia.
Qed.

Ltac nospec_tac :=
  repeat first [ apply Forall_nil | apply Forall_cons; [cbn [fkey]; lia|] | apply Forall_app; split
               | apply nospec_map_FM; lia ].
