(* BytesHistory.v — the history theorems hold of the plugin as it exists on the wire.
   A byte-level event is one successful call of Plugin.Outcome: observation bytes and previous-outcome bytes in, outcome
   bytes out (PluginOutcomeBytes.plugin_outcome_bytes, the function the `history` projection compares byte for byte with
   the implementation).  Byte-level events linked by "the bytes returned are the bytes handed to the next round" abstract
   (decode everything) to a linked history of struct-level events of Outcome.outcome_step — the objects C03_chain, the
   lifecycle theorems of C05, the vote theorems of C06 and C18's monotonicity are stated over. *)
From stdpp Require Import gmap.
From DS Require Import Base Decimal StreamValue Wire Sort Aggregators RepoConstants Outcome OutcomeCodec Observe ObservationCodec
  PluginOutcome PluginOutcomeBytes.
From DS Require Import SortProofs OutcomeProofs StepTheorems HistoryProofs OutcomeCodecProofs FieldLists OutcomeRoundTrip ReportsNoPanic
  DecodedWf AggWf StepBytes DecodedObsWf.
From Coq Require Import Lia.
Open Scope Z_scope.

Lemma encode_commit_ok pver o bs : encode_outcome pver o = Ok bs -> exists o', codec_commit pver o = Ok o'.
Proof.
  unfold encode_outcome, codec_commit. destruct (negb (ascii_ok (stage_bytes (o_stage o)))); [discriminate|].
  destruct (pver =? 0); [|eauto].
  destruct (bool_decide (map_Forall (fun _ v => v / ns_per_s <= max_uint32) (o_va o))); [|discriminate].
  destruct (max_int64 <? o_ts o); [discriminate|eauto].
Qed.

Section Bytes.
  Context (h : Z -> chandef -> list Z) (check : list Z -> option (gmap Z Z)).

  Lemma plugin_outcome_step_ok cf seq prev aos bs :
    plugin_outcome_step h cf seq prev aos = Ok bs -> exists o, outcome_step h cf seq prev aos = Ok o.
  Proof.
    rewrite plugin_outcome_step_eq. unfold plugin_outcome_step', outcome_step.
    destruct (length aos <? 2 * c_f cf + 1)%nat; [discriminate|].
    destruct (seq <=? 1); [apply encode_commit_ok|].
    destruct (accept_observations (c_has_pred cf) aos) as [[rr obs]|e|s]; try discriminate.
    destruct obs as [|o1 obs']; [discriminate|].
    destruct (median_ts (map ob_ts (o1 :: obs'))) as [ts|e|s]; try discriminate.
    change (collect_aggs (c_f cf) prev (o1 :: obs') (referenced_pairs (new_defs h (c_f cf) _ (o_defs prev) (o1 :: obs'))))
      with (collect_aggs (c_f cf) prev (o1 :: obs') (referenced_pairs (o_defs (raw_outcome h cf prev rr (o1 :: obs') ts ∅)))).
    destruct (collect_aggs (c_f cf) prev (o1 :: obs') (referenced_pairs (o_defs (raw_outcome h cf prev rr (o1 :: obs') ts ∅)))) as [aggs|e|s]; try discriminate.
    apply encode_commit_ok.
  Qed.

  Record bevent := { bv_seq : Z; bv_obs : list (list Z); bv_prev : list Z; bv_next : list Z }.

  Definition dec_or_initial (cf : cfg) (bs : list Z) : outcome :=
    match decode_outcome (c_pver cf) bs with Ok o => o | _ => initial_outcome cf end.
  Definition abs_event (cf : cfg) (e : bevent) : event :=
    {| ev_seq := bv_seq e; ev_aos := map (obs_of_bytes check) (bv_obs e);
       ev_prev := dec_or_initial cf (bv_prev e); ev_next := dec_or_initial cf (bv_next e) |}.

  (* size side condition, checkable by evaluation: the marshalled form of every decoded value is shorter than 2^64 bytes *)
  Definition values_smallb (bs : list Z) : bool :=
    match decode_observation bs with
    | Ok ro => forallb (fun kv : Z * sval => Z.of_nat (length (sval_marshal (snd kv))) <? 2 ^ 64) (map_to_list (ro_values ro))
    | _ => true
    end.
  (* what the retirement-report cache hands back is typed: uint32 channel ids, uint64 times *)
  Definition check_typed : Prop := forall a va, check a = Some va -> map_Forall (fun c v => u32_ok c /\ u64_ok v) va.

  Lemma aos_good_of_bytes (obs : list (list Z)) : check_typed ->
    Forall bok obs -> Forall (fun bs => values_smallb bs = true) obs -> aos_good (map (obs_of_bytes check) obs).
  Proof.
    intros Hck Hb Hs. unfold aos_good. apply Forall_forall. intros o Ho. apply in_map_iff in Ho. destruct Ho as (bs & <- & Hbs).
    rewrite Forall_forall in Hb, Hs. specialize (Hb bs Hbs). specialize (Hs bs Hbs). unfold obs_of_bytes, values_smallb in *.
    destruct (decode_observation bs) as [ro| |] eqn:Ed; try exact I.
    destruct (decoded_observation_wf bs ro Ed Hb) as (Hts & _ & Hup & Hval).
    unfold obs_good, obs_of_raw. cbn [ob_ts ob_updates ob_values ob_att]. split; [exact Hts|]. split; [exact Hup|]. split.
    - intros sid v Hl. destruct (Hval sid v Hl) as [H32 Hwf]. split; [exact H32|]. split; [exact Hwf|].
      rewrite forallb_forall in Hs. assert (Hin : In (sid, v) (map_to_list (ro_values ro))) by (apply elem_of_list_In, elem_of_map_to_list; exact Hl).
      specialize (Hs _ Hin). cbn [snd] in Hs. unfold small. lia.
    - destruct (ro_att ro) as [|a0 ar]; [exact I|]. destruct (check (a0 :: ar)) as [va|] eqn:Ec; [|exact I]. exact (Hck _ _ Ec).
  Qed.

  (* one successful call on the wire.  Besides "it ran and returned these bytes": byte strings are byte strings, the
     returned message is shorter than 2^64 bytes, and values_smallb *)
  Definition bvalid (cf : cfg) (e : bevent) : Prop :=
    1 < bv_seq e /\ plugin_outcome_bytes h check cf (bv_seq e) (bv_prev e) (bv_obs e) = Ok (bv_next e) /\
    bok (bv_prev e) /\ small (bv_next e) /\ Forall bok (bv_obs e) /\ Forall (fun bs => values_smallb bs = true) (bv_obs e).
  Fixpoint blinked (es : list bevent) : Prop :=
    match es with
    | e1 :: ((e2 :: _) as r) => bv_next e1 = bv_prev e2 /\ blinked r
    | _ => True
    end.

  Theorem abs_valid cf e : check_typed -> bvalid cf e -> valid_event h cf (abs_event cf e).
  Proof.
    intros Hck (Hseq & Hrun & Hb & Hsm & Hbo & Hvs). pose proof (aos_good_of_bytes (bv_obs e) Hck Hbo Hvs) as Hg. unfold valid_event, abs_event. cbn [ev_seq ev_aos ev_prev ev_next]. split; [exact Hseq|].
    unfold plugin_outcome_bytes in Hrun.
    pose proof (plugin_outcome_refines h cf (bv_seq e) (bv_prev e) _ (bv_next e) Hb Hg Hrun Hsm) as Href.
    unfold dec_or_initial at 1.
    assert (Hok : exists o, outcome_step h cf (bv_seq e)
                   (match decode_outcome (c_pver cf) (bv_prev e) with Ok p => p | _ => initial_outcome cf end)
                   (map (obs_of_bytes check) (bv_obs e)) = Ok o).
    { unfold plugin_outcome in Hrun. destruct (bv_seq e <=? 1) eqn:Es; [lia|].
      destruct (decode_outcome (c_pver cf) (bv_prev e)) as [prev| |]; try discriminate.
      exact (plugin_outcome_step_ok cf _ prev _ _ Hrun). }
    destruct Hok as (o & Ho). rewrite Ho. unfold dec_or_initial. rewrite Href, Ho. reflexivity.
  Qed.

  Theorem abs_linked cf es : blinked es -> linked (map (abs_event cf) es).
  Proof.
    induction es as [|e1 [|e2 r] IH]; cbn [map linked blinked]; try exact (fun _ => I).
    intros [Hl Hr]. split; [|exact (IH Hr)]. cbn [abs_event ev_next ev_prev]. rewrite Hl. reflexivity.
  Qed.

  Theorem abs_history cf es : check_typed -> Forall (bvalid cf) es -> blinked es ->
    Forall (valid_event h cf) (map (abs_event cf) es) /\ linked (map (abs_event cf) es).
  Proof.
    intros Hck Hv Hl. split; [|exact (abs_linked cf es Hl)]. apply Forall_forall. intros ev Hev.
    apply in_map_iff in Hev. destruct Hev as (e & <- & He). rewrite Forall_forall in Hv. exact (abs_valid cf e Hck (Hv e He)).
  Qed.
End Bytes.

(* C03 on the wire: consecutive reports of a channel, derived from the outcome bytes of two byte-level events with no
   report of that channel in between, chain *)
Section WireChain.
  Context (h : Z -> chandef -> list Z) (check : list Z -> option (gmap Z Z)).

  Theorem chain_on_the_wire cf bj bmid bk c rj rk :
    cfg_accepted cf -> check_typed check ->
    Forall (bvalid h check cf) (bj :: bmid ++ [bk]) -> blinked (bj :: bmid ++ [bk]) ->
    report_of cf (bv_seq bj) (dec_or_initial cf (bv_next bj)) c rj ->
    report_of cf (bv_seq bk) (dec_or_initial cf (bv_next bk)) c rk ->
    (forall e, In e bmid -> reportable cf (dec_or_initial cf (bv_next e)) c = false) ->
    (forall e, In e (bmid ++ [bk]) -> ~ promotion (abs_event check cf e) /\ ~ voted_out cf (abs_event check cf e) c) ->
    r_va rk = trunc_va (c_pver cf) (r_ts rj) /\
    r_va rk < r_ts rk /\
    (c_pver cf = 0 \/ is_seconds_resolution (cd_fmt (r_def rk)) = true -> r_va rk / ns_per_s < r_ts rk / ns_per_s).
  Proof.
    intros Hacc Hck Hval Hlink Hrj Hrk Hmid Hcond.
    destruct (abs_history h check cf _ Hck Hval Hlink) as [Hv Hl].
    cbn [map] in Hv, Hl. rewrite map_app in Hv, Hl. cbn [map] in Hv, Hl.
    apply (C03_chain h cf (abs_event check cf bj) (map (abs_event check cf) bmid) (abs_event check cf bk) c rj rk Hacc Hv Hl).
    - exact Hrj.
    - exact Hrk.
    - intros e He. apply elem_of_list_In, in_map_iff in He. destruct He as (b & <- & Hb). exact (Hmid b Hb).
    - intros e He. apply elem_of_list_In in He. apply in_app_or in He. destruct He as [He|[<-|[]]].
      + apply in_map_iff in He. destruct He as (b & <- & Hb). apply Hcond. apply in_or_app. left. exact Hb.
      + apply Hcond. apply in_or_app. right. left. reflexivity.
  Qed.
End WireChain.

(* C05 / C18 on the wire: the lifecycle and observed-at laws over byte-level histories *)
From DS Require Import HistoryLifts.
Section WireLifts.
  Context (h : Z -> chandef -> list Z) (check : list Z -> option (gmap Z Z)).
  Local Notation dec := (dec_or_initial).

  Theorem stage_monotone_on_the_wire cf (bs : list bevent) (b0 : bevent) :
    check_typed check -> Forall (bvalid h check cf) (b0 :: bs) -> blinked (b0 :: bs) ->
    known_stage (o_stage (dec cf (bv_prev b0))) ->
    forall b, In b (b0 :: bs) ->
      stage_le (o_stage (dec cf (bv_prev b0))) (o_stage (dec cf (bv_next b))) /\ known_stage (o_stage (dec cf (bv_next b))).
  Proof.
    intros Hck Hv Hl Hk b Hb. destruct (abs_history h check cf _ Hck Hv Hl) as [Hv' Hl']. cbn [map] in Hv', Hl'.
    apply (stage_monotone_history h cf (map (abs_event check cf) bs) (abs_event check cf b0) Hv' Hl' Hk (abs_event check cf b)).
    apply elem_of_list_In. change (abs_event check cf b0 :: map (abs_event check cf) bs) with (map (abs_event check cf) (b0 :: bs)).
    apply in_map. exact Hb.
  Qed.

  Theorem retired_forever_on_the_wire cf (bs : list bevent) (b0 : bevent) :
    check_typed check -> Forall (bvalid h check cf) (b0 :: bs) -> blinked (b0 :: bs) ->
    o_stage (dec cf (bv_prev b0)) = Retired ->
    forall b, In b (b0 :: bs) -> o_stage (dec cf (bv_next b)) = Retired /\ o_defs (dec cf (bv_next b)) = o_defs (dec cf (bv_prev b0)).
  Proof.
    intros Hck Hv Hl Hr b Hb. destruct (abs_history h check cf _ Hck Hv Hl) as [Hv' Hl']. cbn [map] in Hv', Hl'.
    apply (retired_forever h cf (map (abs_event check cf) bs) (abs_event check cf b0) Hv' Hl' Hr (abs_event check cf b)).
    apply elem_of_list_In. change (abs_event check cf b0 :: map (abs_event check cf) bs) with (map (abs_event check cf) (b0 :: bs)).
    apply in_map. exact Hb.
  Qed.

  Theorem observed_at_nondecreasing_on_the_wire cf (bs : list bevent) (b0 : bevent) p t0 :
    check_typed check -> Forall (bvalid h check cf) (b0 :: bs) -> blinked (b0 :: bs) ->
    tsv_time (dec cf (bv_prev b0)) p = Some t0 ->
    (forall b, In b (b0 :: bs) -> p ∈ referenced_pairs (o_defs (dec cf (bv_next b))) /\ exists t, tsv_time (dec cf (bv_next b)) p = Some t) ->
    forall b t, In b (b0 :: bs) -> tsv_time (dec cf (bv_next b)) p = Some t -> t0 <= t.
  Proof.
    intros Hck Hv Hl H0 Hall b t Hb Ht. destruct (abs_history h check cf _ Hck Hv Hl) as [Hv' Hl']. cbn [map] in Hv', Hl'.
    apply (observed_at_nondecreasing h cf (map (abs_event check cf) bs) (abs_event check cf b0) p t0 Hv' Hl' H0) with (e := abs_event check cf b).
    - intros e He. apply elem_of_list_In in He.
      change (abs_event check cf b0 :: map (abs_event check cf) bs) with (map (abs_event check cf) (b0 :: bs)) in He.
      apply in_map_iff in He. destruct He as (b' & <- & Hb'). exact (Hall b' Hb').
    - apply elem_of_list_In. change (abs_event check cf b0 :: map (abs_event check cf) bs) with (map (abs_event check cf) (b0 :: bs)).
      apply in_map. exact Hb.
    - exact Ht.
  Qed.
End WireLifts.

(* C11: observations that do not decode are simply ignored when mixed with good ones *)
Definition is_decoded (o : option observation) : bool := match o with Some _ => true | None => false end.
Lemma accept_ignores_none hp aos : forall st,
  fold_left (accept_step hp) aos st = fold_left (accept_step hp) (List.filter is_decoded aos) st.
Proof.
  induction aos as [|o aos IH]; intros st; [reflexivity|]. cbn [List.filter fold_left]. destruct o as [ob|]; cbn [is_decoded fold_left].
  - apply IH.
  - rewrite <- IH. f_equal. destruct st as [[rr acc]| |]; reflexivity.
Qed.
Theorem undecodable_observations_ignored h cf seq prev aos :
  (2 * c_f cf + 1 <= length (List.filter is_decoded aos))%nat ->
  outcome_step h cf seq prev aos = outcome_step h cf seq prev (List.filter is_decoded aos).
Proof.
  intros Hlen. unfold outcome_step.
  assert (Hle : (length (List.filter is_decoded aos) <= length aos)%nat).
  { clear. induction aos as [|o l IH]; cbn [List.filter length]; [lia|]. destruct (is_decoded o); cbn [length]; lia. }
  replace (length aos <? 2 * c_f cf + 1)%nat with false by (symmetry; apply Nat.ltb_ge; lia).
  replace (length (List.filter is_decoded aos) <? 2 * c_f cf + 1)%nat with false by (symmetry; apply Nat.ltb_ge; lia).
  unfold accept_observations. rewrite (accept_ignores_none (c_has_pred cf) aos). reflexivity.
Qed.

(* C06 / C04 on the wire: the vote laws (one byte-level event) and the handover laws (byte-level histories) *)
Lemma last_map_local {A B} (f : A -> B) (l : list A) (d : A) : last (map f l) (f d) = f (last l d).
Proof. induction l as [|x [|y r] IH]; cbn [map last]; try reflexivity. exact IH. Qed.
Lemma removelast_map_local {A B} (f : A -> B) (l : list A) : removelast (map f l) = map f (removelast l).
Proof. induction l as [|x [|y r] IH]; cbn [map removelast]; try reflexivity. f_equal. exact IH. Qed.

Section WireVotes.
  Context (h : Z -> chandef -> list Z) (check : list Z -> option (gmap Z Z)).
  Local Notation dec := (dec_or_initial).
  Local Notation aosb b := (map (obs_of_bytes check) (bv_obs b)).

  (* a channel is added, replaced or removed between the bytes handed in and the bytes returned only with more than f
     votes for exactly that change among the observation bytes that decode *)
  Theorem def_change_needs_votes_on_the_wire cf b c :
    check_typed check -> bvalid h check cf b ->
    o_defs (dec cf (bv_next b)) !! c <> o_defs (dec cf (bv_prev b)) !! c ->
    exists rr obs, accept_observations (c_has_pred cf) (aosb b) = Ok (rr, obs) /\
      o_stage (dec cf (bv_prev b)) <> Retired /\ o_stage (dec cf (bv_next b)) <> Retired /\
      ((o_defs (dec cf (bv_next b)) !! c = None /\ (c_f cf < remove_votes obs c)%nat) \/
       (exists d, o_defs (dec cf (bv_next b)) !! c = Some d /\ (c_f cf < update_votes obs c d)%nat)).
  Proof.
    intros Hck Hv Hne. destruct (abs_valid h check cf b Hck Hv) as [Hseq Hstep]. cbn [abs_event ev_seq ev_aos ev_prev ev_next] in Hseq, Hstep.
    exact (def_change_needs_votes h cf _ _ _ _ c Hseq Hstep Hne).
  Qed.

  Theorem stage_change_needs_votes_or_attestation_on_the_wire cf b :
    check_typed check -> bvalid h check cf b ->
    o_stage (dec cf (bv_next b)) <> o_stage (dec cf (bv_prev b)) ->
    exists rr obs, accept_observations (c_has_pred cf) (aosb b) = Ok (rr, obs) /\
      ((o_stage (dec cf (bv_prev b)) = Staging /\
        (o_stage (dec cf (bv_next b)) = Production \/ (o_stage (dec cf (bv_next b)) = Retired /\ (c_f cf < retire_votes obs)%nat)) /\
        c_has_pred cf = true /\ exists va ob, Some ob ∈ aosb b /\ ob_att ob = GoodAttest va) \/
       (o_stage (dec cf (bv_prev b)) = Production /\ o_stage (dec cf (bv_next b)) = Retired /\ (c_f cf < retire_votes obs)%nat)).
  Proof.
    intros Hck Hv Hne. destruct (abs_valid h check cf b Hck Hv) as [Hseq Hstep]. cbn [abs_event ev_seq ev_aos ev_prev ev_next] in Hseq, Hstep.
    exact (stage_change_needs_votes_or_attestation h cf _ _ _ _ Hseq Hstep Hne).
  Qed.

  (* C04, predecessor side, over byte-level histories: the validity start recorded in the last outcome bytes is where the
     last report of c ended *)
  Theorem retirement_value_is_last_end_on_the_wire cf bj rest c rj :
    check_typed check -> Forall (bvalid h check cf) (bj :: rest) -> blinked (bj :: rest) -> rest <> [] ->
    report_of cf (bv_seq bj) (dec cf (bv_next bj)) c rj ->
    (forall b, In b (removelast rest) -> reportable cf (dec cf (bv_next b)) c = false) ->
    (forall b, In b rest -> ~ promotion (abs_event check cf b) /\ ~ voted_out cf (abs_event check cf b) c) ->
    o_va (dec cf (bv_next (last rest bj))) !! c = Some (trunc_va (c_pver cf) (r_ts rj)).
  Proof.
    intros Hck Hv Hl Hne Hrj Hnrep Hcond. destruct (abs_history h check cf _ Hck Hv Hl) as [Hv' Hl']. cbn [map] in Hv', Hl'.
    pose proof (retirement_value_is_last_end h cf (abs_event check cf bj) (map (abs_event check cf) rest) c rj Hv' Hl') as H.
    rewrite last_map_local in H. cbn [abs_event ev_next ev_seq] in H. apply H.
    - destruct rest; [congruence|discriminate].
    - exact Hrj.
    - intros e He. rewrite removelast_map_local in He. apply elem_of_list_In, in_map_iff in He. destruct He as (b & <- & Hb). exact (Hnrep b Hb).
    - intros e He. apply elem_of_list_In, in_map_iff in He. destruct He as (b & <- & Hb). exact (Hcond b Hb).
  Qed.

  (* C04, successor side: promotion on the wire adopts the attested validity starts *)
  Theorem promotion_adopts_on_the_wire cf b :
    check_typed check -> bvalid h check cf b -> promotion (abs_event check cf b) ->
    exists rva ob, Some ob ∈ aosb b /\ ob_att ob = GoodAttest rva /\ c_has_pred cf = true /\
      (rva <> ∅ -> forall c v, rva !! c = Some v -> ~ voted_out cf (abs_event check cf b) c ->
         o_va (dec cf (bv_next b)) !! c = Some (trunc_va (c_pver cf) v)).
  Proof.
    intros Hck Hv Hp. exact (promotion_adopts h cf (abs_event check cf b) (abs_valid h check cf b Hck Hv) Hp).
  Qed.

  Theorem handover_start_on_the_wire cf bp rest c v rq rva :
    check_typed check -> Forall (bvalid h check cf) (bp :: rest) -> blinked (bp :: rest) ->
    promotion (abs_event check cf bp) ->
    (exists ob, Some ob ∈ aosb bp /\ ob_att ob = GoodAttest rva) ->
    (forall rr obs, accept_observations (c_has_pred cf) (aosb bp) = Ok (rr, obs) -> rr = Some rva) ->
    rva <> ∅ -> rva !! c = Some v ->
    ~ voted_out cf (abs_event check cf bp) c ->
    (forall b, In b rest -> ~ promotion (abs_event check cf b) /\ ~ voted_out cf (abs_event check cf b) c) ->
    (forall b, In b (removelast (bp :: rest)) -> reportable cf (dec cf (bv_next b)) c = false) ->
    report_of cf (bv_seq (last rest bp)) (dec cf (bv_next (last rest bp))) c rq ->
    r_va rq = trunc_va (c_pver cf) v.
  Proof.
    intros Hck Hv Hl Hp Hob Hrr Hne Hlk Hnv Hcond Hnrep Hrq. destruct (abs_history h check cf _ Hck Hv Hl) as [Hv' Hl']. cbn [map] in Hv', Hl'.
    apply (handover_start h cf (abs_event check cf bp) (map (abs_event check cf) rest) c v rq rva Hv' Hl' Hp Hob Hrr Hne Hlk Hnv).
    - intros e He. apply elem_of_list_In, in_map_iff in He. destruct He as (b & <- & Hb). exact (Hcond b Hb).
    - intros e He. change (abs_event check cf bp :: map (abs_event check cf) rest) with (map (abs_event check cf) (bp :: rest)) in He.
      rewrite removelast_map_local in He. apply elem_of_list_In, in_map_iff in He. destruct He as (b & <- & Hb). exact (Hnrep b Hb).
    - rewrite last_map_local. exact Hrq.
  Qed.
End WireVotes.

(* C14: "at no point does an outcome hold more than 2000 channels" — over struct-level histories and over histories on the wire *)
From DS Require Import Converge ConvergeProofs.
Section CapHistory.
  Context (h : Z -> chandef -> list Z).

  Theorem cap_step cf seq prev aos next :
    1 < seq -> outcome_step h cf seq prev aos = Ok next ->
    (size (o_defs prev) <= chan_cap)%nat -> (size (o_defs next) <= chan_cap)%nat.
  Proof.
    intros Hseq Hstep Hs. destruct (outcome_step_inv h cf seq prev aos next Hseq Hstep) as (rr & obs & ts & aggs & _ & _ & _ & _ & Hc).
    destruct (codec_commit_fields _ _ _ Hc) as (_ & _ & Hd & _). rewrite Hd. cbn [raw_outcome o_defs].
    apply cap_invariant. exact Hs.
  Qed.

  Theorem cap_history cf (es : list event) (e0 : event) :
    Forall (valid_event h cf) (e0 :: es) -> linked (e0 :: es) -> (size (o_defs (ev_prev e0)) <= chan_cap)%nat ->
    forall e, e ∈ (e0 :: es) -> (size (o_defs (ev_next e)) <= chan_cap)%nat.
  Proof.
    revert e0. induction es as [|e1 es IH]; intros e0 Hv Hl Hs e He.
    - apply elem_of_list_singleton in He. subst e. inversion Hv as [|? ? [Hq H0] _]; subst. exact (cap_step cf _ _ _ _ Hq H0 Hs).
    - inversion Hv as [|? ? [Hq H0] Hv']; subst. destruct Hl as [Hlink Hl'].
      pose proof (cap_step cf _ _ _ _ Hq H0 Hs) as H1.
      apply elem_of_cons in He. destruct He as [->|He]; [exact H1|].
      rewrite Hlink in H1. exact (IH e1 Hv' Hl' H1 e He).
  Qed.

  Context (check : list Z -> option (gmap Z Z)).
  Theorem cap_on_the_wire cf (bs : list bevent) (b0 : bevent) :
    check_typed check -> Forall (bvalid h check cf) (b0 :: bs) -> blinked (b0 :: bs) ->
    (size (o_defs (dec_or_initial cf (bv_prev b0))) <= chan_cap)%nat ->
    forall b, In b (b0 :: bs) -> (size (o_defs (dec_or_initial cf (bv_next b))) <= chan_cap)%nat.
  Proof.
    intros Hck Hv Hl Hs b Hb. destruct (abs_history h check cf _ Hck Hv Hl) as [Hv' Hl']. cbn [map] in Hv', Hl'.
    apply (cap_history cf (map (abs_event check cf) bs) (abs_event check cf b0) Hv' Hl' Hs (abs_event check cf b)).
    apply elem_of_list_In. change (abs_event check cf b0 :: map (abs_event check cf) bs) with (map (abs_event check cf) (b0 :: bs)).
    apply in_map. exact Hb.
  Qed.

  (* the outcome of the first round (sequence number 1, or undecodable previous bytes) holds no channel at all *)
  Lemma initial_within_cap cf : (size (o_defs (initial_outcome cf)) <= chan_cap)%nat.
  Proof. unfold initial_outcome. cbn [o_defs]. rewrite (map_size_empty (M:=gmap Z)). lia. Qed.
End CapHistory.

(* C18 on the wire: the one-step laws for one byte-level call of Plugin.Outcome *)
Section WireTsv.
  Context (h : Z -> chandef -> list Z) (check : list Z -> option (gmap Z Z)).
  Local Notation dec := (dec_or_initial).
  Local Notation aosb b := (map (obs_of_bytes check) (bv_obs b)).

  Theorem tsv_never_goes_back_on_the_wire cf b p t0 i0 :
    check_typed check -> bvalid h check cf b ->
    o_aggs (dec cf (bv_prev b)) !! p = Some (STsv t0 i0) -> p ∈ referenced_pairs (o_defs (dec cf (bv_next b))) ->
    exists v, o_aggs (dec cf (bv_next b)) !! p = Some v /\
      (v = STsv t0 i0 \/ (exists t1 i1, v = STsv t1 i1 /\ t0 < t1) \/ match v with STsv _ _ => False | _ => True end).
  Proof.
    intros Hck Hv Hp Hr. destruct (abs_valid h check cf b Hck Hv) as [Hseq Hstep]. cbn [abs_event ev_seq ev_aos ev_prev ev_next] in Hseq, Hstep.
    exact (tsv_never_goes_back h cf _ _ _ _ p t0 i0 Hseq Hstep Hp Hr).
  Qed.

  Theorem tsv_carried_when_aggregation_fails_on_the_wire cf b sid agg t0 i0 fn e rr obs :
    check_typed check -> bvalid h check cf b ->
    accept_observations (c_has_pred cf) (aosb b) = Ok (rr, obs) ->
    o_aggs (dec cf (bv_prev b)) !! (sid, agg) = Some (STsv t0 i0) -> (sid, agg) ∈ referenced_pairs (o_defs (dec cf (bv_next b))) ->
    agg_fun agg = Some fn -> fn (stream_obs obs sid) (c_f cf) = Err e ->
    o_aggs (dec cf (bv_next b)) !! (sid, agg) = Some (STsv t0 i0).
  Proof.
    intros Hck Hv Ha Hp Hr Hf He. destruct (abs_valid h check cf b Hck Hv) as [Hseq Hstep]. cbn [abs_event ev_seq ev_aos ev_prev ev_next] in Hseq, Hstep.
    exact (tsv_carried_when_aggregation_fails h cf _ _ _ _ sid agg t0 i0 fn e rr obs Hseq Hstep Ha Hp Hr Hf He).
  Qed.

  Theorem unreferenced_dropped_on_the_wire cf b p v :
    check_typed check -> bvalid h check cf b ->
    o_aggs (dec cf (bv_next b)) !! p = Some v -> p ∈ referenced_pairs (o_defs (dec cf (bv_next b))).
  Proof.
    intros Hck Hv Hp. destruct (abs_valid h check cf b Hck Hv) as [Hseq Hstep]. cbn [abs_event ev_seq ev_aos ev_prev ev_next] in Hseq, Hstep.
    exact (unreferenced_dropped h cf _ _ _ _ p v Hseq Hstep Hp).
  Qed.
End WireTsv.
