(* Base64Proofs.v — encoding/base64 StdEncoding as modelled in JsonPackBytes: decode (encode bs) = bs for every byte string. *)
From DS Require Import Base Decimal StreamValue TextForms JsonPackBytes.
From Coq Require Import Lia ZArith.
Open Scope Z_scope.

Lemma b64i_b64c i : 0 <= i < 64 -> b64i (b64c i) = Some i.
Proof.
  intros H. unfold b64c.
  destruct (i <? 26) eqn:E1; [unfold b64i; replace ((65 <=? 65 + i) && (65 + i <=? 90)) with true by lia; f_equal; lia|].
  destruct (i <? 52) eqn:E2.
  { unfold b64i. replace ((65 <=? 71 + i) && (71 + i <=? 90)) with false by lia.
    replace ((97 <=? 71 + i) && (71 + i <=? 122)) with true by lia. f_equal; lia. }
  destruct (i <? 62) eqn:E3.
  { unfold b64i. replace ((65 <=? i - 4) && (i - 4 <=? 90)) with false by lia.
    replace ((97 <=? i - 4) && (i - 4 <=? 122)) with false by lia.
    replace ((48 <=? i - 4) && (i - 4 <=? 57)) with true by lia. f_equal; lia. }
  destruct (i =? 62) eqn:E4; [assert (i = 62) by lia; subst; reflexivity|].
  assert (i = 63) by lia. subst. reflexivity.
Qed.
Lemma b64c_not_pad i : 0 <= i < 64 -> (b64c i =? 61) = false.
Proof.
  intros H. unfold b64c. destruct (i <? 26) eqn:E1; [lia|]. destruct (i <? 52) eqn:E2; [lia|].
  destruct (i <? 62) eqn:E3; [lia|]. destruct (i =? 62); lia.
Qed.

Ltac zdm := Z.div_mod_to_equations; lia.

Lemma b64_roundtrip_fuel n : forall bs, (length bs <= n)%nat -> Forall (fun b => 0 <= b < 256) bs ->
  forall fuel, (length (b64_encode bs) < fuel)%nat -> b64_decode_fuel fuel (b64_encode bs) = Some bs.
Proof.
  induction n as [n IH] using lt_wf_ind. intros bs Hn Hb fuel Hf.
  destruct fuel as [|fuel]; [lia|].
  destruct bs as [|a [|b [|c r]]].
  - reflexivity.
  - inversion Hb as [|? ? Ha _]; subst. cbn [b64_encode b64_decode_fuel].
    rewrite !b64i_b64c by zdm. change (61 =? 61) with true. cbn [andb].
    replace (((a mod 4) * 16) mod 16 =? 0) with true by (symmetry; apply Z.eqb_eq; zdm).
    f_equal. f_equal. zdm.
  - inversion Hb as [|? ? Ha Hb']; subst. inversion Hb' as [|? ? Hbb _]; subst. cbn [b64_encode b64_decode_fuel].
    rewrite !b64i_b64c by zdm. rewrite (b64c_not_pad ((b mod 16) * 4)) by zdm. cbn [andb].
    change (61 =? 61) with true. cbv iota.
    replace (((b mod 16) * 4) mod 4 =? 0) with true by (symmetry; apply Z.eqb_eq; zdm).
    f_equal. f_equal; [zdm|]. f_equal. zdm.
  - inversion Hb as [|? ? Ha Hb']; subst. inversion Hb' as [|? ? Hbb Hb'']; subst. inversion Hb'' as [|? ? Hc Hr]; subst.
    cbn [b64_encode b64_decode_fuel].
    rewrite !b64i_b64c by zdm. rewrite (b64c_not_pad ((b mod 16) * 4 + c / 64)) by zdm. cbn [andb].
    rewrite (b64c_not_pad (c mod 64)) by zdm. cbv iota.
    cbn [b64_encode length] in Hn, Hf. rewrite (IH (length r)) by (try assumption; lia).
    f_equal. f_equal; [zdm|]. f_equal; [zdm|]. f_equal. zdm.
Qed.

Theorem b64_roundtrip bs : Forall (fun b => 0 <= b < 256) bs -> b64_decode (b64_encode bs) = Some bs.
Proof. intros Hb. unfold b64_decode. apply (b64_roundtrip_fuel (length bs)); [lia|exact Hb|lia]. Qed.
