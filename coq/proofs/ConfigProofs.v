(* ConfigProofs.v — C16: configuration and value codecs round-trip and validate. *)
From DS Require Import Base BaseProofs Wire WireProofs Config.
From Coq Require Import ZifyBool ZifyNat.

Lemma twos_read_be_bytes n v :
  (0 < n)%nat -> - 2 ^ (8 * Z.of_nat n - 1) <= v < 2 ^ (8 * Z.of_nat n - 1) ->
  twos_read (be_bytes n (v mod 2 ^ (8 * Z.of_nat n))) = v.
Proof.
  intros Hn Hv. unfold twos_read. rewrite length_be_bytes.
  set (w := 8 * Z.of_nat n) in *.
  assert (Hw : 0 < w) by lia.
  assert (Hp : 0 < 2 ^ w) by (apply Z.pow_pos_nonneg; lia).
  assert (H2 : 2 ^ w = 2 * 2 ^ (w - 1)) by (rewrite <- Z.pow_succ_r by lia; f_equal; lia).
  rewrite be_value_be_bytes.
  2:{ unfold w. rewrite pow256. apply Z.mod_pos_bound. exact Hp. }
  destruct (Z.lt_ge_cases v 0) as [Hneg|Hpos].
  - assert (Hm : v mod 2 ^ w = v + 2 ^ w) by (symmetry; apply (Z.mod_unique _ _ (-1)); lia).
    rewrite Hm. destruct (v + 2 ^ w <? 2 ^ (w - 1)) eqn:E; lia.
  - rewrite Z.mod_small by lia. destruct (v <? 2 ^ (w - 1)) eqn:E; lia.
Qed.

Theorem signed_roundtrip n v bs :
  (0 < n)%nat -> ser_signed n v = Ok bs -> deser_signed n bs = Ok v.
Proof.
  intros Hn H. unfold ser_signed in H.
  destruct ((- 2 ^ (8 * Z.of_nat n - 1) <=? v) && (v <? 2 ^ (8 * Z.of_nat n - 1))) eqn:E; [|discriminate].
  inversion H; subst. unfold deser_signed. rewrite length_be_bytes, Nat.eqb_refl.
  rewrite twos_read_be_bytes by lia. reflexivity.
Qed.

Theorem signed_range n v :
  (exists bs, ser_signed n v = Ok bs) <-> - 2 ^ (8 * Z.of_nat n - 1) <= v < 2 ^ (8 * Z.of_nat n - 1).
Proof.
  unfold ser_signed. destruct ((- 2 ^ (8 * Z.of_nat n - 1) <=? v) && (v <? 2 ^ (8 * Z.of_nat n - 1))) eqn:E; split; intros H.
  - lia.
  - eauto.
  - destruct H as [bs H]. discriminate.
  - lia.
Qed.

Lemma ser_signed_length n v bs : ser_signed n v = Ok bs -> length bs = n.
Proof.
  unfold ser_signed. destruct ((- 2 ^ (8 * Z.of_nat n - 1) <=? v) && (v <? 2 ^ (8 * Z.of_nat n - 1))); [|discriminate].
  intros H. injection H as <-. apply length_be_bytes.
Qed.

Theorem deser_rejects_wrong_length n bs : length bs <> n -> deser_signed n bs = Err EMalformed.
Proof. intros H. unfold deser_signed. destruct (length bs =? n)%nat eqn:E; [apply Nat.eqb_eq in E; congruence|reflexivity]. Qed.

(* ---- LLO offchain config ---- *)
Definition offchain_wf (c : offchain_cfg) : Prop := 0 <= oc_version c < 2 ^ 32 /\ 0 <= oc_min_interval c < 2 ^ 64.

Lemma offchain_parse c : offchain_wf c ->
  exists fs, parse_fields (offchain_encode c) = Some fs /\
             last_varint 1 fs = oc_version c /\ last_varint 2 fs = oc_min_interval c.
Proof.
  intros [Hv Hi]. unfold offchain_encode.
  assert (F1 : field_ok 1) by (unfold field_ok; lia). assert (F2 : field_ok 2) by (unfold field_ok; lia).
  destruct (Z.eq_dec (oc_version c) 0) as [E1|E1]; destruct (Z.eq_dec (oc_min_interval c) 0) as [E2|E2].
  - rewrite E1, E2. exists []. repeat split; reflexivity.
  - rewrite E1. unfold f_varint at 1. simpl app. rewrite <- (app_nil_r (f_varint 2 _)).
    rewrite parse_fields_varint_field by (assumption || lia). exists [(2, RVarint (oc_min_interval c))].
    repeat split; reflexivity.
  - rewrite E2. unfold f_varint at 2. rewrite app_nil_r. rewrite <- (app_nil_r (f_varint 1 _)).
    rewrite parse_fields_varint_field by (assumption || lia). exists [(1, RVarint (oc_version c))].
    repeat split; reflexivity.
  - rewrite parse_fields_varint_field by (assumption || lia). rewrite <- (app_nil_r (f_varint 2 _)).
    rewrite parse_fields_varint_field by (assumption || lia).
    exists [(1, RVarint (oc_version c)); (2, RVarint (oc_min_interval c))]. repeat split; reflexivity.
Qed.

(* C16: an off-chain configuration is accepted on decode exactly when it is valid *)
Theorem offchain_accept_iff_valid c : offchain_wf c ->
  (offchain_valid c = true -> offchain_decode (offchain_encode c) = Ok c) /\
  (offchain_valid c = false -> offchain_decode (offchain_encode c) = Err EInvalid).
Proof.
  intros Hwf. destruct (offchain_parse c Hwf) as (fs & Hp & H1 & H2).
  unfold offchain_decode. rewrite Hp, H1, H2. destruct Hwf as [Hv Hi]. rewrite Z.mod_small by lia.
  destruct c as [v i]. simpl in *. split; intros Hval; rewrite Hval; reflexivity.
Qed.

(* the pre-repair decoder accepted invalid configurations: the D5 witnesses *)
Example offchain_prefix_refuted :
  offchain_valid {| oc_version := 1; oc_min_interval := 0 |} = false /\
  is_ok (offchain_decode_prefix (offchain_encode {| oc_version := 1; oc_min_interval := 0 |})) = true /\
  offchain_valid {| oc_version := 7; oc_min_interval := 3 |} = false /\
  is_ok (offchain_decode_prefix (offchain_encode {| oc_version := 7; oc_min_interval := 3 |})) = true.
Proof. vm_compute. repeat split; reflexivity. Qed.

(* ---- Mercury onchain config ---- *)
Lemma firstn_app_len {A} (a b : list A) n : length a = n -> firstn n (a ++ b) = a.
Proof. intros <-. apply firstn_app_exact. Qed.
Lemma skipn_app_len {A} (a b : list A) n : length a = n -> skipn n (a ++ b) = b.
Proof. intros <-. apply skipn_app_exact. Qed.

Lemma skipn_add {A} (l : list A) : forall m n, skipn (m + n) l = skipn n (skipn m l).
Proof. induction l as [|x l IH]; intros [|m] n; simpl; try reflexivity; [destruct n; reflexivity|apply IH]. Qed.

Theorem merc_onchain_roundtrip c bs :
  merc_onchain_encode c = Ok bs -> mo_min c <= mo_max c -> merc_onchain_decode bs = Ok c.
Proof.
  unfold merc_onchain_encode. intros H Hle.
  destruct (ser_signed 32 1) as [a| |] eqn:Ea; try discriminate.
  destruct (ser_signed 32 (mo_min c)) as [b| |] eqn:Eb; try discriminate.
  destruct (ser_signed 32 (mo_max c)) as [d| |] eqn:Ed; try discriminate.
  cbn [bind] in H. injection H as <-.
  assert (La : length a = 32%nat) by (eapply ser_signed_length; exact Ea).
  assert (Lb : length b = 32%nat) by (eapply ser_signed_length; exact Eb).
  assert (Ld : length d = 32%nat) by (eapply ser_signed_length; exact Ed).
  pose proof (signed_roundtrip 32 1 a ltac:(lia) Ea) as Ra.
  pose proof (signed_roundtrip 32 _ b ltac:(lia) Eb) as Rb.
  pose proof (signed_roundtrip 32 _ d ltac:(lia) Ed) as Rd.
  unfold deser_signed in Ra, Rb, Rd. rewrite La in Ra. rewrite Lb in Rb. rewrite Ld in Rd. simpl in Ra, Rb, Rd.
  inversion Ra as [Ra']. inversion Rb as [Rb']. inversion Rd as [Rd'].
  unfold merc_onchain_decode. rewrite !app_length, La, Lb, Ld. simpl Nat.eqb. cbv iota.
  rewrite (firstn_app_len a (b ++ d) 32 La), Ra'. simpl (1 =? 1). cbv iota.
  rewrite (skipn_app_len a (b ++ d) 32 La), (firstn_app_len b d 32 Lb), Rb'.
  replace (skipn 64 (a ++ b ++ d)) with d.
  2:{ change 64%nat with (32 + 32)%nat. rewrite skipn_add, (skipn_app_len a (b ++ d) 32 La), (skipn_app_len b d 32 Lb). reflexivity. }
  rewrite Rd'. destruct (mo_min c <=? mo_max c) eqn:E; [destruct c; reflexivity|lia].
Qed.

Local Opaque firstn skipn.
Theorem merc_onchain_rejects bs c :
  merc_onchain_decode bs = Ok c -> length bs = 96%nat /\ twos_read (firstn 32 bs) = 1 /\ mo_min c <= mo_max c.
Proof.
  unfold merc_onchain_decode. destruct (length bs =? 96)%nat eqn:E1; [|discriminate].
  destruct (twos_read (firstn 32 bs) =? 1) eqn:E2; [|discriminate].
  destruct (_ <=? _) eqn:E3; [|discriminate]. intros H. injection H as <-. cbn [mo_min mo_max].
  apply Nat.eqb_eq in E1. lia.
Qed.

(* ---- LLO onchain config ---- *)
Theorem llo_onchain_roundtrip c :
  (forall d, lo_pred c = Some d -> length d = 32%nat /\ forallb (Z.eqb 0) d = false) ->
  llo_onchain_decode (llo_onchain_encode c) = Ok c.
Proof.
  intros Hd. unfold llo_onchain_encode, llo_onchain_decode.
  assert (L1 : length (be_bytes 32 1) = 32%nat) by apply length_be_bytes.
  destruct c as [[d|]]; simpl lo_pred in *.
  - destruct (Hd d eq_refl) as [Ld Hz]. rewrite app_length, L1, Ld. simpl Nat.eqb. cbv iota.
    rewrite (firstn_app_len _ d 32 L1). change (twos_read (be_bytes 32 1) =? 1) with true. cbv iota.
    rewrite (skipn_app_len _ d 32 L1), Hz. reflexivity.
  - rewrite app_length, L1, repeat_length. simpl Nat.eqb. cbv iota.
    rewrite (firstn_app_len _ _ 32 L1). change (twos_read (be_bytes 32 1) =? 1) with true. cbv iota.
    rewrite (skipn_app_len _ _ 32 L1). reflexivity.
Qed.

Theorem llo_onchain_rejects bs c :
  llo_onchain_decode bs = Ok c -> length bs = 64%nat /\ twos_read (firstn 32 bs) = 1.
Proof.
  unfold llo_onchain_decode. destruct (length bs =? 64)%nat eqn:E1; [|discriminate].
  destruct (twos_read (firstn 32 bs) =? 1) eqn:E2; [|discriminate]. intros _.
  apply Nat.eqb_eq in E1. lia.
Qed.
