(* EvmCodecProofs.v — proofs about the EVM report codec model (EvmCodecs.v) against the layout reader (EvmSpec.v). *)
From DS Require Import Base BaseProofs RepoConstants EvmInt EvmIntProofs Decimal DecimalProofs StreamValue Outcome EvmCodecs EvmSpec.
From Coq Require Import ZifyBool.
Ltac Zify.zify_post_hook ::= Z.div_mod_to_equations.

Local Opaque Z.pow.

(* ---------- decimal arithmetic ---------- *)
Lemma dz_mkdec c e : dz (mkdec c e) = c.
Proof. unfold dz, mkdec. cbn [dcoef]. apply big_toZ_ofZ. Qed.

Lemma pow10_pos' e : 0 <= e -> 0 < 10 ^ e.
Proof. intros. apply Z.pow_pos_nonneg; lia. Qed.

Lemma round_half_up aa bb : 0 < bb ->
  let f := if 2 * (aa mod bb) <? bb then aa / bb else aa / bb + 1 in
  (2 * f - 1) * bb <= 2 * aa < (2 * f + 1) * bb.
Proof.
  intros Hb. cbv zeta.
  pose proof (Z.div_mod aa bb ltac:(lia)) as Hdm.
  pose proof (Z.mod_pos_bound aa bb Hb) as Hr.
  set (q := aa / bb) in *. set (r := aa mod bb) in *.
  destruct (2 * r <? bb) eqn:E; nia.
Qed.

Lemma cross_scale f bb P aa X : 0 < bb -> 0 < P -> X * bb = aa * P ->
  (2 * f - 1) * bb <= 2 * aa < (2 * f + 1) * bb ->
  (2 * f - 1) * P <= 2 * X < (2 * f + 1) * P.
Proof.
  intros Hb HP Hx [H1 H2]. split.
  - apply (Z.mul_le_mono_pos_r _ _ bb Hb).
    replace (2 * X * bb) with (2 * aa * P) by lia.
    replace ((2 * f - 1) * P * bb) with ((2 * f - 1) * bb * P) by ring.
    apply Z.mul_le_mono_nonneg_r; lia.
  - apply (Z.mul_lt_mono_pos_r bb _ _ Hb).
    replace (2 * X * bb) with (2 * aa * P) by lia.
    replace ((2 * f + 1) * P * bb) with ((2 * f + 1) * bb * P) by ring.
    apply Z.mul_lt_mono_pos_r; lia.
Qed.

Theorem calculate_fee_ok price base f : calculate_fee price base = Ok f -> fee_ok price base f = true.
Proof.
  unfold calculate_fee, fee_ok.
  destruct ((dz base <=? 0) || (dz price <=? 0)) eqn:Enp.
  { intros H; inversion H; reflexivity. }
  destruct (negb (int32_okb (dexp base - dexp price + 18))); [discriminate|].
  intros H; inversion H as [Hf]; clear H.
  assert (Ha : 0 < dz base) by lia. assert (Hc : 0 < dz price) by lia.
  unfold scaled. fold (dz base). fold (dz price).
  set (a := dz base) in *. set (c := dz price) in *. set (eb := dexp base) in *. set (ep := dexp price) in *.
  set (e := eb - ep + 18) in *.
  set (aa := if e <? 0 then a else a * 10 ^ e) in *.
  set (bb := if e <? 0 then c * 10 ^ (- e) else c) in *.
  set (m := Z.min eb ep).
  assert (Hbb : 0 < bb).
  { subst bb. destruct (e <? 0) eqn:Ee; [|lia]. pose proof (pow10_pos' (- e) ltac:(lia)). nia. }
  assert (HP : 0 < c * 10 ^ (ep - m)).
  { pose proof (pow10_pos' (ep - m) ltac:(lia)). nia. }
  assert (Hx : (a * 10 ^ (eb - m) * 10 ^ 18) * bb = aa * (c * 10 ^ (ep - m))).
  { subst aa bb. destruct (e <? 0) eqn:Ee.
    - (* eb < ep - 18 *)
      assert (m = eb) as -> by lia. replace (eb - eb) with 0 by lia. rewrite Z.pow_0_r.
      replace (ep - eb) with (18 + (- e)) by lia. rewrite Z.pow_add_r by lia. ring.
    - destruct (Z.le_gt_cases eb ep) as [Hle|Hgt].
      + assert (m = eb) as -> by lia. replace (eb - eb) with 0 by lia. rewrite Z.pow_0_r.
        replace 18 with (e + (ep - eb)) at 1 by lia. rewrite Z.pow_add_r by lia. ring.
      + assert (m = ep) as -> by lia. replace (ep - ep) with 0 by lia. rewrite Z.pow_0_r.
        replace e with ((eb - ep) + 18) by lia. rewrite Z.pow_add_r by lia. ring. }
  pose proof (round_half_up aa bb Hbb) as Hr. cbv zeta in Hr. rewrite Hf in Hr.
  pose proof (cross_scale f bb _ aa _ Hbb HP Hx Hr) as [H1 H2].
  replace (2 * (a * 10 ^ (eb - m)) * 10 ^ 18) with (2 * (a * 10 ^ (eb - m) * 10 ^ 18)) by ring.
  lia.
Qed.

Lemma fee_ok_unique price base f1 f2 : fee_ok price base f1 = true -> fee_ok price base f2 = true -> f1 = f2.
Proof.
  unfold fee_ok. destruct ((dz base <=? 0) || (dz price <=? 0)) eqn:E; [lia|].
  set (m := Z.min (dexp base) (dexp price)).
  assert (HP : 0 < scaled price m).
  { unfold scaled. fold (dz price). pose proof (pow10_pos' (dexp price - m) ltac:(lia)). nia. }
  set (P := scaled price m) in *. set (T := 2 * scaled base m * 10 ^ 18).
  intros H1 H2.
  assert (A1 : (2 * f1 - 1) * P <= T < (2 * f1 + 1) * P) by lia.
  assert (A2 : (2 * f2 - 1) * P <= T < (2 * f2 + 1) * P) by lia.
  clear H1 H2. nia.
Qed.

Theorem apply_mult_trunc d m x : apply_mult d m = Ok x -> trunc_ok d m x = true.
Proof.
  unfold apply_mult, dec_mul. cbn [dexp mkdec]. destruct (int32_okb (dexp d + 0)); [|discriminate].
  cbn [bind]. intros H; inversion H as [Hx]; clear H.
  unfold dec_bigint, trunc_ok. rewrite !dz_mkdec. cbn [dexp mkdec].
  replace (dexp d + 0) with (dexp d) by lia.
  set (c := dz d * m). set (e := dexp d).
  destruct (e =? 0) eqn:E0.
  { assert (e = 0) as -> by lia. cbn [Z.leb Z.compare]. rewrite Z.pow_0_r. lia. }
  destruct (0 <? e) eqn:Ep.
  { destruct (0 <=? e) eqn:E1; lia. }
  destruct (0 <=? e) eqn:E1; [lia|].
  pose proof (pow10_pos' (- e) ltac:(lia)) as Hs. set (s := 10 ^ (- e)) in *.
  destruct (Z.le_gt_cases 0 c) as [Hc|Hc].
  - rewrite Z.quot_div_nonneg by lia.
    pose proof (Z.div_mod c s ltac:(lia)). pose proof (Z.mod_pos_bound c s Hs).
    assert (0 <= c / s) by (apply Z.div_pos; lia).
    set (q := c / s) in *. nia.
  - replace c with (- (- c)) by lia. rewrite Z.quot_opp_l by lia. rewrite Z.quot_div_nonneg by lia.
    pose proof (Z.div_mod (- c) s ltac:(lia)). pose proof (Z.mod_pos_bound (- c) s Hs).
    assert (0 <= (- c) / s) by (apply Z.div_pos; lia).
    set (q := (- c) / s) in *. replace (- - c) with c by lia. nia.
Qed.

Lemma trunc_ok_unique d m x1 x2 : trunc_ok d m x1 = true -> trunc_ok d m x2 = true -> x1 = x2.
Proof.
  unfold trunc_ok. destruct (0 <=? dexp d) eqn:E; [lia|].
  pose proof (pow10_pos' (- dexp d) ltac:(lia)) as Hs. set (s := 10 ^ (- dexp d)) in *. set (c := dz d * m).
  intros H1 H2.
  assert (A1 : Z.abs x1 * s <= Z.abs c < (Z.abs x1 + 1) * s) by lia.
  assert (A2 : Z.abs x2 * s <= Z.abs c < (Z.abs x2 + 1) * s) by lia.
  assert (Habs : Z.abs x1 = Z.abs x2) by nia.
  lia.
Qed.

(* ---------- words and the reader ---------- *)
Lemma p256 : 256 ^ Z.of_nat 32 = 2 ^ 256.
Proof. rewrite pow256. reflexivity. Qed.

Lemma length_word v : length (word v) = 32%nat.
Proof. apply length_be_bytes. Qed.

Lemma be_value_word v : be_value (word v) = v mod 2 ^ 256.
Proof.
  unfold word. apply be_value_be_bytes. rewrite p256. apply Z.mod_pos_bound. apply Z.pow_pos_nonneg; lia.
Qed.

Lemma pow2_le a b : 0 <= a <= b -> 2 ^ a <= 2 ^ b.
Proof. intros. apply Z.pow_le_mono_r; lia. Qed.

Lemma be_value_word_small v : 0 <= v < 2 ^ 256 -> be_value (word v) = v.
Proof. intros. rewrite be_value_word. apply Z.mod_small. lia. Qed.

Lemma twos_read_word v : - 2 ^ 255 <= v < 2 ^ 255 -> twos_read (word v) = v.
Proof.
  intros Hv. unfold twos_read. rewrite be_value_word, length_word. change (8 * Z.of_nat 32) with 256. change (256 - 1) with 255.
  assert (H256 : 2 ^ 256 = 2 * 2 ^ 255) by (rewrite <- Z.pow_succ_r by lia; reflexivity).
  destruct (Z.lt_ge_cases v 0) as [Hneg|Hpos].
  - assert (Hmod : v mod 2 ^ 256 = v + 2 ^ 256) by (symmetry; apply (Z.mod_unique _ _ (-1)); lia).
    rewrite Hmod. destruct (v + 2 ^ 256 <? 2 ^ 255) eqn:E1; lia.
  - rewrite Z.mod_small by lia. destruct (v <? 2 ^ 255) eqn:E1; lia.
Qed.

Lemma take_bytes_app n w rest : length w = n -> take_bytes n (w ++ rest) = Some (w, rest).
Proof.
  intros Hl. unfold take_bytes. rewrite app_length.
  destruct (n <=? length w + length rest)%nat eqn:E; [|apply Nat.leb_gt in E; lia].
  rewrite <- Hl. rewrite firstn_app, Nat.sub_diag, firstn_all, firstn_O, app_nil_r.
  rewrite skipn_app, Nat.sub_diag, skipn_all. reflexivity.
Qed.

Lemma take_word v rest : take_bytes 32 (word v ++ rest) = Some (word v, rest).
Proof. apply take_bytes_app, length_word. Qed.

Local Opaque word.

(* ---------- the six header words ---------- *)
Lemma u192_lt256 x : u192_okb x = true -> 0 <= x < 2 ^ 256.
Proof.
  unfold u192_okb, max_uint192. intros H. pose proof (pow2_le 192 256 ltac:(lia)). lia.
Qed.
Lemma u32_lt256 x : u32_okb x = true -> 0 <= x < 2 ^ 256.
Proof.
  unfold u32_okb, max_uint32. intros H. pose proof (pow2_le 32 256 ltac:(lia)). lia.
Qed.

Lemma header_ok_intro feed base window r np lp vf ts nf lf ex rest :
  length feed = 32%nat ->
  vf = r_va r / 10 ^ 9 + 1 -> u32_okb vf = true ->
  ts = r_ts r / 10 ^ 9 -> u32_okb ts = true ->
  fee_ok np base nf = true -> u192_okb nf = true ->
  fee_ok lp base lf = true -> u192_okb lf = true ->
  ex = r_ts r / 10 ^ 9 + window -> u32_okb ex = true ->
  header_ok feed base window r np lp (feed ++ word vf ++ word ts ++ word nf ++ word lf ++ word ex ++ rest) = Some rest.
Proof.
  intros Hl Hvf Hvf' Hts Hts' Hnf Hnf' Hlf Hlf' Hex Hex'.
  unfold header_ok.
  rewrite (take_bytes_app 32 feed _ Hl). rewrite !take_word.
  rewrite (be_value_word_small vf (u32_lt256 _ Hvf')), (be_value_word_small ts (u32_lt256 _ Hts')),
    (be_value_word_small nf (u192_lt256 _ Hnf')), (be_value_word_small lf (u192_lt256 _ Hlf')),
    (be_value_word_small ex (u32_lt256 _ Hex')).
  rewrite bytes_eqb_refl, Hvf', Hts', Hnf, Hnf', Hlf, Hlf', Hex'.
  subst vf ts ex. rewrite !Z.eqb_refl. reflexivity.
Qed.

Lemma extract_price_of v d : extract_price v = Ok d -> price_of v = Some d.
Proof. destruct v as [[d'|a b c|t i]|]; cbn; intros H; inversion H; reflexivity. Qed.

Lemma extract_timestamps_ok va ts vas ots : 0 <= va -> 0 <= ts ->
  extract_timestamps va ts = Ok (vas, ots) ->
  vas = va / 10 ^ 9 /\ ots = ts / 10 ^ 9 /\ u32_okb (vas + 1) = true /\ u32_okb ots = true.
Proof.
  intros Hva Hts. unfold extract_timestamps.
  destruct (va / 10 ^ 9 >=? max_uint32) eqn:E1; [discriminate|].
  destruct (ts / 10 ^ 9 >? max_uint32) eqn:E2; [discriminate|].
  intros H; inversion H; subst.
  assert (0 <= va / 10 ^ 9) by (apply Z.div_pos; [lia|apply pow10_pos'; lia]).
  assert (0 <= ts / 10 ^ 9) by (apply Z.div_pos; [lia|apply pow10_pos'; lia]).
  unfold u32_okb. repeat split; lia.
Qed.

Lemma add_u32_small a b : 0 <= a + b <= max_uint32 -> add_u32 a b = a + b.
Proof. unfold add_u32, max_uint32. intros. apply Z.mod_small. lia. Qed.

Lemma i192_range x : i192_okb x = true -> - 2 ^ 255 <= x < 2 ^ 255.
Proof.
  unfold i192_okb, min_int192', max_int192'. intros H. pose proof (pow2_le 191 255 ltac:(lia)). lia.
Qed.

(* ---------- premium legacy ---------- *)
Definition report_wf (r : report) : Prop := 0 <= r_va r /\ 0 <= r_ts r.

Theorem legacy_encode_sound o r bs :
  report_wf r -> length (lo_feed o) = 32%nat -> 0 <= lo_window o ->
  r_ts r / 10 ^ 9 + lo_window o <= max_uint32 ->            (* outside the F3 region *)
  legacy_encode (Some o) r = Ok bs ->
  legacy_spec o r bs = true.
Proof.
  intros [Hva Hts] Hfeed Hw HF3. unfold legacy_encode, legacy_spec.
  destruct (r_specimen r); [discriminate|].
  destruct (r_values r) as [|v0 [|v1 [|v2 [|v3 vs]]]]; try discriminate.
  destruct (extract_price v0) as [np| |] eqn:Enp; try discriminate. cbn [bind].
  destruct (extract_price v1) as [lp| |] eqn:Elp; try discriminate. cbn [bind].
  destruct v2 as [[d|bid bm ask|t i]|]; try discriminate.
  rewrite (extract_price_of _ _ Enp), (extract_price_of _ _ Elp).
  set (m := match lo_mult o with Some m => m | None => 1 end).
  assert (Hcont : forall X : res bytes, match lo_mult o with Some 0 => Err EInvalid | _ => X end = Ok bs -> X = Ok bs).
  { intros X. destruct (lo_mult o) as [[| |]|]; try discriminate; auto. }
  intros H. apply Hcont in H. clear Hcont.
  destruct (extract_timestamps (r_va r) (r_ts r)) as [[vas ots]| |] eqn:Et; try discriminate. cbn [bind] in H.
  destruct (extract_timestamps_ok _ _ _ _ Hva Hts Et) as (Hvas & Hots & Hvf & Hots').
  destruct (calculate_fee np (lo_fee o)) as [nf| |] eqn:Enf; try discriminate. cbn [bind] in H.
  destruct (calculate_fee lp (lo_fee o)) as [lf| |] eqn:Elf; try discriminate. cbn [bind] in H.
  destruct (apply_mult bm m) as [xbm| |] eqn:Ebm; try discriminate. cbn [bind] in H.
  destruct (apply_mult bid m) as [xbid| |] eqn:Ebid; try discriminate. cbn [bind] in H.
  destruct (apply_mult ask m) as [xask| |] eqn:Eask; try discriminate. cbn [bind] in H.
  destruct ((nf <? 0) || (lf <? 0) || (max_uint192 <? nf) || (max_uint192 <? lf)) eqn:Efee; [discriminate|].
  cbn [forallb] in H.
  destruct ((min_int192' <=? xbm) && (xbm <=? max_int192')) eqn:R1; [|discriminate].
  destruct ((min_int192' <=? xbid) && (xbid <=? max_int192')) eqn:R2; [|discriminate].
  destruct ((min_int192' <=? xask) && (xask <=? max_int192')) eqn:R3; [|discriminate].
  cbn [andb] in H. inversion H as [Hbs]; clear H.
  assert (Hex : add_u32 ots (lo_window o) = r_ts r / 10 ^ 9 + lo_window o).
  { subst ots. apply add_u32_small. unfold u32_okb in Hots'. lia. }
  rewrite Hex.
  rewrite (header_ok_intro (lo_feed o) (lo_fee o) (lo_window o) r np lp (vas + 1) ots nf lf _
            (word xbm ++ word xbid ++ word xask) Hfeed); try assumption; try reflexivity.
  - rewrite !take_word. rewrite (take_bytes_app 32 (word xask) [] (length_word _)) || idtac.
    replace (word xask) with (word xask ++ []) by apply app_nil_r. rewrite take_word.
    rewrite !twos_read_word by (apply i192_range; assumption).
    fold m. rewrite (apply_mult_trunc _ _ _ Ebm), (apply_mult_trunc _ _ _ Ebid), (apply_mult_trunc _ _ _ Eask).
    unfold i192_okb. rewrite R1, R2, R3. reflexivity.
  - subst vas. reflexivity.
  - apply calculate_fee_ok; exact Enf.
  - unfold u192_okb. lia.
  - apply calculate_fee_ok; exact Elf.
  - unfold u192_okb. lia.
  - unfold u32_okb. assert (0 <= r_ts r / 10 ^ 9) by (apply Z.div_pos; [lia|apply pow10_pos'; lia]). lia.
Qed.

(* ---------- per-value encoders against the reader ---------- *)
Section Values.
  Hypothesis Hc : widths_complete.

  Lemma encode_packed_parse t x b : encode_packed x t = Ok b ->
    exists sg wd, parse_type t = Some (sg, wd) /\ t = type_name sg wd /\ In wd solidity_widths.
  Proof.
    unfold encode_packed. destruct (parse_type t) as [[sg wd]|] eqn:Ep; [|discriminate].
    intros _. exists sg, wd. split; [reflexivity|]. apply (parse_type_spec t sg wd Hc). exact Ep.
  Qed.

  Lemma encode_packed_read t x b rest : encode_packed x t = Ok b ->
    exists sg wd, parse_type t = Some (sg, wd) /\
      take_bytes (Z.to_nat (wd / 8)) (b ++ rest) = Some (b, rest) /\ read_int sg b = x /\ in_rangeb sg wd x = true.
  Proof.
    intros H. destruct (encode_packed_parse t x b H) as (sg & wd & Ep & -> & Hin).
    exists sg, wd. split; [exact Ep|].
    pose proof (packed_is_twos_complement sg wd x b Hc Hin H) as (Hl & _ & _ & Hsg).
    split; [apply take_bytes_app; lia|]. split.
    - unfold read_int. destruct sg; exact Hsg.
    - apply in_rangeb_spec. apply (packed_ok_iff_in_range sg wd x Hc Hin). eauto.
  Qed.

  Lemma encode_padded_read t x b rest : encode_padded x t = Ok b ->
    exists sg wd, parse_type t = Some (sg, wd) /\
      take_bytes 32 (b ++ rest) = Some (b, rest) /\ read_int sg b = x /\ in_rangeb sg wd x = true.
  Proof.
    intros H.
    assert (Hpk : exists pb, encode_packed x t = Ok pb).
    { unfold encode_padded in H. destruct (encode_packed x t) as [pb| |]; try discriminate. eauto. }
    destruct Hpk as [pb Hpk].
    destruct (encode_packed_parse t x pb Hpk) as (sg & wd & Ep & -> & Hin).
    exists sg, wd. split; [exact Ep|].
    pose proof (padded_is_sign_extension sg wd x Hc Hin) as (_ & _ & Hps).
    destruct (Hps b H) as (Hl & _ & Hbv & Htw).
    assert (Hr : in_range sg wd x) by (apply (packed_ok_iff_in_range sg wd x Hc Hin); eauto).
    split; [apply take_bytes_app; exact Hl|]. split.
    - unfold read_int. destruct sg.
      + apply Htw. left; reflexivity.
      + rewrite Hbv. apply Z.mod_small. unfold in_range in Hr.
        destruct (in_widths wd Hin) as (k & -> & Hk). pose proof (pow2_le (8 * k) 256 ltac:(lia)). lia.
    - apply in_rangeb_spec. exact Hr.
  Qed.

  Lemma single_dec_padded_ok e d b rest : single_dec_padded e d = Ok b -> padded1_ok e d (b ++ rest) = Some rest.
  Proof.
    unfold single_dec_padded, padded1_ok.
    destruct (apply_mult d (mult_of e)) as [x| |] eqn:Ex; try discriminate. cbn [bind].
    intros H. destruct (encode_padded_read _ _ _ rest H) as (sg & wd & -> & -> & -> & ->).
    rewrite (apply_mult_trunc _ _ _ Ex). reflexivity.
  Qed.

  Lemma abi_padded_ok a v b rest : abi_padded a v = Ok b -> padded_value_ok a v (b ++ rest) = Some rest.
  Proof.
    unfold abi_padded, padded_value_ok.
    destruct v as [[d|q1 q2 q3|t inner]|]; try discriminate.
    - destruct a as [|e [|e' a']]; try discriminate. apply single_dec_padded_ok.
    - destruct a as [|e0 [|e1 [|e2 a']]]; try discriminate.
      destruct (encode_padded (t * mult_of e0) (e_type e0)) as [ts| |] eqn:Ets; try discriminate. cbn [bind].
      destruct inner as [d|q1 q2 q3|t' i']; try discriminate.
      destruct (single_dec_padded e1 d) as [dv| |] eqn:Edv; try discriminate. cbn [bind].
      intros H; inversion H; subst b. rewrite <- app_assoc.
      unfold padded_u64_ok.
      destruct (encode_padded_read _ _ _ (dv ++ rest) Ets) as (sg & wd & -> & -> & -> & ->).
      rewrite Z.eqb_refl. cbn [andb]. apply single_dec_padded_ok. exact Edv.
  Qed.

  Lemma single_packed_dec_ok e d b rest : single_packed e (SDec d) = Ok b -> packed1_ok e d (b ++ rest) = Some rest.
  Proof.
    unfold single_packed, packed1_ok. destruct (is_bytes0 e).
    { intros H; inversion H; reflexivity. }
    destruct (apply_mult d (mult_of e)) as [x| |] eqn:Ex; try discriminate. cbn [bind].
    intros H. destruct (encode_packed_read _ _ _ rest H) as (sg & wd & -> & -> & -> & ->).
    rewrite (apply_mult_trunc _ _ _ Ex). reflexivity.
  Qed.

  Lemma abi_packed_ok a v b rest : abi_packed a v = Ok b -> packed_value_ok a v (b ++ rest) = Some rest.
  Proof.
    unfold abi_packed, packed_value_ok.
    destruct v as [[d|q1 q2 q3|t inner]|]; try discriminate.
    - destruct a as [|e [|e' a']]; try discriminate. apply single_packed_dec_ok.
    - destruct a as [|e0 [|e1 [|e2 a']]]; try discriminate.
      destruct (single_u64_packed e0 t) as [ts| |] eqn:Ets; try discriminate. cbn [bind].
      destruct (single_packed e1 inner) as [dv| |] eqn:Edv; try discriminate. cbn [bind].
      intros H; inversion H; subst b. rewrite <- app_assoc.
      assert (Hts : packed_u64_ok e0 t (ts ++ dv ++ rest) = Some (dv ++ rest)).
      { unfold single_u64_packed in Ets. unfold packed_u64_ok. destruct (is_bytes0 e0).
        - inversion Ets; reflexivity.
        - destruct (encode_packed_read _ _ _ (dv ++ rest) Ets) as (sg & wd & -> & -> & -> & ->).
          rewrite Z.eqb_refl. reflexivity. }
      rewrite Hts.
      destruct inner as [d|q1 q2 q3|t' i'].
      + apply single_packed_dec_ok. exact Edv.
      + unfold single_packed in Edv. destruct (is_bytes0 e1); [inversion Edv; reflexivity|discriminate].
      + unfold single_packed in Edv. destruct (is_bytes0 e1); [inversion Edv; reflexivity|discriminate].
  Qed.

  Lemma encode_all_values_ok f g :
    (forall a v b rest, f a v = Ok b -> g a v (b ++ rest) = Some rest) ->
    forall abi vs bs, encode_all f abi vs = Ok bs -> values_ok g abi vs bs = true.
  Proof.
    intros Hfg. induction abi as [|a abi IH]; intros [|v vs] bs; cbn [encode_all values_ok]; try discriminate.
    - intros H; inversion H; reflexivity.
    - destruct (f a v) as [b|e|s] eqn:Ef.
      + destruct (encode_all f abi vs) as [restb| |] eqn:Er; try discriminate. cbn [bind].
        intros H; inversion H; subst bs. rewrite (Hfg _ _ _ restb Ef). apply IH. exact Er.
      + destruct (encode_all f abi vs); discriminate.
      + discriminate.
  Qed.

  Lemma packed_loop_values_ok : forall abi vs acc out, length abi = length vs ->
    packed_loop abi vs acc = Ok out ->
    exists tail, out = acc ++ tail /\ values_ok packed_value_ok abi vs tail = true.
  Proof.
    induction abi as [|a abi IH]; intros [|v vs] acc out Hl; cbn [packed_loop values_ok]; try discriminate.
    - intros H; inversion H. exists []. rewrite app_nil_r. split; reflexivity.
    - destruct (abi_packed a v) as [b| |] eqn:Eb; try discriminate. cbn [bind]. intros H.
      destruct (IH vs (acc ++ b) out ltac:(cbn in Hl; lia) H) as (tail & -> & Hv).
      exists (b ++ tail). rewrite <- app_assoc. split; [reflexivity|].
      rewrite (abi_packed_ok _ _ _ tail Eb). exact Hv.
  Qed.

  (* ---------- ABI-encode-unpacked ---------- *)
  Theorem unpacked_encode_sound o r bs :
    report_wf r -> length (uo_feed o) = 32%nat -> 0 <= uo_window o ->
    r_ts r / 10 ^ 9 + uo_window o <= max_uint32 ->            (* outside the F3 region *)
    unpacked_encode (Some o) r = Ok bs ->
    unpacked_spec o r bs = true.
  Proof.
    intros [Hva Hts] Hfeed Hw HF3. unfold unpacked_encode, unpacked_spec.
    destruct (r_specimen r); [discriminate|].
    destruct (r_values r) as [|v0 [|v1 rest]]; try discriminate.
    destruct (extract_price v0) as [np| |] eqn:Enp; try discriminate. cbn [bind].
    destruct (extract_price v1) as [lp| |] eqn:Elp; try discriminate. cbn [bind].
    rewrite (extract_price_of _ _ Enp), (extract_price_of _ _ Elp).
    destruct (extract_timestamps (r_va r) (r_ts r)) as [[vas ots]| |] eqn:Et; try discriminate. cbn [bind].
    destruct (extract_timestamps_ok _ _ _ _ Hva Hts Et) as (Hvas & Hots & Hvf & Hots').
    destruct (calculate_fee np (uo_fee o)) as [nf| |] eqn:Enf; try discriminate. cbn [bind].
    destruct (calculate_fee lp (uo_fee o)) as [lf| |] eqn:Elf; try discriminate. cbn [bind].
    destruct ((nf <? 0) || (lf <? 0) || (max_uint192 <? nf) || (max_uint192 <? lf)) eqn:Efee; [discriminate|].
    destruct (encode_all abi_padded (uo_abi o) rest) as [payload| |] eqn:Epl; try discriminate. cbn [bind].
    intros H; inversion H as [Hbs]; clear H.
    assert (Hex : add_u32 ots (uo_window o) = r_ts r / 10 ^ 9 + uo_window o).
    { subst ots. apply add_u32_small. unfold u32_okb in Hots'. lia. }
    rewrite Hex.
    rewrite (header_ok_intro (uo_feed o) (uo_fee o) (uo_window o) r np lp (vas + 1) ots nf lf _ payload Hfeed);
      try assumption; try reflexivity.
    - apply (encode_all_values_ok abi_padded padded_value_ok abi_padded_ok). exact Epl.
    - subst vas. reflexivity.
    - apply calculate_fee_ok; exact Enf.
    - unfold u192_okb. lia.
    - apply calculate_fee_ok; exact Elf.
    - unfold u192_okb. lia.
    - unfold u32_okb. assert (0 <= r_ts r / 10 ^ 9) by (apply Z.div_pos; [lia|apply pow10_pos'; lia]). lia.
  Qed.

  (* ---------- streamlined ---------- *)
  Lemma be_value_be_bytes' n v : 0 <= v < 2 ^ (8 * Z.of_nat n) -> be_value (be_bytes n v) = v.
  Proof. intros. apply be_value_be_bytes. rewrite pow256. exact H. Qed.

  Theorem streamlined_encode_sound o fmt r bs :
    0 <= fmt < 2 ^ 32 -> 0 <= r_chan r < 2 ^ 32 -> 0 <= r_va r < 2 ^ 64 ->
    match so_feed o with Some f => length f = 32%nat | None => True end ->
    streamlined_encode (Some o) fmt r = Ok bs ->
    streamlined_spec o fmt r bs = true.
  Proof.
    intros Hfmt Hch Hva Hfeed. unfold streamlined_encode, streamlined_spec.
    destruct (negb (length (so_abi o) =? length (r_values r))%nat) eqn:El; [discriminate|].
    assert (Hlen : length (so_abi o) = length (r_values r)).
    { apply Nat.eqb_eq. destruct (length (so_abi o) =? length (r_values r))%nat; [reflexivity|discriminate]. }
    intros H. destruct (packed_loop_values_ok _ _ _ _ Hlen H) as (tail & -> & Hv).
    destruct (so_feed o) as [f|].
    - rewrite <- !app_assoc. rewrite (take_bytes_app 32 f _ Hfeed), bytes_eqb_refl.
      rewrite (take_bytes_app 8 (be_bytes 8 (r_va r)) tail (length_be_bytes _ _)).
      rewrite be_value_be_bytes' by (change (8 * Z.of_nat 8) with 64; lia). rewrite Z.eqb_refl. exact Hv.
    - rewrite <- !app_assoc.
      rewrite (take_bytes_app 4 (be_bytes 4 (fmt mod 2 ^ 32)) _ (length_be_bytes _ _)).
      rewrite (take_bytes_app 4 (be_bytes 4 (r_chan r)) _ (length_be_bytes _ _)).
      rewrite (Z.mod_small fmt) by lia.
      rewrite !be_value_be_bytes' by (change (8 * Z.of_nat 4) with 32; lia). rewrite !Z.eqb_refl. cbn [andb].
      rewrite (take_bytes_app 8 (be_bytes 8 (r_va r)) tail (length_be_bytes _ _)).
      rewrite be_value_be_bytes' by (change (8 * Z.of_nat 8) with 64; lia). rewrite Z.eqb_refl. exact Hv.
  Qed.
End Values.

(* ---------- refusals ---------- *)
Theorem specimen_refused o1 o2 r : r_specimen r = true ->
  legacy_encode o1 r = Err EUnsupported /\ unpacked_encode o2 r = Err EUnsupported.
Proof. intros H. unfold legacy_encode, unpacked_encode. rewrite H. split; reflexivity. Qed.

(* a field that does not fit: success is impossible (corollaries of soundness through uniqueness of the ideal values) *)
Lemma header_ok_fields feed base window r np lp bs rest :
  header_ok feed base window r np lp bs = Some rest ->
  u32_okb (r_va r / 10 ^ 9 + 1) = true /\ u32_okb (r_ts r / 10 ^ 9) = true /\ u32_okb (r_ts r / 10 ^ 9 + window) = true /\
  (exists nf, fee_ok np base nf = true /\ u192_okb nf = true) /\ (exists lf, fee_ok lp base lf = true /\ u192_okb lf = true).
Proof.
  unfold header_ok.
  repeat match goal with |- context [match take_bytes 32 ?x with _ => _ end] => destruct (take_bytes 32 x) as [[? ?]|]; [|discriminate] end.
  match goal with |- context [if ?c then _ else _] => destruct c eqn:E end; [|discriminate].
  intros _.
  repeat match type of E with _ && _ = true => apply andb_prop in E; destruct E as [E ?] end.
  repeat match goal with H : (_ =? _) = true |- _ => apply Z.eqb_eq in H end.
  repeat split; try congruence; eauto.
Qed.

Theorem legacy_unfit_never_ok o r bs :
  report_wf r -> length (lo_feed o) = 32%nat -> 0 <= lo_window o -> r_ts r / 10 ^ 9 + lo_window o <= max_uint32 ->
  legacy_encode (Some o) r = Ok bs ->
  time_unfit (lo_window o) r = false /\
  (forall v0 v1 v2 p f, r_values r = [v0; v1; v2] -> (price_of v0 = Some p \/ price_of v1 = Some p) -> fee_ok p (lo_fee o) f = true -> u192_okb f = true) /\
  (forall v0 v1 bid bm ask d x, r_values r = [v0; v1; Some (SQuote bid bm ask)] -> In d [bid; bm; ask] ->
     trunc_ok d (match lo_mult o with Some m => m | None => 1 end) x = true -> i192_okb x = true).
Proof.
  intros Hwf Hfeed Hw HF3 H. pose proof (legacy_encode_sound o r bs Hwf Hfeed Hw HF3 H) as Hs.
  unfold legacy_spec in Hs.
  destruct (r_values r) as [|v0 [|v1 [|v2 [|v3 vs]]]]; try discriminate;
    try (destruct v2 as [[?|? ? ?|? ?]|]; discriminate).
  destruct v2 as [[d|bid bm ask|t i]|]; try discriminate.
  destruct (price_of v0) as [np|] eqn:Enp; [|discriminate].
  destruct (price_of v1) as [lp|] eqn:Elp; [|discriminate].
  destruct (header_ok (lo_feed o) (lo_fee o) (lo_window o) r np lp bs) as [rest|] eqn:Eh; [|discriminate].
  destruct (header_ok_fields _ _ _ _ _ _ _ _ Eh) as (T1 & T2 & T3 & (nf & Hnf & Hnf') & (lf & Hlf & Hlf')).
  split; [unfold time_unfit; rewrite T1, T2, T3; reflexivity|]. split.
  - intros v0' v1' v2' p f Hv [Hp|Hp] Hf; inversion Hv; subst.
    + rewrite Enp in Hp. inversion Hp; subst. rewrite (fee_ok_unique _ _ _ _ Hf Hnf). exact Hnf'.
    + rewrite Elp in Hp. inversion Hp; subst. rewrite (fee_ok_unique _ _ _ _ Hf Hlf). exact Hlf'.
  - intros v0' v1' bid' bm' ask' d x Hv Hin Hx. inversion Hv; subst.
    repeat match type of Hs with match take_bytes 32 ?y with _ => _ end = true => destruct (take_bytes 32 y) as [[? ?]|]; [|discriminate] end.
    repeat match type of Hs with _ && _ = true => apply andb_prop in Hs; destruct Hs as [Hs ?] end.
    destruct Hin as [<-|[<-|[<-|[]]]];
      match type of Hx with trunc_ok ?dd _ _ = true =>
        match goal with Ht : trunc_ok dd _ ?y = true, Hi : i192_okb ?y = true |- _ =>
          rewrite (trunc_ok_unique _ _ _ _ Hx Ht); exact Hi end end.
Qed.

(* ---------- panics: only in the F4 region ---------- *)
Lemma calculate_fee_panic p b s : calculate_fee p b = Panic s ->
  (0 <? dz b) && (0 <? dz p) && negb (int32_okb (dexp b - dexp p + 18)) = true.
Proof.
  unfold calculate_fee. destruct ((dz b <=? 0) || (dz p <=? 0)) eqn:E; [discriminate|].
  destruct (negb (int32_okb (dexp b - dexp p + 18))) eqn:E2; [|discriminate]. intros _. lia.
Qed.

Lemma apply_mult_no_panic d m s : dec_wf d = true -> apply_mult d m <> Panic s.
Proof.
  unfold apply_mult, dec_mul, dec_wf, int32_okb. cbn [dexp mkdec]. intros Hwf.
  replace (dexp d + 0) with (dexp d) by lia.
  destruct ((- 2 ^ 31 <=? dexp d) && (dexp d <? 2 ^ 31)) eqn:E; [cbn [bind]; discriminate|]. lia.
Qed.

Lemma extract_price_wf v p : match v with Some x => sval_wf x | None => true end = true -> extract_price v = Ok p -> True.
Proof. trivial. Qed.

Theorem legacy_panic_only_F4 o r s : values_wf r = true ->
  legacy_encode o r = Panic s -> exists o', o = Some o' /\ f4_region (lo_fee o') r = true.
Proof.
  intros Hwf. unfold legacy_encode, f4_region.
  destruct (r_specimen r); [discriminate|].
  unfold values_wf in Hwf.
  destruct (r_values r) as [|v0 [|v1 [|v2 [|v3 vs]]]]; try discriminate.
  destruct (extract_price v0) as [np| |] eqn:Enp; try discriminate;
    [|destruct v0 as [[?|? ? ?|? ?]|]; discriminate]. cbn [bind].
  destruct (extract_price v1) as [lp| |] eqn:Elp; try discriminate;
    [|destruct v1 as [[?|? ? ?|? ?]|]; discriminate]. cbn [bind].
  destruct v2 as [[d|bid bm ask|t i]|]; try discriminate.
  destruct o as [o|]; [|discriminate].
  intros H. exists o. split; [reflexivity|].
  assert (H' : (tt <- extract_timestamps (r_va r) (r_ts r) ;;
                let '(vas, ots) := tt in
                nf <- calculate_fee np (lo_fee o) ;; lf <- calculate_fee lp (lo_fee o) ;;
                xbm <- apply_mult bm (match lo_mult o with Some m => m | None => 1 end) ;;
                xbid <- apply_mult bid (match lo_mult o with Some m => m | None => 1 end) ;;
                xask <- apply_mult ask (match lo_mult o with Some m => m | None => 1 end) ;;
                (if (nf <? 0) || (lf <? 0) || (max_uint192 <? nf) || (max_uint192 <? lf) then Err EOutOfRange
                 else if forallb (fun x => (min_int192' <=? x) && (x <=? max_int192')) [xbm; xbid; xask]
                      then Ok (lo_feed o ++ word (vas + 1) ++ word ots ++ word nf ++ word lf ++
                               word (add_u32 ots (lo_window o)) ++ word xbm ++ word xbid ++ word xask)
                      else Err EOutOfRange)) = Panic s).
  { destruct (lo_mult o) as [[| |]|]; try discriminate; exact H. }
  clear H. cbn [forallb andb firstn existsb] in *.
  apply andb_prop in Hwf. destruct Hwf as [_ Hwf]. apply andb_prop in Hwf. destruct Hwf as [_ Hwf].
  apply andb_prop in Hwf. destruct Hwf as [Hq _]. cbn [sval_wf] in Hq.
  apply andb_prop in Hq. destruct Hq as [Hq Hask]. apply andb_prop in Hq. destruct Hq as [Hbid Hbm].
  rewrite (extract_price_of _ _ Enp), (extract_price_of _ _ Elp).
  destruct (extract_timestamps (r_va r) (r_ts r)) as [[vas ots]| |] eqn:Et; try discriminate.
  2:{ unfold extract_timestamps in Et. destruct (_ >=? _); [discriminate|]. destruct (_ >? _); discriminate. }
  cbn [bind] in H'.
  destruct (calculate_fee np (lo_fee o)) as [nf| |] eqn:Enf; try discriminate.
  2:{ rewrite (calculate_fee_panic _ _ _ Enf). reflexivity. }
  cbn [bind] in H'.
  destruct (calculate_fee lp (lo_fee o)) as [lf| |] eqn:Elf; try discriminate.
  2:{ rewrite (calculate_fee_panic _ _ _ Elf). rewrite !orb_true_r. reflexivity. }
  cbn [bind] in H'. exfalso.
  destruct (apply_mult bm _) as [xbm| |] eqn:E1; try discriminate; [|exact (apply_mult_no_panic _ _ _ Hbm E1)]. cbn [bind] in H'.
  destruct (apply_mult bid _) as [xbid| |] eqn:E2; try discriminate; [|exact (apply_mult_no_panic _ _ _ Hbid E2)]. cbn [bind] in H'.
  destruct (apply_mult ask _) as [xask| |] eqn:E3; try discriminate; [|exact (apply_mult_no_panic _ _ _ Hask E3)]. cbn [bind] in H'.
  destruct ((nf <? 0) || (lf <? 0) || (max_uint192 <? nf) || (max_uint192 <? lf)); [discriminate|].
  destruct (_ && _); discriminate.
Qed.

(* ---------- the recorded findings, exhibited on the model ---------- *)
Definition f3_opts : legacy_opts :=
  {| lo_fee := mkdec 1 0; lo_window := 4294967295; lo_feed := repeat 17 32; lo_mult := None |}.
Definition f3_report : report :=
  {| r_chan := 0; r_va := 4294967290000000000; r_ts := 4294967294000000005;
     r_values := [Some (SDec (mkdec 1 0)); Some (SDec (mkdec 1 0)); Some (SQuote (mkdec 5 0) (mkdec 5 0) (mkdec 5 0))];
     r_specimen := false; r_def := {| cd_fmt := 1; cd_streams := []; cd_opts := [] |} |}.

Theorem expiry_wraps_refuted :
  exists o r bs, legacy_verify (Some o) 3 = true /\ legacy_encode (Some o) r = Ok bs /\
    legacy_spec o r bs = false /\
    be_value (firstn 32 (skipn 160 bs)) = 4294967293 /\ r_ts r / 10 ^ 9 + lo_window o = 8589934589.
Proof. exists f3_opts, f3_report. eexists. repeat split; vm_compute; reflexivity. Qed.

Definition f4_opts : legacy_opts :=
  {| lo_fee := mkdec 1 2147483647; lo_window := 1; lo_feed := repeat 17 32; lo_mult := None |}.
Definition f4_report : report :=
  {| r_chan := 0; r_va := 1700000000000000000; r_ts := 1700000001000000000;
     r_values := [Some (SDec (mkdec 1 (-5))); Some (SDec (mkdec 1 0)); Some (SQuote (mkdec 5 0) (mkdec 5 0) (mkdec 5 0))];
     r_specimen := false; r_def := {| cd_fmt := 1; cd_streams := []; cd_opts := [] |} |}.

Theorem fee_panics_refuted :
  exists o r s, legacy_verify (Some o) 3 = true /\ values_wf r = true /\ legacy_encode (Some o) r = Panic s.
Proof. exists f4_opts, f4_report, 3. repeat split; vm_compute; reflexivity. Qed.
