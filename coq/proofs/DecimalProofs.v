(* DecimalProofs.v — the numeric order on decimals is a total preorder, and Go's Cmp (faithfully
   modelled, including negative zero) is compatible with it. *)
From DS Require Import Base Decimal.
From Coq Require Import ZifyBool ZifyN.

Lemma big_toZ_ofZ z : big_toZ (big_ofZ z) = z.
Proof. unfold big_toZ, big_ofZ. simpl. destruct (z <? 0) eqn:E; lia. Qed.

Lemma big_cmp_lt x y : big_cmp x y = Lt -> big_toZ x <= big_toZ y.
Proof.
  unfold big_cmp, big_toZ. destruct (bneg x), (bneg y); intros H; try discriminate; try lia.
  - destruct (N.compare_spec (bmag y) (bmag x)); try discriminate; lia.
  - destruct (N.compare_spec (bmag x) (bmag y)); try discriminate; lia.
Qed.
Lemma big_cmp_nlt x y : big_cmp x y <> Lt -> big_toZ y <= big_toZ x.
Proof.
  unfold big_cmp, big_toZ. destruct (bneg x), (bneg y); intros H; try congruence; try lia.
  - destruct (N.compare_spec (bmag y) (bmag x)); try congruence; lia.
  - destruct (N.compare_spec (bmag x) (bmag y)); try congruence; lia.
Qed.
Lemma big_cmp_ngt x y : big_cmp x y <> Gt -> big_toZ x <= big_toZ y.
Proof.
  unfold big_cmp, big_toZ. destruct (bneg x), (bneg y); intros H; try congruence; try lia.
  - destruct (N.compare_spec (bmag y) (bmag x)); try congruence; lia.
  - destruct (N.compare_spec (bmag x) (bmag y)); try congruence; lia.
Qed.

Lemma pow10_pos e : 0 < 10 ^ e \/ e < 0.
Proof. destruct (Z.lt_ge_cases e 0); [right; assumption|left; apply Z.pow_pos_nonneg; lia]. Qed.

Lemma scaled_shift d m M : M <= m -> m <= dexp d -> scaled d M = scaled d m * 10 ^ (m - M).
Proof.
  intros H1 H2. unfold scaled. rewrite <- Z.mul_assoc, <- Z.pow_add_r by lia. f_equal. f_equal. lia.
Qed.

Lemma dle_scale a b M : M <= Z.min (dexp a) (dexp b) ->
  (dle a b <-> scaled a M <= scaled b M).
Proof.
  intros HM. unfold dle. set (m := Z.min (dexp a) (dexp b)) in *.
  rewrite (scaled_shift a m M), (scaled_shift b m M) by lia.
  assert (0 < 10 ^ (m - M)) by (apply Z.pow_pos_nonneg; lia).
  split; intros H'; [apply Z.mul_le_mono_pos_r; assumption|].
  apply Z.mul_le_mono_pos_r in H'; assumption.
Qed.

Lemma dle_refl a : dle a a.
Proof. unfold dle. lia. Qed.

Lemma dle_trans a b c : dle a b -> dle b c -> dle a c.
Proof.
  intros H1 H2. set (M := Z.min (dexp a) (Z.min (dexp b) (dexp c))).
  apply (dle_scale a b M) in H1; [|lia]. apply (dle_scale b c M) in H2; [|lia].
  apply (dle_scale a c M); lia.
Qed.

Lemma dle_total a b : dle a b \/ dle b a.
Proof. unfold dle. rewrite (Z.min_comm (dexp b)). lia. Qed.

Lemma dleb_spec a b : dleb a b = true <-> dle a b.
Proof. unfold dleb, dle. lia. Qed.

Lemma rescale_down_toZ d e : e < dexp d ->
  big_toZ (dcoef (rescale_down d e)) = big_toZ (dcoef d) * 10 ^ (dexp d - e).
Proof.
  intros H. unfold rescale_down. destruct (dexp d =? e) eqn:E; [lia|]. simpl. apply big_toZ_ofZ.
Qed.

(* dec_cmp a b relates exactly two integers whose order is the numeric order *)
Lemma dec_cmp_as_big a b :
  exists x y, dec_cmp a b = big_cmp x y /\
              big_toZ x = scaled a (Z.min (dexp a) (dexp b)) /\
              big_toZ y = scaled b (Z.min (dexp a) (dexp b)).
Proof.
  unfold dec_cmp, scaled.
  destruct (dexp a =? dexp b) eqn:E1.
  - exists (dcoef a), (dcoef b). rewrite Z.min_l by lia. split; [reflexivity|].
    replace (dexp a - dexp a) with 0 by lia. replace (dexp b - dexp a) with 0 by lia. lia.
  - destruct (dexp a <? dexp b) eqn:E2.
    + exists (dcoef a), (dcoef (rescale_down b (dexp a))). rewrite Z.min_l by lia. split; [reflexivity|].
      rewrite rescale_down_toZ by lia. replace (dexp a - dexp a) with 0 by lia. lia.
    + exists (dcoef (rescale_down a (dexp b))), (dcoef b). rewrite Z.min_r by lia. split; [reflexivity|].
      rewrite rescale_down_toZ by lia. replace (dexp b - dexp b) with 0 by lia. lia.
Qed.

Theorem dec_cmp_lt_le a b : dec_cmp a b = Lt -> dle a b.
Proof.
  destruct (dec_cmp_as_big a b) as (x & y & -> & Hx & Hy). intros H. apply big_cmp_lt in H.
  unfold dle. lia.
Qed.
Theorem dec_cmp_nlt_le a b : dec_cmp a b <> Lt -> dle b a.
Proof.
  destruct (dec_cmp_as_big a b) as (x & y & -> & Hx & Hy). intros H. apply big_cmp_nlt in H.
  unfold dle. rewrite (Z.min_comm (dexp b)). lia.
Qed.
Theorem dec_cmp_ngt_le a b : dec_cmp a b <> Gt -> dle a b.
Proof.
  destruct (dec_cmp_as_big a b) as (x & y & -> & Hx & Hy). intros H. apply big_cmp_ngt in H.
  unfold dle. lia.
Qed.

(* strict numeric order decides Cmp (the "compatibility" of DESIGN.md section 7/C02) *)
Theorem dec_cmp_compatible a b :
  (~ dle b a -> dec_cmp a b = Lt) /\ (~ dle a b -> dec_cmp a b = Gt).
Proof.
  split; intros H.
  - destruct (dec_cmp a b) eqn:E; [| reflexivity |]; exfalso; apply H; apply dec_cmp_nlt_le; congruence.
  - destruct (dec_cmp a b) eqn:E; [| | reflexivity]; exfalso; apply H; apply dec_cmp_ngt_le; congruence.
Qed.
