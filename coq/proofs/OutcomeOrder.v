(* OutcomeOrder.v — C01: the places where the Go code ranges over a map are order-insensitive.
   Each Go loop is re-stated as a fold over an ARBITRARY permutation of the map's entries / keys and shown
   equal to the canonical model function used everywhere else. *)
From stdpp Require Import gmap.
From DS Require Import Base Decimal StreamValue Sort Aggregators RepoConstants Outcome.
From DS Require Import SortProofs OutcomeProofs.
From Coq Require Import Lia Sorted.
Open Scope Z_scope.

(* ---------- a sorted duplicate-free list is determined by its elements ---------- *)
Section SortedUnique.
  Context {A : Type} (less : A -> A -> bool).
  Definition sle (a b : A) : Prop := less a b = true \/ a = b.
  Hypothesis less_irrefl : forall a, less a a = false.
  Hypothesis less_trans : forall a b c, less a b = true -> less b c = true -> less a c = true.
  Hypothesis less_total : forall a b, less a b = false -> less b a = true \/ a = b.

  Lemma sle_trans a b c : sle a b -> sle b c -> sle a c.
  Proof. intros [H1 | ->] [H2 | ->]; unfold sle; auto. left. eapply less_trans; eassumption. Qed.
  Lemma sle_refl a : sle a a. Proof. right. reflexivity. Qed.
  Lemma less_sle a b : less a b = true -> sle a b. Proof. left. assumption. Qed.
  Lemma nless_sle a b : less a b = false -> sle b a.
  Proof. intros H. destruct (less_total a b H) as [H' | H']; [left; exact H'|right; congruence]. Qed.
  Lemma sle_antisym a b : sle a b -> sle b a -> a = b.
  Proof.
    intros [H1 | H1] [H2 | H2]; auto. pose proof (less_trans a b a H1 H2) as H. rewrite less_irrefl in H. discriminate.
  Qed.

  Lemma sorted_nodup_unique (l1 : list A) : forall l2,
    StronglySorted sle l1 -> StronglySorted sle l2 -> List.NoDup l1 -> List.NoDup l2 ->
    (forall x, In x l1 <-> In x l2) -> l1 = l2.
  Proof.
    induction l1 as [|a l1 IH]; intros l2 S1 S2 N1 N2 Hin.
    - destruct l2 as [|b l2]; [reflexivity|]. exfalso. apply (proj2 (Hin b)). left. reflexivity.
    - destruct l2 as [|b l2]; [exfalso; apply (proj1 (Hin a)); left; reflexivity|].
      inversion S1 as [|? ? S1' A1]; subst. inversion S2 as [|? ? S2' A2]; subst.
      inversion N1 as [|? ? Na N1']; subst. inversion N2 as [|? ? Nb N2']; subst.
      rewrite List.Forall_forall in A1, A2.
      assert (a = b).
      { apply sle_antisym.
        - destruct (proj2 (Hin b) (or_introl eq_refl)) as [-> | Hj]; [apply sle_refl|]. apply A1. exact Hj.
        - destruct (proj1 (Hin a) (or_introl eq_refl)) as [-> | Hi]; [apply sle_refl|]. apply A2. exact Hi. }
      subst b. f_equal. apply IH; try assumption.
      intros x. split; intros Hx.
      + destruct (proj1 (Hin x) (or_intror Hx)) as [-> | ?]; [contradiction|assumption].
      + destruct (proj2 (Hin x) (or_intror Hx)) as [-> | ?]; [contradiction|assumption].
  Qed.

  (* sort.Slice over the entries of a Go map with pairwise distinct keys: the result does not depend on the
     iteration order in which the slice was filled *)
  Theorem isort_perm_unique l1 l2 :
    Permutation l1 l2 -> List.NoDup l1 -> isort less l1 = isort less l2.
  Proof.
    intros HP Hnd. apply sorted_nodup_unique.
    - apply (isort_asc sle less sle_trans less_sle nless_sle).
    - apply (isort_asc sle less sle_trans less_sle nless_sle).
    - apply (Permutation_NoDup (Permutation_sym (isort_perm less l1))). exact Hnd.
    - apply (Permutation_NoDup (Permutation_sym (isort_perm less l2))). apply (Permutation_NoDup HP). exact Hnd.
    - intros x. split; intros H.
      + apply (Permutation_in _ (isort_perm less l1)) in H.
        apply (Permutation_in _ (Permutation_sym (isort_perm less l2))). apply (Permutation_in _ HP). exact H.
      + apply (Permutation_in _ (isort_perm less l2)) in H.
        apply (Permutation_in _ (Permutation_sym (isort_perm less l1))). apply (Permutation_in _ (Permutation_sym HP)). exact H.
  Qed.
End SortedUnique.

(* ---------- deletions commute ---------- *)
Lemma foldr_delete_perm {V} (m : gmap Z V) l1 l2 : Permutation l1 l2 -> foldr delete m l1 = foldr delete m l2.
Proof.
  intros H. induction H; simpl.
  - reflexivity.
  - rewrite IHPermutation. reflexivity.
  - apply delete_commute.
  - etransitivity; eassumption.
Qed.

Section Order.
  Context (h : Z -> chandef -> list Z).
  (* MakeChannelHash distinguishes distinct definitions of one channel id (SHA-256 collision-freeness) *)
  Hypothesis h_inj : forall c d1 d2, h c d1 = h c d2 -> d1 = d2.

  Lemma bytes_lt_irrefl a : bytes_lt a a = false.
  Proof. induction a as [|x a IH]; simpl; [reflexivity|]. rewrite Z.ltb_irrefl. exact IH. Qed.
  Lemma bytes_lt_cons x a y b : bytes_lt (x :: a) (y :: b) = (x <? y) || ((x =? y) && bytes_lt a b).
  Proof. simpl. destruct (x <? y) eqn:E1, (y <? x) eqn:E2, (x =? y) eqn:E3; try reflexivity; lia. Qed.
  Lemma bytes_lt_trans a : forall b c, bytes_lt a b = true -> bytes_lt b c = true -> bytes_lt a c = true.
  Proof.
    induction a as [|x a IH]; intros [|y b] [|z c] H1 H2; try discriminate; try reflexivity.
    rewrite bytes_lt_cons in *. apply orb_true_iff in H1, H2. apply orb_true_iff.
    destruct H1 as [H1|H1], H2 as [H2|H2]; try (left; lia).
    apply andb_true_iff in H1, H2. destruct H1, H2. right. apply andb_true_iff. split; [lia|eapply IH; eassumption].
  Qed.
  Lemma bytes_lt_total a : forall b, bytes_lt a b = false -> bytes_lt b a = true \/ a = b.
  Proof.
    induction a as [|x a IH]; intros [|y b] H; simpl in *; try discriminate; auto.
    destruct (x <? y) eqn:E1; [discriminate|]. destruct (y <? x) eqn:E2; [left; reflexivity|].
    assert (x = y) by lia. subst. destruct (IH b H) as [H'|H']; [left; exact H'|right; congruence].
  Qed.

  Lemma cand_less_irrefl a : cand_less h a a = false.
  Proof. unfold cand_less. rewrite Z.eqb_refl. apply bytes_lt_irrefl. Qed.
  Lemma cand_less_trans a b c : cand_less h a b = true -> cand_less h b c = true -> cand_less h a c = true.
  Proof.
    unfold cand_less. intros H1 H2.
    destruct (fst a =? fst b) eqn:E1; destruct (fst b =? fst c) eqn:E2; destruct (fst a =? fst c) eqn:E3; try lia.
    eapply bytes_lt_trans; eassumption.
  Qed.
  Lemma cand_less_total a b : cand_less h a b = false -> cand_less h b a = true \/ a = b.
  Proof.
    unfold cand_less. intros H. rewrite (Z.eqb_sym (fst b)).
    destruct (fst a =? fst b) eqn:E1; [|left; lia].
    destruct (bytes_lt_total _ _ H) as [H'|H']; [left; exact H'|right].
    destruct a as [ca da], b as [cb db]. simpl in *. assert (ca = cb) by lia. subst. f_equal. eapply h_inj. exact H'.
  Qed.

  (* outcome(): removal loop over removeChannelVotesByID and sort.Slice(orderedHashes) over
     updateChannelDefinitionsByHash, both filled in map-iteration order *)
  Definition new_defs_ordered (f : nat) (retired : bool) (prev : gmap Z chandef) (obs : list observation)
             (removal_order : list Z) (cand_order : list (Z * chandef)) : gmap Z chandef :=
    if retired then prev
    else fold_left (apply_update f obs) (isort (cand_less h) cand_order) (foldr delete prev removal_order).

  Theorem new_defs_order_independent f retired prev obs removal_order cand_order :
    Permutation removal_order (removed_ids f obs) ->
    Permutation cand_order (update_candidates obs) ->
    new_defs_ordered f retired prev obs removal_order cand_order = new_defs h f retired prev obs.
  Proof.
    intros Hr Hc. unfold new_defs_ordered, new_defs. destruct retired; [reflexivity|].
    rewrite (foldr_delete_perm prev _ _ Hr).
    rewrite (isort_perm_unique (cand_less h) cand_less_irrefl cand_less_trans cand_less_total cand_order (update_candidates obs) Hc);
      [reflexivity|].
    apply (Permutation_NoDup (Permutation_sym Hc)). unfold update_candidates.
    apply NoDup_ListNoDup. apply NoDup_remove_dups.
  Qed.

  (* ReportableChannels: range over the definitions map, then sort ascending *)
  Theorem reportable_channels_order_independent cf o (order : list Z) :
    Permutation order (map fst (map_to_list (o_defs o))) ->
    isort Z.ltb (List.filter (fun c => is_reportable o c (c_pver cf) (c_interval cf)) order) = reportable_channels cf o.
  Proof.
    intros HP. unfold reportable_channels.
    apply (isort_perm_unique Z.ltb Z.ltb_irrefl).
    - intros a b c H1 H2. lia.
    - intros a b H. lia.
    - clear - HP. induction HP; simpl.
      + constructor.
      + destruct (is_reportable o x (c_pver cf) (c_interval cf)); [constructor|]; assumption.
      + destruct (is_reportable o x _ _), (is_reportable o y _ _); try reflexivity. apply perm_swap.
      + etransitivity; eassumption.
    - apply List.NoDup_filter. apply (Permutation_NoDup (Permutation_sym HP)).
      apply NoDup_ListNoDup. apply NoDup_fst_map_to_list.
  Qed.
End Order.
