(* ReportsNoPanic.v — C11 for Plugin.Reports as a whole: for ANY outcome bytes (well-formed bytes, i.e. values
   0..255), any sequence number and configuration, Reports does not panic provided the registered report codecs do
   not panic on reports whose decimals carry int32 exponents — which is what the outcome decoder produces, proved
   here (decoded_reports_wf) — and the external retirement-report codec does not panic. *)
From stdpp Require Import gmap.
From DS Require Import Base Decimal StreamValue Wire Sort Aggregators RepoConstants TextForms JsonReportBytes Outcome OutcomeCodec EvmCodecs EvmSpec PluginReports.
From DS Require Import BaseProofs WireProofs OutcomeCodecProofs NoPanicProofs EvmIntProofs EvmCodecProofs.
From Coq Require Import Lia.
Open Scope Z_scope.

Definition bok (bs : list Z) : Prop := Forall (fun b => 0 <= b < 256) bs.

Definition raw_ok (f : rawfield) : Prop :=
  match snd f with RBytes b | RFixed64 b | RFixed32 b => bok b | RVarint v => 0 <= v < 2 ^ 64 end.

(* ---------- parsing hands out sub-strings of the input ---------- *)
Lemma parse_varint_fuel_suffix n : forall bs s acc v r, parse_varint_fuel n bs s acc = Some (v, r) -> exists k, r = drop k bs.
Proof.
  induction n as [|n IH]; intros bs s acc v r H; simpl in H; [discriminate|].
  destruct bs as [|b bs]; [discriminate|]. destruct (b <? 128).
  - destruct ((s =? 63) && (2 <=? b)); [discriminate|]. inversion H; subst. exists 1%nat. reflexivity.
  - apply IH in H. destruct H as (k & ->). exists (S k). reflexivity.
Qed.
Lemma parse_varint_ok bs v r : parse_varint bs = Some (v, r) -> bok bs -> bok r.
Proof.
  unfold parse_varint. destruct (parse_varint_fuel 10 bs 0 0) as [[v' r']|] eqn:E; [|discriminate].
  intros H Hb. inversion H; subst. apply parse_varint_fuel_suffix in E. destruct E as (k & ->). apply Forall_drop. exact Hb.
Qed.

Lemma parse_varint_bound bs v r : parse_varint bs = Some (v, r) -> 0 <= v < 2 ^ 64.
Proof.
  unfold parse_varint. destruct (parse_varint_fuel 10 bs 0 0) as [[v' r']|]; [|discriminate].
  intros H. inversion H; subst. apply Z.mod_pos_bound. lia.
Qed.

Lemma parse_fields_fuel_ok n : forall bs fs, parse_fields_fuel n bs = Some fs -> bok bs -> Forall raw_ok fs.
Proof.
  induction n as [|n IH]; intros bs fs H Hb; [discriminate|]. cbn [parse_fields_fuel] in H.
  destruct bs as [|b bs]; [inversion H; constructor|].
  destruct (parse_varint (b :: bs)) as [[t r]|] eqn:Et; [|discriminate].
  pose proof (parse_varint_ok _ _ _ Et Hb) as Hr.
  destruct ((t / 8 <? 1) || (2 ^ 29 <=? t / 8)); [discriminate|].
  destruct (t mod 8 =? 0).
  { destruct (parse_varint r) as [[v r']|] eqn:Ev; [|discriminate]. pose proof (parse_varint_ok _ _ _ Ev Hr) as Hr'.
    destruct (parse_fields_fuel n r') as [fs'|] eqn:Ef; [|discriminate]. inversion H; subst.
    constructor; [exact (parse_varint_bound _ _ _ Ev)|]. eapply IH; eassumption. }
  destruct (t mod 8 =? 2).
  { destruct (parse_varint r) as [[len r']|] eqn:Ev; [|discriminate]. pose proof (parse_varint_ok _ _ _ Ev Hr) as Hr'.
    destruct (Z.of_nat (length r') <? len); [discriminate|].
    destruct (parse_fields_fuel n (skipn (Z.to_nat len) r')) as [fs'|] eqn:Ef; [|discriminate]. inversion H; subst.
    constructor; [apply Forall_take; exact Hr'|]. eapply IH; [exact Ef|]. apply Forall_drop. exact Hr'. }
  destruct (t mod 8 =? 1).
  { destruct (length r <? 8)%nat; [discriminate|].
    destruct (parse_fields_fuel n (skipn 8 r)) as [fs'|] eqn:Ef; [|discriminate]. inversion H; subst.
    constructor; [apply Forall_take; exact Hr|]. eapply IH; [exact Ef|]. apply Forall_drop. exact Hr. }
  destruct (t mod 8 =? 5).
  { destruct (length r <? 4)%nat; [discriminate|].
    destruct (parse_fields_fuel n (skipn 4 r)) as [fs'|] eqn:Ef; [|discriminate]. inversion H; subst.
    constructor; [apply Forall_take; exact Hr|]. eapply IH; [exact Ef|]. apply Forall_drop. exact Hr. }
  destruct (t mod 8 =? 3); [|discriminate].
  destruct (skip_group n group_depth_limit (t / 8) r) as [r'|] eqn:Eg; [|discriminate].
  destruct (skip_group_suffix _ _ _ _ _ Eg) as (k & ->). eapply IH; [exact H|]. apply Forall_drop. exact Hr.
Qed.
Lemma parse_fields_ok bs fs : parse_fields bs = Some fs -> bok bs -> Forall raw_ok fs.
Proof. apply parse_fields_fuel_ok. Qed.

Lemma last_bytes_ok k fs : Forall raw_ok fs -> bok (last_bytes k fs).
Proof.
  unfold last_bytes. assert (H : forall acc, bok acc -> Forall raw_ok fs ->
    bok (fold_left (fun acc f => match f with (k', RBytes b) => if k' =? k then b else acc | _ => acc end) fs acc)).
  { induction fs as [|[k' r] fs IH]; intros acc Ha Hf; [exact Ha|]. inversion Hf as [|? ? Hr Hf']; subst. cbn [fold_left].
    apply IH; [|exact Hf']. destruct r; try exact Ha. destruct (k' =? k); [exact Hr|exact Ha]. }
  intros Hf. apply H; [constructor|exact Hf].
Qed.
Lemma merged_msg_ok k fs body : Forall raw_ok fs -> merged_msg k fs = Some body -> bok body.
Proof.
  unfold merged_msg. assert (H : forall acc, (forall a, acc = Some a -> bok a) -> Forall raw_ok fs -> forall body,
    fold_left (fun acc f => match f with
                            | (k', RBytes b) => if k' =? k then Some (match acc with Some a => a ++ b | None => b end) else acc
                            | _ => acc end) fs acc = Some body -> bok body).
  { induction fs as [|[k' r] fs IH]; intros acc Ha Hf body0 Hb; [apply Ha; exact Hb|]. inversion Hf as [|? ? Hr Hf']; subst.
    cbn [fold_left] in Hb. eapply IH; [|exact Hf'|exact Hb].
    destruct r; try exact Ha. destruct (k' =? k); [|exact Ha]. intros a Ha'. inversion Ha'; subst.
    destruct acc as [a0|]; [apply Forall_app; split; [apply Ha; reflexivity|exact Hr]|exact Hr]. }
  intros Hf Hb. eapply H; [|exact Hf|exact Hb]. intros a Ha. discriminate.
Qed.
Lemma all_bytes_ok k fs : Forall raw_ok fs -> Forall bok (all_bytes k fs).
Proof.
  unfold all_bytes. induction fs as [|[k' r] fs IH]; intros Hf; [constructor|]. inversion Hf as [|? ? Hr Hf']; subst.
  cbn [flat_map]. apply Forall_app. split; [|apply IH; exact Hf'].
  destruct r; try constructor. destruct (k' =? k); [constructor; [exact Hr|constructor]|constructor].
Qed.

(* ---------- decoded decimals carry int32 exponents ---------- *)
Lemma dec_unmarshal_wf data d : dec_unmarshal data = Ok d -> bok data -> dec_wf d = true.
Proof.
  unfold dec_unmarshal. destruct data as [|e0 [|e1 [|e2 [|e3 rest]]]]; try discriminate.
  destruct (gob_decode rest) as [c| |]; try discriminate. cbn [bind]. intros H Hb. inversion H; subst. clear H.
  unfold dec_wf. cbn [dexp]. unfold bok in Hb.
  inversion Hb as [|? ? H0 Hb1]; subst. inversion Hb1 as [|? ? H1 Hb2]; subst.
  inversion Hb2 as [|? ? H2 Hb3]; subst. inversion Hb3 as [|? ? H3 _]; subst.
  unfold int32_of_u32, be_value. cbn [fold_left].
  destruct (_ <? 2 ^ 31) eqn:E; lia.
Qed.

Lemma parse_lsv_ok body t v : parse_lsv body = Some (t, v) -> bok body -> bok v.
Proof.
  unfold parse_lsv. destruct (parse_fields body) as [fs|] eqn:E; [|discriminate]. intros H Hb. inversion H; subst.
  apply last_bytes_ok. eapply parse_fields_ok; eassumption.
Qed.

Lemma sval_unmarshal_fuel_wf fuel : forall t data v,
  sval_unmarshal_fuel fuel (Some (t, data)) = Ok v -> bok data -> sval_wf v = true.
Proof.
  induction fuel as [|fuel IH]; intros t data v H Hb; [discriminate|]. cbn [sval_unmarshal_fuel] in H.
  destruct (t =? 0).
  { destruct (dec_unmarshal data) as [d| |] eqn:Ed; try discriminate. cbn [bind] in H. inversion H; subst.
    cbn [sval_wf]. eapply dec_unmarshal_wf; eassumption. }
  destruct (t =? 1).
  { destruct (parse_fields data) as [fs|] eqn:Ep; [|discriminate]. pose proof (parse_fields_ok _ _ Ep Hb) as Hf.
    destruct (dec_unmarshal (last_bytes 1 fs)) as [a| |] eqn:Ea; try discriminate. cbn [bind] in H.
    destruct (dec_unmarshal (last_bytes 2 fs)) as [b| |] eqn:Eb; try discriminate. cbn [bind] in H.
    destruct (dec_unmarshal (last_bytes 3 fs)) as [c| |] eqn:Ec; try discriminate. cbn [bind] in H.
    inversion H; subst. cbn [sval_wf].
    rewrite (dec_unmarshal_wf _ _ Ea (last_bytes_ok 1 fs Hf)), (dec_unmarshal_wf _ _ Eb (last_bytes_ok 2 fs Hf)),
            (dec_unmarshal_wf _ _ Ec (last_bytes_ok 3 fs Hf)). reflexivity. }
  destruct (t =? 2); [|discriminate].
  destruct (parse_fields data) as [fs|] eqn:Ep; [|discriminate]. pose proof (parse_fields_ok _ _ Ep Hb) as Hf.
  destruct (merged_msg 2 fs) as [body|] eqn:Em; [|discriminate]. pose proof (merged_msg_ok _ _ _ Hf Em) as Hbody.
  destruct (parse_lsv body) as [[t1 v1]|] eqn:El; [|discriminate]. pose proof (parse_lsv_ok _ _ _ El Hbody) as Hv1.
  match type of H with match ?g with Some e => _ | None => _ end = _ => destruct g; [discriminate|] end.
  destruct (sval_unmarshal_fuel fuel (Some (t1, v1))) as [inner| |] eqn:Ei; try discriminate. cbn [bind] in H.
  inversion H; subst. cbn [sval_wf]. eapply IH; eassumption.
Qed.
Lemma sval_unmarshal_wf t data v : sval_unmarshal t data = Ok v -> bok data -> sval_wf v = true.
Proof. apply sval_unmarshal_fuel_wf. Qed.

(* ---------- every aggregate of a decoded outcome is well-formed ---------- *)
Lemma dec_agg_wf b k v : dec_agg b = Ok (k, v) -> bok b -> sval_wf v = true.
Proof.
  unfold dec_agg. destruct (parse_fields b) as [fs|] eqn:Ep; [|discriminate]. intros H Hb.
  pose proof (parse_fields_ok _ _ Ep Hb) as Hf.
  destruct (merged_msg 2 fs) as [body|] eqn:Em; [|discriminate]. pose proof (merged_msg_ok _ _ _ Hf Em) as Hbody.
  destruct (parse_lsv body) as [[t data]|] eqn:El; [|discriminate]. pose proof (parse_lsv_ok _ _ _ El Hbody) as Hd.
  destruct (sval_unmarshal t data) as [v'| |] eqn:Ev; try discriminate. cbn [bind] in H. inversion H; subst.
  eapply sval_unmarshal_wf; eassumption.
Qed.

Lemma sequence_res_ok_inv {A B} (f : A -> res B) (l : list A) (out : list B) :
  sequence_res (map f l) = Ok out -> forall y, In y out -> exists x, In x l /\ f x = Ok y.
Proof.
  revert out. induction l as [|x l IH]; intros out H y Hy; cbn [map sequence_res] in H.
  - inversion H; subst. destruct Hy.
  - destruct (f x) as [b| |] eqn:Ef; destruct (sequence_res (map f l)) as [bs| |] eqn:Es; try discriminate.
    inversion H; subst. destruct Hy as [<-|Hy].
    + exists x. split; [left; reflexivity|exact Ef].
    + destruct (IH bs eq_refl y Hy) as (x' & Hx' & Hfx'). exists x'. split; [right; exact Hx'|exact Hfx'].
Qed.

Theorem decoded_aggregates_wf pver bs o : decode_outcome pver bs = Ok o -> bok bs ->
  forall p v, o_aggs o !! p = Some v -> sval_wf v = true.
Proof.
  unfold decode_outcome. destruct (parse_fields bs) as [fs|] eqn:Ep; [|discriminate]. intros H Hb p v Hl.
  pose proof (parse_fields_ok _ _ Ep Hb) as Hf.
  destruct (negb (ascii_ok (last_bytes 1 fs))); [discriminate|].
  destruct (sequence_res (map dec_id_def (all_bytes 3 fs))) as [defs| |]; try discriminate. cbn [bind] in H.
  destruct (sequence_res (map dec_agg (all_bytes 5 fs))) as [aggs| |] eqn:Ea; try discriminate. cbn [bind] in H.
  destruct (sequence_res (map dec_id_val (all_bytes 4 fs))) as [vas| |]; try discriminate. cbn [bind] in H.
  destruct ((pver =? 0) && (2 ^ 63 <=? last_varint 2 fs)); [discriminate|]. inversion H; subst. clear H. cbn [o_aggs] in Hl.
  unfold later_wins in Hl. apply elem_of_list_to_map_2 in Hl. apply elem_of_list_In in Hl. apply in_rev in Hl.
  destruct (sequence_res_ok_inv dec_agg _ _ Ea _ Hl) as (b & Hb' & Hd).
  eapply dec_agg_wf; [exact Hd|]. pose proof (all_bytes_ok 5 fs Hf) as Hall. rewrite Forall_forall in Hall. apply Hall. exact Hb'.
Qed.

Theorem decoded_reports_wf pver bs o cf seq r : decode_outcome pver bs = Ok o -> bok bs ->
  In r (snd (reports_of cf seq o)) -> values_wf r = true.
Proof.
  intros Hd Hb Hin. unfold reports_of in Hin. destruct (seq <=? 1); [destruct Hin|]. cbn [snd] in Hin.
  apply elem_of_list_In, elem_of_list_omap in Hin. destruct Hin as (c & _ & Hm).
  unfold mk_report in Hm. destruct (o_defs o !! c) as [cd|]; [|discriminate]. inversion Hm; subst. clear Hm.
  unfold values_wf. cbn [r_values]. apply forallb_forall. intros ov Hov. apply in_map_iff in Hov. destruct Hov as (p & <- & _).
  destruct (o_aggs o !! p) as [v|] eqn:E; [|reflexivity]. eapply decoded_aggregates_wf; eassumption.
Qed.

(* ---------- Plugin.Reports ---------- *)
Section Reports.
  Context (codecs : Z -> option (chandef -> report -> res (list Z))) (retire_enc : gmap Z Z -> res (list Z)).
  (* `good`: a side condition on reports under which the registered codecs are total (True for codecs that are total
     on all well-formed values; the complement of the F4 input region for the two fee-computing EVM codecs) *)
  Context (good : report -> Prop).
  Hypothesis codecs_total : forall fmt enc r, codecs fmt = Some enc -> fmt = cd_fmt (r_def r) ->
    values_wf r = true -> good r -> is_panic (enc (r_def r) r) = false.
  Hypothesis retire_total : forall va, is_panic (retire_enc va) = false.

  Lemma encode_reports_no_panic rs : Forall (fun r => values_wf r = true /\ good r) rs -> is_panic (encode_reports codecs rs) = false.
  Proof.
    induction rs as [|r rs IH]; intros H; [reflexivity|]. inversion H as [|? ? [Hr Hg] Hrs]; subst. cbn [encode_reports].
    specialize (IH Hrs). destruct (codecs (cd_fmt (r_def r))) as [enc|] eqn:Ec; [|exact IH].
    pose proof (codecs_total _ enc r Ec eq_refl Hr Hg) as Hp.
    destruct (enc (r_def r) r); try discriminate; [|exact IH].
    destruct (encode_reports codecs rs); try discriminate; reflexivity.
  Qed.

  Theorem plugin_reports_no_panic cf seq bs : bok bs ->
    (forall o r, decode_outcome (c_pver cf) bs = Ok o -> In r (snd (reports_of cf seq o)) -> good r) ->
    is_panic (plugin_reports codecs retire_enc cf seq bs) = false.
  Proof.
    intros Hb Hgood. unfold plugin_reports. destruct (seq <=? 1); [reflexivity|].
    pose proof (decode_outcome_no_panic (c_pver cf) bs) as Hd.
    destruct (decode_outcome (c_pver cf) bs) as [o| |] eqn:Ed; try discriminate; [|reflexivity].
    destruct (reports_of cf seq o) as [ret reps] eqn:Er.
    assert (Hreps : Forall (fun r => values_wf r = true /\ good r) reps).
    { apply Forall_forall. intros r Hr. split.
      - eapply (decoded_reports_wf _ _ _ cf seq); [exact Ed|exact Hb|]. rewrite Er. exact Hr.
      - apply (Hgood o r eq_refl). rewrite Er. exact Hr. }
    pose proof (encode_reports_no_panic reps Hreps) as He.
    destruct ret as [va|].
    - pose proof (retire_total va) as Hr. destruct (retire_enc va); try discriminate; [|reflexivity].
      destruct (encode_reports codecs reps); try discriminate; reflexivity.
    - destruct (encode_reports codecs reps); try discriminate; reflexivity.
  Qed.
End Reports.

(* ---------- instance: the in-repo EVM codecs (options parsed from the definition by any function) ---------- *)
Section RepoCodecs.
  Context (fmt_legacy fmt_unpacked fmt_streamlined fmt_json : Z) (digest : bytes).
  Context (legacy_opts_of : chandef -> option legacy_opts) (unpacked_opts_of : chandef -> option unpacked_opts)
          (streamlined_opts_of : chandef -> option streamlined_opts).
  Context (retire_enc : gmap Z Z -> res (list Z)) (retire_total : forall va, is_panic (retire_enc va) = false).
  Hypothesis widths : EvmIntProofs.widths_complete.

  (* JSONReportCodec.Encode: the report struct (with the plugin's config digest and the round's sequence number) to JSON bytes *)
  Context (seq_for_json : Z).
  Definition json_codec_encode (dg : bytes) (sq : Z) (r : report) : res (list Z) :=
    match json_encode {| f_digest := dg; f_seq := sq; f_chan := r_chan r; f_va := r_va r; f_ts := r_ts r;
                         f_values := r_values r; f_specimen := r_specimen r |} with
    | Ok j => Ok (json_report_bytes j) | Err e => Err e | Panic s => Panic s end.
  Lemma typed_all_no_panic vs : is_panic (typed_all vs) = false.
  Proof. induction vs as [|[v|] vs IH]; cbn [typed_all]; try reflexivity. destruct (typed_all vs); try discriminate; reflexivity. Qed.
  Lemma json_codec_no_panic dg sq r : is_panic (json_codec_encode dg sq r) = false.
  Proof.
    unfold json_codec_encode, json_encode. cbn [f_values]. pose proof (typed_all_no_panic (r_values r)) as H.
    destruct (typed_all (r_values r)); try discriminate; reflexivity.
  Qed.

  Definition repo_codecs (fmt : Z) : option (chandef -> report -> res (list Z)) :=
    if fmt =? fmt_legacy then Some (fun cd r => legacy_encode (legacy_opts_of cd) r)
    else if fmt =? fmt_unpacked then Some (fun cd r => unpacked_encode (unpacked_opts_of cd) r)
    else if fmt =? fmt_streamlined then Some (fun cd r => streamlined_encode (streamlined_opts_of cd) fmt r)
    else if fmt =? fmt_json then Some (fun _ r => json_codec_encode digest seq_for_json r)
    else None.
  (* outside known finding F4: no premium-legacy / ABI-unpacked report whose fee division leaves int32 *)
  Definition outside_f4 (r : report) : Prop :=
    (cd_fmt (r_def r) = fmt_legacy -> forall o, legacy_opts_of (r_def r) = Some o -> f4_region (lo_fee o) r = false) /\
    (cd_fmt (r_def r) = fmt_unpacked -> forall o, unpacked_opts_of (r_def r) = Some o -> f4_region (uo_fee o) r = false).

  Theorem repo_reports_no_panic cf seq bs : bok bs ->
    (forall o r, decode_outcome (c_pver cf) bs = Ok o -> In r (snd (reports_of cf seq o)) -> outside_f4 r) ->
    is_panic (plugin_reports repo_codecs retire_enc cf seq bs) = false.
  Proof.
    intros Hb Hg. apply (plugin_reports_no_panic repo_codecs retire_enc outside_f4); try assumption.
    intros fmt enc r Hc Hf Hwf [Hg1 Hg2]. unfold repo_codecs in Hc.
    destruct (fmt =? fmt_legacy) eqn:E1.
    - inversion Hc; subst enc. destruct (legacy_encode (legacy_opts_of (r_def r)) r) as [b|e|s] eqn:El; try reflexivity.
      exfalso. destruct (EvmCodecProofs.legacy_panic_only_F4 _ _ _ Hwf El) as (o' & Ho & Hf4).
      assert (fmt = fmt_legacy) by lia. rewrite (Hg1 ltac:(congruence) o' Ho) in Hf4. discriminate.
    - destruct (fmt =? fmt_unpacked) eqn:E2.
      + inversion Hc; subst enc. destruct (unpacked_encode (unpacked_opts_of (r_def r)) r) as [b|e|s] eqn:El; try reflexivity.
        exfalso. destruct (unpacked_panic_only_F4 widths _ _ _ Hwf El) as (o' & Ho & Hf4).
        assert (fmt = fmt_unpacked) by lia. rewrite (Hg2 ltac:(congruence) o' Ho) in Hf4. discriminate.
      + destruct (fmt =? fmt_streamlined).
        * inversion Hc; subst enc. apply (streamlined_no_panic widths). exact Hwf.
        * destruct (fmt =? fmt_json); [|discriminate]. inversion Hc; subst enc. apply json_codec_no_panic.
  Qed.
End RepoCodecs.
