(* MercObserveProofs.v — what a correct Mercury node sends:
   - proto.Marshal / proto.Unmarshal of the observation messages round-trip (v1..v4);
   - Observation never panics (given the owner-set base fee exponent is sane), errs only when the data source as a
     whole fails or the clock is past 2^32 s;
   - its result, sent over the wire, is accepted by every correct node's parseAttributedObservation and carries exactly
     the values the node's data source returned (prices), the maximal fee for a missing price, zero for a zero price,
     and otherwise the correctly rounded quotient, which has the sign of the base fee. *)
From DS Require Import Base Wire Sort Decimal MercuryAgg Config MercuryReport MercuryWire MercuryObserve.
From DS Require Import BaseProofs WireProofs FieldLists ConfigProofs.
From Coq Require Import Lia ZArith.
Open Scope Z_scope.

(* ---- one occurrence of a key in a spec list with distinct keys ---- *)
Lemma in_split_nospec k s l : List.NoDup (map fkey l) -> In s l -> fkey s = k ->
  exists pre post, l = pre ++ s :: post /\ nospec k pre /\ nospec k post.
Proof.
  intros Hnd Hin Hk. destruct (in_split _ _ Hin) as (pre & post & ->). exists pre, post. split; [reflexivity|].
  rewrite map_app in Hnd. cbn [map] in Hnd. pose proof (NoDup_remove_2 _ _ _ Hnd) as Hn.
  split; apply Forall_forall; intros x Hx Hc; apply Hn; apply in_or_app; [left|right]; apply in_map_iff; exists x; (split; [congruence|exact Hx]).
Qed.
Lemma last_varint_in k v l : List.NoDup (map fkey l) -> In (FV k v) l -> last_varint k (raw_fs l) = v.
Proof. intros Hnd Hin. destruct (in_split_nospec k _ l Hnd Hin eq_refl) as (pre & post & -> & Hp & Hq). apply last_varint_spec; assumption. Qed.
Lemma last_bytes_in k b l : List.NoDup (map fkey l) -> In (FB k b) l -> last_bytes k (raw_fs l) = b.
Proof. intros Hnd Hin. destruct (in_split_nospec k _ l Hnd Hin eq_refl) as (pre & post & -> & Hp & Hq). apply last_bytes_spec; assumption. Qed.

Ltac nodup_keys := cbn [map fkey]; repeat (apply List.NoDup_cons; [cbn [In]; intuition lia|]); apply List.NoDup_nil.
Ltac in_list := cbn [In]; tauto.

Lemma vbool_b2z b : vbool (b2z b) = b. Proof. destruct b; reflexivity. Qed.
Lemma b2z_range b : 0 <= b2z b < 2 ^ 64. Proof. destruct b; cbn; lia. Qed.
Lemma i64_u64w v : - 2 ^ 63 <= v < 2 ^ 63 -> i64 (u64w v) = v.
Proof.
  intros H. unfold i64, u64w. change (2 ^ 64) with 18446744073709551616. change (2 ^ 63) with 9223372036854775808 in *.
  pose proof (Z.mod_pos_bound v 18446744073709551616 ltac:(lia)) as Hb.
  pose proof (Z.div_mod v 18446744073709551616 ltac:(lia)) as Hd.
  destruct (v mod 18446744073709551616 <? 9223372036854775808) eqn:E; lia.
Qed.
Lemma u64w_range v : 0 <= u64w v < 2 ^ 64. Proof. unfold u64w. apply Z.mod_pos_bound. lia. Qed.
Lemma u32w_small v : 0 <= v < 2 ^ 32 -> u32w v = v. Proof. intros H. unfold u32w. apply Z.mod_small. lia. Qed.

(* ---- v2..v4 ---- *)
Definition blen_ok (b : bytes) : Prop := Z.of_nat (length b) < 2 ^ 64.
Definition mobs_wf (ver : Z) (m : mobs) : Prop :=
  0 <= mo_ts m < 2 ^ 32 /\ - 2 ^ 63 <= mo_mfts m < 2 ^ 63 /\ 0 <= mo_status m < 2 ^ 32 /\
  blen_ok (mo_bm m) /\ blen_ok (mo_bid m) /\ blen_ok (mo_ask m) /\ blen_ok (mo_link m) /\ blen_ok (mo_native m) /\
  (ver <> 3 -> mo_bid m = [] /\ mo_ask m = []) /\
  (ver <> 4 -> mo_status m = 0 /\ mo_status_valid m = false).

Definition fs2 (m : mobs) : list fspec :=
  [FV 1 (mo_ts m); FB 2 (mo_bm m); FV 3 (b2z (mo_prices_valid m)); FV 4 (u64w (mo_mfts m)); FV 5 (b2z (mo_mfts_valid m));
   FB 6 (mo_link m); FV 7 (b2z (mo_link_valid m)); FB 8 (mo_native m); FV 9 (b2z (mo_native_valid m))].
Definition fs34 (m : mobs) : list fspec :=
  [FV 1 (mo_ts m); FB 2 (mo_bm m); FB 3 (mo_bid m); FB 4 (mo_ask m); FV 5 (b2z (mo_prices_valid m));
   FV 6 (u64w (mo_mfts m)); FV 7 (b2z (mo_mfts_valid m)); FB 8 (mo_link m); FV 9 (b2z (mo_link_valid m));
   FB 10 (mo_native m); FV 11 (b2z (mo_native_valid m)); FV 12 (mo_status m); FV 13 (b2z (mo_status_valid m))].

Lemma merc_encode234_fs ver m : merc_encode234 ver m = enc_fs (if ver =? 2 then fs2 m else fs34 m).
Proof. unfold merc_encode234. destruct (ver =? 2); cbn [fs2 fs34 enc_fs flat_map enc_f]; rewrite ?app_nil_r, <- ?app_assoc; reflexivity. Qed.

Ltac fs_ok := repeat (apply Forall_cons; [cbn [fspec_ok]; unfold field_ok; first [split; [lia|]; first [apply b2z_range | apply u64w_range | assumption | lia] | idtac]|]); try apply Forall_nil.

Ltac in_list' := cbn [In]; repeat (first [left; reflexivity | right]).
Ltac lv_in Hnd := apply last_varint_in; [exact Hnd | in_list'].
Ltac lb_in Hnd := apply last_bytes_in; [exact Hnd | in_list'].

Lemma fs2_fields m : let l := raw_fs (fs2 m) in
  last_varint 1 l = mo_ts m /\ last_bytes 2 l = mo_bm m /\ last_varint 3 l = b2z (mo_prices_valid m) /\
  last_varint 4 l = u64w (mo_mfts m) /\ last_varint 5 l = b2z (mo_mfts_valid m) /\ last_bytes 6 l = mo_link m /\
  last_varint 7 l = b2z (mo_link_valid m) /\ last_bytes 8 l = mo_native m /\ last_varint 9 l = b2z (mo_native_valid m).
Proof.
  assert (Hnd : List.NoDup (map fkey (fs2 m))) by (unfold fs2; nodup_keys).
  cbv zeta. unfold fs2 in *. repeat split; first [lv_in Hnd | lb_in Hnd].
Qed.
Lemma fs34_fields m : let l := raw_fs (fs34 m) in
  last_varint 1 l = mo_ts m /\ last_bytes 2 l = mo_bm m /\ last_bytes 3 l = mo_bid m /\ last_bytes 4 l = mo_ask m /\
  last_varint 5 l = b2z (mo_prices_valid m) /\ last_varint 6 l = u64w (mo_mfts m) /\ last_varint 7 l = b2z (mo_mfts_valid m) /\
  last_bytes 8 l = mo_link m /\ last_varint 9 l = b2z (mo_link_valid m) /\ last_bytes 10 l = mo_native m /\
  last_varint 11 l = b2z (mo_native_valid m) /\ last_varint 12 l = mo_status m /\ last_varint 13 l = b2z (mo_status_valid m).
Proof.
  assert (Hnd : List.NoDup (map fkey (fs34 m))) by (unfold fs34; nodup_keys).
  cbv zeta. unfold fs34 in *. repeat split; first [lv_in Hnd | lb_in Hnd].
Qed.

Theorem merc_roundtrip234 ver m : ver = 2 \/ ver = 3 \/ ver = 4 -> mobs_wf ver m ->
  merc_decode234 ver (merc_encode234 ver m) = Some m.
Proof.
  intros Hv (Hts & Hmf & Hst & Hb1 & Hb2 & Hb3 & Hb4 & Hb5 & H3 & H4).
  rewrite merc_encode234_fs. unfold merc_decode234. unfold blen_ok in *.
  destruct (ver =? 2) eqn:E2.
  - assert (ver = 2) by lia. subst ver. destruct H3 as [Hbid Hask]; [lia|]. destruct H4 as [Hs0 Hsv]; [lia|].
    rewrite parse_enc_fs. 2:{ unfold fs2. fs_ok. }
    destruct (fs2_fields m) as (F1 & F2 & F3 & F4 & F5 & F6 & F7 & F8 & F9). cbv zeta in *.
    rewrite F1, F2, F3, F4, F5, F6, F7, F8, F9.
    rewrite !vbool_b2z, i64_u64w, u32w_small by lia.
    destruct m; cbn in *; subst; reflexivity.
  - rewrite parse_enc_fs. 2:{ unfold fs34. fs_ok. }
    destruct (fs34_fields m) as (F1 & F2 & F3 & F4 & F5 & F6 & F7 & F8 & F9 & F10 & F11 & F12 & F13). cbv zeta in *.
    rewrite F1, F2, F5, F6, F7, F8, F9, F10, F11, ?F3, ?F4, ?F12, ?F13.
    rewrite !vbool_b2z, i64_u64w, !u32w_small by lia.
    destruct (ver =? 3) eqn:E3.
    + assert (ver = 3) by lia. subst ver. destruct H4 as [Hs0 Hsv]; [lia|]. destruct m; cbn in *; subst; reflexivity.
    + assert (ver = 4) by lia. subst ver. destruct H3 as [Hbid Hask]; [lia|]. destruct m; cbn in *; subst; reflexivity.
Qed.

(* ---- v1 ---- *)
(* the last conjunct only says the encoded block is shorter than 2^64 bytes *)
Definition block_wf (b : block) : Prop := - 2 ^ 63 <= bnum b < 2 ^ 63 /\ 0 <= bts b < 2 ^ 64 /\ blen_ok (bhash b) /\ blen_ok (block_encode b).
Definition mobs1_wf (m : mobs1) : Prop :=
  0 <= m1_ts m < 2 ^ 32 /\ - 2 ^ 63 <= m1_mfb m < 2 ^ 63 /\ block_wf (m1_cur m) /\ Forall block_wf (m1_blocks m) /\
  blen_ok (m1_bm m) /\ blen_ok (m1_bid m) /\ blen_ok (m1_ask m).

Definition fsb (b : block) : list fspec := [FV 1 (u64w (bnum b)); FB 2 (bhash b); FV 3 (bts b)].
Lemma block_encode_fs b : block_encode b = enc_fs (fsb b).
Proof. unfold block_encode, fsb. cbn [enc_fs flat_map enc_f]. rewrite ?app_nil_r, <- ?app_assoc. reflexivity. Qed.

Lemma block_roundtrip b : block_wf b -> merc_block (block_encode b) = Some b.
Proof.
  intros (Hn & Ht & Hh & _). unfold blen_ok in Hh. rewrite block_encode_fs. unfold merc_block. destruct b as [n h t]. cbn [bnum bhash bts] in *.
  rewrite parse_enc_fs. 2:{ unfold fsb. cbn [bnum bhash bts]. fs_ok. }
  unfold fsb. cbn [bnum bhash bts].
  match goal with |- context [raw_fs ?l] => assert (Hnd : List.NoDup (map fkey l)) by nodup_keys end.
  repeat match goal with
  | |- context [last_varint ?k (raw_fs ?l)] => erewrite (last_varint_in k _ l Hnd) by in_list
  | |- context [last_bytes ?k (raw_fs ?l)] => erewrite (last_bytes_in k _ l Hnd) by in_list
  end.
  rewrite i64_u64w by lia. reflexivity.
Qed.
Lemma blocks_roundtrip bl : Forall block_wf bl -> all_some (map merc_block (map block_encode bl)) = Some bl.
Proof.
  induction bl as [|b bl IH]; intros H; [reflexivity|]. inversion H as [|? ? Hb Hr]; subst.
  cbn [map all_some]. rewrite (block_roundtrip b Hb), (IH Hr). reflexivity.
Qed.

Lemma last_varint_app_nokey k a b : nospec k b -> last_varint k (raw_fs (a ++ b)) = last_varint k (raw_fs a).
Proof. intros H. rewrite raw_fs_app, !last_varint_fold, fold_left_app. apply fold_nokey_varint, nokey_raw, H. Qed.
Lemma last_bytes_app_nokey k a b : nospec k b -> last_bytes k (raw_fs (a ++ b)) = last_bytes k (raw_fs a).
Proof. intros H. rewrite raw_fs_app, !last_bytes_fold, fold_left_app. apply fold_nokey_bytes, nokey_raw, H. Qed.

Definition fs1 (m : mobs1) : list fspec :=
  [FV 1 (m1_ts m); FB 2 (m1_bm m); FB 3 (m1_bid m); FB 4 (m1_ask m); FV 5 (b2z (m1_prices_valid m));
   FV 6 (u64w (bnum (m1_cur m))); FB 7 (bhash (m1_cur m)); FV 8 (bts (m1_cur m)); FV 9 (b2z (m1_cur_valid m));
   FV 10 (u64w (m1_mfb m)); FV 11 (b2z (m1_mfb_valid m))].
Lemma merc_encode1_fs m : merc_encode1 m = enc_fs (fs1 m ++ map (fun b => FM 12 (block_encode b)) (m1_blocks m)).
Proof.
  unfold merc_encode1. rewrite enc_fs_app, enc_fs_map_FM. unfold fs1. cbn [enc_fs flat_map enc_f].
  rewrite ?app_nil_r, <- ?app_assoc. reflexivity.
Qed.

Theorem merc_roundtrip1 m : mobs1_wf m -> merc_decode1 (merc_encode1 m) = Some m.
Proof.
  intros (Hts & Hmf & (Hcn & Hct & Hch & _) & Hbl & Hb1 & Hb2 & Hb3). unfold blen_ok in *.
  rewrite merc_encode1_fs. unfold merc_decode1.
  destruct m as [ts pv bm bid ask blocks cv [cn ch ct] mfv mf].
  cbn [m1_ts m1_prices_valid m1_bm m1_bid m1_ask m1_blocks m1_cur_valid m1_cur m1_mfb_valid m1_mfb bnum bhash bts] in *.
  rewrite parse_enc_fs.
  2:{ apply Forall_app. split.
      - unfold fs1. cbn [m1_ts m1_prices_valid m1_bm m1_bid m1_ask m1_cur_valid m1_cur m1_mfb_valid m1_mfb bnum bhash bts]. fs_ok.
      - apply Forall_forall. intros s Hs. apply in_map_iff in Hs. destruct Hs as (b & <- & Hb).
        rewrite Forall_forall in Hbl. destruct (Hbl b Hb) as (_ & _ & _ & Hlen). cbn [fspec_ok]. unfold field_ok. split; [lia|exact Hlen]. }
  assert (Hrep : forall k, k <> 12 -> nospec k (map (fun b => FM 12 (block_encode b)) blocks)) by (intros k Hk; apply nospec_map_FM; lia).
  pose proof (all_bytes_spec 12 block_encode blocks (fs1 {| m1_ts := ts; m1_prices_valid := pv; m1_bm := bm; m1_bid := bid; m1_ask := ask;
      m1_blocks := blocks; m1_cur_valid := cv; m1_cur := {| bnum := cn; bhash := ch; bts := ct |}; m1_mfb_valid := mfv; m1_mfb := mf |}) []) as Hab.
  rewrite app_nil_r in Hab. rewrite Hab; [|unfold fs1; nospec_tac|apply Forall_nil].
  rewrite blocks_roundtrip by exact Hbl.
  rewrite !last_varint_app_nokey, !last_bytes_app_nokey by (apply Hrep; lia).
  unfold fs1. cbn [m1_ts m1_prices_valid m1_bm m1_bid m1_ask m1_cur_valid m1_cur m1_mfb_valid m1_mfb bnum bhash bts].
  match goal with |- context [raw_fs ?l] => assert (Hnd : List.NoDup (map fkey l)) by nodup_keys end.
  repeat match goal with
  | |- context [last_varint ?k (raw_fs ?l)] => erewrite (last_varint_in k _ l Hnd) by in_list
  | |- context [last_bytes ?k (raw_fs ?l)] => erewrite (last_bytes_in k _ l Hnd) by in_list
  end.
  rewrite !vbool_b2z, !i64_u64w, u32w_small by lia. reflexivity.
Qed.

(* ================= Observation ================= *)
Definition in192b (x : Z) : bool := (- 2 ^ 191 <=? x) && (x <? 2 ^ 191).
Definition price_val (v : option Z) : option Z := match v with Some x => if in192b x then Some x else None | None => None end.
Definition fld (o : option Z) : field := match o with Some x => (x, true) | None => (0, false) end.
Definition fee_val (base : dec) (src : option Z) : field :=
  match src with
  | None => (0, false)
  | Some p => if p <=? -1 then (max_int192, true)
              else match merc_calc_fee p base with Ok fee => if in192b fee then (fee, true) else (0, false) | _ => (0, false) end
  end.

Lemma encode_int192_cases x : if in192b x then exists b, encode_int192 x = Ok b /\ decode_int192 b = Ok x /\ length b = 24%nat
                              else encode_int192 x = Err EOutOfRange.
Proof.
  unfold in192b, encode_int192, ser_signed. change (8 * Z.of_nat 24 - 1) with 191.
  destruct ((- 2 ^ 191 <=? x) && (x <? 2 ^ 191)) eqn:E; [|reflexivity].
  eexists. split; [reflexivity|]. split.
  - apply (signed_roundtrip 24 x); [lia|]. unfold ser_signed. change (8 * Z.of_nat 24 - 1) with 191. rewrite E. reflexivity.
  - apply length_be_bytes.
Qed.

Lemma enc_price_spec v : match enc_price v with
                         | Some b => exists x, price_val v = Some x /\ decode_int192 b = Ok x /\ length b = 24%nat
                         | None => price_val v = None end.
Proof.
  destruct v as [x|]; [|reflexivity]. cbn [enc_price price_val]. pose proof (encode_int192_cases x) as H.
  destruct (in192b x).
  - destruct H as (b & -> & Hd & Hl). eauto.
  - rewrite H. reflexivity.
Qed.
Lemma dec_opt_enc_price v b : enc_price v = Some b -> dec_opt true b = Some (fld (price_val v)) /\ is_some (price_val v) = true.
Proof.
  intros H. pose proof (enc_price_spec v) as Hs. rewrite H in Hs. destruct Hs as (x & -> & Hd & _).
  unfold dec_opt. rewrite Hd. split; reflexivity.
Qed.
Lemma enc_price_none v : enc_price v = None -> price_val v = None.
Proof. intros H. pose proof (enc_price_spec v) as Hs. rewrite H in Hs. exact Hs. Qed.

Lemma max_enc_dec : dec_opt true max_int192_enc = Some (max_int192, true).
Proof. vm_compute. reflexivity. Qed.

Lemma fee_field_dec base src l : fee_field base src = Ok l -> dec_opt (fst l) (snd l) = Some (fee_val base src).
Proof.
  unfold fee_field, fee_val. destruct src as [p|]; [|intros H; inversion H; reflexivity].
  destruct (p <=? -1); [intros H; inversion H; exact max_enc_dec|].
  destruct (merc_calc_fee p base) as [fee| |]; try discriminate.
  pose proof (encode_int192_cases fee) as Hc. destruct (in192b fee).
  - destruct Hc as (b & -> & Hd & _). intros H; inversion H; subst. cbn [fst snd]. unfold dec_opt. rewrite Hd. reflexivity.
  - rewrite Hc. intros H; inversion H. reflexivity.
Qed.

Definition ordered3 (ds : ds234) : bool :=
  negb ((opt_or (ds_bm ds) 0 <? opt_or (ds_bid ds) 0) || (opt_or (ds_ask ds) 0 <? opt_or (ds_bm ds) 0)).
Definition prices_ok (ver : Z) (ds : ds234) : bool :=
  if ver =? 3 then is_some (price_val (ds_bm ds)) && is_some (price_val (ds_bid ds)) && is_some (price_val (ds_ask ds)) && ordered3 ds
  else is_some (price_val (ds_bm ds)).
(* what every correct node's parser makes of a correct node's observation *)
Definition expected_pao (ver : Z) (base : dec) (now : Z) (ds : ds234) : pao :=
  let pv := prices_ok ver ds in
  let pick (v : option Z) := if pv then fld (price_val v) else (0, false) in
  {| p_ts := now; p_bm := pick (ds_bm ds);
     p_bid := if ver =? 3 then pick (ds_bid ds) else (0, false);
     p_ask := if ver =? 3 then pick (ds_ask ds) else (0, false);
     p_mfts := (opt_or (ds_mfts ds) 0, is_some (ds_mfts ds));
     p_link := fee_val base (ds_link ds); p_native := fee_val base (ds_native ds);
     p_status := (if ver =? 4 then opt_or (ds_status ds) 0 else 0, (ver =? 4) && is_some (ds_status ds)) |}.

Lemma price_val_opt_or v x : price_val v = Some x -> opt_or v 0 = x.
Proof. destruct v as [y|]; cbn; [|discriminate]. destruct (in192b y); [|discriminate]. intros H; inversion H; reflexivity. Qed.

Theorem merc_observation_parses ver base now fail ds m :
  merc_observe234 ver base now fail ds = Ok m -> parse234 ver m = Some (expected_pao ver base now ds).
Proof.
  unfold merc_observe234. destruct fail; [discriminate|]. destruct (max_uint32 <? now); [discriminate|].
  destruct (fee_field base (ds_link ds)) as [l| |] eqn:El; try discriminate.
  destruct (fee_field base (ds_native ds)) as [n| |] eqn:En; try discriminate.
  cbn [bind]. intros H. inversion H; subst m; clear H.
  unfold parse234, expected_pao, prices_ok, ordered3.
  cbn [mo_ts mo_prices_valid mo_bm mo_bid mo_ask mo_mfts_valid mo_mfts mo_link_valid mo_link mo_native_valid mo_native mo_status_valid mo_status].
  rewrite (fee_field_dec _ _ _ El), (fee_field_dec _ _ _ En).
  destruct (ver =? 3) eqn:E3.
  - assert (E4 : (ver =? 4) = false) by lia. rewrite E4. cbn [andb].
    destruct (enc_price (ds_bm ds)) as [b1|] eqn:Eb1.
    2:{ rewrite (enc_price_none _ Eb1). cbn [is_some andb opt_or dec_opt]. reflexivity. }
    destruct (dec_opt_enc_price _ _ Eb1) as [Hd1 Hs1]. rewrite Hs1.
    destruct (enc_price (ds_bid ds)) as [b2|] eqn:Eb2.
    2:{ rewrite (enc_price_none _ Eb2). cbn [is_some andb opt_or dec_opt]. reflexivity. }
    destruct (dec_opt_enc_price _ _ Eb2) as [Hd2 Hs2]. rewrite Hs2.
    destruct (enc_price (ds_ask ds)) as [b3|] eqn:Eb3.
    2:{ rewrite (enc_price_none _ Eb3). cbn [is_some andb opt_or dec_opt]. reflexivity. }
    destruct (dec_opt_enc_price _ _ Eb3) as [Hd3 Hs3]. rewrite Hs3.
    cbn [is_some andb opt_or].
    destruct (negb _) eqn:Eord; [|cbn [dec_opt]; reflexivity].
    rewrite Hd1, Hd2, Hd3.
    destruct (price_val (ds_bm ds)) as [x1|] eqn:P1; [|discriminate].
    destruct (price_val (ds_bid ds)) as [x2|] eqn:P2; [|discriminate].
    destruct (price_val (ds_ask ds)) as [x3|] eqn:P3; [|discriminate].
    rewrite (price_val_opt_or _ _ P1), (price_val_opt_or _ _ P2), (price_val_opt_or _ _ P3) in Eord.
    cbn [fld fst andb]. apply Bool.negb_true_iff in Eord. rewrite Eord. reflexivity.
  - destruct (enc_price (ds_bm ds)) as [b1|] eqn:Eb1.
    + destruct (dec_opt_enc_price _ _ Eb1) as [Hd1 Hs1]. rewrite Hs1. cbn [is_some opt_or]. rewrite Hd1.
      destruct (ver =? 4); destruct (is_some (ds_status ds)); reflexivity.
    + rewrite (enc_price_none _ Eb1). cbn [is_some opt_or dec_opt].
      destruct (ver =? 4); destruct (is_some (ds_status ds)); reflexivity.
Qed.

(* ---- Observation: totality ---- *)
Lemma calc_fee_no_panic p base s : merc_calc_fee p base = Panic s -> int32_in (dexp base + 16) = false.
Proof.
  unfold merc_calc_fee. destruct ((p =? 0) || (dzc base =? 0)); [discriminate|].
  destruct (int32_in (dexp base + 16)); [discriminate|reflexivity].
Qed.
Lemma calc_fee_no_err p base e : merc_calc_fee p base <> Err e.
Proof.
  unfold merc_calc_fee. destruct ((p =? 0) || (dzc base =? 0)); [discriminate|].
  destruct (int32_in (dexp base + 16)); discriminate.
Qed.
Lemma fee_field_total base src : int32_in (dexp base + 16) = true -> exists l, fee_field base src = Ok l.
Proof.
  intros Hi. unfold fee_field. destruct src as [p|]; [|eauto]. destruct (p <=? -1); [eauto|].
  destruct (merc_calc_fee p base) as [fee|e|s] eqn:E.
  - destruct (encode_int192 fee); eauto.
  - exfalso. exact (calc_fee_no_err _ _ _ E).
  - apply calc_fee_no_panic in E. congruence.
Qed.

(* with a sane base-fee exponent, Observation fails exactly when the data source as a whole fails or the clock is
   beyond 2^32 - 1 seconds; it never panics *)
Theorem merc_observation_total ver base now fail ds : int32_in (dexp base + 16) = true ->
  match merc_observe234 ver base now fail ds with
  | Ok _ => fail = false /\ now <= max_uint32
  | Err _ => fail = true \/ max_uint32 < now
  | Panic _ => False
  end.
Proof.
  intros Hi. unfold merc_observe234. destruct fail; [left; reflexivity|].
  destruct (max_uint32 <? now) eqn:En; [right; lia|].
  destruct (fee_field_total base (ds_link ds) Hi) as [l ->]. destruct (fee_field_total base (ds_native ds) Hi) as [n ->].
  cbn [bind]. split; [reflexivity|lia].
Qed.
(* ... and the only panic is the exponent overflow in decimal.QuoRem *)
Theorem merc_observation_panic_only_exponent ver base now fail ds s :
  merc_observe234 ver base now fail ds = Panic s -> int32_in (dexp base + 16) = false.
Proof.
  intros H. destruct (int32_in (dexp base + 16)) eqn:E; [|reflexivity].
  pose proof (merc_observation_total ver base now fail ds E) as Ht. rewrite H in Ht. destruct Ht.
Qed.

(* ---- Observation: what is sent is well-formed for the wire, so the receiver reads back exactly what was sent ---- *)
Definition ds_typed (ds : ds234) : Prop :=
  (forall v, ds_mfts ds = Some v -> - 2 ^ 63 <= v < 2 ^ 63) /\ (forall v, ds_status ds = Some v -> 0 <= v < 2 ^ 32).

Lemma blen24 b : length b = 24%nat -> blen_ok b. Proof. intros H. unfold blen_ok. rewrite H. cbn. lia. Qed.
Lemma blen_nil : blen_ok []. Proof. unfold blen_ok. cbn. lia. Qed.
Lemma enc_price_blen v : blen_ok (opt_or (enc_price v) []).
Proof.
  pose proof (enc_price_spec v) as H. destruct (enc_price v) as [b|]; cbn [opt_or]; [|apply blen_nil].
  destruct H as (x & _ & _ & Hl). apply blen24, Hl.
Qed.
Lemma fee_field_blen base src l : fee_field base src = Ok l -> blen_ok (snd l).
Proof.
  unfold fee_field. destruct src as [p|]; [|intros H; inversion H; apply blen_nil].
  destruct (p <=? -1); [intros H; inversion H; unfold blen_ok; vm_compute; reflexivity|].
  destruct (merc_calc_fee p base) as [fee| |]; try discriminate.
  pose proof (encode_int192_cases fee) as Hc. destruct (in192b fee).
  - destruct Hc as (b & -> & _ & Hl). intros H; inversion H. apply blen24, Hl.
  - rewrite Hc. intros H; inversion H. apply blen_nil.
Qed.

Theorem merc_observation_wf ver base now fail ds m : 0 <= now -> ds_typed ds ->
  merc_observe234 ver base now fail ds = Ok m -> mobs_wf ver m.
Proof.
  intros Hnow (Hmf & Hst). unfold merc_observe234. destruct fail; [discriminate|].
  destruct (max_uint32 <? now) eqn:En; [discriminate|].
  destruct (fee_field base (ds_link ds)) as [l| |] eqn:El; try discriminate.
  destruct (fee_field base (ds_native ds)) as [n| |] eqn:Enat; try discriminate.
  cbn [bind]. intros H. inversion H; subst m; clear H. unfold mobs_wf.
  cbn [mo_ts mo_prices_valid mo_bm mo_bid mo_ask mo_mfts_valid mo_mfts mo_link_valid mo_link mo_native_valid mo_native mo_status_valid mo_status].
  unfold max_uint32 in En.
  split; [lia|]. split; [destruct (ds_mfts ds) as [v|]; cbn [opt_or]; [apply Hmf; reflexivity|lia]|].
  split; [destruct (ver =? 4); [destruct (ds_status ds) as [v|]; cbn [opt_or]; [apply Hst; reflexivity|lia]|lia]|].
  split; [apply enc_price_blen|].
  split; [destruct (ver =? 3); [apply enc_price_blen|apply blen_nil]|].
  split; [destruct (ver =? 3); [apply enc_price_blen|apply blen_nil]|].
  split; [exact (fee_field_blen _ _ _ El)|]. split; [exact (fee_field_blen _ _ _ Enat)|].
  split.
  - intros Hv. assert (E : (ver =? 3) = false) by lia. rewrite E. split; reflexivity.
  - intros Hv. assert (E : (ver =? 4) = false) by lia. rewrite E. split; reflexivity.
Qed.

(* end to end: the bytes a correct node sends are read by every correct node as exactly expected_pao *)
Theorem correct_observation_is_counted ver base now fail ds m : ver = 2 \/ ver = 3 \/ ver = 4 -> 0 <= now -> ds_typed ds ->
  merc_observe234 ver base now fail ds = Ok m ->
  exists m', merc_decode234 ver (merc_encode234 ver m) = Some m' /\ parse234 ver m' = Some (expected_pao ver base now ds).
Proof.
  intros Hv Hnow Hds H. exists m. split.
  - apply merc_roundtrip234; [exact Hv|]. exact (merc_observation_wf _ _ _ _ _ _ Hnow Hds H).
  - exact (merc_observation_parses _ _ _ _ _ _ H).
Qed.

(* ---- CalculateFee ---- *)
(* the exact rational being rounded is aa / bb = baseUSDFee * 10^34 / price (both scaled by the same power of ten);
   the fee is 100 * q' with q' an integer nearest to it (ties away from zero), and it has the sign of that quotient *)
Definition fee_num (base : dec) : Z := let e := dexp base + 16 in let a := dzc base * 10 ^ 18 in if e <? 0 then a else a * 10 ^ e.
Definition fee_den (price : Z) (base : dec) : Z := let e := dexp base + 16 in if e <? 0 then price * 10 ^ (- e) else price.

Theorem merc_calc_fee_nearest price base fee : price <> 0 -> dzc base <> 0 ->
  merc_calc_fee price base = Ok fee ->
  exists q, fee = 100 * q /\ 2 * Z.abs (q * fee_den price base - fee_num base) <= Z.abs (fee_den price base).
Proof.
  intros Hp Hb. unfold merc_calc_fee, fee_num, fee_den.
  destruct ((price =? 0) || (dzc base =? 0)) eqn:E0; [lia|].
  destruct (int32_in (dexp base + 16)); [|discriminate]. cbn [negb].
  set (e := dexp base + 16). set (a := dzc base * 10 ^ 18).
  set (aa := if e <? 0 then a else a * 10 ^ e). set (bb := if e <? 0 then price * 10 ^ (- e) else price).
  assert (Hbb : bb <> 0).
  { subst bb. destruct (e <? 0) eqn:Ee; [|exact Hp]. assert (0 < 10 ^ (- e)) by (apply Z.pow_pos_nonneg; lia). nia. }
  pose proof (Z.quot_rem' aa bb) as Hqr. pose proof (Z.rem_bound_abs aa bb Hbb) as Hrb.
  pose proof (Z.rem_sign_mul aa bb Hbb) as Hrs.
  assert (Hsgn : Z.sgn a * Z.sgn price = Z.sgn aa * Z.sgn bb).
  { subst aa bb. destruct (e <? 0) eqn:Ee.
    - assert (0 < 10 ^ (- e)) by (apply Z.pow_pos_nonneg; lia). rewrite Z.sgn_mul. rewrite (Z.sgn_pos (10 ^ (- e))) by lia. lia.
    - assert (0 < 10 ^ e) by (apply Z.pow_pos_nonneg; lia). rewrite Z.sgn_mul. rewrite (Z.sgn_pos (10 ^ e)) by lia. lia. }
  rewrite Hsgn. set (q := Z.quot aa bb) in *. set (r := Z.rem aa bb) in *.
  assert (Haa : aa <> 0).
  { subst aa a. destruct (e <? 0) eqn:Ee; [nia|]. assert (0 < 10 ^ e) by (apply Z.pow_pos_nonneg; lia). nia. }
  clearbody q r. clearbody aa bb. clear Hsgn E0.
  destruct (2 * Z.abs r <? Z.abs bb) eqn:Eh; [|destruct (Z.sgn aa * Z.sgn bb <? 0) eqn:Es]; intros H; injection H as <-.
  - exists q. split; [lia|]. replace (q * bb - aa) with (- r) by lia. lia.
  - exists (q - 1). split; [lia|]. replace ((q - 1) * bb - aa) with (- (bb + r)) by lia.
    destruct (Z.eq_dec r 0) as [Hr0|Hr0]; [lia|].
    assert (Hopp : (aa < 0 /\ 0 < bb) \/ (0 < aa /\ bb < 0)).
    { destruct (Z.lt_trichotomy aa 0) as [Ha|[Ha|Ha]]; destruct (Z.lt_trichotomy bb 0) as [Hb'|[Hb'|Hb']];
        try (rewrite ?(Z.sgn_neg aa), ?(Z.sgn_pos aa), ?(Z.sgn_neg bb), ?(Z.sgn_pos bb) in Es by lia; lia); subst; cbn in Es; try lia; try tauto. }
    destruct Hopp as [[Ha Hb']|[Ha Hb']]; [assert (r < 0) by nia|assert (0 < r) by nia]; lia.
  - exists (q + 1). split; [lia|]. replace ((q + 1) * bb - aa) with (bb - r) by lia.
    destruct (Z.eq_dec r 0) as [Hr0|Hr0]; [lia|].
    assert (Hsame : (aa < 0 /\ bb < 0) \/ (0 < aa /\ 0 < bb)).
    { destruct (Z.lt_trichotomy aa 0) as [Ha|[Ha|Ha]]; destruct (Z.lt_trichotomy bb 0) as [Hb'|[Hb'|Hb']];
        try (rewrite ?(Z.sgn_neg aa), ?(Z.sgn_pos aa), ?(Z.sgn_neg bb), ?(Z.sgn_pos bb) in Es by lia; lia); subst; cbn in Es; try lia; try tauto. }
    destruct Hsame as [[Ha Hb']|[Ha Hb']]; [assert (r < 0) by nia|assert (0 < r) by nia]; lia.
Qed.

Theorem merc_calc_fee_sign price base fee : 0 < price -> 0 <= dzc base -> merc_calc_fee price base = Ok fee -> 0 <= fee.
Proof.
  intros Hp Hb. unfold merc_calc_fee. destruct ((price =? 0) || (dzc base =? 0)) eqn:E0; [intros H; inversion H; lia|].
  destruct (int32_in (dexp base + 16)); [|discriminate]. cbn [negb].
  set (e := dexp base + 16). set (a := dzc base * 10 ^ 18).
  set (aa := if e <? 0 then a else a * 10 ^ e). set (bb := if e <? 0 then price * 10 ^ (- e) else price).
  assert (Ha : 0 < a) by (subst a; assert (dzc base <> 0) by lia; nia).
  assert (Haa : 0 < aa). { subst aa. destruct (e <? 0) eqn:Ee; [exact Ha|]. assert (0 < 10 ^ e) by (apply Z.pow_pos_nonneg; lia). nia. }
  assert (Hbb : 0 < bb). { subst bb. destruct (e <? 0) eqn:Ee; [|exact Hp]. assert (0 < 10 ^ (- e)) by (apply Z.pow_pos_nonneg; lia). nia. }
  pose proof (Z.quot_pos aa bb ltac:(lia) Hbb) as Hq.
  rewrite (Z.sgn_pos a Ha), (Z.sgn_pos price Hp). change (1 * 1 <? 0) with false. cbv iota. clearbody aa bb.
  destruct (2 * Z.abs (Z.rem aa bb) <? Z.abs bb); intros H; injection H as <-; lia.
Qed.

(* ---- v1 ---- *)
Definition mf1 (prev_nil : bool) (ds : ds1) : option Z :=
  if prev_nil then
    match d1_mfb ds with
    | None => None
    | Some m => match d1_cur_num ds with Some c => if c <? m then None else Some m | None => Some m end
    end
  else None.
Definition cur1 (ds : ds1) : block := {| bnum := opt_or (d1_cur_num ds) 0; bhash := opt_or (d1_cur_hash ds) []; bts := opt_or (d1_cur_ts ds) 0 |}.
Definition cur1_valid (ds : ds1) : bool := is_some (d1_cur_num ds) && is_some (d1_cur_hash ds) && is_some (d1_cur_ts ds).
(* the block-list conditions of v1's parser, on what the data source returned *)
Definition blocks_okb (ds : ds1) : bool :=
  match d1_blocks ds with
  | [] => if cur1_valid ds then (length (bhash (cur1 ds)) =? 32)%nat && (0 <=? bnum (cur1 ds)) else true
  | bl => (Z.of_nat (length bl) <=? RepoConstants.MaxAllowedBlocks) &&
          negb (has_dup_by (fun a b => bnum a =? bnum b) bl) && negb (has_dup_by (fun a b => bytes_eqb (bhash a) (bhash b)) bl) &&
          forallb (fun b => (length (bhash b) =? 32)%nat && (0 <=? bnum b)) bl
  end.
Definition expected_pao1 (now : Z) (prev_nil : bool) (ds : ds1) : pao1 :=
  let pv := is_some (price_val (d1_bm ds)) && is_some (price_val (d1_bid ds)) && is_some (price_val (d1_ask ds)) in
  let pick (v : option Z) := if pv then fld (price_val v) else (0, false) in
  {| q_ts := now mod 2 ^ 32; q_bm := pick (d1_bm ds); q_bid := pick (d1_bid ds); q_ask := pick (d1_ask ds);
     q_blocks := (d1_blocks ds, if cur1_valid ds then Some (cur1 ds) else None);
     q_mfb := (opt_or (mf1 prev_nil ds) 0, is_some (mf1 prev_nil ds)) |}.

(* v1 Observation never panics and fails only when the data source as a whole fails *)
Theorem merc_observation1_total now prev_nil fail ds :
  match merc_observe1 now prev_nil fail ds with Ok _ => fail = false | Err _ => fail = true | Panic _ => False end.
Proof. unfold merc_observe1. destruct fail; reflexivity. Qed.

(* a correct v1 node's observation is dropped by the parser exactly when its data source's block list is malformed;
   otherwise it is read as the data source's values *)
Theorem merc_observation1_parses now prev_nil fail ds m :
  merc_observe1 now prev_nil fail ds = Ok m ->
  parse1 m = if blocks_okb ds then Some (expected_pao1 now prev_nil ds) else None.
Proof.
  unfold merc_observe1. destruct fail; [discriminate|]. intros H. inversion H; subst m; clear H.
  unfold parse1, expected_pao1, blocks_okb.
  cbn [m1_ts m1_prices_valid m1_bm m1_bid m1_ask m1_blocks m1_cur_valid m1_cur m1_mfb_valid m1_mfb].
  fold (mf1 prev_nil ds). fold (cur1 ds). fold (cur1_valid ds).
  destruct (enc_price (d1_bm ds)) as [b1|] eqn:Eb1.
  2:{ rewrite (enc_price_none _ Eb1). cbn [is_some andb opt_or dec_opt]. destruct (d1_blocks ds); reflexivity. }
  destruct (dec_opt_enc_price _ _ Eb1) as [Hd1 Hs1]. rewrite Hs1.
  destruct (enc_price (d1_bid ds)) as [b2|] eqn:Eb2.
  2:{ rewrite (enc_price_none _ Eb2). cbn [is_some andb opt_or dec_opt]. destruct (d1_blocks ds); reflexivity. }
  destruct (dec_opt_enc_price _ _ Eb2) as [Hd2 Hs2]. rewrite Hs2.
  destruct (enc_price (d1_ask ds)) as [b3|] eqn:Eb3.
  2:{ rewrite (enc_price_none _ Eb3). cbn [is_some andb opt_or dec_opt]. destruct (d1_blocks ds); reflexivity. }
  destruct (dec_opt_enc_price _ _ Eb3) as [Hd3 Hs3]. rewrite Hs3.
  cbn [is_some andb opt_or]. rewrite Hd1, Hd2, Hd3. destruct (d1_blocks ds); reflexivity.
Qed.

Definition ds1_typed (ds : ds1) : Prop :=
  (forall v, d1_mfb ds = Some v -> - 2 ^ 63 <= v < 2 ^ 63) /\ (forall v, d1_cur_num ds = Some v -> - 2 ^ 63 <= v < 2 ^ 63) /\
  (forall v, d1_cur_ts ds = Some v -> 0 <= v < 2 ^ 64) /\ Forall block_wf (d1_blocks ds) /\ block_wf (cur1 ds).

Theorem merc_observation1_wf now prev_nil fail ds m : ds1_typed ds -> merc_observe1 now prev_nil fail ds = Ok m -> mobs1_wf m.
Proof.
  intros (Hmf & Hcn & Hct & Hbl & Hcur). unfold merc_observe1. destruct fail; [discriminate|]. intros H. inversion H; subst m; clear H.
  unfold mobs1_wf. cbn [m1_ts m1_prices_valid m1_bm m1_bid m1_ask m1_blocks m1_cur_valid m1_cur m1_mfb_valid m1_mfb].
  fold (mf1 prev_nil ds). fold (cur1 ds).
  split; [apply Z.mod_pos_bound; lia|]. split.
  { unfold mf1. destruct prev_nil; cbn [opt_or]; [|lia]. destruct (d1_mfb ds) as [v|] eqn:E; cbn [opt_or]; [|lia].
    specialize (Hmf v eq_refl). destruct (d1_cur_num ds) as [c|]; [destruct (c <? v)|]; cbn [opt_or]; lia. }
  split; [exact Hcur|]. split; [exact Hbl|]. repeat split; apply enc_price_blen.
Qed.

Theorem correct_observation1_is_counted now prev_nil fail ds m : ds1_typed ds ->
  merc_observe1 now prev_nil fail ds = Ok m ->
  exists m', merc_decode1 (merc_encode1 m) = Some m' /\
             parse1 m' = if blocks_okb ds then Some (expected_pao1 now prev_nil ds) else None.
Proof.
  intros Hds H. exists m. split.
  - apply merc_roundtrip1. exact (merc_observation1_wf _ _ _ _ _ Hds H).
  - exact (merc_observation1_parses _ _ _ _ _ H).
Qed.

(* ================= end to end: C08 in terms of what the correct nodes' data sources returned ================= *)
From DS Require Import RankMedian MercuryAggProofs.

(* a sender is a correct node (its clock and what its data source returned) or arbitrary bytes *)
Inductive sender := Correct (now : Z) (ds : ds234) | Faulty (b : bytes).
Definition is_correct (s : sender) : bool := match s with Correct _ _ => true | Faulty _ => false end.
Definition sent (ver : Z) (base : dec) (s : sender) : option bytes :=
  match s with
  | Correct now ds => match merc_observe234 ver base now false ds with Ok m => Some (merc_encode234 ver m) | _ => None end
  | Faulty b => Some b
  end.
(* what Report's parseAttributedObservations keeps, tagged with "from a correct node" *)
Definition received1 (ver : Z) (base : dec) (s : sender) : option (pao * bool) :=
  match sent ver base s with
  | Some b => match merc_decode234 ver b with
              | Some m => match parse234 ver m with Some p => Some (p, is_correct s) | None => None end
              | None => None
              end
  | None => None
  end.
Definition received (ver : Z) (base : dec) (ss : list sender) : list (pao * bool) := MercuryReport.omap (received1 ver base) ss.

Lemma in_omap {A B} (f : A -> option B) l y : In y (MercuryReport.omap f l) -> exists x, In x l /\ f x = Some y.
Proof.
  induction l as [|x l IH]; cbn [MercuryReport.omap]; [intros []|]. destruct (f x) as [z|] eqn:E.
  - intros [<-|H]; [exists x; split; [left; reflexivity|exact E]|]. destruct (IH H) as (x' & Hx & Hf). exists x'. split; [right; exact Hx|exact Hf].
  - intros H. destruct (IH H) as (x' & Hx & Hf). exists x'. split; [right; exact Hx|exact Hf].
Qed.

Definition senders_ok (ss : list sender) : Prop :=
  forall now ds, In (Correct now ds) ss -> 0 <= now /\ ds_typed ds.

Lemma received_correct ver base ss p : ver = 2 \/ ver = 3 \/ ver = 4 -> senders_ok ss ->
  In (p, true) (received ver base ss) -> exists now ds, In (Correct now ds) ss /\ p = expected_pao ver base now ds.
Proof.
  intros Hv Hok Hin. destruct (in_omap _ _ _ Hin) as (s & Hs & Hr). unfold received1 in Hr.
  destruct s as [now ds|b]; cbn [sent is_correct] in Hr.
  - destruct (merc_observe234 ver base now false ds) as [m| |] eqn:Eo; try discriminate.
    destruct (Hok now ds Hs) as [Hnow Hds].
    destruct (correct_observation_is_counted ver base now false ds m Hv Hnow Hds Eo) as (m' & Hd & Hp).
    rewrite Hd, Hp in Hr. inversion Hr. exists now, ds. split; [exact Hs|reflexivity].
  - destruct (merc_decode234 ver b) as [m|]; [|discriminate]. destruct (parse234 ver m); [|discriminate]. inversion Hr.
Qed.

Lemma pick_valid ver ds v x : (if prices_ok ver ds then fld (price_val v) else (0, false)) = (x, true) -> v = Some x.
Proof.
  destruct (prices_ok ver ds); [|discriminate]. destruct v as [y|]; cbn [price_val fld]; [|discriminate].
  destruct (in192b y); cbn [fld]; [|discriminate]. intros H; inversion H; reflexivity.
Qed.

(* the consensus benchmark price lies between two benchmark values that correct nodes' data sources returned *)
Theorem consensus_benchmark_between_data_sources ver base ss f v :
  ver = 2 \/ ver = 3 \/ ver = 4 -> senders_ok ss ->
  let txs := map (fun pt => (p_bm (fst pt), snd pt)) (received ver base ss) in
  (faulty_count (tvalid txs) < honest_count (tvalid txs))%nat ->
  consensus_price (map fst txs) f = Ok v ->
  exists n1 d1 n2 d2 lo hi, In (Correct n1 d1) ss /\ In (Correct n2 d2) ss /\
                            ds_bm d1 = Some lo /\ ds_bm d2 = Some hi /\ lo <= v <= hi.
Proof.
  intros Hv Hok txs Hmaj Hc.
  destruct (consensus_price_in_honest_range txs f v Hmaj Hc) as (lo & hi & Hlo & Hhi & Hr).
  assert (Hfind : forall x, In ((x, true), true) txs -> exists n d, In (Correct n d) ss /\ ds_bm d = Some x).
  { intros x Hx. subst txs. apply in_map_iff in Hx. destruct Hx as ([p t] & Hpt & Hin). cbn [fst snd] in Hpt.
    inversion Hpt; subst t. destruct (received_correct ver base ss p Hv Hok Hin) as (n & d & Hs & ->).
    exists n, d. split; [exact Hs|]. unfold expected_pao in H0. cbn [p_bm] in H0. exact (pick_valid _ _ _ _ H0). }
  destruct (Hfind lo Hlo) as (n1 & d1 & H1 & E1). destruct (Hfind hi Hhi) as (n2 & d2 & H2 & E2).
  exists n1, d1, n2, d2, lo, hi. auto.
Qed.

(* the consensus LINK fee lies between two fees that correct nodes computed from their data sources' LINK prices
   (fee_val: maximal for a missing price, zero for a zero price, otherwise the correctly rounded quotient) *)
Theorem consensus_link_fee_between_computed_fees ver base ss f v :
  ver = 2 \/ ver = 3 \/ ver = 4 -> senders_ok ss ->
  let txs := map (fun pt => (p_link (fst pt), snd pt)) (received ver base ss) in
  (faulty_count (tfee txs) < honest_count (tfee txs))%nat ->
  consensus_fee (map fst txs) f = Ok v ->
  0 <= v /\ exists n1 d1 n2 d2 lo hi, In (Correct n1 d1) ss /\ In (Correct n2 d2) ss /\
                            fee_val base (ds_link d1) = (lo, true) /\ fee_val base (ds_link d2) = (hi, true) /\ lo <= v <= hi.
Proof.
  intros Hv Hok txs Hmaj Hc.
  destruct (consensus_fee_in_honest_range txs f v Hmaj Hc) as (Hnn & lo & hi & Hlo & Hhi & Hr). split; [exact Hnn|].
  assert (Hfind : forall x, In ((x, true), true) txs -> exists n d, In (Correct n d) ss /\ fee_val base (ds_link d) = (x, true)).
  { intros x Hx. subst txs. apply in_map_iff in Hx. destruct Hx as ([p t] & Hpt & Hin). cbn [fst snd] in Hpt.
    inversion Hpt; subst t. destruct (received_correct ver base ss p Hv Hok Hin) as (n & d & Hs & ->).
    exists n, d. split; [exact Hs|]. first [exact H0 | reflexivity]. }
  destruct (Hfind lo Hlo) as (n1 & d1 & H1 & E1). destruct (Hfind hi Hhi) as (n2 & d2 & H2 & E2).
  exists n1, d1, n2, d2, lo, hi. auto.
Qed.

(* the consensus timestamp lies between two correct nodes' clocks *)
Theorem consensus_timestamp_between_clocks ver base ss t :
  ver = 2 \/ ver = 3 \/ ver = 4 -> senders_ok ss ->
  let tts := map (fun pt => (p_ts (fst pt), snd pt)) (received ver base ss) in
  (faulty_count tts < honest_count tts)%nat ->
  consensus_timestamp (map fst tts) = Ok t ->
  exists n1 d1 n2 d2, In (Correct n1 d1) ss /\ In (Correct n2 d2) ss /\ n1 <= t <= n2.
Proof.
  intros Hv Hok tts Hmaj Hc.
  destruct (consensus_timestamp_in_honest_range tts t Hmaj Hc) as (lo & hi & Hlo & Hhi & Hr).
  assert (Hfind : forall x, In (x, true) tts -> exists d, In (Correct x d) ss).
  { intros x Hx. subst tts. apply in_map_iff in Hx. destruct Hx as ([p b] & Hpt & Hin). cbn [fst snd] in Hpt.
    inversion Hpt; subst b. destruct (received_correct ver base ss p Hv Hok Hin) as (n & d & Hs & ->).
    exists d. cbn [expected_pao p_ts]. exact Hs. }
  destruct (Hfind lo Hlo) as (d1 & H1). destruct (Hfind hi Hhi) as (d2 & H2).
  exists lo, d1, hi, d2. auto.
Qed.

(* the consensus max-finalized timestamp (C09's bootstrap) and the v4 market status are values that some correct node's
   data source returned, when at most f senders are faulty *)
Lemma received1_tag ver base s p t : received1 ver base s = Some (p, t) -> t = is_correct s.
Proof.
  unfold received1. destruct (sent ver base s) as [b|]; [|discriminate]. destruct (merc_decode234 ver b) as [m|]; [|discriminate].
  destruct (parse234 ver m); [|discriminate]. intros H; inversion H; reflexivity.
Qed.
Lemma received_faulty_le ver base ss :
  (length (filter (fun p : pao * bool => negb (snd p)) (received ver base ss)) <= length (filter (fun s => negb (is_correct s)) ss))%nat.
Proof.
  unfold received. induction ss as [|s ss IH]; [cbn; lia|]. cbn [MercuryReport.omap filter].
  destruct (received1 ver base s) as [[p t]|] eqn:E.
  - rewrite (received1_tag _ _ _ _ _ E). cbn [filter snd]. destruct (negb (is_correct s)); cbn [length]; lia.
  - destruct (negb (is_correct s)); cbn [length]; lia.
Qed.

Lemma faulty_count_map_tag {A B} (g : A -> B) (l : list (A * bool)) :
  length (filter (fun p : B * bool => negb (snd p)) (map (fun pt => (g (fst pt), snd pt)) l)) =
  length (filter (fun p : A * bool => negb (snd p)) l).
Proof. induction l as [|[a t] l IH]; [reflexivity|]. cbn [map filter fst snd]. destruct t; cbn [negb length]; lia. Qed.

Theorem consensus_max_finalized_from_a_correct_data_source ver base ss ks f v :
  ver = 2 \/ ver = 3 \/ ver = 4 -> senders_ok ss ->
  (length (filter (fun s => negb (is_correct s)) ss) <= f)%nat ->
  let txs := map (fun pt => (p_mfts (fst pt), snd pt)) (received ver base ss) in
  max_finalized_ts_order ks (map fst txs) f = Ok v ->
  exists n d, In (Correct n d) ss /\ ds_mfts d = Some v.
Proof.
  intros Hv Hok Hf txs Hc.
  pose proof (max_finalized_ts_reported_by_f_plus_1 ks (map fst txs) f v Hc) as Hcnt.
  assert (Hfl : (length (filter (fun p : field * bool => negb (snd p)) txs) <= f)%nat).
  { subst txs. rewrite (faulty_count_map_tag p_mfts). etransitivity; [apply (received_faulty_le ver base ss)|exact Hf]. }
  pose proof (f_plus_1_votes_honest_witness txs f v Hfl Hcnt) as Hin.
  subst txs. apply in_map_iff in Hin. destruct Hin as ([p t] & Hpt & Hin). cbn [fst snd] in Hpt. inversion Hpt; subst t.
  destruct (received_correct ver base ss p Hv Hok Hin) as (n & d & Hs & ->).
  exists n, d. split; [exact Hs|]. cbn [expected_pao p_mfts] in H0. inversion H0.
  destruct (ds_mfts d) as [x|]; cbn [opt_or is_some] in *; [reflexivity|discriminate].
Qed.

Theorem consensus_market_status_from_a_correct_data_source base ss ks f v :
  senders_ok ss ->
  (length (filter (fun s => negb (is_correct s)) ss) <= f)%nat ->
  let txs := map (fun pt => (p_status (fst pt), snd pt)) (received 4 base ss) in
  market_status_order ks (map fst txs) f = Ok v ->
  exists n d, In (Correct n d) ss /\ ds_status d = Some v.
Proof.
  intros Hok Hf txs Hc.
  pose proof (market_status_reported_by_f_plus_1 ks (map fst txs) f v Hc) as Hcnt.
  assert (Hfl : (length (filter (fun p : field * bool => negb (snd p)) txs) <= f)%nat).
  { subst txs. rewrite (faulty_count_map_tag p_status). etransitivity; [apply (received_faulty_le 4 base ss)|exact Hf]. }
  pose proof (f_plus_1_votes_honest_witness txs f v Hfl Hcnt) as Hin.
  subst txs. apply in_map_iff in Hin. destruct Hin as ([p t] & Hpt & Hin). cbn [fst snd] in Hpt. inversion Hpt; subst t.
  destruct (received_correct 4 base ss p (or_intror (or_intror eq_refl)) Hok Hin) as (n & d & Hs & ->).
  exists n, d. split; [exact Hs|]. cbn [expected_pao p_status] in H0. change (4 =? 4) with true in H0. cbn [andb] in H0. inversion H0.
  destruct (ds_status d) as [x|]; cbn [opt_or is_some] in *; [reflexivity|discriminate].
Qed.

(* ================= what a correct node sends fits the observation length the plugin declares to libocr ================= *)
From DS Require Import RepoConstants.

Lemma varint_fuel_len k : forall v, (length (varint_fuel k v) <= S k)%nat.
Proof. induction k as [|k IH]; intros v; cbn [varint_fuel length]; [lia|]. destruct (v <? 128); cbn [length]; [lia|]. specialize (IH (v / 128)). lia. Qed.
Lemma varint_len_log v n : 0 < v -> Z.log2 v < 7 * Z.of_nat (S n) -> (length (varint v) <= S n)%nat.
Proof.
  intros Hv Hl. unfold varint. etransitivity; [apply varint_fuel_len|]. apply le_n_S.
  pose proof (Z.log2_nonneg v). apply Nat.lt_succ_r. apply Nat.div_lt_upper_bound; [lia|]. lia.
Qed.
Lemma varint_len0 : length (varint 0) = 1%nat. Proof. reflexivity. Qed.
Lemma varint_len64 v : 0 <= v < 2 ^ 64 -> (length (varint v) <= 10)%nat.
Proof.
  intros H. destruct (Z.eq_dec v 0) as [->|Hn]; [cbn; lia|]. apply (varint_len_log v 9); [lia|].
  assert (Z.log2 v < 64) by (apply Z.log2_lt_pow2; lia). lia.
Qed.
Lemma varint_len32 v : 0 <= v < 2 ^ 32 -> (length (varint v) <= 5)%nat.
Proof.
  intros H. destruct (Z.eq_dec v 0) as [->|Hn]; [cbn; lia|]. apply (varint_len_log v 4); [lia|].
  assert (Z.log2 v < 32) by (apply Z.log2_lt_pow2; lia). lia.
Qed.
Lemma varint_len7 v : 0 <= v < 128 -> (length (varint v) <= 1)%nat.
Proof.
  intros H. destruct (Z.eq_dec v 0) as [->|Hn]; [cbn; lia|]. apply (varint_len_log v 0); [lia|].
  assert (Z.log2 v < 7) by (apply Z.log2_lt_pow2; lia). lia.
Qed.
Lemma tag_len k w : 1 <= k < 16 -> 0 <= w < 8 -> (length (tag k w) <= 1)%nat.
Proof. intros Hk Hw. unfold tag. apply varint_len7. lia. Qed.

Lemma f_varint_len k v n : 1 <= k < 16 -> (length (varint v) <= n)%nat -> (length (f_varint k v) <= 1 + n)%nat.
Proof.
  intros Hk Hv. unfold f_varint. destruct (v =? 0); [cbn; lia|]. rewrite app_length.
  pose proof (tag_len k 0 Hk ltac:(lia)). lia.
Qed.
Lemma f_bytes_len k b : 1 <= k < 16 -> (length b <= 24)%nat -> (length (f_bytes k b) <= 26)%nat.
Proof.
  intros Hk Hb. unfold f_bytes. destruct b as [|x r] eqn:E; [cbn; lia|]. rewrite <- E in *. rewrite !app_length.
  pose proof (tag_len k 2 Hk ltac:(lia)). pose proof (varint_len7 (Z.of_nat (length b)) ltac:(lia)). lia.
Qed.
Lemma b2z_varint_len b : (length (varint (b2z b)) <= 1)%nat. Proof. destruct b; cbn; lia. Qed.

Lemma enc_price_len v : (length (opt_or (enc_price v) []) <= 24)%nat.
Proof.
  pose proof (enc_price_spec v) as H. destruct (enc_price v) as [b|]; cbn [opt_or]; [|cbn; lia].
  destruct H as (x & _ & _ & Hl). lia.
Qed.
Lemma fee_field_len base src l : fee_field base src = Ok l -> (length (snd l) <= 24)%nat.
Proof.
  unfold fee_field. destruct src as [p|]; [|intros H; inversion H; cbn; lia].
  destruct (p <=? -1); [intros H; inversion H; vm_compute; lia|].
  destruct (merc_calc_fee p base) as [fee| |]; try discriminate.
  pose proof (encode_int192_cases fee) as Hc. destruct (in192b fee).
  - destruct Hc as (b & -> & _ & Hl). intros H; inversion H. cbn [snd]. lia.
  - rewrite Hc. intros H; inversion H. cbn; lia.
Qed.

(* a bound that does not mention the declared limits: 103 bytes for v2, 163 for v3 / v4 *)
Definition merc_size (ver : Z) : Z := if ver =? 2 then 103 else 163.
Theorem merc_observation_size ver base now fail ds m : ver = 2 \/ ver = 3 \/ ver = 4 -> 0 <= now -> ds_typed ds ->
  merc_observe234 ver base now fail ds = Ok m ->
  Z.of_nat (length (merc_encode234 ver m)) <= merc_size ver.
Proof.
  intros Hv Hnow (Hmf & Hst). unfold merc_observe234. destruct fail; [discriminate|].
  destruct (max_uint32 <? now) eqn:En; [discriminate|]. unfold max_uint32 in En.
  destruct (fee_field base (ds_link ds)) as [l| |] eqn:El; try discriminate.
  destruct (fee_field base (ds_native ds)) as [n| |] eqn:Enat; try discriminate.
  cbn [bind]. intros H. inversion H; subst m; clear H.
  pose proof (fee_field_len _ _ _ El) as Hl. pose proof (fee_field_len _ _ _ Enat) as Hn.
  pose proof (enc_price_len (ds_bm ds)) as Hbm.
  assert (Hts : (length (f_varint 1 now) <= 6)%nat) by (apply (f_varint_len 1 now 5); [lia|apply varint_len32; lia]).
  assert (Hmfl : forall k, 1 <= k < 16 -> (length (f_varint k (u64w (opt_or (ds_mfts ds) 0%Z))) <= 11)%nat)
    by (intros k Hk; apply (f_varint_len k _ 10 Hk), varint_len64, u64w_range).
  assert (Hflag : forall k b, 1 <= k < 16 -> (length (f_varint k (b2z b)) <= 2)%nat)
    by (intros k b Hk; apply (f_varint_len k _ 1 Hk), b2z_varint_len).
  unfold merc_encode234, merc_size.
  cbn [mo_ts mo_prices_valid mo_bm mo_bid mo_ask mo_mfts_valid mo_mfts mo_link_valid mo_link mo_native_valid mo_native mo_status_valid mo_status].
  destruct (ver =? 2) eqn:E2.
  - rewrite !app_length.
    pose proof (f_bytes_len 2 _ ltac:(lia) Hbm). pose proof (f_bytes_len 6 _ ltac:(lia) Hl). pose proof (f_bytes_len 8 _ ltac:(lia) Hn).
    pose proof (Hmfl 4 ltac:(lia)). pose proof (Hflag 3). pose proof (Hflag 5). pose proof (Hflag 7). pose proof (Hflag 9).
    repeat match goal with Hf : forall b : bool, _ |- _ => let H' := fresh in
      pose proof (Hf true ltac:(lia)) as H'; pose proof (Hf false ltac:(lia)); clear Hf end.
    repeat match goal with |- context [f_varint ?k (b2z ?b)] => let H' := fresh in
      assert (H' : (length (f_varint k (b2z b)) <= 2)%nat) by (apply Hflag; lia); revert H'; generalize (length (f_varint k (b2z b))) end.
    intros. lia.
  - assert (Hbid : (length (opt_or (if (ver =? 3)%Z then enc_price (ds_bid ds) else None) []) <= 24)%nat)
      by (destruct (ver =? 3); [apply enc_price_len|cbn; lia]).
    assert (Hask : (length (opt_or (if (ver =? 3)%Z then enc_price (ds_ask ds) else None) []) <= 24)%nat)
      by (destruct (ver =? 3); [apply enc_price_len|cbn; lia]).
    assert (Hstat : (length (f_varint 12 (if (ver =? 4)%Z then opt_or (ds_status ds) 0%Z else 0%Z)) <= 6)%nat).
    { apply (f_varint_len 12 _ 5); [lia|]. apply varint_len32. destruct (ver =? 4); [|lia].
      destruct (ds_status ds) as [v|] eqn:Es; cbn [opt_or]; [apply Hst; reflexivity|lia]. }
    rewrite !app_length.
    pose proof (f_bytes_len 2 _ ltac:(lia) Hbm). pose proof (f_bytes_len 3 _ ltac:(lia) Hbid). pose proof (f_bytes_len 4 _ ltac:(lia) Hask).
    pose proof (f_bytes_len 8 _ ltac:(lia) Hl). pose proof (f_bytes_len 10 _ ltac:(lia) Hn). pose proof (Hmfl 6 ltac:(lia)).
    repeat match goal with |- context [f_varint ?k (b2z ?b)] => let H' := fresh in
      assert (H' : (length (f_varint k (b2z b)) <= 2)%nat) by (apply Hflag; lia); revert H'; generalize (length (f_varint k (b2z b))) end.
    intros.
    lia.
Qed.

(* ... which is within what the real factories declare (the declared constants are regenerated from /repo; the comparison
   is decided by evaluation, so raising them keeps the theorem, lowering them below the real size breaks it) *)
Theorem merc_observation_within_limit ver base now fail ds m : ver = 2 \/ ver = 3 \/ ver = 4 -> 0 <= now -> ds_typed ds ->
  merc_observe234 ver base now fail ds = Ok m ->
  Z.of_nat (length (merc_encode234 ver m)) <= merc_limit ver.
Proof.
  intros Hv Hnow Hds H. etransitivity; [exact (merc_observation_size ver base now fail ds m Hv Hnow Hds H)|].
  destruct Hv as [-> | [-> | ->]]; vm_compute; discriminate.
Qed.

(* ================= v1 end to end ================= *)
Inductive sender1 := Correct1 (now : Z) (prev_nil : bool) (ds : ds1) | Faulty1 (b : bytes).
Definition is_correct1 (s : sender1) : bool := match s with Correct1 _ _ _ => true | Faulty1 _ => false end.
Definition sent1 (s : sender1) : option bytes :=
  match s with
  | Correct1 now pn ds => match merc_observe1 now pn false ds with Ok m => Some (merc_encode1 m) | _ => None end
  | Faulty1 b => Some b
  end.
Definition received1_1 (s : sender1) : option (pao1 * bool) :=
  match sent1 s with
  | Some b => match merc_decode1 b with
              | Some m => match parse1 m with Some p => Some (p, is_correct1 s) | None => None end
              | None => None
              end
  | None => None
  end.
Definition received_v1 (ss : list sender1) : list (pao1 * bool) := MercuryReport.omap received1_1 ss.
Definition senders1_ok (ss : list sender1) : Prop := forall now pn ds, In (Correct1 now pn ds) ss -> ds1_typed ds.

Lemma received_v1_correct ss p : senders1_ok ss -> In (p, true) (received_v1 ss) ->
  exists now pn ds, In (Correct1 now pn ds) ss /\ blocks_okb ds = true /\ p = expected_pao1 now pn ds.
Proof.
  intros Hok Hin. destruct (in_omap _ _ _ Hin) as (s & Hs & Hr). unfold received1_1 in Hr.
  destruct s as [now pn ds|b]; cbn [sent1 is_correct1] in Hr.
  - destruct (merc_observe1 now pn false ds) as [m| |] eqn:Eo; try discriminate.
    destruct (correct_observation1_is_counted now pn false ds m (Hok now pn ds Hs) Eo) as (m' & Hd & Hp).
    rewrite Hd, Hp in Hr. destruct (blocks_okb ds) eqn:Eb; [|discriminate]. inversion Hr. exists now, pn, ds. auto.
  - destruct (merc_decode1 b) as [m|]; [|discriminate]. destruct (parse1 m); [|discriminate]. inversion Hr.
Qed.

Lemma pick1_valid (pv : bool) v x : (if pv then fld (price_val v) else (0, false)) = (x, true) -> v = Some x.
Proof.
  destruct pv; [|discriminate]. destruct v as [y|]; cbn [price_val fld]; [|discriminate].
  destruct (in192b y); cbn [fld]; [|discriminate]. intros H; inversion H; reflexivity.
Qed.

Theorem consensus_benchmark1_between_data_sources ss f v : senders1_ok ss ->
  let txs := map (fun pt => (q_bm (fst pt), snd pt)) (received_v1 ss) in
  (faulty_count (tvalid txs) < honest_count (tvalid txs))%nat ->
  consensus_price (map fst txs) f = Ok v ->
  exists n1 p1 d1 n2 p2 d2 lo hi, In (Correct1 n1 p1 d1) ss /\ In (Correct1 n2 p2 d2) ss /\
                            d1_bm d1 = Some lo /\ d1_bm d2 = Some hi /\ lo <= v <= hi.
Proof.
  intros Hok txs Hmaj Hc.
  destruct (consensus_price_in_honest_range txs f v Hmaj Hc) as (lo & hi & Hlo & Hhi & Hr).
  assert (Hfind : forall x, In ((x, true), true) txs -> exists n pn d, In (Correct1 n pn d) ss /\ d1_bm d = Some x).
  { intros x Hx. subst txs. apply in_map_iff in Hx. destruct Hx as ([p t] & Hpt & Hin). cbn [fst snd] in Hpt.
    inversion Hpt; subst t. destruct (received_v1_correct ss p Hok Hin) as (n & pn & d & Hs & _ & ->).
    exists n, pn, d. split; [exact Hs|]. unfold expected_pao1 in H0. cbn [q_bm] in H0. exact (pick1_valid _ _ _ H0). }
  destruct (Hfind lo Hlo) as (n1 & p1 & d1 & H1 & E1). destruct (Hfind hi Hhi) as (n2 & p2 & d2 & H2 & E2).
  exists n1, p1, d1, n2, p2, d2, lo, hi. auto 10.
Qed.

(* bid, ask (v3) and the native fee, same statements *)
Theorem consensus_bid_between_data_sources base ss f v : senders_ok ss ->
  let txs := map (fun pt => (p_bid (fst pt), snd pt)) (received 3 base ss) in
  (faulty_count (tvalid txs) < honest_count (tvalid txs))%nat ->
  consensus_price (map fst txs) f = Ok v ->
  exists n1 d1 n2 d2 lo hi, In (Correct n1 d1) ss /\ In (Correct n2 d2) ss /\ ds_bid d1 = Some lo /\ ds_bid d2 = Some hi /\ lo <= v <= hi.
Proof.
  intros Hok txs Hmaj Hc.
  destruct (consensus_price_in_honest_range txs f v Hmaj Hc) as (lo & hi & Hlo & Hhi & Hr).
  assert (Hfind : forall x, In ((x, true), true) txs -> exists n d, In (Correct n d) ss /\ ds_bid d = Some x).
  { intros x Hx. subst txs. apply in_map_iff in Hx. destruct Hx as ([p t] & Hpt & Hin). cbn [fst snd] in Hpt.
    inversion Hpt; subst t. destruct (received_correct 3 base ss p (or_intror (or_introl eq_refl)) Hok Hin) as (n & d & Hs & ->).
    exists n, d. split; [exact Hs|]. unfold expected_pao in H0. cbn [p_bid] in H0. change (3 =? 3) with true in H0. cbv iota in H0.
    exact (pick_valid _ _ _ _ H0). }
  destruct (Hfind lo Hlo) as (n1 & d1 & H1 & E1). destruct (Hfind hi Hhi) as (n2 & d2 & H2 & E2).
  exists n1, d1, n2, d2, lo, hi. auto.
Qed.
Theorem consensus_ask_between_data_sources base ss f v : senders_ok ss ->
  let txs := map (fun pt => (p_ask (fst pt), snd pt)) (received 3 base ss) in
  (faulty_count (tvalid txs) < honest_count (tvalid txs))%nat ->
  consensus_price (map fst txs) f = Ok v ->
  exists n1 d1 n2 d2 lo hi, In (Correct n1 d1) ss /\ In (Correct n2 d2) ss /\ ds_ask d1 = Some lo /\ ds_ask d2 = Some hi /\ lo <= v <= hi.
Proof.
  intros Hok txs Hmaj Hc.
  destruct (consensus_price_in_honest_range txs f v Hmaj Hc) as (lo & hi & Hlo & Hhi & Hr).
  assert (Hfind : forall x, In ((x, true), true) txs -> exists n d, In (Correct n d) ss /\ ds_ask d = Some x).
  { intros x Hx. subst txs. apply in_map_iff in Hx. destruct Hx as ([p t] & Hpt & Hin). cbn [fst snd] in Hpt.
    inversion Hpt; subst t. destruct (received_correct 3 base ss p (or_intror (or_introl eq_refl)) Hok Hin) as (n & d & Hs & ->).
    exists n, d. split; [exact Hs|]. unfold expected_pao in H0. cbn [p_ask] in H0. change (3 =? 3) with true in H0. cbv iota in H0.
    exact (pick_valid _ _ _ _ H0). }
  destruct (Hfind lo Hlo) as (n1 & d1 & H1 & E1). destruct (Hfind hi Hhi) as (n2 & d2 & H2 & E2).
  exists n1, d1, n2, d2, lo, hi. auto.
Qed.
Theorem consensus_native_fee_between_computed_fees ver base ss f v :
  ver = 2 \/ ver = 3 \/ ver = 4 -> senders_ok ss ->
  let txs := map (fun pt => (p_native (fst pt), snd pt)) (received ver base ss) in
  (faulty_count (tfee txs) < honest_count (tfee txs))%nat ->
  consensus_fee (map fst txs) f = Ok v ->
  0 <= v /\ exists n1 d1 n2 d2 lo hi, In (Correct n1 d1) ss /\ In (Correct n2 d2) ss /\
                            fee_val base (ds_native d1) = (lo, true) /\ fee_val base (ds_native d2) = (hi, true) /\ lo <= v <= hi.
Proof.
  intros Hv Hok txs Hmaj Hc.
  destruct (consensus_fee_in_honest_range txs f v Hmaj Hc) as (Hnn & lo & hi & Hlo & Hhi & Hr). split; [exact Hnn|].
  assert (Hfind : forall x, In ((x, true), true) txs -> exists n d, In (Correct n d) ss /\ fee_val base (ds_native d) = (x, true)).
  { intros x Hx. subst txs. apply in_map_iff in Hx. destruct Hx as ([p t] & Hpt & Hin). cbn [fst snd] in Hpt.
    inversion Hpt; subst t. destruct (received_correct ver base ss p Hv Hok Hin) as (n & d & Hs & ->).
    exists n, d. split; [exact Hs|]. first [exact H0 | reflexivity]. }
  destruct (Hfind lo Hlo) as (n1 & d1 & H1 & E1). destruct (Hfind hi Hhi) as (n2 & d2 & H2 & E2).
  exists n1, d1, n2, d2, lo, hi. auto.
Qed.

(* v1 latest block, end to end: the parser only keeps observations whose block lists have no duplicate numbers; with at most
   f faulty senders the consensus block is one that some correct node's data source listed *)
Lemma has_dup_by_false_NoDup {A} (eqb : A -> A -> bool) (l : list A) : (forall x, eqb x x = true) ->
  has_dup_by eqb l = false -> List.NoDup l.
Proof.
  intros Hrefl. induction l as [|x l IH]; intros H; [constructor|]. cbn [has_dup_by] in H. apply Bool.orb_false_iff in H. destruct H as [H1 H2].
  constructor; [|exact (IH H2)]. intros Hin. assert (existsb (eqb x) l = true) by (apply existsb_exists; exists x; split; [exact Hin|apply Hrefl]). congruence.
Qed.
Lemma parse1_nodup m p : parse1 m = Some p -> List.NoDup (obs_blocks (q_blocks p)).
Proof.
  unfold parse1. destruct (dec_opt _ (m1_bm m)); [|discriminate]. destruct (dec_opt _ (m1_bid m)); [|discriminate].
  destruct (dec_opt _ (m1_ask m)); [|discriminate].
  destruct (m1_blocks m) as [|b0 bl] eqn:Eb.
  - destruct (if m1_cur_valid m then _ else true); [|discriminate]. intros H; inversion H; subst. unfold obs_blocks. cbn [q_blocks fst snd].
    destruct (m1_cur_valid m); [constructor; [intros []|constructor]|constructor].
  - match goal with |- (if ?c then _ else _) = _ -> _ => destruct c eqn:Ec; [|discriminate] end.
    intros H; inversion H; subst. unfold obs_blocks. cbn [q_blocks fst snd].
    rewrite !Bool.andb_true_iff in Ec. destruct Ec as [[[_ Hn] _] _]. apply Bool.negb_true_iff in Hn.
    apply (has_dup_by_false_NoDup (fun a b => bnum a =? bnum b)); [intros x; apply Z.eqb_refl|exact Hn].
Qed.

Lemma received_v1_faulty_le ss :
  (length (filter (fun p : pao1 * bool => negb (snd p)) (received_v1 ss)) <= length (filter (fun s => negb (is_correct1 s)) ss))%nat.
Proof.
  unfold received_v1. induction ss as [|s ss IH]; [cbn; lia|]. cbn [MercuryReport.omap filter].
  destruct (received1_1 s) as [[p t]|] eqn:E.
  - assert (Ht : t = is_correct1 s).
    { unfold received1_1 in E. destruct (sent1 s) as [b|]; [|discriminate]. destruct (merc_decode1 b) as [m|]; [|discriminate].
      destruct (parse1 m); [|discriminate]. inversion E; reflexivity. }
    rewrite Ht. cbn [filter snd]. destruct (negb (is_correct1 s)); cbn [length]; lia.
  - destruct (negb (is_correct1 s)); cbn [length]; lia.
Qed.

Theorem consensus_block_from_a_correct_data_source ss f b : senders1_ok ss ->
  (length (filter (fun s => negb (is_correct1 s)) ss) <= f)%nat ->
  let tobs := map (fun pt => (q_blocks (fst pt), snd pt)) (received_v1 ss) in
  latest_block (map fst tobs) f = Ok b ->
  exists n pn d, In (Correct1 n pn d) ss /\ In b (obs_blocks (d1_blocks d, if cur1_valid d then Some (cur1 d) else None)).
Proof.
  intros Hok Hf tobs Hc.
  assert (Hnd : forall o hh, In (o, hh) tobs -> List.NoDup (obs_blocks o)).
  { intros o hh Hin. subst tobs. apply in_map_iff in Hin. destruct Hin as ([p t] & Hpt & Hin). cbn [fst snd] in Hpt. inversion Hpt; subst.
    destruct (in_omap _ _ _ Hin) as (s & _ & Hr). unfold received1_1 in Hr. destruct (sent1 s) as [bs|]; [|discriminate].
    destruct (merc_decode1 bs) as [m|]; [|discriminate]. destruct (parse1 m) as [p'|] eqn:Ep; [|discriminate]. inversion Hr; subst.
    exact (parse1_nodup m p Ep). }
  assert (Hfl : (length (filter (fun p : (list block * option block) * bool => negb (snd p)) tobs) <= f)%nat).
  { subst tobs. rewrite (faulty_count_map_tag q_blocks). etransitivity; [apply received_v1_faulty_le|exact Hf]. }
  destruct (latest_block_honest_witness tobs f b Hnd Hfl Hc) as (o & Hin & Hb).
  subst tobs. apply in_map_iff in Hin. destruct Hin as ([p t] & Hpt & Hin). cbn [fst snd] in Hpt. inversion Hpt; subst.
  destruct (received_v1_correct ss p Hok Hin) as (n & pn & d & Hs & _ & ->).
  exists n, pn, d. split; [exact Hs|]. exact Hb.
Qed.

(* ================= C09 bootstrap, end to end ================= *)
(* the messages Report's proto.Unmarshal delivers for a round of senders *)
Definition decoded (ver : Z) (base : dec) (ss : list sender) : list mobs :=
  MercuryReport.omap (fun s => match sent ver base s with Some b => merc_decode234 ver b | None => None end) ss.
Lemma omap_omap {A B C} (f : A -> option B) (g : B -> option C) (l : list A) :
  MercuryReport.omap g (MercuryReport.omap f l) = MercuryReport.omap (fun x => match f x with Some y => g y | None => None end) l.
Proof. induction l as [|x l IH]; [reflexivity|]. cbn [MercuryReport.omap]. destruct (f x) as [y|]; cbn [MercuryReport.omap]; [destruct (g y)|]; rewrite ?IH; reflexivity. Qed.
Lemma parsed_decoded ver base ss : MercuryReport.omap (parse234 ver) (decoded ver base ss) = map fst (received ver base ss).
Proof.
  unfold decoded, received. rewrite omap_omap. induction ss as [|s ss IH]; [reflexivity|]. cbn [MercuryReport.omap]. unfold received1 at 1.
  destruct (sent ver base s) as [b|]; [|exact IH]. destruct (merc_decode234 ver b) as [m|]; [|exact IH].
  destruct (parse234 ver m) as [p|]; [|exact IH]. cbn [map fst]. rewrite IH. reflexivity.
Qed.

(* with no previous report and at most f faulty senders, a report's validity start is one past a max-finalized timestamp that
   some correct node's data source returned - or, when that agreed value is negative ("none exists"), the report's own timestamp *)
Theorem bootstrap_valid_from_traces_to_a_correct_data_source ver c base ss replen rf :
  ver = 2 \/ ver = 3 \/ ver = 4 -> senders_ok ss ->
  (length (filter (fun s => negb (is_correct s)) ss) <= mc_f c)%nat ->
  report234 ver c None replen (decoded ver base ss) = Ok (true, Some rf) ->
  exists n d m, In (Correct n d) ss /\ ds_mfts d = Some m /\ rf_valid_from rf = if m <? 0 then rf_ts rf else m + 1.
Proof.
  intros Hv Hok Hf H. unfold report234 in H. rewrite parsed_decoded in H.
  set (paos := map fst (received ver base ss)) in *.
  destruct paos as [|p0 paos'] eqn:Ep; [discriminate|]. rewrite <- Ep in *. clear Ep p0 paos'.
  destruct (length paos <? mc_f c + 1)%nat; [discriminate|].
  destruct (consensus_timestamp (map p_ts paos)) as [ts| |]; try discriminate.
  destruct (max_finalized_ts (map p_mfts paos) (mc_f c)) as [m| |] eqn:Em.
  2,3: (cbn [orb] in H; discriminate).
  assert (Hsrc : exists n d, In (Correct n d) ss /\ ds_mfts d = Some m).
  { unfold max_finalized_ts in Em.
    apply (consensus_max_finalized_from_a_correct_data_source ver base ss (nodup_Z (valid_vals (map p_mfts paos))) (mc_f c) m Hv Hok Hf).
    cbv zeta. subst paos. rewrite !map_map in *. cbn [fst] in *. exact Em. }
  destruct Hsrc as (n & d & Hs & Hd). exists n, d, m. split; [exact Hs|]. split; [exact Hd|].
  destruct (m <? 0) eqn:Eneg.
  - match type of H with (if ?g then _ else _) = _ => destruct g; [discriminate|] end.
    match type of H with (if ?g then _ else _) = _ => destruct g end.
    + inversion H.
    + match type of H with (if ?g then _ else _) = _ => destruct g; [|discriminate] end.
      destruct (replen _) as [len| |]; try discriminate.
      destruct (mc_maxlen c <? len)%nat; [discriminate|]. destruct (len =? 0)%nat; [discriminate|]. inversion H; reflexivity.
  - destruct (max_uint32 <? m + 1) eqn:Eo.
    + cbn [orb] in H. discriminate.
    + match type of H with (if ?g then _ else _) = _ => destruct g; [discriminate|] end.
      match type of H with (if ?g then _ else _) = _ => destruct g end.
      * inversion H.
      * match type of H with (if ?g then _ else _) = _ => destruct g; [|discriminate] end.
        destruct (replen _) as [len| |]; try discriminate.
        destruct (mc_maxlen c <? len)%nat; [discriminate|]. destruct (len =? 0)%nat; [discriminate|]. inversion H; reflexivity.
Qed.
