(* AggregatorProofs.v — C02/C15: byzantine robustness of the LLO aggregators.
   Values carry a ghost tag (true = from a correct observer); the aggregators are applied to
   `map fst`, so they cannot see it. *)
From DS Require Import Base Decimal StreamValue Sort Aggregators.
From DS Require Import RankMedian SortProofs DecimalProofs MctProofs.
From Coq Require Import ZifyBool Permutation.

Notation tslot := (option sval * bool)%type (only parsing).

(* ---------- generic: median of a tagged list ---------- *)
Section MedianTagged.
  Context {A : Type} (le : A -> A -> Prop) (less : A -> A -> bool).
  Hypothesis le_trans : forall a b c, le a b -> le b c -> le a c.
  Hypothesis le_refl : forall a, le a a.
  Hypothesis less_le : forall a b, less a b = true -> le a b.
  Hypothesis nless_le : forall a b, less a b = false -> le b a.

  Lemma median_tagged (tl : list (A * bool)) (d : A) :
    (faulty_count tl < honest_count tl)%nat ->
    nth_error (isort less (map fst tl)) (median_idx (map fst tl)) = Some d ->
    exists lo hi, In (lo, true) tl /\ In (hi, true) tl /\ le lo d /\ le d hi.
  Proof.
    intros Hmaj Hnth. unfold median_idx in Hnth.
    set (s := isort less (map fst tl)) in *.
    assert (Hperm : Permutation s (map fst tl)) by (apply (isort_perm less)).
    assert (Hsorted : nth_sorted le s) by (apply (isort_sorted le less); assumption).
    assert (Hlen : length s = length (map fst tl)) by (apply Permutation_length; exact Hperm).
    destruct (rank_median_between_honest le tl s d Hperm Hsorted Hmaj)
      as (lo & hi & H1 & H2 & H3 & H4).
    rewrite Hlen in H3, H4. rewrite (nth_error_nth _ _ d Hnth) in H3, H4.
    exists lo, hi. auto.
  Qed.

  Lemma median_exists (l : list A) : l <> [] -> exists d, nth_error (isort less l) (median_idx l) = Some d.
  Proof.
    intros Hne. destruct (nth_error (isort less l) (median_idx l)) as [d|] eqn:E; [eauto|].
    apply nth_error_None in E. rewrite (isort_length less) in E. unfold median_idx in E.
    destruct l; [congruence|]. simpl length in E.
    pose proof (Nat.div_lt (S (length l)) 2%nat). lia.
  Qed.
End MedianTagged.

Lemma Zltb_le a b : (a <? b) = true -> a <= b. Proof. lia. Qed.
Lemma Znltb_le a b : (a <? b) = false -> b <= a. Proof. lia. Qed.

Lemma dec_less_le a b : dec_less a b = true -> dle a b.
Proof. unfold dec_less, cmp_lt0. destruct (dec_cmp a b) eqn:E; try discriminate. intros _. apply dec_cmp_lt_le. exact E. Qed.
Lemma dec_nless_le a b : dec_less a b = false -> dle b a.
Proof. unfold dec_less, cmp_lt0. intros H. apply dec_cmp_nlt_le. destruct (dec_cmp a b); congruence. Qed.

(* ---------- tagged flattening ---------- *)
Section Tflat.
  Context {B : Type} (g : sval -> list B).
  Definition tflat (tvs : list tslot) : list (B * bool) :=
    flat_map (fun p => match fst p with Some x => map (fun y => (y, snd p)) (g x) | None => [] end) tvs.
  Definition uflat (vs : list slot) : list B :=
    flat_map (fun v => match v with Some x => g x | None => [] end) vs.

  Lemma tflat_fst tvs : map fst (tflat tvs) = uflat (map fst tvs).
  Proof.
    induction tvs as [|[v h] tvs IH]; simpl; [reflexivity|].
    rewrite map_app, IH. f_equal. destruct v; simpl; [|reflexivity].
    rewrite map_map. simpl. apply map_id.
  Qed.

  Lemma tflat_in y h tvs : In (y, h) (tflat tvs) -> exists x, In (Some x, h) tvs /\ In y (g x).
  Proof.
    unfold tflat. intros H. apply in_flat_map in H. destruct H as ([v h'] & Hin & Hy). simpl in Hy.
    destruct v as [x|]; [|contradiction]. apply in_map_iff in Hy. destruct Hy as (y' & Heq & Hy').
    inversion Heq; subst. exists x. auto.
  Qed.
End Tflat.

(* number of present (non-nil) values from correct / faulty observers *)
Definition is_present (p : tslot) : bool := match fst p with Some _ => true | None => false end.
Definition hpres (tvs : list tslot) : nat := length (filter (fun p => is_present p && snd p) tvs).
Definition fpres (tvs : list tslot) : nat := length (filter (fun p => is_present p && negb (snd p)) tvs).

Lemma tflat_counts {B} (g : sval -> list B) tvs :
  (forall x, In (Some x, true) tvs -> length (g x) = 1%nat) ->
  (forall x, In (Some x, false) tvs -> (length (g x) <= 1)%nat) ->
  honest_count (tflat g tvs) = hpres tvs /\ (faulty_count (tflat g tvs) <= fpres tvs)%nat.
Proof.
  unfold honest_count, faulty_count, hpres, fpres.
  induction tvs as [|[v h] tvs IH]; intros Hh Hf; simpl; [split; lia|].
  destruct IH as [IH1 IH2].
  { intros x Hx. apply Hh. right. exact Hx. } { intros x Hx. apply Hf. right. exact Hx. }
  rewrite !filter_app, !app_length, IH1.
  destruct v as [x|]; simpl; [|split; lia].
  destruct h; simpl.
  - specialize (Hh x (or_introl eq_refl)).
    destruct (g x) as [|y [|? ?]]; simpl in Hh; try discriminate; simpl; lia.
  - specialize (Hf x (or_introl eq_refl)).
    destruct (g x) as [|y [|? ?]]; simpl in Hf; simpl; lia.
Qed.

(* ---------- the plain (Decimal / Quote benchmark) median ---------- *)
Definition num_of (x : sval) : list dec :=
  match x with SDec d => [d] | SQuote _ bm _ => [bm] | STsv _ _ => [] end.

Lemma median_observations_uflat vs : median_observations vs = uflat num_of vs.
Proof.
  unfold median_observations, uflat. apply flat_map_ext. intros [[d|a b c|t i]|]; reflexivity.
Qed.

Definition type_sel (t : Z) (x : sval) : list sval := if sv_type x =? t then [x] else [].
Lemma of_type_uflat t vs : of_type t vs = uflat (type_sel t) vs.
Proof. reflexivity. Qed.

Lemma type_sel_eq t x : sv_type x = t -> type_sel t x = [x].
Proof. intros <-. unfold type_sel. rewrite Z.eqb_refl. reflexivity. Qed.
Lemma type_sel_ne t x : sv_type x <> t -> type_sel t x = [].
Proof. intros H. unfold type_sel. destruct (sv_type x =? t) eqn:E; [lia|reflexivity]. Qed.
Lemma type_sel_len t x : (length (type_sel t x) <= 1)%nat.
Proof. unfold type_sel. destruct (sv_type x =? t); simpl; lia. Qed.

(* all honest present values have type T *)
Definition honest_type (T : Z) (tvs : list tslot) : Prop :=
  forall x, In (Some x, true) tvs -> sv_type x = T.

Lemma honest_majority_type T tvs :
  is_type T -> honest_type T tvs -> (fpres tvs < hpres tvs)%nat ->
  most_common_type (map fst tvs) = (T, of_type T (map fst tvs)).
Proof.
  intros HT Hh Hmaj. apply most_common_type_majority; [exact HT|].
  intros t' Ht' Hne.
  (* the T bucket holds every honest value, the t' bucket only faulty ones *)
  pose proof (tflat_fst (type_sel T) tvs) as E1. pose proof (tflat_fst (type_sel t') tvs) as E2.
  rewrite !of_type_uflat, <- E1, <- E2, !map_length.
  (* bucket T *)
  assert (HT1 : (hpres tvs <= length (tflat (type_sel T) tvs))%nat).
  { clear - Hh. unfold hpres. induction tvs as [|[v h] tvs IH]; simpl; [lia|].
    rewrite app_length.
    assert (IH' : (length (filter (fun p => is_present p && snd p) tvs) <= length (tflat (type_sel T) tvs))%nat).
    { apply IH. intros x Hx. apply Hh. right. exact Hx. }
    destruct v as [x|]; simpl; [|lia]. destruct h; simpl; [|lia].
    rewrite (type_sel_eq T x (Hh x (or_introl eq_refl))). simpl. lia. }
  assert (HT2 : (length (tflat (type_sel t') tvs) <= fpres tvs)%nat).
  { clear - Hh Hne. unfold fpres. induction tvs as [|[v h] tvs IH]; simpl; [lia|].
    rewrite app_length.
    assert (IH' : (length (tflat (type_sel t') tvs) <= length (filter (fun p => is_present p && negb (snd p)) tvs))%nat).
    { apply IH. intros x Hx. apply Hh. right. exact Hx. }
    destruct v as [x|]; simpl; [|lia]. destruct h; simpl.
    - rewrite (type_sel_ne t' x); [simpl; lia|]. rewrite (Hh x (or_introl eq_refl)). congruence.
    - rewrite map_length. pose proof (type_sel_len t' x). lia. }
  lia.
Qed.

Lemma median_plain_range tvs f d :
  (forall x, In (Some x, true) tvs -> length (num_of x) = 1%nat) ->
  (fpres tvs < hpres tvs)%nat ->
  median_plain (map fst tvs) f = Ok d ->
  exists lo hi xl xh, In (Some xl, true) tvs /\ In (Some xh, true) tvs /\
                      In lo (num_of xl) /\ In hi (num_of xh) /\ dle lo d /\ dle d hi.
Proof.
  intros Hnum Hmaj H. unfold median_plain in H.
  rewrite median_observations_uflat, <- (tflat_fst num_of tvs) in H.
  destruct (length (map fst (tflat num_of tvs)) <=? f)%nat; [discriminate|].
  destruct (nth_error _ _) as [d'|] eqn:E; [|discriminate]. inversion H; subst d'.
  destruct (tflat_counts num_of tvs Hnum) as [C1 C2].
  { intros x _. destruct x; simpl; lia. }
  destruct (median_tagged dle dec_less dle_trans dle_refl dec_less_le dec_nless_le
              (tflat num_of tvs) d) as (lo & hi & H1 & H2 & H3 & H4); [lia|exact E|].
  apply tflat_in in H1. apply tflat_in in H2. destruct H1 as (xl & ? & ?). destruct H2 as (xh & ? & ?).
  exists lo, hi, xl, xh. auto 10.
Qed.

(* C02, plain median: honest values all Decimal (T = 0) or all Quote (T = 1) *)
Theorem median_in_honest_range T tvs f r :
  (T = 0 \/ T = 1) -> honest_type T tvs -> (fpres tvs < hpres tvs)%nat ->
  median_agg (map fst tvs) f = Ok r ->
  exists d lo hi xl xh, r = SDec d /\ In (Some xl, true) tvs /\ In (Some xh, true) tvs /\
                        In lo (num_of xl) /\ In hi (num_of xh) /\ dle lo d /\ dle d hi.
Proof.
  intros HT Hh Hmaj H. unfold median_agg in H.
  rewrite (honest_majority_type T tvs) in H by (unfold is_type; tauto || assumption).
  assert (Hnum : forall x, In (Some x, true) tvs -> length (num_of x) = 1%nat).
  { intros x Hx. specialize (Hh x Hx). destruct x; simpl in *; try reflexivity. lia. }
  assert (Hd : exists d, median_plain (map fst tvs) f = Ok d /\ r = SDec d).
  { destruct HT as [-> | ->]; simpl in H;
      destruct (median_plain (map fst tvs) f) as [d|e|s]; simpl in H; try discriminate;
      inversion H; eauto. }
  destruct Hd as (d & Hd & ->).
  destruct (median_plain_range tvs f d Hnum Hmaj Hd) as (lo & hi & xl & xh & ?).
  exists d, lo, hi, xl, xh. tauto.
Qed.

(* C02: with at most f present values there is no aggregate at all *)
Lemma uflat_length_le {B} (g : sval -> list B) vs :
  (forall x, (length (g x) <= 1)%nat) ->
  (length (uflat g vs) <= length (filter (fun v => match v with Some _ => true | None => false end) vs))%nat.
Proof.
  intros Hg. induction vs as [|[x|] vs IH]; simpl; [lia| |exact IH].
  rewrite app_length. specialize (Hg x). lia.
Qed.

Definition n_present (vs : list slot) : nat :=
  length (filter (fun v => match v with Some _ => true | None => false end) vs).

Lemma median_plain_too_few vs f : (n_present vs <= f)%nat -> median_plain vs f = Err ETooFew.
Proof.
  intros H. unfold median_plain. rewrite median_observations_uflat.
  pose proof (uflat_length_le num_of vs) as L. unfold n_present in H.
  destruct (length (uflat num_of vs) <=? f)%nat eqn:E; [reflexivity|].
  apply Nat.leb_gt in E. assert ((length (uflat num_of vs) <= f)%nat); [|lia].
  etransitivity; [apply L|exact H]. intros x. destruct x; simpl; lia.
Qed.

(* ---------- timestamped median ---------- *)
Definition inner_slot (v : sval) : slot := match v with STsv _ (SDec d) => Some (SDec d) | _ => None end.
Definition ts_of (v : sval) : Z := match v with STsv t (SDec _) => t | _ => 0 end.

(* every honest present value is a timestamped Decimal *)
Definition honest_tsv (tvs : list tslot) : Prop :=
  forall x, In (Some x, true) tvs -> exists t d, x = STsv t (SDec d).

Theorem tsv_median_in_honest_range tvs f r :
  honest_tsv tvs -> (fpres tvs < hpres tvs)%nat ->
  median_agg (map fst tvs) f = Ok r ->
  exists t d tl th dl dh t1 d1 t2 d2,
    r = STsv t (SDec d) /\
    In (Some (STsv tl d1), true) tvs /\ In (Some (STsv th d2), true) tvs /\ tl <= t <= th /\
    In (Some (STsv t1 (SDec dl)), true) tvs /\ In (Some (STsv t2 (SDec dh)), true) tvs /\
    dle dl d /\ dle d dh.
Proof.
  intros Hh Hmaj H. unfold median_agg in H.
  assert (HT : honest_type 2 tvs).
  { intros x Hx. destruct (Hh x Hx) as (t & d & ->). reflexivity. }
  rewrite (honest_majority_type 2 tvs) in H by (unfold is_type; auto).
  rewrite of_type_uflat, <- (tflat_fst (type_sel 2) tvs) in H.
  set (ttyp := tflat (type_sel 2) tvs) in *.
  (* counts in the bucket *)
  destruct (tflat_counts (type_sel 2) tvs) as [C1 C2].
  { intros x Hx. unfold type_sel. rewrite (HT x Hx). reflexivity. }
  { intros x _. unfold type_sel. destruct (sv_type x =? 2); simpl; lia. }
  fold ttyp in C1, C2.
  assert (Hth : forall x, In (x, true) ttyp -> exists t d, x = STsv t (SDec d) /\ In (Some x, true) tvs).
  { intros x Hx. apply tflat_in in Hx. destruct Hx as (x' & Hin & Hsel).
    unfold type_sel in Hsel. destruct (sv_type x' =? 2); [|contradiction].
    destruct Hsel as [<-|[]]. destruct (Hh x' Hin) as (t & d & ->). eauto. }
  (* stage 2: the inner slots, tagged *)
  set (tvs2 := map (fun p => (inner_slot (fst p), snd p)) ttyp : list tslot).
  assert (Esv : map (fun v => match v with STsv _ (SDec d) => Some (SDec d) | _ => None end) (map fst ttyp) = map fst tvs2).
  { unfold tvs2. rewrite !map_map. apply map_ext. intros [v h]. reflexivity. }
  set (tts := map (fun p => (ts_of (fst p), snd p)) ttyp : list (Z * bool)).
  assert (Ets : map (fun v => match v with STsv t (SDec _) => t | _ => 0 end) (map fst ttyp) = map fst tts).
  { unfold tts. rewrite !map_map. apply map_ext. intros [v h]. reflexivity. }
  rewrite Esv, Ets in H.
  assert (Hh2 : forall x, In (Some x, true) tvs2 -> exists t d, x = SDec d /\ In (Some (STsv t (SDec d)), true) tvs).
  { intros x Hx. unfold tvs2 in Hx. apply in_map_iff in Hx. destruct Hx as ([v h] & Heq & Hin).
    simpl in Heq. inversion Heq; subst h. destruct (Hth v Hin) as (t & d & -> & Hin').
    simpl in H1. inversion H1; subst. eauto. }
  assert (Hc2 : hpres tvs2 = honest_count ttyp /\ (fpres tvs2 <= faulty_count ttyp)%nat).
  { unfold hpres, fpres, honest_count, faulty_count, tvs2. clear - Hth.
    induction ttyp as [|[v h] l IH]; simpl; [split; lia|].
    destruct IH as [IH1 IH2]. { intros x Hx. apply Hth. right. exact Hx. }
    destruct h; simpl.
    - destruct (Hth v (or_introl eq_refl)) as (t & d & -> & _). simpl. split; lia.
    - destruct (is_present (inner_slot v, false)); simpl; split; lia. }
  destruct Hc2 as [Hc2a Hc2b].
  assert (Hmaj2 : (fpres tvs2 < hpres tvs2)%nat) by lia.
  assert (HT2 : honest_type 0 tvs2).
  { intros x Hx. destruct (Hh2 x Hx) as (t & d & -> & _). reflexivity. }
  rewrite (honest_majority_type 0 tvs2) in H by (unfold is_type; auto).
  simpl in H.
  destruct (median_plain (map fst tvs2) f) as [d|e|s] eqn:Emed; simpl in H; try discriminate.
  destruct (nth_error (isort Z.ltb (map fst tts)) (median_idx (map fst tts))) as [t|] eqn:Ets2; [|discriminate].
  inversion H; subst r; clear H.
  (* the value *)
  assert (Hnum : forall x, In (Some x, true) tvs2 -> length (num_of x) = 1%nat).
  { intros x Hx. destruct (Hh2 x Hx) as (? & ? & -> & _). reflexivity. }
  destruct (median_plain_range tvs2 f d Hnum Hmaj2 Emed) as (dl & dh & xl & xh & Hxl & Hxh & Hl & Hhh & Hle1 & Hle2).
  destruct (Hh2 xl Hxl) as (t1 & d1' & -> & Hin1). destruct (Hh2 xh Hxh) as (t2 & d2' & -> & Hin2).
  simpl in Hl, Hhh. destruct Hl as [<-|[]]. destruct Hhh as [<-|[]].
  (* the timestamp *)
  assert (Hcts : honest_count tts = honest_count ttyp /\ faulty_count tts = faulty_count ttyp).
  { unfold tts, honest_count, faulty_count. clear. induction ttyp as [|[v h] l IH]; simpl; [split; reflexivity|].
    destruct IH. destruct h; simpl; split; lia. }
  destruct Hcts as [Hct1 Hct2].
  destruct (median_tagged Z.le Z.ltb Z.le_trans Z.le_refl Zltb_le Znltb_le tts t) as (tl & th & Htl & Hthh & Hle3 & Hle4);
    [lia|exact Ets2|].
  assert (Htsin : forall u, In (u, true) tts -> exists dd, In (Some (STsv u dd), true) tvs).
  { intros u Hu. unfold tts in Hu. apply in_map_iff in Hu. destruct Hu as ([v h] & Heq & Hin).
    simpl in Heq. inversion Heq; subst h. destruct (Hth v Hin) as (t0 & d0 & -> & Hin'). simpl. eauto. }
  destruct (Htsin tl Htl) as (dd1 & Hd1). destruct (Htsin th Hthh) as (dd2 & Hd2).
  exists t, d, tl, th, d1', d2', t1, dd1, t2, dd2.
  repeat split; assumption.
Qed.

(* ---------- median over any permutation of the tagged values ---------- *)
Section MedianTaggedPerm.
  Context {A : Type} (le : A -> A -> Prop) (less : A -> A -> bool).
  Hypothesis le_trans : forall a b c, le a b -> le b c -> le a c.
  Hypothesis le_refl : forall a, le a a.
  Hypothesis less_le : forall a b, less a b = true -> le a b.
  Hypothesis nless_le : forall a b, less a b = false -> le b a.

  Lemma median_tagged_perm (tl : list (A * bool)) (s : list A) (d : A) :
    Permutation s (map fst tl) ->
    (faulty_count tl < honest_count tl)%nat ->
    nth_error (isort less s) (median_idx s) = Some d ->
    exists lo hi, In (lo, true) tl /\ In (hi, true) tl /\ le lo d /\ le d hi.
  Proof.
    intros Hs Hmaj Hnth. unfold median_idx in Hnth.
    set (s' := isort less s) in *.
    assert (Hperm : Permutation s' (map fst tl)).
    { etransitivity; [apply (isort_perm less)|exact Hs]. }
    assert (Hsorted : nth_sorted le s') by (apply (isort_sorted le less); assumption).
    assert (Hlen : length s' = length s) by (apply (isort_length less)).
    destruct (rank_median_between_honest le tl s' d Hperm Hsorted Hmaj) as (lo & hi & H1 & H2 & H3 & H4).
    rewrite Hlen in H3, H4. rewrite (nth_error_nth _ _ d Hnth) in H3, H4.
    exists lo, hi. auto.
  Qed.
End MedianTaggedPerm.

(* ---------- outcome timestamp: medianTimestamp ---------- *)
Theorem median_ts_in_honest_range (tts : list (Z * bool)) t :
  (faulty_count tts < honest_count tts)%nat ->
  median_ts (map fst tts) = Ok t ->
  exists lo hi, In (lo, true) tts /\ In (hi, true) tts /\ lo <= t <= hi.
Proof.
  intros Hmaj H. unfold median_ts in H.
  destruct (nth_error _ _) as [t'|] eqn:E; [|discriminate]. inversion H; subst t'.
  destruct (median_tagged Z.le Z.ltb Z.le_trans Z.le_refl Zltb_le Znltb_le tts t Hmaj E) as (lo & hi & ? & ? & ? & ?).
  exists lo, hi. auto.
Qed.

Lemma median_ts_total ts : ts <> [] -> exists t, median_ts ts = Ok t.
Proof.
  intros H. unfold median_ts. destruct (median_exists Z.le Z.ltb Z.le_trans Z.le_refl Zltb_le Znltb_le ts H) as [t Ht]. rewrite Ht. eauto.
Qed.

(* ---------- quote aggregate ---------- *)
Definition qsel (x : sval) : list (dec * dec * dec) :=
  match x with SQuote bid bm ask => if quote_valid bid bm ask then [(bid, bm, ask)] else [] | _ => [] end.

Lemma quote_observations_uflat vs : quote_observations vs = uflat qsel vs.
Proof. unfold quote_observations, uflat. apply flat_map_ext. intros [[d|a b c|t i]|]; reflexivity. Qed.

Definition honest_quote (tvs : list tslot) : Prop :=
  forall x, In (Some x, true) tvs -> exists bid bm ask, x = SQuote bid bm ask /\ quote_valid bid bm ask = true.

Lemma quote_valid_ordered bid bm ask : quote_valid bid bm ask = true -> dle bid bm /\ dle bm ask.
Proof.
  unfold quote_valid, cmp_le0. intros H. apply andb_true_iff in H. destruct H as [H1 H2].
  split; apply dec_cmp_ngt_le; intros E; rewrite E in *; discriminate.
Qed.

Section KeyOrder.
  Context (key : dec * dec * dec -> dec).
  Definition kle (a b : dec * dec * dec) : Prop := dle (key a) (key b).
  Definition kless (a b : dec * dec * dec) : bool := dec_less (key a) (key b).
  Lemma kle_trans a b c : kle a b -> kle b c -> kle a c. Proof. unfold kle. apply dle_trans. Qed.
  Lemma kle_refl a : kle a a. Proof. unfold kle. apply dle_refl. Qed.
  Lemma kless_le a b : kless a b = true -> kle a b. Proof. apply dec_less_le. Qed.
  Lemma knless_le a b : kless a b = false -> kle b a. Proof. apply dec_nless_le. Qed.
End KeyOrder.

Theorem quote_in_honest_range_and_ordered tvs f r :
  honest_quote tvs -> (fpres tvs < hpres tvs)%nat ->
  quote_agg (map fst tvs) f = Ok r ->
  exists bid bm ask, r = SQuote bid bm ask /\
    dle bid bm /\ dle bm ask /\
    (exists l h, In (Some l, true) tvs /\ In (Some h, true) tvs /\
                 (exists a b c, l = SQuote a b c /\ dle a bid) /\ (exists a b c, h = SQuote a b c /\ dle bid a)) /\
    (exists l h, In (Some l, true) tvs /\ In (Some h, true) tvs /\
                 (exists a b c, l = SQuote a b c /\ dle b bm) /\ (exists a b c, h = SQuote a b c /\ dle bm b)) /\
    (exists l h, In (Some l, true) tvs /\ In (Some h, true) tvs /\
                 (exists a b c, l = SQuote a b c /\ dle c ask) /\ (exists a b c, h = SQuote a b c /\ dle ask c)).
Proof.
  intros Hh Hmaj H. unfold quote_agg in H.
  rewrite quote_observations_uflat, <- (tflat_fst qsel tvs) in H.
  set (tobs := tflat qsel tvs) in *. set (obs := map fst tobs) in *.
  destruct (length obs <=? f)%nat; [discriminate|].
  set (s1 := isort (fun a b => dec_less (q_bm a) (q_bm b)) obs) in *.
  set (s2 := isort (fun a b => dec_less (q_bid a) (q_bid b)) s1) in *.
  set (s3 := isort (fun a b => dec_less (q_ask a) (q_ask b)) s2) in *.
  destruct (nth_error s1 (median_idx obs)) as [m1|] eqn:E1; [|discriminate].
  destruct (nth_error s2 (median_idx obs)) as [m2|] eqn:E2; [|discriminate].
  destruct (nth_error s3 (median_idx obs)) as [m3|] eqn:E3; [|discriminate].
  inversion H; subst r; clear H.
  assert (P1 : Permutation s1 obs) by apply isort_perm.
  assert (P2 : Permutation s2 obs) by (etransitivity; [apply isort_perm|exact P1]).
  assert (P3 : Permutation s3 obs) by (etransitivity; [apply isort_perm|exact P2]).
  assert (I1 : median_idx obs = median_idx s1) by (unfold median_idx; rewrite (Permutation_length P1); reflexivity).
  assert (I2 : median_idx obs = median_idx s2) by (unfold median_idx; rewrite (Permutation_length P2); reflexivity).
  (* counts *)
  destruct (tflat_counts qsel tvs) as [C1 C2].
  { intros x Hx. destruct (Hh x Hx) as (a & b & c & -> & Hv). simpl. rewrite Hv. reflexivity. }
  { intros x _. destruct x; simpl; try lia. destruct (quote_valid _ _ _); simpl; lia. }
  fold tobs in C1, C2.
  assert (Hmaj' : (faulty_count tobs < honest_count tobs)%nat) by lia.
  (* every retained quote is valid *)
  assert (Hvalid : forall q, In q obs -> dle (q_bid q) (q_bm q) /\ dle (q_bm q) (q_ask q)).
  { intros q Hq. unfold obs, tobs in Hq. rewrite (tflat_fst qsel tvs) in Hq. unfold uflat in Hq.
    apply in_flat_map in Hq. destruct Hq as (v & _ & Hq). destruct v as [x|]; [|contradiction].
    destruct x; simpl in Hq; try contradiction.
    destruct (quote_valid bid bm ask) eqn:Ev; [|contradiction]. destruct Hq as [<-|[]].
    apply quote_valid_ordered. exact Ev. }
  assert (Hhon : forall q, In (q, true) tobs -> In (Some (SQuote (q_bid q) (q_bm q) (q_ask q)), true) tvs).
  { intros q Hq. apply tflat_in in Hq. destruct Hq as (x & Hx & Hq).
    destruct x; simpl in Hq; try contradiction. destruct (quote_valid bid bm ask); [|contradiction].
    destruct Hq as [<-|[]]. exact Hx. }
  exists (q_bid m2), (q_bm m1), (q_ask m3). split; [reflexivity|].
  (* sortedness of the three slices *)
  assert (S1 : nth_sorted (kle q_bm) s1).
  { apply (isort_sorted (kle q_bm) (kless q_bm) (kle_trans q_bm) (kle_refl q_bm) (kless_le q_bm) (knless_le q_bm)). }
  assert (S2 : nth_sorted (kle q_bid) s2).
  { apply (isort_sorted (kle q_bid) (kless q_bid) (kle_trans q_bid) (kle_refl q_bid) (kless_le q_bid) (knless_le q_bid)). }
  assert (S3 : nth_sorted (kle q_ask) s3).
  { apply (isort_sorted (kle q_ask) (kless q_ask) (kle_trans q_ask) (kle_refl q_ask) (kless_le q_ask) (knless_le q_ask)). }
  assert (Hk : (median_idx obs < length obs)%nat).
  { rewrite <- (Permutation_length P1). apply nth_error_Some. congruence. }
  pose (d0 := m1).
  assert (N1 : nth (median_idx obs) s1 d0 = m1) by (apply nth_error_nth; exact E1).
  assert (N2 : nth (median_idx obs) s2 d0 = m2) by (apply nth_error_nth; exact E2).
  assert (N3 : nth (median_idx obs) s3 d0 = m3) by (apply nth_error_nth; exact E3).
  split.
  { (* bid <= benchmark *)
    pose proof (order_stat_monotone dle dleb dle_trans dleb_spec q_bid q_bm obs s2 s1 (median_idx obs) d0
                  P2 P1 S2 S1 (fun x Hx => proj1 (Hvalid x Hx)) Hk) as Hm.
    rewrite N1, N2 in Hm. exact Hm. }
  split.
  { pose proof (order_stat_monotone dle dleb dle_trans dleb_spec q_bm q_ask obs s1 s3 (median_idx obs) d0
                  P1 P3 S1 S3 (fun x Hx => proj2 (Hvalid x Hx)) Hk) as Hm.
    rewrite N1, N3 in Hm. exact Hm. }
  (* ranges, component by component *)
  split; [|split].
  - destruct (median_tagged_perm (kle q_bid) (kless q_bid) (kle_trans q_bid) (kle_refl q_bid) (kless_le q_bid) (knless_le q_bid)
                tobs s1 m2 P1 Hmaj') as (lo & hi & L1 & L2 & L3 & L4).
    { rewrite <- I1. exact E2. }
    exists (SQuote (q_bid lo) (q_bm lo) (q_ask lo)), (SQuote (q_bid hi) (q_bm hi) (q_ask hi)).
    split; [apply Hhon; exact L1|]. split; [apply Hhon; exact L2|].
    split; do 3 eexists; split; try reflexivity; assumption.
  - destruct (median_tagged_perm (kle q_bm) (kless q_bm) (kle_trans q_bm) (kle_refl q_bm) (kless_le q_bm) (knless_le q_bm)
                tobs obs m1 (Permutation_refl _) Hmaj' E1) as (lo & hi & L1 & L2 & L3 & L4).
    exists (SQuote (q_bid lo) (q_bm lo) (q_ask lo)), (SQuote (q_bid hi) (q_bm hi) (q_ask hi)).
    split; [apply Hhon; exact L1|]. split; [apply Hhon; exact L2|].
    split; do 3 eexists; split; try reflexivity; assumption.
  - destruct (median_tagged_perm (kle q_ask) (kless q_ask) (kle_trans q_ask) (kle_refl q_ask) (kless_le q_ask) (knless_le q_ask)
                tobs s2 m3 P2 Hmaj') as (lo & hi & L1 & L2 & L3 & L4).
    { rewrite <- I2. exact E3. }
    exists (SQuote (q_bid lo) (q_bm lo) (q_ask lo)), (SQuote (q_bid hi) (q_bm hi) (q_ask hi)).
    split; [apply Hhon; exact L1|]. split; [apply Hhon; exact L2|].
    split; do 3 eexists; split; try reflexivity; assumption.
Qed.

Lemma quote_too_few vs f : (n_present vs <= f)%nat -> quote_agg vs f = Err ETooFew.
Proof.
  intros H. unfold quote_agg. rewrite quote_observations_uflat.
  pose proof (uflat_length_le qsel vs) as L. unfold n_present in H.
  destruct (length (uflat qsel vs) <=? f)%nat eqn:E; [reflexivity|].
  apply Nat.leb_gt in E. assert ((length (uflat qsel vs) <= f)%nat); [|lia].
  etransitivity; [apply L|exact H]. intros x. destruct x; simpl; try lia. destruct (quote_valid _ _ _); simpl; lia.
Qed.

Lemma filter_length_le {B} (p : B -> bool) l : (length (filter p l) <= length l)%nat.
Proof. induction l as [|x l IH]; simpl; [lia|]. destruct (p x); simpl; lia. Qed.

Lemma median_agg_too_few vs f : (n_present vs <= f)%nat -> is_err (median_agg vs f) = true.
Proof.
  intros H. unfold median_agg.
  pose proof (most_common_type_spec vs) as Hs. destruct (most_common_type vs) as [t bk].
  destruct Hs as (Ht & Hbk & _ & _).
  destruct Ht as [-> | [-> | ->]].
  - rewrite (median_plain_too_few vs f H). reflexivity.
  - rewrite (median_plain_too_few vs f H). reflexivity.
  - set (sv := map _ bk). destruct (most_common_type sv) as [t2 bk2] eqn:E2.
    assert (Hn : (n_present sv <= f)%nat).
    { unfold n_present, sv. etransitivity; [|exact H]. unfold n_present.
      etransitivity; [apply (filter_length_le _ (map _ bk))|]. rewrite map_length. subst bk.
      rewrite of_type_uflat. apply uflat_length_le. intros x. apply type_sel_len. }
    destruct (Z.eq_dec t2 0) as [->|]; [rewrite (median_plain_too_few sv f Hn); reflexivity|].
    destruct (Z.eq_dec t2 1) as [->|]; [rewrite (median_plain_too_few sv f Hn); reflexivity|].
    destruct t2 as [|[| |]|]; try reflexivity; try congruence.
    all: destruct p; try reflexivity; try congruence.
Qed.
