(* LocksProofs.v — C20: data-race freedom and atomicity of Replace for threads running well-locked programs. *)
From DS Require Import Base BaseProofs RepoConstants Locks.
From Coq Require Import ZifyBool.

(* ---------- certificate verification ---------- *)
Lemma key_in_spec k allow : key_in k allow = true <-> In k allow.
Proof.
  unfold key_in. rewrite existsb_exists. split.
  - intros (x & Hx & He). apply bytes_eqb_eq in He. subst. exact Hx.
  - intros H. exists k. split; [exact H|apply bytes_eqb_refl].
Qed.

Theorem verify_peer_spec raw allow : verify_peer raw allow = true <-> exists k, raw = [CEd k] /\ In k allow.
Proof.
  unfold verify_peer. split.
  - destruct raw as [|[| |k] [|c r]]; try discriminate. intros H. exists k. split; [reflexivity|apply key_in_spec; exact H].
  - intros (k & -> & H). apply key_in_spec. exact H.
Qed.

Theorem handshake_spec sk ck sallow callow :
  handshake sk ck sallow callow = true <-> In ck sallow /\ In sk callow.
Proof. unfold handshake, verify_peer. rewrite andb_true_iff, !key_in_spec. tauto. Qed.

(* ---------- counting ---------- *)
Definition b2n (b : bool) : nat := if b then 1%nat else 0%nat.

Lemma count_upd p : forall ts i t t', nth_error ts i = Some t ->
  (count p (upd i t' ts) + b2n (p (th_hold t)) = count p ts + b2n (p (th_hold t')))%nat.
Proof.
  unfold count. induction ts as [|x ts IH]; intros [|i] t t' H; try discriminate; cbn [nth_error] in H.
  - inversion H; subst. cbn [upd filter]. destruct (p (th_hold t)), (p (th_hold t')); cbn [length b2n]; lia.
  - cbn [upd filter]. specialize (IH i t t' H). destruct (p (th_hold x)); cbn [length]; lia.
Qed.

Lemma nth_upd_same {A} : forall (l : list A) i x y, nth_error l i = Some y -> nth_error (upd i x l) i = Some x.
Proof. induction l as [|a l IH]; intros [|i] x y H; try discriminate; cbn in *; [reflexivity|eapply IH; eauto]. Qed.
Lemma nth_upd_other {A} : forall (l : list A) i j x, i <> j -> nth_error (upd i x l) j = nth_error l j.
Proof.
  induction l as [|a l IH]; intros [|i] [|j] x H; cbn; try reflexivity; try congruence.
  apply IH. congruence.
Qed.

Lemma count_ge1 p : forall ts i t, nth_error ts i = Some t -> p (th_hold t) = true -> (1 <= count p ts)%nat.
Proof.
  unfold count. induction ts as [|x ts IH]; intros [|i] t H Hp; try discriminate; cbn [nth_error] in H.
  - inversion H; subst. cbn [filter]. rewrite Hp. cbn. lia.
  - cbn [filter]. specialize (IH i t H Hp). destruct (p (th_hold x)); cbn [length]; lia.
Qed.
Lemma count_ge2 p : forall ts i j ti tj, i <> j -> nth_error ts i = Some ti -> nth_error ts j = Some tj ->
  p (th_hold ti) = true -> p (th_hold tj) = true -> (2 <= count p ts)%nat.
Proof.
  induction ts as [|x ts IH]; intros [|i] [|j] ti tj Hij Hi Hj Pi Pj; try discriminate; try congruence; cbn [nth_error] in *.
  - inversion Hi; subst. pose proof (count_ge1 p ts j tj Hj Pj). unfold count in *. cbn [filter]. rewrite Pi. cbn [length]. lia.
  - inversion Hj; subst. pose proof (count_ge1 p ts i ti Hi Pi). unfold count in *. cbn [filter]. rewrite Pj. cbn [length]. lia.
  - assert (i <> j) by congruence. pose proof (IH i j ti tj H Hi Hj Pi Pj). unfold count in *. cbn [filter].
    destruct (p (th_hold x)); cbn [length]; lia.
Qed.

(* ---------- the invariant ---------- *)
Definition thread_ok (S : list (list key)) (t : thread) : Prop :=
  wl (th_hold t) (th_prog t) = true /\ In (th_arg t) S /\ Forall (fun s => In s S) (th_snaps t).
Definition inv (S : list (list key)) (st : sys) : Prop :=
  let '(ks, ts) := st in
  Forall (thread_ok S) ts /\ In ks S /\
  (count is_HW ts <= 1)%nat /\ ((1 <= count is_HW ts)%nat -> count is_HR ts = 0%nat).

Lemma Forall_upd {A} (P : A -> Prop) : forall l i x, Forall P l -> P x -> Forall P (upd i x l).
Proof.
  induction l as [|a l IH]; intros [|i] x Hl Hx; cbn; try constructor; inversion Hl; subst; auto.
Qed.
Lemma Forall_nth {A} (P : A -> Prop) l i x : Forall P l -> nth_error l i = Some x -> P x.
Proof. intros H Hn. rewrite Forall_forall in H. apply H. eapply nth_error_In; eauto. Qed.

Lemma step_inv S i st st' : inv S st -> sys_step i st = Some st' -> inv S st'.
Proof.
  destruct st as [ks ts]. intros (Hts & Hks & Hw1 & Hwr). unfold sys_step.
  destruct (nth_error ts i) as [t|] eqn:Hn; [|discriminate].
  destruct (step_thread ks ts t) as [[ks' t']|] eqn:Hs; [|discriminate]. intros H; inversion H; subst; clear H.
  pose proof (Forall_nth _ _ _ _ Hts Hn) as (Hwl & Harg & Hsn).
  unfold step_thread in Hs. destruct (th_prog t) as [|op rest] eqn:Hp; [discriminate|].
  pose proof (count_upd is_HW ts i t) as CW. pose proof (count_upd is_HR ts i t) as CR.
  destruct op, (th_hold t) eqn:Hh; cbn [wl] in Hwl; try discriminate;
    repeat match type of Hs with (if ?c then _ else _) = _ => destruct c eqn:?; [|discriminate] end;
    inversion Hs; subst; clear Hs;
    match goal with |- inv _ (_, upd _ ?t' _) => specialize (CW t' Hn); specialize (CR t' Hn) end;
    cbn [th_hold is_HW is_HR b2n] in CW, CR;
    (split; [apply Forall_upd; [exact Hts|]; repeat split; cbn [th_hold th_prog th_arg th_snaps]; try assumption;
             try (constructor; assumption) |]);
    (split; [try assumption|]); try lia.
Qed.

Lemma run_inv S : forall sched st st', inv S st -> run sched st = Some st' -> inv S st'.
Proof.
  induction sched as [|i r IH]; intros st st' Hi Hr; cbn [run] in Hr.
  - inversion Hr; subst; exact Hi.
  - destruct (sys_step i st) as [st1|] eqn:E; [|discriminate]. eapply IH; [eapply step_inv; eauto|exact Hr].
Qed.

(* initial systems: threads spawned on well-locked programs, none holding the lock *)
Definition initial (S : list (list key)) (st : sys) : Prop :=
  let '(ks, ts) := st in In ks S /\ Forall (fun t => th_hold t = HN /\ wl HN (th_prog t) = true /\ In (th_arg t) S /\ th_snaps t = []) ts.

Lemma initial_inv S st : initial S st -> inv S st.
Proof.
  destruct st as [ks ts]. intros [Hks Hts]. split.
  - eapply Forall_impl; [|exact Hts]. intros t (Hh & Hwl & Ha & Hs). unfold thread_ok. rewrite Hh, Hs. repeat split; auto.
  - split; [exact Hks|].
    assert (HW0 : count is_HW ts = 0%nat /\ count is_HR ts = 0%nat).
    { unfold count. induction Hts as [|t ts (Hh & _) _ IH]; [split; reflexivity|]. cbn [filter]. rewrite Hh. cbn [is_HW is_HR]. exact IH. }
    lia.
Qed.

(* ---------- no data race: a write to .keys is never concurrent with another thread's read or write ---------- *)
Theorem no_data_race S sched st0 ks ts i j ti tj :
  initial S st0 -> run sched st0 = Some (ks, ts) -> i <> j ->
  nth_error ts i = Some ti -> nth_error ts j = Some tj ->
  next_op ti = Some LWrite -> is_access (next_op tj) = true -> False.
Proof.
  intros H0 Hr Hij Hi Hj Hwi Haj.
  pose proof (run_inv S sched st0 (ks, ts) (initial_inv S st0 H0) Hr) as (Hts & _ & Hw1 & Hwr).
  pose proof (Forall_nth _ _ _ _ Hts Hi) as (Hwli & _). pose proof (Forall_nth _ _ _ _ Hts Hj) as (Hwlj & _).
  unfold next_op in *. destruct (th_prog ti) as [|oi ri]; [discriminate|]. inversion Hwi; subst oi.
  destruct (th_prog tj) as [|oj rj]; [discriminate|].
  cbn [wl] in Hwli. destruct (th_hold ti) eqn:Hhi; try discriminate.
  assert (PWi : is_HW (th_hold ti) = true) by (rewrite Hhi; reflexivity).
  destruct oj; try discriminate; cbn [wl] in Hwlj; destruct (th_hold tj) eqn:Hhj; try discriminate.
  - assert (PRj : is_HR (th_hold tj) = true) by (rewrite Hhj; reflexivity).
    pose proof (count_ge1 is_HW ts i ti Hi PWi). pose proof (count_ge1 is_HR ts j tj Hj PRj). lia.
  - assert (PWj : is_HW (th_hold tj) = true) by (rewrite Hhj; reflexivity).
    pose proof (count_ge2 is_HW ts i j ti tj Hij Hi Hj PWi PWj). lia.
  - assert (PWj : is_HW (th_hold tj) = true) by (rewrite Hhj; reflexivity).
    pose proof (count_ge2 is_HW ts i j ti tj Hij Hi Hj PWi PWj). lia.
Qed.

(* ---------- atomic replacement: every value read is the initial list or the complete new list of some Replace ---------- *)
Theorem reads_are_whole_lists S sched st0 ks ts i t :
  initial S st0 -> run sched st0 = Some (ks, ts) -> nth_error ts i = Some t ->
  In ks S /\ Forall (fun s => In s S) (th_snaps t).
Proof.
  intros H0 Hr Hi. pose proof (run_inv S sched st0 (ks, ts) (initial_inv S st0 H0) Hr) as (Hts & Hks & _).
  pose proof (Forall_nth _ _ _ _ Hts Hi) as (_ & _ & Hs). split; assumption.
Qed.

(* a key in every list (old and new) is never rejected; a key in none is never accepted *)
Theorem replace_atomic S sched st0 ks ts i t k b :
  initial S st0 -> run sched st0 = Some (ks, ts) -> nth_error ts i = Some t -> verdict k t = Some b ->
  ((forall s, In s S -> In k s) -> b = true) /\ ((forall s, In s S -> ~ In k s) -> b = false).
Proof.
  intros H0 Hr Hi Hv. destruct (reads_are_whole_lists S sched st0 ks ts i t H0 Hr Hi) as [_ Hs].
  unfold verdict in Hv. destruct (th_prog t); [|discriminate]. destruct (th_snaps t) as [|s r]; [discriminate|].
  inversion Hv; subst b. inversion Hs; subst. split; intros H.
  - apply key_in_spec. apply H. assumption.
  - apply Bool.not_true_is_false. intros Hc. apply key_in_spec in Hc. exact (H s H2 Hc).
Qed.

(* ---------- the programs in /repo obey the discipline (regenerated from the source on every run) ---------- *)
Definition repo_programs_ok : bool :=
  mtls_found && mtls_shape_ok &&
  match program "Keys" 0, program "isValidPublicKey" 0, program "Replace" 0, program "Replace" 1 with
  | Some pk, Some pv, Some pr, Some pa =>
      wl HN pk && wl HN pv && wl HN pr && wl HN pa &&
      (* Keys and isValidPublicKey only read; Replace writes exactly once and reads its argument under that argument's lock *)
      forallb (fun o => match o with LWrite => false | _ => true end) (pk ++ pv) &&
      (length (filter (fun o => match o with LWrite => true | _ => false end) pr) =? 1)%nat &&
      existsb (fun o => match o with LRead => true | _ => false end) pv &&
      existsb (fun o => match o with LRead => true | _ => false end) pa
  | _, _, _, _ => false
  end &&
  (* no other function of the file touches the allow-list or its lock *)
  forallb (fun e => existsb (String.eqb (fst e)) ["Keys"; "isValidPublicKey"; "Replace"]%string) mtls_programs.
