(* WireWork.v — C19 on the WIRE MODEL itself (not on an abstract cost function): the length-delimited fields a
   message parser hands to nested parsers are disjoint pieces of its input, so parsing a message and recursively
   every embedded message down to a fixed nesting depth touches at most (depth + 1) times the input — linear; with
   unbounded depth (the pre-D7 decoder) a chain of wrappers makes it quadratic.  The LLO observation schema has a
   fixed depth once the D7 guard bounds the nesting of timestamped values:
   observation -> map entry -> LLOStreamValue -> value bytes -> (timestamped) LLOStreamValue -> value bytes -> one more. *)
From DS Require Import Base Wire BaseProofs WireProofs.
From Coq Require Import Lia.
Open Scope Z_scope.

Definition field_len (f : rawfield) : nat := match snd f with RBytes b | RFixed64 b | RFixed32 b => length b | RVarint _ => O end.
Definition fields_len (fs : list rawfield) : nat := fold_right (fun f acc => (field_len f + acc)%nat) O fs.

Lemma parse_fields_fuel_total n : forall bs fs, parse_fields_fuel n bs = Some fs -> (fields_len fs <= length bs)%nat.
Proof.
  induction n as [|n IH]; intros bs fs H; [discriminate|]. cbn [parse_fields_fuel] in H.
  destruct bs as [|b bs]; [inversion H; cbn; lia|].
  destruct (parse_varint (b :: bs)) as [[t r]|] eqn:Et; [|discriminate].
  pose proof (parse_varint_consumes _ _ _ Et) as Hr.
  destruct ((t / 8 <? 1) || (2 ^ 29 <=? t / 8)); [discriminate|].
  destruct (t mod 8 =? 0).
  { destruct (parse_varint r) as [[v r']|] eqn:Ev; [|discriminate]. pose proof (parse_varint_consumes _ _ _ Ev) as Hr'.
    destruct (parse_fields_fuel n r') as [fs'|] eqn:Ef; [|discriminate]. inversion H; subst.
    specialize (IH _ _ Ef). cbn [fields_len fold_right field_len snd]. fold (fields_len fs'). lia. }
  destruct (t mod 8 =? 2).
  { destruct (parse_varint r) as [[len r']|] eqn:Ev; [|discriminate]. pose proof (parse_varint_consumes _ _ _ Ev) as Hr'.
    destruct (Z.of_nat (length r') <? len) eqn:El; [discriminate|].
    destruct (parse_fields_fuel n (skipn (Z.to_nat len) r')) as [fs'|] eqn:Ef; [|discriminate].
    assert (Hp : (length (firstn (Z.to_nat len) r') <= Z.to_nat len)%nat) by (rewrite firstn_length; lia).
    remember (firstn (Z.to_nat len) r') as piece. inversion H; subst fs.
    specialize (IH _ _ Ef). rewrite skipn_length in IH.
    cbn [fields_len fold_right field_len snd]. fold (fields_len fs'). lia. }
  destruct (t mod 8 =? 1).
  { destruct (length r <? 8)%nat eqn:El; [discriminate|].
    destruct (parse_fields_fuel n (skipn 8 r)) as [fs'|] eqn:Ef; [|discriminate].
    assert (Hp : (length (firstn 8 r) <= 8)%nat) by (rewrite firstn_length; lia).
    remember (firstn 8 r) as piece. inversion H; subst fs.
    specialize (IH _ _ Ef). rewrite skipn_length in IH. apply Nat.ltb_ge in El.
    cbn [fields_len fold_right field_len snd]. fold (fields_len fs'). lia. }
  destruct (t mod 8 =? 5).
  { destruct (length r <? 4)%nat eqn:El; [discriminate|].
    destruct (parse_fields_fuel n (skipn 4 r)) as [fs'|] eqn:Ef; [|discriminate].
    assert (Hp : (length (firstn 4 r) <= 4)%nat) by (rewrite firstn_length; lia).
    remember (firstn 4 r) as piece. inversion H; subst fs.
    specialize (IH _ _ Ef). rewrite skipn_length in IH. apply Nat.ltb_ge in El.
    cbn [fields_len fold_right field_len snd]. fold (fields_len fs'). lia. }
  destruct (t mod 8 =? 3); [|discriminate].
  destruct (skip_group n group_depth_limit (t / 8) r) as [r'|] eqn:Eg; [|discriminate].
  pose proof (skip_group_consumes _ _ _ _ _ Eg). specialize (IH _ _ H). cbn [length] in *. lia.
Qed.
(* the embedded pieces of a message are disjoint pieces of it *)
Theorem parse_fields_total bs fs : parse_fields bs = Some fs -> (fields_len fs <= length bs)%nat.
Proof. apply parse_fields_fuel_total. Qed.

(* bytes touched by parsing bs and, recursively, every length-delimited field, down to nesting depth d *)
Fixpoint work (d : nat) (bs : bytes) : nat :=
  (length bs +
   match d with
   | O => O
   | S d' => match parse_fields bs with
             | Some fs => fold_right (fun f acc => (match snd f with RBytes b => work d' b | _ => O end + acc)%nat) O fs
             | None => O
             end
   end)%nat.

Theorem work_linear d : forall bs, (work d bs <= (d + 1) * length bs)%nat.
Proof.
  induction d as [|d IH]; intros bs; cbn [work]; [lia|].
  destruct (parse_fields bs) as [fs|] eqn:E; [|lia].
  pose proof (parse_fields_total bs fs E) as Ht.
  assert (Hsum : (fold_right (fun f acc => (match snd f with RBytes b => work d b | _ => O end + acc)%nat) O fs <= (d + 1) * fields_len fs)%nat).
  { clear E Ht. induction fs as [|[k r] fs IHf]; [cbn; lia|]. cbn [fold_right fields_len field_len snd]. fold (fields_len fs).
    destruct r as [v|b|b|b]; cbn [field_len snd]; [nia| |nia|nia]. specialize (IH b). nia. }
  nia.
Qed.

(* the observation schema after the D7 repair: depth 6 *)
Corollary observation_decode_work_linear bs : (work 6 bs <= 7 * length bs)%nat.
Proof. exact (work_linear 6 bs). Qed.
