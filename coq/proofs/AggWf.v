(* AggWf.v — the aggregators only ever return values assembled from their inputs: decimals that occur in some input,
   observed-at times that occur in some input (or 0), nested at most as deep as the inputs.  Hence well-formed inputs
   (int32 scales, uint64 times, nesting <= 2) give well-formed aggregates — the fact that lets the byte-level outcome
   codec theorems apply to what Plugin.outcome computes (StepBytes.v). *)
From DS Require Import Base Decimal StreamValue Sort Aggregators.
From DS Require Import BaseProofs SortProofs MctProofs ModeProofs StreamValueProofs FieldLists OutcomeRoundTrip.
From Coq Require Import Lia.
Open Scope Z_scope.

Definition slot_good (v : option sval) : Prop := match v with Some x => sval_wf x /\ small (sval_marshal x) | None => True end.

Lemma of_type_in t vs x : In x (of_type t vs) -> In (Some x) vs /\ sv_type x = t.
Proof.
  unfold of_type. intros H. apply in_flat_map in H. destruct H as (v & Hv & Hx).
  destruct v as [y|]; [|destruct Hx]. destruct (sv_type y =? t) eqn:E; [|destruct Hx].
  destruct Hx as [<-|[]]. split; [exact Hv|lia].
Qed.

Lemma isort_in {A} (less : A -> A -> bool) l x : In x (isort less l) -> In x l.
Proof. intros H. exact (Permutation_in _ (isort_perm less l) H). Qed.

Lemma median_plain_from_inputs vs f d : median_plain vs f = Ok d ->
  exists x, In (Some x) vs /\ (x = SDec d \/ exists a c, x = SQuote a d c).
Proof.
  unfold median_plain. destruct (length (median_observations vs) <=? f)%nat; [discriminate|].
  destruct (nth_error _ _) as [d'|] eqn:E; [|discriminate]. intros H. inversion H; subst.
  apply nth_error_In, isort_in in E. unfold median_observations in E. apply in_flat_map in E.
  destruct E as (v & Hv & Hd). destruct v as [[y|a b c|t i]|].
  - destruct Hd as [<-|[]]. exists (SDec y). split; [exact Hv|left; reflexivity].
  - destruct Hd as [<-|[]]. exists (SQuote a b c). split; [exact Hv|right; eexists; eexists; reflexivity].
  - destruct Hd.
  - destruct Hd.
Qed.

Lemma median_plain_exp_ok vs f d : Forall slot_good vs -> median_plain vs f = Ok d -> exp_ok d.
Proof.
  intros Hg H. destruct (median_plain_from_inputs vs f d H) as (x & Hx & Hd).
  rewrite Forall_forall in Hg. destruct (Hg _ Hx) as [[Hok _] _].
  destruct Hd as [->|(a & c & ->)]; cbn [sval_ok] in Hok; [exact Hok|tauto].
Qed.

Theorem median_agg_wf vs f r : Forall slot_good vs -> median_agg vs f = Ok r -> sval_wf r.
Proof.
  intros Hg. unfold median_agg.
  pose proof (most_common_type_spec vs) as Hs. destruct (most_common_type vs) as [t bk]. destruct Hs as (_ & Hbk & _).
  assert (Hplain : forall r', (d <- median_plain vs f ;; Ok (SDec d)) = Ok r' -> sval_wf r').
  { intros r' H. destruct (median_plain vs f) as [d| |] eqn:E; try discriminate. cbn [bind] in H. inversion H; subst.
    split; [exact (median_plain_exp_ok vs f d Hg E)|cbn; lia]. }
  destruct t as [|p|p]; [apply Hplain| |discriminate].
  destruct p as [p|p|]; [discriminate| |apply Hplain]. destruct p as [p|p|]; [discriminate|discriminate|].
  (* timestamped values *)
  set (svalues := map (fun v => match v with STsv _ (SDec d) => Some (SDec d) | _ => None end) bk).
  set (timestamps := map (fun v => match v with STsv t (SDec _) => t | _ => 0 end) bk).
  assert (Hbkg : forall x, In x bk -> sval_wf x).
  { intros x Hx. rewrite Hbk in Hx. apply of_type_in in Hx. destruct Hx as [Hx _]. rewrite Forall_forall in Hg. apply (Hg _ Hx). }
  assert (Hsv : Forall slot_good svalues).
  { apply Forall_forall. intros v Hv. subst svalues. apply in_map_iff in Hv. destruct Hv as (x & <- & Hx).
    destruct x as [?|? ? ?|t0 [d|? ? ?|? ?]]; try exact I. destruct (Hbkg _ Hx) as [[_ Hd] _]. cbn [sval_ok] in Hd.
    split; [split; [exact Hd|cbn; lia]|].
    (* the marshalled decimal is a piece of the marshalled timestamped value *)
    pose proof Hx as Hx'. rewrite Hbk in Hx'. apply of_type_in in Hx'. destruct Hx' as [Hin _].
    rewrite Forall_forall in Hg. destruct (Hg _ Hin) as [_ Hsm]. eapply small_le; [|exact Hsm].
    cbn [sval_marshal sv_type]. rewrite !app_length. pose proof (length_f_msg 2 (f_varint 1 0 ++ f_bytes 2 (dec_marshal d))).
    rewrite app_length in H. pose proof (length_f_bytes 2 (dec_marshal d)). lia. }
  intros H. destruct (most_common_type svalues) as [t' bk'].
  assert (Hcore : (d <- median_plain svalues f ;;
                   match nth_error (isort Z.ltb timestamps) (median_idx timestamps) with
                   | Some t => Ok (STsv t (SDec d)) | None => Panic 3 end) = Ok r -> sval_wf r).
  { intros H'. destruct (median_plain svalues f) as [d| |] eqn:E; try discriminate. cbn [bind] in H'.
    destruct (nth_error _ _) as [t0|] eqn:Et; [|discriminate]. inversion H'; subst.
    apply nth_error_In, isort_in in Et. subst timestamps. apply in_map_iff in Et. destruct Et as (x & Ht & Hx).
    split; [|cbn; lia]. cbn [sval_ok]. split; [|exact (median_plain_exp_ok svalues f d Hsv E)].
    destruct x as [?|? ? ?|t1 [d1|? ? ?|? ?]]; subst; unfold u64_ok; try lia.
    destruct (Hbkg _ Hx) as [[Ht1 _] _]. exact Ht1. }
  destruct t' as [|p|p]; [apply Hcore; exact H| |discriminate].
  destruct p as [p|p|]; [discriminate|discriminate|apply Hcore; exact H].
Qed.

Theorem quote_agg_wf vs f r : Forall slot_good vs -> quote_agg vs f = Ok r -> sval_wf r.
Proof.
  intros Hg. unfold quote_agg. destruct (length (quote_observations vs) <=? f)%nat; [discriminate|].
  set (obs := quote_observations vs).
  assert (Hobs : forall q, In q obs -> exp_ok (q_bid q) /\ exp_ok (q_bm q) /\ exp_ok (q_ask q)).
  { intros q Hq. subst obs. unfold quote_observations in Hq. apply in_flat_map in Hq. destruct Hq as (v & Hv & Hq).
    destruct v as [[?|a b c|? ?]|]; try destruct Hq. destruct (quote_valid a b c); [|destruct Hq]. destruct Hq as [<-|[]].
    rewrite Forall_forall in Hg. destruct (Hg _ Hv) as [[Hok _] _]. exact Hok. }
  destruct (nth_error _ _) as [m1|] eqn:E1; [|discriminate].
  destruct (nth_error (isort _ (isort _ obs)) _) as [m2|] eqn:E2; [|discriminate].
  destruct (nth_error (isort _ (isort _ (isort _ obs))) _) as [m3|] eqn:E3; [|discriminate].
  intros H. inversion H; subst.
  apply nth_error_In, isort_in in E1. apply nth_error_In, isort_in, isort_in in E2. apply nth_error_In, isort_in, isort_in, isort_in in E3.
  split; [|cbn; lia]. cbn [sval_ok]. destruct (Hobs _ E1) as (_ & H1 & _). destruct (Hobs _ E2) as (H2 & _ & _).
  destruct (Hobs _ E3) as (_ & _ & H3). auto.
Qed.

Theorem mode_agg_wf vs f v : Forall slot_good vs -> mode_agg vs f = Ok (Some v) -> sval_wf v.
Proof.
  intros Hg. rewrite mode_agg_unfold.
  pose proof (most_common_type_spec vs) as Hs. destruct (most_common_type vs) as [typ bk]. destruct Hs as (_ & Hbk & _).
  pose proof (mode_pick_spec (map sval_marshal bk)) as Hp. destruct (mode_pick (map sval_marshal bk)) as [k c].
  destruct Hp as [Hk _]. destruct (c <? f + 1)%nat eqn:Ec; [discriminate|].
  destruct k as [|b k]; [discriminate|].
  destruct Hk as [Hz|[Hin _]]; [lia|]. apply in_map_iff in Hin. destruct Hin as (x & Hmx & Hx).
  rewrite Hbk in Hx. apply of_type_in in Hx. destruct Hx as [Hx Ht].
  rewrite Forall_forall in Hg. destruct (Hg _ Hx) as [[Hok Hdepth] Hsm].
  rewrite <- Hmx, <- Ht. rewrite sval_roundtrip; [|exact Hok|apply sval_small_of_small; exact Hsm|exact Hdepth].
  cbn [bind]. intros H. inversion H; subst. split; assumption.
Qed.

Lemma median_ts_in ts t : median_ts ts = Ok t -> In t ts.
Proof.
  unfold median_ts. destruct (nth_error _ _) as [t'|] eqn:E; [|discriminate]. intros H. inversion H; subst.
  apply nth_error_In, isort_in in E. exact E.
Qed.
