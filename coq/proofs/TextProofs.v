(* TextProofs.v — round trips of the text forms (TextForms.v). *)
From DS Require Import Base BaseProofs Decimal DecimalProofs StreamValue TextForms.
From Coq Require Import ZifyBool.
Ltac Zify.zify_post_hook ::= Z.div_mod_to_equations.
Local Opaque Z.pow.

(* ---------- digit strings ---------- *)
Definition all_digits (s : bytes) : Prop := forallb is_digit s = true.

Lemma digits_val_acc s : forall x, fold_left (fun acc c => acc * 10 + (c - 48)) s x = x * 10 ^ Z.of_nat (length s) + digits_val s.
Proof.
  unfold digits_val. induction s as [|c s IH]; intros x.
  - cbn. rewrite Z.pow_0_r. lia.
  - cbn [fold_left length]. rewrite IH. rewrite (IH (0 * 10 + (c - 48))).
    rewrite Nat2Z.inj_succ, Z.pow_succ_r by lia. ring.
Qed.

Lemma digits_val_app a b : digits_val (a ++ b) = digits_val a * 10 ^ Z.of_nat (length b) + digits_val b.
Proof. unfold digits_val at 1. rewrite fold_left_app. fold (digits_val a). apply digits_val_acc. Qed.

Lemma digits_val_zeros z : digits_val (repeat 48 z) = 0.
Proof.
  induction z as [|z IH]; [reflexivity|]. change (repeat 48 (S z)) with ([48] ++ repeat 48 z).
  rewrite digits_val_app, IH. reflexivity.
Qed.

Lemma all_digits_app a b : all_digits (a ++ b) <-> all_digits a /\ all_digits b.
Proof. unfold all_digits. rewrite forallb_app. apply andb_true_iff. Qed.

Lemma ddf_spec : forall fuel v acc, (1 <= fuel)%nat -> 0 <= v < 10 ^ Z.of_nat fuel ->
  exists ds, dec_digits_fuel fuel v acc = ds ++ acc /\ ds <> [] /\ all_digits ds /\ digits_val ds = v.
Proof.
  induction fuel as [|k IH]; intros v acc Hf Hv; [lia|].
  cbn [dec_digits_fuel]. destruct (v / 10 =? 0) eqn:E.
  - exists [48 + v mod 10]. split; [reflexivity|]. split; [discriminate|]. split.
    + unfold all_digits, is_digit. cbn [forallb]. lia.
    + unfold digits_val. cbn [fold_left]. lia.
  - assert (Hk : (1 <= k)%nat).
    { destruct k; [|lia]. change (Z.of_nat 1) with 1 in Hv. rewrite Z.pow_1_r in Hv. lia. }
    assert (Hv' : 0 <= v / 10 < 10 ^ Z.of_nat k).
    { rewrite Nat2Z.inj_succ, Z.pow_succ_r in Hv by lia. lia. }
    destruct (IH (v / 10) ((48 + v mod 10) :: acc) Hk Hv') as (ds & -> & Hne & Hd & Hval).
    exists (ds ++ [48 + v mod 10]). rewrite <- app_assoc. split; [reflexivity|].
    split; [destruct ds; discriminate|]. split.
    + apply all_digits_app. split; [exact Hd|]. unfold all_digits, is_digit. cbn [forallb]. lia.
    + rewrite digits_val_app, Hval. unfold digits_val. cbn [fold_left length]. change (Z.of_nat 1) with 1. rewrite Z.pow_1_r. lia.
Qed.

Lemma nat_string_spec v : 0 <= v ->
  nat_string v <> [] /\ all_digits (nat_string v) /\ digits_val (nat_string v) = v.
Proof.
  intros Hv. unfold nat_string, dec_digits.
  assert (Hb : 0 <= v < 10 ^ Z.of_nat (S (Z.to_nat (Z.log2 v)))).
  { split; [lia|]. rewrite Nat2Z.inj_succ, Z2Nat.id by apply Z.log2_nonneg.
    destruct (Z.eq_dec v 0) as [->|Hnz]; [cbn; apply Z.pow_pos_nonneg; lia|].
    pose proof (Z.log2_spec v ltac:(lia)) as [_ Hlt].
    eapply Z.lt_le_trans; [exact Hlt|]. apply Z.pow_le_mono_l. pose proof (Z.log2_nonneg v). lia. }
  destruct (ddf_spec (S (Z.to_nat (Z.log2 v))) v [] ltac:(lia) Hb) as (ds & Heq & Hne & Hd & Hval).
  rewrite Heq, app_nil_r. auto.
Qed.

Lemma all_digits_head c s : all_digits (c :: s) -> (c =? 45) = false /\ (c =? 43) = false /\ is_digit_dot c = true.
Proof. unfold all_digits, is_digit_dot, is_digit. cbn. intros H. lia. Qed.

Lemma parse_int_digits ds : ds <> [] -> all_digits ds -> parse_int ds = Some (digits_val ds).
Proof.
  intros Hne Hd. unfold parse_int. destruct ds as [|c r]; [congruence|].
  destruct (all_digits_head _ _ Hd) as (-> & -> & _). unfold all_digits in Hd. rewrite Hd. reflexivity.
Qed.

Lemma parse_int_neg ds : ds <> [] -> all_digits ds -> parse_int (45 :: ds) = Some (- digits_val ds).
Proof.
  intros Hne Hd. unfold parse_int. cbn [Z.eqb Pos.eqb]. destruct ds as [|c r]; [congruence|].
  unfold all_digits in Hd. rewrite Hd. reflexivity.
Qed.

(* sign prefix *)
Definition sgn_pfx (neg : bool) : bytes := if neg then [45] else [].
Lemma parse_int_signed neg ds : ds <> [] -> all_digits ds ->
  parse_int (sgn_pfx neg ++ ds) = Some (if neg then - digits_val ds else digits_val ds).
Proof. destruct neg; cbn [sgn_pfx app]; [apply parse_int_neg|apply parse_int_digits]. Qed.

Lemma int_string_shape v : exists ds, ds <> [] /\ all_digits ds /\ digits_val ds = Z.abs v /\
  int_string v = sgn_pfx (v <? 0) ++ ds.
Proof.
  unfold int_string. destruct (v <? 0) eqn:E.
  - destruct (nat_string_spec (- v) ltac:(lia)) as (Hne & Hd & Hval). exists (nat_string (- v)).
    repeat split; auto. lia.
  - destruct (nat_string_spec v ltac:(lia)) as (Hne & Hd & Hval). exists (nat_string v).
    repeat split; auto. lia.
Qed.

(* ---------- trimming ---------- *)
Lemma trim_zeros_rev_spec r : exists z, r = repeat 48 z ++ trim_zeros_rev r /\
  (forall c t, trim_zeros_rev r = c :: t -> c <> 48).
Proof.
  induction r as [|c r IH]; [exists O; split; [reflexivity|discriminate]|].
  cbn [trim_zeros_rev]. destruct (c =? 48) eqn:E.
  - destruct IH as (z & Hr & Hh). exists (S z). split; [cbn; f_equal; [lia|exact Hr]|exact Hh].
  - exists O. split; [reflexivity|]. intros c' t H. inversion H; subst. lia.
Qed.

Lemma rev_repeat {A} (x : A) n : rev (repeat x n) = repeat x n.
Proof.
  induction n as [|n IH]; [reflexivity|]. cbn [repeat rev]. rewrite IH.
  clear IH. induction n as [|n IH]; [reflexivity|]. cbn. f_equal. exact IH.
Qed.

Lemma trim_trailing_spec s : exists z, s = trim_trailing_zeros s ++ repeat 48 z.
Proof.
  unfold trim_trailing_zeros. destruct (trim_zeros_rev_spec (rev s)) as (z & Hr & _). exists z.
  rewrite <- (rev_involutive s) at 1. rewrite Hr at 1. rewrite rev_app_distr, rev_repeat. reflexivity.
Qed.

(* ---------- Decimal.String(): shape ---------- *)
(* sign ++ ip [++ "." ++ fp] with |coef| = value(ip ++ fp) * 10^z and len fp + z = -exp *)
Lemma dec_string_shape d : dexp d < 0 ->
  exists ip fp z, ip <> [] /\ all_digits ip /\ all_digits fp /\
    Z.of_nat (length fp) + Z.of_nat z = - dexp d /\
    Z.abs (big_toZ (dcoef d)) = digits_val (ip ++ fp) * 10 ^ Z.of_nat z /\
    dec_string d = sgn_pfx (big_toZ (dcoef d) <? 0) ++ match fp with [] => ip | _ => ip ++ 46 :: fp end.
Proof.
  intros He. unfold dec_string. destruct (0 <=? dexp d) eqn:E0; [lia|].
  set (c := big_toZ (dcoef d)).
  destruct (nat_string_spec (Z.abs c) ltac:(lia)) as (Hne & Hd & Hval).
  set (str := nat_string (Z.abs c)) in *. set (k := Z.to_nat (- dexp d)).
  assert (Hk : Z.of_nat k = - dexp d) by (subst k; lia).
  assert (Hsplit : exists ip fp0, ip <> [] /\ all_digits ip /\ all_digits fp0 /\ length fp0 = k /\ digits_val (ip ++ fp0) = Z.abs c /\
            (if (k <? length str)%nat then (firstn (length str - k) str, skipn (length str - k) str)
             else ([48], repeat 48 (k - length str) ++ str)) = (ip, fp0)).
  { destruct (k <? length str)%nat eqn:Ek.
    - apply Nat.ltb_lt in Ek. exists (firstn (length str - k) str), (skipn (length str - k) str).
      assert (Hd' : all_digits (firstn (length str - k) str ++ skipn (length str - k) str)) by (rewrite firstn_skipn; exact Hd).
      apply all_digits_app in Hd'. destruct Hd' as [Hd1 Hd2].
      split; [intros Hc; apply (f_equal (@length Z)) in Hc; rewrite firstn_length in Hc; cbn [length] in Hc; lia|].
      repeat split; auto. { rewrite skipn_length. lia. } rewrite firstn_skipn. exact Hval.
    - apply Nat.ltb_ge in Ek. exists [48], (repeat 48 (k - length str) ++ str).
      split; [discriminate|]. split; [reflexivity|]. split.
      { apply all_digits_app. split; [|exact Hd]. unfold all_digits. apply forallb_forall. intros x Hx. apply repeat_spec in Hx. subst; reflexivity. }
      split; [rewrite app_length, repeat_length; lia|]. split; [|reflexivity].
      change ([48] ++ repeat 48 (k - length str) ++ str) with (repeat 48 (S (k - length str)) ++ str).
      rewrite digits_val_app, digits_val_zeros. lia. }
  destruct Hsplit as (ip & fp0 & Hipne & Hip & Hfp0 & Hlen & Hv & ->).
  destruct (trim_trailing_spec fp0) as (z & Hz).
  set (fp := trim_trailing_zeros fp0) in *.
  exists ip, fp, z. split; [exact Hipne|]. split; [exact Hip|].
  assert (Hfp : all_digits fp) by (rewrite Hz in Hfp0; apply all_digits_app in Hfp0; tauto).
  split; [exact Hfp|]. split.
  { pose proof (f_equal (@length Z) Hz) as HL. rewrite app_length, repeat_length in HL. lia. }
  split.
  { rewrite <- Hv. replace (ip ++ fp0) with ((ip ++ fp) ++ repeat 48 z) by (rewrite <- app_assoc, <- Hz; reflexivity).
    rewrite digits_val_app, digits_val_zeros, repeat_length. lia. }
  destruct (c <? 0); destruct fp; reflexivity.
Qed.

(* ---------- NewFromString on such a text ---------- *)
Lemma no_exp_digits s : (forall c, In c s -> is_digit_dot c = true \/ c = 45) ->
  existsb (fun c => (c =? 69) || (c =? 101)) s = false.
Proof.
  intros H. apply Bool.not_true_is_false. intros Hx. apply existsb_exists in Hx. destruct Hx as (c & Hin & Hc).
  destruct (H c Hin) as [Hd| ->]; [unfold is_digit_dot, is_digit in Hd; lia|discriminate].
Qed.

Lemma all_digits_in s c : all_digits s -> In c s -> is_digit c = true.
Proof. unfold all_digits. rewrite forallb_forall. auto. Qed.

Lemma count_dot_digits s : all_digits s -> count_of 46 s = O.
Proof.
  unfold count_of. intros H. induction s as [|c s IH]; [reflexivity|].
  assert (Hc : is_digit c = true) by (apply (all_digits_in (c :: s)); [exact H|left; reflexivity]).
  cbn [filter]. replace (46 =? c) with false by (unfold is_digit in Hc; lia). apply IH.
  unfold all_digits in *. cbn [forallb] in H. apply andb_prop in H. tauto.
Qed.

Lemma count_of_app c a b : count_of c (a ++ b) = (count_of c a + count_of c b)%nat.
Proof. unfold count_of. rewrite filter_app, app_length. reflexivity. Qed.

Lemma split_at_dot a b : count_of 46 a = O -> split_at_char 46 (a ++ 46 :: b) = (a, b).
Proof.
  induction a as [|x a IH]; intros H; cbn [app split_at_char].
  - reflexivity.
  - unfold count_of in H. cbn [filter] in H. destruct (46 =? x) eqn:E; [cbn in H; lia|].
    replace (x =? 46) with false by lia. rewrite IH; [reflexivity|exact H].
Qed.

Lemma sgn_pfx_chars neg c : In c (sgn_pfx neg) -> c = 45.
Proof. destruct neg; cbn; intros H; [destruct H as [H|[]]; congruence|destruct H]. Qed.

Lemma count_dot_sgn neg : count_of 46 (sgn_pfx neg) = O.
Proof. destruct neg; reflexivity. Qed.

Theorem dec_text_roundtrip d : exists d', dec_parse (dec_string d) = Some (Ok d') /\ deqvb d d' = true.
Proof.
  destruct (Z.le_gt_cases 0 (dexp d)) as [He|He].
  - (* integer text *)
    unfold dec_string. destruct (0 <=? dexp d) eqn:E0; [|lia].
    set (v := big_toZ (dcoef d) * 10 ^ dexp d).
    destruct (int_string_shape v) as (ds & Hne & Hd & Hval & ->).
    exists (mkdec v 0). split.
    + unfold dec_parse. rewrite no_exp_digits.
      2:{ intros c Hin. apply in_app_or in Hin. destruct Hin as [Hin|Hin]; [right; eapply sgn_pfx_chars; eauto|].
          left. unfold is_digit_dot. rewrite (all_digits_in _ _ Hd Hin). reflexivity. }
      rewrite count_of_app, count_dot_sgn, (count_dot_digits _ Hd). cbn [Nat.add].
      rewrite (parse_int_signed _ _ Hne Hd), Hval. do 3 f_equal. destruct (v <? 0) eqn:E; lia.
    + unfold deqvb, dleb, scaled. cbn [dexp mkdec dcoef]. rewrite big_toZ_ofZ.
      replace (Z.min (dexp d) 0) with 0 by lia. replace (Z.min 0 (dexp d)) with 0 by lia.
      rewrite !Z.sub_0_r. rewrite Z.pow_0_r. subst v. lia.
  - destruct (dec_string_shape d He) as (ip & fp & z & Hipne & Hip & Hfp & Hlen & Habs & ->).
    set (c := big_toZ (dcoef d)) in *. set (neg := c <? 0).
    set (v := if neg then - digits_val (ip ++ fp) else digits_val (ip ++ fp)).
    exists (mkdec v (- Z.of_nat (length fp))). split.
    + unfold dec_parse. rewrite no_exp_digits.
      2:{ intros x Hin. apply in_app_or in Hin. destruct Hin as [Hin|Hin]; [right; eapply sgn_pfx_chars; eauto|].
          left. unfold is_digit_dot. destruct fp as [|f0 fp'].
          - rewrite (all_digits_in _ _ Hip Hin). reflexivity.
          - apply in_app_or in Hin. destruct Hin as [Hin|[<-|Hin]];
              [rewrite (all_digits_in _ _ Hip Hin)|reflexivity|rewrite (all_digits_in _ _ Hfp Hin)]; reflexivity. }
      destruct fp as [|f0 fp'].
      * rewrite count_of_app, count_dot_sgn, (count_dot_digits _ Hip). cbn [Nat.add].
        rewrite (parse_int_signed _ _ Hipne Hip). subst v. rewrite app_nil_r. reflexivity.
      * rewrite app_assoc. rewrite count_of_app. rewrite (count_of_app 46 (sgn_pfx neg) ip), count_dot_sgn, (count_dot_digits _ Hip).
        change (46 :: f0 :: fp') with ([46] ++ f0 :: fp'). rewrite (count_of_app 46 [46]), (count_dot_digits _ Hfp).
        change (count_of 46 [46]) with 1%nat. cbn [Nat.add]. change ([46] ++ f0 :: fp') with (46 :: f0 :: fp').
        rewrite split_at_dot by (rewrite count_of_app, count_dot_sgn, (count_dot_digits _ Hip); reflexivity).
        rewrite <- app_assoc. rewrite parse_int_signed.
        -- reflexivity.
        -- destruct ip; [congruence|discriminate].
        -- apply all_digits_app; split; assumption.
    + unfold deqvb, dleb, scaled. cbn [dexp mkdec dcoef]. rewrite big_toZ_ofZ. fold c.
      assert (Hmin : Z.min (dexp d) (- Z.of_nat (length fp)) = dexp d) by lia. rewrite Hmin.
      rewrite Z.min_comm, Hmin.
      replace (dexp d - dexp d) with 0 by lia. rewrite Z.pow_0_r.
      replace (- Z.of_nat (length fp) - dexp d) with (Z.of_nat z) by lia.
      assert (Hc : c = v * 10 ^ Z.of_nat z).
      { subst v neg. destruct (c <? 0) eqn:E; lia. }
      lia.
Qed.

(* ---------- character classes of the printed forms ---------- *)
Definition printable (s : bytes) : Prop := forallb (fun c => (32 <=? c) && (c <=? 126)) s = true.
Lemma printable_app a b : printable (a ++ b) <-> printable a /\ printable b.
Proof. unfold printable. rewrite forallb_app. apply andb_true_iff. Qed.
Lemma printable_in s : (forall c, In c s -> 32 <= c <= 126) -> printable s.
Proof. intros H. apply forallb_forall. intros c Hc. specialize (H c Hc). lia. Qed.
Lemma printable_digits s : all_digits s -> printable s.
Proof. intros H. apply printable_in. intros c Hc. pose proof (all_digits_in _ _ H Hc) as Hd. unfold is_digit in Hd. lia. Qed.

(* body of a number text: non-empty, digits and dots, starting with a digit *)
Definition num_body (b : bytes) : Prop :=
  forallb is_digit_dot b = true /\ exists c r, b = c :: r /\ is_digit c = true.

Lemma digits_dd s : all_digits s -> forallb is_digit_dot s = true.
Proof.
  intros H. apply forallb_forall. intros c Hc. unfold is_digit_dot. rewrite (all_digits_in _ _ H Hc). reflexivity.
Qed.
Lemma num_body_digits ds : ds <> [] -> all_digits ds -> num_body ds.
Proof.
  intros Hne Hd. split; [apply digits_dd; exact Hd|]. destruct ds as [|c r]; [congruence|].
  exists c, r. split; [reflexivity|]. apply (all_digits_in (c :: r)); [exact Hd|left; reflexivity].
Qed.

Lemma dec_string_num d : exists neg body, dec_string d = sgn_pfx neg ++ body /\ num_body body.
Proof.
  destruct (Z.le_gt_cases 0 (dexp d)) as [He|He].
  - unfold dec_string. destruct (0 <=? dexp d) eqn:E0; [|lia].
    destruct (int_string_shape (big_toZ (dcoef d) * 10 ^ dexp d)) as (ds & Hne & Hd & _ & ->).
    eexists _, ds. split; [reflexivity|]. apply num_body_digits; assumption.
  - destruct (dec_string_shape d He) as (ip & fp & z & Hipne & Hip & Hfp & _ & _ & ->).
    eexists _, _. split; [reflexivity|]. destruct fp as [|f0 fp']; [apply num_body_digits; assumption|].
    split.
    + rewrite forallb_app. rewrite (digits_dd _ Hip). cbn [forallb andb]. change (is_digit_dot 46) with true.
      cbn [andb]. change (is_digit_dot f0 && forallb is_digit_dot fp') with (forallb is_digit_dot (f0 :: fp')). apply digits_dd; exact Hfp.
    + destruct ip as [|c r]; [congruence|]. exists c, (r ++ 46 :: f0 :: fp'). split; [reflexivity|].
      apply (all_digits_in (c :: r)); [exact Hip|left; reflexivity].
Qed.

Lemma num_body_printable b : num_body b -> printable b.
Proof.
  intros [H _]. apply printable_in. intros c Hc. rewrite forallb_forall in H. specialize (H c Hc).
  unfold is_digit_dot, is_digit in H. lia.
Qed.
Lemma sgn_pfx_printable neg : printable (sgn_pfx neg).
Proof. destruct neg; reflexivity. Qed.
Lemma dec_string_printable d : printable (dec_string d).
Proof.
  destruct (dec_string_num d) as (neg & body & -> & Hb). apply printable_app. split; [apply sgn_pfx_printable|apply num_body_printable; exact Hb].
Qed.

(* ---------- regular-expression pieces ---------- *)
Lemma span_app p a rest : forallb p a = true -> match rest with [] => True | x :: _ => p x = false end ->
  span p (a ++ rest) = (a, rest).
Proof.
  intros Ha Hr. induction a as [|x a IH]; cbn [app span].
  - destruct rest as [|y r]; [reflexivity|]. cbn [span]. rewrite Hr. reflexivity.
  - cbn [forallb] in Ha. apply andb_prop in Ha. destruct Ha as [Hx Ha]. rewrite Hx, (IH Ha). reflexivity.
Qed.

Lemma match_num_text neg body rest : num_body body ->
  match rest with [] => True | x :: _ => is_digit_dot x = false end ->
  match_num true (sgn_pfx neg ++ body ++ rest) = Some (sgn_pfx neg ++ body, rest).
Proof.
  intros [Hdd (c & r & -> & Hc)] Hrest. unfold match_num. destruct neg; cbn [sgn_pfx app].
  - cbn [Z.eqb Pos.eqb andb].
    change (c :: r ++ rest) with ((c :: r) ++ rest). rewrite (span_app _ _ _ Hdd Hrest). reflexivity.
  - replace (c =? 45) with false by (unfold is_digit in Hc; lia). cbn [andb].
    change (c :: r ++ rest) with ((c :: r) ++ rest). rewrite (span_app _ _ _ Hdd Hrest). reflexivity.
Qed.

Lemma find_quote_hit m s r : match_quote_at m s = Some r -> find_quote m s = Some r.
Proof. intros H. destruct s; cbn [find_quote]; rewrite H; reflexivity. Qed.

Lemma quote_text_found b m a :
  find_quote true (quote_text b m a) = Some (dec_string b, dec_string m, dec_string a).
Proof.
  apply find_quote_hit. unfold quote_text, match_quote_at.
  destruct (dec_string_num b) as (n1 & b1 & -> & H1).
  destruct (dec_string_num m) as (n2 & b2 & -> & H2).
  destruct (dec_string_num a) as (n3 & b3 & -> & H3).
  rewrite is_prefix_complete.
  rewrite <- !app_assoc. rewrite (match_num_text n1 b1 _ H1) by reflexivity.
  rewrite is_prefix_complete. rewrite (match_num_text n2 b2 _ H2) by reflexivity.
  rewrite is_prefix_complete. rewrite (match_num_text n3 b3 _ H3) by reflexivity.
  reflexivity.
Qed.

Lemma dec_parse'_string d : exists d', dec_parse' (dec_string d) = Ok d' /\ deqvb d d' = true.
Proof. destruct (dec_text_roundtrip d) as (d' & H & He). exists d'. unfold dec_parse'. rewrite H. auto. Qed.

Theorem quote_text_roundtrip b m a : exists b' m' a',
  quote_parse (quote_text b m a) = Ok (SQuote b' m' a') /\ deqvb b b' = true /\ deqvb m m' = true /\ deqvb a a' = true.
Proof.
  destruct (dec_parse'_string b) as (b' & Hb & Eb). destruct (dec_parse'_string m) as (m' & Hm & Em).
  destruct (dec_parse'_string a) as (a' & Ha & Ea). exists b', m', a'.
  unfold quote_parse. rewrite quote_text_found, Hb, Hm, Ha. cbn [bind]. auto.
Qed.

(* ---------- the JSON envelope ---------- *)
Lemma json_unesc_esc s rest : printable s -> json_unesc (json_esc s ++ 34 :: rest) = Some (s, rest).
Proof.
  induction s as [|c s IH]; intros Hp.
  - cbn. reflexivity.
  - unfold printable in Hp. cbn [forallb] in Hp. apply andb_prop in Hp. destruct Hp as [Hc Hp].
    cbn [json_esc]. destruct ((c =? 34) || (c =? 92)) eqn:E.
    + cbn [app json_unesc Z.eqb Pos.eqb]. rewrite E. rewrite (IH Hp). reflexivity.
    + cbn [app json_unesc]. replace (c =? 34) with false by lia. replace (c =? 92) with false by lia.
      replace ((c <? 32) || (126 <? c)) with false by lia. rewrite (IH Hp). reflexivity.
Qed.

Lemma json_esc_printable s : printable s -> printable (json_esc s).
Proof.
  unfold printable. induction s as [|c s IH]; intros Hp; [reflexivity|].
  cbn [forallb] in Hp. apply andb_prop in Hp. destruct Hp as [Hc Hp]. cbn [json_esc].
  destruct ((c =? 34) || (c =? 92)); cbn [forallb]; rewrite (IH Hp), Hc; reflexivity.
Qed.

Lemma json_tt_parse_tt t v : 0 <= t <= 2 -> printable v -> json_tt_parse (json_tt t v) = Some (Ok (t, v)).
Proof.
  intros Ht Hp. unfold json_tt, json_tt_parse. rewrite is_prefix_complete.
  unfold int_string. replace (t <? 0) with false by lia.
  destruct (nat_string_spec t ltac:(lia)) as (Hne & Hd & Hval).
  rewrite (span_app is_digit (nat_string t) _ Hd) by reflexivity.
  destruct (nat_string t) as [|c0 r0] eqn:En; [congruence|]. rewrite <- En.
  rewrite is_prefix_complete. change s_j3 with (34 :: [125]). rewrite (json_unesc_esc v [125] Hp).
  change (bytes_eqb [125] [125]) with true. cbv iota. rewrite <- En in Hval. rewrite Hval.
  replace (t <? 2 ^ 31) with true; [reflexivity|]. symmetry. apply Z.ltb_lt.
  assert (2 ^ 2 <= 2 ^ 31) by (apply Z.pow_le_mono_r; lia). change (2 ^ 2) with 4 in H. lia.
Qed.

Lemma json_tt_printable t v : 0 <= t -> printable v -> printable (json_tt t v).
Proof.
  intros Ht Hp. unfold json_tt. repeat (apply printable_app; split); try reflexivity.
  - unfold int_string. replace (t <? 0) with false by lia. apply printable_digits. apply (nat_string_spec t); lia.
  - apply json_esc_printable; exact Hp.
Qed.

(* ---------- typed text round trip ---------- *)
Lemma sv_type_range v : 0 <= sv_type v <= 2.
Proof. destruct v; cbn; lia. Qed.

Lemma sval_text_printable v : printable (sval_text v).
Proof.
  induction v as [d|b m a|t i IH]; cbn [sval_text].
  - apply dec_string_printable.
  - unfold quote_text. repeat (apply printable_app; split); try reflexivity; apply dec_string_printable.
  - unfold tsv_text. apply printable_app; split; [reflexivity|]. apply printable_app; split.
    + destruct (Z.le_gt_cases 0 t).
      * apply printable_digits. apply (nat_string_spec t); lia.
      * (* unreachable for uint64 timestamps; the digits of any integer are still printable *)
        unfold nat_string, dec_digits. replace (Z.log2 t) with 0 by (symmetry; apply Z.log2_nonpos; lia).
        cbn [Z.to_nat dec_digits_fuel]. destruct (t / 10 =? 0); apply printable_in; intros c [<-|[]]; lia.
    + apply printable_app; split; [reflexivity|]. apply printable_app; split; [|reflexivity].
      apply json_tt_printable; [apply sv_type_range|exact IH].
Qed.

Lemma printable_no_nl s : printable s -> existsb (Z.eqb 10) s = false.
Proof.
  intros Hp. apply Bool.not_true_is_false. intros Hx. apply existsb_exists in Hx. destruct Hx as (c & Hin & Hc).
  unfold printable in Hp. rewrite forallb_forall in Hp. specialize (Hp c Hin). lia.
Qed.

Lemma match_tsv_text t ty txt : 0 <= t -> 0 <= ty -> printable txt ->
  match_tsv (tsv_text t ty txt) = Some (nat_string t, json_tt ty txt).
Proof.
  intros Ht Hty Hp. unfold tsv_text, match_tsv. rewrite is_prefix_complete.
  destruct (nat_string_spec t Ht) as (Hne & Hd & Hval).
  rewrite (span_app is_digit (nat_string t) _ Hd) by reflexivity.
  destruct (nat_string t) as [|c0 r0] eqn:En; [congruence|]. rewrite <- En.
  rewrite is_prefix_complete.
  assert (Hpj : printable (json_tt ty txt ++ [125])).
  { apply printable_app. split; [apply json_tt_printable; assumption|reflexivity]. }
  rewrite (printable_no_nl _ Hpj). rewrite rev_app_distr. cbn [rev app Z.eqb Pos.eqb].
  destruct (rev (json_tt ty txt)) as [|x xs] eqn:Er.
  - apply (f_equal (@rev Z)) in Er. rewrite rev_involutive in Er. unfold json_tt in Er. discriminate.
  - rewrite <- Er, rev_involutive. reflexivity.
Qed.

Fixpoint sval_depth (v : sval) : nat := match v with STsv _ i => S (sval_depth i) | _ => O end.

Theorem typed_roundtrip v : sval_ts_ok v = true -> forall fuel, (sval_depth v < fuel)%nat ->
  exists v', typed_parse fuel (sv_type v) (sval_text v) = Some (Ok v') /\ sval_equiv v v' = true.
Proof.
  induction v as [d|b m a|t i IH]; intros Hts fuel Hf; (destruct fuel as [|k]; [lia|]); cbn [typed_parse sv_type sval_text].
  - destruct (dec_text_roundtrip d) as (d' & Hd & He). exists (SDec d'). cbn [Z.eqb]. rewrite Hd. cbn [bind sval_equiv]. auto.
  - destruct (quote_text_roundtrip b m a) as (b' & m' & a' & Hq & E1 & E2 & E3). exists (SQuote b' m' a').
    cbn [Z.eqb Pos.eqb]. rewrite Hq. cbn [sval_equiv]. rewrite E1, E2, E3. auto.
  - cbn [sval_ts_ok] in Hts. apply andb_prop in Hts. destruct Hts as [Hts Hi]. apply andb_prop in Hts. destruct Hts as [Ht0 Ht1].
    cbn [sval_depth] in Hf.
    destruct (IH Hi k ltac:(lia)) as (i' & Hpi & Hei). exists (STsv t i').
    cbn [Z.eqb Pos.eqb].
    rewrite (match_tsv_text t (sv_type i) (sval_text i) ltac:(lia) (proj1 (sv_type_range i)) (sval_text_printable i)).
    destruct (nat_string_spec t ltac:(lia)) as (_ & _ & ->).
    replace (2 ^ 64 <=? t) with false by lia.
    rewrite (json_tt_parse_tt _ _ (sv_type_range i) (sval_text_printable i)).
    rewrite Hpi. cbn [bind sval_equiv]. rewrite Z.eqb_refl, Hei. auto.
Qed.

Lemma depth_lt_text v : (sval_depth v < length (sval_text v))%nat.
Proof.
  induction v as [d|b m a|t i IH]; cbn [sval_depth sval_text].
  - destruct (dec_string_num d) as (neg & body & -> & (_ & c & r & -> & _)). rewrite app_length. cbn [length]. lia.
  - unfold quote_text. rewrite app_length. cbn. lia.
  - unfold tsv_text, json_tt. rewrite !app_length. cbn [length s_t1 s_t2 s_j1 s_j2 s_j3 str_bytes].
    assert (length (sval_text i) <= length (json_esc (sval_text i)))%nat.
    { generalize (sval_text i). intros l. induction l as [|c l IHl]; [cbn; lia|]. cbn [json_esc]. destruct ((c =? 34) || (c =? 92)); cbn [length]; lia. }
    lia.
Qed.

(* ---------- hex ---------- *)
Lemma hex_val_digit n : 0 <= n < 16 -> hex_val (hex_digit n) = Some n.
Proof.
  intros Hn. unfold hex_digit, hex_val, is_digit. destruct (n <? 10) eqn:E.
  - replace ((48 <=? 48 + n) && (48 + n <=? 57)) with true by lia. f_equal. lia.
  - replace ((48 <=? 87 + n) && (87 + n <=? 57)) with false by lia.
    replace ((97 <=? 87 + n) && (87 + n <=? 102)) with true by lia. f_equal. lia.
Qed.

Lemma hex_roundtrip bs : Forall (fun b => 0 <= b < 256) bs -> hex_decode (hex_encode bs) = Some bs.
Proof.
  induction 1 as [|b bs Hb _ IH]; [reflexivity|]. cbn [hex_encode hex_decode].
  rewrite !hex_val_digit, IH by lia. do 2 f_equal. lia.
Qed.
Lemma hex_encode_length bs : length (hex_encode bs) = (2 * length bs)%nat.
Proof. induction bs; cbn [hex_encode length]; lia. Qed.

(* ---------- JSON report codec (struct level) ---------- *)
Definition all_present (vs : list (option sval)) : Prop := Forall (fun v => exists x, v = Some x /\ sval_ts_ok x = true) vs.

Lemma untyped_typed vs : all_present vs ->
  exists tv vs', typed_all vs = Ok tv /\ untyped_all tv = Some (Ok vs') /\ list_all2 oval_equiv vs vs' = true.
Proof.
  induction 1 as [|v vs (x & -> & Hx) _ (tv & vs' & Ht & Hu & He)].
  - exists [], []. repeat split.
  - destruct (typed_roundtrip x Hx (S (length (sval_text x))) ltac:(pose proof (depth_lt_text x); lia)) as (x' & Hp & Hex).
    exists ((sv_type x, sval_text x) :: tv), (Some x' :: vs'). cbn [typed_all]. rewrite Ht. cbn [bind]. split; [reflexivity|].
    cbn [untyped_all]. rewrite Hp, Hu. cbn [bind]. split; [reflexivity|]. cbn [list_all2 oval_equiv]. rewrite Hex, He. reflexivity.
Qed.

Theorem json_report_roundtrip r :
  length (f_digest r) = 32%nat -> Forall (fun b => 0 <= b < 256) (f_digest r) -> f_seq r <> 0 -> all_present (f_values r) ->
  exists j r', json_encode r = Ok j /\ json_decode j = Some (Ok r') /\ freport_equiv r r' = true.
Proof.
  intros Hl Hb Hseq Hv. destruct (untyped_typed _ Hv) as (tv & vs' & Ht & Hu & He).
  unfold json_encode. rewrite Ht. cbn [bind]. eexists. eexists. split; [reflexivity|].
  unfold json_decode. cbn [j_seq j_digest j_values j_chan j_va j_ts j_specimen].
  replace (f_seq r =? 0) with false by lia. rewrite (hex_roundtrip _ Hb), Hl. cbn [Nat.eqb negb].
  rewrite Hu. cbn [bind]. split; [reflexivity|].
  unfold freport_equiv. cbn [f_digest f_seq f_chan f_va f_ts f_specimen f_values].
  rewrite bytes_eqb_refl, !Z.eqb_refl, Bool.eqb_reflx, He. reflexivity.
Qed.

Theorem pack_unpack_roundtrip t : length (pt_digest t) = 32%nat -> Forall (fun b => 0 <= b < 256) (pt_digest t) ->
  unpack_model (pack_model t) = Ok t.
Proof.
  intros Hl Hb. unfold unpack_model, pack_model. cbn [jp_digest jp_seq jp_report jp_sigs].
  rewrite (hex_roundtrip _ Hb), Hl. cbn [Nat.eqb]. destruct t; reflexivity.
Qed.

(* D3: without the minus sign in the expression a quote with a negative component does not parse back *)
Theorem quote_needs_minus_refuted :
  find_quote false (quote_text (mkdec (-1) 0) (mkdec 2 0) (mkdec 3 0)) = None.
Proof. vm_compute. reflexivity. Qed.
