(* OutcomeCodecProofs.v — C10: canonical encoding, decode never panics, v0 range errors. *)
From stdpp Require Import gmap.
From DS Require Import Base Decimal StreamValue Wire Sort Aggregators RepoConstants Outcome OutcomeCodec.
From DS Require Import SortProofs OutcomeOrder.
From Coq Require Import Lia.
Open Scope Z_scope.

(* ---------- canonical: the flattened slices are sorted by distinct keys, so the order in which the Go maps
   were iterated (or built) cannot matter ---------- *)
Definition key_less {V} (a b : Z * V) : bool := fst a <? fst b.

Lemma key_less_le {V} (a b : Z * V) : key_less a b = true -> fst a <= fst b.
Proof. unfold key_less. lia. Qed.
Lemma key_nless_le {V} (a b : Z * V) : key_less a b = false -> fst b <= fst a.
Proof. unfold key_less. lia. Qed.
Lemma fst_le_trans {V} (a b c : Z * V) : fst a <= fst b -> fst b <= fst c -> fst a <= fst c.
Proof. lia. Qed.

Lemma sorted_by_fst_unique {V} (l1 l2 : list (Z * V)) :
  Permutation l1 l2 -> List.NoDup (map fst l1) -> isort key_less l1 = isort key_less l2.
Proof.
  intros HP Hnd.
  (* compare through the keys: both results are permutations of l1 sorted strictly by distinct keys *)
  assert (S1 := isort_asc (fun a b : Z * V => fst a <= fst b) key_less fst_le_trans key_less_le key_nless_le l1).
  assert (S2 := isort_asc (fun a b : Z * V => fst a <= fst b) key_less fst_le_trans key_less_le key_nless_le l2).
  assert (P1 := isort_perm (@key_less V) l1). assert (P2 := isort_perm (@key_less V) l2).
  assert (P : Permutation (isort key_less l1) (isort key_less l2)).
  { etransitivity; [exact P1|]. etransitivity; [exact HP|]. symmetry. exact P2. }
  assert (N1 : List.NoDup (map fst (isort key_less l1))).
  { apply (Permutation_NoDup (Permutation_map fst (Permutation_sym P1))). exact Hnd. }
  revert S1 S2 P N1. unfold asc. generalize (isort key_less l1) (isort key_less l2). clear.
  induction l as [|a l IH]; intros l' S1 S2 P N1.
  - apply Permutation_nil in P. subst. reflexivity.
  - destruct l' as [|b l']; [apply Permutation_sym, Permutation_nil in P; discriminate|].
    inversion S1 as [|? ? S1' A1]; subst. inversion S2 as [|? ? S2' A2]; subst.
    rewrite List.Forall_forall in A1, A2.
    inversion N1 as [|? ? Na N1']; subst.
    assert (Hab : a = b).
    { assert (Hina : In a (b :: l')) by (apply (Permutation_in _ P); left; reflexivity).
      assert (Hinb : In b (a :: l)) by (apply (Permutation_in _ (Permutation_sym P)); left; reflexivity).
      destruct Hina as [-> | Hina]; [reflexivity|]. destruct Hinb as [<- | Hinb]; [reflexivity|].
      assert (fst b <= fst a) by (apply A2; exact Hina). assert (fst a <= fst b) by (apply A1; exact Hinb).
      exfalso. apply Na. assert (fst a = fst b) by lia. rewrite H1. apply in_map. exact Hinb. }
    subst b. f_equal. apply IH; try assumption. apply (Permutation_cons_inv P).
Qed.

Theorem sorted_entries_order_independent {V} (m : gmap Z V) (order : list (Z * V)) :
  Permutation order (map_to_list m) -> isort key_less order = sorted_entries m.
Proof.
  intros HP. unfold sorted_entries. apply sorted_by_fst_unique; [exact HP|].
  apply (Permutation_NoDup (Permutation_map fst (Permutation_sym HP))).
  apply NoDup_ListNoDup. apply NoDup_fst_map_to_list.
Qed.

(* ---------- decoding is total: an outcome or an error, never a panic ---------- *)
Lemma bind_no_panic {A B} (r : res A) (f : A -> res B) :
  is_panic r = false -> (forall a, is_panic (f a) = false) -> is_panic (bind r f) = false.
Proof. destruct r; simpl; auto. Qed.

Lemma sequence_res_no_panic {A} (l : list (res A)) :
  (forall r, In r l -> is_panic r = false) -> is_panic (sequence_res l) = false.
Proof.
  induction l as [|r l IH]; intros H; [reflexivity|]. simpl.
  assert (Hr := H r (or_introl eq_refl)). assert (Hl := IH (fun x Hx => H x (or_intror Hx))).
  destruct r; try discriminate; destruct (sequence_res l); try discriminate; reflexivity.
Qed.

Lemma dec_unmarshal_no_panic bs : is_panic (dec_unmarshal bs) = false.
Proof.
  unfold dec_unmarshal. destruct bs as [|a [|b [|c [|d rest]]]]; try reflexivity.
  unfold gob_decode. destruct rest as [|x r]; [reflexivity|]. destruct (x / 2 =? 1); reflexivity.
Qed.

Lemma sval_unmarshal_fuel_no_panic fuel : forall enc, is_panic (sval_unmarshal_fuel fuel enc) = false.
Proof.
  induction fuel as [|fuel IH]; intros enc; [reflexivity|]. simpl.
  destruct enc as [[t data]|]; [|reflexivity].
  destruct (t =? 0). { apply bind_no_panic; [apply dec_unmarshal_no_panic|reflexivity]. }
  destruct (t =? 1).
  { destruct (parse_fields data); [|reflexivity].
    apply bind_no_panic; [apply dec_unmarshal_no_panic|]. intros ?.
    apply bind_no_panic; [apply dec_unmarshal_no_panic|]. intros ?.
    apply bind_no_panic; [apply dec_unmarshal_no_panic|]. reflexivity. }
  destruct (t =? 2); [|reflexivity].
  destruct (parse_fields data) as [fs|]; [|reflexivity].
  destruct (merged_msg 2 fs) as [body|]; [|reflexivity].
  destruct (parse_lsv body) as [[t1 v1]|]; [|reflexivity].
  match goal with |- is_panic (match ?x with Some e => _ | None => _ end) = false => destruct x end; [reflexivity|].
  apply bind_no_panic; [apply IH|reflexivity].
Qed.

Theorem decode_outcome_no_panic pver bs : is_panic (decode_outcome pver bs) = false.
Proof.
  unfold decode_outcome. destruct (parse_fields bs) as [fs|]; [|reflexivity].
  destruct (negb (ascii_ok (last_bytes 1 fs))); [reflexivity|].
  apply bind_no_panic.
  { apply sequence_res_no_panic. intros r Hr. apply in_map_iff in Hr. destruct Hr as (b & <- & _).
    unfold dec_id_def. destruct (parse_fields b) as [fb|]; [|reflexivity]. destruct (merged_msg 2 fb) as [body|]; [|reflexivity].
    apply bind_no_panic; [|reflexivity]. unfold dec_def. destruct (parse_fields body); [|reflexivity].
    apply bind_no_panic; [|reflexivity]. apply sequence_res_no_panic. intros r Hr. apply in_map_iff in Hr.
    destruct Hr as (b' & <- & _). unfold dec_stream. destruct (parse_fields b'); reflexivity. }
  intros defs. apply bind_no_panic.
  { apply sequence_res_no_panic. intros r Hr. apply in_map_iff in Hr. destruct Hr as (b & <- & _).
    unfold dec_agg. destruct (parse_fields b) as [fb|]; [|reflexivity]. destruct (merged_msg 2 fb) as [body|]; [|reflexivity].
    destruct (parse_lsv body) as [[t data]|]; [|reflexivity].
    apply bind_no_panic; [apply sval_unmarshal_fuel_no_panic|reflexivity]. }
  intros aggs. apply bind_no_panic.
  { apply sequence_res_no_panic. intros r Hr. apply in_map_iff in Hr. destruct Hr as (b & <- & _).
    unfold dec_id_val. destruct (parse_fields b); reflexivity. }
  intros vas. destruct ((pver =? 0) && (2 ^ 63 <=? last_varint 2 fs)); reflexivity.
Qed.

(* ---------- version 0 never stores a wrapped value: out-of-range fields are errors ---------- *)
Theorem encode_v0_ok_in_range o bs :
  encode_outcome 0 o = Ok bs ->
  o_ts o <= max_int64 /\ (forall c v, o_va o !! c = Some v -> v / ns_per_s <= max_uint32).
Proof.
  unfold encode_outcome. destruct (negb (ascii_ok (stage_bytes (o_stage o)))); [discriminate|].
  simpl (0 =? 0). cbv iota.
  destruct (bool_decide (map_Forall (fun _ v => v / ns_per_s <= max_uint32) (o_va o))) eqn:E; [|discriminate].
  apply bool_decide_eq_true in E. destruct (max_int64 <? o_ts o) eqn:Et; [discriminate|].
  intros _. split; [lia|]. intros c v Hc. apply (E c v Hc).
Qed.

Theorem encode_v1_total o :
  ascii_ok (stage_bytes (o_stage o)) = true -> exists bs, encode_outcome 1 o = Ok bs.
Proof. intros Ha. unfold encode_outcome. rewrite Ha. simpl. eauto. Qed.
