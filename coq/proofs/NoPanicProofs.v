(* NoPanicProofs.v — C11 on the models: every modelled entry point returns a value or an error, never Panic,
   on all inputs (Outcome: on observations that passed validation). *)
From stdpp Require Import gmap.
From DS Require Import Base BaseProofs Sort SortProofs Decimal StreamValue Wire Aggregators Outcome OutcomeCodec ObservationCodec
  OutcomeCodecProofs.
From Coq Require Import ZifyBool.

Lemma median_idx_lt {A} (l : list A) : l <> [] -> (median_idx l < length l)%nat.
Proof.
  intros H. unfold median_idx. destruct l as [|x l]; [congruence|]. cbn [length].
  apply Nat.div_lt; lia.
Qed.

Lemma nth_median_some {A} (less : A -> A -> bool) (l l' : list A) : l <> [] -> length l' = length l ->
  exists x, nth_error (isort less l') (median_idx l) = Some x.
Proof.
  intros Hne Hl. destruct (nth_error (isort less l') (median_idx l)) as [x|] eqn:E; [eauto|].
  apply nth_error_None in E. rewrite isort_length, Hl in E. pose proof (median_idx_lt l Hne). lia.
Qed.

Lemma median_ts_no_panic ts : ts <> [] -> is_panic (median_ts ts) = false.
Proof.
  intros H. unfold median_ts. destruct (nth_median_some Z.ltb ts ts H eq_refl) as [x ->]. reflexivity.
Qed.

Lemma median_plain_no_panic vs f : is_panic (median_plain vs f) = false.
Proof.
  unfold median_plain. destruct (length (median_observations vs) <=? f)%nat eqn:E; [reflexivity|].
  apply Nat.leb_gt in E.
  assert (Hne : median_observations vs <> []) by (intros H; rewrite H in E; cbn in E; lia).
  destruct (nth_median_some dec_less _ _ Hne eq_refl) as [x ->]. reflexivity.
Qed.

Lemma median_plain_ok_nonempty vs f d : median_plain vs f = Ok d -> vs <> [].
Proof.
  unfold median_plain. destruct vs; [|discriminate]. cbn. destruct (0 <=? f)%nat eqn:E; [discriminate|].
  apply Nat.leb_gt in E. lia.
Qed.

Lemma median_agg_no_panic vs f : is_panic (median_agg vs f) = false.
Proof.
  unfold median_agg. destruct (most_common_type vs) as [t tv].
  assert (H01 : is_panic (d <- median_plain vs f ;; Ok (SDec d)) = false).
  { apply bind_no_panic; [apply median_plain_no_panic|reflexivity]. }
  assert (H2 : forall svalues timestamps, length timestamps = length svalues ->
     is_panic (d <- median_plain svalues f ;;
               match nth_error (isort Z.ltb timestamps) (median_idx timestamps) with
               | Some t0 => Ok (STsv t0 (SDec d)) | None => Panic 3 end) = false).
  { intros sv tsl Hl. destruct (median_plain sv f) as [d| |] eqn:E; try reflexivity.
    - cbn [bind]. assert (tsl <> []).
      { pose proof (median_plain_ok_nonempty _ _ _ E). destruct sv; [congruence|]. destruct tsl; [discriminate|discriminate]. }
      destruct (nth_median_some Z.ltb tsl tsl H eq_refl) as [x ->]. reflexivity.
    - pose proof (median_plain_no_panic sv f) as Hn. rewrite E in Hn. discriminate. }
  repeat match goal with
  | |- is_panic (match ?x with _ => _ end) = false => destruct x
  end; try reflexivity; try exact H01; try (apply H2; rewrite !map_length; reflexivity).
Qed.

Lemma quote_agg_no_panic vs f : is_panic (quote_agg vs f) = false.
Proof.
  unfold quote_agg. set (obs := quote_observations vs).
  destruct (length obs <=? f)%nat eqn:E; [reflexivity|]. apply Nat.leb_gt in E.
  assert (Hne : obs <> []) by (intros H; rewrite H in E; cbn in E; lia).
  set (s1 := isort _ obs). set (s2 := isort _ s1). set (s3 := isort _ s2).
  assert (L1 : length s1 = length obs) by apply isort_length.
  assert (L2 : length s2 = length obs) by (unfold s2; rewrite isort_length; exact L1).
  assert (L3 : length s3 = length obs) by (unfold s3; rewrite isort_length; exact L2).
  pose proof (median_idx_lt obs Hne) as Hm.
  destruct (nth_error s1 (median_idx obs)) eqn:E1; [|apply nth_error_None in E1; lia].
  destruct (nth_error s2 (median_idx obs)) eqn:E2; [|apply nth_error_None in E2; lia].
  destruct (nth_error s3 (median_idx obs)) eqn:E3; [|apply nth_error_None in E3; lia].
  reflexivity.
Qed.

Lemma sval_unmarshal_no_panic t data : is_panic (sval_unmarshal t data) = false.
Proof. apply sval_unmarshal_fuel_no_panic. Qed.

Lemma mode_agg_no_panic vs f : is_panic (mode_agg vs f) = false.
Proof.
  unfold mode_agg. destruct (most_common_type vs) as [typ bucket].
  match goal with |- context [fold_left ?g ?k ?i] => destruct (fold_left g k i) as [ms mc] end.
  destruct (mc <? f + 1)%nat; [reflexivity|]. destruct ms; [reflexivity|].
  apply bind_no_panic; [apply sval_unmarshal_no_panic|reflexivity].
Qed.

Section WithHash.
  Context (h : Z -> chandef -> list Z).

  Lemma agg_value_no_panic f prev obs p : is_panic (agg_value f prev obs p) = false.
  Proof.
    unfold agg_value. destruct p as [sid agg].
    unfold agg_fun. destruct (agg =? 1).
    { pose proof (median_agg_no_panic (stream_obs obs sid) f) as Hn.
      destruct (median_agg (stream_obs obs sid) f) as [[d|a b c|t i]| |]; try reflexivity; try discriminate.
      destruct (o_aggs prev !! (sid, agg)) as [[?|? ? ?|pt ?]|]; try reflexivity. destruct (t <=? pt); reflexivity. }
    destruct (agg =? 2).
    { pose proof (mode_agg_no_panic (stream_obs obs sid) f) as Hn.
      destruct (mode_agg (stream_obs obs sid) f) as [[[d|a b c|t i]|]| |]; try reflexivity; try discriminate.
      destruct (o_aggs prev !! (sid, agg)) as [[?|? ? ?|pt ?]|]; try reflexivity. destruct (t <=? pt); reflexivity. }
    destruct (agg =? 3); [|reflexivity].
    pose proof (quote_agg_no_panic (stream_obs obs sid) f) as Hn.
    destruct (quote_agg (stream_obs obs sid) f) as [[d|a b c|t i]| |]; try reflexivity; try discriminate.
    destruct (o_aggs prev !! (sid, agg)) as [[?|? ? ?|pt ?]|]; try reflexivity. destruct (t <=? pt); reflexivity.
  Qed.

  Lemma collect_aggs_no_panic f prev obs ps : is_panic (collect_aggs f prev obs ps) = false.
  Proof.
    induction ps as [|p ps IH]; [reflexivity|]. cbn [collect_aggs].
    pose proof (agg_value_no_panic f prev obs p) as Hp.
    destruct (agg_value f prev obs p) as [[v|]| |]; try discriminate;
      destruct (collect_aggs f prev obs ps); try discriminate; reflexivity.
  Qed.

  (* what ValidateObservation guarantees about attestations: none when the instance has no predecessor *)
  Definition att_validated (has_pred : bool) (o : option observation) : Prop :=
    match o with Some ob => has_pred = true \/ ob_att ob = NoAttest | None => True end.

  Lemma accept_step_no_panic has_pred st o : att_validated has_pred o ->
    is_panic st = false -> is_panic (accept_step has_pred st o) = false.
  Proof.
    intros Hv Hs. unfold accept_step. destruct st as [[rr acc]| |]; try assumption.
    destruct o as [ob|]; [|reflexivity]. cbn in Hv.
    destruct (ob_att ob) eqn:Ea; destruct rr; try reflexivity; destruct Hv as [->|Hv]; try reflexivity; congruence.
  Qed.

  Lemma accept_observations_no_panic has_pred aos : Forall (att_validated has_pred) aos ->
    is_panic (accept_observations has_pred aos) = false.
  Proof.
    unfold accept_observations. intros H.
    assert (Hs : forall st, is_panic st = false -> is_panic (fold_left (accept_step has_pred) aos st) = false).
    { induction H as [|o aos Ho _ IH]; intros st Hst; [exact Hst|]. cbn [fold_left]. apply IH.
      apply accept_step_no_panic; assumption. }
    apply Hs. reflexivity.
  Qed.

  Lemma codec_commit_no_panic pver o : is_panic (codec_commit pver o) = false.
  Proof.
    unfold codec_commit. destruct (pver =? 0); [|reflexivity]. destruct (max_int64 <? o_ts o); [reflexivity|].
    destruct (bool_decide _); reflexivity.
  Qed.

  (* Plugin.Outcome: no panic on observations that passed validation *)
  Theorem outcome_step_no_panic cf seq prev aos : Forall (att_validated (c_has_pred cf)) aos ->
    is_panic (outcome_step h cf seq prev aos) = false.
  Proof.
    intros Hv. unfold outcome_step.
    destruct (length aos <? 2 * c_f cf + 1)%nat; [reflexivity|].
    destruct (seq <=? 1); [apply codec_commit_no_panic|].
    pose proof (accept_observations_no_panic _ _ Hv) as Ha.
    destruct (accept_observations (c_has_pred cf) aos) as [[rr obs]| |]; try reflexivity; try discriminate.
    destruct obs as [|ob obs]; [reflexivity|].
    pose proof (median_ts_no_panic (map ob_ts (ob :: obs)) ltac:(discriminate)) as Hm.
    destruct (median_ts (map ob_ts (ob :: obs))) as [ts| |]; try reflexivity; try discriminate.
    cbv zeta.
    match goal with |- context [collect_aggs ?f ?p ?o ?ps] =>
      pose proof (collect_aggs_no_panic f p o ps) as Hc; destruct (collect_aggs f p o ps) end;
      try reflexivity; try discriminate.
    apply codec_commit_no_panic.
  Qed.

  (* and the guard is needed: an attestation on an instance without predecessor reaches the nil dereference *)
  Theorem outcome_panics_without_validation_refuted :
    exists cf aos, is_panic (outcome_step h cf 2 (initial_outcome cf) aos) = true.
  Proof.
    exists {| c_f := 0; c_pver := 1; c_interval := 1; c_has_pred := false |}.
    exists [Some {| ob_att := BadAttest; ob_retire := false; ob_ts := 5; ob_removes := []; ob_updates := ∅; ob_values := ∅ |}].
    reflexivity.
  Qed.
End WithHash.

(* ---------- observation decoding ---------- *)
Lemma dec_def_no_panic body : is_panic (dec_def body) = false.
Proof.
  unfold dec_def. destruct (parse_fields body); [|reflexivity].
  apply bind_no_panic; [|reflexivity]. apply sequence_res_no_panic. intros r Hr. apply in_map_iff in Hr.
  destruct Hr as (b & <- & _). unfold dec_stream. destruct (parse_fields b); reflexivity.
Qed.

Theorem decode_observation_no_panic bs : is_panic (decode_observation bs) = false.
Proof.
  unfold decode_observation. destruct (parse_fields bs) as [fs|]; [|reflexivity].
  destruct (repeated_u32 4 fs); [|reflexivity]. destruct (has_dup l); [reflexivity|].
  match goal with |- context [sequence_res (map ?g (all_bytes 5 fs))] =>
    assert (H1 : is_panic (sequence_res (map g (all_bytes 5 fs))) = false) end.
  { apply sequence_res_no_panic. intros r Hr. apply in_map_iff in Hr. destruct Hr as (b & <- & _).
    destruct (map_entry b) as [[k body]|]; [|reflexivity]. apply bind_no_panic; [apply dec_def_no_panic|reflexivity]. }
  match goal with |- context [sequence_res (map ?g (all_bytes 6 fs))] =>
    assert (H2 : is_panic (sequence_res (map g (all_bytes 6 fs))) = false) end.
  { apply sequence_res_no_panic. intros r Hr. apply in_map_iff in Hr. destruct Hr as (b & <- & _).
    destruct (map_entry b) as [[k body]|]; [|reflexivity]. destruct (parse_lsv body) as [[t data]|]; [|reflexivity].
    apply bind_no_panic; [apply sval_unmarshal_no_panic|reflexivity]. }
  match goal with |- is_panic (match ?x with _ => _ end) = false => destruct x end; try reflexivity; try discriminate.
  match goal with |- is_panic (match ?x with _ => _ end) = false => destruct x end; try reflexivity; try discriminate.
  destruct (_ || _); reflexivity.
Qed.

(* ---------- Mercury v2-v4 ---------- *)
From DS Require Import MercuryAgg MercuryReport.

Lemma nth_median_no_panic l : l <> [] -> is_panic (nth_median l) = false.
Proof. intros H. unfold nth_median. destruct (nth_median_some Z.ltb l l H eq_refl) as [x ->]. reflexivity. Qed.

Lemma consensus_price_no_panic xs f : is_panic (consensus_price xs f) = false.
Proof.
  unfold consensus_price. destruct (length (valid_vals xs) <? f + 1)%nat eqn:E; [reflexivity|].
  apply Nat.ltb_ge in E. apply nth_median_no_panic. intros H. rewrite H in E. cbn in E. lia.
Qed.
Lemma consensus_fee_no_panic xs f : is_panic (consensus_fee xs f) = false.
Proof.
  unfold consensus_fee. match goal with |- context [length ?v] => destruct (length v <? f + 1)%nat eqn:E; [reflexivity|] end.
  apply Nat.ltb_ge in E. apply nth_median_no_panic. intros H. rewrite H in E. cbn in E. lia.
Qed.
Lemma max_finalized_ts_no_panic xs f : is_panic (max_finalized_ts xs f) = false.
Proof.
  unfold max_finalized_ts, max_finalized_ts_order. destruct (_ <? _)%nat; [reflexivity|].
  match goal with |- context [if ?c then _ else _] => destruct c end; reflexivity.
Qed.
Lemma market_status_no_panic xs f : is_panic (market_status xs f) = false.
Proof.
  unfold market_status, market_status_order.
  match goal with |- context [fold_left ?g ?k ?i] => destruct (fold_left g k i) as [s c] end.
  destruct (c <? f + 1)%nat; reflexivity.
Qed.

(* Report of v2, v3, v4: whatever the observations and the previous report, no panic unless the external codec panics *)
Theorem report234_no_panic ver c prev replen obs : (forall rf, is_panic (replen rf) = false) ->
  is_panic (report234 ver c prev replen obs) = false.
Proof.
  intros Hcodec. unfold report234.
  destruct (omap (parse234 ver) obs) as [|p ps] eqn:Ep; [reflexivity|].
  destruct (length (p :: ps) <? mc_f c + 1)%nat; [reflexivity|].
  pose proof (nth_median_no_panic (map p_ts (p :: ps)) ltac:(discriminate)) as Ht. unfold consensus_timestamp.
  destruct (nth_median (map p_ts (p :: ps))) as [ts| |]; try reflexivity; try discriminate.
  match goal with |- context [let '(vfrom, e1) := ?X in _] => destruct X as [vfrom e1] end.
  cbv zeta.
  match goal with |- is_panic (if ?c then _ else _) = false => destruct c end; [reflexivity|].
  match goal with |- is_panic (if ?c then _ else _) = false => destruct c end; [reflexivity|].
  match goal with |- is_panic (if ?c then _ else _) = false => destruct c end; [|reflexivity].
  match goal with |- context [replen ?rf] => pose proof (Hcodec rf) as Hr; destruct (replen rf) as [n| |] end;
    try reflexivity; try discriminate.
  destruct (mc_maxlen c <? n)%nat; [reflexivity|]. destruct (n =? 0)%nat; reflexivity.
Qed.

(* undecodable / invalid observations are ignored: dropping them before the call changes nothing *)
Theorem report234_ignores_invalid ver c prev replen obs :
  report234 ver c prev replen obs =
  report234 ver c prev replen (filter (fun o => match parse234 ver o with Some _ => true | None => false end) obs).
Proof.
  unfold report234.
  assert (H : omap (parse234 ver) (filter (fun o => match parse234 ver o with Some _ => true | None => false end) obs) = omap (parse234 ver) obs).
  { induction obs as [|o obs IH]; [reflexivity|]. cbn [filter]. destruct (parse234 ver o) eqn:E.
    - cbn [omap list_omap]. rewrite E. f_equal. exact IH.
    - cbn [omap list_omap]. rewrite E. exact IH. }
  rewrite H. reflexivity.
Qed.

(* ---------- Mercury v1 ---------- *)
Lemma fold_max_attained {A} (cnt : A -> nat) keys : forall acc,
  fold_left (fun a k => Nat.max a (cnt k)) keys acc = acc \/
  exists k, In k keys /\ cnt k = fold_left (fun a k => Nat.max a (cnt k)) keys acc.
Proof.
  induction keys as [|x keys IH]; intros acc; [left; reflexivity|]. cbn [fold_left].
  destruct (IH (Nat.max acc (cnt x))) as [H|(k & Hk & Hc)].
  - rewrite H. destruct (Nat.max_spec acc (cnt x)) as [[_ ->]|[_ ->]]; [right; exists x; split; [left; reflexivity|reflexivity]|left; reflexivity].
  - right. exists k. split; [right; exact Hk|exact Hc].
Qed.

Lemma fold_max_ge {A} (cnt : A -> nat) keys : forall acc k, In k keys ->
  (cnt k <= fold_left (fun a k => Nat.max a (cnt k)) keys acc)%nat.
Proof.
  induction keys as [|x keys IH]; intros acc k Hin; [destruct Hin|]. destruct Hin as [<-|Hk]; cbn [fold_left].
  - assert (forall l a, (a <= fold_left (fun a k => Nat.max a (cnt k)) l a)%nat).
    { induction l as [|y l IHl]; intros a; [cbn; lia|]. cbn [fold_left]. etransitivity; [|apply IHl]. lia. }
    etransitivity; [|apply H]. lia.
  - apply IH; exact Hk.
Qed.

Lemma in_nodup_Z k l : In k l -> In k (nodup_Z l).
Proof.
  induction l as [|x l IH]; [tauto|]. intros [<-|Hk]; cbn [nodup_Z].
  - destruct (existsb (Z.eqb x) l) eqn:E; [|left; reflexivity].
    apply existsb_exists in E. destruct E as (y & Hy & Hxy). apply Z.eqb_eq in Hxy. subst y. apply IH; exact Hy.
  - destruct (existsb (Z.eqb x) l); [apply IH; exact Hk|right; apply IH; exact Hk].
Qed.

Lemma max_finalized_block_no_panic xs f : is_panic (max_finalized_block xs f) = false.
Proof.
  unfold max_finalized_block, max_finalized_block_order. set (v := valid_vals xs).
  destruct (length v <? f + 1)%nat eqn:E; [reflexivity|]. apply Nat.ltb_ge in E.
  destruct (max_count v v <? f + 1)%nat eqn:E2; [reflexivity|]. apply Nat.ltb_ge in E2.
  unfold max_count in *.
  destruct (fold_max_attained (fun k => count_Z k v) v O) as [H0|(k & Hk & Hc)]; [lia|].
  match goal with |- context [isort Z.ltb ?l] => assert (Hne : l <> []) end.
  { intros Hnil. assert (Hin : In k (filter (fun k0 => (count_Z k0 v =? fold_left (fun a k1 => Nat.max a (count_Z k1 v)) v O)%nat) (nodup_Z v))).
    { apply filter_In. split; [apply in_nodup_Z; exact Hk|]. apply Nat.eqb_eq. exact Hc. }
    rewrite Hnil in Hin. destruct Hin. }
  match goal with |- context [isort Z.ltb ?l] => pose proof (isort_length Z.ltb l) as Hl; destruct (isort Z.ltb l) eqn:Es end.
  - destruct (filter _ (nodup_Z v)); [congruence|discriminate].
  - reflexivity.
Qed.

Lemma block_eqb_eq a b : block_eqb a b = true <-> a = b.
Proof.
  unfold block_eqb. destruct a as [n1 h1 t1], b as [n2 h2 t2]. cbn [bnum bhash bts]. split.
  - intros H. apply andb_prop in H. destruct H as [H Ht]. apply andb_prop in H. destruct H as [Hn Hh].
    apply Z.eqb_eq in Hn, Ht. apply bytes_eqb_eq in Hh. congruence.
  - intros H. inversion H; subst. rewrite !Z.eqb_refl, bytes_eqb_refl. reflexivity.
Qed.

Lemma in_nodup_block b l : In b l -> In b (nodup_block l).
Proof.
  induction l as [|x l IH]; [tauto|]. intros [<-|Hk]; cbn [nodup_block].
  - destruct (existsb (block_eqb x) l) eqn:E; [|left; reflexivity].
    apply existsb_exists in E. destruct E as (y & Hy & Hxy). apply block_eqb_eq in Hxy. subst y. apply IH; exact Hy.
  - destruct (existsb (block_eqb x) l); [apply IH; exact Hk|right; apply IH; exact Hk].
Qed.

Lemma latest_block_groups_no_panic nums all f : is_panic (latest_block_groups nums all f) = false.
Proof.
  induction nums as [|n rest IH]; [reflexivity|]. cbn [latest_block_groups].
  set (grp := filter (fun b => bnum b =? n) all).
  set (mc := fold_left (fun acc b => Nat.max acc (count_block b grp)) grp O).
  destruct (f + 1 <=? mc)%nat eqn:E; [|exact IH]. apply Nat.leb_le in E.
  destruct (fold_max_attained (fun b => count_block b grp) grp O) as [H0|(b & Hb & Hc)]; [fold mc in H0; lia|].
  fold mc in Hc. unfold best_block.
  match goal with |- context [isort ?lt ?l] => assert (Hne : l <> []) end.
  { intros Hnil. assert (Hin : In b (filter (fun b0 => (count_block b0 grp =? mc)%nat) (nodup_block grp))).
    { apply filter_In. split; [apply in_nodup_block; exact Hb|]. apply Nat.eqb_eq. exact Hc. }
    rewrite Hnil in Hin. destruct Hin. }
  match goal with |- context [isort ?lt ?l] => pose proof (isort_length lt l) as Hl; destruct (isort lt l) eqn:Es end.
  - destruct (filter _ (nodup_block grp)); [congruence|discriminate].
  - reflexivity.
Qed.

Lemma latest_block_no_panic obs f : is_panic (latest_block obs f) = false.
Proof. apply latest_block_groups_no_panic. Qed.

Theorem report1_no_panic c prev replen obs : (forall rf, is_panic (replen rf) = false) ->
  is_panic (report1 c prev replen obs) = false.
Proof.
  intros Hcodec. unfold report1.
  destruct (omap parse1 obs) as [|p ps] eqn:Ep; [reflexivity|].
  destruct (length (p :: ps) <? mc_f c + 1)%nat; [reflexivity|].
  match goal with |- context [let '(vfrom, e1) := ?X in _] => destruct X as [vfrom e1] end.
  pose proof (nth_median_no_panic (map q_ts (p :: ps)) ltac:(discriminate)) as Ht. unfold consensus_timestamp.
  destruct (nth_median (map q_ts (p :: ps))) as [ts| |]; try reflexivity; try discriminate.
  cbv zeta.
  match goal with |- is_panic (if ?c then _ else _) = false => destruct c end; [reflexivity|].
  match goal with |- is_panic (if ?c then _ else _) = false => destruct c end; [reflexivity|].
  match goal with |- is_panic (if ?c then _ else _) = false => destruct c end; [|reflexivity].
  match goal with |- context [replen ?rf] => pose proof (Hcodec rf) as Hr; destruct (replen rf) as [n| |] end;
    try reflexivity; try discriminate.
  destruct (mc_maxlen c <? n)%nat; [reflexivity|]. destruct (n =? 0)%nat; reflexivity.
Qed.

(* the sub-aggregates that the reports treat as "not ok" never hide a panic *)
Theorem mercury_aggregates_no_panic :
  (forall xs f, is_panic (consensus_price xs f) = false) /\ (forall xs f, is_panic (consensus_fee xs f) = false) /\
  (forall xs f, is_panic (max_finalized_ts xs f) = false) /\ (forall xs f, is_panic (market_status xs f) = false) /\
  (forall xs f, is_panic (max_finalized_block xs f) = false) /\ (forall obs f, is_panic (latest_block obs f) = false).
Proof.
  repeat split; [apply consensus_price_no_panic|apply consensus_fee_no_panic|apply max_finalized_ts_no_panic|
                 apply market_status_no_panic|apply max_finalized_block_no_panic|apply latest_block_no_panic].
Qed.

(* ---------- text forms and the JSON report codec ---------- *)
From DS Require Import TextForms.
Definition no_some_panic {A} (r : option (res A)) : Prop := match r with Some (Panic _) => False | _ => True end.

Lemma dec_parse_no_panic s : no_some_panic (dec_parse s).
Proof.
  unfold dec_parse. destruct (existsb _ s); [exact I|]. destruct (count_of 46 s) as [|[|n]]; cbn.
  - destruct (parse_int s); exact I.
  - destruct (split_at_char 46 s) as [a b]. cbn. destruct (parse_int (a ++ b)); exact I.
  - exact I.
Qed.
Lemma dec_parse'_no_panic s : is_panic (dec_parse' s) = false.
Proof. unfold dec_parse'. pose proof (dec_parse_no_panic s) as H. destruct (dec_parse s) as [[?|?|?]|]; try reflexivity. destruct H. Qed.
Lemma quote_parse_no_panic s : is_panic (quote_parse s) = false.
Proof.
  unfold quote_parse. destruct (find_quote true s) as [[[g1 g2] g3]|]; [|reflexivity].
  apply bind_no_panic; [apply dec_parse'_no_panic|]. intros ?. apply bind_no_panic; [apply dec_parse'_no_panic|]. intros ?.
  apply bind_no_panic; [apply dec_parse'_no_panic|]. reflexivity.
Qed.
Lemma json_tt_parse_no_panic s : no_some_panic (json_tt_parse s).
Proof.
  unfold json_tt_parse. destruct (is_prefix s_j1 s) as [s1|]; [|exact I]. destruct (span is_digit s1) as [ds s2].
  destruct ds; [exact I|]. destruct (is_prefix s_j2 s2) as [s3|]; [|exact I]. destruct (json_unesc s3) as [[v tl]|]; [|exact I].
  destruct (bytes_eqb tl [125]); [|exact I]. cbn. destruct (_ <? _); exact I.
Qed.
Theorem typed_parse_no_panic fuel : forall t v, no_some_panic (typed_parse fuel t v).
Proof.
  induction fuel as [|k IH]; intros t v; [exact I|]. cbn [typed_parse].
  destruct (t =? 0).
  { pose proof (dec_parse_no_panic v) as H. destruct (dec_parse v) as [[?|?|?]|]; try exact I. destruct H. }
  destruct (t =? 1).
  { pose proof (quote_parse_no_panic v) as H. cbn. destruct (quote_parse v); try exact I. discriminate. }
  destruct (t =? 2); [|exact I].
  destruct (match_tsv v) as [[ds body]|]; [|exact I].
  destruct (2 ^ 64 <=? digits_val ds); [exact I|].
  pose proof (json_tt_parse_no_panic body) as Hj. destruct (json_tt_parse body) as [[[t1 v1]|e|s]|]; try exact I; [|destruct Hj].
  pose proof (IH t1 v1) as Hr. destruct (typed_parse k t1 v1) as [[?|?|?]|]; try exact I. destruct Hr.
Qed.
Lemma untyped_all_no_panic vs : no_some_panic (untyped_all vs).
Proof.
  induction vs as [|[t v] vs IH]; [exact I|]. cbn [untyped_all].
  pose proof (typed_parse_no_panic (S (length v)) t v) as H.
  destruct (typed_parse (S (length v)) t v) as [[x|e|s]|]; try exact I; [|destruct H].
  destruct (untyped_all vs) as [[?|?|?]|]; try exact I. destruct IH.
Qed.
Theorem json_decode_no_panic j : no_some_panic (json_decode j).
Proof.
  unfold json_decode. destruct (j_seq j =? 0); [exact I|]. destruct (hex_decode (j_digest j)); [|exact I].
  destruct (negb _); [exact I|]. pose proof (untyped_all_no_panic (j_values j)) as H.
  destruct (untyped_all (j_values j)) as [[?|?|?]|]; try exact I. destruct H.
Qed.

(* ---------- EVM codecs ---------- *)
From DS Require Import RepoConstants EvmInt EvmIntProofs EvmCodecs EvmSpec EvmCodecProofs.
Section Evm.
  Hypothesis Hc : widths_complete.
  Lemma encode_packed_no_panic v t : is_panic (encode_packed v t) = false.
  Proof.
    destruct (parse_type t) as [[sg w]|] eqn:Ep.
    - apply (parse_type_spec t sg w Hc) in Ep. destruct Ep as [-> Hin].
      rewrite (encode_packed_valid sg w v Hc Hin). destruct (in_rangeb sg w v); reflexivity.
    - unfold encode_packed. rewrite Ep. reflexivity.
  Qed.
  Lemma single_packed_no_panic e v : EvmSpec.sval_wf v = true -> is_panic (single_packed e v) = false.
  Proof.
    intros Hwf. unfold single_packed. destruct (is_bytes0 e); [reflexivity|]. destruct v as [d|? ? ?|? ?]; try reflexivity.
    cbn in Hwf. destruct (apply_mult d (mult_of e)) as [x| |s] eqn:E; cbn [bind]; [apply encode_packed_no_panic|reflexivity|].
    exfalso. exact (apply_mult_no_panic _ _ _ Hwf E).
  Qed.
  Lemma abi_packed_no_panic a v : match v with Some x => EvmSpec.sval_wf x | None => true end = true -> is_panic (abi_packed a v) = false.
  Proof.
    intros Hwf. unfold abi_packed. destruct v as [[d|? ? ?|t i]|]; try reflexivity.
    - destruct a as [|e [|? ?]]; try reflexivity. apply single_packed_no_panic. exact Hwf.
    - destruct a as [|e0 [|e1 [|? ?]]]; try reflexivity.
      apply bind_no_panic. { unfold single_u64_packed. destruct (is_bytes0 e0); [reflexivity|apply encode_packed_no_panic]. }
      intros ?. apply bind_no_panic; [apply single_packed_no_panic; exact Hwf|reflexivity].
  Qed.
  Lemma packed_loop_no_panic : forall abi vs acc,
    forallb (fun v => match v with Some x => EvmSpec.sval_wf x | None => true end) vs = true -> is_panic (packed_loop abi vs acc) = false.
  Proof.
    induction abi as [|a abi IH]; intros [|v vs] acc Hwf; try reflexivity. cbn [packed_loop].
    cbn [forallb] in Hwf. apply andb_prop in Hwf. destruct Hwf as [Hv Hvs].
    apply bind_no_panic; [apply abi_packed_no_panic; exact Hv|]. intros b. apply IH. exact Hvs.
  Qed.
  (* the streamlined codec never panics, verified definition or not (B5 repaired) *)
  Theorem streamlined_no_panic o fmt r : values_wf r = true -> is_panic (streamlined_encode o fmt r) = false.
  Proof.
    intros Hwf. unfold streamlined_encode. destruct o as [o|]; [|reflexivity].
    destruct (negb _); [reflexivity|]. apply packed_loop_no_panic. exact Hwf.
  Qed.
  (* ---- ABI-encode-unpacked: like premium legacy, only the fee division can panic (F4) ---- *)
  Lemma encode_padded_no_panic v t : is_panic (encode_padded v t) = false.
  Proof.
    unfold encode_padded. pose proof (encode_packed_no_panic v t) as H.
    destruct (encode_packed v t); try discriminate; [|reflexivity]. destruct (32 <? length a)%nat; [reflexivity|]. destruct (v <? 0); reflexivity.
  Qed.
  Lemma single_dec_padded_no_panic e d : dec_wf d = true -> is_panic (single_dec_padded e d) = false.
  Proof.
    intros Hwf. unfold single_dec_padded. destruct (apply_mult d (mult_of e)) as [x| |s] eqn:E; cbn [bind];
      [apply encode_padded_no_panic|reflexivity|]. exfalso. exact (apply_mult_no_panic _ _ _ Hwf E).
  Qed.
  Lemma abi_padded_no_panic a v : match v with Some x => EvmSpec.sval_wf x | None => true end = true -> is_panic (abi_padded a v) = false.
  Proof.
    intros Hwf. unfold abi_padded. destruct v as [[d|? ? ?|t i]|]; try reflexivity.
    - destruct a as [|e [|? ?]]; try reflexivity. apply single_dec_padded_no_panic. exact Hwf.
    - destruct a as [|e0 [|e1 [|? ?]]]; try reflexivity.
      apply bind_no_panic; [apply encode_padded_no_panic|]. intros ts. destruct i as [d|? ? ?|? ?]; try reflexivity.
      apply bind_no_panic; [apply single_dec_padded_no_panic; exact Hwf|reflexivity].
  Qed.
  Lemma encode_all_padded_no_panic abi : forall vs,
    forallb (fun v => match v with Some x => EvmSpec.sval_wf x | None => true end) vs = true ->
    is_panic (encode_all abi_padded abi vs) = false.
  Proof.
    induction abi as [|a abi IH]; intros [|v vs] Hwf; try reflexivity. cbn [forallb] in Hwf. apply andb_prop in Hwf. destruct Hwf as [Hv Hvs].
    cbn [encode_all]. pose proof (abi_padded_no_panic a v Hv) as Ha. specialize (IH vs Hvs).
    destruct (abi_padded a v); try discriminate.
    - destruct (encode_all abi_padded abi vs); try discriminate; reflexivity.
    - destruct (encode_all abi_padded abi vs); try discriminate; reflexivity.
  Qed.
  Theorem unpacked_panic_only_F4 o r s : values_wf r = true ->
    unpacked_encode o r = Panic s -> exists o', o = Some o' /\ f4_region (uo_fee o') r = true.
  Proof.
    intros Hwf. unfold unpacked_encode, f4_region. destruct (r_specimen r); [discriminate|].
    unfold values_wf in Hwf. destruct (r_values r) as [|v0 [|v1 rest]]; try discriminate.
    cbn [forallb] in Hwf. apply andb_prop in Hwf. destruct Hwf as [H0 Hwf]. apply andb_prop in Hwf. destruct Hwf as [H1 Hrest].
    destruct (extract_price v0) as [np| |] eqn:Enp; try discriminate; [|destruct v0 as [[?|? ? ?|? ?]|]; discriminate]. cbn [bind].
    destruct (extract_price v1) as [lp| |] eqn:Elp; try discriminate; [|destruct v1 as [[?|? ? ?|? ?]|]; discriminate]. cbn [bind].
    destruct o as [o|]; [|discriminate]. intros H. exists o. split; [reflexivity|].
    unfold extract_timestamps in H. destruct (r_va r / 10 ^ 9 >=? max_uint32); [discriminate|].
    destruct (r_ts r / 10 ^ 9 >? max_uint32); [discriminate|]. cbn [bind] in H.
    cbn [firstn existsb]. rewrite (extract_price_of _ _ Enp), (extract_price_of _ _ Elp).
    destruct (calculate_fee np (uo_fee o)) as [nf| |s1] eqn:E1; try discriminate.
    2:{ rewrite (calculate_fee_panic _ _ _ E1). reflexivity. }
    cbn [bind] in H. destruct (calculate_fee lp (uo_fee o)) as [lf| |s2] eqn:E2; try discriminate.
    2:{ rewrite (calculate_fee_panic _ _ _ E2). rewrite orb_true_r. reflexivity. }
    cbn [bind] in H. destruct ((nf <? 0) || (lf <? 0) || (max_uint192 <? nf) || (max_uint192 <? lf)); [discriminate|].
    pose proof (encode_all_padded_no_panic (uo_abi o) rest Hrest) as Hp.
    destruct (encode_all abi_padded (uo_abi o) rest); try discriminate.
  Qed.
End Evm.
