(* EvmIntProofs.v — C13: the Solidity integer encoders are exact and range-checked. *)
From DS Require Import Base BaseProofs RepoConstants EvmInt.
From Coq Require Import ZifyBool.

(* the only place that looks at the generated list: it is exactly uint8..uint256 step 8 *)
Definition widths_complete : Prop := evm_type_widths = solidity_widths.

Lemma in_widths w : In w solidity_widths -> exists k, w = 8 * k /\ 1 <= k <= 32.
Proof.
  unfold solidity_widths. intros H. apply in_map_iff in H. destruct H as (k & Hk & Hin).
  apply in_seq in Hin. exists (Z.of_nat k). lia.
Qed.

Lemma find_width_sound rest w : find_width rest = Some w -> In w evm_type_widths /\ dec_digits w = rest.
Proof.
  unfold find_width. intros H. apply find_some in H. destruct H as [H1 H2]. split; [exact H1|].
  apply bytes_eqb_eq. exact H2.
Qed.

Lemma parse_type_sound t sg w :
  parse_type t = Some (sg, w) -> t = type_name sg w /\ In w evm_type_widths.
Proof.
  unfold parse_type, type_name. intros H.
  destruct (is_prefix s_uint t) as [rest|] eqn:E1.
  - destruct (find_width rest) as [w'|] eqn:E2; simpl in H; [|discriminate]. inversion H; subst.
    apply find_width_sound in E2. destruct E2 as [Hin Hd]. apply is_prefix_sound in E1. subst. auto.
  - destruct (is_prefix s_int t) as [rest|] eqn:E3; [|discriminate].
    destruct (find_width rest) as [w'|] eqn:E2; simpl in H; [|discriminate]. inversion H; subst.
    apply find_width_sound in E2. destruct E2 as [Hin Hd]. apply is_prefix_sound in E3. subst. auto.
Qed.

(* finite check over the 2 x 32 type names, lifted by forallb_forall *)
Definition parse_okb (sg : bool) (w : Z) : bool :=
  match parse_type (type_name sg w) with
  | Some (sg', w') => Bool.eqb sg sg' && (w' =? w)
  | None => false
  end.
Lemma parse_type_complete_fin :
  forallb (fun w => parse_okb false w && parse_okb true w) solidity_widths = true.
Proof. vm_compute. reflexivity. Qed.

Lemma parse_type_complete sg w :
  widths_complete -> In w solidity_widths -> parse_type (type_name sg w) = Some (sg, w).
Proof.
  intros _ Hin. pose proof parse_type_complete_fin as H. rewrite forallb_forall in H. specialize (H w Hin).
  apply andb_true_iff in H. destruct H as [Hf Ht].
  assert (Hs : parse_okb sg w = true) by (destruct sg; assumption).
  unfold parse_okb in Hs. destruct (parse_type (type_name sg w)) as [[sg' w']|]; [|discriminate].
  apply andb_true_iff in Hs. destruct Hs as [H1 H2]. apply Bool.eqb_prop in H1. apply Z.eqb_eq in H2.
  subst. reflexivity.
Qed.

Theorem parse_type_spec t sg w :
  widths_complete ->
  (parse_type t = Some (sg, w) <-> t = type_name sg w /\ In w solidity_widths).
Proof.
  intros Hc. split.
  - intros H. apply parse_type_sound in H. rewrite Hc in H. exact H.
  - intros [-> Hin]. apply parse_type_complete; assumption.
Qed.

Lemma pow256_width k : 0 <= k -> 256 ^ Z.of_nat (Z.to_nat (8 * k / 8)) = 2 ^ (8 * k).
Proof.
  intros Hk. rewrite Z2Nat.id by (apply Z.div_pos; lia).
  replace (8 * k / 8) with k by (rewrite Z.mul_comm, Z.div_mul; lia). apply pow256.
Qed.

Lemma fill_bytes_ok n v : 0 <= v < 256 ^ Z.of_nat n -> fill_bytes n v = Ok (be_bytes n v).
Proof.
  intros H. unfold fill_bytes. rewrite Z.abs_eq by lia.
  destruct (v <? 256 ^ Z.of_nat n) eqn:E; [reflexivity|lia].
Qed.

(* what encode_packed computes on a valid type *)
Lemma encode_packed_valid sg w v :
  widths_complete -> In w solidity_widths ->
  encode_packed v (type_name sg w) =
    if in_rangeb sg w v then Ok (be_bytes (Z.to_nat (w / 8)) (v mod 2 ^ w)) else Err EOutOfRange.
Proof.
  intros Hc Hin. unfold encode_packed. rewrite (parse_type_complete sg w Hc Hin).
  destruct (in_widths w Hin) as (k & -> & Hk).
  assert (Hp : 0 < 2 ^ (8 * k)) by (apply Z.pow_pos_nonneg; lia).
  destruct sg; unfold in_rangeb.
  - assert (H2 : 2 ^ (8 * k) = 2 * 2 ^ (8 * k - 1)).
    { rewrite <- Z.pow_succ_r by lia. f_equal. lia. }
    destruct (v <? - 2 ^ (8 * k - 1)) eqn:E1; destruct (v >? 2 ^ (8 * k - 1) - 1) eqn:E2;
      destruct (- 2 ^ (8 * k - 1) <=? v) eqn:E3; destruct (v <=? 2 ^ (8 * k - 1) - 1) eqn:E4;
      cbn [orb andb]; try reflexivity; try lia.
    apply fill_bytes_ok. rewrite pow256_width by lia. apply Z.mod_pos_bound. lia.
  - destruct (v <? 0) eqn:E1; destruct (0 <=? v) eqn:E3; cbn [orb andb]; try lia; try reflexivity.
    destruct (v >=? 2 ^ (8 * k)) eqn:E2; destruct (v <? 2 ^ (8 * k)) eqn:E4; try lia; try reflexivity.
    rewrite Z.mod_small by lia. apply fill_bytes_ok. rewrite pow256_width by lia. lia.
Qed.

Lemma in_rangeb_spec sg w v : in_rangeb sg w v = true <-> in_range sg w v.
Proof. unfold in_rangeb, in_range. destruct sg; lia. Qed.

Theorem packed_ok_iff_in_range sg w v :
  widths_complete -> In w solidity_widths ->
  ((exists bs, encode_packed v (type_name sg w) = Ok bs) <-> in_range sg w v) /\
  (~ in_range sg w v -> encode_packed v (type_name sg w) = Err EOutOfRange).
Proof.
  intros Hc Hin. rewrite (encode_packed_valid sg w v Hc Hin). rewrite <- in_rangeb_spec.
  destruct (in_rangeb sg w v); split; try split; intros; try eauto; try discriminate; try congruence.
  - destruct H as [bs H]. discriminate.
Qed.

Theorem packed_is_twos_complement sg w v bs :
  widths_complete -> In w solidity_widths ->
  encode_packed v (type_name sg w) = Ok bs ->
  Z.of_nat (length bs) = w / 8 /\
  Forall (fun b => 0 <= b < 256) bs /\
  be_value bs = v mod 2 ^ w /\
  (if sg then twos_read bs = v else be_value bs = v).
Proof.
  intros Hc Hin H. rewrite (encode_packed_valid sg w v Hc Hin) in H.
  destruct (in_rangeb sg w v) eqn:Hr; [|discriminate]. inversion H; subst bs; clear H.
  apply in_rangeb_spec in Hr.
  destruct (in_widths w Hin) as (k & -> & Hk).
  assert (Hp : 0 < 2 ^ (8 * k)) by (apply Z.pow_pos_nonneg; lia).
  assert (Hm : 0 <= v mod 2 ^ (8 * k) < 2 ^ (8 * k)) by (apply Z.mod_pos_bound; lia).
  assert (Hv : be_value (be_bytes (Z.to_nat (8 * k / 8)) (v mod 2 ^ (8 * k))) = v mod 2 ^ (8 * k)).
  { apply be_value_be_bytes. rewrite pow256_width by lia. exact Hm. }
  assert (Hl : Z.of_nat (length (be_bytes (Z.to_nat (8 * k / 8)) (v mod 2 ^ (8 * k)))) = 8 * k / 8).
  { rewrite length_be_bytes. apply Z2Nat.id. apply Z.div_pos; lia. }
  split; [exact Hl|]. split; [apply be_bytes_ok|]. split; [exact Hv|].
  assert (H2 : 2 ^ (8 * k) = 2 * 2 ^ (8 * k - 1)).
  { rewrite <- Z.pow_succ_r by lia. f_equal. lia. }
  destruct sg; unfold in_range in Hr.
  - unfold twos_read. rewrite Hv.
    replace (8 * Z.of_nat (length (be_bytes (Z.to_nat (8 * k / 8)) (v mod 2 ^ (8 * k))))) with (8 * k)
      by (rewrite Hl, Z.mul_comm, Z.div_mul; lia).
    destruct (Z.lt_ge_cases v 0) as [Hneg|Hpos].
    + assert (Hmod : v mod 2 ^ (8 * k) = v + 2 ^ (8 * k)).
      { symmetry. apply (Z.mod_unique _ _ (-1)); lia. }
      rewrite Hmod. destruct (v + 2 ^ (8 * k) <? 2 ^ (8 * k - 1)) eqn:E; lia.
    + rewrite Z.mod_small by lia. destruct (v <? 2 ^ (8 * k - 1)) eqn:E; lia.
  - rewrite Hv. apply Z.mod_small. lia.
Qed.

Lemma length_pad_with f b : (length b <= 32)%nat -> length (pad_with f b) = 32%nat.
Proof. intros H. unfold pad_with. rewrite app_length, repeat_length. lia. Qed.

Theorem padded_is_sign_extension sg w v :
  widths_complete -> In w solidity_widths ->
  (* succeeds exactly when the packed encoding does *)
  (forall bs, encode_packed v (type_name sg w) = Ok bs -> exists ps, encode_padded v (type_name sg w) = Ok ps) /\
  (forall e, encode_packed v (type_name sg w) = Err e -> encode_padded v (type_name sg w) = Err e) /\
  (* and then is the 32-byte two's-complement (sign-extended) form of the same number *)
  (forall ps, encode_padded v (type_name sg w) = Ok ps ->
     length ps = 32%nat /\ Forall (fun b => 0 <= b < 256) ps /\
     be_value ps = v mod 2 ^ 256 /\ (sg = true \/ v < 2 ^ 255 -> twos_read ps = v)).
Proof.
  intros Hc Hin.
  destruct (in_widths w Hin) as (k & Hw & Hk).
  unfold encode_padded.
  destruct (encode_packed v (type_name sg w)) as [b|e|s] eqn:E.
  2:{ split; [intros; discriminate|]. split; [intros e' He; inversion He; reflexivity|intros; discriminate]. }
  2:{ rewrite (encode_packed_valid sg w v Hc Hin) in E. destruct (in_rangeb sg w v); discriminate. }
  pose proof (packed_is_twos_complement sg w v b Hc Hin E) as (Hl & Hok & Hval & Hsg).
  assert (Hlen : (length b <= 32)%nat).
  { subst w. rewrite Z.mul_comm, Z.div_mul in Hl by lia. lia. }
  destruct (32 <? length b)%nat eqn:E32; [apply Nat.ltb_lt in E32; lia|].
  split; [intros bs _; destruct (v <? 0); eauto|]. split; [intros; discriminate|].
  intros ps Hps.
  assert (Hk8 : Z.of_nat (length b) = k) by (subst w; rewrite Z.mul_comm, Z.div_mul in Hl by lia; exact Hl).
  assert (Hpk : 0 < 2 ^ (8 * k)) by (apply Z.pow_pos_nonneg; lia).
  assert (Hsplit : 2 ^ 256 = 2 ^ (8 * (32 - k)) * 2 ^ (8 * k)).
  { rewrite <- Z.pow_add_r by lia. f_equal. lia. }
  assert (Hpk' : 0 < 2 ^ (8 * (32 - k))) by (apply Z.pow_pos_nonneg; lia).
  assert (Hrange : in_range sg w v).
  { rewrite (encode_packed_valid sg w v Hc Hin) in E. apply in_rangeb_spec.
    destruct (in_rangeb sg w v); [reflexivity|discriminate]. }
  assert (H2k : 2 ^ (8 * k) = 2 * 2 ^ (8 * k - 1)).
  { rewrite <- Z.pow_succ_r by lia. f_equal. lia. }
  assert (Hle : 2 ^ (8 * k) <= 2 ^ 256) by (apply Z.pow_le_mono_r; lia).
  assert (Hbv : be_value ps = v mod 2 ^ 256).
  { destruct (v <? 0) eqn:Eneg; inversion Hps; subst ps; unfold pad_with;
      rewrite be_value_app, ?be_value_repeat255, ?be_value_repeat0, pow256, Hk8, Hval; subst w.
    - replace (Z.of_nat (32 - length b)) with (32 - k) by lia. rewrite pow256.
      assert (Hneg : v < 0) by lia.
      assert (sg = true) as -> by (destruct sg; [reflexivity|unfold in_range in Hrange; lia]).
      unfold in_range in Hrange.
      assert (Hmod : v mod 2 ^ (8 * k) = v + 2 ^ (8 * k)) by (symmetry; apply (Z.mod_unique _ _ (-1)); lia).
      rewrite Hmod. apply (Z.mod_unique _ _ (-1)); [lia|]. rewrite Hsplit. ring.
    - assert (Hnn : 0 <= v) by lia.
      assert (Hlt : v < 2 ^ (8 * k)) by (destruct sg; unfold in_range in Hrange; lia).
      rewrite (Z.mod_small v (2 ^ (8 * k))) by lia. rewrite (Z.mod_small v (2 ^ 256)) by lia. lia. }
  assert (Hpsok : Forall (fun b0 => 0 <= b0 < 256) ps).
  { destruct (v <? 0); inversion Hps; subst ps; unfold pad_with; apply Forall_app; split; try exact Hok;
      apply Forall_forall; intros x Hx; apply repeat_spec in Hx; lia. }
  assert (Hpsl : length ps = 32%nat).
  { destruct (v <? 0); inversion Hps; subst ps; apply length_pad_with; exact Hlen. }
  split; [exact Hpsl|]. split; [exact Hpsok|]. split; [exact Hbv|].
  intros Hcase. unfold twos_read. rewrite Hbv, Hpsl. change (8 * Z.of_nat 32) with 256.
  assert (H256 : 2 ^ 256 = 2 * 2 ^ 255) by reflexivity.
  assert (Hvr : - 2 ^ 255 <= v < 2 ^ 255).
  { assert (H8k : 2 ^ (8 * k - 1) <= 2 ^ 255) by (apply Z.pow_le_mono_r; lia).
    subst w. destruct sg; unfold in_range in Hrange; [lia|]. destruct Hcase as [Hc1|Hc1]; [discriminate|lia]. }
  destruct (Z.lt_ge_cases v 0) as [Hneg|Hpos].
  - assert (Hmod : v mod 2 ^ 256 = v + 2 ^ 256) by (symmetry; apply (Z.mod_unique _ _ (-1)); lia).
    rewrite Hmod. change (256 - 1) with 255. destruct (v + 2 ^ 256 <? 2 ^ 255) eqn:E1; lia.
  - rewrite Z.mod_small by lia. change (256 - 1) with 255. destruct (v <? 2 ^ 255) eqn:E1; lia.
Qed.

Theorem other_types_rejected t v :
  widths_complete ->
  (forall sg w, In w solidity_widths -> t <> type_name sg w) ->
  encode_packed v t = Err EInvalidType /\ encode_padded v t = Err EInvalidType.
Proof.
  intros Hc Hno. assert (Hp : parse_type t = None).
  { destruct (parse_type t) as [[sg w]|] eqn:E; [|reflexivity].
    apply (parse_type_spec t sg w Hc) in E. destruct E as [E1 E2]. exfalso. apply (Hno sg w E2 E1). }
  unfold encode_padded, encode_packed. rewrite Hp. split; reflexivity.
Qed.
