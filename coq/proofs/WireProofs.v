(* WireProofs.v — the protobuf wire model: varints and fields parse back (used by C10 / C16). *)
From DS Require Import Base BaseProofs Wire.
From Coq Require Import ZifyBool ZifyNat.
Ltac Zify.zify_post_hook ::= Z.div_mod_to_equations.

(* ---------- varint ---------- *)
Lemma no_overflow_last v s : 0 <= v -> 0 <= s -> v * 2 ^ s < 2 ^ 64 -> (s =? 63) && (2 <=? v) = false.
Proof.
  intros Hv Hs Hb. destruct (s =? 63) eqn:E; [|reflexivity]. assert (s = 63) by lia. subst s.
  destruct (2 <=? v) eqn:E2; [|reflexivity]. exfalso. assert (2 * 2 ^ 63 <= v * 2 ^ 63) by (apply Z.mul_le_mono_nonneg_r; lia).
  change (2 * 2 ^ 63) with (2 ^ 64) in H. lia.
Qed.
Lemma parse_varint_fuel_varint_fuel k : forall v rest n s acc,
  0 <= v < 128 ^ (Z.of_nat k + 1) -> (k < n)%nat -> 0 <= s -> v * 2 ^ s < 2 ^ 64 ->
  parse_varint_fuel n (varint_fuel k v ++ rest) s acc = Some (acc + v * 2 ^ s, rest).
Proof.
  induction k as [|k IH]; intros v rest n s acc Hv Hn Hs Hb.
  - destruct n as [|n]; [lia|]. change (128 ^ (Z.of_nat 0 + 1)) with 128 in Hv.
    cbn [varint_fuel app parse_varint_fuel].
    assert (Hm : v mod 128 = v) by (apply Z.mod_small; lia). rewrite !Hm.
    destruct (v <? 128) eqn:E; [|lia]. rewrite (no_overflow_last v s) by lia. reflexivity.
  - destruct n as [|n]; [lia|]. cbn [varint_fuel].
    destruct (v <? 128) eqn:E.
    + cbn [app parse_varint_fuel]. assert (Hm : v mod 128 = v) by (apply Z.mod_small; lia). rewrite Hm, E.
      rewrite (no_overflow_last v s) by lia. reflexivity.
    + cbn [app parse_varint_fuel].
      assert (H128 : (128 + v mod 128) mod 128 = v mod 128).
      { rewrite <- Zplus_mod_idemp_l. rewrite Z_mod_same_full. simpl. apply Z.mod_mod. lia. }
      rewrite H128.
      assert (Hlt : (128 + v mod 128 <? 128) = false) by lia. rewrite Hlt.
      rewrite IH; try lia.
      * f_equal. f_equal. rewrite Z.pow_add_r by lia. change (2 ^ 7) with 128.
        pose proof (Z.div_mod v 128 ltac:(lia)) as Hdm.
        set (P := 2 ^ s) in *. set (q := v / 128) in *. set (r := v mod 128) in *.
        rewrite Hdm. ring.
      * rewrite Nat2Z.inj_succ in Hv. replace (Z.succ (Z.of_nat k) + 1) with (Z.of_nat k + 1 + 1) in Hv by lia.
        rewrite Z.pow_add_r in Hv by lia. change (128 ^ 1) with 128 in Hv.
        split; [apply Z.div_pos; lia|]. apply Z.div_lt_upper_bound; lia.
      * rewrite Z.pow_add_r by lia. change (2 ^ 7) with 128.
        assert (0 < 2 ^ s) by (apply Z.pow_pos_nonneg; lia).
        assert (v / 128 * 128 <= v) by (pose proof (Z.div_mod v 128 ltac:(lia)); pose proof (Z.mod_pos_bound v 128 ltac:(lia)); lia).
        assert (v / 128 * 128 * 2 ^ s <= v * 2 ^ s) by (apply Z.mul_le_mono_nonneg_r; lia). lia.
Qed.

Lemma varint_fuel_bound v : 0 <= v -> v < 128 ^ (Z.of_nat (Z.to_nat (Z.log2 v) / 7) + 1).
Proof.
  intros Hv. destruct (Z.eq_dec v 0) as [->|Hne]; [simpl; lia|].
  assert (Hl : 0 <= Z.log2 v) by apply Z.log2_nonneg.
  pose proof (Z.log2_spec v ltac:(lia)) as [_ Hu].
  eapply Z.lt_le_trans; [exact Hu|].
  change 128 with (2 ^ 7). rewrite <- Z.pow_mul_r by lia. apply Z.pow_le_mono_r; [lia|].
  set (q := (Z.to_nat (Z.log2 v) / 7)%nat).
  assert (Hq : (Z.to_nat (Z.log2 v) < 7 * (q + 1))%nat).
  { unfold q. pose proof (Nat.div_mod (Z.to_nat (Z.log2 v)) 7 ltac:(lia)).
    pose proof (Nat.mod_upper_bound (Z.to_nat (Z.log2 v)) 7 ltac:(lia)). lia. }
  lia.
Qed.

Theorem parse_varint_varint v rest : 0 <= v < 2 ^ 64 -> parse_varint (varint v ++ rest) = Some (v, rest).
Proof.
  intros Hv. unfold parse_varint, varint.
  set (k := (Z.to_nat (Z.log2 v) / 7)%nat).
  assert (Hk : (k < 10)%nat).
  { unfold k. destruct (Z.eq_dec v 0) as [->|Hne]; [simpl; lia|].
    assert (Z.log2 v < 64) by (apply Z.log2_lt_pow2; lia).
    assert (Hl : 0 <= Z.log2 v) by apply Z.log2_nonneg.
    assert ((Z.to_nat (Z.log2 v) <= 63)%nat) by lia.
    apply Nat.div_lt_upper_bound; lia. }
  rewrite (parse_varint_fuel_varint_fuel k v rest 10 0 0); try lia.
  - simpl. rewrite Z.mul_1_r. rewrite Z.mod_small by lia. reflexivity.
  - split; [lia|]. apply varint_fuel_bound. lia.
Qed.

Lemma varint_fuel_nonempty k v : varint_fuel k v <> [].
Proof. destruct k; simpl; [discriminate|]. destruct (v <? 128); discriminate. Qed.
Lemma varint_nonempty v : varint v <> [].
Proof. apply varint_fuel_nonempty. Qed.

(* ---------- fields ---------- *)
Definition field_ok (k : Z) : Prop := 1 <= k < 2 ^ 29.

Lemma tag_parse k wt rest : field_ok k -> 0 <= wt < 8 -> parse_varint (tag k wt ++ rest) = Some (k * 8 + wt, rest).
Proof. intros Hk Hw. unfold tag. apply parse_varint_varint. unfold field_ok in Hk. lia. Qed.

Lemma parse_fields_fuel_varint_field n k v rest :
  field_ok k -> 0 < v < 2 ^ 64 ->
  parse_fields_fuel (S n) (f_varint k v ++ rest) = option_map (cons (k, RVarint v)) (parse_fields_fuel n rest).
Proof.
  intros Hk Hv. unfold f_varint. destruct (v =? 0) eqn:E; [lia|].
  cbn [parse_fields_fuel]. rewrite <- !app_assoc.
  destruct (tag k 0 ++ varint v ++ rest) as [|b bs] eqn:Eb.
  { exfalso. unfold tag in Eb. destruct (varint (k * 8 + 0)) eqn:Ev; [apply varint_nonempty in Ev; exact Ev|discriminate]. }
  rewrite <- Eb. rewrite (tag_parse k 0) by (assumption || lia).
  replace ((k * 8 + 0) / 8) with k by (unfold field_ok in Hk; lia).
  replace ((k * 8 + 0) mod 8) with 0 by lia.
  unfold field_ok in Hk.
  destruct ((k <? 1) || (2 ^ 29 <=? k)) eqn:Ek; [lia|]. simpl.
  rewrite parse_varint_varint by lia. reflexivity.
Qed.

Lemma firstn_app_exact {A} (a b : list A) : firstn (length a) (a ++ b) = a.
Proof. induction a; simpl; [destruct b; reflexivity|f_equal; assumption]. Qed.
Lemma skipn_app_exact {A} (a b : list A) : skipn (length a) (a ++ b) = b.
Proof. induction a; simpl; [reflexivity|assumption]. Qed.

Lemma parse_fields_fuel_len_field n k body rest :
  field_ok k -> Z.of_nat (length body) < 2 ^ 64 ->
  parse_fields_fuel (S n) (f_msg k body ++ rest) = option_map (cons (k, RBytes body)) (parse_fields_fuel n rest).
Proof.
  intros Hk Hl. unfold f_msg. cbn [parse_fields_fuel]. rewrite <- !app_assoc.
  destruct (tag k 2 ++ varint (Z.of_nat (length body)) ++ body ++ rest) as [|b bs] eqn:Eb.
  { exfalso. unfold tag in Eb. destruct (varint (k * 8 + 2)) eqn:Ev; [apply varint_nonempty in Ev; exact Ev|discriminate]. }
  rewrite <- Eb. rewrite (tag_parse k 2) by (assumption || lia).
  replace ((k * 8 + 2) / 8) with k by (unfold field_ok in Hk; lia).
  replace ((k * 8 + 2) mod 8) with 2 by lia.
  unfold field_ok in Hk.
  destruct ((k <? 1) || (2 ^ 29 <=? k)) eqn:Ek; [lia|]. simpl.
  rewrite parse_varint_varint by lia.
  rewrite app_length. destruct (Z.of_nat (length body + length rest) <? Z.of_nat (length body)) eqn:E; [lia|].
  rewrite Nat2Z.id, firstn_app_exact, skipn_app_exact. reflexivity.
Qed.

Lemma parse_fields_fuel_bytes_field n k body rest :
  field_ok k -> body <> [] -> Z.of_nat (length body) < 2 ^ 64 ->
  parse_fields_fuel (S n) (f_bytes k body ++ rest) = option_map (cons (k, RBytes body)) (parse_fields_fuel n rest).
Proof.
  intros Hk Hne Hl. unfold f_bytes. destruct body as [|x body]; [congruence|].
  apply (parse_fields_fuel_len_field n k (x :: body) rest Hk Hl).
Qed.

(* enough fuel: any amount above the length gives the same result *)
Lemma parse_varint_fuel_consumes n : forall bs s acc v r,
  parse_varint_fuel n bs s acc = Some (v, r) -> (length r < length bs)%nat.
Proof.
  induction n as [|n IH]; intros bs s acc v r H; simpl in H; [discriminate|].
  destruct bs as [|b bs]; [discriminate|]. destruct (b <? 128).
  - destruct ((s =? 63) && (2 <=? b)); [discriminate|]. inversion H; subst. simpl. lia.
  - apply IH in H. simpl. lia.
Qed.
Lemma parse_varint_consumes bs v r : parse_varint bs = Some (v, r) -> (length r < length bs)%nat.
Proof.
  unfold parse_varint. destruct (parse_varint_fuel 10 bs 0 0) as [[v' r']|] eqn:E; [|discriminate].
  intros H. inversion H; subst. eapply parse_varint_fuel_consumes. exact E.
Qed.

(* ---------- groups (skipped as unknown fields) ---------- *)
Lemma skip_group_consumes n : forall d fld bs r, skip_group n d fld bs = Some r -> (length r < length bs)%nat.
Proof.
  induction n as [|n IH]; intros d fld bs r H; [discriminate|]. cbn [skip_group] in H.
  destruct (d <? 0); [discriminate|].
  destruct (parse_varint bs) as [[t r0]|] eqn:Et; [|discriminate].
  pose proof (parse_varint_consumes _ _ _ Et) as Hr.
  destruct ((t / 8 <? 1) || (2 ^ 29 <=? t / 8)); [discriminate|].
  destruct (t mod 8 =? 4). { destruct (t / 8 =? fld); [|discriminate]. inversion H; subst. exact Hr. }
  destruct (t mod 8 =? 0).
  { destruct (parse_varint r0) as [[v r']|] eqn:Ev; [|discriminate]. pose proof (parse_varint_consumes _ _ _ Ev). apply IH in H. lia. }
  destruct (t mod 8 =? 2).
  { destruct (parse_varint r0) as [[len r']|] eqn:Ev; [|discriminate]. pose proof (parse_varint_consumes _ _ _ Ev).
    destruct (Z.of_nat (length r') <? len); [discriminate|]. apply IH in H. rewrite skipn_length in H. lia. }
  destruct (t mod 8 =? 1). { destruct (length r0 <? 8)%nat; [discriminate|]. apply IH in H. rewrite skipn_length in H. lia. }
  destruct (t mod 8 =? 5). { destruct (length r0 <? 4)%nat; [discriminate|]. apply IH in H. rewrite skipn_length in H. lia. }
  destruct (t mod 8 =? 3); [|discriminate].
  destruct (skip_group n (d - 1) (t / 8) r0) as [r'|] eqn:Eg; [|discriminate]. apply IH in Eg. apply IH in H. lia.
Qed.

Lemma skip_group_fuel_enough n : forall m d fld bs, (length bs < n)%nat -> (length bs < m)%nat ->
  skip_group n d fld bs = skip_group m d fld bs.
Proof.
  induction n as [|n IH]; intros m d fld bs Hn Hm; [lia|]. destruct m as [|m]; [lia|]. cbn [skip_group].
  destruct (d <? 0); [reflexivity|].
  destruct (parse_varint bs) as [[t r0]|] eqn:Et; [|reflexivity].
  pose proof (parse_varint_consumes _ _ _ Et) as Hr.
  destruct ((t / 8 <? 1) || (2 ^ 29 <=? t / 8)); [reflexivity|].
  destruct (t mod 8 =? 4); [reflexivity|].
  destruct (t mod 8 =? 0).
  { destruct (parse_varint r0) as [[v r']|] eqn:Ev; [|reflexivity]. pose proof (parse_varint_consumes _ _ _ Ev). apply IH; lia. }
  destruct (t mod 8 =? 2).
  { destruct (parse_varint r0) as [[len r']|] eqn:Ev; [|reflexivity]. pose proof (parse_varint_consumes _ _ _ Ev).
    destruct (Z.of_nat (length r') <? len); [reflexivity|]. apply IH; rewrite skipn_length; lia. }
  destruct (t mod 8 =? 1). { destruct (length r0 <? 8)%nat; [reflexivity|]. apply IH; rewrite skipn_length; lia. }
  destruct (t mod 8 =? 5). { destruct (length r0 <? 4)%nat; [reflexivity|]. apply IH; rewrite skipn_length; lia. }
  destruct (t mod 8 =? 3); [|reflexivity].
  rewrite (IH m (d - 1) (t / 8) r0) by lia.
  destruct (skip_group m (d - 1) (t / 8) r0) as [r'|] eqn:Eg; [|reflexivity].
  pose proof (skip_group_consumes _ _ _ _ _ Eg). apply IH; lia.
Qed.

Lemma parse_varint_fuel_skipn n : forall bs s acc v r, parse_varint_fuel n bs s acc = Some (v, r) -> exists k, r = skipn k bs.
Proof.
  induction n as [|n IH]; intros bs s acc v r E; simpl in E; [discriminate|].
  destruct bs as [|b bs]; [discriminate|]. destruct (b <? 128).
  - destruct ((s =? 63) && (2 <=? b)); [discriminate|]. inversion E; subst. exists 1%nat. reflexivity.
  - apply IH in E. destruct E as (k & ->). exists (S k). reflexivity.
Qed.

Lemma skip_group_suffix n : forall d fld bs r, skip_group n d fld bs = Some r -> exists k, r = skipn k bs.
Proof.
  assert (Hv : forall bs v r, parse_varint bs = Some (v, r) -> exists k, r = skipn k bs).
  { intros bs v r H. unfold parse_varint in H. destruct (parse_varint_fuel 10 bs 0 0) as [[v' r']|] eqn:E; [|discriminate].
    inversion H; subst. exact (parse_varint_fuel_skipn _ _ _ _ _ _ E). }
  assert (Hcomp : forall (bs : bytes) a b, skipn a (skipn b bs) = skipn (b + a) bs).
  { intros bs a b. revert bs. induction b as [|b IHb]; intros bs; [reflexivity|]. destruct bs; [destruct a; reflexivity|]. cbn [skipn Nat.add]. apply IHb. }
  induction n as [|n IH]; intros d fld bs r H; [discriminate|]. cbn [skip_group] in H.
  destruct (d <? 0); [discriminate|].
  destruct (parse_varint bs) as [[t r0]|] eqn:Et; [|discriminate]. destruct (Hv _ _ _ Et) as (k0 & ->).
  destruct ((t / 8 <? 1) || (2 ^ 29 <=? t / 8)); [discriminate|].
  destruct (t mod 8 =? 4). { destruct (t / 8 =? fld); [|discriminate]. inversion H; subst. exists k0. reflexivity. }
  destruct (t mod 8 =? 0).
  { destruct (parse_varint (skipn k0 bs)) as [[v r']|] eqn:Ev; [|discriminate]. destruct (Hv _ _ _ Ev) as (k1 & ->).
    apply IH in H. destruct H as (k2 & ->). rewrite !Hcomp. eexists; reflexivity. }
  destruct (t mod 8 =? 2).
  { destruct (parse_varint (skipn k0 bs)) as [[len r']|] eqn:Ev; [|discriminate]. destruct (Hv _ _ _ Ev) as (k1 & ->).
    destruct (Z.of_nat (length (skipn k1 (skipn k0 bs))) <? len); [discriminate|].
    apply IH in H. destruct H as (k2 & ->). rewrite !Hcomp. eexists; reflexivity. }
  destruct (t mod 8 =? 1). { destruct (length (skipn k0 bs) <? 8)%nat; [discriminate|]. apply IH in H. destruct H as (k2 & ->). rewrite !Hcomp. eexists; reflexivity. }
  destruct (t mod 8 =? 5). { destruct (length (skipn k0 bs) <? 4)%nat; [discriminate|]. apply IH in H. destruct H as (k2 & ->). rewrite !Hcomp. eexists; reflexivity. }
  destruct (t mod 8 =? 3); [|discriminate].
  destruct (skip_group n (d - 1) (t / 8) (skipn k0 bs)) as [r'|] eqn:Eg; [|discriminate].
  apply IH in Eg. destruct Eg as (k1 & ->). apply IH in H. destruct H as (k2 & ->). rewrite !Hcomp. eexists; reflexivity.
Qed.

Lemma parse_fields_fuel_enough n : forall m bs, (length bs < n)%nat -> (length bs < m)%nat ->
  parse_fields_fuel n bs = parse_fields_fuel m bs.
Proof.
  induction n as [|n IH]; intros m bs Hn Hm; [lia|].
  destruct m as [|m]; [lia|]. cbn [parse_fields_fuel].
  destruct bs as [|b bs]; [reflexivity|].
  destruct (parse_varint (b :: bs)) as [[t r]|] eqn:Et; [|reflexivity].
  pose proof (parse_varint_consumes _ _ _ Et) as Hr.
  destruct ((t / 8 <? 1) || (2 ^ 29 <=? t / 8)); [reflexivity|].
  destruct (t mod 8 =? 0).
  { destruct (parse_varint r) as [[v r']|] eqn:Ev; [|reflexivity].
    pose proof (parse_varint_consumes _ _ _ Ev). f_equal. apply IH; simpl in *; lia. }
  destruct (t mod 8 =? 2).
  { destruct (parse_varint r) as [[len r']|] eqn:Ev; [|reflexivity].
    pose proof (parse_varint_consumes _ _ _ Ev).
    destruct (Z.of_nat (length r') <? len); [reflexivity|]. f_equal.
    apply IH; rewrite skipn_length; simpl in *; lia. }
  destruct (t mod 8 =? 1).
  { destruct (length r <? 8)%nat; [reflexivity|]. f_equal. apply IH; rewrite skipn_length; simpl in *; lia. }
  destruct (t mod 8 =? 5).
  { destruct (length r <? 4)%nat; [reflexivity|]. f_equal. apply IH; rewrite skipn_length; simpl in *; lia. }
  destruct (t mod 8 =? 3); [|reflexivity].
  rewrite (skip_group_fuel_enough n m group_depth_limit (t / 8) r) by (simpl in *; lia).
  destruct (skip_group m group_depth_limit (t / 8) r) as [r'|] eqn:Eg; [|reflexivity].
  pose proof (skip_group_consumes _ _ _ _ _ Eg). apply IH; simpl in *; lia.
Qed.

Lemma parse_fields_fuel_parse bs n : (length bs < n)%nat -> parse_fields_fuel n bs = parse_fields bs.
Proof. intros H. unfold parse_fields. apply parse_fields_fuel_enough; lia. Qed.

(* field by field, at the level of parse_fields *)
Theorem parse_fields_varint_field k v rest :
  field_ok k -> 0 < v < 2 ^ 64 ->
  parse_fields (f_varint k v ++ rest) = option_map (cons (k, RVarint v)) (parse_fields rest).
Proof.
  intros Hk Hv. unfold parse_fields at 1. rewrite parse_fields_fuel_varint_field by assumption.
  rewrite parse_fields_fuel_parse; [reflexivity|].
  rewrite app_length. unfold f_varint. destruct (v =? 0) eqn:E; [lia|].
  rewrite app_length. pose proof (varint_nonempty v). destruct (varint v); [congruence|]. simpl. lia.
Qed.

Theorem parse_fields_msg_field k body rest :
  field_ok k -> Z.of_nat (length body) < 2 ^ 64 ->
  parse_fields (f_msg k body ++ rest) = option_map (cons (k, RBytes body)) (parse_fields rest).
Proof.
  intros Hk Hl. unfold parse_fields at 1. rewrite parse_fields_fuel_len_field by assumption.
  rewrite parse_fields_fuel_parse; [reflexivity|].
  rewrite app_length. unfold f_msg, tag. rewrite !app_length.
  pose proof (varint_nonempty (k * 8 + 2)). destruct (varint (k * 8 + 2)); [congruence|]. simpl. lia.
Qed.

Theorem parse_fields_bytes_field k body rest :
  field_ok k -> body <> [] -> Z.of_nat (length body) < 2 ^ 64 ->
  parse_fields (f_bytes k body ++ rest) = option_map (cons (k, RBytes body)) (parse_fields rest).
Proof.
  intros Hk Hne Hl. unfold f_bytes. destruct body as [|x body]; [congruence|].
  apply (parse_fields_msg_field k (x :: body) rest Hk Hl).
Qed.

Lemma parse_fields_nil : parse_fields [] = Some [].
Proof. reflexivity. Qed.
