(* MercuryReportProofs.v — C07 (every emitted Mercury report satisfies the validity invariants) and
   C09 (consecutive reports chain) for the v2/v3/v4 and v1 report functions. *)
From DS Require Import Base Sort MercuryAgg Config MercuryReport MercuryAggProofs.
From Coq Require Import ZifyBool ZifyNat.

Ltac split_andb H :=
  repeat match type of H with
         | (_ && _) = true => let H1 := fresh "V" in apply andb_true_iff in H; destruct H as [H H1]
         end.

Lemma res_or_ok {A} (r : res A) d : is_ok r = true -> r = Ok (res_or r d).
Proof. destruct r; simpl; intros H; try discriminate; reflexivity. Qed.

(* ---------------- v2 / v3 / v4 ---------------- *)
Section V234.
  Variables (ver : Z) (c : mcfg) (prev : option (res Z)) (replen : fields234 -> res nat) (obs : list mobs).

  Theorem v234_report_post rf :
    report234 ver c prev replen obs = Ok (true, Some rf) ->
    let paos := omap (parse234 ver) obs in
    (* prices within the on-chain range; v3 additionally bid <= benchmark <= ask *)
    mc_min c <= rf_bm rf <= mc_max c /\
    (ver = 3 -> mc_min c <= rf_bid rf /\ rf_bid rf <= rf_bm rf /\ rf_bm rf <= rf_ask rf /\ rf_ask rf <= mc_max c) /\
    (* fees *)
    0 <= rf_link rf <= max_int192 /\ 0 <= rf_native rf <= max_int192 /\
    (* time window, no 32-bit overflow *)
    rf_valid_from rf <= rf_ts rf /\ rf_ts rf <= rf_expires rf /\ rf_expires rf = rf_ts rf + mc_window c /\ rf_expires rf <= max_uint32 /\
    (* v4: the market status was reported as valid by at least f+1 observations *)
    (ver = 4 -> (mc_f c + 1 <= count_Z (rf_status rf) (valid_vals (map p_status paos)))%nat) /\
    (* the built report is non-empty and within the declared maximum length *)
    (exists n, replen rf = Ok n /\ (0 < n <= mc_maxlen c)%nat).
  Proof.
    intros H. cbv zeta. set (paos := omap (parse234 ver) obs) in *. unfold report234 in H. fold paos in H.
    destruct paos as [|p0 ps] eqn:Ep; [discriminate|]. rewrite <- Ep in *.
    destruct (length paos <? mc_f c + 1)%nat; [discriminate|].
    destruct (consensus_timestamp (map p_ts paos)) as [ts|e|s]; try discriminate.
    match type of H with (let '(vfrom, e1) := ?X in _) = _ => destruct X as [vfrom e1] end.
    set (bm := consensus_price (map p_bm paos) (mc_f c)) in *.
    set (bid := if ver =? 3 then consensus_price (map p_bid paos) (mc_f c) else Ok 0) in *.
    set (ask := if ver =? 3 then consensus_price (map p_ask paos) (mc_f c) else Ok 0) in *.
    set (status := if ver =? 4 then market_status (map p_status paos) (mc_f c) else Ok 0) in *.
    destruct (e1 || (max_uint32 <? ts + mc_window c) || negb (is_ok bm) || negb (is_ok bid) || negb (is_ok ask) || negb (is_ok status)) eqn:Eerr;
      [discriminate|].
    repeat (apply orb_false_iff in Eerr; destruct Eerr as [Eerr ?]).
    cbn [rf_ts rf_valid_from rf_expires rf_bm rf_bid rf_ask rf_link rf_native rf_status] in H.
    destruct (ts <? vfrom) eqn:Ets; [discriminate|].
    match type of H with (if ?X then _ else _) = _ => destruct X eqn:Hval; [|discriminate] end.
    match type of H with match replen ?R with _ => _ end = _ => set (rf0 := R) in * end.
    destruct (replen rf0) as [n|e|s] eqn:Erep; try discriminate.
    destruct (mc_maxlen c <? n)%nat eqn:Emax; [discriminate|]. destruct (n =? 0)%nat eqn:E0; [discriminate|].
    inversion H; subst rf; clear H. unfold rf0 in *. cbn [rf_ts rf_valid_from rf_expires rf_bm rf_bid rf_ask rf_link rf_native rf_status].
    split_andb Hval. unfold betweenb in *.
    split; [lia|]. split.
    { intros Hv. subst ver. simpl in V3. split_andb V3. unfold betweenb in *. lia. }
    split; [lia|]. split; [lia|]. split; [lia|]. split; [lia|]. split; [reflexivity|]. split; [lia|].
    split.
    { intros Hv. subst ver. unfold status in *. simpl in *.
      assert (Hs : market_status (map p_status paos) (mc_f c) = Ok (res_or (market_status (map p_status paos) (mc_f c)) 0)).
      { apply res_or_ok. destruct (is_ok (market_status (map p_status paos) (mc_f c))); [reflexivity|discriminate]. }
      unfold market_status in Hs. apply market_status_reported_by_f_plus_1 in Hs. exact Hs. }
    exists n. split; [exact Erep|]. lia.
  Qed.

  (* with a previous report the start is exactly one past its end (no wrap), and never after the new end *)
  Theorem v234_chain_step rf pts :
    prev = Some (Ok pts) -> 0 <= pts <= max_uint32 ->
    report234 ver c prev replen obs = Ok (true, Some rf) ->
    rf_valid_from rf = pts + 1 /\ rf_valid_from rf <= rf_ts rf.
  Proof.
    intros Hp Hr H. pose proof (v234_report_post rf H) as Hpost. simpl in Hpost.
    destruct Hpost as (_ & _ & _ & _ & Hvf & _).
    split; [|exact Hvf].
    unfold report234 in H. subst prev.
    destruct (omap (parse234 ver) obs) as [|p0 ps] eqn:Ep; [discriminate|]. rewrite <- Ep in *.
    destruct (length _ <? mc_f c + 1)%nat; [discriminate|].
    destruct (consensus_timestamp _) as [ts|e|s]; try discriminate.
    destruct (pts =? max_uint32) eqn:Emax; [simpl in H; discriminate|].
    simpl orb in H.
    match type of H with (if ?X then _ else _) = _ => destruct X; [discriminate|] end.
    cbn [rf_ts rf_valid_from] in H.
    destruct (ts <? (pts + 1) mod 2 ^ 32); [discriminate|].
    match type of H with (if ?X then _ else _) = _ => destruct X; [|discriminate] end.
    match type of H with match replen ?R with _ => _ end = _ => destruct (replen R) as [n|e|s]; try discriminate end.
    destruct (mc_maxlen c <? n)%nat; [discriminate|]. destruct (n =? 0)%nat; [discriminate|].
    inversion H; subst rf. cbn [rf_valid_from]. apply Z.mod_small. unfold max_uint32 in *. lia.
  Qed.

  (* declining never carries fields; an emitted report always does *)
  Theorem v234_decline_or_report b x :
    report234 ver c prev replen obs = Ok (b, x) -> (b = false /\ x = None) \/ (b = true /\ exists rf, x = Some rf).
  Proof.
    unfold report234. intros H.
    destruct (omap (parse234 ver) obs) as [|p0 ps] eqn:Ep; [discriminate|]. rewrite <- Ep in *.
    destruct (length _ <? mc_f c + 1)%nat; [discriminate|].
    destruct (consensus_timestamp _) as [ts|e|s]; try discriminate.
    match type of H with (let '(vfrom, e1) := ?X in _) = _ => destruct X as [vfrom e1] end.
    match type of H with (if ?X then _ else _) = _ => destruct X; [discriminate|] end.
    match type of H with (if ?X then _ else _) = _ => destruct X; [inversion H; left; auto|] end.
    match type of H with (if ?X then _ else _) = _ => destruct X; [|discriminate] end.
    match type of H with match replen ?R with _ => _ end = _ => destruct (replen R) as [n|e|s]; try discriminate end.
    destruct (mc_maxlen c <? n)%nat; [discriminate|]. destruct (n =? 0)%nat; [discriminate|].
    inversion H. right. eauto.
  Qed.

  (* "declines - without error - when the new end would precede that start": a previous report ending at pts, the consensus
     timestamp below pts + 1, and nothing else wrong with the round: the answer is (false, nil), never an error *)
  Theorem v234_must_decline pts ts :
    prev = Some (Ok pts) -> 0 <= pts < max_uint32 ->
    (mc_f c + 1 <= length (omap (parse234 ver) obs))%nat ->
    consensus_timestamp (map p_ts (omap (parse234 ver) obs)) = Ok ts -> ts < pts + 1 ->
    (max_uint32 <? ts + mc_window c) = false ->
    is_ok (consensus_price (map p_bm (omap (parse234 ver) obs)) (mc_f c)) = true ->
    (ver = 3 -> is_ok (consensus_price (map p_bid (omap (parse234 ver) obs)) (mc_f c)) = true /\
                is_ok (consensus_price (map p_ask (omap (parse234 ver) obs)) (mc_f c)) = true) ->
    (ver = 4 -> is_ok (market_status (map p_status (omap (parse234 ver) obs)) (mc_f c)) = true) ->
    report234 ver c prev replen obs = Ok (false, None).
  Proof.
    intros Hp Hr Hlen Hts Hlt Hexp Hbm H3 H4. unfold report234. subst prev.
    destruct (omap (parse234 ver) obs) as [|p0 ps] eqn:Ep; [simpl in Hlen; lia|]. rewrite <- Ep in *.
    destruct (length _ <? mc_f c + 1)%nat eqn:El; [apply Nat.ltb_lt in El; lia|].
    rewrite Hts.
    assert (Em : (pts =? max_uint32) = false) by lia. rewrite Em.
    rewrite (Z.mod_small (pts + 1) (2 ^ 32)) by (unfold max_uint32 in *; lia).
    rewrite Hexp, Hbm.
    assert (Hbid : is_ok (if ver =? 3 then consensus_price (map p_bid (omap (parse234 ver) obs)) (mc_f c) else Ok 0) = true).
    { destruct (ver =? 3) eqn:E; [apply H3; lia|reflexivity]. }
    assert (Hask : is_ok (if ver =? 3 then consensus_price (map p_ask (omap (parse234 ver) obs)) (mc_f c) else Ok 0) = true).
    { destruct (ver =? 3) eqn:E; [apply H3; lia|reflexivity]. }
    assert (Hst : is_ok (if ver =? 4 then market_status (map p_status (omap (parse234 ver) obs)) (mc_f c) else Ok 0) = true).
    { destruct (ver =? 4) eqn:E; [apply H4; lia|reflexivity]. }
    rewrite Hbid, Hask, Hst. cbn [orb negb rf_ts rf_valid_from].
    assert (Et : (ts <? pts + 1) = true) by lia. rewrite Et. reflexivity.
  Qed.
End V234.

(* ---- threaded histories: each emitted report becomes the next round's previous report; the codec reads back
   the timestamp it was given (codec_consistent) ---- *)
Fixpoint thread234 (ver : Z) (c : mcfg) (replen : fields234 -> res nat) (prev : option Z) (rounds : list (list mobs)) : list fields234 :=
  match rounds with
  | [] => []
  | obs :: rest =>
      match report234 ver c (option_map (fun t => Ok t) prev) replen obs with
      | Ok (true, Some rf) => rf :: thread234 ver c replen (Some (rf_ts rf)) rest
      | _ => thread234 ver c replen prev rest
      end
  end.

(* windows [validFrom, ts] of consecutive emitted reports: adjacent and disjoint *)
Fixpoint adjacent (last : option Z) (l : list fields234) : Prop :=
  match l with
  | [] => True
  | rf :: rest => (match last with Some e => rf_valid_from rf = e + 1 | None => True end) /\
                  rf_valid_from rf <= rf_ts rf /\ adjacent (Some (rf_ts rf)) rest
  end.

Lemma nth_median_in l t : nth_median l = Ok t -> In t l.
Proof.
  unfold nth_median. destruct (nth_error (isort Z.ltb l) (median_idx l)) as [x|] eqn:E; [|discriminate].
  intros H. inversion H; subst x. apply nth_error_In in E.
  apply (Permutation.Permutation_in _ (SortProofs.isort_perm Z.ltb l)). exact E.
Qed.

Lemma parse234_ts ver o p : parse234 ver o = Some p -> p_ts p = mo_ts o.
Proof.
  unfold parse234. destruct (dec_opt _ (mo_bm o)); [|discriminate].
  destruct (if ver =? 3 then _ else _) as [[bid ask]|]; [|discriminate].
  destruct (dec_opt _ (mo_link o)); [|discriminate]. destruct (dec_opt _ (mo_native o)); [|discriminate].
  intros H. inversion H. reflexivity.
Qed.

Lemma omap_in {A B} (f : A -> option B) l y : In y (omap f l) -> exists x, In x l /\ f x = Some y.
Proof.
  induction l as [|x l IH]; simpl; [tauto|]. destruct (f x) eqn:E.
  - intros [<- | H]; [exists x; auto|]. destruct (IH H) as (x' & ? & ?). exists x'. auto.
  - intros H. destruct (IH H) as (x' & ? & ?). exists x'. auto.
Qed.

Lemma report_ts_nonneg ver c prev replen obs rf :
  (forall o, In o obs -> 0 <= mo_ts o) ->
  report234 ver c prev replen obs = Ok (true, Some rf) -> 0 <= rf_ts rf.
Proof.
  intros Hwf H. unfold report234 in H.
  destruct (omap (parse234 ver) obs) as [|p0 ps] eqn:Ep; [discriminate|]. rewrite <- Ep in *.
  destruct (length _ <? mc_f c + 1)%nat; [discriminate|].
  destruct (consensus_timestamp _) as [ts|e|s] eqn:Ets; try discriminate.
  assert (Hin : In ts (map p_ts (omap (parse234 ver) obs))) by (apply nth_median_in; exact Ets).
  apply in_map_iff in Hin. destruct Hin as (p & Hp & Hpin). apply omap_in in Hpin. destruct Hpin as (o & Ho & Hpo).
  apply parse234_ts in Hpo. specialize (Hwf o Ho).
  match type of H with (let '(vfrom, e1) := ?X in _) = _ => destruct X as [vfrom e1] end.
  match type of H with (if ?X then _ else _) = _ => destruct X; [discriminate|] end.
  cbn [rf_ts] in H.
  match type of H with (if ?X then _ else _) = _ => destruct X; [discriminate|] end.
  match type of H with (if ?X then _ else _) = _ => destruct X; [|discriminate] end.
  match type of H with match replen ?R with _ => _ end = _ => destruct (replen R) as [n|e|s]; try discriminate end.
  destruct (mc_maxlen c <? n)%nat; [discriminate|]. destruct (n =? 0)%nat; [discriminate|].
  inversion H; subst rf. cbn [rf_ts]. lia.
Qed.

(* C09: over any threaded history the windows are pairwise adjacent and disjoint *)
Theorem mercury_chain ver c replen rounds : forall prev,
  (forall obs o, In obs rounds -> In o obs -> 0 <= mo_ts o) ->
  (forall p, prev = Some p -> 0 <= p <= max_uint32) ->
  adjacent prev (thread234 ver c replen prev rounds).
Proof.
  induction rounds as [|obs rest IH]; intros prev Hwf Hp; simpl; [exact I|].
  assert (Hwf' : forall obs0 o, In obs0 rest -> In o obs0 -> 0 <= mo_ts o) by (intros; eapply Hwf; [right|]; eassumption).
  destruct (report234 ver c (option_map (fun t => Ok t) prev) replen obs) as [[b x]|e|s] eqn:E; try (apply IH; assumption).
  destruct b; [|apply IH; assumption]. destruct x as [rf|]; [|apply IH; assumption].
  simpl. pose proof (v234_report_post ver c _ replen obs rf E) as Hpost. simpl in Hpost.
  destruct Hpost as (_ & _ & _ & _ & Hvf & Hte & Hexp & Hmax & _).
  split.
  - destruct prev as [p|]; [|exact I]. simpl in E.
    apply (v234_chain_step ver c (Some (Ok p)) replen obs rf p eq_refl (Hp p eq_refl) E).
  - split; [exact Hvf|]. apply IH; [exact Hwf'|]. intros p Hpe. inversion Hpe; subst p.
    split; [|lia]. eapply report_ts_nonneg; [|exact E]. intros o Ho. apply (Hwf obs o); [left; reflexivity|exact Ho].
Qed.

(* ---------------- v1 ---------------- *)
Section V1.
  Variables (c : mcfg) (prev : option (res Z)) (replen : fields1 -> res nat) (obs : list mobs1).

  Theorem v1_report_post rf :
    report1 c prev replen obs = Ok (true, Some rf) ->
    mc_min c <= r1_bm rf <= mc_max c /\ mc_min c <= r1_bid rf <= mc_max c /\ mc_min c <= r1_ask rf <= mc_max c /\
    0 <= r1_valid_from rf <= bnum (r1_cur rf) /\ length (bhash (r1_cur rf)) = 32%nat /\
    (exists n, replen rf = Ok n /\ (0 < n <= mc_maxlen c)%nat).
  Proof.
    unfold report1. intros H.
    destruct (omap parse1 obs) as [|p0 ps] eqn:Ep; [discriminate|]. rewrite <- Ep in *.
    destruct (length _ <? mc_f c + 1)%nat; [discriminate|].
    match type of H with (let '(vfrom, e1) := ?X in _) = _ => destruct X as [vfrom e1] end.
    destruct (consensus_timestamp _) as [ts|e|s]; try discriminate.
    match type of H with (if ?X then _ else _) = _ => destruct X; [discriminate|] end.
    cbn [r1_ts r1_valid_from r1_cur r1_bm r1_bid r1_ask] in H.
    match type of H with (if ?X then _ else _) = _ => destruct X; [discriminate|] end.
    match type of H with (if ?X then _ else _) = _ => destruct X eqn:Hval; [|discriminate] end.
    match type of H with match replen ?R with _ => _ end = _ => set (rf0 := R) in * end.
    destruct (replen rf0) as [n|e|s] eqn:Erep; try discriminate.
    destruct (mc_maxlen c <? n)%nat eqn:Emax; [discriminate|]. destruct (n =? 0)%nat eqn:E0; [discriminate|].
    inversion H; subst rf; clear H. unfold rf0 in *. cbn [r1_ts r1_valid_from r1_cur r1_bm r1_bid r1_ask].
    split_andb Hval. unfold betweenb in *.
    repeat split; try lia. exists n. split; [exact Erep|lia].
  Qed.

  Theorem v1_chain_step rf pb :
    prev = Some (Ok pb) -> - 2 ^ 63 <= pb < 2 ^ 63 - 1 ->
    report1 c prev replen obs = Ok (true, Some rf) -> r1_valid_from rf = pb + 1 /\ r1_valid_from rf <= bnum (r1_cur rf).
  Proof.
    intros Hp Hr H. pose proof (v1_report_post rf H) as (_ & _ & _ & Hvf & _). split; [|lia].
    unfold report1 in H. subst prev.
    destruct (omap parse1 obs) as [|p0 ps] eqn:Ep; [discriminate|]. rewrite <- Ep in *.
    destruct (length _ <? mc_f c + 1)%nat; [discriminate|].
    destruct (consensus_timestamp _) as [ts|e|s]; try discriminate.
    match type of H with (if ?X then _ else _) = _ => destruct X; [discriminate|] end.
    cbn [r1_valid_from r1_cur] in H.
    match type of H with (if ?X then _ else _) = _ => destruct X; [discriminate|] end.
    match type of H with (if ?X then _ else _) = _ => destruct X; [|discriminate] end.
    match type of H with match replen ?R with _ => _ end = _ => destruct (replen R) as [n|e|s]; try discriminate end.
    destruct (mc_maxlen c <? n)%nat; [discriminate|]. destruct (n =? 0)%nat; [discriminate|].
    inversion H; subst rf. cbn [r1_valid_from]. unfold wrap64.
    destruct (Z.lt_ge_cases (pb + 1) 0).
    - assert ((pb + 1) mod 2 ^ 64 = pb + 1 + 2 ^ 64) by (symmetry; apply (Z.mod_unique _ _ (-1)); lia).
      rewrite H1. destruct (pb + 1 + 2 ^ 64 <? 2 ^ 63) eqn:E; lia.
    - rewrite Z.mod_small by lia. destruct (pb + 1 <? 2 ^ 63) eqn:E; lia.
  Qed.
End V1.
