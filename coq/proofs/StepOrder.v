(* StepOrder.v — C01 at the level of the whole Plugin.outcome step: every place where the Go code ranges over a map
   is given an explicit, arbitrary iteration order (a permutation of the map's entries); the step's result does not
   depend on any of them.  Range sites of outcome(): removal votes (removeChannelVotesByID), update candidates
   (updateChannelDefinitionsByHash, then sort.Slice), the validity-start carry-over over previousOutcome's
   ValidAfterNanoseconds, the fill-in loop over the new ChannelDefinitions, the deletion of removed ids, and the
   stream-aggregation loop over ChannelDefinitions.  (The outcome codec's flatten-and-sort loops are C10's
   encode_order_independent.) *)
From stdpp Require Import gmap.
From DS Require Import Base Decimal StreamValue Sort Aggregators RepoConstants Outcome.
From DS Require Import SortProofs OutcomeOrder OutcomeProofs NoPanicProofs.
From Coq Require Import Lia.
Open Scope Z_scope.

(* results compared up to the error kind: WHICH error message a failing round reports first may depend on the order,
   THAT it fails does not, and an erroring round commits nothing *)
Definition res_equiv {A} (a b : res A) : Prop :=
  match a, b with Ok x, Ok y => x = y | Err _, Err _ => True | Panic _, Panic _ => True | _, _ => False end.

Section Order.
  Context (h : Z -> chandef -> list Z).
  Hypothesis h_inj : forall c d1 d2, h c d1 = h c d2 -> d1 = d2.

  (* ---------- the stream-aggregation loop ---------- *)
  Definition collect_step (f : nat) (prev : outcome) (obs : list observation)
             (acc : res (gmap (Z * Z) sval)) (p : Z * Z) : res (gmap (Z * Z) sval) :=
    match acc with
    | Ok m => match m !! p with
              | Some _ => Ok m                                  (* `exists`: already aggregated, continue *)
              | None => match agg_value f prev obs p with
                        | Ok (Some v) => Ok (<[p := v]> m)
                        | Ok None => Ok m                    (* aggregation failed, nothing carried: no entry *)
                        | Err e => Err e
                        | Panic s => Panic s
                        end
              end
    | _ => acc
    end.
  (* for cid, cd := range outcome.ChannelDefinitions { for _, strm := range cd.Streams { ... } } *)
  Definition aggs_ordered (f : nat) (prev : outcome) (obs : list observation) (order : list (Z * chandef)) :=
    fold_left (collect_step f prev obs) (flat_map (fun kv => cd_streams (snd kv)) order) (Ok ∅).

  Definition okb (f : nat) (prev : outcome) (obs : list observation) (p : Z * Z) : bool := match agg_value f prev obs p with Ok _ => true | _ => false end.

  Lemma fold_collect_not_ok f prev obs ps : forall acc, is_ok acc = false ->
    is_ok (fold_left (collect_step f prev obs) ps acc) = false.
  Proof. induction ps as [|p ps IH]; intros acc H; [exact H|]. cbn [fold_left]. apply IH. destruct acc; [discriminate|reflexivity|reflexivity]. Qed.
  Lemma fold_collect_err f prev obs ps : forall acc, is_err acc = true ->
    is_err (fold_left (collect_step f prev obs) ps acc) = true.
  Proof. induction ps as [|p ps IH]; intros acc H; [exact H|]. cbn [fold_left]. apply IH. destruct acc; [discriminate|reflexivity|discriminate]. Qed.

  (* invariant of the accumulator: it only holds values the aggregation produced *)
  Definition acc_inv (f : nat) (prev : outcome) (obs : list observation) (m : gmap (Z * Z) sval) : Prop := forall q v, m !! q = Some v -> agg_value f prev obs q = Ok (Some v).

  Lemma fold_collect_ok f prev obs ps : forall m0, acc_inv f prev obs m0 ->
    forallb (okb f prev obs) ps = true ->
    exists m, fold_left (collect_step f prev obs) ps (Ok m0) = Ok m /\ acc_inv f prev obs m /\
      forall q, m !! q = match m0 !! q with
                         | Some v => Some v
                         | None => if bool_decide (q ∈ ps) then match agg_value f prev obs q with Ok ov => ov | _ => None end else None
                         end.
  Proof.
    induction ps as [|p ps IH]; intros m0 Hinv Hall.
    - exists m0. split; [reflexivity|]. split; [exact Hinv|]. intros q. destruct (m0 !! q); [reflexivity|].
      rewrite bool_decide_eq_false_2 by apply not_elem_of_nil. reflexivity.
    - cbn [forallb] in Hall. apply andb_true_iff in Hall. destruct Hall as [Hp Hall]. cbn [fold_left collect_step].
      destruct (m0 !! p) as [vp|] eqn:E0.
      + destruct (IH m0 Hinv Hall) as (m & Hf & Hi & Hl). exists m. split; [exact Hf|]. split; [exact Hi|].
        intros q. rewrite Hl. destruct (m0 !! q) eqn:Eq; [reflexivity|].
        destruct (decide (q = p)) as [->|Hne]; [congruence|].
        destruct (bool_decide (q ∈ ps)) eqn:Eb.
        * rewrite bool_decide_eq_true_2; [reflexivity|]. apply bool_decide_eq_true in Eb. right. exact Eb.
        * rewrite bool_decide_eq_false_2; [reflexivity|]. apply bool_decide_eq_false in Eb. intros Hin.
          apply elem_of_cons in Hin. destruct Hin; [contradiction|contradiction].
      + unfold okb in Hp. destruct (agg_value f prev obs p) as [[v|]|e|s] eqn:Ep; try discriminate.
        2:{ destruct (IH m0 Hinv Hall) as (m & Hf & Hi & Hl). exists m. split; [exact Hf|]. split; [exact Hi|].
            intros q. rewrite Hl. destruct (m0 !! q) eqn:Eq; [reflexivity|].
            destruct (decide (q = p)) as [->|Hne].
            - rewrite (bool_decide_eq_true_2 (p ∈ p :: ps)) by left. rewrite Ep. destruct (bool_decide (p ∈ ps)); reflexivity.
            - destruct (bool_decide (q ∈ ps)) eqn:Eb.
              + rewrite bool_decide_eq_true_2; [reflexivity|]. apply bool_decide_eq_true in Eb. right. exact Eb.
              + rewrite bool_decide_eq_false_2; [reflexivity|]. apply bool_decide_eq_false in Eb. intros Hin.
                apply elem_of_cons in Hin. destruct Hin; contradiction. }
        assert (Hinv' : acc_inv f prev obs (<[p := v]> m0)).
        { intros q w Hq. destruct (decide (q = p)) as [->|Hne]; [rewrite lookup_insert in Hq; inversion Hq; subst; exact Ep|].
          rewrite lookup_insert_ne in Hq by congruence. apply Hinv. exact Hq. }
        destruct (IH _ Hinv' Hall) as (m & Hf & Hi & Hl). exists m. split; [exact Hf|]. split; [exact Hi|].
        intros q. rewrite Hl. destruct (decide (q = p)) as [->|Hne].
        * rewrite lookup_insert, E0. rewrite bool_decide_eq_true_2 by left. rewrite Ep. reflexivity.
        * rewrite lookup_insert_ne by congruence. destruct (m0 !! q); [reflexivity|].
          destruct (bool_decide (q ∈ ps)) eqn:Eb.
          -- rewrite bool_decide_eq_true_2; [reflexivity|]. apply bool_decide_eq_true in Eb. right. exact Eb.
          -- rewrite bool_decide_eq_false_2; [reflexivity|]. apply bool_decide_eq_false in Eb. intros Hin.
             apply elem_of_cons in Hin. destruct Hin; contradiction.
  Qed.

  Lemma fold_collect_fails f prev obs ps : forall m0, acc_inv f prev obs m0 ->
    forallb (okb f prev obs) ps = false -> is_err (fold_left (collect_step f prev obs) ps (Ok m0)) = true.
  Proof.
    induction ps as [|p ps IH]; intros m0 Hinv Hall; [discriminate|].
    cbn [forallb] in Hall. cbn [fold_left collect_step].
    destruct (m0 !! p) as [vp|] eqn:E0.
    - (* p already present: then it is ok, the failure is further on *)
      assert (okb f prev obs p = true) by (unfold okb; rewrite (Hinv p vp E0); reflexivity).
      rewrite H in Hall. apply IH; assumption.
    - pose proof (agg_value_no_panic f prev obs p) as Hnp.
      destruct (agg_value f prev obs p) as [[v|]|e|s] eqn:Ep; try discriminate.
      + assert (okb f prev obs p = true) by (unfold okb; rewrite Ep; reflexivity). rewrite H in Hall.
        apply IH; [|exact Hall]. intros q w Hq. destruct (decide (q = p)) as [->|Hne]; [rewrite lookup_insert in Hq; inversion Hq; subst; exact Ep|].
        rewrite lookup_insert_ne in Hq by congruence. apply Hinv. exact Hq.
      + assert (okb f prev obs p = true) by (unfold okb; rewrite Ep; reflexivity). rewrite H in Hall. apply IH; assumption.
      + apply fold_collect_err. reflexivity.
  Qed.

  Lemma collect_aggs_ok f prev obs ps : forallb (okb f prev obs) ps = true ->
    exists m, collect_aggs f prev obs ps = Ok m.
  Proof.
    induction ps as [|p ps IH]; intros Hall; [eexists; reflexivity|].
    cbn [forallb] in Hall. apply andb_true_iff in Hall. destruct Hall as [Hp Hall].
    destruct (IH Hall) as (m & Hm). cbn [collect_aggs]. rewrite Hm. unfold okb in Hp.
    destruct (agg_value f prev obs p) as [[v|]|e|s]; try discriminate; eexists; reflexivity.
  Qed.
  Lemma collect_aggs_fails f prev obs ps : forallb (okb f prev obs) ps = false -> is_err (collect_aggs f prev obs ps) = true.
  Proof.
    induction ps as [|p ps IH]; intros Hall; [discriminate|]. cbn [forallb] in Hall. cbn [collect_aggs].
    pose proof (agg_value_no_panic f prev obs p) as Hnp. pose proof (collect_aggs_no_panic f prev obs ps) as Hnc.
    destruct (okb f prev obs p) eqn:Ep.
    - cbn [andb] in Hall. specialize (IH Hall). unfold okb in Ep.
      destruct (agg_value f prev obs p) as [[v|]|e|s]; try discriminate;
        destruct (collect_aggs f prev obs ps); try discriminate; reflexivity.
    - unfold okb in Ep. destruct (agg_value f prev obs p) as [[v|]|e|s]; try discriminate;
        destruct (collect_aggs f prev obs ps); try discriminate; reflexivity.
  Qed.

  Lemma forallb_same_elements {A} (p : A -> bool) (l1 l2 : list A) :
    (forall x, In x l1 <-> In x l2) -> forallb p l1 = forallb p l2.
  Proof.
    intros H. destruct (forallb p l1) eqn:E1; destruct (forallb p l2) eqn:E2; try reflexivity.
    - rewrite forallb_forall in E1. assert (forallb p l2 = true) by (apply forallb_forall; intros x Hx; apply E1, H, Hx). congruence.
    - rewrite forallb_forall in E2. assert (forallb p l1 = true) by (apply forallb_forall; intros x Hx; apply E2, H, Hx). congruence.
  Qed.

  Theorem aggs_order_independent f prev obs (defs : gmap Z chandef) (order : list (Z * chandef)) :
    Permutation order (map_to_list defs) ->
    res_equiv (aggs_ordered f prev obs order) (collect_aggs f prev obs (referenced_pairs defs)).
  Proof.
    intros HP. unfold aggs_ordered.
    set (ps1 := flat_map (fun kv => cd_streams (snd kv)) order).
    assert (Hsame : forall q, In q ps1 <-> In q (referenced_pairs defs)).
    { intros q. unfold referenced_pairs. rewrite <- (elem_of_list_In (remove_dups _) q), elem_of_remove_dups, elem_of_list_In.
      subst ps1. rewrite !in_flat_map. split; intros (kv & Hin & Hs); exists kv; (split; [|exact Hs]).
      - apply (Permutation_in _ HP). exact Hin.
      - apply (Permutation_in _ (Permutation_sym HP)). exact Hin. }
    pose proof (forallb_same_elements (okb f prev obs) _ _ Hsame) as Hfb.
    destruct (forallb (okb f prev obs) ps1) eqn:E1.
    - destruct (fold_collect_ok f prev obs ps1 ∅) as (m1 & Hf1 & _ & Hl1); [intros q v Hq; rewrite lookup_empty in Hq; discriminate|exact E1|].
      destruct (collect_aggs_ok f prev obs (referenced_pairs defs)) as (m2 & Hm2); [congruence|].
      rewrite Hf1, Hm2. cbn. apply map_eq. intros q. rewrite Hl1, lookup_empty.
      destruct (collect_aggs_lookup f prev obs _ m2 q Hm2) as [[H1 H2]|(v & H1 & H2 & H3)].
      + rewrite H1. destruct (bool_decide (q ∈ ps1)) eqn:Eb; [|reflexivity]. apply bool_decide_eq_true in Eb.
        destruct H2 as [H2|H2]; [exfalso; apply H2; apply elem_of_list_In, Hsame, elem_of_list_In; exact Eb|rewrite H2; reflexivity].
      + rewrite H1, H3. rewrite bool_decide_eq_true_2; [reflexivity|]. apply elem_of_list_In, Hsame, elem_of_list_In. exact H2.
    - pose proof (fold_collect_fails f prev obs ps1 ∅) as H1. pose proof (collect_aggs_fails f prev obs (referenced_pairs defs)) as H2.
      rewrite <- Hfb in H2. specialize (H2 eq_refl).
      specialize (H1 ltac:(intros q v Hq; rewrite lookup_empty in Hq; discriminate) E1).
      destruct (fold_left _ ps1 (Ok ∅)); try discriminate. destruct (collect_aggs _ _ _ _); try discriminate. exact I.
  Qed.

  (* ---------- the validity-start loops ---------- *)
  (* for channelID, previousValidAfter := range previousOutcome.ValidAfterNanoseconds { ... } *)
  Definition carry_ordered (cf : cfg) (prev : outcome) (order : list (Z * Z)) : gmap Z Z :=
    fold_left (fun m kv => <[fst kv := if is_reportable prev (fst kv) (c_pver cf) (c_interval cf) then o_ts prev else snd kv]> m) order ∅.
  (* for channelID := range outcome.ChannelDefinitions { if _, ok := va[channelID]; !ok { va[channelID] = ts } } *)
  Definition fill_ordered (ts : Z) (va0 : gmap Z Z) (order : list Z) : gmap Z Z :=
    fold_left (fun m c => match m !! c with Some _ => m | None => <[c := ts]> m end) order va0.

  Lemma fold_insert_list_to_map (l : list (Z * Z)) : forall m0 : gmap Z Z,
    fold_left (fun m kv => <[fst kv := snd kv]> m) l m0 = list_to_map (rev l) ∪ m0.
  Proof.
    induction l as [|[k v] l IH]; intros m0; cbn [fold_left rev fst snd].
    - cbn. rewrite (left_id ∅ (∪)). reflexivity.
    - rewrite IH, list_to_map_app. cbn [list_to_map foldr fst snd]. rewrite insert_empty, <- (assoc (∪)).
      rewrite <- insert_union_singleton_l. reflexivity.
  Qed.

  Lemma carry_order_independent cf prev (order : list (Z * Z)) :
    Permutation order (map_to_list (o_va prev)) ->
    carry_ordered cf prev order =
    map_imap (fun c pva => Some (if is_reportable prev c (c_pver cf) (c_interval cf) then o_ts prev else pva)) (o_va prev).
  Proof.
    intros HP. unfold carry_ordered, map_imap.
    set (g := fun kv : Z * Z => (fst kv, if is_reportable prev (fst kv) (c_pver cf) (c_interval cf) then o_ts prev else snd kv)).
    assert (Hf : forall l (m0 : gmap Z Z),
               fold_left (fun m kv => <[fst kv := if is_reportable prev (fst kv) (c_pver cf) (c_interval cf) then o_ts prev else snd kv]> m) l m0 =
               fold_left (fun m kv => <[fst kv := snd kv]> m) (map g l) m0).
    { induction l as [|x l IH]; intros m0; [reflexivity|]. cbn [map fold_left]. rewrite IH. reflexivity. }
    rewrite Hf, fold_insert_list_to_map, (right_id ∅ (∪)).
    assert (Ho : omap (fun ix : Z * Z => (fst ix,.) <$> uncurry (fun c pva => Some (if is_reportable prev c (c_pver cf) (c_interval cf) then o_ts prev else pva)) ix)
                      (map_to_list (o_va prev)) = map g (map_to_list (o_va prev))).
    { clear HP. induction (map_to_list (o_va prev)) as [|[k v] l IH]; [reflexivity|]. cbn [omap list_omap map]. cbn. f_equal. exact IH. }
    rewrite Ho. apply list_to_map_proper.
    - rewrite <- map_rev. assert (Hk : (map g (rev order)).*1 = (rev order).*1).
      { generalize (rev order). induction l as [|x l IH]; [reflexivity|]. cbn. f_equal. exact IH. }
      rewrite Hk. assert (HP' : rev order ≡ₚ map_to_list (o_va prev)) by (etransitivity; [symmetry; apply Permutation_rev|exact HP]).
      rewrite HP'. apply NoDup_fst_map_to_list.
    - etransitivity; [symmetry; apply Permutation_rev|]. apply Permutation_map. exact HP.
  Qed.

  Lemma fill_order_independent ts (va0 : gmap Z Z) (defs : gmap Z chandef) (order : list Z) :
    Permutation order (map fst (map_to_list defs)) ->
    fill_ordered ts va0 order = va0 ∪ ((fun _ => ts) <$> defs).
  Proof.
    intros HP. apply map_eq. intros c.
    assert (Hl : forall l (m0 : gmap Z Z),
              fold_left (fun m c => match m !! c with Some _ => m | None => <[c := ts]> m end) l m0 !! c =
              match m0 !! c with Some v => Some v | None => if bool_decide (c ∈ l) then Some ts else None end).
    { clear. induction l as [|k l IH]; intros m0; cbn [fold_left].
      - destruct (m0 !! c); [reflexivity|]. rewrite bool_decide_eq_false_2 by apply not_elem_of_nil. reflexivity.
      - rewrite IH. destruct (m0 !! k) eqn:Ek.
        + destruct (m0 !! c) eqn:Ec; [reflexivity|]. assert (c <> k) by congruence.
          destruct (bool_decide (c ∈ l)) eqn:Eb.
          * rewrite bool_decide_eq_true_2; [reflexivity|]. apply bool_decide_eq_true in Eb. right. exact Eb.
          * rewrite bool_decide_eq_false_2; [reflexivity|]. apply bool_decide_eq_false in Eb. intros Hin. apply elem_of_cons in Hin. destruct Hin; contradiction.
        + destruct (decide (c = k)) as [->|Hne].
          * rewrite lookup_insert, Ek. rewrite bool_decide_eq_true_2 by left. reflexivity.
          * rewrite lookup_insert_ne by congruence. destruct (m0 !! c); [reflexivity|].
            destruct (bool_decide (c ∈ l)) eqn:Eb.
            -- rewrite bool_decide_eq_true_2; [reflexivity|]. apply bool_decide_eq_true in Eb. right. exact Eb.
            -- rewrite bool_decide_eq_false_2; [reflexivity|]. apply bool_decide_eq_false in Eb. intros Hin. apply elem_of_cons in Hin. destruct Hin; contradiction. }
    unfold fill_ordered. rewrite Hl. rewrite lookup_union, lookup_fmap.
    destruct (va0 !! c) as [v|]; [destruct (defs !! c); reflexivity|].
    destruct (defs !! c) as [d|] eqn:Ed; cbn.
    - rewrite bool_decide_eq_true_2; [reflexivity|]. rewrite HP. apply elem_of_list_In, in_map_iff. exists (c, d).
      split; [reflexivity|apply elem_of_list_In, elem_of_map_to_list; exact Ed].
    - rewrite bool_decide_eq_false_2; [reflexivity|]. rewrite HP. intros Hin. apply elem_of_list_In, in_map_iff in Hin.
      destruct Hin as ([k d] & Hk & Hin). cbn in Hk. subst k. apply elem_of_list_In, elem_of_map_to_list in Hin. congruence.
  Qed.

  (* ---------- the whole step with explicit iteration orders ---------- *)
  Record orders := {
    ord_rm : list Z;                 (* range removeChannelVotesByID *)
    ord_cand : list (Z * chandef);   (* range updateChannelDefinitionsByHash (before sort.Slice) *)
    ord_carry : list (Z * Z);        (* range previousOutcome.ValidAfterNanoseconds *)
    ord_fill : list Z;               (* range outcome.ChannelDefinitions (validity-start fill-in) *)
    ord_aggs : list (Z * chandef) }. (* range outcome.ChannelDefinitions (stream aggregation) *)

  Definition outcome_step_ordered (o : orders) (cf : cfg) (seq : Z) (prev : outcome) (aos : list (option observation)) : res outcome :=
    let f := c_f cf in
    if (length aos <? 2 * f + 1)%nat then Err EInvalid
    else if seq <=? 1 then codec_commit (c_pver cf) (initial_outcome cf)
    else
      match accept_observations (c_has_pred cf) aos with
      | Panic s => Panic s
      | Err e => Err e
      | Ok (rr, obs) =>
          match obs with
          | [] => Err ETooFew
          | _ =>
              match median_ts (map ob_ts obs) with
              | Panic s => Panic s
              | Err e => Err e
              | Ok ts =>
                  let promoted := bool_decide (o_stage prev = Staging) && match rr with Some _ => true | None => false end in
                  let st1 := if promoted then Production else o_stage prev in
                  let st2 := if bool_decide (st1 = Production) && (f <? retire_votes obs)%nat then Retired else st1 in
                  let retired := bool_decide (st2 = Retired) in
                  let defs := new_defs_ordered h f retired (o_defs prev) obs (ord_rm o) (ord_cand o) in
                  let removed := if retired then [] else ord_rm o in
                  let carried := carry_ordered cf prev (ord_carry o) in
                  let va0 := match rr with
                             | Some rva => if promoted && negb (bool_decide (rva = ∅)) then rva else carried
                             | None => carried
                             end in
                  let va1 := fill_ordered ts va0 (ord_fill o) in
                  let va := foldr delete va1 removed in
                  match aggs_ordered f prev obs (ord_aggs o) with
                  | Panic s => Panic s
                  | Err e => Err e
                  | Ok aggs =>
                      codec_commit (c_pver cf)
                        {| o_stage := st2; o_ts := ts; o_defs := defs; o_va := va; o_aggs := aggs |}
                  end
              end
          end
      end.

  (* every order is some permutation of the entries of the map it ranges over *)
  Definition orders_valid (o : orders) (cf : cfg) (prev : outcome) (obs : list observation) (defs : gmap Z chandef) : Prop :=
    Permutation (ord_rm o) (removed_ids (c_f cf) obs) /\
    Permutation (ord_cand o) (update_candidates obs) /\
    Permutation (ord_carry o) (map_to_list (o_va prev)) /\
    Permutation (ord_fill o) (map fst (map_to_list defs)) /\
    Permutation (ord_aggs o) (map_to_list defs).

  Theorem outcome_step_order_independent o cf seq prev aos :
    (forall rr obs retired, accept_observations (c_has_pred cf) aos = Ok (rr, obs) ->
       orders_valid o cf prev obs (new_defs h (c_f cf) retired (o_defs prev) obs)) ->
    res_equiv (outcome_step_ordered o cf seq prev aos) (outcome_step h cf seq prev aos).
  Proof.
    intros Hv. unfold outcome_step_ordered, outcome_step.
    assert (Hrefl : forall (r : res outcome), res_equiv r r) by (intros [x|e|s]; cbn; auto).
    destruct (length aos <? 2 * c_f cf + 1)%nat; [exact I|].
    destruct (seq <=? 1); [apply Hrefl|].
    destruct (accept_observations (c_has_pred cf) aos) as [[rr obs]|e|s] eqn:Ea; [|exact I|exact I].
    destruct obs as [|ob obs']; [exact I|]. set (obs := ob :: obs') in *.
    destruct (median_ts (map ob_ts obs)) as [ts|e|s]; [|exact I|exact I].
    set (retired := bool_decide (_ = Retired)).
    destruct (Hv rr obs retired eq_refl) as (Hrm & Hcand & Hcarry & Hfill & Haggs).
    rewrite (new_defs_order_independent h h_inj (c_f cf) retired (o_defs prev) obs _ _ Hrm Hcand).
    rewrite (carry_order_independent cf prev _ Hcarry).
    rewrite (fill_order_independent ts _ _ _ Hfill).
    pose proof (aggs_order_independent (c_f cf) prev obs _ _ Haggs) as Hag.
    assert (Hdel : forall (m : gmap Z Z), foldr delete m (if retired then [] else ord_rm o) =
                                          foldr delete m (if retired then [] else removed_ids (c_f cf) obs)).
    { intros m. destruct retired; [reflexivity|]. apply foldr_delete_perm. exact Hrm. }
    rewrite Hdel.
    destruct (aggs_ordered (c_f cf) prev obs (ord_aggs o)) as [a1|e1|s1];
      destruct (collect_aggs (c_f cf) prev obs _) as [a2|e2|s2]; cbn in Hag; try contradiction; try exact I.
    subst a2. apply Hrefl.
  Qed.
End Order.
