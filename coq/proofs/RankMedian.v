(* RankMedian.v — byzantine robustness of rank-k selection, independent of the sorting algorithm.
   Lists carry a ghost tag per element (true = supplied by a correct observer); the selection
   functions never see the tag. *)
From Coq Require Import List Arith Lia Permutation Bool.
Import ListNotations.

Section Rank.
  Context {A : Type} (le : A -> A -> Prop).
  Hypothesis le_trans : forall a b c, le a b -> le b c -> le a c.
  Hypothesis le_refl : forall a, le a a.

  Definition nth_sorted (s : list A) : Prop :=
    forall i j d, i <= j -> j < length s -> le (nth i s d) (nth j s d).

  Definition honest_count (l : list (A * bool)) : nat := length (filter (fun x => snd x) l).
  Definition faulty_count (l : list (A * bool)) : nat := length (filter (fun x => negb (snd x)) l).

  Lemma count_split (l : list (A * bool)) : honest_count l + faulty_count l = length l.
  Proof.
    unfold honest_count, faulty_count. induction l as [|[a []] l IH]; simpl; lia.
  Qed.

  Lemma faulty_count_app l1 l2 : faulty_count (l1 ++ l2) = faulty_count l1 + faulty_count l2.
  Proof. unfold faulty_count. rewrite filter_app, app_length. reflexivity. Qed.

  Lemma faulty_count_firstn n l : faulty_count (firstn n l) <= faulty_count l.
  Proof. rewrite <- (firstn_skipn n l) at 2. rewrite faulty_count_app. lia. Qed.

  Lemma faulty_count_skipn n l : faulty_count (skipn n l) <= faulty_count l.
  Proof. rewrite <- (firstn_skipn n l) at 2. rewrite faulty_count_app. lia. Qed.

  Lemma faulty_count_perm l1 l2 : Permutation l1 l2 -> faulty_count l1 = faulty_count l2.
  Proof.
    intros H. unfold faulty_count. induction H; simpl; try lia.
    - destruct (negb (snd x)); simpl; lia.
    - destruct (negb (snd x)), (negb (snd y)); simpl; lia.
  Qed.

  Lemma honest_count_perm l1 l2 : Permutation l1 l2 -> honest_count l1 = honest_count l2.
  Proof.
    intros H. pose proof (count_split l1). pose proof (count_split l2).
    pose proof (faulty_count_perm _ _ H). pose proof (Permutation_length H). lia.
  Qed.

  Lemma exists_honest (l : list (A * bool)) : faulty_count l < length l -> exists x, In (x, true) l.
  Proof.
    unfold faulty_count. induction l as [|[a b] l IH]; simpl; intros H; [lia|].
    destruct b; simpl in H.
    - exists a. left. reflexivity.
    - destruct IH as [x Hx]; [lia|]. exists x. right. exact Hx.
  Qed.

  Lemma nth_firstn_lt {B} (l : list B) n i d : i < n -> nth i (firstn n l) d = nth i l d.
  Proof.
    revert n i. induction l as [|x l IH]; intros n i H; destruct n, i; simpl; try reflexivity; try lia.
    apply IH. lia.
  Qed.

  Lemma nth_skipn_add {B} (l : list B) n i d : nth i (skipn n l) d = nth (n + i) l d.
  Proof.
    revert n. induction l as [|x l IH]; intros n; destruct n; simpl; try reflexivity.
    - destruct i; reflexivity.
    - apply IH.
  Qed.

  Lemma in_firstn_nth {B} (l : list B) n x d :
    In x (firstn n l) -> exists i, i < n /\ i < length l /\ nth i l d = x.
  Proof.
    intros H. apply (In_nth _ _ d) in H. destruct H as (i & Hi & Hn).
    rewrite firstn_length in Hi. exists i. split; [lia|]. split; [lia|].
    rewrite nth_firstn_lt in Hn by lia. exact Hn.
  Qed.

  Lemma in_skipn_nth {B} (l : list B) n x d :
    In x (skipn n l) -> exists j, n <= j /\ j < length l /\ nth j l d = x.
  Proof.
    intros H. apply (In_nth _ _ d) in H. destruct H as (i & Hi & Hn).
    rewrite skipn_length in Hi. exists (n + i). split; [lia|]. split; [lia|].
    rewrite nth_skipn_add in Hn. exact Hn.
  Qed.

  (* the element of rank k in ANY sorted permutation lies between two honest values, as soon as
     at most k elements and fewer than (n - k) elements are faulty *)
  Theorem rank_between_honest (l : list (A * bool)) (s : list A) (k : nat) (d : A) :
    Permutation s (map fst l) -> nth_sorted s ->
    k < length s -> faulty_count l <= k -> faulty_count l < length s - k ->
    exists lo hi, In (lo, true) l /\ In (hi, true) l /\ le lo (nth k s d) /\ le (nth k s d) hi.
  Proof.
    intros Hperm Hsorted Hk Hb1 Hb2.
    apply Permutation_map_inv in Hperm. destruct Hperm as (st & Hs & Hpl).
    assert (Hlen : length st = length s) by (subst s; rewrite map_length; reflexivity).
    assert (Hfc : faulty_count st = faulty_count l) by (symmetry; apply faulty_count_perm; exact Hpl).
    (* an honest element among positions 0..k *)
    assert (H1 : exists x, In (x, true) (firstn (S k) st)).
    { apply exists_honest. rewrite firstn_length. pose proof (faulty_count_firstn (S k) st). lia. }
    destruct H1 as (lo & Hlo).
    destruct (in_firstn_nth st (S k) (lo, true) (d, true) Hlo) as (i & Hi & Hil & Hnth).
    (* an honest element among positions k..n-1 *)
    assert (H2 : exists x, In (x, true) (skipn k st)).
    { apply exists_honest. rewrite skipn_length. pose proof (faulty_count_skipn k st). lia. }
    destruct H2 as (hi & Hhi).
    destruct (in_skipn_nth st k (hi, true) (d, true) Hhi) as (j & Hj & Hjl & Hnthj).
    exists lo, hi.
    split. { apply (Permutation_in _ (Permutation_sym Hpl)).
             rewrite <- (firstn_skipn (S k) st). apply in_or_app. left. exact Hlo. }
    split. { apply (Permutation_in _ (Permutation_sym Hpl)).
             rewrite <- (firstn_skipn k st). apply in_or_app. right. exact Hhi. }
    assert (Hsi : nth i s d = lo).
    { subst s. change d with (fst (d, true)). rewrite map_nth. rewrite Hnth. reflexivity. }
    assert (Hsj : nth j s d = hi).
    { subst s. change d with (fst (d, true)). rewrite map_nth. rewrite Hnthj. reflexivity. }
    split.
    - rewrite <- Hsi. apply Hsorted; lia.
    - rewrite <- Hsj. apply Hsorted; lia.
  Qed.

  (* the plugins' median: index len/2, with strictly more honest than faulty values *)
  Theorem rank_median_between_honest (l : list (A * bool)) (s : list A) (d : A) :
    Permutation s (map fst l) -> nth_sorted s ->
    faulty_count l < honest_count l ->
    exists lo hi, In (lo, true) l /\ In (hi, true) l /\
                  le lo (nth (length s / 2) s d) /\ le (nth (length s / 2) s d) hi.
  Proof.
    intros Hperm Hsorted Hmaj.
    pose proof (count_split l) as Hsplit.
    assert (Hlen : length s = length l).
    { rewrite (Permutation_length Hperm), map_length. reflexivity. }
    assert (Hpos : 0 < length s) by lia.
    pose proof (Nat.div_mod (length s) 2 ltac:(lia)) as Hdm.
    pose proof (Nat.mod_upper_bound (length s) 2 ltac:(lia)) as Hmod.
    apply rank_between_honest; try assumption; lia.
  Qed.
End Rank.

(* ---------- order statistics are monotone under a pointwise bound ---------- *)
Section OrderStat.
  Context {A K : Type} (le : K -> K -> Prop) (leb : K -> K -> bool).
  Hypothesis le_trans : forall a b c, le a b -> le b c -> le a c.
  Hypothesis leb_spec : forall a b, leb a b = true <-> le a b.
  Context (f g : A -> K).

  Definition countb (p : A -> bool) (l : list A) : nat := length (filter p l).

  Lemma countb_perm p l1 l2 : Permutation l1 l2 -> countb p l1 = countb p l2.
  Proof.
    intros H. unfold countb. induction H; simpl; try lia.
    - destruct (p x); simpl; lia.
    - destruct (p x), (p y); simpl; lia.
  Qed.

  Lemma countb_all p l : (forall x, In x l -> p x = true) -> countb p l = length l.
  Proof.
    unfold countb. induction l as [|x l IH]; intros H; simpl; [reflexivity|].
    rewrite (H x (or_introl eq_refl)). simpl. f_equal. apply IH. intros y Hy. apply H. right. exact Hy.
  Qed.

  Lemma countb_none p l : (forall x, In x l -> p x = false) -> countb p l = 0.
  Proof.
    unfold countb. induction l as [|x l IH]; intros H; simpl; [reflexivity|].
    rewrite (H x (or_introl eq_refl)). apply IH. intros y Hy. apply H. right. exact Hy.
  Qed.

  Lemma countb_app p l1 l2 : countb p (l1 ++ l2) = countb p l1 + countb p l2.
  Proof. unfold countb. rewrite filter_app, app_length. reflexivity. Qed.

  Lemma countb_le p l : countb p l <= length l.
  Proof. unfold countb. induction l as [|x l IH]; simpl; [lia|]. destruct (p x); simpl; lia. Qed.

  Theorem order_stat_monotone (l s1 s2 : list A) (k : nat) (d : A) :
    Permutation s1 l -> Permutation s2 l ->
    nth_sorted (fun a b => le (f a) (f b)) s1 -> nth_sorted (fun a b => le (g a) (g b)) s2 ->
    (forall x, In x l -> le (f x) (g x)) -> k < length l ->
    le (f (nth k s1 d)) (g (nth k s2 d)).
  Proof.
    intros P1 P2 S1 S2 Hfg Hk.
    set (y := g (nth k s2 d)).
    set (p := fun x => leb (f x) y).
    assert (L1 : length s1 = length l) by (apply Permutation_length; exact P1).
    assert (L2 : length s2 = length l) by (apply Permutation_length; exact P2).
    (* at least k+1 elements have f x <= y *)
    assert (C2 : S k <= countb p s2).
    { rewrite <- (firstn_skipn (S k) s2), countb_app.
      rewrite countb_all.
      - rewrite firstn_length. lia.
      - intros x Hx. destruct (in_firstn_nth s2 (S k) x d Hx) as (i & Hi & Hil & Hn).
        unfold p. apply leb_spec. eapply le_trans; [apply Hfg; apply (Permutation_in _ P2); rewrite <- Hn; apply nth_In; lia|].
        subst x. unfold y. apply S2; lia. }
    rewrite (countb_perm p s2 l P2), <- (countb_perm p s1 l P1) in C2.
    (* if the k-th element of s1 were above y, at most k elements could be <= y *)
    destruct (leb (f (nth k s1 d)) y) eqn:E; [apply leb_spec; exact E|].
    exfalso.
    rewrite <- (firstn_skipn k s1), countb_app in C2.
    rewrite (countb_none p (skipn k s1)) in C2.
    - pose proof (countb_le p (firstn k s1)). rewrite firstn_length in H. lia.
    - intros x Hx. destruct (in_skipn_nth s1 k x d Hx) as (j & Hj & Hjl & Hn).
      unfold p. destruct (leb (f x) y) eqn:E2; [|reflexivity].
      exfalso. apply leb_spec in E2.
      assert (le (f (nth k s1 d)) y).
      { eapply le_trans; [|exact E2]. subst x. apply S1; lia. }
      apply leb_spec in H. congruence.
  Qed.
End OrderStat.
