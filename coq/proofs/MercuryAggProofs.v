(* MercuryAggProofs.v — C08: Mercury consensus values are byzantine-robust; plus order independence
   of the frequency-map loops (used by C01). *)
From DS Require Import Base Sort MercuryAgg.
From DS Require Import RankMedian SortProofs AggregatorProofs BaseProofs.
From Coq Require Import ZifyBool Permutation.

(* observations are tagged: ((value, valid), from a correct observer?) *)
Notation tfield := (field * bool)%type.
Definition tvalid (txs : list tfield) : list (Z * bool) :=
  map (fun p => (fst (fst p), snd p)) (filter (fun p => snd (fst p)) txs).

Lemma tvalid_fst txs : map fst (tvalid txs) = valid_vals (map fst txs).
Proof.
  unfold tvalid, valid_vals. induction txs as [|[[v b] h] txs IH]; simpl; [reflexivity|].
  destruct b; simpl; [f_equal|]; exact IH.
Qed.

Lemma nth_median_tagged (tl : list (Z * bool)) v :
  (faulty_count tl < honest_count tl)%nat -> nth_median (map fst tl) = Ok v ->
  exists lo hi, In (lo, true) tl /\ In (hi, true) tl /\ lo <= v <= hi.
Proof.
  intros Hmaj H. unfold nth_median in H. destruct (nth_error _ _) as [x|] eqn:E; [|discriminate].
  inversion H; subst x.
  destruct (median_tagged Z.le Z.ltb Z.le_trans Z.le_refl Zltb_le Znltb_le tl v Hmaj E) as (lo & hi & ? & ? & ? & ?).
  exists lo, hi. auto.
Qed.

(* timestamps: every observation counts *)
Theorem consensus_timestamp_in_honest_range (tts : list (Z * bool)) t :
  (faulty_count tts < honest_count tts)%nat -> consensus_timestamp (map fst tts) = Ok t ->
  exists lo hi, In (lo, true) tts /\ In (hi, true) tts /\ lo <= t <= hi.
Proof. apply nth_median_tagged. Qed.

(* prices: valid values from correct observers outnumber valid values from faulty ones *)
Theorem consensus_price_in_honest_range (txs : list tfield) f v :
  (faulty_count (tvalid txs) < honest_count (tvalid txs))%nat ->
  consensus_price (map fst txs) f = Ok v ->
  exists lo hi, In ((lo, true), true) txs /\ In ((hi, true), true) txs /\ lo <= v <= hi.
Proof.
  intros Hmaj H. unfold consensus_price in H. rewrite <- tvalid_fst in H.
  destruct (length _ <? f + 1)%nat; [discriminate|].
  destruct (nth_median_tagged (tvalid txs) v Hmaj H) as (lo & hi & H1 & H2 & H3).
  assert (Hin : forall x, In (x, true) (tvalid txs) -> In ((x, true), true) txs).
  { intros x Hx. unfold tvalid in Hx. apply in_map_iff in Hx. destruct Hx as ([[y b] h] & Heq & Hy).
    apply filter_In in Hy. destruct Hy as [Hy Hb]. simpl in *. inversion Heq; subst. exact Hy. }
  exists lo, hi. auto.
Qed.

Theorem consensus_price_err_below_f_plus_1 (xs : list field) (f : nat) :
  (length (valid_vals xs) < f + 1)%nat -> consensus_price xs f = Err ETooFew.
Proof. intros H. unfold consensus_price. destruct (length _ <? f + 1)%nat eqn:E; [reflexivity|]. apply Nat.ltb_ge in E. lia. Qed.

(* fees: valid and non-negative *)
Definition tfee (txs : list tfield) : list (Z * bool) := filter (fun p => 0 <=? fst p) (tvalid txs).
Lemma tfee_fst txs : map fst (tfee txs) = filter (fun x => 0 <=? x) (valid_vals (map fst txs)).
Proof.
  unfold tfee. rewrite <- tvalid_fst. induction (tvalid txs) as [|[x h] l IH]; simpl; [reflexivity|].
  destruct (0 <=? x); simpl; [f_equal|]; exact IH.
Qed.

Theorem consensus_fee_in_honest_range (txs : list tfield) f v :
  (faulty_count (tfee txs) < honest_count (tfee txs))%nat ->
  consensus_fee (map fst txs) f = Ok v ->
  0 <= v /\ exists lo hi, In ((lo, true), true) txs /\ In ((hi, true), true) txs /\ lo <= v <= hi.
Proof.
  intros Hmaj H. unfold consensus_fee in H. rewrite <- tfee_fst in H.
  destruct (length _ <? f + 1)%nat; [discriminate|].
  destruct (nth_median_tagged (tfee txs) v Hmaj H) as (lo & hi & H1 & H2 & H3).
  assert (Hin : forall x, In (x, true) (tfee txs) -> 0 <= x /\ In ((x, true), true) txs).
  { intros x Hx. unfold tfee in Hx. apply filter_In in Hx. destruct Hx as [Hx Hp]. simpl in Hp.
    split; [lia|]. unfold tvalid in Hx. apply in_map_iff in Hx. destruct Hx as ([[y b] h] & Heq & Hy).
    apply filter_In in Hy. destruct Hy as [Hy Hb]. simpl in *. inversion Heq; subst. exact Hy. }
  destruct (Hin lo H1) as [? ?]. destruct (Hin hi H2) as [? ?].
  split; [lia|]. exists lo, hi. auto.
Qed.

Theorem consensus_fee_err_below_f_plus_1 (xs : list field) (f : nat) :
  (length (filter (fun x => (0 <=? x)%Z) (valid_vals xs)) < f + 1)%nat -> consensus_fee xs f = Err ETooFew.
Proof. intros H. unfold consensus_fee. destruct (length _ <? f + 1)%nat eqn:E; [reflexivity|]. apply Nat.ltb_ge in E. lia. Qed.

(* ---------- f+1-agreement selectors ---------- *)
Lemma existsb_Z_in x l : existsb (Z.eqb x) l = true <-> In x l.
Proof.
  rewrite existsb_exists. split; [intros (y & Hy & He); apply Z.eqb_eq in He; subst; exact Hy|].
  intros H. exists x. split; [exact H|apply Z.eqb_refl].
Qed.
Lemma nodup_Z_in x l : In x (nodup_Z l) <-> In x l.
Proof.
  induction l as [|y l IH]; simpl; [tauto|]. destruct (existsb (Z.eqb y) l) eqn:E.
  - rewrite IH. apply existsb_Z_in in E. split; [auto|]. intros [<- | H]; auto.
  - simpl. rewrite IH. tauto.
Qed.
Lemma nodup_Z_nodup l : NoDup (nodup_Z l).
Proof.
  induction l as [|y l IH]; simpl; [constructor|]. destruct (existsb (Z.eqb y) l) eqn:E; [exact IH|].
  constructor; [|exact IH]. rewrite nodup_Z_in. intros H. apply existsb_Z_in in H. congruence.
Qed.

(* max finalized timestamp *)
Lemma mfts_fold_inv f v ks : forall acc,
  (acc = -2 \/ (f < count_Z acc v)%nat) ->
  let m := fold_left (fun acc ts => if (f <? count_Z ts v)%nat && (acc <? ts) then ts else acc) ks acc in
  (m = -2 \/ (f < count_Z m v)%nat) /\ acc <= m /\
  (forall k, In k ks -> (f < count_Z k v)%nat -> k <= m).
Proof.
  induction ks as [|k ks IH]; intros acc Hacc; simpl.
  - split; [exact Hacc|]. split; [lia|]. intros k [].
  - set (acc' := if (f <? count_Z k v)%nat && (acc <? k) then k else acc).
    assert (Hacc' : acc' = -2 \/ (f < count_Z acc' v)%nat).
    { unfold acc'. destruct ((f <? count_Z k v)%nat && (acc <? k)) eqn:E; [|exact Hacc]. right. lia. }
    destruct (IH acc' Hacc') as (R1 & R2 & R3). split; [exact R1|].
    assert (acc <= acc' /\ ((f < count_Z k v)%nat -> k <= acc')).
    { unfold acc'. destruct ((f <? count_Z k v)%nat && (acc <? k)) eqn:E; lia. }
    split; [lia|]. intros k' [<- | Hk'] Hc; [lia|apply R3; assumption].
Qed.

Theorem max_finalized_ts_reported_by_f_plus_1 ks xs f v :
  max_finalized_ts_order ks xs f = Ok v -> (f + 1 <= count_Z v (valid_vals xs))%nat.
Proof.
  unfold max_finalized_ts_order. destruct (length _ <? f + 1)%nat; [discriminate|].
  destruct (mfts_fold_inv f (valid_vals xs) ks (-2) (or_introl eq_refl)) as (R1 & _ & _).
  set (m := fold_left _ ks (-2)) in *. destruct (m <? -1) eqn:E; [discriminate|].
  intros H. inversion H; subst v. destruct R1; lia.
Qed.

(* the result is the greatest value with more than f votes, whatever the iteration order *)
Theorem max_finalized_ts_order_independent ks xs f :
  Permutation ks (nodup_Z (valid_vals xs)) ->
  max_finalized_ts_order ks xs f = max_finalized_ts xs f.
Proof.
  intros HP. unfold max_finalized_ts, max_finalized_ts_order.
  destruct (length _ <? f + 1)%nat; [reflexivity|].
  set (v := valid_vals xs) in *.
  destruct (mfts_fold_inv f v ks (-2) (or_introl eq_refl)) as (A1 & A2 & A3).
  destruct (mfts_fold_inv f v (nodup_Z v) (-2) (or_introl eq_refl)) as (B1 & B2 & B3).
  set (m1 := fold_left _ ks (-2)) in *. set (m2 := fold_left _ (nodup_Z v) (-2)) in *.
  assert (Hin : forall m, (f < count_Z m v)%nat -> In m v).
  { intros m Hm. unfold count_Z in Hm. destruct (filter (Z.eqb m) v) as [|y l] eqn:Ef; [simpl in Hm; lia|].
    assert (In y (filter (Z.eqb m) v)) by (rewrite Ef; left; reflexivity).
    apply filter_In in H. destruct H as [H1 H2]. apply Z.eqb_eq in H2. subst. exact H1. }
  assert (Hm : m1 = m2); [|rewrite Hm; reflexivity].
  destruct A1 as [A1|A1], B1 as [B1|B1]; try lia.
  - assert (In m2 ks) by (apply (Permutation_in _ (Permutation_sym HP)); apply nodup_Z_in; apply Hin; exact B1).
    specialize (A3 m2 H B1). lia.
  - assert (In m1 (nodup_Z v)) by (apply nodup_Z_in; apply Hin; exact A1).
    specialize (B3 m1 H A1). lia.
  - assert (In m2 ks) by (apply (Permutation_in _ (Permutation_sym HP)); apply nodup_Z_in; apply Hin; exact B1).
    assert (In m1 (nodup_Z v)) by (apply nodup_Z_in; apply Hin; exact A1).
    specialize (A3 m2 H B1). specialize (B3 m1 H0 A1). lia.
Qed.

Theorem max_finalized_ts_err_below_f_plus_1 ks xs f :
  (forall v, (count_Z v (valid_vals xs) <= f)%nat) -> max_finalized_ts_order ks xs f = Err ETooFew.
Proof.
  intros H. unfold max_finalized_ts_order. destruct (length _ <? f + 1)%nat; [reflexivity|].
  destruct (mfts_fold_inv f (valid_vals xs) ks (-2) (or_introl eq_refl)) as (R1 & _ & _).
  set (m := fold_left _ ks (-2)) in *. destruct R1 as [->|R1]; [reflexivity|]. specialize (H m). lia.
Qed.

(* max finalized block number (v1): mode *)
Lemma head_isort_in {A} (less : A -> A -> bool) l x r : isort less l = x :: r -> In x l.
Proof. intros H. apply (Permutation_in _ (isort_perm less l)). rewrite H. left. reflexivity. Qed.

Lemma max_count_ge keys v : forall k, In k keys -> (count_Z k v <= max_count keys v)%nat.
Proof.
  unfold max_count.
  assert (G : forall keys acc, (acc <= fold_left (fun acc k => Nat.max acc (count_Z k v)) keys acc)%nat /\
              forall k, In k keys -> (count_Z k v <= fold_left (fun acc k => Nat.max acc (count_Z k v)) keys acc)%nat).
  { induction keys0 as [|k ks IH]; intros acc; simpl; [split; [lia|intros k []]|].
    destruct (IH (Nat.max acc (count_Z k v))) as [I1 I2]. split; [lia|].
    intros k' [<- | Hk]; [lia|apply I2; exact Hk]. }
  intros k Hk. apply (proj2 (G keys O)). exact Hk.
Qed.

Theorem max_finalized_block_reported_by_f_plus_1 ks xs f n :
  max_finalized_block_order ks xs f = Ok n -> (f + 1 <= count_Z n (valid_vals xs))%nat.
Proof.
  unfold max_finalized_block_order. destruct (length _ <? f + 1)%nat; [discriminate|].
  set (v := valid_vals xs). set (mc := max_count v v).
  destruct (mc <? f + 1)%nat eqn:E; [discriminate|]. apply Nat.ltb_ge in E.
  destruct (isort Z.ltb _) as [|x r] eqn:Es; [discriminate|]. intros H. inversion H; subst x.
  apply head_isort_in in Es. apply filter_In in Es. destruct Es as [_ Hc]. apply Nat.eqb_eq in Hc. lia.
Qed.

(* market status (v4) *)
Lemma status_fold_inv v ks : forall acc,
  (snd acc = O \/ snd acc = count_Z (fst acc) v) ->
  let r := fold_left (status_step v) ks acc in snd r = O \/ snd r = count_Z (fst r) v.
Proof.
  induction ks as [|k ks IH]; intros acc Hacc; simpl; [exact Hacc|]. apply IH.
  unfold status_step. destruct (snd acc <? count_Z k v)%nat eqn:E1; simpl; [right; reflexivity|].
  destruct (count_Z k v =? snd acc)%nat eqn:E2; [|exact Hacc].
  destruct (k <? fst acc); simpl; [|exact Hacc]. apply Nat.eqb_eq in E2. right. lia.
Qed.

Theorem market_status_reported_by_f_plus_1 ks xs f s :
  market_status_order ks xs f = Ok s -> (f + 1 <= count_Z s (valid_vals xs))%nat.
Proof.
  unfold market_status_order.
  pose proof (status_fold_inv (valid_vals xs) ks (0, O) (or_introl eq_refl)) as Hinv. simpl in Hinv.
  destruct (fold_left (status_step (valid_vals xs)) ks (0, O)) as [s' c] eqn:E. simpl in Hinv.
  destruct (c <? f + 1)%nat eqn:Ec; [discriminate|]. apply Nat.ltb_ge in Ec.
  intros H. inversion H; subst s'. destruct Hinv; lia.
Qed.

(* ---------- a value voted by >= f+1 observers was voted by a correct one ---------- *)
Theorem f_plus_1_votes_honest_witness (txs : list tfield) f v :
  (length (filter (fun p => negb (snd p)) txs) <= f)%nat ->
  (f + 1 <= count_Z v (valid_vals (map fst txs)))%nat ->
  In ((v, true), true) txs.
Proof.
  revert f. induction txs as [|[[x b] h] txs IH]; intros f Hf Hc; simpl in *; [unfold count_Z in Hc; simpl in Hc; lia|].
  unfold valid_vals in *. simpl in *. destruct b; simpl in *.
  - unfold count_Z in *. simpl in Hc. destruct (v =? x) eqn:E.
    + apply Z.eqb_eq in E. subst x. destruct h; [left; reflexivity|].
      simpl in Hf, Hc. destruct f as [|f]; [lia|]. right. apply (IH f); simpl; lia.
    + right. destruct h; simpl in Hf; apply (IH f); simpl; lia.
  - right. destruct h; simpl in Hf; apply (IH f); simpl; lia.
Qed.

(* ---------- latest block (v1) ---------- *)
Lemma block_eqb_eq a b : block_eqb a b = true <-> a = b.
Proof.
  unfold block_eqb. destruct a as [n1 h1 t1], b as [n2 h2 t2]. simpl. split.
  - intros H. apply andb_true_iff in H. destruct H as [H H3]. apply andb_true_iff in H. destruct H as [H1 H2].
    apply Z.eqb_eq in H1, H3. apply bytes_eqb_eq in H2. subst. reflexivity.
  - intros H. inversion H; subst. rewrite !Z.eqb_refl, bytes_eqb_refl. reflexivity.
Qed.

Lemma count_block_filter_le b p l : (count_block b (filter p l) <= count_block b l)%nat.
Proof.
  unfold count_block. induction l as [|x l IH]; simpl; [lia|].
  destruct (p x); simpl; destruct (block_eqb b x); simpl; lia.
Qed.

Lemma nodup_block_in x l : In x (nodup_block l) -> In x l.
Proof.
  induction l as [|y l IH]; simpl; [tauto|]. destruct (existsb (block_eqb y) l); simpl; intuition.
Qed.

Lemma fold_max_count_ge (grp : list block) : forall l acc,
  (acc <= fold_left (fun acc b => Nat.max acc (count_block b grp)) l acc)%nat.
Proof. induction l as [|b l IH]; intros acc; simpl; [lia|]. specialize (IH (Nat.max acc (count_block b grp))). lia. Qed.

Theorem latest_block_groups_reported nums all f b :
  latest_block_groups nums all f = Ok b -> (f + 1 <= count_block b all)%nat.
Proof.
  induction nums as [|n rest IH]; simpl; [discriminate|].
  set (grp := filter (fun b0 => bnum b0 =? n) all).
  set (mc := fold_left _ grp O).
  destruct (f + 1 <=? mc)%nat eqn:E; [|exact IH]. apply Nat.leb_le in E.
  unfold best_block. destruct (isort _ _) as [|x r] eqn:Es; [discriminate|].
  intros H. inversion H; subst x. apply head_isort_in in Es. apply filter_In in Es.
  destruct Es as [_ Hc]. apply Nat.eqb_eq in Hc.
  pose proof (count_block_filter_le b (fun b0 => bnum b0 =? n) all). fold grp in H0. lia.
Qed.

Theorem latest_block_reported_by_f_plus_1 obs f b :
  latest_block obs f = Ok b -> (f + 1 <= count_block b (flat_map obs_blocks obs))%nat.
Proof. unfold latest_block. apply latest_block_groups_reported. Qed.

(* observations whose block lists have no duplicates (enforced by parseAttributedObservation):
   >= f+1 occurrences means >= f+1 observers, hence a correct one when at most f are faulty *)
Theorem latest_block_honest_witness (tobs : list ((list block * option block) * bool)) f b :
  (forall o h, In (o, h) tobs -> NoDup (obs_blocks o)) ->
  (length (filter (fun p => negb (snd p)) tobs) <= f)%nat ->
  latest_block (map fst tobs) f = Ok b ->
  exists o, In (o, true) tobs /\ In b (obs_blocks o).
Proof.
  intros Hnd Hf H. apply latest_block_reported_by_f_plus_1 in H.
  revert f Hf H. induction tobs as [|[o h] tobs IH]; intros f Hf H; simpl in *; [unfold count_block in H; simpl in H; lia|].
  unfold count_block in H. rewrite filter_app, app_length in H. fold (count_block b (obs_blocks o)) in H.
  fold (count_block b (flat_map obs_blocks (map fst tobs))) in H.
  assert (Hle1 : (count_block b (obs_blocks o) <= 1)%nat).
  { specialize (Hnd o h (or_introl eq_refl)). unfold count_block. clear - Hnd.
    induction (obs_blocks o) as [|x l IHl]; simpl; [lia|]. inversion Hnd; subst.
    destruct (block_eqb b x) eqn:E; simpl; [|apply IHl; assumption].
    apply block_eqb_eq in E. subst x.
    assert (filter (block_eqb b) l = []).
    { clear - H1. induction l as [|y l IH]; simpl; [reflexivity|]. destruct (block_eqb b y) eqn:E.
      - apply block_eqb_eq in E. subst. exfalso. apply H1. left. reflexivity.
      - apply IH. intros Hc. apply H1. right. exact Hc. }
    rewrite H. simpl. lia. }
  assert (Hin : (1 <= count_block b (obs_blocks o))%nat -> In b (obs_blocks o)).
  { unfold count_block. intros Hc. destruct (filter (block_eqb b) (obs_blocks o)) as [|y l] eqn:Ef; [simpl in Hc; lia|].
    assert (In y (filter (block_eqb b) (obs_blocks o))) by (rewrite Ef; left; reflexivity).
    apply filter_In in H0. destruct H0 as [H1 H2]. apply block_eqb_eq in H2. subst. exact H1. }
  assert (IH' : forall f', (length (filter (fun p => negb (snd p)) tobs) <= f')%nat ->
                 (f' + 1 <= count_block b (flat_map obs_blocks (map fst tobs)))%nat ->
                 exists o0, In (o0, true) tobs /\ In b (obs_blocks o0)).
  { intros f' A B. apply (IH (fun o0 h0 Hi => Hnd o0 h0 (or_intror Hi)) f' A B). }
  destruct h; simpl in Hf.
  - destruct (Nat.eq_dec (count_block b (obs_blocks o)) 1) as [E1|E1].
    + exists o. split; [left; reflexivity|apply Hin; lia].
    + destruct (IH' f Hf) as (o0 & Ho & Hb); [lia|]. exists o0. split; [right; exact Ho|exact Hb].
  - destruct f as [|f]; [lia|].
    destruct (IH' f) as (o0 & Ho & Hb); [lia|lia|]. exists o0. split; [right; exact Ho|exact Hb].
Qed.

(* ---------- order independence of the v1 max-finalized block number (C01) ---------- *)
Theorem max_finalized_block_order_independent ks xs f :
  Permutation ks (nodup_Z (valid_vals xs)) ->
  max_finalized_block_order ks xs f = max_finalized_block xs f.
Proof.
  intros HP. unfold max_finalized_block, max_finalized_block_order.
  destruct (length _ <? f + 1)%nat; [reflexivity|].
  set (v := valid_vals xs) in *. destruct (max_count v v <? f + 1)%nat; [reflexivity|].
  assert (E : isort Z.ltb (filter (fun k => (count_Z k v =? max_count v v)%nat) ks) =
              isort Z.ltb (filter (fun k => (count_Z k v =? max_count v v)%nat) (nodup_Z v))); [|rewrite E; reflexivity].
  assert (Hperm : Permutation (filter (fun k => (count_Z k v =? max_count v v)%nat) ks)
                              (filter (fun k => (count_Z k v =? max_count v v)%nat) (nodup_Z v))).
  { clear - HP. induction HP; simpl.
    - constructor.
    - destruct (count_Z x v =? max_count v v)%nat; [constructor|]; assumption.
    - destruct (count_Z x v =? max_count v v)%nat, (count_Z y v =? max_count v v)%nat; try reflexivity. apply perm_swap.
    - etransitivity; eassumption. }
  assert (Hnd : NoDup (filter (fun k => (count_Z k v =? max_count v v)%nat) ks)).
  { apply NoDup_filter. apply (Permutation_NoDup (Permutation_sym HP)). apply nodup_Z_nodup. }
  (* sorted duplicate-free lists with the same elements coincide *)
  set (l1 := filter _ ks) in *. set (l2 := filter _ (nodup_Z v)) in *.
  assert (S1 := isort_asc Z.le Z.ltb Z.le_trans Zltb_le Znltb_le l1).
  assert (S2 := isort_asc Z.le Z.ltb Z.le_trans Zltb_le Znltb_le l2).
  assert (P1 := isort_perm Z.ltb l1). assert (P2 := isort_perm Z.ltb l2).
  assert (N1 : NoDup (isort Z.ltb l1)) by (apply (Permutation_NoDup (Permutation_sym P1)); exact Hnd).
  assert (N2 : NoDup (isort Z.ltb l2)) by (apply (Permutation_NoDup (Permutation_sym P2)); apply (Permutation_NoDup Hperm); exact Hnd).
  assert (Hin : forall x, In x (isort Z.ltb l1) <-> In x (isort Z.ltb l2)).
  { intros x. split; intros H.
    - apply (Permutation_in _ (Permutation_sym P2)). apply (Permutation_in _ Hperm). apply (Permutation_in _ P1). exact H.
    - apply (Permutation_in _ (Permutation_sym P1)). apply (Permutation_in _ (Permutation_sym Hperm)). apply (Permutation_in _ P2). exact H. }
  revert S1 S2 N1 N2 Hin. generalize (isort Z.ltb l1) (isort Z.ltb l2). clear.
  induction l as [|a l IH]; intros l' S1 S2 N1 N2 Hin.
  - destruct l' as [|b l']; [reflexivity|]. exfalso. apply (proj2 (Hin b)). left. reflexivity.
  - destruct l' as [|b l']; [exfalso; apply (proj1 (Hin a)); left; reflexivity|].
    inversion S1 as [|? ? S1' A1]; subst. inversion S2 as [|? ? S2' A2]; subst.
    inversion N1 as [|? ? Na N1']; subst. inversion N2 as [|? ? Nb N2']; subst.
    rewrite Forall_forall in A1, A2.
    assert (a = b).
    { assert (a <= b) by (destruct (proj2 (Hin b) (or_introl eq_refl)) as [-> | Hj]; [lia|apply A1; exact Hj]).
      assert (b <= a) by (destruct (proj1 (Hin a) (or_introl eq_refl)) as [-> | Hi]; [lia|apply A2; exact Hi]). lia. }
    subst b. f_equal. apply IH; try assumption.
    intros x. split; intros Hx.
    + destruct (proj1 (Hin x) (or_intror Hx)) as [-> | ?]; [contradiction|assumption].
    + destruct (proj2 (Hin x) (or_intror Hx)) as [-> | ?]; [contradiction|assumption].
Qed.
