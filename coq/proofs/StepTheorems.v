(* StepTheorems.v — C05 / C06 / C18 (one outcome step) and the facts about accepted observations. *)
From stdpp Require Import gmap.
From DS Require Import Base Decimal StreamValue Sort Aggregators RepoConstants Outcome.
From DS Require Import SortProofs OutcomeProofs.
From Coq Require Import Lia.
Open Scope Z_scope.

(* ---------- accepted observations ---------- *)
Lemma accept_fold_inv has_pred aos : forall st rr obs,
  fold_left (accept_step has_pred) aos st = Ok (rr, obs) ->
  exists rr0 obs0, st = Ok (rr0, obs0) /\
    (forall ob, ob ∈ obs -> ob ∈ obs0 \/ Some ob ∈ aos) /\
    (forall va, rr = Some va -> rr0 = Some va \/ (has_pred = true /\ exists ob, Some ob ∈ aos /\ ob_att ob = GoodAttest va)).
Proof.
  induction aos as [|o aos IH]; intros st rr obs H; simpl in H.
  - exists rr, obs. split; [exact H|]. split; [auto|]. intros va ->. left. reflexivity.
  - destruct (IH _ _ _ H) as (rr1 & obs1 & Hst & Hobs & Hrr).
    destruct st as [[rr0 obs0]|e|s]; simpl in Hst; try discriminate.
    exists rr0, obs0. split; [reflexivity|].
    destruct o as [ob|]; simpl in Hst.
    2:{ inversion Hst; subst. split.
        - intros x Hx. destruct (Hobs x Hx) as [?|?]; [left; assumption|right; right; assumption].
        - intros va Hva. destruct (Hrr va Hva) as [?|(? & x & ? & ?)]; [left; assumption|].
          right. split; [assumption|]. exists x. split; [right; assumption|assumption]. }
    assert (Hcases : (rr1 = rr0 /\ (obs1 = obs0 ++ [ob] \/ obs1 = obs0)) \/
                     (exists va, has_pred = true /\ ob_att ob = GoodAttest va /\ rr1 = Some va /\ obs1 = obs0 ++ [ob])).
    { destruct (ob_att ob) eqn:Ea; destruct rr0 as [r0|]; try (inversion Hst; subst; left; auto; fail).
      - destruct has_pred; [inversion Hst; subst; left; auto|discriminate].
      - destruct has_pred; [|discriminate]. inversion Hst; subst. right. eauto. }
    split.
    + intros x Hx. destruct (Hobs x Hx) as [Hx1|Hx1]; [|right; right; exact Hx1].
      destruct Hcases as [[_ [-> | ->]]|(va & _ & _ & _ & ->)]; try (left; exact Hx1).
      * apply elem_of_app in Hx1. destruct Hx1 as [?|Hx1]; [left; assumption|].
        apply elem_of_list_singleton in Hx1. subst. right. left.
      * apply elem_of_app in Hx1. destruct Hx1 as [?|Hx1]; [left; assumption|].
        apply elem_of_list_singleton in Hx1. subst. right. left.
    + intros va Hva. destruct (Hrr va Hva) as [Hr|(Hp & x & Hx & Ha)].
      * destruct Hcases as [[-> _]|(va' & Hp & Ha & -> & _)]; [left; exact Hr|].
        inversion Hr; subst. right. split; [reflexivity|]. exists ob. split; [left|exact Ha].
      * right. split; [exact Hp|]. exists x. split; [right; exact Hx|exact Ha].
Qed.

Lemma accept_observations_sound has_pred aos rr obs :
  accept_observations has_pred aos = Ok (rr, obs) ->
  (forall ob, ob ∈ obs -> Some ob ∈ aos) /\
  (forall va, rr = Some va -> has_pred = true /\ exists ob, Some ob ∈ aos /\ ob_att ob = GoodAttest va).
Proof.
  intros H. destruct (accept_fold_inv has_pred aos _ _ _ H) as (rr0 & obs0 & Hst & Hobs & Hrr).
  inversion Hst; subst. split.
  - intros ob Hob. destruct (Hobs ob Hob) as [Hx|Hx]; [inversion Hx|exact Hx].
  - intros va Hva. destruct (Hrr va Hva) as [Hx|Hx]; [discriminate|exact Hx].
Qed.

Section Steps.
  Context (h : Z -> chandef -> list Z).

  (* ================= C06 ================= *)
  Theorem def_change_needs_votes cf seq prev aos next c :
    1 < seq -> outcome_step h cf seq prev aos = Ok next ->
    o_defs next !! c <> o_defs prev !! c ->
    exists rr obs, accept_observations (c_has_pred cf) aos = Ok (rr, obs) /\
      o_stage prev <> Retired /\ o_stage next <> Retired /\
      ((o_defs next !! c = None /\ (c_f cf < remove_votes obs c)%nat) \/
       (exists d, o_defs next !! c = Some d /\ (c_f cf < update_votes obs c d)%nat)).
  Proof.
    intros Hseq H Hne.
    destruct (outcome_step_inv h cf seq prev aos next Hseq H) as (rr & obs & ts & aggs & Ha & _ & _ & _ & Hc).
    destruct (codec_commit_fields _ _ _ Hc) as (Hst & _ & Hd & _ & _).
    exists rr, obs. split; [exact Ha|].
    rewrite Hd in *. simpl in *.
    destruct (new_defs_change h _ _ _ _ _ Hne) as [Hret Hdisj].
    apply bool_decide_eq_false in Hret.
    split.
    - intros Hp. apply Hret. apply stage2_retired. exact Hp.
    - split; [rewrite Hst; exact Hret|exact Hdisj].
  Qed.

  Theorem stage_change_needs_votes_or_attestation cf seq prev aos next :
    1 < seq -> outcome_step h cf seq prev aos = Ok next ->
    o_stage next <> o_stage prev ->
    exists rr obs, accept_observations (c_has_pred cf) aos = Ok (rr, obs) /\
      ((o_stage prev = Staging /\ (o_stage next = Production \/ (o_stage next = Retired /\ (c_f cf < retire_votes obs)%nat)) /\
        c_has_pred cf = true /\ exists va ob, Some ob ∈ aos /\ ob_att ob = GoodAttest va) \/
       (o_stage prev = Production /\ o_stage next = Retired /\ (c_f cf < retire_votes obs)%nat)).
  Proof.
    intros Hseq H Hne.
    destruct (outcome_step_inv h cf seq prev aos next Hseq H) as (rr & obs & ts & aggs & Ha & _ & _ & _ & Hc).
    destruct (codec_commit_fields _ _ _ Hc) as (Hst & _ & _ & _ & _). simpl in Hst.
    exists rr, obs. split; [exact Ha|].
    rewrite Hst in *.
    destruct (stage2_cases (c_f cf) prev rr obs) as [Hs|[(Hp & Hrr & Hs)|(Hp & Hs & Hv)]]; [congruence| |].
    - left. split; [exact Hp|]. split; [exact Hs|].
      destruct rr as [va|]; [|congruence].
      destruct (proj2 (accept_observations_sound _ _ _ _ Ha) va eq_refl) as (Hpred & ob & Hob & Hatt).
      split; [exact Hpred|]. exists va, ob. auto.
    - right. auto.
  Qed.

  Theorem retired_ignores_votes cf seq prev aos next :
    1 < seq -> outcome_step h cf seq prev aos = Ok next -> o_stage prev = Retired ->
    o_stage next = Retired /\ o_defs next = o_defs prev.
  Proof.
    intros Hseq H Hp.
    destruct (outcome_step_inv h cf seq prev aos next Hseq H) as (rr & obs & ts & aggs & Ha & _ & _ & _ & Hc).
    destruct (codec_commit_fields _ _ _ Hc) as (Hst & _ & Hd & _ & _). simpl in Hst, Hd.
    assert (Hs2 : stage2_of (c_f cf) prev rr obs = Retired) by (apply stage2_retired; exact Hp).
    split; [congruence|]. rewrite Hd, Hs2. unfold new_defs. rewrite bool_decide_eq_true_2 by reflexivity. reflexivity.
  Qed.

  (* ---- "up to f faulty observers can never by themselves change the channel set or retire the instance" ---- *)
  Fixpoint accept_tagged (found : bool) (taos : list (option observation * bool)) : list (observation * bool) :=
    match taos with
    | [] => []
    | (None, _) :: r => accept_tagged found r
    | (Some ob, t) :: r =>
        match ob_att ob, found with
        | NoAttest, _ => (ob, t) :: accept_tagged found r
        | _, true => (ob, t) :: accept_tagged found r
        | BadAttest, false => accept_tagged false r
        | GoodAttest _, false => (ob, t) :: accept_tagged true r
        end
    end.

  Lemma accept_tagged_spec has_pred taos : forall rr0 acc0 rr obs,
    fold_left (accept_step has_pred) (map fst taos) (Ok (rr0, acc0)) = Ok (rr, obs) ->
    obs = acc0 ++ map fst (accept_tagged (match rr0 with Some _ => true | None => false end) taos).
  Proof.
    induction taos as [|[o t] taos IH]; intros rr0 acc0 rr obs H; simpl in H.
    - inversion H; subst. simpl. rewrite app_nil_r. reflexivity.
    - destruct o as [ob|]; simpl in *; [|apply IH in H; exact H].
      destruct (ob_att ob) eqn:Ea; destruct rr0 as [r0|]; simpl in *.
      + apply IH in H. rewrite H, <- app_assoc. reflexivity.
      + apply IH in H. rewrite H, <- app_assoc. reflexivity.
      + apply IH in H. rewrite H, <- app_assoc. reflexivity.
      + destruct has_pred; [apply IH in H; exact H|].
        exfalso. clear - H. induction (map fst taos) as [|x l IHl]; simpl in H; [discriminate|apply IHl; exact H].
      + apply IH in H. rewrite H, <- app_assoc. reflexivity.
      + destruct has_pred.
        * apply IH in H. rewrite H, <- app_assoc. reflexivity.
        * exfalso. clear - H. induction (map fst taos) as [|x l IHl]; simpl in H; [discriminate|apply IHl; exact H].
  Qed.

  Lemma accept_tagged_sub found taos x : In x (accept_tagged found taos) -> In (Some (fst x), snd x) taos.
  Proof.
    revert found. induction taos as [|[o t] taos IH]; intros found H; simpl in H; [contradiction|].
    destruct o as [ob|]; [|right; eapply IH; exact H].
    destruct (ob_att ob), found; simpl in H;
      try (destruct H as [<- | H]; [left; reflexivity|right; eapply IH; exact H]); right; eapply IH; exact H.
  Qed.

  Lemma accept_tagged_faulty found taos :
    (length (List.filter (fun p => negb (snd p)) (accept_tagged found taos)) <=
     length (List.filter (fun p => negb (snd p)) taos))%nat.
  Proof.
    revert found. induction taos as [|[o t] taos IH]; intros found; simpl; [lia|].
    destruct o as [ob|]; [|specialize (IH found); destruct t; simpl; lia].
    destruct (ob_att ob), found; simpl; destruct t; simpl;
      try (specialize (IH true); lia); try (specialize (IH false); lia).
  Qed.

  Lemma votes_le_faulty (P : observation -> bool) (tl : list (observation * bool)) :
    (forall ob, In (ob, true) tl -> P ob = false) ->
    (length (List.filter P (map fst tl)) <= length (List.filter (fun p => negb (snd p)) tl))%nat.
  Proof.
    induction tl as [|[ob t] tl IH]; intros Hh; simpl; [lia|].
    assert (IH' := IH (fun o Ho => Hh o (or_intror Ho))).
    destruct t; simpl.
    - rewrite (Hh ob (or_introl eq_refl)). exact IH'.
    - destruct (P ob); simpl; lia.
  Qed.

  Theorem f_faulty_cannot_change cf seq prev (taos : list (option observation * bool)) next :
    1 < seq -> outcome_step h cf seq prev (map fst taos) = Ok next ->
    (length (List.filter (fun p => negb (snd p)) taos) <= c_f cf)%nat ->
    (forall ob, In (Some ob, true) taos -> ob_removes ob = [] /\ ob_updates ob = ∅ /\ ob_retire ob = false) ->
    o_defs next = o_defs prev /\
    (o_stage next = o_stage prev \/ (o_stage prev = Staging /\ o_stage next = Production)).
  Proof.
    intros Hseq H Hf Hhon.
    assert (Hvotes : forall rr obs (P : observation -> bool),
               accept_observations (c_has_pred cf) (map fst taos) = Ok (rr, obs) ->
               (forall ob, In (Some ob, true) taos -> P ob = false) ->
               (length (List.filter P obs) <= c_f cf)%nat).
    { intros rr obs P Ha HP. unfold accept_observations in Ha. apply accept_tagged_spec in Ha. simpl in Ha. subst obs.
      etransitivity; [apply votes_le_faulty|].
      - intros ob Hob. apply HP. apply (accept_tagged_sub false taos (ob, true)). exact Hob.
      - etransitivity; [apply accept_tagged_faulty|exact Hf]. }
    split.
    - apply map_eq. intros c. destruct (decide (o_defs next !! c = o_defs prev !! c)) as [Heq|Hne]; [exact Heq|].
      exfalso.
      destruct (def_change_needs_votes cf seq prev (map fst taos) next c Hseq H Hne) as (rr & obs & Ha & _ & _ & [[_ Hv]|(d & _ & Hv)]).
      + assert (Hle := Hvotes rr obs (fun ob => bool_decide (c ∈ ob_removes ob)) Ha).
        unfold remove_votes in Hv. cut (length (List.filter (fun ob => bool_decide (c ∈ ob_removes ob)) obs) <= c_f cf)%nat; [lia|].
        apply Hle. intros ob Hob. destruct (Hhon ob Hob) as (Hr & _ & _). rewrite Hr.
        apply bool_decide_eq_false_2. apply not_elem_of_nil.
      + assert (Hle := Hvotes rr obs (fun ob => bool_decide (ob_updates ob !! c = Some d)) Ha).
        unfold update_votes in Hv. cut (length (List.filter (fun ob => bool_decide (ob_updates ob !! c = Some d)) obs) <= c_f cf)%nat; [lia|].
        apply Hle. intros ob Hob. destruct (Hhon ob Hob) as (_ & Hu & _). rewrite Hu.
        apply bool_decide_eq_false_2. rewrite lookup_empty. discriminate.
    - destruct (decide (o_stage next = o_stage prev)) as [Heq|Hne]; [left; exact Heq|]. right.
      destruct (stage_change_needs_votes_or_attestation cf seq prev (map fst taos) next Hseq H Hne)
        as (rr & obs & Ha & [(Hp & Hs & _)|(Hp & Hs & Hv)]).
      + split; [exact Hp|]. destruct Hs as [Hs|[_ Hv]]; [exact Hs|]. exfalso.
        assert (Hle := Hvotes rr obs ob_retire Ha). unfold retire_votes in Hv.
        cut (length (List.filter ob_retire obs) <= c_f cf)%nat; [lia|]. apply Hle.
        intros ob Hob. apply (Hhon ob Hob).
      + exfalso. assert (Hle := Hvotes rr obs ob_retire Ha). unfold retire_votes in Hv.
        cut (length (List.filter ob_retire obs) <= c_f cf)%nat; [lia|]. apply Hle.
        intros ob Hob. apply (Hhon ob Hob).
  Qed.

  (* ================= C05 ================= *)
  Theorem initial_stage cf seq prev aos next :
    seq <= 1 -> outcome_step h cf seq prev aos = Ok next ->
    o_stage next = (if c_has_pred cf then Staging else Production).
  Proof. intros Hs H. apply (outcome_step_initial h cf seq prev aos next Hs H). Qed.

  Definition stage_le (a b : stage) : Prop :=
    match a, b with
    | Staging, (Staging | Production | Retired) => True
    | Production, (Production | Retired) => True
    | Retired, Retired => True
    | _, _ => False
    end.

  Theorem stage_monotone cf seq prev aos next :
    1 < seq -> outcome_step h cf seq prev aos = Ok next ->
    (o_stage prev = Staging \/ o_stage prev = Production \/ o_stage prev = Retired) ->
    stage_le (o_stage prev) (o_stage next).
  Proof.
    intros Hseq H Hp.
    destruct (outcome_step_inv h cf seq prev aos next Hseq H) as (rr & obs & ts & aggs & Ha & _ & _ & _ & Hc).
    destruct (codec_commit_fields _ _ _ Hc) as (Hst & _ & _ & _ & _). simpl in Hst. rewrite Hst.
    destruct (stage2_cases (c_f cf) prev rr obs) as [Hs|[(Hp' & _ & [Hs|[Hs _]])|(Hp' & Hs & _)]]; rewrite Hs.
    - destruct Hp as [-> | [-> | ->]]; exact I.
    - rewrite Hp'. exact I.
    - rewrite Hp'. exact I.
    - rewrite Hp'. exact I.
  Qed.

  Theorem retired_freezes cf seq prev aos next :
    1 < seq -> outcome_step h cf seq prev aos = Ok next -> o_stage prev = Retired ->
    o_stage next = Retired /\ o_defs next = o_defs prev /\
    (forall c v, o_va prev !! c = Some v -> o_va next !! c = Some (trunc_va (c_pver cf) v)).
  Proof.
    intros Hseq H Hp.
    destruct (retired_ignores_votes cf seq prev aos next Hseq H Hp) as [Hs Hd].
    split; [exact Hs|]. split; [exact Hd|].
    destruct (outcome_step_inv h cf seq prev aos next Hseq H) as (rr & obs & ts & aggs & Ha & _ & _ & _ & Hc).
    destruct (codec_commit_fields _ _ _ Hc) as (Hst & _ & _ & _ & Hva). simpl in Hst, Hva.
    intros c v Hcv. rewrite Hva.
    assert (Hs2 : stage2_of (c_f cf) prev rr obs = Retired) by congruence.
    rewrite Hs2. rewrite bool_decide_eq_true_2 by reflexivity. simpl.
    assert (Hva0 : va0_of cf prev rr !! c = Some v).
    { assert (Hnp : promoted_of prev rr = false) by (apply promoted_retired; exact Hp).
      assert (Hcar : carried_va cf prev !! c = Some v).
      { unfold carried_va. rewrite map_lookup_imap, Hcv. simpl.
        unfold is_reportable. rewrite Hp. reflexivity. }
      unfold va0_of. destruct rr; [rewrite Hnp; simpl|]; exact Hcar. }
    rewrite (lookup_union_Some_l _ _ _ _ Hva0). reflexivity.
  Qed.

  Theorem retired_reports cf seq o :
    1 < seq -> o_stage o = Retired -> reports_of cf seq o = (Some (o_va o), []).
  Proof.
    intros Hseq Hs. unfold reports_of. destruct (seq <=? 1) eqn:E; [lia|].
    rewrite Hs. rewrite bool_decide_eq_true_2 by reflexivity. f_equal.
    unfold reportable_channels.
    assert (Hnil : List.filter (fun c => is_reportable o c (c_pver cf) (c_interval cf)) (map fst (map_to_list (o_defs o))) = []).
    { induction (map fst (map_to_list (o_defs o))) as [|x l IH]; [reflexivity|]. simpl.
      unfold is_reportable at 1. rewrite Hs. exact IH. }
    rewrite Hnil. reflexivity.
  Qed.

  Theorem non_retired_no_retirement_report cf seq o :
    o_stage o <> Retired -> fst (reports_of cf seq o) = None.
  Proof.
    intros Hs. unfold reports_of. destruct (seq <=? 1); [reflexivity|]. simpl.
    rewrite bool_decide_eq_false_2 by exact Hs. reflexivity.
  Qed.

  Theorem specimen_iff_not_production cf seq o r :
    r ∈ snd (reports_of cf seq o) -> r_specimen r = negb (bool_decide (o_stage o = Production)).
  Proof.
    unfold reports_of. destruct (seq <=? 1); simpl; [intros H; inversion H|].
    intros H. apply elem_of_list_omap in H. destruct H as (c & _ & Hm).
    unfold mk_report in Hm. destruct (o_defs o !! c); [|discriminate]. inversion Hm; subst. reflexivity.
  Qed.

  (* ================= C18 ================= *)
  Theorem tsv_never_goes_back cf seq prev aos next p t0 i0 :
    1 < seq -> outcome_step h cf seq prev aos = Ok next ->
    o_aggs prev !! p = Some (STsv t0 i0) -> p ∈ referenced_pairs (o_defs next) ->
    exists v, o_aggs next !! p = Some v /\
      (v = STsv t0 i0 \/ (exists t1 i1, v = STsv t1 i1 /\ t0 < t1) \/ match v with STsv _ _ => False | _ => True end).
  Proof.
    intros Hseq H Hp Href.
    destruct (outcome_step_inv h cf seq prev aos next Hseq H) as (rr & obs & ts & aggs & Ha & _ & _ & Hcol & Hc).
    destruct (codec_commit_fields _ _ _ Hc) as (_ & _ & Hd & Hag & _). simpl in Hd, Hag.
    rewrite Hag. rewrite Hd in Href. simpl in Hcol.
    destruct p as [sid agg].
    destruct (collect_aggs_lookup _ _ _ _ aggs (sid, agg) Hcol) as [[Hn [Hni|Hv]]|(v & Hv & _ & Hav)].
    - contradiction.
    - destruct (agg_value_tsv _ _ _ _ _ _ _ _ Hp Hv) as [?|[(? & ? & ? & ?)|(? & ? & ?)]]; discriminate.
    - exists v. split; [exact Hv|].
      destruct (agg_value_tsv _ _ _ _ _ _ _ _ Hp Hav) as [Hx|[(t1 & i1 & Hx & Hlt)|(v' & Hx & Hnt)]]; inversion Hx; subst.
      + left. reflexivity.
      + right. left. eauto.
      + right. right. exact Hnt.
  Qed.

  Theorem tsv_carried_when_aggregation_fails cf seq prev aos next sid agg t0 i0 fn e rr obs :
    1 < seq -> outcome_step h cf seq prev aos = Ok next ->
    accept_observations (c_has_pred cf) aos = Ok (rr, obs) ->
    o_aggs prev !! (sid, agg) = Some (STsv t0 i0) -> (sid, agg) ∈ referenced_pairs (o_defs next) ->
    agg_fun agg = Some fn -> fn (stream_obs obs sid) (c_f cf) = Err e ->
    o_aggs next !! (sid, agg) = Some (STsv t0 i0).
  Proof.
    intros Hseq H Hacc Hp Href Hfn He.
    destruct (outcome_step_inv h cf seq prev aos next Hseq H) as (rr' & obs' & ts & aggs & Ha & _ & _ & Hcol & Hc).
    rewrite Hacc in Ha. inversion Ha; subst rr' obs'.
    destruct (codec_commit_fields _ _ _ Hc) as (_ & _ & Hd & Hag & _). simpl in Hd, Hag.
    rewrite Hag. rewrite Hd in Href. simpl in Hcol.
    pose proof (agg_value_failed (c_f cf) prev obs sid agg fn e Hfn He) as Hav. rewrite Hp in Hav.
    destruct (collect_aggs_lookup _ _ _ _ aggs (sid, agg) Hcol) as [[Hn [Hni|Hv]]|(v & Hv & _ & Hav')].
    - contradiction.
    - congruence.
    - congruence.
  Qed.

  Theorem unreferenced_dropped cf seq prev aos next p v :
    1 < seq -> outcome_step h cf seq prev aos = Ok next ->
    o_aggs next !! p = Some v -> p ∈ referenced_pairs (o_defs next).
  Proof.
    intros Hseq H Hv.
    destruct (outcome_step_inv h cf seq prev aos next Hseq H) as (rr & obs & ts & aggs & Ha & _ & _ & Hcol & Hc).
    destruct (codec_commit_fields _ _ _ Hc) as (_ & _ & Hd & Hag & _). simpl in Hd, Hag.
    rewrite Hag in Hv. rewrite Hd. simpl in Hcol.
    destruct (collect_aggs_lookup _ _ _ _ aggs p Hcol) as [[Hn _]|(v' & _ & Hin & _)]; [congruence|exact Hin].
  Qed.
End Steps.

(* ================= C02: the outcome's observation timestamp ================= *)
From DS Require Import RankMedian AggregatorProofs.
Section OutcomeTs.
  Context (h : Z -> chandef -> list Z).
  Definition accepted_ts (taos : list (option observation * bool)) : list (Z * bool) :=
    map (fun p => (ob_ts (fst p), snd p)) (accept_tagged false taos).

  Theorem outcome_timestamp_in_honest_range cf seq prev (taos : list (option observation * bool)) next :
    1 < seq -> outcome_step h cf seq prev (map fst taos) = Ok next ->
    (faulty_count (accepted_ts taos) < honest_count (accepted_ts taos))%nat ->
    exists lo hi, In (lo, true) (accepted_ts taos) /\ In (hi, true) (accepted_ts taos) /\ lo <= o_ts next <= hi.
  Proof.
    intros Hseq H Hmaj.
    destruct (outcome_step_inv h cf seq prev _ next Hseq H) as (rr & obs & ts & aggs & Ha & _ & Hts & _ & Hc).
    destruct (codec_commit_fields _ _ _ Hc) as (_ & Ht & _ & _ & _). simpl in Ht. rewrite Ht.
    unfold accept_observations in Ha. apply accept_tagged_spec in Ha. simpl in Ha. subst obs.
    assert (E : map ob_ts (map fst (accept_tagged false taos)) = map fst (accepted_ts taos)).
    { unfold accepted_ts. rewrite !map_map. reflexivity. }
    rewrite E in Hts. apply (median_ts_in_honest_range (accepted_ts taos) ts Hmaj Hts).
  Qed.
End OutcomeTs.
