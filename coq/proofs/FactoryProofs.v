(* FactoryProofs.v — the configurations NewReportingPlugin accepts are the ones the window theorems (C03) are stated for. *)
From stdpp Require Import gmap.
From DS Require Import Base Wire Config Outcome PluginFactory.
From DS Require Import WireProofs HistoryProofs.
From Coq Require Import Lia.
Open Scope Z_scope.

Definition varint_ok (f : rawfield) : Prop := match snd f with RVarint v => 0 <= v < 2 ^ 64 | _ => True end.

Lemma parse_varint_nonneg bs v r : parse_varint bs = Some (v, r) -> 0 <= v < 2 ^ 64.
Proof.
  unfold parse_varint. destruct (parse_varint_fuel 10 bs 0 0) as [[v' r']|]; [|discriminate].
  intros H. inversion H; subst. apply Z.mod_pos_bound. lia.
Qed.

Lemma parse_fields_fuel_varints n : forall bs fs, parse_fields_fuel n bs = Some fs -> Forall varint_ok fs.
Proof.
  induction n as [|n IH]; intros bs fs H; [discriminate|]. cbn [parse_fields_fuel] in H.
  destruct bs as [|b bs]; [inversion H; constructor|].
  destruct (parse_varint (b :: bs)) as [[t r]|]; [|discriminate].
  destruct ((t / 8 <? 1) || (2 ^ 29 <=? t / 8)); [discriminate|].
  destruct (t mod 8 =? 0).
  { destruct (parse_varint r) as [[v r']|] eqn:Ev; [|discriminate].
    destruct (parse_fields_fuel n r') as [fs'|] eqn:Ef; [|discriminate]. inversion H; subst.
    constructor; [exact (parse_varint_nonneg _ _ _ Ev)|eapply IH; exact Ef]. }
  destruct (t mod 8 =? 2).
  { destruct (parse_varint r) as [[len r']|]; [|discriminate]. destruct (Z.of_nat (length r') <? len); [discriminate|].
    destruct (parse_fields_fuel n (skipn (Z.to_nat len) r')) as [fs'|] eqn:Ef; [|discriminate]. inversion H; subst.
    constructor; [exact I|eapply IH; exact Ef]. }
  destruct (t mod 8 =? 1).
  { destruct (length r <? 8)%nat; [discriminate|].
    destruct (parse_fields_fuel n (skipn 8 r)) as [fs'|] eqn:Ef; [|discriminate]. inversion H; subst.
    constructor; [exact I|eapply IH; exact Ef]. }
  destruct (t mod 8 =? 5).
  { destruct (length r <? 4)%nat; [discriminate|].
    destruct (parse_fields_fuel n (skipn 4 r)) as [fs'|] eqn:Ef; [|discriminate]. inversion H; subst.
    constructor; [exact I|eapply IH; exact Ef]. }
  destruct (t mod 8 =? 3); [|discriminate].
  destruct (skip_group n group_depth_limit (t / 8) r) as [r'|]; [|discriminate]. eapply IH; exact H.
Qed.

Lemma last_varint_nonneg k fs : Forall varint_ok fs -> 0 <= last_varint k fs < 2 ^ 64.
Proof.
  unfold last_varint. assert (H : forall acc, 0 <= acc < 2 ^ 64 -> Forall varint_ok fs ->
    0 <= fold_left (fun acc f => match f with (k', RVarint v) => if k' =? k then v else acc | _ => acc end) fs acc < 2 ^ 64).
  { induction fs as [|[k' r] fs IH]; intros acc Ha Hf; [exact Ha|]. inversion Hf as [|? ? Hr Hf']; subst. cbn [fold_left].
    apply IH; [|exact Hf']. destruct r; try exact Ha. destruct (k' =? k); [exact Hr|exact Ha]. }
  intros Hf. apply H; [lia|exact Hf].
Qed.

Theorem factory_configs_are_accepted f onchain offchain cf :
  plugin_factory_cfg f onchain offchain = Ok cf -> cfg_accepted cf.
Proof.
  intros H. unfold plugin_factory_cfg in H.
  destruct (llo_onchain_decode onchain) as [oc| |]; try discriminate.
  destruct (offchain_decode offchain) as [off| |] eqn:Eo; try discriminate. inversion H; subst. clear H.
  unfold cfg_accepted. cbn [c_pver c_interval]. unfold offchain_decode in Eo.
  destruct (parse_fields offchain) as [fs|] eqn:Ep; [|inversion Eo; subst; left; split; reflexivity].
  match type of Eo with (if offchain_valid ?c then _ else _) = _ => destruct (offchain_valid c) eqn:Ev; [|discriminate] end.
  inversion Eo; subst. clear Eo. unfold offchain_valid in Ev. cbn [oc_version oc_min_interval] in *.
  pose proof (last_varint_nonneg 2 fs (parse_fields_fuel_varints _ _ _ Ep)) as H2.
  destruct (last_varint 1 fs mod 2 ^ 32 =? 0) eqn:E0; [left; split; lia|].
  destruct (last_varint 1 fs mod 2 ^ 32 =? 1) eqn:E1; [|discriminate]. right. split; lia.
Qed.
