(* ConvergeProofs.v — C14: the concrete channel-definition step (Outcome.new_defs) under the votes of correct nodes
   (Observe.honest_votes) with at most f faulty observers. *)
From stdpp Require Import gmap.
From DS Require Import Base Sort SortProofs RepoConstants Outcome Observe Converge OutcomeProofs.
From Coq Require Import ZifyBool ZifyNat.
Open Scope Z_scope.

Section WithHash.
  Context (h : Z -> chandef -> list Z).

  (* ---------- the channel cap holds whatever is voted ---------- *)
  Lemma size_foldr_delete {V} (m : gmap Z V) l : (size (foldr delete m l) <= size m)%nat.
  Proof.
    induction l as [|x l IH]; [reflexivity|]. cbn [foldr].
    destruct (foldr delete m l !! x) eqn:E.
    - pose proof (map_size_delete x (foldr delete m l)) as Hs. rewrite E in Hs. lia.
    - rewrite delete_notin by exact E. exact IH.
  Qed.

  Lemma size_apply_update f obs defs cand : (size defs <= chan_cap)%nat -> (size (apply_update f obs defs cand) <= chan_cap)%nat.
  Proof.
    intros Hs. destruct cand as [c d]. unfold apply_update. destruct (update_votes obs c d <=? f)%nat; [exact Hs|].
    destruct (defs !! c) eqn:E.
    - rewrite map_size_insert_Some by (rewrite E; eauto). exact Hs.
    - destruct (MaxOutcomeChannelDefinitionsLength <=? Z.of_nat (size defs)) eqn:Ec; [exact Hs|].
      rewrite map_size_insert_None by exact E. unfold chan_cap in *. lia.
  Qed.

  Theorem cap_invariant f retired prev obs : (size prev <= chan_cap)%nat -> (size (new_defs h f retired prev obs) <= chan_cap)%nat.
  Proof.
    intros Hs. unfold new_defs. destruct retired; [exact Hs|].
    assert (H1 : (size (foldr delete prev (removed_ids f obs)) <= chan_cap)%nat) by (pose proof (size_foldr_delete prev (removed_ids f obs)); lia).
    generalize dependent (foldr delete prev (removed_ids f obs)). generalize (isort (cand_less h) (update_candidates obs)).
    intros l. induction l as [|x l IH]; intros m Hm; [exact Hm|]. cbn [fold_left]. apply IH. apply size_apply_update. exact Hm.
  Qed.

  (* ---------- counting votes: correct observers all cast the same votes, at most f observers are faulty ---------- *)
  Definition honest_ob (rm : list Z) (up : gmap Z chandef) (ob : observation) : Prop :=
    (forall c, c ∈ ob_removes ob <-> c ∈ rm) /\ ob_updates ob = up.
  (* tagged observations: (observation, is the observer correct?) *)
  Definition round_ok (f : nat) (rm : list Z) (up : gmap Z chandef) (tobs : list (observation * bool)) : Prop :=
    Forall (fun p => snd p = true -> honest_ob rm up (fst p)) tobs /\
    (length (filter (fun p => negb (snd p)) tobs) <= f)%nat /\
    (f < length (filter (fun p : observation * bool => snd p) tobs))%nat.

  Lemma count_split (p : observation -> bool) (tobs : list (observation * bool)) :
    length (filter p (map fst tobs)) =
    (length (filter (fun q => p (fst q) && snd q) tobs) + length (filter (fun q => p (fst q) && negb (snd q)) tobs))%nat.
  Proof.
    induction tobs as [|[ob b] tobs IH]; [reflexivity|]. cbn [map filter fst snd].
    destruct (p ob), b; cbn [andb negb length]; lia.
  Qed.
  Lemma count_le_tag (p : observation -> bool) (q : observation * bool -> bool) tobs :
    (length (filter (fun x => p (fst x) && q x) tobs) <= length (filter q tobs))%nat.
  Proof.
    induction tobs as [|x tobs IH]; [reflexivity|]. cbn [filter]. destruct (p (fst x)), (q x); cbn [andb length]; lia.
  Qed.

  (* more than f votes: some correct observer cast it *)
  Lemma votes_need_honest f (p : observation -> bool) tobs :
    (length (filter (fun q : observation * bool => negb (snd q)) tobs) <= f)%nat ->
    (f < length (filter p (map fst tobs)))%nat ->
    exists ob, (ob, true) ∈ tobs /\ p ob = true.
  Proof.
    intros Hf Hv. rewrite count_split in Hv.
    pose proof (count_le_tag p (fun q => negb (snd q)) tobs) as Hle.
    assert (Hpos : (0 < length (filter (fun q => p (fst q) && snd q) tobs))%nat) by lia.
    destruct (filter (fun q => p (fst q) && snd q) tobs) as [|[ob b] r] eqn:E; [cbn in Hpos; lia|].
    assert (Hin : (ob, b) ∈ filter (fun q => p (fst q) && snd q) tobs) by (rewrite E; left).
    apply elem_of_list_In, filter_In in Hin. destruct Hin as [Hin Hq]. cbn in Hq. apply andb_prop in Hq. destruct Hq as [Hp ->].
    exists ob. split; [apply elem_of_list_In; exact Hin|exact Hp].
  Qed.
  (* what every correct observer votes gets more than f votes *)
  Lemma honest_votes_count f (p : observation -> bool) tobs :
    (f < length (filter (fun q : observation * bool => snd q) tobs))%nat ->
    (forall ob, (ob, true) ∈ tobs -> p ob = true) ->
    (f < length (filter p (map fst tobs)))%nat.
  Proof.
    intros Hh Hall. rewrite count_split.
    assert (Heq : length (filter (fun q => p (fst q) && snd q) tobs) = length (filter (fun q : observation * bool => snd q) tobs)).
    { clear Hh. induction tobs as [|[ob b] tobs IH]; [reflexivity|]. cbn [filter fst snd].
      assert (IH' := IH (fun o Ho => Hall o (elem_of_list_further _ _ _ Ho))).
      destruct b; [|rewrite andb_false_r; exact IH']. rewrite (Hall ob (elem_of_list_here _ _)). cbn [andb length]. rewrite IH'. reflexivity. }
    lia.
  Qed.

  (* ---------- regardless of the faulty votes: only changes voted by the correct nodes happen ---------- *)
  Theorem only_agreed_changes f rm up tobs prev k :
    round_ok f rm up tobs ->
    let next := new_defs h f false prev (map fst tobs) in
    next !! k = prev !! k \/ (next !! k = None /\ k ∈ rm) \/ (exists d, next !! k = Some d /\ up !! k = Some d).
  Proof.
    intros (Hhon & Hfaulty & Hmany) next.
    destruct (decide (next !! k = prev !! k)) as [Heq|Hne]; [left; exact Heq|right].
    destruct (new_defs_change h f false prev (map fst tobs) k Hne) as (_ & [[Hn Hv]|(d & Hd & Hv)]).
    - left. split; [exact Hn|].
      destruct (votes_need_honest f (fun ob => bool_decide (k ∈ ob_removes ob)) tobs Hfaulty Hv) as (ob & Hin & Hp).
      apply bool_decide_eq_true in Hp. rewrite Forall_forall in Hhon. destruct (Hhon (ob, true) (proj1 (elem_of_list_In _ _) Hin) eq_refl) as [Hrm _].
      apply Hrm. exact Hp.
    - right. exists d. split; [exact Hd|].
      destruct (votes_need_honest f (fun ob => bool_decide (ob_updates ob !! k = Some d)) tobs Hfaulty Hv) as (ob & Hin & Hp).
      apply bool_decide_eq_true in Hp. rewrite Forall_forall in Hhon. destruct (Hhon (ob, true) (proj1 (elem_of_list_In _ _) Hin) eq_refl) as [_ Hup].
      rewrite <- Hup. exact Hp.
  Qed.

  (* ---------- progress: what the correct nodes vote does happen ---------- *)
  Lemma honest_exists f rm up tobs : round_ok f rm up tobs -> exists ob, (ob, true) ∈ tobs /\ honest_ob rm up ob.
  Proof.
    intros (Hhon & _ & Hmany).
    destruct (filter (fun p : observation * bool => snd p) tobs) as [|[ob b] r] eqn:E; [cbn in Hmany; lia|].
    assert (Hin : (ob, b) ∈ filter (fun p : observation * bool => snd p) tobs) by (rewrite E; left).
    apply elem_of_list_In, filter_In in Hin. destruct Hin as [Hin Hb]. cbn in Hb. subst b.
    exists ob. split; [apply elem_of_list_In; exact Hin|]. rewrite Forall_forall in Hhon. exact (Hhon (ob, true) Hin eq_refl).
  Qed.

  Lemma removal_happens f rm up tobs prev k : round_ok f rm up tobs -> k ∈ rm -> up !! k = None ->
    new_defs h f false prev (map fst tobs) !! k = None.
  Proof.
    intros Hok Hk Hup. pose proof Hok as (Hhon & Hfaulty & Hmany). unfold new_defs.
    assert (Hv : (f < remove_votes (map fst tobs) k)%nat).
    { apply (honest_votes_count f (fun ob => bool_decide (k ∈ ob_removes ob)) tobs Hmany). intros ob Hin.
      rewrite Forall_forall in Hhon. destruct (Hhon (ob, true) (proj1 (elem_of_list_In _ _) Hin) eq_refl) as [Hrm _].
      apply bool_decide_eq_true. apply Hrm. exact Hk. }
    assert (Hin : k ∈ removed_ids f (map fst tobs)).
    { unfold removed_ids. apply elem_of_list_In, filter_In. split; [|apply Nat.ltb_lt; exact Hv].
      apply elem_of_list_In, elem_of_remove_dups. destruct (honest_exists f rm up tobs Hok) as (ob & Hob & [Hrm _]).
      apply elem_of_list_In, in_flat_map. exists ob. split.
      - apply in_map_iff. exists (ob, true). split; [reflexivity|apply elem_of_list_In; exact Hob].
      - apply elem_of_list_In. apply Hrm. exact Hk. }
    destruct (fold_apply_lookup f (map fst tobs) (isort (cand_less h) (update_candidates (map fst tobs)))
                (foldr delete prev (removed_ids f (map fst tobs))) k) as [H|(d & H1 & _ & H3)].
    - rewrite H. apply lookup_foldr_delete_in. exact Hin.
    - exfalso.
      destruct (votes_need_honest f (fun ob => bool_decide (ob_updates ob !! k = Some d)) tobs Hfaulty H3) as (ob & Hob & Hp).
      apply bool_decide_eq_true in Hp. rewrite Forall_forall in Hhon.
      destruct (Hhon (ob, true) (proj1 (elem_of_list_In _ _) Hob) eq_refl) as [_ Hu]. cbn [fst] in Hu. rewrite Hu in Hp. congruence.
  Qed.

  (* a candidate with more than f votes is one the correct nodes voted for *)
  Lemma voted_is_honest f rm up tobs c d : round_ok f rm up tobs ->
    (f < update_votes (map fst tobs) c d)%nat -> up !! c = Some d.
  Proof.
    intros (Hhon & Hfaulty & _) Hv.
    destruct (votes_need_honest f (fun ob => bool_decide (ob_updates ob !! c = Some d)) tobs Hfaulty Hv) as (ob & Hob & Hp).
    apply bool_decide_eq_true in Hp. rewrite Forall_forall in Hhon.
    destruct (Hhon (ob, true) (proj1 (elem_of_list_In _ _) Hob) eq_refl) as [_ Hu]. cbn [fst] in Hu. rewrite <- Hu. exact Hp.
  Qed.

  (* folding the candidates: the key set stays inside dom base ∪ dom up, and the agreed definition of k ends up installed *)
  Lemma fold_updates_hit f rm up tobs (base : gset Z) k d : round_ok f rm up tobs -> up !! k = Some d ->
    (size (base ∪ dom up) <= chan_cap)%nat ->
    forall cands defs, dom defs ⊆ base ∪ dom up ->
      ((k, d) ∈ cands \/ defs !! k = Some d) ->
      fold_left (apply_update f (map fst tobs)) cands defs !! k = Some d.
  Proof.
    intros Hok Hup Hcap. pose proof Hok as (Hhon & Hfaulty & Hmany).
    assert (Hvk : (f < update_votes (map fst tobs) k d)%nat).
    { apply (honest_votes_count f (fun ob => bool_decide (ob_updates ob !! k = Some d)) tobs Hmany). intros ob Hin.
      rewrite Forall_forall in Hhon. destruct (Hhon (ob, true) (proj1 (elem_of_list_In _ _) Hin) eq_refl) as [_ Hu].
      cbn [fst] in Hu. apply bool_decide_eq_true. rewrite Hu. exact Hup. }
    induction cands as [|[c d'] cands IH]; intros defs Hdom Hor.
    - destruct Hor as [Hin|Hd]; [inversion Hin|exact Hd].
    - cbn [fold_left].
      (* the state after this candidate *)
      assert (Hstep : dom (apply_update f (map fst tobs) defs (c, d')) ⊆ base ∪ dom up /\
                      (((k, d) ∈ cands) \/ apply_update f (map fst tobs) defs (c, d') !! k = Some d)).
      { unfold apply_update. destruct (update_votes (map fst tobs) c d' <=? f)%nat eqn:Ev.
        - (* not enough votes: unchanged; it cannot be (k, d) *)
          split; [exact Hdom|]. destruct Hor as [Hin|Hd]; [|right; exact Hd].
          apply elem_of_cons in Hin. destruct Hin as [Heq|Hin]; [|left; exact Hin].
          inversion Heq; subst c d'. apply Nat.leb_le in Ev. lia.
        - apply Nat.leb_gt in Ev. pose proof (voted_is_honest f rm up tobs c d' Hok Ev) as Hc.
          assert (Hcd : c ∈ dom up) by (apply elem_of_dom; eauto).
          destruct (decide (c = k)) as [->|Hne].
          + assert (d' = d) by congruence. subst d'.
            destruct (defs !! k) eqn:Ed.
            * split; [rewrite dom_insert; set_solver|right; apply lookup_insert].
            * assert (Hlt : (size defs < chan_cap)%nat).
              { assert (Hsub : dom defs ⊆ (base ∪ dom up) ∖ {[k]}).
                { apply not_elem_of_dom in Ed. set_solver. }
                pose proof (subseteq_size _ _ Hsub) as Hs. rewrite size_difference in Hs by set_solver.
                rewrite size_singleton, size_dom in Hs.
                assert (Hone : ({[k]} : gset Z) ⊆ base ∪ dom up) by set_solver. pose proof (subseteq_size _ _ Hone) as H1. rewrite size_singleton in H1. lia. }
              destruct (MaxOutcomeChannelDefinitionsLength <=? Z.of_nat (size defs)) eqn:Ec; [unfold chan_cap in Hlt; lia|].
              split; [rewrite dom_insert; set_solver|right; apply lookup_insert].
          + assert (Hk' : ((k, d) ∈ cands) \/ defs !! k = Some d).
            { destruct Hor as [Hin|Hd]; [|right; exact Hd]. apply elem_of_cons in Hin. destruct Hin as [Heq|Hin]; [congruence|left; exact Hin]. }
            destruct (defs !! c) eqn:Ed.
            * split; [rewrite dom_insert; set_solver|]. destruct Hk' as [?|Hd]; [left; assumption|right; rewrite lookup_insert_ne by congruence; exact Hd].
            * destruct (MaxOutcomeChannelDefinitionsLength <=? Z.of_nat (size defs)); [split; [exact Hdom|exact Hk']|].
              split; [rewrite dom_insert; set_solver|]. destruct Hk' as [?|Hd]; [left; assumption|right; rewrite lookup_insert_ne by congruence; exact Hd]. }
      destruct Hstep as [Hd1 Hor1]. apply IH; assumption.
  Qed.

  Lemma update_happens f rm up tobs prev k d : round_ok f rm up tobs -> up !! k = Some d ->
    (size (dom prev ∪ dom up) <= chan_cap)%nat ->
    new_defs h f false prev (map fst tobs) !! k = Some d.
  Proof.
    intros Hok Hup Hcap. unfold new_defs.
    apply (fold_updates_hit f rm up tobs (dom prev) k d Hok Hup Hcap).
    - (* removals only shrink the key set *)
      intros x Hx. apply elem_of_dom in Hx. destruct Hx as [v Hv]. apply elem_of_union_l. apply elem_of_dom. exists v.
      destruct (decide (x ∈ removed_ids f (map fst tobs))) as [Hin|Hnin].
      + rewrite lookup_foldr_delete_in in Hv by exact Hin. discriminate.
      + rewrite lookup_foldr_delete_notin in Hv by exact Hnin. exact Hv.
    - left. apply isort_elem. unfold update_candidates. apply elem_of_remove_dups.
      destruct (honest_exists f rm up tobs Hok) as (ob & Hob & [_ Hu]).
      apply elem_of_list_In, in_flat_map. exists ob. split.
      + apply in_map_iff. exists (ob, true). split; [reflexivity|apply elem_of_list_In; exact Hob].
      + apply elem_of_list_In, elem_of_map_to_list. rewrite Hu. exact Hup.
  Qed.

  (* ---------- one agreed round, pointwise ---------- *)
  Theorem round_pointwise f rm up tobs prev : round_ok f rm up tobs ->
    (forall k, k ∈ rm -> up !! k = None) ->
    (size (dom prev ∪ dom up) <= chan_cap)%nat ->
    forall k, new_defs h f false prev (map fst tobs) !! k =
              match up !! k with Some d => Some d | None => if bool_decide (k ∈ rm) then None else prev !! k end.
  Proof.
    intros Hok Hdisj Hcap k. destruct (up !! k) as [d|] eqn:Hup.
    - apply (update_happens f rm up tobs prev k d Hok Hup Hcap).
    - destruct (bool_decide (k ∈ rm)) eqn:Hrm.
      + apply bool_decide_eq_true in Hrm. apply (removal_happens f rm up tobs prev k Hok Hrm Hup).
      + apply bool_decide_eq_false in Hrm.
        destruct (only_agreed_changes f rm up tobs prev k Hok) as [H|[[_ H]|(d & _ & H)]]; [exact H|contradiction|congruence].
  Qed.
End WithHash.

(* ---------- the votes of correct nodes ---------- *)
Lemma up_map_lookup (target : gmap Z chandef) l k :
  (list_to_map (omap (fun c => option_map (pair c) (target !! c)) l) : gmap Z chandef) !! k =
  if bool_decide (k ∈ l) then target !! k else None.
Proof.
  induction l as [|c l IH]; [rewrite bool_decide_eq_false_2 by apply not_elem_of_nil; apply lookup_empty|].
  cbn [omap list_omap]. destruct (target !! c) as [d|] eqn:Ec; cbn [option_map].
  - cbn [list_to_map foldr fst snd]. destruct (decide (k = c)) as [->|Hne].
    + rewrite lookup_insert. rewrite bool_decide_eq_true_2 by left. congruence.
    + rewrite lookup_insert_ne by congruence. rewrite IH.
      destruct (bool_decide (k ∈ l)) eqn:E.
      * apply bool_decide_eq_true in E. rewrite bool_decide_eq_true_2 by (right; exact E). reflexivity.
      * apply bool_decide_eq_false in E. rewrite bool_decide_eq_false_2; [reflexivity|]. intros H. apply elem_of_cons in H. tauto.
  - rewrite IH. destruct (decide (k = c)) as [->|Hne].
    + rewrite (bool_decide_eq_true_2 (c ∈ c :: l)) by left. rewrite Ec. destruct (bool_decide (c ∈ l)); reflexivity.
    + destruct (bool_decide (k ∈ l)) eqn:E.
      * apply bool_decide_eq_true in E. rewrite bool_decide_eq_true_2 by (right; exact E). reflexivity.
      * apply bool_decide_eq_false in E. rewrite bool_decide_eq_false_2; [reflexivity|]. intros H. apply elem_of_cons in H. tauto.
Qed.

Definition rm_votes (cur target : gmap Z chandef) : list Z := firstn rm_limit (rm_todo cur target).
Definition up_list (cur target : gmap Z chandef) : list Z := firstn vote_limit (up_todo cur target).
Definition up_votes (cur target : gmap Z chandef) : gmap Z chandef :=
  list_to_map (omap (fun c => option_map (pair c) (target !! c)) (up_list cur target)).

Lemma honest_votes_shape codec_ok prev target :
  o_stage prev <> Retired -> verify_defs codec_ok target = true ->
  honest_votes codec_ok prev target = (rm_votes (o_defs prev) target, up_votes (o_defs prev) target).
Proof.
  intros Hs Hv. unfold honest_votes. rewrite bool_decide_eq_false_2 by exact Hs. rewrite Hv. reflexivity.
Qed.

Lemma elem_of_firstn {A} (l : list A) n x : x ∈ firstn n l -> x ∈ l.
Proof.
  revert n. induction l as [|y l IH]; intros [|n] H; cbn [firstn] in H; try (inversion H; fail).
  apply elem_of_cons in H. destruct H as [->|H]; [left|right; eapply IH; exact H].
Qed.

Lemma rm_todo_spec cur target k : k ∈ rm_todo cur target <-> (exists d, cur !! k = Some d) /\ target !! k = None.
Proof.
  unfold rm_todo, sorted_ids. rewrite elem_of_list_In, filter_In, <- elem_of_list_In, isort_elem. rewrite elem_of_list_fmap.
  split.
  - intros [((c, d) & -> & Hin) Hb]. apply elem_of_map_to_list in Hin. apply bool_decide_eq_true in Hb. cbn in *. eauto.
  - intros [[d Hd] Ht]. split; [exists (k, d); split; [reflexivity|apply elem_of_map_to_list; exact Hd]|apply bool_decide_eq_true; exact Ht].
Qed.
Lemma up_todo_spec cur target k : k ∈ up_todo cur target <-> (exists d, target !! k = Some d) /\ cur !! k <> target !! k.
Proof.
  unfold up_todo, sorted_ids. rewrite elem_of_list_In, filter_In, <- elem_of_list_In, isort_elem. rewrite elem_of_list_fmap.
  split.
  - intros [((c, d) & -> & Hin) Hb]. apply elem_of_map_to_list in Hin. apply negb_true_iff, bool_decide_eq_false in Hb. cbn in *. eauto.
  - intros [[d Hd] Ht]. split; [exists (k, d); split; [reflexivity|apply elem_of_map_to_list; exact Hd]|apply negb_true_iff, bool_decide_eq_false; exact Ht].
Qed.

Lemma up_votes_lookup cur target k :
  up_votes cur target !! k = if bool_decide (k ∈ up_list cur target) then target !! k else None.
Proof. apply up_map_lookup. Qed.

Lemma rm_up_disjoint cur target k : k ∈ rm_votes cur target -> up_votes cur target !! k = None.
Proof.
  intros Hk. apply elem_of_firstn, rm_todo_spec in Hk. destruct Hk as [_ Ht]. rewrite up_votes_lookup, Ht.
  destruct (bool_decide _); reflexivity.
Qed.

Lemma dom_up_votes cur target : dom (up_votes cur target) ⊆ dom target.
Proof.
  intros k Hk. apply elem_of_dom in Hk. destruct Hk as [d Hd]. rewrite up_votes_lookup in Hd.
  destruct (bool_decide _); [|discriminate]. apply elem_of_dom. eauto.
Qed.

Section Rounds.
  Context (h : Z -> chandef -> list Z).

  (* one round towards the target with the votes of the correct nodes, pointwise *)
  Theorem agreed_round f cur target tobs :
    round_ok f (rm_votes cur target) (up_votes cur target) tobs ->
    (size (dom cur ∪ dom target) <= chan_cap)%nat ->
    forall k, new_defs h f false cur (map fst tobs) !! k =
      if bool_decide (k ∈ up_list cur target) then target !! k
      else if bool_decide (k ∈ rm_votes cur target) then None else cur !! k.
  Proof.
    intros Hok Hcap k.
    assert (Hcap' : (size (dom cur ∪ dom (up_votes cur target)) <= chan_cap)%nat).
    { etransitivity; [|exact Hcap]. apply subseteq_size. pose proof (dom_up_votes cur target). set_solver. }
    rewrite (round_pointwise h f _ _ tobs cur Hok (rm_up_disjoint cur target) Hcap' k).
    rewrite up_votes_lookup. destruct (bool_decide (k ∈ up_list cur target)) eqn:E; [|reflexivity].
    apply bool_decide_eq_true, elem_of_firstn, up_todo_spec in E. destruct E as [[d Hd] _]. rewrite Hd. reflexivity.
  Qed.

  (* once equal to the target it stays equal, whatever the faulty observers vote *)
  Theorem stays_at_target f target tobs :
    round_ok f (rm_votes target target) (up_votes target target) tobs ->
    (size target <= chan_cap)%nat ->
    new_defs h f false target (map fst tobs) = target.
  Proof.
    intros Hok Hcap. apply map_eq. intros k.
    rewrite (agreed_round f target target tobs Hok) by (rewrite union_idemp_L, size_dom; exact Hcap).
    destruct (bool_decide (k ∈ up_list target target)) eqn:E1; [reflexivity|].
    destruct (bool_decide (k ∈ rm_votes target target)) eqn:E2; [|reflexivity].
    apply bool_decide_eq_true, elem_of_firstn, rm_todo_spec in E2. destruct E2 as [_ Hn]. rewrite Hn. reflexivity.
  Qed.

  (* when at most rm_limit removals and vote_limit additions / replacements remain, the next outcome is the target *)
  Theorem final_round f cur target tobs :
    round_ok f (rm_votes cur target) (up_votes cur target) tobs ->
    (size (dom cur ∪ dom target) <= chan_cap)%nat ->
    (length (rm_todo cur target) <= rm_limit)%nat -> (length (up_todo cur target) <= vote_limit)%nat ->
    new_defs h f false cur (map fst tobs) = target.
  Proof.
    intros Hok Hcap Hr Hu. apply map_eq. intros k. rewrite (agreed_round f cur target tobs Hok Hcap k).
    unfold up_list, rm_votes. rewrite (firstn_all2 (up_todo cur target)) by exact Hu. rewrite (firstn_all2 (rm_todo cur target)) by exact Hr.
    destruct (bool_decide (k ∈ up_todo cur target)) eqn:E1; [reflexivity|]. apply bool_decide_eq_false in E1.
    destruct (bool_decide (k ∈ rm_todo cur target)) eqn:E2.
    - apply bool_decide_eq_true, rm_todo_spec in E2. destruct E2 as [_ Hn]. congruence.
    - apply bool_decide_eq_false in E2. destruct (target !! k) as [d|] eqn:Et.
      + destruct (decide (cur !! k = Some d)) as [Hc|Hc]; [exact Hc|]. exfalso. apply E1. apply up_todo_spec. split; [eauto|congruence].
      + destruct (cur !! k) as [d|] eqn:Ec; [|reflexivity]. exfalso. apply E2. apply rm_todo_spec. eauto.
  Qed.
End Rounds.

(* ---------- distance to the target shrinks by the vote limits every round ---------- *)
From Coq Require Import Sorted.
From DS Require Import OutcomeOrder.

Definition zsle := sle Z.ltb.
Lemma zltb_irrefl a : Z.ltb a a = false. Proof. apply Z.ltb_irrefl. Qed.
Lemma zltb_trans a b c : Z.ltb a b = true -> Z.ltb b c = true -> Z.ltb a c = true. Proof. lia. Qed.
Lemma zltb_total a b : Z.ltb a b = false -> Z.ltb b a = true \/ a = b. Proof. lia. Qed.

Lemma ssorted_filter {A} (R : A -> A -> Prop) p l : StronglySorted R l -> StronglySorted R (filter p l).
Proof.
  induction 1 as [|x l Hs IH Hall]; [constructor|]. cbn [filter]. destruct (p x); [|exact IH].
  constructor; [exact IH|]. rewrite List.Forall_forall in *. intros y Hy. apply filter_In in Hy. apply Hall. tauto.
Qed.
Lemma ssorted_skipn {A} (R : A -> A -> Prop) n : forall l, StronglySorted R l -> StronglySorted R (skipn n l).
Proof.
  induction n as [|n IH]; intros l Hs; [exact Hs|]. destruct l as [|x l]; [constructor|]. cbn [skipn]. apply IH. inversion Hs; assumption.
Qed.
Lemma nodup_skipn {A} n : forall l : list A, List.NoDup l -> List.NoDup (skipn n l).
Proof.
  induction n as [|n IH]; intros l Hn; [exact Hn|]. destruct l as [|x l]; [constructor|]. cbn [skipn]. apply IH. inversion Hn; assumption.
Qed.
Lemma in_skipn_nodup {A} n : forall (l : list A) x, List.NoDup l -> (In x (skipn n l) <-> In x l /\ ~ In x (firstn n l)).
Proof.
  induction n as [|n IH]; intros l x Hn; [cbn; tauto|]. destruct l as [|y l]; [cbn; tauto|].
  cbn [skipn firstn]. inversion Hn as [|? ? Hy Hn']; subst. rewrite (IH l x Hn'). cbn [In]. split.
  - intros [Hin Hnf]. split; [right; exact Hin|]. intros [->|H]; [contradiction|contradiction].
  - intros [[->|Hin] Hnf]; [exfalso; apply Hnf; left; reflexivity|]. split; [exact Hin|]. intros H. apply Hnf. right. exact H.
Qed.

Lemma sorted_ids_sorted {V} (m : gmap Z V) : StronglySorted zsle (sorted_ids m) /\ List.NoDup (sorted_ids m).
Proof.
  unfold sorted_ids. split.
  - apply (isort_asc zsle Z.ltb (sle_trans Z.ltb zltb_irrefl zltb_trans zltb_total) (less_sle Z.ltb) (nless_sle Z.ltb zltb_total)).
  - apply (Permutation.Permutation_NoDup (Permutation.Permutation_sym (isort_perm Z.ltb _))).
    apply NoDup_ListNoDup. apply NoDup_fst_map_to_list.
Qed.

Lemma todo_sorted cur target :
  StronglySorted zsle (rm_todo cur target) /\ List.NoDup (rm_todo cur target) /\
  StronglySorted zsle (up_todo cur target) /\ List.NoDup (up_todo cur target).
Proof.
  unfold rm_todo, up_todo. destruct (sorted_ids_sorted cur) as [S1 N1]. destruct (sorted_ids_sorted target) as [S2 N2].
  repeat split; try (apply ssorted_filter; assumption); apply List.NoDup_filter; assumption.
Qed.

Section Distance.
  Context (h : Z -> chandef -> list Z).

  Lemma round_todo f cur target tobs :
    round_ok f (rm_votes cur target) (up_votes cur target) tobs ->
    (size (dom cur ∪ dom target) <= chan_cap)%nat ->
    let next := new_defs h f false cur (map fst tobs) in
    rm_todo next target = skipn rm_limit (rm_todo cur target) /\
    up_todo next target = skipn vote_limit (up_todo cur target) /\
    dom next ⊆ dom cur ∪ dom target.
  Proof.
    intros Hok Hcap next. pose proof (agreed_round h f cur target tobs Hok Hcap) as Hpt. fold next in Hpt.
    destruct (todo_sorted cur target) as (S1 & N1 & S2 & N2). destruct (todo_sorted next target) as (S1' & N1' & S2' & N2').
    assert (Hup_in : forall k, k ∈ up_list cur target -> exists d, target !! k = Some d).
    { intros k Hk. apply elem_of_firstn, up_todo_spec in Hk. tauto. }
    split; [|split].
    - apply (sorted_nodup_unique Z.ltb zltb_irrefl zltb_trans); try assumption;
        [apply ssorted_skipn; exact S1|apply nodup_skipn; exact N1|].
      intros k. rewrite (in_skipn_nodup rm_limit _ k N1). rewrite <- !elem_of_list_In. rewrite !rm_todo_spec. fold (rm_votes cur target).
      rewrite Hpt. split.
      + intros [[d Hd] Ht]. destruct (bool_decide (k ∈ up_list cur target)) eqn:E1.
        { apply bool_decide_eq_true in E1. destruct (Hup_in k E1). congruence. }
        destruct (bool_decide (k ∈ rm_votes cur target)) eqn:E2; [discriminate|]. apply bool_decide_eq_false in E2. eauto.
      + intros [[[d Hd] Ht] Hnf]. split; [|exact Ht].
        destruct (bool_decide (k ∈ up_list cur target)) eqn:E1.
        { apply bool_decide_eq_true in E1. destruct (Hup_in k E1). congruence. }
        rewrite bool_decide_eq_false_2 by exact Hnf. eauto.
    - apply (sorted_nodup_unique Z.ltb zltb_irrefl zltb_trans); try assumption;
        [apply ssorted_skipn; exact S2|apply nodup_skipn; exact N2|].
      intros k. rewrite (in_skipn_nodup vote_limit _ k N2). rewrite <- !elem_of_list_In. rewrite !up_todo_spec. fold (up_list cur target).
      rewrite Hpt. split.
      + intros [[d Hd] Hne]. destruct (bool_decide (k ∈ up_list cur target)) eqn:E1; [congruence|].
        apply bool_decide_eq_false in E1. split; [|exact E1]. split; [eauto|].
        destruct (bool_decide (k ∈ rm_votes cur target)) eqn:E2; [|exact Hne].
        apply bool_decide_eq_true, elem_of_firstn, rm_todo_spec in E2. destruct E2 as [_ E2]. congruence.
      + intros [[[d Hd] Hne] Hnf]. split; [eauto|]. rewrite bool_decide_eq_false_2 by exact Hnf.
        destruct (bool_decide (k ∈ rm_votes cur target)) eqn:E2; [|exact Hne].
        apply bool_decide_eq_true, elem_of_firstn, rm_todo_spec in E2. destruct E2 as [_ E2]. congruence.
    - intros k Hk. apply elem_of_dom in Hk. destruct Hk as [d Hd]. rewrite Hpt in Hd.
      destruct (bool_decide (k ∈ up_list cur target)); [apply elem_of_union_r, elem_of_dom; eauto|].
      destruct (bool_decide (k ∈ rm_votes cur target)); [discriminate|]. apply elem_of_union_l, elem_of_dom; eauto.
  Qed.

  Lemma todo_empty_eq cur target : rm_todo cur target = [] -> up_todo cur target = [] -> cur = target.
  Proof.
    intros Hr Hu. apply map_eq. intros k. destruct (target !! k) as [d|] eqn:Et.
    - destruct (decide (cur !! k = Some d)) as [H|H]; [exact H|]. exfalso.
      assert (Hin : k ∈ up_todo cur target) by (apply up_todo_spec; split; [eauto|congruence]). rewrite Hu in Hin. inversion Hin.
    - destruct (cur !! k) as [d|] eqn:Ec; [|reflexivity]. exfalso.
      assert (Hin : k ∈ rm_todo cur target) by (apply rm_todo_spec; eauto). rewrite Hr in Hin. inversion Hin.
  Qed.

  (* a history of rounds: in each, the correct nodes vote from the current outcome towards the same target *)
  Fixpoint run_rounds (f : nat) (rs : list (list (observation * bool))) (cur : gmap Z chandef) : gmap Z chandef :=
    match rs with [] => cur | tobs :: rest => run_rounds f rest (new_defs h f false cur (map fst tobs)) end.
  Fixpoint rounds_ok (f : nat) (target : gmap Z chandef) (rs : list (list (observation * bool))) (cur : gmap Z chandef) : Prop :=
    match rs with
    | [] => True
    | tobs :: rest => round_ok f (rm_votes cur target) (up_votes cur target) tobs /\
                      rounds_ok f target rest (new_defs h f false cur (map fst tobs))
    end.

  Theorem convergence f target : forall rs cur,
    rounds_ok f target rs cur -> (size (dom cur ∪ dom target) <= chan_cap)%nat ->
    (length (rm_todo cur target) <= length rs * rm_limit)%nat ->
    (length (up_todo cur target) <= length rs * vote_limit)%nat ->
    run_rounds f rs cur = target.
  Proof.
    induction rs as [|tobs rs IH]; intros cur Hok Hcap Hr Hu.
    - cbn [length] in Hr, Hu. rewrite Nat.mul_0_l in Hr, Hu.
      cbn [run_rounds]. apply todo_empty_eq; apply length_zero_iff_nil; lia.
    - cbn [run_rounds]. destruct Hok as [Hok1 Hok']. destruct (round_todo f cur target tobs Hok1 Hcap) as (Er & Eu & Hd).
      apply IH; [exact Hok'| | |].
      + etransitivity; [|exact Hcap]. apply subseteq_size. set_solver.
      + rewrite Er, skipn_length. cbn [length] in Hr. lia.
      + rewrite Eu, skipn_length. cbn [length] in Hu. lia.
  Qed.
End Distance.

(* the bound of the property: with both vote limits equal to 5 it is ceil(max(#remove, #add-or-replace) / 5) *)
Lemma rounds_bound_enough cur target n : rm_limit = vote_limit -> (0 < vote_limit)%nat -> (rounds_bound cur target <= n)%nat ->
  (length (rm_todo cur target) <= n * rm_limit)%nat /\ (length (up_todo cur target) <= n * vote_limit)%nat.
Proof.
  intros Heq Hpos Hn. unfold rounds_bound in Hn. rewrite Heq.
  set (m := Nat.max (length (rm_todo cur target)) (length (up_todo cur target))) in *.
  assert (Hm : (m <= n * vote_limit)%nat).
  { pose proof (Nat.div_mod (m + (vote_limit - 1)) vote_limit ltac:(lia)) as Hdm.
    pose proof (Nat.mod_upper_bound (m + (vote_limit - 1)) vote_limit ltac:(lia)) as Hmod.
    set (q := ((m + (vote_limit - 1)) / vote_limit)%nat) in *. nia. }
  lia.
Qed.
