(* MctProofs.v — mostCommonType: buckets by type, the largest bucket wins, ties go to the lowest
   enum value; hence the choice depends only on the multiset of values. *)
From DS Require Import Base Decimal StreamValue Aggregators.
From Coq Require Import ZifyBool Permutation.

Definition of_type (t : Z) (vs : list slot) : list sval :=
  flat_map (fun v => match v with Some x => if sv_type x =? t then [x] else [] | None => [] end) vs.

Lemma of_type_app t a b : of_type t (a ++ b) = of_type t a ++ of_type t b.
Proof. unfold of_type. apply flat_map_app. Qed.

Lemma sv_type_cases x : sv_type x = 0 \/ sv_type x = 1 \/ sv_type x = 2.
Proof. destruct x; simpl; auto. Qed.

Definition is_type (t : Z) : Prop := t = 0 \/ t = 1 \/ t = 2.

Record mct_inv (vs : list slot) (s : mct_state) : Prop := {
  inv_b0 : b0 s = of_type 0 vs;
  inv_b1 : b1 s = of_type 1 vs;
  inv_b2 : b2 s = of_type 2 vs;
  inv_mct : is_type (mct s);
  inv_largest : largest s = bucket s (mct s);
  inv_max : forall t, is_type t -> (length (bucket s t) <= length (largest s))%nat;
  inv_tie : forall t, is_type t -> length (bucket s t) = length (largest s) -> mct s <= t }.

Lemma mct_inv_init : mct_inv [] mct_init.
Proof.
  constructor; simpl; try reflexivity; unfold is_type; auto.
  - intros t [-> | [-> | ->]]; simpl; lia.
  - intros t [-> | [-> | ->]]; simpl; lia.
Qed.

Lemma of_type_snoc t vs x :
  of_type t (vs ++ [Some x]) = of_type t vs ++ (if sv_type x =? t then [x] else []).
Proof. rewrite of_type_app. unfold of_type at 2. simpl. rewrite app_nil_r. reflexivity. Qed.

Lemma mct_inv_step vs s v : mct_inv vs s -> mct_inv (vs ++ [v]) (mct_step s v).
Proof.
  intros [H0 H1 H2 Hm Hl Hmax Htie].
  destruct v as [x|].
  2:{ simpl. constructor; rewrite ?of_type_app; simpl; rewrite ?app_nil_r; assumption. }
  pose proof (Hmax 0 (or_introl eq_refl)) as M0.
  pose proof (Hmax 1 (or_intror (or_introl eq_refl))) as M1.
  pose proof (Hmax 2 (or_intror (or_intror eq_refl))) as M2.
  pose proof (Htie 0 (or_introl eq_refl)) as T0.
  pose proof (Htie 1 (or_intror (or_introl eq_refl))) as T1.
  pose proof (Htie 2 (or_intror (or_intror eq_refl))) as T2.
  unfold bucket in M0, M1, M2, T0, T1, T2, Hl. simpl in M0, M1, M2, T0, T1, T2.
  unfold mct_step.
  destruct (sv_type_cases x) as [E|[E|E]]; rewrite E; unfold bucket, set_bucket; simpl;
    destruct Hm as [Em|[Em|Em]]; rewrite Em in *; simpl in *;
    match goal with |- mct_inv _ (if ?c then _ else _) => destruct c eqn:C end;
    rewrite ?app_length in C; simpl in C;
    (constructor; simpl; rewrite ?of_type_snoc, ?E; simpl; rewrite ?app_nil_r;
     [ congruence | congruence | congruence | unfold is_type; auto | unfold bucket; simpl; try reflexivity; try congruence; try (exfalso; rewrite Hl in C; lia)
     | intros t [-> | [-> | ->]]; unfold bucket; simpl; rewrite ?app_length; simpl; rewrite ?Hl in *; lia
     | intros t [-> | [-> | ->]]; unfold bucket; simpl; rewrite ?app_length; simpl; rewrite ?Hl in *; lia ]).
Qed.

Lemma mct_inv_fold vs : forall pre s, mct_inv pre s -> mct_inv (pre ++ vs) (fold_left mct_step vs s).
Proof.
  induction vs as [|v vs IH]; intros pre s H; simpl.
  - rewrite app_nil_r. exact H.
  - replace (pre ++ v :: vs) with ((pre ++ [v]) ++ vs) by (rewrite <- app_assoc; reflexivity).
    apply IH. apply mct_inv_step. exact H.
Qed.

Lemma bucket_of_type vs s t : mct_inv vs s -> is_type t -> bucket s t = of_type t vs.
Proof. intros H [-> | [-> | ->]]; unfold bucket; simpl; apply H. Qed.

(* characterisation: the chosen type maximises the bucket size, ties to the lowest enum value, and
   the returned bucket is exactly the values of that type in list order *)
Theorem most_common_type_spec vs :
  let '(t, bk) := most_common_type vs in
  is_type t /\ bk = of_type t vs /\
  (forall t', is_type t' -> (length (of_type t' vs) <= length bk)%nat) /\
  (forall t', is_type t' -> length (of_type t' vs) = length bk -> t <= t').
Proof.
  unfold most_common_type.
  pose proof (mct_inv_fold vs [] mct_init mct_inv_init) as H. simpl in H.
  set (s := fold_left mct_step vs mct_init) in *.
  split; [apply H|]. split.
  - rewrite (inv_largest _ _ H). apply bucket_of_type; [exact H|apply H].
  - split; intros t' Ht'.
    + rewrite <- (bucket_of_type vs s t' H Ht'). apply H. exact Ht'.
    + rewrite <- (bucket_of_type vs s t' H Ht'). apply H. exact Ht'.
Qed.

(* a type whose bucket is strictly larger than every other bucket is the one chosen *)
Lemma most_common_type_majority vs T :
  is_type T ->
  (forall t', is_type t' -> t' <> T -> (length (of_type t' vs) < length (of_type T vs))%nat) ->
  most_common_type vs = (T, of_type T vs).
Proof.
  intros HT Hmaj. pose proof (most_common_type_spec vs) as H.
  destruct (most_common_type vs) as [t bk]. destruct H as (Ht & Hbk & Hmax & _).
  destruct (Z.eq_dec t T) as [->|Hne]; [subst; reflexivity|].
  exfalso. specialize (Hmaj t Ht Hne). specialize (Hmax T HT). subst bk. lia.
Qed.

Lemma of_type_perm t vs vs' : Permutation vs vs' -> Permutation (of_type t vs) (of_type t vs').
Proof.
  intros H. induction H; simpl.
  - constructor.
  - apply Permutation_app_head. exact IHPermutation.
  - rewrite !app_assoc. apply Permutation_app_tail. apply Permutation_app_comm.
  - etransitivity; eassumption.
Qed.

(* the chosen type and (up to order) the bucket depend only on the multiset of values *)
Theorem most_common_type_perm vs vs' :
  Permutation vs vs' ->
  fst (most_common_type vs) = fst (most_common_type vs') /\
  Permutation (snd (most_common_type vs)) (snd (most_common_type vs')).
Proof.
  intros HP.
  pose proof (most_common_type_spec vs) as H. pose proof (most_common_type_spec vs') as H'.
  destruct (most_common_type vs) as [t bk]. destruct (most_common_type vs') as [t' bk'].
  destruct H as (Ht & Hbk & Hmax & Htie). destruct H' as (Ht' & Hbk' & Hmax' & Htie'). simpl.
  assert (Hlen : forall u, length (of_type u vs) = length (of_type u vs')).
  { intros u. apply Permutation_length. apply of_type_perm. exact HP. }
  assert (t = t').
  { pose proof (Hmax t' Ht') as A1. pose proof (Hmax' t Ht) as A2.
    pose proof (Hlen t) as L1. pose proof (Hlen t') as L2.
    assert (L : length (of_type t' vs) = length bk) by (rewrite Hbk in *; rewrite Hbk' in *; lia).
    assert (L' : length (of_type t vs') = length bk') by (rewrite Hbk in *; rewrite Hbk' in *; lia).
    pose proof (Htie t' Ht' L). pose proof (Htie' t Ht L'). lia. }
  subst t'. split; [reflexivity|]. subst. apply of_type_perm. exact HP.
Qed.
