(* CostProofs.v — C19 on the cost models. *)
From DS Require Import Base Decimal Cost.
From Coq Require Import ZifyBool ZifyNat.

(* repaired decoder: linear, whatever the nesting *)
Theorem cost_guarded_linear t : (cost_guarded t <= 4 * nsize t)%nat.
Proof.
  destruct t as [n|h [n|h1 [n|h2 k]]]; cbn [cost_guarded nsize]; lia.
Qed.

(* pinned decoder: quadratic on a chain of wrappers *)
Lemma nsize_chain k h leaf : nsize (chain k h leaf) = (k * h + leaf)%nat.
Proof. induction k as [|k IH]; cbn [chain nsize]; [lia|rewrite IH; lia]. Qed.
Lemma cost_unguarded_chain k h leaf : (2 * cost_unguarded (chain k h leaf) = k * (k + 1) * h + 2 * (k + 1) * leaf)%nat.
Proof.
  induction k as [|k IH]; cbn [chain cost_unguarded]; [lia|]. rewrite nsize_chain. nia.
Qed.
Theorem cost_unguarded_quadratic_refuted : forall B : nat, exists t, (cost_unguarded t > B * nsize t)%nat.
Proof.
  intros B. exists (chain (2 * B + 2)%nat 1%nat 0%nat). pose proof (cost_unguarded_chain (2 * B + 2)%nat 1%nat 0%nat) as H.
  rewrite nsize_chain. nia.
Qed.
(* and the repaired decoder is below the pinned one on every input *)
Theorem cost_guarded_le_unguarded t : (cost_guarded t <= cost_unguarded t + 2 * nsize t)%nat.
Proof.
  destruct t as [n|h [n|h1 [n|h2 k]]]; cbn [cost_guarded cost_unguarded nsize]; lia.
Qed.

(* validation proper is linear in the decoded sizes *)
Theorem validate_cost_linear r u s v : (validate_cost r u s v <= r + u + s + v)%nat.
Proof. unfold validate_cost. lia. Qed.

(* F2: the cost of one comparison is not bounded by any function of the input size *)
Theorem cost_unbounded_refuted : forall B : Z, exists a b : dec,
  dec_wire_size a + dec_wire_size b <= 12 /\ dec_wf a = true /\ dec_wf b = true /\
  (B < 2 ^ 31 - 1 -> cmp_cost a b > B).
Proof.
  intros B. exists (mkdec 1 0), (mkdec 1 (- (2 ^ 31))). repeat split.
  - vm_compute. discriminate.
  - unfold cmp_cost. cbn [dexp mkdec]. lia.
Qed.
