(* SortProofs.v — the modelled insertion sort returns a sorted permutation whenever the comparator
   is merely COMPATIBLE with a total preorder (less a b -> a <= b, ~less a b -> b <= a).
   This weak requirement matters: decimal Cmp is not transitive on negative zeros. *)
From DS Require Import Base Sort RankMedian.
From Coq Require Import Sorted Permutation.

Section SortProofs.
  Context {A : Type} (le : A -> A -> Prop) (less : A -> A -> bool).
  Hypothesis le_trans : forall a b c, le a b -> le b c -> le a c.
  Hypothesis le_refl : forall a, le a a.
  Hypothesis less_le : forall a b, less a b = true -> le a b.
  Hypothesis nless_le : forall a b, less a b = false -> le b a.

  Definition desc (l : list A) : Prop := StronglySorted (fun a b => le b a) l.
  Definition asc (l : list A) : Prop := StronglySorted le l.

  Lemma ins_rev_perm x rp : Permutation (ins_rev less x rp) (x :: rp).
  Proof.
    induction rp as [|p r IH]; simpl; [reflexivity|].
    destruct (less x p); [|reflexivity].
    rewrite IH. apply perm_swap.
  Qed.

  Lemma ins_rev_desc x rp : desc rp -> desc (ins_rev less x rp).
  Proof.
    unfold desc. induction rp as [|p r IH]; intros H; simpl.
    - constructor; constructor.
    - inversion H as [|? ? Hr Hall]; subst.
      destruct (less x p) eqn:E.
      + constructor; [apply IH; exact Hr|].
        apply (Permutation_Forall (Permutation_sym (ins_rev_perm x r))).
        constructor; [apply less_le; exact E|exact Hall].
      + constructor; [exact H|]. constructor; [apply nless_le; exact E|].
        eapply Forall_impl; [|exact Hall]. intros b Hb. simpl in Hb.
        eapply le_trans; [exact Hb|]. apply nless_le. exact E.
  Qed.

  Lemma fold_ins_perm l : forall rp, Permutation (fold_left (fun rp x => ins_rev less x rp) l rp) (rev l ++ rp).
  Proof.
    induction l as [|x l IH]; intros rp; simpl; [reflexivity|].
    rewrite IH, ins_rev_perm. rewrite <- app_assoc. simpl. reflexivity.
  Qed.

  Lemma fold_ins_desc l : forall rp, desc rp -> desc (fold_left (fun rp x => ins_rev less x rp) l rp).
  Proof. induction l as [|x l IH]; intros rp H; simpl; [exact H|]. apply IH. apply ins_rev_desc. exact H. Qed.

  Lemma asc_snoc l a : asc l -> Forall (fun b => le b a) l -> asc (l ++ [a]).
  Proof.
    unfold asc. induction l as [|x l IH]; intros H1 H2; simpl.
    - constructor; constructor.
    - inversion H1; subst. inversion H2; subst. constructor; [apply IH; assumption|].
      apply Forall_app. split; [assumption|]. constructor; [assumption|constructor].
  Qed.

  Lemma desc_rev_asc l : desc l -> asc (rev l).
  Proof.
    unfold desc. induction l as [|x l IH]; intros H; simpl; [constructor|].
    inversion H; subst. apply asc_snoc; [apply IH; assumption|].
    apply Forall_rev. assumption.
  Qed.

  Lemma isort_perm l : Permutation (isort less l) l.
  Proof.
    unfold isort. rewrite <- Permutation_rev. rewrite fold_ins_perm, app_nil_r. symmetry. apply Permutation_rev.
  Qed.

  Lemma isort_asc l : asc (isort less l).
  Proof. unfold isort. apply desc_rev_asc. apply fold_ins_desc. constructor. Qed.

  Lemma asc_nth_sorted s : asc s -> nth_sorted le s.
  Proof.
    unfold asc, nth_sorted. induction s as [|x s IH]; intros H i j d Hij Hj; simpl in Hj; [lia|].
    inversion H as [|? ? Hs Hall]; subst.
    destruct i, j; simpl; try lia.
    - apply le_refl.
    - rewrite Forall_forall in Hall. apply Hall. apply nth_In. lia.
    - apply IH; [assumption|lia|lia].
  Qed.

  Theorem isort_sorted l : nth_sorted le (isort less l).
  Proof. apply asc_nth_sorted. apply isort_asc. Qed.

  Lemma isort_length l : length (isort less l) = length l.
  Proof. apply Permutation_length. apply isort_perm. Qed.
End SortProofs.
