(* ValidateProofs.v — ValidateObservation (ObservationCodec.validate_observation) against the votes of a correct
   node (Observe.honest_votes): what a correct node sends always passes validation (C14), validation is what makes
   the outcome function's attestation handling total (C11), and VerifyChannelDefinitions is monotone in the set. *)
From stdpp Require Import gmap.
From DS Require Import Base Decimal StreamValue Sort SortProofs RepoConstants Outcome Observe ObservationCodec Converge.
From Coq Require Import ZifyBool ZifyNat Lia.
Open Scope Z_scope.

(* ---------- the set of unique stream ids ---------- *)
Lemma fold_insert_tt_lookup (l : list Z) : forall (m : gmap Z unit) sid,
  fold_left (fun m sid => <[sid := tt]> m) l m !! sid = Some tt <-> (m !! sid = Some tt \/ sid ∈ l).
Proof.
  induction l as [|x l IH]; intros m sid; cbn [fold_left].
  - split; [intros H; left; exact H|intros [H|H]; [exact H|inversion H]].
  - rewrite IH. destruct (decide (x = sid)) as [->|Hne].
    + rewrite lookup_insert. split; [intros _; right; left|intros _; left; reflexivity].
    + rewrite lookup_insert_ne by exact Hne. split.
      * intros [H|H]; [left; exact H|right; right; exact H].
      * intros [H|H]; [left; exact H|]. inversion H; subst; [congruence|right; assumption].
Qed.

Lemma unique_stream_set_spec (defs : gmap Z chandef) sid :
  unique_stream_set defs !! sid = Some tt <-> exists c cd, defs !! c = Some cd /\ sid ∈ map fst (cd_streams cd).
Proof.
  unfold unique_stream_set. rewrite fold_insert_tt_lookup. rewrite lookup_empty. split.
  - intros [H|H]; [discriminate|]. apply elem_of_list_In, in_flat_map in H. destruct H as ([c cd] & Hin & Hs).
    exists c, cd. split; [apply elem_of_map_to_list, elem_of_list_In; exact Hin|apply elem_of_list_In; exact Hs].
  - intros (c & cd & Hl & Hs). right. apply elem_of_list_In, in_flat_map. exists (c, cd).
    split; [apply elem_of_list_In, elem_of_map_to_list; exact Hl|apply elem_of_list_In; exact Hs].
Qed.

Lemma unique_stream_set_mono (m1 m2 : gmap Z chandef) : m1 ⊆ m2 -> unique_stream_set m1 ⊆ unique_stream_set m2.
Proof.
  intros Hsub. apply map_subseteq_spec. intros sid [] H.
  apply unique_stream_set_spec in H. destruct H as (c & cd & Hl & Hs).
  apply unique_stream_set_spec. exists c, cd. split; [|exact Hs]. eapply lookup_weaken; eassumption.
Qed.

Lemma length_unique_stream_ids defs : length (unique_stream_ids defs) = size (unique_stream_set defs).
Proof. unfold unique_stream_ids. rewrite map_length. symmetry. apply map_size_list_to_map_aux || reflexivity. Qed.

(* ---------- VerifyChannelDefinitions is monotone: every subset of a verified set verifies ---------- *)
Lemma forallb_map_to_list {V} (p : Z * V -> bool) (m : gmap Z V) :
  forallb p (map_to_list m) = true <-> forall c v, m !! c = Some v -> p (c, v) = true.
Proof.
  rewrite forallb_forall. split.
  - intros H c v Hl. apply H. apply elem_of_list_In, elem_of_map_to_list. exact Hl.
  - intros H [c v] Hin. apply H. apply elem_of_map_to_list, elem_of_list_In. exact Hin.
Qed.

Lemma map_subseteq_size {V} (m1 m2 : gmap Z V) : m1 ⊆ m2 -> (size m1 <= size m2)%nat.
Proof.
  intros H. rewrite <- (size_dom (D := gset Z) m1), <- (size_dom (D := gset Z) m2).
  apply subseteq_size. apply subseteq_dom. exact H.
Qed.

Theorem verify_defs_mono codec_ok (m1 m2 : gmap Z chandef) :
  m1 ⊆ m2 -> verify_defs codec_ok m2 = true -> verify_defs codec_ok m1 = true.
Proof.
  intros Hsub. unfold verify_defs. rewrite !andb_true_iff. intros [[Hsize Hall] Hstreams].
  pose proof (map_subseteq_size _ _ Hsub) as Hs1.
  pose proof (map_subseteq_size _ _ (unique_stream_set_mono _ _ Hsub)) as Hs2.
  rewrite !length_unique_stream_ids in *.
  split; [split|]; [lia| |lia].
  rewrite forallb_map_to_list in *. intros c v Hl. apply Hall. eapply lookup_weaken; eassumption.
Qed.

(* ---------- what a correct node votes passes ValidateObservation ---------- *)
Lemma size_list_to_map_le {V} (l : list (Z * V)) : (size (list_to_map l : gmap Z V) <= length l)%nat.
Proof.
  induction l as [|[k v] l IH]; [cbn [list_to_map foldr]; rewrite map_size_empty; simpl; lia|]. cbn [list_to_map foldr length fst snd].
  destruct ((list_to_map l : gmap Z V) !! k) eqn:E.
  - rewrite map_size_insert_Some by (rewrite E; eauto). simpl in IH. lia.
  - rewrite map_size_insert_None by exact E. simpl in IH. lia.
Qed.
Lemma length_omap_le {A B} (f : A -> option B) (l : list A) : (length (omap f l) <= length l)%nat.
Proof. induction l as [|x l IH]; [simpl; lia|]. cbn [omap list_omap]. destruct (f x); simpl; lia. Qed.

Lemma honest_updates_subset codec_ok prev expected :
  snd (honest_votes codec_ok prev expected) ⊆ expected.
Proof.
  unfold honest_votes. destruct (bool_decide (o_stage prev = Retired)); [apply map_empty_subseteq|].
  destruct (verify_defs codec_ok expected); [|apply map_empty_subseteq]. cbn [snd].
  apply map_subseteq_spec. intros c d Hl. apply elem_of_list_to_map_2 in Hl.
  apply elem_of_list_omap in Hl. destruct Hl as (k & _ & Hk).
  destruct (expected !! k) eqn:E; [|discriminate]. cbn in Hk. inversion Hk; subst. exact E.
Qed.

Theorem honest_votes_validate codec_ok has_pred prev expected att retire ts vals :
  (has_pred = false -> att = []) ->
  (Z.of_nat (size vals) <= MaxObservationStreamValuesLength) ->
  (forall s v, vals !! s = Some v -> match v with STsv _ (SDec _) => True | STsv _ _ => False | _ => True end) ->
  let votes := honest_votes codec_ok prev expected in
  validate_observation codec_ok has_pred
    {| ro_att := att; ro_retire := retire; ro_ts := ts; ro_removes := fst votes; ro_updates := snd votes; ro_values := vals |} = true.
Proof.
  intros Hatt Hsize Hvals votes.
  assert (Hu0 : 0 <= MaxObservationUpdateChannelDefinitionsLength) by (vm_compute; discriminate).
  assert (Hr0 : 0 <= MaxObservationRemoveChannelIDsLength) by (vm_compute; discriminate).
  unfold validate_observation. cbn [ro_att ro_removes ro_updates ro_values].
  rewrite !andb_true_iff. split; [split; [split; [split; [split|]|]|]|].
  - destruct has_pred; [reflexivity|]. rewrite (Hatt eq_refl). reflexivity.
  - subst votes. unfold honest_votes. destruct (bool_decide (o_stage prev = Retired)); [cbn [fst snd]; rewrite map_size_empty; vm_compute; reflexivity|].
    destruct (verify_defs codec_ok expected); [|cbn [fst snd]; rewrite map_size_empty; vm_compute; reflexivity]. cbn [snd].
    match goal with |- context [size (list_to_map ?l)] => pose proof (size_list_to_map_le l) as H1 end.
    match type of H1 with (_ <= length (omap ?f ?l))%nat => pose proof (length_omap_le f l) as H2 end.
    rewrite firstn_length in H2. lia.
  - subst votes. unfold honest_votes. destruct (bool_decide (o_stage prev = Retired)); [vm_compute; reflexivity|].
    destruct (verify_defs codec_ok expected); [|vm_compute; reflexivity]. cbn [fst].
    rewrite firstn_length. lia.
  - subst votes. destruct (verify_defs codec_ok expected) eqn:Ev.
    + eapply verify_defs_mono; [apply honest_updates_subset|exact Ev].
    + unfold honest_votes. rewrite Ev. destruct (bool_decide (o_stage prev = Retired)); vm_compute; reflexivity.
  - lia.
  - apply forallb_map_to_list. intros s v Hl. specialize (Hvals s v Hl). cbn [snd].
    destruct v as [?|? ? ?|? [?|? ? ?|? ?]]; try reflexivity; contradiction.
Qed.

(* ---------- Plugin.Observation as a whole: what it returns passes ValidateObservation, never panics ---------- *)
From DS Require Import OutcomeCodec OutcomeCodecProofs.

Lemma verify_defs_empty codec_ok : verify_defs codec_ok ∅ = true.
Proof. reflexivity. Qed.

Lemma size_filter_wanted (wanted : gmap Z unit) (vals : gmap Z sval) :
  (size (base.filter (fun kv : Z * sval => is_Some (wanted !! fst kv)) vals) <= size wanted)%nat.
Proof.
  rewrite <- (size_dom (D := gset Z) (base.filter _ vals)), <- (size_dom (D := gset Z) wanted).
  apply subseteq_size. intros k Hk. apply elem_of_dom in Hk. destruct Hk as (v & Hv).
  apply map_filter_lookup_Some in Hv. destruct Hv as [_ Hw]. cbn in Hw. apply elem_of_dom. exact Hw.
Qed.

Theorem plugin_observation_validates codec_ok cf seq prev_bytes now cache_att should_retire expected source_vals source_fails ob :
  plugin_observation codec_ok cf seq prev_bytes now cache_att should_retire expected source_vals source_fails = Ok (Some ob) ->
  (forall s v, source_vals !! s = Some v -> match v with STsv _ (SDec _) => True | STsv _ _ => False | _ => True end) ->
  validate_observation codec_ok (c_has_pred cf) ob = true.
Proof.
  unfold plugin_observation. intros H Hvals.
  destruct (seq <? 1); [discriminate|]. destruct (seq =? 1); [discriminate|].
  destruct (decode_outcome (c_pver cf) prev_bytes) as [prev| |]; try discriminate.
  destruct (now <? 0); [discriminate|].
  destruct (bool_decide (o_stage prev = Retired)) eqn:Er.
  { inversion H; subst. unfold validate_observation. cbn [ro_att ro_removes ro_updates ro_values].
    rewrite verify_defs_empty. rewrite map_size_empty, map_to_list_empty. cbn [forallb length].
    rewrite bool_decide_eq_true_2 by reflexivity. destruct (c_has_pred cf); vm_compute; reflexivity. }
  destruct (verify_defs codec_ok (o_defs prev)) eqn:Ev; cbn [negb] in H; [|discriminate].
  assert (Hatt : forall att, (if c_has_pred cf && bool_decide (o_stage prev = Staging) then cache_att else Ok []) = Ok att ->
                 c_has_pred cf = false -> att = []).
  { intros att Ha Hp. rewrite Hp in Ha. cbn in Ha. inversion Ha. reflexivity. }
  destruct (if c_has_pred cf && bool_decide (o_stage prev = Staging) then cache_att else Ok []) as [att| |] eqn:Ea; try discriminate.
  destruct should_retire as [retire| |]; try discriminate.
  pose proof (honest_votes_validate codec_ok (c_has_pred cf) prev expected att retire now) as Hv.
  destruct (honest_votes codec_ok prev expected) as [rm up] eqn:Eh. cbn [fst snd] in Hv.
  destruct (bool_decide (o_defs prev = ∅)).
  - inversion H; subst. apply Hv; [apply Hatt; reflexivity| |].
    + rewrite map_size_empty. vm_compute. discriminate.
    + intros s v Hl. rewrite lookup_empty in Hl. discriminate.
  - destruct source_fails; [discriminate|]. inversion H; subst. apply Hv; [apply Hatt; reflexivity| |].
    + pose proof (size_filter_wanted (unique_stream_set (o_defs prev)) source_vals) as Hs.
      unfold verify_defs in Ev. rewrite !andb_true_iff in Ev. destruct Ev as [_ Hu]. rewrite length_unique_stream_ids in Hu. lia.
    + intros s v Hl. apply map_filter_lookup_Some in Hl. destruct Hl as [Hl _]. exact (Hvals s v Hl).
Qed.

Theorem plugin_observation_no_panic codec_ok cf seq prev_bytes now cache_att should_retire expected source_vals source_fails :
  is_panic cache_att = false -> is_panic should_retire = false ->
  is_panic (plugin_observation codec_ok cf seq prev_bytes now cache_att should_retire expected source_vals source_fails) = false.
Proof.
  intros Ha Hr. unfold plugin_observation.
  destruct (seq <? 1); [reflexivity|]. destruct (seq =? 1); [reflexivity|].
  pose proof (decode_outcome_no_panic (c_pver cf) prev_bytes) as Hd.
  destruct (decode_outcome (c_pver cf) prev_bytes) as [prev| |]; try discriminate; [|reflexivity].
  destruct (now <? 0); [reflexivity|]. destruct (bool_decide (o_stage prev = Retired)); [reflexivity|].
  destruct (negb (verify_defs codec_ok (o_defs prev))); [reflexivity|].
  destruct (c_has_pred cf && bool_decide (o_stage prev = Staging)).
  - destruct cache_att; try discriminate; [|reflexivity]. destruct should_retire; try discriminate; [|reflexivity].
    destruct (honest_votes codec_ok prev expected). destruct (bool_decide (o_defs prev = ∅)); [reflexivity|]. destruct source_fails; reflexivity.
  - destruct should_retire; try discriminate; [|reflexivity].
    destruct (honest_votes codec_ok prev expected). destruct (bool_decide (o_defs prev = ∅)); [reflexivity|]. destruct source_fails; reflexivity.
Qed.
