(* OutcomeEndToEnd.v — C02 for LLO from the correct nodes' data sources to the outcome:
   a correct node's observation is plugin_observation of its inputs (previous outcome bytes, caches, data source
   values, clock), marshalled in any map order; the other senders send arbitrary bytes; every correct node's Outcome
   decodes the bytes (undecodable ones are ignored), and the Decimal aggregate it commits for a (stream, median) pair
   lies between two values that correct nodes' DATA SOURCES returned for that stream. *)
From stdpp Require Import gmap.
From DS Require Import Base Decimal StreamValue Wire Sort Aggregators RepoConstants Outcome OutcomeCodec Observe ObservationCodec
  PluginOutcome PluginOutcomeBytes.
From DS Require Import SortProofs OutcomeProofs StepTheorems RankMedian DecimalProofs AggregatorProofs FieldLists OutcomeRoundTrip
  ObservationRoundTrip ReportsNoPanic DecodedWf ValidateProofs OutcomeAggRange.
From Coq Require Import Lia.
Open Scope Z_scope.

Lemma has_dup_NoDup (l : list Z) : List.NoDup l -> has_dup l = false.
Proof.
  induction l as [|x l IH]; intros H; [reflexivity|]. inversion H as [|? ? Hx Hl]; subst. cbn [has_dup].
  rewrite (IH Hl), Bool.orb_false_r. apply Bool.not_true_iff_false. intros He. apply existsb_exists in He.
  destruct He as (y & Hy & Hxy). apply Z.eqb_eq in Hxy. subst y. exact (Hx Hy).
Qed.

Lemma NoDup_filter' {A} (p : A -> bool) l : List.NoDup l -> List.NoDup (List.filter p l).
Proof. intros H. apply List.NoDup_filter. exact H. Qed.
Lemma in_firstn' {A} n (l : list A) x : In x (firstn n l) -> In x l.
Proof.
  revert n. induction l as [|y l IH]; intros n H; [destruct n; exact H|]. destruct n; [destruct H|].
  cbn [firstn] in H. destruct H as [->|H]; [left; reflexivity|right; exact (IH n H)].
Qed.
Lemma NoDup_firstn' {A} n (l : list A) : List.NoDup l -> List.NoDup (firstn n l).
Proof.
  revert n. induction l as [|x l IH]; intros n H; [destruct n; constructor|]. destruct n; [constructor|].
  inversion H as [|? ? Hx Hl]; subst. cbn [firstn]. constructor; [|apply IH; exact Hl].
  intros Hin. apply Hx. exact (in_firstn' n l x Hin).
Qed.

Lemma sorted_ids_spec {V} (m : gmap Z V) : List.NoDup (sorted_ids m) /\ forall c, In c (sorted_ids m) -> is_Some (m !! c).
Proof.
  unfold sorted_ids. pose proof (isort_perm Z.ltb (map fst (map_to_list m))) as Hp. split.
  - apply (Permutation.Permutation_NoDup (Permutation.Permutation_sym Hp)). apply NoDup_ListNoDup, NoDup_fst_map_to_list.
  - intros c Hc. apply (Permutation.Permutation_in _ Hp) in Hc. apply in_map_iff in Hc. destruct Hc as ([k v] & <- & Hkv).
    apply elem_of_list_In, elem_of_map_to_list in Hkv. cbn [fst]. eauto.
Qed.

(* the removal votes of a correct node are distinct ids of channels defined in the previous outcome *)
Lemma honest_removes_spec codec_ok prev expected :
  List.NoDup (fst (honest_votes codec_ok prev expected)) /\
  forall c, In c (fst (honest_votes codec_ok prev expected)) -> is_Some (o_defs prev !! c).
Proof.
  unfold honest_votes. destruct (bool_decide (o_stage prev = Retired)); [split; [constructor|intros c []]|].
  destruct (verify_defs codec_ok expected); [|split; [constructor|intros c []]]. cbn [fst].
  destruct (sorted_ids_spec (o_defs prev)) as [Hnd Hin]. split.
  - apply NoDup_firstn', NoDup_filter', Hnd.
  - intros c Hc. apply in_firstn' in Hc. apply filter_In in Hc. apply Hin, Hc.
Qed.

(* ---- what a correct node's Observation returns is well-formed for the wire ---- *)
Definition inputs_wf (now : Z) (expected : gmap Z chandef) (vals : gmap Z sval) : Prop :=
  u64_ok now /\ map_Forall (fun c cd => u32_ok c /\ def_wf cd) expected /\ map_Forall (fun s v => u32_ok s /\ sval_wf v) vals.

Lemma plugin_observation_wf codec_ok cf seq prev_bytes now cache_att should_retire expected vals fails ro :
  plugin_observation codec_ok cf seq prev_bytes now cache_att should_retire expected vals fails = Ok (Some ro) ->
  bok prev_bytes -> inputs_wf now expected vals ->
  obs_wf ro /\ List.NoDup (ro_removes ro) /\ ro_ts ro = now /\ ro_values ro ⊆ vals.
Proof.
  unfold plugin_observation. intros H Hb (Hnow & Hexp & Hvals).
  destruct (seq <? 1); [discriminate|]. destruct (seq =? 1); [discriminate|].
  destruct (decode_outcome (c_pver cf) prev_bytes) as [prev| |] eqn:Ed; try discriminate.
  pose proof (decoded_outcome_wf _ _ _ Ed Hb) as (_ & _ & Hdefs & _ & _).
  destruct (now <? 0); [discriminate|].
  destruct (bool_decide (o_stage prev = Retired)).
  { inversion H; subst. unfold obs_wf. cbn [ro_ts ro_removes ro_updates ro_values].
    refine (conj (conj Hnow (conj _ (conj _ _))) (conj _ (conj eq_refl _)));
      first [apply Forall_nil | apply map_Forall_empty | apply List.NoDup_nil | apply map_empty_subseteq]. }
  destruct (verify_defs codec_ok (o_defs prev)); cbn [negb] in H; [|discriminate].
  destruct (if c_has_pred cf && bool_decide (o_stage prev = Staging) then cache_att else Ok []) as [att| |]; try discriminate.
  destruct should_retire as [retire| |]; try discriminate.
  pose proof (honest_removes_spec codec_ok prev expected) as [Hnd Hrm].
  pose proof (honest_updates_subset codec_ok prev expected) as Hup.
  destruct (honest_votes codec_ok prev expected) as [rm up] eqn:Eh. cbn [fst snd] in *.
  assert (Hrm32 : Forall u32_ok rm).
  { apply Forall_forall. intros c Hc. destruct (Hrm c Hc) as [cd Hcd]. exact (proj1 (Hdefs c cd Hcd)). }
  assert (Hup_wf : map_Forall (fun c cd => u32_ok c /\ def_wf cd) up).
  { intros c cd Hc. apply (Hexp c cd). eapply lookup_weaken; [exact Hc|exact Hup]. }
  destruct (bool_decide (o_defs prev = ∅)).
  - inversion H; subst. unfold obs_wf. cbn [ro_ts ro_removes ro_updates ro_values].
    refine (conj (conj Hnow (conj Hrm32 (conj Hup_wf _))) (conj Hnd (conj eq_refl _)));
      first [apply map_Forall_empty | apply map_empty_subseteq].
  - destruct fails; [discriminate|]. inversion H; subst. unfold obs_wf. cbn [ro_ts ro_removes ro_updates ro_values].
    refine (conj (conj Hnow (conj Hrm32 (conj Hup_wf _))) (conj Hnd (conj eq_refl _))).
    + intros s v Hs. apply map_filter_lookup_Some in Hs. apply (Hvals s v), Hs.
    + apply map_filter_subseteq.
Qed.

(* ---- a round as seen on the wire ---- *)
Record obs_inp := { oi_now : Z; oi_att : res (list Z); oi_retire : res bool; oi_expected : gmap Z chandef;
                    oi_vals : gmap Z sval; oi_fails : bool }.

Section Round.
  Context (h : Z -> chandef -> list Z) (check : list Z -> option (gmap Z Z)) (codec_ok : chandef -> bool).
  Context (cf : cfg) (seq : Z) (prev_bytes : list Z).

  Definition observe (i : obs_inp) : res (option raw_observation) :=
    plugin_observation codec_ok cf seq prev_bytes (oi_now i) (oi_att i) (oi_retire i) (oi_expected i) (oi_vals i) (oi_fails i).

  (* a correct node (its inputs and the map orders its marshaller happened to use) or arbitrary bytes *)
  Inductive lsender :=
  | LCorrect (i : obs_inp) (rms : list Z) (ups : list (Z * chandef)) (vals : list (Z * sval))
  | LFaulty (b : list Z).
  Definition l_correct (s : lsender) : bool := match s with LCorrect _ _ _ _ => true | LFaulty _ => false end.
  (* a correct node whose Observation fails (or is the empty first-round observation) sends nothing *)
  Definition lsent (s : lsender) : option (list Z) :=
    match s with
    | LCorrect i rms ups vals => match observe i with Ok (Some ro) => Some (encode_observation rms ups vals ro) | _ => None end
    | LFaulty b => Some b
    end.
  Definition tagged1 (s : lsender) : option (option observation * bool) :=
    option_map (fun b => (obs_of_bytes check b, l_correct s)) (lsent s).
  Definition tagged (ss : list lsender) : list (option observation * bool) := omap tagged1 ss.

  (* the orders are permutations of the maps' contents; inputs are typed; messages are shorter than 2^64 bytes *)
  Definition lsenders_ok (ss : list lsender) : Prop :=
    forall i rms ups vals, In (LCorrect i rms ups vals) ss ->
      inputs_wf (oi_now i) (oi_expected i) (oi_vals i) /\
      forall ro, observe i = Ok (Some ro) ->
        Permutation rms (ro_removes ro) /\ Permutation ups (map_to_list (ro_updates ro)) /\
        Permutation vals (map_to_list (ro_values ro)) /\ small (encode_observation rms ups vals ro).

  (* what every correct node decodes from a correct node's bytes: the sender's observation *)
  Lemma correct_llo_observation_is_counted i rms ups vals ro : bok prev_bytes ->
    inputs_wf (oi_now i) (oi_expected i) (oi_vals i) -> observe i = Ok (Some ro) ->
    Permutation rms (ro_removes ro) -> Permutation ups (map_to_list (ro_updates ro)) ->
    Permutation vals (map_to_list (ro_values ro)) -> small (encode_observation rms ups vals ro) ->
    exists ob, obs_of_bytes check (encode_observation rms ups vals ro) = Some ob /\
               ob_ts ob = oi_now i /\ ob_values ob = ro_values ro /\ ob_updates ob = ro_updates ro /\
               ob_retire ob = ro_retire ro /\ ob_values ob ⊆ oi_vals i.
  Proof.
    intros Hb Hin Ho Prm Pup Pval Hsm. unfold observe in Ho.
    destruct (plugin_observation_wf _ _ _ _ _ _ _ _ _ _ _ Ho Hb Hin) as (Hwf & Hnd & Hts & Hsub).
    unfold obs_of_bytes. rewrite (observation_roundtrip rms ups vals ro Hwf Prm Pup Pval Hsm).
    rewrite has_dup_NoDup by (apply (Permutation.Permutation_NoDup (Permutation.Permutation_sym Prm)), Hnd).
    eexists. split; [reflexivity|]. cbn [obs_of_raw ob_ts ob_values ob_updates ob_retire ro_ts ro_values ro_updates ro_retire].
    repeat split; try assumption.
  Qed.

  Lemma tagged_correct ss ob : bok prev_bytes -> lsenders_ok ss -> In (Some ob, true) (tagged ss) ->
    exists i rms ups vals, In (LCorrect i rms ups vals) ss /\ ob_values ob ⊆ oi_vals i /\ ob_ts ob = oi_now i.
  Proof.
    intros Hb Hok Hin. unfold tagged in Hin. apply elem_of_list_In, elem_of_list_omap in Hin.
    destruct Hin as (s & Hs & Ht). apply elem_of_list_In in Hs. unfold tagged1 in Ht.
    destruct s as [i rms ups vals|b]; cbn [lsent l_correct] in Ht.
    - destruct (observe i) as [[ro|]| |] eqn:Eo; try discriminate. cbn [option_map] in Ht.
      destruct (Hok i rms ups vals Hs) as (Hwf & Hperm). destruct (Hperm ro Eo) as (Prm & Pup & Pval & Hsm).
      destruct (correct_llo_observation_is_counted i rms ups vals ro Hb Hwf Eo Prm Pup Pval Hsm) as (ob' & Hd & Hts & _ & _ & _ & Hsub).
      rewrite Hd in Ht. inversion Ht; subst ob'. exists i, rms, ups, vals. auto.
    - cbn [option_map] in Ht. inversion Ht.
  Qed.

  Lemma accepted_vals_in taos sid x t : In (Some x, t) (accepted_vals taos sid) ->
    exists ob, In (Some ob, t) taos /\ ob_values ob !! sid = Some x.
  Proof.
    unfold accepted_vals. intros H. apply elem_of_list_In, elem_of_list_omap in H. destruct H as ([ob t'] & Hin & Hv).
    apply elem_of_list_In in Hin. cbn [fst snd] in Hv. destruct (ob_values ob !! sid) as [v|] eqn:E; [|discriminate].
    cbn [option_map] in Hv. inversion Hv; subst. exists ob. split; [|exact E].
    exact (accept_tagged_sub false taos (ob, t) Hin).
  Qed.

  (* C02, end to end: the Decimal the new outcome holds for (stream, median) lies between two values that correct
     nodes' data sources returned for that stream *)
  Theorem llo_median_between_data_sources ss prev next sid d T :
    bok prev_bytes -> lsenders_ok ss -> 1 < seq ->
    outcome_step h cf seq prev (map fst (tagged ss)) = Ok next ->
    o_aggs next !! (sid, 1) = Some (SDec d) ->
    (T = 0 \/ T = 1) -> honest_type T (accepted_vals (tagged ss) sid) ->
    (fpres (accepted_vals (tagged ss) sid) < hpres (accepted_vals (tagged ss) sid))%nat ->
    exists i1 i2 x1 x2 lo hi,
      (exists rms ups vals, In (LCorrect i1 rms ups vals) ss) /\ (exists rms ups vals, In (LCorrect i2 rms ups vals) ss) /\
      oi_vals i1 !! sid = Some x1 /\ oi_vals i2 !! sid = Some x2 /\
      In lo (num_of x1) /\ In hi (num_of x2) /\ dle lo d /\ dle d hi.
  Proof.
    intros Hb Hok Hseq Hstep Hl HT Hh Hmaj.
    destruct (outcome_median_in_honest_range h cf seq prev (tagged ss) next sid d T Hseq Hstep Hl HT Hh Hmaj)
      as (lo & hi & xl & xh & Hxl & Hxh & Hlo & Hhi & Hle1 & Hle2).
    assert (Hfind : forall x, In (Some x, true) (accepted_vals (tagged ss) sid) ->
                    exists i, (exists rms ups vals, In (LCorrect i rms ups vals) ss) /\ oi_vals i !! sid = Some x).
    { intros x Hx. destruct (accepted_vals_in _ _ _ _ Hx) as (ob & Hob & Hv).
      destruct (tagged_correct ss ob Hb Hok Hob) as (i & rms & ups & vals & Hs & Hsub & _).
      exists i. split; [eauto|]. eapply lookup_weaken; [exact Hv|exact Hsub]. }
    destruct (Hfind xl Hxl) as (i1 & H1 & E1). destruct (Hfind xh Hxh) as (i2 & H2 & E2).
    exists i1, i2, xl, xh, lo, hi. auto 10.
  Qed.

  (* ... and the outcome's observation timestamp lies between two correct nodes' clocks *)
  Theorem llo_timestamp_between_clocks ss prev next :
    bok prev_bytes -> lsenders_ok ss -> 1 < seq ->
    outcome_step h cf seq prev (map fst (tagged ss)) = Ok next ->
    (faulty_count (accepted_ts (tagged ss)) < honest_count (accepted_ts (tagged ss)))%nat ->
    exists i1 i2, (exists rms ups vals, In (LCorrect i1 rms ups vals) ss) /\ (exists rms ups vals, In (LCorrect i2 rms ups vals) ss) /\
                  oi_now i1 <= o_ts next <= oi_now i2.
  Proof.
    intros Hb Hok Hseq Hstep Hmaj.
    destruct (outcome_timestamp_in_honest_range h cf seq prev (tagged ss) next Hseq Hstep Hmaj) as (lo & hi & Hlo & Hhi & Hr).
    assert (Hfind : forall t, In (t, true) (accepted_ts (tagged ss)) ->
                    exists i, (exists rms ups vals, In (LCorrect i rms ups vals) ss) /\ oi_now i = t).
    { intros t Ht. unfold accepted_ts in Ht. apply in_map_iff in Ht. destruct Ht as ([ob b] & Hpt & Hin). cbn [fst snd] in Hpt.
      inversion Hpt; subst. pose proof (accept_tagged_sub false (tagged ss) (ob, true) Hin) as Hob. cbn [fst snd] in Hob.
      destruct (tagged_correct ss ob Hb Hok Hob) as (i & rms & ups & vals & Hs & _ & Hts). exists i. split; [eauto|]. symmetry. exact Hts. }
    destruct (Hfind lo Hlo) as (i1 & H1 & E1). destruct (Hfind hi Hhi) as (i2 & H2 & E2).
    exists i1, i2. split; [exact H1|]. split; [exact H2|]. lia.
  Qed.
End Round.

(* ================= C06 end to end: a change of the channel set traces back to a correct node's definitions cache ================= *)
Lemma honest_removes_unexpected codec_ok prev expected c :
  In c (fst (honest_votes codec_ok prev expected)) -> expected !! c = None.
Proof.
  unfold honest_votes. destruct (bool_decide (o_stage prev = Retired)); [intros []|].
  destruct (verify_defs codec_ok expected); [|intros []]. cbn [fst]. intros Hc.
  apply in_firstn' in Hc. apply filter_In in Hc. destruct Hc as [_ Hc]. apply bool_decide_eq_true in Hc. exact Hc.
Qed.

Lemma plugin_observation_votes codec_ok cf seq prev_bytes now cache_att should_retire expected vals fails ro :
  plugin_observation codec_ok cf seq prev_bytes now cache_att should_retire expected vals fails = Ok (Some ro) ->
  (forall c, In c (ro_removes ro) -> expected !! c = None) /\ ro_updates ro ⊆ expected.
Proof.
  unfold plugin_observation. intros H.
  destruct (seq <? 1); [discriminate|]. destruct (seq =? 1); [discriminate|].
  destruct (decode_outcome (c_pver cf) prev_bytes) as [prev| |]; try discriminate.
  destruct (now <? 0); [discriminate|].
  destruct (bool_decide (o_stage prev = Retired)).
  { inversion H; subst. cbn [ro_removes ro_updates]. split; [intros c []|apply map_empty_subseteq]. }
  destruct (verify_defs codec_ok (o_defs prev)); cbn [negb] in H; [|discriminate].
  destruct (if c_has_pred cf && bool_decide (o_stage prev = Staging) then cache_att else Ok []) as [att| |]; try discriminate.
  destruct should_retire as [retire| |]; try discriminate.
  pose proof (honest_removes_unexpected codec_ok prev expected) as Hrm.
  pose proof (honest_updates_subset codec_ok prev expected) as Hup.
  destruct (honest_votes codec_ok prev expected) as [rm up]. cbn [fst snd] in *.
  destruct (bool_decide (o_defs prev = ∅)); [inversion H; subst; cbn [ro_removes ro_updates]; split; assumption|].
  destruct fails; [discriminate|]. inversion H; subst. cbn [ro_removes ro_updates]. split; assumption.
Qed.

Section Round06.
  Context (h : Z -> chandef -> list Z) (check : list Z -> option (gmap Z Z)) (codec_ok : chandef -> bool).
  Context (cf : cfg) (seq : Z) (prev_bytes : list Z).
  Local Notation tagged := (tagged check codec_ok cf seq prev_bytes).
  Local Notation lsenders_ok := (lsenders_ok codec_ok cf seq prev_bytes).

  (* what every correct node decodes from a correct node's bytes, votes included *)
  Lemma tagged_correct_votes ss ob : bok prev_bytes -> lsenders_ok ss -> In (Some ob, true) (tagged ss) ->
    exists i rms ups vals, In (LCorrect i rms ups vals) ss /\
      (forall c, In c (ob_removes ob) -> oi_expected i !! c = None) /\ ob_updates ob ⊆ oi_expected i.
  Proof.
    intros Hb Hok Hin. unfold OutcomeEndToEnd.tagged in Hin. apply elem_of_list_In, elem_of_list_omap in Hin.
    destruct Hin as (s & Hs & Ht). apply elem_of_list_In in Hs. unfold tagged1 in Ht.
    destruct s as [i rms ups vals|b]; cbn [lsent l_correct] in Ht.
    - destruct (observe codec_ok cf seq prev_bytes i) as [[ro|]| |] eqn:Eo; try discriminate. cbn [option_map] in Ht.
      destruct (Hok i rms ups vals Hs) as (Hwf & Hperm). destruct (Hperm ro Eo) as (Prm & Pup & Pval & Hsm).
      unfold observe in Eo.
      destruct (plugin_observation_wf _ _ _ _ _ _ _ _ _ _ _ Eo Hb Hwf) as (Hobs & Hnd & _ & _).
      destruct (plugin_observation_votes _ _ _ _ _ _ _ _ _ _ _ Eo) as (Hrm & Hup).
      unfold obs_of_bytes in Ht. rewrite (observation_roundtrip rms ups vals ro Hobs Prm Pup Pval Hsm) in Ht.
      rewrite has_dup_NoDup in Ht by (apply (Permutation.Permutation_NoDup (Permutation.Permutation_sym Prm)), Hnd).
      inversion Ht; subst ob. exists i, rms, ups, vals. split; [exact Hs|].
      cbn [obs_of_raw ob_removes ob_updates ro_removes ro_updates]. split; [|exact Hup].
      intros c Hc. apply Hrm. exact (Permutation.Permutation_in _ Prm Hc).
    - cbn [option_map] in Ht. inversion Ht.
  Qed.

  (* more than f votes with at most f faulty senders: one of the voters is a correct node *)
  Lemma votes_need_correct (P : observation -> bool) (taos : list (option observation * bool)) rr obs f :
    accept_observations (c_has_pred cf) (map fst taos) = Ok (rr, obs) ->
    (length (List.filter (fun p => negb (snd p)) taos) <= f)%nat -> (f < length (List.filter P obs))%nat ->
    exists ob, In (Some ob, true) taos /\ P ob = true.
  Proof.
    intros Ha Hf Hv.
    destruct (existsb (fun p => match p with (Some ob, true) => P ob | _ => false end) taos) eqn:Ex.
    - apply existsb_exists in Ex. destruct Ex as ([[ob|] [|]] & Hin & HP); try discriminate. eauto.
    - exfalso. unfold accept_observations in Ha. apply accept_tagged_spec in Ha. simpl in Ha. subst obs.
      assert (Hle : (length (List.filter P (map fst (accept_tagged false taos))) <= f)%nat).
      { etransitivity; [apply votes_le_faulty|etransitivity; [apply accept_tagged_faulty|exact Hf]].
        intros ob Hob. pose proof (accept_tagged_sub false taos (ob, true) Hob) as Hin. cbn [fst snd] in Hin.
        destruct (P ob) eqn:EP; [|reflexivity]. exfalso.
        assert (Hex : existsb (fun p => match p with (Some ob, true) => P ob | _ => false end) taos = true)
          by (apply existsb_exists; exists (Some ob, true); split; [exact Hin|exact EP]).
        congruence. }
      lia.
  Qed.

  Theorem llo_def_change_traces_to_correct_cache ss prev next c :
    bok prev_bytes -> lsenders_ok ss -> 1 < seq ->
    outcome_step h cf seq prev (map fst (tagged ss)) = Ok next ->
    (length (List.filter (fun p => negb (snd p)) (tagged ss)) <= c_f cf)%nat ->
    o_defs next !! c <> o_defs prev !! c ->
    exists i, (exists rms ups vals, In (LCorrect i rms ups vals) ss) /\
              ((o_defs next !! c = None /\ oi_expected i !! c = None) \/
               (exists d, o_defs next !! c = Some d /\ oi_expected i !! c = Some d)).
  Proof.
    intros Hb Hok Hseq Hstep Hf Hne.
    destruct (def_change_needs_votes h cf seq prev (map fst (tagged ss)) next c Hseq Hstep Hne)
      as (rr & obs & Ha & _ & _ & [[Hn Hv]|(d & Hd & Hv)]).
    - unfold remove_votes in Hv.
      destruct (votes_need_correct (fun ob => bool_decide (c ∈ ob_removes ob)) (tagged ss) rr obs (c_f cf) Ha Hf Hv) as (ob & Hob & HP).
      apply bool_decide_eq_true in HP. apply elem_of_list_In in HP.
      destruct (tagged_correct_votes ss ob Hb Hok Hob) as (i & rms & ups & vals & Hs & Hrm & _).
      exists i. split; [eauto|]. left. split; [exact Hn|exact (Hrm c HP)].
    - unfold update_votes in Hv.
      destruct (votes_need_correct (fun ob => bool_decide (ob_updates ob !! c = Some d)) (tagged ss) rr obs (c_f cf) Ha Hf Hv) as (ob & Hob & HP).
      apply bool_decide_eq_true in HP.
      destruct (tagged_correct_votes ss ob Hb Hok Hob) as (i & rms & ups & vals & Hs & _ & Hup).
      exists i. split; [eauto|]. right. exists d. split; [exact Hd|]. eapply lookup_weaken; [exact HP|exact Hup].
  Qed.
End Round06.

(* ================= C14 on the wire: the bytes a correct node sends pass every correct node's ValidateObservation ================= *)
Theorem correct_bytes_validate codec_ok cf seq prev_bytes (i : obs_inp) rms ups vals ro :
  bok prev_bytes -> inputs_wf (oi_now i) (oi_expected i) (oi_vals i) ->
  (forall s v, oi_vals i !! s = Some v -> match v with STsv _ (SDec _) => True | STsv _ _ => False | _ => True end) ->
  observe codec_ok cf seq prev_bytes i = Ok (Some ro) ->
  Permutation rms (ro_removes ro) -> Permutation ups (map_to_list (ro_updates ro)) ->
  Permutation vals (map_to_list (ro_values ro)) -> small (encode_observation rms ups vals ro) ->
  plugin_validate codec_ok (c_has_pred cf) seq (encode_observation rms ups vals ro) = Ok tt.
Proof.
  intros Hb Hin Htsv Ho Prm Pup Pval Hsm. unfold observe in Ho.
  destruct (plugin_observation_wf _ _ _ _ _ _ _ _ _ _ _ Ho Hb Hin) as (Hwf & Hnd & _ & _).
  pose proof (plugin_observation_validates _ _ _ _ _ _ _ _ _ _ _ Ho Htsv) as Hval.
  assert (Hseq : (seq <? 1) = false /\ (seq =? 1) = false).
  { unfold plugin_observation in Ho. destruct (seq <? 1); [discriminate|]. destruct (seq =? 1); [discriminate|]. split; reflexivity. }
  unfold plugin_validate. destruct Hseq as [-> ->]. cbn [andb].
  rewrite (observation_roundtrip rms ups vals ro Hwf Prm Pup Pval Hsm).
  rewrite has_dup_NoDup by (apply (Permutation.Permutation_NoDup (Permutation.Permutation_sym Prm)), Hnd).
  unfold validate_observation in *. cbn [ro_att ro_removes ro_updates ro_values].
  rewrite (Permutation.Permutation_length Prm). rewrite Hval. reflexivity.
Qed.

(* ================= C15 end to end: the mode aggregate is a value some correct node's data source returned ================= *)
From DS Require Import ModeProofs StreamValueProofs.

Section Round15.
  Context (h : Z -> chandef -> list Z) (check : list Z -> option (gmap Z Z)) (codec_ok : chandef -> bool).
  Context (cf : cfg) (seq : Z) (prev_bytes : list Z).
  Local Notation tagged := (tagged check codec_ok cf seq prev_bytes).
  Local Notation lsenders_ok := (lsenders_ok codec_ok cf seq prev_bytes).

  Definition not_tsv (v : sval) : Prop := match v with STsv _ _ => False | _ => True end.

  Theorem llo_mode_from_a_correct_data_source ss prev next sid v :
    bok prev_bytes -> lsenders_ok ss -> 1 < seq ->
    (forall i rms ups vals, In (LCorrect i rms ups vals) ss -> map_Forall (fun _ x => small (sval_marshal x)) (oi_vals i)) ->
    outcome_step h cf seq prev (map fst (tagged ss)) = Ok next ->
    o_aggs next !! (sid, 2) = Some v -> not_tsv v ->
    (length (List.filter (fun p : option sval * bool => match fst p with Some _ => negb (snd p) | None => false end)
                         (accepted_vals (tagged ss) sid)) <= c_f cf)%nat ->
    exists i, (exists rms ups vals, In (LCorrect i rms ups vals) ss) /\ oi_vals i !! sid = Some v.
  Proof.
    intros Hb Hok Hseq Hsmall Hstep Hl Hnt Hf.
    pose proof (step_aggregate h cf seq prev (tagged ss) next (sid, 2) v Hseq Hstep Hl) as Hav.
    unfold agg_value, agg_fun in Hav. cbn [Z.eqb Pos.eqb] in Hav. rewrite <- accepted_vals_fst in Hav.
    destruct (mode_agg (map fst (accepted_vals (tagged ss) sid)) (c_f cf)) as [[r|]| |] eqn:Em.
    - assert (Hr : r = v).
      { destruct r as [d|a b c|t i0].
        - inversion Hav; reflexivity.
        - inversion Hav; reflexivity.
        - destruct (o_aggs prev !! (sid, 2)) as [[?|? ? ?|pt pi]|]; [inversion Hav; subst v; destruct Hnt| inversion Hav; subst v; destruct Hnt| |inversion Hav; subst v; destruct Hnt].
          destruct (t <=? pt); inversion Hav; subst v; destruct Hnt. }
      subst r. destruct (mode_honest_witness _ _ _ Hf Em) as (x & ser & Hx & Hser & Hun).
      destruct (accepted_vals_in _ _ _ _ Hx) as (ob & Hob & Hv).
      destruct (tagged_correct check codec_ok cf seq prev_bytes ss ob Hb Hok Hob) as (i & rms & ups & vals & Hs & Hsub & _).
      pose proof (lookup_weaken _ _ _ _ Hv Hsub) as Hsrc.
      destruct (Hok i rms ups vals Hs) as ((_ & _ & Hvwf) & _). destruct (Hvwf sid x Hsrc) as [_ [Hxok Hxd]].
      pose proof (Hsmall i rms ups vals Hs sid x Hsrc) as Hxs.
      rewrite <- Hser in Hun. rewrite (sval_roundtrip x Hxok (sval_small_of_small x Hxs) Hxd) in Hun. inversion Hun; subst x.
      exists i. split; [eauto|exact Hsrc].
    - discriminate.
    - destruct (o_aggs prev !! (sid, 2)) as [[?|? ? ?|pt pi]|]; try discriminate. inversion Hav; subst v. destruct Hnt.
    - discriminate.
  Qed.
End Round15.

(* ================= C02 end to end, quote aggregates ================= *)
Section RoundQuote.
  Context (h : Z -> chandef -> list Z) (check : list Z -> option (gmap Z Z)) (codec_ok : chandef -> bool).
  Context (cf : cfg) (seq : Z) (prev_bytes : list Z).
  Local Notation tagged := (tagged check codec_ok cf seq prev_bytes).
  Local Notation lsenders_ok := (lsenders_ok codec_ok cf seq prev_bytes).

  (* the Quote the new outcome holds for (stream, quote) is ordered and its benchmark lies between the benchmarks of two
     quotes that correct nodes' data sources returned *)
  Theorem llo_quote_between_data_sources ss prev next sid bid bm ask :
    bok prev_bytes -> lsenders_ok ss -> 1 < seq ->
    outcome_step h cf seq prev (map fst (tagged ss)) = Ok next ->
    o_aggs next !! (sid, 3) = Some (SQuote bid bm ask) ->
    honest_quote (accepted_vals (tagged ss) sid) ->
    (fpres (accepted_vals (tagged ss) sid) < hpres (accepted_vals (tagged ss) sid))%nat ->
    dle bid bm /\ dle bm ask /\
    exists i1 i2 a1 b1 c1 a2 b2 c2,
      (exists rms ups vals, In (LCorrect i1 rms ups vals) ss) /\ (exists rms ups vals, In (LCorrect i2 rms ups vals) ss) /\
      oi_vals i1 !! sid = Some (SQuote a1 b1 c1) /\ oi_vals i2 !! sid = Some (SQuote a2 b2 c2) /\ dle b1 bm /\ dle bm b2.
  Proof.
    intros Hb Hok Hseq Hstep Hl Hh Hmaj.
    destruct (outcome_quote_in_honest_range h cf seq prev (tagged ss) next sid bid bm ask Hseq Hstep Hl Hh Hmaj)
      as (H1 & H2 & l & hh & Hlin & Hhin & (a1 & b1 & c1 & -> & Hle1) & (a2 & b2 & c2 & -> & Hle2)).
    split; [exact H1|]. split; [exact H2|].
    assert (Hfind : forall x, In (Some x, true) (accepted_vals (tagged ss) sid) ->
                    exists i, (exists rms ups vals, In (LCorrect i rms ups vals) ss) /\ oi_vals i !! sid = Some x).
    { intros x Hx. destruct (accepted_vals_in _ _ _ _ Hx) as (ob & Hob & Hv).
      destruct (tagged_correct check codec_ok cf seq prev_bytes ss ob Hb Hok Hob) as (i & rms & ups & vals & Hs & Hsub & _).
      exists i. split; [eauto|]. eapply lookup_weaken; [exact Hv|exact Hsub]. }
    destruct (Hfind _ Hlin) as (i1 & Hi1 & E1). destruct (Hfind _ Hhin) as (i2 & Hi2 & E2).
    exists i1, i2, a1, b1, c1, a2, b2, c2. auto 10.
  Qed.
End RoundQuote.

(* ================= C02 end to end, timestamped medians ================= *)
Section RoundTsv.
  Context (h : Z -> chandef -> list Z) (check : list Z -> option (gmap Z Z)) (codec_ok : chandef -> bool).
  Context (cf : cfg) (seq : Z) (prev_bytes : list Z).
  Local Notation tagged := (tagged check codec_ok cf seq prev_bytes).
  Local Notation lsenders_ok := (lsenders_ok codec_ok cf seq prev_bytes).

  Theorem llo_tsv_median_between_data_sources ss prev next sid t d :
    bok prev_bytes -> lsenders_ok ss -> 1 < seq ->
    outcome_step h cf seq prev (map fst (tagged ss)) = Ok next ->
    o_aggs next !! (sid, 1) = Some (STsv t (SDec d)) ->
    honest_tsv (accepted_vals (tagged ss) sid) ->
    (fpres (accepted_vals (tagged ss) sid) < hpres (accepted_vals (tagged ss) sid))%nat ->
    o_aggs prev !! (sid, 1) = Some (STsv t (SDec d)) \/
    exists i1 i2 i3 i4 tl th dl dh x1 x2 t1 t2,
      (exists rms ups vals, In (LCorrect i1 rms ups vals) ss) /\ (exists rms ups vals, In (LCorrect i2 rms ups vals) ss) /\
      (exists rms ups vals, In (LCorrect i3 rms ups vals) ss) /\ (exists rms ups vals, In (LCorrect i4 rms ups vals) ss) /\
      oi_vals i1 !! sid = Some (STsv tl x1) /\ oi_vals i2 !! sid = Some (STsv th x2) /\ tl <= t <= th /\
      oi_vals i3 !! sid = Some (STsv t1 (SDec dl)) /\ oi_vals i4 !! sid = Some (STsv t2 (SDec dh)) /\ dle dl d /\ dle d dh.
  Proof.
    intros Hb Hok Hseq Hstep Hl Hh Hmaj.
    destruct (outcome_tsv_median_in_honest_range h cf seq prev (tagged ss) next sid t d Hseq Hstep Hl Hh Hmaj)
      as [Hkept|(tl & th & dl & dh & t1 & d1 & t2 & d2 & H1 & H2 & H3 & H4 & H5 & H6 & H7)]; [left; exact Hkept|right].
    assert (Hfind : forall x, In (Some x, true) (accepted_vals (tagged ss) sid) ->
                    exists i, (exists rms ups vals, In (LCorrect i rms ups vals) ss) /\ oi_vals i !! sid = Some x).
    { intros x Hx. destruct (accepted_vals_in _ _ _ _ Hx) as (ob & Hob & Hv).
      destruct (tagged_correct check codec_ok cf seq prev_bytes ss ob Hb Hok Hob) as (i & rms & ups & vals & Hs & Hsub & _).
      exists i. split; [eauto|]. eapply lookup_weaken; [exact Hv|exact Hsub]. }
    destruct (Hfind _ H1) as (i1 & Hi1 & E1). destruct (Hfind _ H2) as (i2 & Hi2 & E2).
    destruct (Hfind _ H4) as (i3 & Hi3 & E3). destruct (Hfind _ H5) as (i4 & Hi4 & E4).
    exists i1, i2, i3, i4, tl, th, dl, dh, d1, d2, t1, t2. repeat split; try assumption; lia.
  Qed.
End RoundTsv.

(* ================= C14 end to end: one round towards the target that the correct nodes' caches hold ================= *)
From DS Require Import Converge ConvergeProofs.

Lemma plugin_observation_exact_votes codec_ok cf seq prev_bytes now cache_att should_retire expected vals fails ro prev :
  plugin_observation codec_ok cf seq prev_bytes now cache_att should_retire expected vals fails = Ok (Some ro) ->
  decode_outcome (c_pver cf) prev_bytes = Ok prev -> o_stage prev = Production ->
  (ro_removes ro, ro_updates ro) = honest_votes codec_ok prev expected /\ ro_att ro = [].
Proof.
  unfold plugin_observation. intros H Hd Hst.
  destruct (seq <? 1); [discriminate|]. destruct (seq =? 1); [discriminate|]. rewrite Hd in H.
  destruct (now <? 0); [discriminate|].
  rewrite bool_decide_eq_false_2 in H by (rewrite Hst; discriminate).
  destruct (verify_defs codec_ok (o_defs prev)); cbn [negb] in H; [|discriminate].
  replace (c_has_pred cf && bool_decide (o_stage prev = Staging)) with false in H
    by (rewrite (bool_decide_eq_false_2 (o_stage prev = Staging)) by (rewrite Hst; discriminate); rewrite Bool.andb_false_r; reflexivity).
  destruct should_retire as [retire| |]; try discriminate.
  destruct (honest_votes codec_ok prev expected) as [rm up].
  destruct (bool_decide (o_defs prev = ∅)); [inversion H; subst; split; reflexivity|].
  destruct fails; [discriminate|]. inversion H; subst. split; reflexivity.
Qed.

Section Round14.
  Context (h : Z -> chandef -> list Z) (check : list Z -> option (gmap Z Z)) (codec_ok : chandef -> bool).
  Context (cf : cfg) (seq : Z) (prev_bytes : list Z).
  Local Notation tagged := (tagged check codec_ok cf seq prev_bytes).
  Local Notation lsenders_ok := (lsenders_ok codec_ok cf seq prev_bytes).

  (* every correct node's decoded observation carries exactly the votes honest_votes prescribes for the shared target *)
  Lemma tagged_correct_honest_ob ss prev target ob : bok prev_bytes -> lsenders_ok ss ->
    decode_outcome (c_pver cf) prev_bytes = Ok prev -> o_stage prev = Production -> verify_defs codec_ok target = true ->
    (forall i rms ups vals, In (LCorrect i rms ups vals) ss -> oi_expected i = target) ->
    In (Some ob, true) (tagged ss) ->
    honest_ob (rm_votes (o_defs prev) target) (up_votes (o_defs prev) target) ob.
  Proof.
    intros Hb Hok Hd Hst Hv Htgt Hin. unfold OutcomeEndToEnd.tagged in Hin. apply elem_of_list_In, elem_of_list_omap in Hin.
    destruct Hin as (s & Hs & Ht). apply elem_of_list_In in Hs. unfold tagged1 in Ht.
    destruct s as [i rms ups vals|b]; cbn [lsent l_correct] in Ht; [|cbn [option_map] in Ht; inversion Ht].
    destruct (observe codec_ok cf seq prev_bytes i) as [[ro|]| |] eqn:Eo; try discriminate. cbn [option_map] in Ht.
    destruct (Hok i rms ups vals Hs) as (Hwf & Hperm). destruct (Hperm ro Eo) as (Prm & Pup & Pval & Hsm).
    unfold observe in Eo.
    destruct (plugin_observation_wf _ _ _ _ _ _ _ _ _ _ _ Eo Hb Hwf) as (Hobs & Hnd & _ & _).
    destruct (plugin_observation_exact_votes _ _ _ _ _ _ _ _ _ _ _ prev Eo Hd Hst) as [Hvotes _].
    rewrite (Htgt i rms ups vals Hs) in Hvotes.
    rewrite (honest_votes_shape codec_ok prev target) in Hvotes by (try exact Hv; rewrite Hst; discriminate).
    injection Hvotes as Hrm Hup.
    unfold obs_of_bytes in Ht. rewrite (observation_roundtrip rms ups vals ro Hobs Prm Pup Pval Hsm) in Ht.
    rewrite has_dup_NoDup in Ht by (apply (Permutation.Permutation_NoDup (Permutation.Permutation_sym Prm)), Hnd).
    inversion Ht; subst ob. unfold honest_ob. cbn [obs_of_raw ob_removes ob_updates ro_removes ro_updates]. split; [|exact Hup].
    intros c. rewrite <- Hrm. split; intros Hc; apply elem_of_list_In; apply elem_of_list_In in Hc.
    - exact (Permutation.Permutation_in _ Prm Hc).
    - exact (Permutation.Permutation_in _ (Permutation.Permutation_sym Prm) Hc).
  Qed.

  (* one round: with at most f faulty senders and more than f correct observations accepted, every correct node holding
     the same valid target, the new channel set is the previous one with exactly the agreed batch of changes applied *)
  Theorem llo_agreed_round ss prev next target :
    bok prev_bytes -> lsenders_ok ss -> 1 < seq ->
    decode_outcome (c_pver cf) prev_bytes = Ok prev -> o_stage prev = Production -> verify_defs codec_ok target = true ->
    (forall i rms ups vals, In (LCorrect i rms ups vals) ss -> oi_expected i = target) ->
    (length (List.filter (fun p : option observation * bool => negb (snd p)) (tagged ss)) <= c_f cf)%nat ->
    (c_f cf < length (List.filter (fun p : observation * bool => snd p) (accept_tagged false (tagged ss))))%nat ->
    (size (dom (o_defs prev) ∪ dom target) <= chan_cap)%nat ->
    outcome_step h cf seq prev (map fst (tagged ss)) = Ok next -> o_stage next <> Retired ->
    forall k, o_defs next !! k =
      if bool_decide (k ∈ up_list (o_defs prev) target) then target !! k
      else if bool_decide (k ∈ rm_votes (o_defs prev) target) then None else o_defs prev !! k.
  Proof.
    intros Hb Hok Hseq Hd Hst Hv Htgt Hf Hh Hcap Hstep Hnr k.
    destruct (outcome_step_inv h cf seq prev _ next Hseq Hstep) as (rr & obs & ts & aggs & Ha & _ & _ & _ & Hc).
    destruct (codec_commit_fields _ _ _ Hc) as (Hstage & _ & Hdefs & _ & _).
    unfold accept_observations in Ha. apply accept_tagged_spec in Ha. simpl in Ha. subst obs.
    cbn [o_defs o_stage raw_outcome] in Hdefs, Hstage.
    rewrite Hdefs.
    match goal with |- new_defs h _ ?r _ _ !! k = _ => replace r with false end.
    2:{ symmetry. apply bool_decide_eq_false_2. rewrite <- Hstage. exact Hnr. }
    apply (agreed_round h (c_f cf) (o_defs prev) target (accept_tagged false (tagged ss))); [|exact Hcap].
    split; [|split].
    - apply Forall_forall. intros [ob t] Hin Ht. cbn [fst snd] in *. subst t.
      apply (tagged_correct_honest_ob ss prev target ob Hb Hok Hd Hst Hv Htgt).
      exact (accept_tagged_sub false (tagged ss) (ob, true) Hin).
    - etransitivity; [apply accept_tagged_faulty|exact Hf].
    - exact Hh.
  Qed.

  (* once the outcome's channel set equals the target the correct nodes hold, it stays equal, whatever faulty senders vote *)
  Theorem llo_stays_at_target ss prev next target :
    bok prev_bytes -> lsenders_ok ss -> 1 < seq ->
    decode_outcome (c_pver cf) prev_bytes = Ok prev -> o_stage prev = Production -> verify_defs codec_ok target = true ->
    (forall i rms ups vals, In (LCorrect i rms ups vals) ss -> oi_expected i = target) ->
    (length (List.filter (fun p : option observation * bool => negb (snd p)) (tagged ss)) <= c_f cf)%nat ->
    (c_f cf < length (List.filter (fun p : observation * bool => snd p) (accept_tagged false (tagged ss))))%nat ->
    o_defs prev = target -> (size target <= chan_cap)%nat ->
    outcome_step h cf seq prev (map fst (tagged ss)) = Ok next -> o_stage next <> Retired ->
    o_defs next = target.
  Proof.
    intros Hb Hok Hseq Hd Hst Hv Htgt Hf Hh Heq Hcap Hstep Hnr. apply map_eq. intros k.
    rewrite (llo_agreed_round ss prev next target Hb Hok Hseq Hd Hst Hv Htgt Hf Hh) by
      (try assumption; rewrite Heq, union_idemp_L, size_dom; exact Hcap).
    rewrite Heq.
    destruct (bool_decide (k ∈ up_list target target)) eqn:E1; [reflexivity|].
    destruct (bool_decide (k ∈ rm_votes target target)) eqn:E2; [|reflexivity].
    apply bool_decide_eq_true, elem_of_firstn, rm_todo_spec in E2. destruct E2 as [_ Hn]. rewrite Hn. reflexivity.
  Qed.
End Round14.

(* ================= C06 end to end, lifecycle: retirement traces back to a correct node's ShouldRetire cache ================= *)
Lemma plugin_observation_retire codec_ok cf seq prev_bytes now cache_att should_retire expected vals fails ro :
  plugin_observation codec_ok cf seq prev_bytes now cache_att should_retire expected vals fails = Ok (Some ro) ->
  ro_retire ro = true -> should_retire = Ok true.
Proof.
  unfold plugin_observation. intros H Hr.
  destruct (seq <? 1); [discriminate|]. destruct (seq =? 1); [discriminate|].
  destruct (decode_outcome (c_pver cf) prev_bytes) as [prev| |]; try discriminate.
  destruct (now <? 0); [discriminate|].
  destruct (bool_decide (o_stage prev = Retired)); [inversion H; subst; discriminate|].
  destruct (verify_defs codec_ok (o_defs prev)); cbn [negb] in H; [|discriminate].
  destruct (if c_has_pred cf && bool_decide (o_stage prev = Staging) then cache_att else Ok []) as [att| |]; try discriminate.
  destruct should_retire as [retire| |]; try discriminate.
  destruct (honest_votes codec_ok prev expected) as [rm up].
  destruct (bool_decide (o_defs prev = ∅)); [inversion H; subst; cbn in Hr; subst; reflexivity|].
  destruct fails; [discriminate|]. inversion H; subst. cbn in Hr. subst. reflexivity.
Qed.

Section Round06b.
  Context (h : Z -> chandef -> list Z) (check : list Z -> option (gmap Z Z)) (codec_ok : chandef -> bool).
  Context (cf : cfg) (seq : Z) (prev_bytes : list Z).
  Local Notation tagged := (tagged check codec_ok cf seq prev_bytes).
  Local Notation lsenders_ok := (lsenders_ok codec_ok cf seq prev_bytes).

  Lemma tagged_correct_retire ss ob : bok prev_bytes -> lsenders_ok ss -> In (Some ob, true) (tagged ss) -> ob_retire ob = true ->
    exists i rms ups vals, In (LCorrect i rms ups vals) ss /\ oi_retire i = Ok true.
  Proof.
    intros Hb Hok Hin Hr. unfold OutcomeEndToEnd.tagged in Hin. apply elem_of_list_In, elem_of_list_omap in Hin.
    destruct Hin as (s & Hs & Ht). apply elem_of_list_In in Hs. unfold tagged1 in Ht.
    destruct s as [i rms ups vals|b]; cbn [lsent l_correct] in Ht; [|cbn [option_map] in Ht; inversion Ht].
    destruct (observe codec_ok cf seq prev_bytes i) as [[ro|]| |] eqn:Eo; try discriminate. cbn [option_map] in Ht.
    destruct (Hok i rms ups vals Hs) as (Hwf & Hperm). destruct (Hperm ro Eo) as (Prm & Pup & Pval & Hsm).
    unfold observe in Eo.
    destruct (plugin_observation_wf _ _ _ _ _ _ _ _ _ _ _ Eo Hb Hwf) as (Hobs & Hnd & _ & _).
    unfold obs_of_bytes in Ht. rewrite (observation_roundtrip rms ups vals ro Hobs Prm Pup Pval Hsm) in Ht.
    rewrite has_dup_NoDup in Ht by (apply (Permutation.Permutation_NoDup (Permutation.Permutation_sym Prm)), Hnd).
    inversion Ht; subst ob. cbn [obs_of_raw ob_retire ro_retire] in Hr.
    exists i, rms, ups, vals. split; [exact Hs|]. exact (plugin_observation_retire _ _ _ _ _ _ _ _ _ _ _ Eo Hr).
  Qed.

  (* with at most f faulty senders, an instance retires only if some correct node's ShouldRetire cache said so; and a
     staging instance leaves staging only on an attestation the retirement-report cache verifies *)
  Theorem llo_stage_change_traces_back ss prev next :
    bok prev_bytes -> lsenders_ok ss -> 1 < seq ->
    outcome_step h cf seq prev (map fst (tagged ss)) = Ok next ->
    (length (List.filter (fun p : option observation * bool => negb (snd p)) (tagged ss)) <= c_f cf)%nat ->
    o_stage next <> o_stage prev ->
    (o_stage next = Retired /\ exists i, (exists rms ups vals, In (LCorrect i rms ups vals) ss) /\ oi_retire i = Ok true) \/
    (o_stage prev = Staging /\ o_stage next = Production /\ c_has_pred cf = true /\
     exists va ob, Some ob ∈ map fst (tagged ss) /\ ob_att ob = GoodAttest va).
  Proof.
    intros Hb Hok Hseq Hstep Hf Hne.
    destruct (stage_change_needs_votes_or_attestation h cf seq prev (map fst (tagged ss)) next Hseq Hstep Hne)
      as (rr & obs & Ha & [(Hp & Hs & Hpred & Hatt)|(Hp & Hs & Hv)]).
    - destruct Hs as [Hs|[Hs Hv]].
      + right. split; [exact Hp|]. split; [exact Hs|]. split; [exact Hpred|exact Hatt].
      + left. split; [exact Hs|]. unfold retire_votes in Hv.
        assert (Hex : exists ob, In (Some ob, true) (tagged ss) /\ ob_retire ob = true) by (eapply votes_need_correct; eassumption).
        destruct Hex as (ob & Hob & HP).
        destruct (tagged_correct_retire ss ob Hb Hok Hob HP) as (i & rms & ups & vals & Hin & Hr). exists i. split; [eauto|exact Hr].
    - left. split; [exact Hs|]. unfold retire_votes in Hv.
      assert (Hex : exists ob, In (Some ob, true) (tagged ss) /\ ob_retire ob = true) by (eapply votes_need_correct; eassumption).
      destruct Hex as (ob & Hob & HP).
      destruct (tagged_correct_retire ss ob Hb Hok Hob HP) as (i & rms & ups & vals & Hin & Hr). exists i. split; [eauto|exact Hr].
  Qed.
End Round06b.

(* ================= C14 end to end over several rounds: convergence to the target in the bounded number of rounds ================= *)
Section Convergence.
  Context (h : Z -> chandef -> list Z) (check : list Z -> option (gmap Z Z)) (codec_ok : chandef -> bool) (cf : cfg).

  (* one round as it happens: the previous outcome bytes every node holds (and what they decode to), the senders, the
     outcome committed *)
  Record wround := { wr_seq : Z; wr_prev_bytes : list Z; wr_prev : outcome; wr_ss : list lsender; wr_next : outcome }.
  Definition wr_tagged (r : wround) := tagged check codec_ok cf (wr_seq r) (wr_prev_bytes r) (wr_ss r).
  Definition wr_acc (r : wround) : list (observation * bool) := accept_tagged false (wr_tagged r).

  Definition wround_ok (target : gmap Z chandef) (r : wround) : Prop :=
    bok (wr_prev_bytes r) /\ lsenders_ok codec_ok cf (wr_seq r) (wr_prev_bytes r) (wr_ss r) /\ 1 < wr_seq r /\
    decode_outcome (c_pver cf) (wr_prev_bytes r) = Ok (wr_prev r) /\ o_stage (wr_prev r) = Production /\
    (forall i rms ups vals, In (LCorrect i rms ups vals) (wr_ss r) -> oi_expected i = target) /\
    (length (List.filter (fun p : option observation * bool => negb (snd p)) (wr_tagged r)) <= c_f cf)%nat /\
    (c_f cf < length (List.filter (fun p : observation * bool => snd p) (wr_acc r)))%nat /\
    outcome_step h cf (wr_seq r) (wr_prev r) (map fst (wr_tagged r)) = Ok (wr_next r) /\ o_stage (wr_next r) <> Retired.
  Fixpoint wlinked (rs : list wround) : Prop :=
    match rs with
    | r1 :: ((r2 :: _) as rest) => wr_next r1 = wr_prev r2 /\ wlinked rest
    | _ => True
    end.

  Lemma wround_round_ok target r : verify_defs codec_ok target = true -> wround_ok target r ->
    round_ok (c_f cf) (rm_votes (o_defs (wr_prev r)) target) (up_votes (o_defs (wr_prev r)) target) (wr_acc r) /\
    o_defs (wr_next r) = new_defs h (c_f cf) false (o_defs (wr_prev r)) (map fst (wr_acc r)).
  Proof.
    intros Hv (Hb & Hok & Hseq & Hd & Hst & Htgt & Hf & Hh & Hstep & Hnr). split.
    - split; [|split].
      + apply Forall_forall. intros [ob t] Hin Ht. cbn [fst snd] in *. subst t.
        apply (tagged_correct_honest_ob check codec_ok cf (wr_seq r) (wr_prev_bytes r) (wr_ss r) (wr_prev r) target ob Hb Hok Hd Hst Hv Htgt).
        exact (accept_tagged_sub false (wr_tagged r) (ob, true) Hin).
      + etransitivity; [apply accept_tagged_faulty|exact Hf].
      + exact Hh.
    - destruct (outcome_step_inv h cf (wr_seq r) (wr_prev r) _ (wr_next r) Hseq Hstep) as (rr & obs & ts & aggs & Ha & _ & _ & _ & Hc).
      destruct (codec_commit_fields _ _ _ Hc) as (Hstage & _ & Hdefs & _ & _).
      unfold accept_observations in Ha. apply accept_tagged_spec in Ha. simpl in Ha. subst obs.
      cbn [o_defs o_stage raw_outcome] in Hdefs, Hstage. rewrite Hdefs. unfold wr_acc.
      match goal with |- new_defs h _ ?b _ _ = _ => replace b with false; [reflexivity|] end.
      symmetry. apply bool_decide_eq_false_2. rewrite <- Hstage. exact Hnr.
  Qed.

  Lemma last_cons_default {A} (l : list A) : forall a d, last (a :: l) d = last l a.
  Proof. induction l as [|b l IH]; intros a d; [reflexivity|]. change (last (a :: b :: l) d) with (last (b :: l) d). rewrite !IH. reflexivity. Qed.

  Lemma wrounds_run target : verify_defs codec_ok target = true -> forall rs r0,
    Forall (wround_ok target) (r0 :: rs) -> wlinked (r0 :: rs) ->
    rounds_ok h (c_f cf) target (map wr_acc (r0 :: rs)) (o_defs (wr_prev r0)) /\
    o_defs (wr_next (last rs r0)) = run_rounds h (c_f cf) (map wr_acc (r0 :: rs)) (o_defs (wr_prev r0)).
  Proof.
    intros Hv. induction rs as [|r1 rs IH]; intros r0 Hall Hl.
    - inversion Hall as [|? ? H0 _]; subst. destruct (wround_round_ok target r0 Hv H0) as [Hr Hd].
      cbn [map rounds_ok run_rounds last]. split; [split; [exact Hr|exact I]|exact Hd].
    - inversion Hall as [|? ? H0 Hrest]; subst. destruct (wround_round_ok target r0 Hv H0) as [Hr Hd].
      destruct Hl as [Hlink Hl']. destruct (IH r1 Hrest Hl') as [Hok' Hrun'].
      change (map wr_acc (r0 :: r1 :: rs)) with (wr_acc r0 :: map wr_acc (r1 :: rs)).
      cbn [rounds_ok run_rounds]. rewrite <- Hd, Hlink. split; [split; [exact Hr|exact Hok']|].
      rewrite last_cons_default. exact Hrun'.
  Qed.

  (* from the first round on all correct nodes hold the same valid target; at most f faulty senders per round; then after
     at least rounds_bound = ceil(max(#to-remove, #to-add-or-replace) / 5) rounds the outcome's channel set IS the target *)
  Theorem llo_convergence target rs r0 :
    verify_defs codec_ok target = true -> Forall (wround_ok target) (r0 :: rs) -> wlinked (r0 :: rs) ->
    (size (dom (o_defs (wr_prev r0)) ∪ dom target) <= chan_cap)%nat ->
    (rounds_bound (o_defs (wr_prev r0)) target <= length (r0 :: rs))%nat ->
    o_defs (wr_next (last rs r0)) = target.
  Proof.
    intros Hv Hall Hl Hcap Hn. destruct (wrounds_run target Hv rs r0 Hall Hl) as [Hok Hrun]. rewrite Hrun.
    assert (Hlim : rm_limit = vote_limit /\ (0 < vote_limit)%nat) by (vm_compute; split; [reflexivity|lia]).
    destruct (rounds_bound_enough (o_defs (wr_prev r0)) target (length (map wr_acc (r0 :: rs))) (proj1 Hlim) (proj2 Hlim)) as [Hr Hu];
      [rewrite map_length; exact Hn|].
    exact (convergence h (c_f cf) target (map wr_acc (r0 :: rs)) (o_defs (wr_prev r0)) Hok Hcap Hr Hu).
  Qed.
End Convergence.
