(* JsonPackProofs.v — C17, third clause at byte level: reading back the text Pack wrote recovers the tuple
   (digest, sequence number, report, signatures), for any number of signatures of any length. *)
From DS Require Import Base Decimal StreamValue TextForms JsonReportBytes JsonPackBytes.
From DS Require Import BaseProofs TextProofs JsonBytesProofs Base64Proofs.
From Coq Require Import Lia.
Open Scope Z_scope.

Lemma b64c_char i : 0 <= i < 64 -> is_b64_char (b64c i) = true.
Proof. intros H. unfold is_b64_char. rewrite (b64i_b64c i H). reflexivity. Qed.
Lemma b64_encode_chars_fuel n : forall bs, (length bs <= n)%nat -> Forall (fun b => 0 <= b < 256) bs ->
  forallb is_b64_char (b64_encode bs) = true.
Proof.
  induction n as [n IH] using lt_wf_ind. intros bs Hn Hb.
  destruct bs as [|a [|b [|c r]]]; [reflexivity| | |].
  - inversion Hb as [|? ? Ha _]; subst. cbn [b64_encode forallb]. rewrite !b64c_char by (Z.div_mod_to_equations; lia). reflexivity.
  - inversion Hb as [|? ? Ha Hb']; subst. inversion Hb' as [|? ? Hbb _]; subst. cbn [b64_encode forallb].
    rewrite !b64c_char by (Z.div_mod_to_equations; lia). reflexivity.
  - inversion Hb as [|? ? Ha Hb']; subst. inversion Hb' as [|? ? Hbb Hb'']; subst. inversion Hb'' as [|? ? Hc Hr]; subst.
    cbn [b64_encode forallb]. rewrite !b64c_char by (Z.div_mod_to_equations; lia). cbn [andb].
    cbn [length] in Hn. apply (IH (length r)); [lia|lia|exact Hr].
Qed.
Lemma b64_encode_chars bs : Forall (fun b => 0 <= b < 256) bs -> forallb is_b64_char (b64_encode bs) = true.
Proof. intros H. apply (b64_encode_chars_fuel (length bs)); [lia|exact H]. Qed.

Definition sig_ok (e : bytes * Z) : Prop := Forall (fun b => 0 <= b < 256) (fst e) /\ 0 <= snd e.

Lemma parse_sig_head_sig e rest : sig_ok e -> parse_sig_head (sig_bytes e ++ rest) = Some (e, rest).
Proof.
  intros [Hb Hs]. unfold sig_bytes, parse_sig_head. rewrite <- !app_assoc. rewrite is_prefix_complete.
  rewrite (span_app is_b64_char (b64_encode (fst e)) _ (b64_encode_chars _ Hb)) by reflexivity.
  rewrite is_prefix_complete.
  destruct (span_num (snd e) ([125] ++ rest) Hs eq_refl) as (Hsp & Hn & Hv). rewrite Hsp.
  destruct (nat_string (snd e)) as [|c0 r0] eqn:En; [congruence|]. cbn [app].
  rewrite (b64_roundtrip _ Hb), Hv. destruct e; reflexivity.
Qed.
Lemma sig_bytes_head e tl : exists r, sig_bytes e ++ tl = 123 :: r.
Proof. unfold sig_bytes. rewrite <- !app_assoc. eexists. reflexivity. Qed.

Lemma parse_sigs_join sgs : sgs <> [] -> Forall sig_ok sgs -> forall fuel rest, (length sgs <= fuel)%nat ->
  match rest with 44 :: _ => False | _ => True end ->
  parse_sigs fuel (join_sigs sgs ++ rest) = Some (sgs, rest).
Proof.
  induction sgs as [|e sgs IH]; intros Hne Hok fuel rest Hf Hr; [congruence|].
  inversion Hok as [|? ? He Hok']; subst. destruct fuel as [|fuel]; [simpl in Hf; lia|].
  destruct sgs as [|e' sgs'].
  - cbn [join_sigs parse_sigs]. rewrite (parse_sig_head_sig e rest He).
    destruct rest as [|x rest']; [reflexivity|]. destruct (x =? 44) eqn:E; [exfalso; assert (x = 44) by lia; subst; exact Hr|].
    destruct x as [|p|p]; try reflexivity. do 6 (destruct p as [p|p|]; try reflexivity). lia.
  - change (join_sigs (e :: e' :: sgs')) with (sig_bytes e ++ 44 :: join_sigs (e' :: sgs')).
    rewrite <- app_assoc. cbn [parse_sigs]. rewrite (parse_sig_head_sig e _ He). cbn [app].
    rewrite IH; [reflexivity|discriminate|exact Hok'|simpl in Hf |- *; lia|exact Hr].
Qed.
Lemma length_join_sigs sgs : (length sgs <= S (length (join_sigs sgs)))%nat.
Proof.
  induction sgs as [|e sgs IH]; [simpl; lia|]. destruct sgs as [|e' sgs']; [simpl; lia|].
  change (join_sigs (e :: e' :: sgs')) with (sig_bytes e ++ 44 :: join_sigs (e' :: sgs')).
  rewrite app_length. cbn [length] in *. lia.
Qed.

Definition ptuple_ok (t : ptuple) (j : jreport) : Prop :=
  length (pt_digest t) = 32%nat /\ Forall (fun b => 0 <= b < 256) (pt_digest t) /\ 0 <= pt_seq t /\
  pt_report t = json_report_bytes j /\ jreport_ok j /\ Forall sig_ok (pt_sigs t).

Theorem json_unpack_pack t j sn : ptuple_ok t j ->
  json_unpack_bytes (json_pack_bytes t sn) = Some (t, match pt_sigs t with [] => sn | _ => false end).
Proof.
  intros (Hlen & Hdg & Hsq & Hrep & Hj & Hsg). unfold json_unpack_bytes, json_pack_bytes.
  rewrite <- ?app_assoc. rewrite is_prefix_complete.
  rewrite (span_app is_hex_char (hex_encode (pt_digest t)) _ (hex_encode_chars _ Hdg)) by reflexivity.
  rewrite is_prefix_complete.
  match goal with |- context [span is_digit (nat_string (pt_seq t) ++ ?r)] => destruct (span_num (pt_seq t) r Hsq eq_refl) as (Hs1 & Hn1 & Hv1) end.
  rewrite Hs1. destruct (nat_string (pt_seq t)) as [|c1 q1] eqn:E1; [congruence|]. rewrite is_prefix_complete.
  rewrite Hrep. rewrite (json_report_parse_rest_bytes j _ Hj). rewrite is_prefix_complete.
  rewrite (hex_roundtrip _ Hdg), Hlen. cbn [Nat.eqb negb]. rewrite Hv1.
  assert (Hmk : forall sg, {| pt_digest := pt_digest t; pt_seq := pt_seq t; pt_report := json_report_bytes j; pt_sigs := sg |} =
                           {| pt_digest := pt_digest t; pt_seq := pt_seq t; pt_report := pt_report t; pt_sigs := sg |}) by (intros; rewrite Hrep; reflexivity).
  destruct (pt_sigs t) as [|e sgs] eqn:Es.
  - destruct sn.
    + rewrite bytes_eqb_refl. rewrite Hmk. destruct t; cbn in *; subst; reflexivity.
    + replace (bytes_eqb ([91; 93] ++ [125]) (s_null ++ [125])) with false by reflexivity.
      replace (bytes_eqb ([91; 93] ++ [125]) [91; 93; 125]) with true by reflexivity.
      rewrite Hmk. destruct t; cbn in *; subst; reflexivity.
  - destruct (sig_bytes_head e (match sgs with [] => [] | _ => 44 :: join_sigs sgs end ++ [93] ++ [125])) as (r0 & Hr0).
    assert (Hjs : exists r, join_sigs (e :: sgs) ++ [93] ++ [125] = 123 :: r).
    { destruct sgs as [|e' sgs']; [cbn [join_sigs]; apply sig_bytes_head|].
      change (join_sigs (e :: e' :: sgs')) with (sig_bytes e ++ 44 :: join_sigs (e' :: sgs')). rewrite <- app_assoc. apply sig_bytes_head. }
    destruct Hjs as (r & Hr). cbn [app]. rewrite <- app_assoc.
    replace (bytes_eqb (91 :: join_sigs (e :: sgs) ++ [93] ++ [125]) (s_null ++ [125])) with false by reflexivity.
    replace (bytes_eqb (91 :: join_sigs (e :: sgs) ++ [93] ++ [125]) [91; 93; 125]) with false by (rewrite Hr; reflexivity).
    rewrite (parse_sigs_join (e :: sgs)); [|discriminate|exact Hsg| |exact I].
    2:{ rewrite app_length. pose proof (length_join_sigs (e :: sgs)). cbn [length] in *. lia. }
    cbn [app]. rewrite Hmk. destruct t; cbn in *; subst; reflexivity.
Qed.

(* UnpackDecode of what Pack wrote: the tuple with the report decoded *)
Theorem json_unpack_decode_pack t j sn fr : ptuple_ok t j -> json_decode j = Some (Ok fr) ->
  json_unpack_decode_bytes (json_pack_bytes t sn) = Some (Ok (pt_digest t, pt_seq t, fr, pt_sigs t)).
Proof.
  intros Hok Hd. unfold json_unpack_decode_bytes. rewrite (json_unpack_pack t j sn Hok).
  destruct Hok as (_ & _ & _ & Hrep & Hj & _). rewrite Hrep, (json_report_parse_bytes j Hj), Hd. reflexivity.
Qed.
