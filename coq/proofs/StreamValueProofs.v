(* StreamValueProofs.v — C16: every stream value round-trips through its binary form (incl. negative zero). *)
From DS Require Import Base BaseProofs Decimal Wire StreamValue WireProofs.
From Coq Require Import ZifyBool ZifyNat ZifyN.
Ltac Zify.zify_post_hook ::= Z.div_mod_to_equations.

(* ---------- math/big gob ---------- *)
Lemma be_value_cons0 l : be_value (0 :: l) = be_value l.
Proof. unfold be_value. simpl. reflexivity. Qed.
Lemma be_value_strip_zeros l : be_value (strip_zeros l) = be_value l.
Proof. induction l as [|x l IH]; [reflexivity|]. simpl. destruct x; try reflexivity. rewrite IH. symmetry. apply be_value_cons0. Qed.

Lemma byte_len_bound v : 0 <= v -> v < 256 ^ Z.of_nat (byte_len_fuel v).
Proof.
  intros Hv. unfold byte_len_fuel. destruct (Z.eq_dec v 0) as [->|Hne]; [simpl; lia|].
  assert (Hl : 0 <= Z.log2 v) by apply Z.log2_nonneg.
  pose proof (Z.log2_spec v ltac:(lia)) as [_ Hu].
  eapply Z.lt_le_trans; [exact Hu|]. rewrite pow256. apply Z.pow_le_mono_r; [lia|].
  set (q := (Z.to_nat (Z.log2 v) / 8)%nat).
  assert (Hq : (Z.to_nat (Z.log2 v) < 8 * (q + 1))%nat).
  { unfold q. pose proof (Nat.div_mod (Z.to_nat (Z.log2 v)) 8 ltac:(lia)).
    pose proof (Nat.mod_upper_bound (Z.to_nat (Z.log2 v)) 8 ltac:(lia)). lia. }
  lia.
Qed.

Lemma be_value_min_be_bytes v : 0 <= v -> be_value (min_be_bytes v) = v.
Proof.
  intros Hv. unfold min_be_bytes. rewrite be_value_strip_zeros. apply be_value_be_bytes.
  split; [lia|apply byte_len_bound; lia].
Qed.

Theorem gob_roundtrip b : gob_decode (gob_encode b) = Ok b.
Proof.
  destruct b as [n m]. unfold gob_encode, gob_decode. simpl.
  destruct n; simpl; rewrite be_value_min_be_bytes by lia; rewrite N2Z.id; reflexivity.
Qed.

Lemma gob_encode_nonempty b : gob_encode b <> [].
Proof. unfold gob_encode. discriminate. Qed.

(* ---------- decimal ---------- *)
Definition exp_ok (d : dec) : Prop := - 2 ^ 31 <= dexp d < 2 ^ 31.

Lemma be_bytes_4 x : be_bytes 4 x = [x / 256 / 256 / 256 mod 256; x / 256 / 256 mod 256; x / 256 mod 256; x mod 256].
Proof. reflexivity. Qed.

Theorem dec_roundtrip d : exp_ok d -> dec_unmarshal (dec_marshal d) = Ok d.
Proof.
  intros He. unfold dec_marshal. rewrite be_bytes_4. cbn [app dec_unmarshal].
  rewrite gob_roundtrip. cbn [bind].
  rewrite <- be_bytes_4.
  rewrite be_value_be_bytes.
  - unfold int32_of_u32. unfold exp_ok in He. destruct d as [c e]. cbn [dexp dcoef] in *.
    destruct (Z.lt_ge_cases e 0).
    + assert (e mod 2 ^ 32 = e + 2 ^ 32) by (symmetry; apply (Z.mod_unique _ _ (-1)); lia).
      rewrite H0. destruct (e + 2 ^ 32 <? 2 ^ 31) eqn:E; [lia|]. f_equal. f_equal. lia.
    + rewrite Z.mod_small by lia. destruct (e <? 2 ^ 31) eqn:E; [reflexivity|lia].
  - change (256 ^ Z.of_nat 4) with (2 ^ 32). apply Z.mod_pos_bound. lia.
Qed.

Lemma dec_marshal_length d : (5 <= length (dec_marshal d))%nat.
Proof. unfold dec_marshal, gob_encode. rewrite app_length, length_be_bytes. simpl. lia. Qed.
Lemma dec_marshal_nonempty d : dec_marshal d <> [].
Proof. pose proof (dec_marshal_length d). destruct (dec_marshal d); [simpl in *; lia|discriminate]. Qed.

(* ---------- stream values ---------- *)
Fixpoint sval_ok (v : sval) : Prop :=
  match v with
  | SDec d => exp_ok d
  | SQuote a b c => exp_ok a /\ exp_ok b /\ exp_ok c
  | STsv t i => 0 <= t < 2 ^ 64 /\ sval_ok i
  end.

(* byte strings the model handles are far below 2^64 bytes; stated as a hypothesis on the concrete value *)
Fixpoint sval_small (v : sval) : Prop :=
  match v with
  | SDec d => Z.of_nat (length (dec_marshal d)) < 2 ^ 64
  | SQuote a b c => Z.of_nat (length (dec_marshal a)) < 2 ^ 64 /\ Z.of_nat (length (dec_marshal b)) < 2 ^ 64 /\
                    Z.of_nat (length (dec_marshal c)) < 2 ^ 64
  | STsv _ i => Z.of_nat (length (sval_marshal i)) < 2 ^ 64 /\
                Z.of_nat (length (f_varint 1 (sv_type i) ++ f_bytes 2 (sval_marshal i))) < 2 ^ 64 /\ sval_small i
  end.

Lemma sv_type_range v : 0 <= sv_type v <= 2. Proof. destruct v; simpl; lia. Qed.

Lemma sval_marshal_nonempty v : sval_marshal v <> [].
Proof.
  destruct v; simpl.
  - apply dec_marshal_nonempty.
  - unfold f_bytes. pose proof (dec_marshal_nonempty bid). destruct (dec_marshal bid); [congruence|].
    unfold tag. pose proof (varint_nonempty (1 * 8 + 2)). destruct (varint (1 * 8 + 2)); [congruence|discriminate].
  - intros H. apply app_eq_nil in H. destruct H as [_ H]. unfold f_msg, tag in H.
    pose proof (varint_nonempty (2 * 8 + 2)). destruct (varint (2 * 8 + 2)); [congruence|discriminate].
Qed.

Lemma field_ok_small k : 1 <= k <= 16 -> field_ok k. Proof. unfold field_ok. lia. Qed.

(* the LLOStreamValue envelope {type; value} *)
Lemma parse_lsv_enc v :
  Z.of_nat (length (sval_marshal v)) < 2 ^ 64 ->
  parse_lsv (f_varint 1 (sv_type v) ++ f_bytes 2 (sval_marshal v)) = Some (sv_type v, sval_marshal v).
Proof.
  intros Hs. unfold parse_lsv.
  pose proof (sv_type_range v) as Ht.
  assert (Hb : parse_fields (f_bytes 2 (sval_marshal v)) = Some [(2, RBytes (sval_marshal v))]).
  { rewrite <- (app_nil_r (f_bytes 2 _)). rewrite parse_fields_bytes_field;
      [reflexivity|apply field_ok_small; lia|apply sval_marshal_nonempty|exact Hs]. }
  destruct (Z.eq_dec (sv_type v) 0) as [E0|E0].
  - rewrite E0. unfold f_varint at 1. simpl app. rewrite Hb. reflexivity.
  - rewrite parse_fields_varint_field by (try apply field_ok_small; lia). rewrite Hb.
    cbn [option_map]. unfold last_varint, last_bytes. cbn [fold_left]. simpl (1 =? 1). simpl (2 =? 1). simpl (2 =? 2). simpl (1 =? 2).
    cbv iota. rewrite Z.mod_small by lia. reflexivity.
Qed.

Lemma quote_fields a b c :
  Z.of_nat (length (dec_marshal a)) < 2 ^ 64 -> Z.of_nat (length (dec_marshal b)) < 2 ^ 64 ->
  Z.of_nat (length (dec_marshal c)) < 2 ^ 64 ->
  parse_fields (f_bytes 1 (dec_marshal a) ++ f_bytes 2 (dec_marshal b) ++ f_bytes 3 (dec_marshal c)) =
  Some [(1, RBytes (dec_marshal a)); (2, RBytes (dec_marshal b)); (3, RBytes (dec_marshal c))].
Proof.
  intros Ha Hb Hc.
  rewrite parse_fields_bytes_field by (try apply field_ok_small; try apply dec_marshal_nonempty; lia).
  rewrite parse_fields_bytes_field by (try apply field_ok_small; try apply dec_marshal_nonempty; lia).
  rewrite <- (app_nil_r (f_bytes 3 _)).
  rewrite parse_fields_bytes_field by (try apply field_ok_small; try apply dec_marshal_nonempty; lia).
  reflexivity.
Qed.

Lemma last_bytes_q x y z :
  last_bytes 1 [(1, RBytes x); (2, RBytes y); (3, RBytes z)] = x /\
  last_bytes 2 [(1, RBytes x); (2, RBytes y); (3, RBytes z)] = y /\
  last_bytes 3 [(1, RBytes x); (2, RBytes y); (3, RBytes z)] = z.
Proof. repeat split; reflexivity. Qed.

Lemma tsv_fields t body :
  0 <= t < 2 ^ 64 -> Z.of_nat (length body) < 2 ^ 64 ->
  exists fs, parse_fields (f_varint 1 t ++ f_msg 2 body) = Some fs /\ last_varint 1 fs = t /\ merged_msg 2 fs = Some body.
Proof.
  intros Ht Hb.
  assert (Hm : parse_fields (f_msg 2 body) = Some [(2, RBytes body)]).
  { rewrite <- (app_nil_r (f_msg 2 body)). rewrite parse_fields_msg_field; [reflexivity|apply field_ok_small; lia|exact Hb]. }
  destruct (Z.eq_dec t 0) as [->|Hne].
  - exists [(2, RBytes body)]. unfold f_varint. simpl app. split; [exact Hm|]. split; reflexivity.
  - exists [(1, RVarint t); (2, RBytes body)].
    rewrite parse_fields_varint_field by (try apply field_ok_small; lia). rewrite Hm. simpl.
    split; [reflexivity|]. split; reflexivity.
Qed.


(* C16: binary round-trip of every stream value with at most two nesting levels of timestamped values (deeper
   nesting is rejected while decoding since the D7 repair; validation rejects any nesting) *)
Theorem sval_roundtrip_fuel v : forall fuel,
  sval_ok v -> sval_small v -> (sval_depth v <= 2)%nat -> (sval_depth v < fuel)%nat ->
  sval_unmarshal_fuel fuel (Some (sv_type v, sval_marshal v)) = Ok v.
Proof.
  induction v as [d|a b c|t i IH]; intros fuel Hok Hsm Hd Hf; (destruct fuel as [|fuel]; [simpl in Hf; lia|]).
  - cbn [sval_unmarshal_fuel sv_type sval_marshal]. simpl (0 =? 0). cbv iota.
    rewrite dec_roundtrip by exact Hok. reflexivity.
  - destruct Hok as (Ha & Hb & Hc). destruct Hsm as (Sa & Sb & Sc).
    cbn [sval_unmarshal_fuel sv_type sval_marshal]. simpl (1 =? 0). simpl (1 =? 1). cbv iota.
    rewrite quote_fields by assumption. cbv iota beta.
    destruct (last_bytes_q (dec_marshal a) (dec_marshal b) (dec_marshal c)) as (E1 & E2 & E3).
    rewrite E1, E2, E3. rewrite !dec_roundtrip by assumption. reflexivity.
  - destruct Hok as (Ht & Hi). destruct Hsm as (S1 & S2 & S3). simpl in Hd, Hf.
    cbn [sval_unmarshal_fuel sv_type sval_marshal]. simpl (2 =? 0). simpl (2 =? 1). simpl (2 =? 2). cbv iota.
    destruct (tsv_fields t (f_varint 1 (sv_type i) ++ f_bytes 2 (sval_marshal i)) Ht S2) as (fs & Hfs & Hlv & Hmm).
    rewrite Hfs, Hmm. rewrite (parse_lsv_enc i S1).
    (* the depth guard *)
    assert (Hguard : (if sv_type i =? 2
                      then match parse_fields (sval_marshal i) with
                           | Some fs1 => match merged_msg 2 fs1 with
                                         | Some body2 => match parse_lsv body2 with
                                                         | Some (t2, _) => if t2 =? 2 then Some EInvalid else None
                                                         | None => Some EMalformed end
                                         | None => None end
                           | None => Some EMalformed end
                      else None) = None).
    { destruct i as [d'|a' b' c'|t' i']; try reflexivity.
      simpl sv_type. simpl (2 =? 2). cbv iota.
      destruct Hi as (Ht' & Hi'). destruct S3 as (S1' & S2' & S3'). simpl sval_marshal.
      destruct (tsv_fields t' (f_varint 1 (sv_type i') ++ f_bytes 2 (sval_marshal i')) Ht' S2') as (fs' & Hfs' & _ & Hmm').
      rewrite Hfs', Hmm', (parse_lsv_enc i' S1').
      destruct i'; simpl; try reflexivity. simpl in Hd. lia. }
    rewrite Hguard. rewrite IH; [rewrite Hlv; reflexivity|exact Hi|exact S3|lia|lia].
Qed.

Lemma nonempty_length {A} (l : list A) : l <> [] -> (1 <= length l)%nat.
Proof. destruct l; [congruence|simpl; lia]. Qed.

Lemma sval_marshal_len2 v : (2 <= length (sval_marshal v))%nat.
Proof.
  destruct v as [d|a b c|t i]; cbn [sval_marshal].
  - pose proof (dec_marshal_length d). lia.
  - rewrite app_length. unfold f_bytes at 1. pose proof (dec_marshal_length a).
    destruct (dec_marshal a) as [|x l]; [simpl in *; lia|]. rewrite !app_length.
    pose proof (nonempty_length _ (varint_nonempty (Z.of_nat (length (x :: l))))). simpl length in *. lia.
  - rewrite app_length. unfold f_msg. rewrite !app_length. unfold tag.
    pose proof (nonempty_length _ (varint_nonempty (2 * 8 + 2))).
    match goal with |- context [length (varint (Z.of_nat ?n))] => pose proof (nonempty_length _ (varint_nonempty (Z.of_nat n))) end. lia.
Qed.

Theorem sval_roundtrip v :
  sval_ok v -> sval_small v -> (sval_depth v <= 2)%nat ->
  sval_unmarshal (sv_type v) (sval_marshal v) = Ok v.
Proof.
  intros Hok Hsm Hd. unfold sval_unmarshal. apply sval_roundtrip_fuel; try assumption.
  pose proof (sval_marshal_len2 v). lia.
Qed.
