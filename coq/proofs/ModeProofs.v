(* ModeProofs.v — C15: the mode aggregate was serialised identically by at least f+1 observers,
   and the choice among equally frequent candidates depends only on the multiset of values. *)
From DS Require Import Base Decimal StreamValue Sort Aggregators.
From DS Require Import RankMedian SortProofs MctProofs BaseProofs.
From Coq Require Import ZifyBool Permutation Sorted.

(* ---- lexicographic order on byte strings ---- *)
Lemma bytes_ltb_irrefl a : bytes_ltb a a = false.
Proof. induction a as [|x a IH]; simpl; [reflexivity|]. rewrite Z.ltb_irrefl. exact IH. Qed.

Lemma bytes_ltb_cons x a y b : bytes_ltb (x :: a) (y :: b) = (x <? y) || ((x =? y) && bytes_ltb a b).
Proof. simpl. destruct (x <? y) eqn:E1, (y <? x) eqn:E2, (x =? y) eqn:E3; try reflexivity; lia. Qed.

Lemma bytes_ltb_trans a : forall b c, bytes_ltb a b = true -> bytes_ltb b c = true -> bytes_ltb a c = true.
Proof.
  induction a as [|x a IH]; intros [|y b] [|z c] H1 H2; try discriminate; try reflexivity.
  rewrite bytes_ltb_cons in *.
  apply orb_true_iff in H1, H2. apply orb_true_iff.
  destruct H1 as [H1|H1], H2 as [H2|H2]; try (left; lia).
  apply andb_true_iff in H1, H2. destruct H1, H2. right. apply andb_true_iff. split; [lia|eapply IH; eassumption].
Qed.

Lemma bytes_ltb_total a : forall b, bytes_ltb a b = false -> bytes_ltb b a = true \/ a = b.
Proof.
  induction a as [|x a IH]; intros [|y b] H; simpl in *; try discriminate; auto.
  destruct (x <? y) eqn:E1; [discriminate|]. destruct (y <? x) eqn:E2; [left; reflexivity|].
  assert (x = y) by lia. subst. destruct (IH b H) as [H'|H']; [left; exact H'|right; congruence].
Qed.

Definition ble (a b : bytes) : Prop := bytes_ltb a b = true \/ a = b.
Lemma ble_trans a b c : ble a b -> ble b c -> ble a c.
Proof.
  intros [H1 | ->] [H2 | ->]; unfold ble; auto. left. eapply bytes_ltb_trans; eassumption.
Qed.
Lemma ble_refl a : ble a a. Proof. right. reflexivity. Qed.
Lemma bltb_ble a b : bytes_ltb a b = true -> ble a b. Proof. left. assumption. Qed.
Lemma nbltb_ble a b : bytes_ltb a b = false -> ble b a.
Proof. intros H. destruct (bytes_ltb_total a b H) as [H'|H']; [left; exact H'|right; congruence]. Qed.
Lemma ble_antisym a b : ble a b -> ble b a -> a = b.
Proof.
  intros [H1|H1] [H2|H2]; auto. pose proof (bytes_ltb_trans a b a H1 H2) as H. rewrite bytes_ltb_irrefl in H. discriminate.
Qed.

(* two ascending duplicate-free lists with the same elements are equal *)
Lemma asc_nodup_unique (l1 : list bytes) : forall l2,
  StronglySorted ble l1 -> StronglySorted ble l2 -> NoDup l1 -> NoDup l2 ->
  (forall x, In x l1 <-> In x l2) -> l1 = l2.
Proof.
  induction l1 as [|a l1 IH]; intros l2 S1 S2 N1 N2 Hin.
  - destruct l2 as [|b l2]; [reflexivity|]. exfalso. apply (proj2 (Hin b)). left. reflexivity.
  - destruct l2 as [|b l2]; [exfalso; apply (proj1 (Hin a)); left; reflexivity|].
    inversion S1 as [|? ? S1' A1]; subst. inversion S2 as [|? ? S2' A2]; subst.
    inversion N1 as [|? ? Na N1']; subst. inversion N2 as [|? ? Nb N2']; subst.
    rewrite Forall_forall in A1, A2.
    assert (a = b).
    { apply ble_antisym.
      - destruct (proj1 (Hin a) (or_introl eq_refl)) as [-> | Hi]; [apply ble_refl|].
        destruct (proj2 (Hin b) (or_introl eq_refl)) as [-> | Hj]; [apply ble_refl|].
        (* a in l2 so b <= a; b in l1 so a <= b *) apply A1. exact Hj.
      - destruct (proj2 (Hin b) (or_introl eq_refl)) as [-> | Hj]; [apply ble_refl|].
        destruct (proj1 (Hin a) (or_introl eq_refl)) as [-> | Hi]; [apply ble_refl|].
        apply A2. exact Hi. }
    subst b. f_equal. apply IH; try assumption.
    intros x. split; intros Hx.
    + destruct (proj1 (Hin x) (or_intror Hx)) as [-> | ]; [contradiction|assumption].
    + destruct (proj2 (Hin x) (or_intror Hx)) as [-> | ]; [contradiction|assumption].
Qed.

Lemma existsb_bytes_in x l : existsb (bytes_eqb x) l = true <-> In x l.
Proof.
  rewrite existsb_exists. split.
  - intros (y & Hy & He). apply bytes_eqb_eq in He. subst. exact Hy.
  - intros H. exists x. split; [exact H|apply bytes_eqb_refl].
Qed.

Lemma dedup_in x l : In x (dedup l) <-> In x l.
Proof.
  induction l as [|y l IH]; simpl; [tauto|].
  destruct (existsb (bytes_eqb y) l) eqn:E.
  - rewrite IH. apply existsb_bytes_in in E. split; [auto|]. intros [-> | H]; auto.
  - simpl. rewrite IH. tauto.
Qed.

Lemma dedup_nodup l : NoDup (dedup l).
Proof.
  induction l as [|y l IH]; simpl; [constructor|].
  destruct (existsb (bytes_eqb y) l) eqn:E; [exact IH|].
  constructor; [|exact IH]. rewrite dedup_in. intros H. apply existsb_bytes_in in H. congruence.
Qed.

Definition sorted_keys (sers : list bytes) : list bytes := isort bytes_ltb (dedup sers).

Lemma sorted_keys_perm s1 s2 : Permutation s1 s2 -> sorted_keys s1 = sorted_keys s2.
Proof.
  intros HP. unfold sorted_keys. apply asc_nodup_unique.
  - apply (isort_asc ble bytes_ltb ble_trans bltb_ble nbltb_ble).
  - apply (isort_asc ble bytes_ltb ble_trans bltb_ble nbltb_ble).
  - apply (Permutation_NoDup (Permutation_sym (isort_perm bytes_ltb _))). apply dedup_nodup.
  - apply (Permutation_NoDup (Permutation_sym (isort_perm bytes_ltb _))). apply dedup_nodup.
  - intros x. split; intros H.
    + apply (Permutation_in _ (isort_perm bytes_ltb _)) in H. rewrite dedup_in in H.
      apply (Permutation_in _ (Permutation_sym (isort_perm bytes_ltb _))). rewrite dedup_in.
      apply (Permutation_in _ HP). exact H.
    + apply (Permutation_in _ (isort_perm bytes_ltb _)) in H. rewrite dedup_in in H.
      apply (Permutation_in _ (Permutation_sym (isort_perm bytes_ltb _))). rewrite dedup_in.
      apply (Permutation_in _ (Permutation_sym HP)). exact H.
Qed.

Lemma count_key_perm k s1 s2 : Permutation s1 s2 -> count_key k s1 = count_key k s2.
Proof.
  intros H. unfold count_key. induction H; simpl; try lia.
  - destruct (bytes_eqb k x); simpl; lia.
  - destruct (bytes_eqb k x), (bytes_eqb k y); simpl; lia.
Qed.

Definition mode_step (sers : list bytes) (acc : bytes * nat) (k : bytes) : bytes * nat :=
  let c := count_key k sers in if (snd acc <? c)%nat then (k, c) else acc.
Definition mode_pick (sers : list bytes) : bytes * nat :=
  fold_left (mode_step sers) (sorted_keys sers) ([], O).

Lemma fold_left_ext_all {X Y} (f g : X -> Y -> X) l : (forall a b, f a b = g a b) -> forall a, fold_left f l a = fold_left g l a.
Proof. intros H. induction l as [|y l IH]; intros a; simpl; [reflexivity|]. rewrite H. apply IH. Qed.

Lemma mode_pick_perm s1 s2 : Permutation s1 s2 -> mode_pick s1 = mode_pick s2.
Proof.
  intros H. unfold mode_pick. rewrite (sorted_keys_perm s1 s2 H).
  apply fold_left_ext_all. intros acc k. unfold mode_step. rewrite (count_key_perm k s1 s2 H). reflexivity.
Qed.

(* the picked key really occurs count times, and nothing occurs more often *)
Lemma mode_pick_spec sers :
  let '(k, c) := mode_pick sers in
  (c = O \/ (In k sers /\ c = count_key k sers)) /\ (forall k', (count_key k' sers <= c)%nat).
Proof.
  unfold mode_pick.
  assert (G : forall keys acc,
             (snd acc = O \/ (In (fst acc) sers /\ snd acc = count_key (fst acc) sers)) ->
             (forall k, In k keys -> In k sers) ->
             let r := fold_left (mode_step sers) keys acc in
             (snd r = O \/ (In (fst r) sers /\ snd r = count_key (fst r) sers)) /\
             (snd acc <= snd r)%nat /\ (forall k, In k keys -> (count_key k sers <= snd r)%nat)).
  { induction keys as [|k keys IH]; intros acc Hacc Hk; cbn [fold_left].
    - split; [exact Hacc|]. split; [lia|]. intros k [].
    - set (acc' := mode_step sers acc k).
      assert (Hacc' : snd acc' = O \/ (In (fst acc') sers /\ snd acc' = count_key (fst acc') sers)).
      { unfold acc', mode_step. destruct (snd acc <? count_key k sers)%nat; [|exact Hacc]. right. simpl.
        split; [apply Hk; left; reflexivity|reflexivity]. }
      destruct (IH acc' Hacc' (fun x Hx => Hk x (or_intror Hx))) as (R1 & R2 & R3).
      split; [exact R1|].
      assert (Hge : (snd acc <= snd acc')%nat /\ (count_key k sers <= snd acc')%nat).
      { unfold acc', mode_step. destruct (snd acc <? count_key k sers)%nat eqn:E; simpl; lia. }
      split; [lia|]. intros k' [<- | Hk']; [lia|apply R3; exact Hk']. }
  specialize (G (sorted_keys sers) ([], O) (or_introl eq_refl)).
  assert (Hkeys : forall k, In k (sorted_keys sers) -> In k sers).
  { intros k Hk. unfold sorted_keys in Hk. apply (Permutation_in _ (isort_perm bytes_ltb _)) in Hk.
    rewrite dedup_in in Hk. exact Hk. }
  specialize (G Hkeys). cbv zeta in G.
  destruct (fold_left (mode_step sers) (sorted_keys sers) ([], O)) as [k c] eqn:E. simpl in G.
  destruct G as (G1 & _ & G3). split; [exact G1|].
  intros k'. destruct (count_key k' sers) eqn:Ec; [lia|]. rewrite <- Ec. apply G3.
  unfold sorted_keys. apply (Permutation_in _ (Permutation_sym (isort_perm bytes_ltb _))). rewrite dedup_in.
  unfold count_key in Ec. destruct (filter (bytes_eqb k') sers) as [|y ?] eqn:Ef; [discriminate|].
  assert (In y (filter (bytes_eqb k') sers)) by (rewrite Ef; left; reflexivity).
  apply filter_In in H. destruct H as [H1 H2]. apply bytes_eqb_eq in H2. subst. exact H1.
Qed.

Lemma mode_agg_unfold vs f :
  mode_agg vs f =
  let '(typ, bucket) := most_common_type vs in
  let '(k, c) := mode_pick (map sval_marshal bucket) in
  if (c <? f + 1)%nat then Err ETooFew
  else match k with [] => Ok None | _ => v <- sval_unmarshal typ k ;; Ok (Some v) end.
Proof. reflexivity. Qed.

(* C15: order independence *)
Theorem mode_permutation_invariant vs vs' f : Permutation vs vs' -> mode_agg vs f = mode_agg vs' f.
Proof.
  intros HP. rewrite !mode_agg_unfold.
  destruct (most_common_type_perm vs vs' HP) as [Ht Hb].
  destruct (most_common_type vs) as [t b]. destruct (most_common_type vs') as [t' b']. simpl in Ht, Hb. subst t'.
  rewrite (mode_pick_perm (map sval_marshal b) (map sval_marshal b')); [reflexivity|].
  apply Permutation_map. exact Hb.
Qed.

(* C15: a value is returned only if >= f+1 values of the most common type serialise identically to it *)
Theorem mode_some_implies_f_plus_1 vs f v :
  mode_agg vs f = Ok (Some v) ->
  exists typ bucket ser x,
    most_common_type vs = (typ, bucket) /\ In x bucket /\ sval_marshal x = ser /\
    (f + 1 <= count_key ser (map sval_marshal bucket))%nat /\
    sval_unmarshal typ ser = Ok v.
Proof.
  rewrite mode_agg_unfold. destruct (most_common_type vs) as [typ bucket].
  pose proof (mode_pick_spec (map sval_marshal bucket)) as Hs.
  destruct (mode_pick (map sval_marshal bucket)) as [k c]. destruct Hs as [Hs1 _].
  destruct (c <? f + 1)%nat eqn:E; [discriminate|]. apply Nat.ltb_ge in E.
  intros H. destruct k as [|b0 k]; [discriminate|].
  destruct (sval_unmarshal typ (b0 :: k)) as [v'|e|s] eqn:Eu; simpl in H; try discriminate.
  inversion H; subst v'.
  destruct Hs1 as [-> | [Hin Hc]]; [lia|].
  apply in_map_iff in Hin. destruct Hin as (x & Hx & Hxin).
  exists typ, bucket, (b0 :: k), x. repeat split; try assumption. lia.
Qed.

(* C15: otherwise an error (no fresh aggregate) *)
Theorem mode_err_otherwise vs f :
  (forall ser, (count_key ser (map sval_marshal (snd (most_common_type vs))) <= f)%nat) ->
  mode_agg vs f = Err ETooFew.
Proof.
  intros H. rewrite mode_agg_unfold. destruct (most_common_type vs) as [typ bucket]. simpl in H.
  pose proof (mode_pick_spec (map sval_marshal bucket)) as Hs.
  destruct (mode_pick (map sval_marshal bucket)) as [k c]. destruct Hs as [Hs1 _].
  destruct (c <? f + 1)%nat eqn:E; [reflexivity|]. apply Nat.ltb_ge in E. exfalso.
  destruct Hs1 as [-> | [_ Hc]]; [lia|]. specialize (H k). lia.
Qed.

(* C15: with at most f faulty present values, some correct observer reported exactly these bytes *)
Theorem mode_honest_witness (tvs : list (option sval * bool)) f v :
  (length (filter (fun p => match fst p with Some _ => negb (snd p) | None => false end) tvs) <= f)%nat ->
  mode_agg (map fst tvs) f = Ok (Some v) ->
  exists x ser, In (Some x, true) tvs /\ sval_marshal x = ser /\
                sval_unmarshal (sv_type x) ser = Ok v.
Proof.
  intros Hf H. destruct (mode_some_implies_f_plus_1 _ _ _ H) as (typ & bucket & ser & x0 & Hm & Hx0 & Hser & Hcnt & Hun).
  pose proof (most_common_type_spec (map fst tvs)) as Hspec. rewrite Hm in Hspec.
  destruct Hspec as (Htyp & Hbk & _ & _).
  (* among the >= f+1 bucket entries serialising to ser, one is honest *)
  set (sel := fun p : option sval * bool =>
                match fst p with Some x => (sv_type x =? typ) && bytes_eqb ser (sval_marshal x) | None => false end).
  assert (Hc : count_key ser (map sval_marshal bucket) = length (filter sel tvs)).
  { subst bucket. unfold count_key, of_type, sel. clear. induction tvs as [|[[x|] h] tvs IH]; simpl; try exact IH; [reflexivity|].
    destruct (sv_type x =? typ); simpl; [|exact IH]. destruct (bytes_eqb ser (sval_marshal x)); simpl; rewrite IH; reflexivity. }
  assert (Hex : exists x, In (Some x, true) tvs /\ sv_type x = typ /\ sval_marshal x = ser).
  { rewrite Hc in Hcnt. clear - Hcnt Hf. revert f Hcnt Hf.
    induction tvs as [|[[x|] h] tvs IH]; intros f Hcnt Hf; simpl in *; [lia| |].
    - unfold sel in Hcnt at 1. simpl in Hcnt.
      destruct ((sv_type x =? typ) && bytes_eqb ser (sval_marshal x)) eqn:E.
      + destruct h.
        * exists x. apply andb_true_iff in E. destruct E as [E1 E2]. apply bytes_eqb_eq in E2.
          split; [left; reflexivity|]. split; [lia|congruence].
        * simpl in Hf, Hcnt. destruct f as [|f]; [lia|].
          destruct (IH f) as (y & Hy & ?); [lia|lia|]. exists y. split; [right; exact Hy|assumption].
      + destruct h; simpl in Hf.
        * destruct (IH f Hcnt Hf) as (y & Hy & ?). exists y. split; [right; exact Hy|assumption].
        * destruct (IH f Hcnt) as (y & Hy & ?); [lia|]. exists y. split; [right; exact Hy|assumption].
    - unfold sel in Hcnt at 1. simpl in Hcnt. destruct (IH f Hcnt Hf) as (y & Hy & ?).
      exists y. split; [right; exact Hy|assumption]. }
  destruct Hex as (x & Hin & Ht & Hs). exists x, ser. rewrite Ht. auto.
Qed.
