(* DecodedWf.v — C10: whatever the outcome decoder accepts is a well-formed outcome (every id a uint32, every time a
   uint64, every decimal scale an int32, timestamped values nested at most twice, the stage string in canonical form),
   for ANY input bytes; hence arbitrary bytes either fail to decode or yield an outcome that re-encodes, and
   decode-encode-decode is the identity on decoded outcomes (version 0: up to the seconds truncation, a no-op there). *)
From stdpp Require Import gmap.
From DS Require Import Base Decimal StreamValue Wire Sort Aggregators RepoConstants Outcome OutcomeCodec EvmSpec.
From DS Require Import BaseProofs WireProofs StreamValueProofs OutcomeCodecProofs FieldLists OutcomeRoundTrip ReportsNoPanic.
From Coq Require Import Lia.
Open Scope Z_scope.

Lemma last_varint_bound k fs : Forall raw_ok fs -> 0 <= last_varint k fs < 2 ^ 64.
Proof.
  rewrite last_varint_fold. assert (H : forall acc, 0 <= acc < 2 ^ 64 -> Forall raw_ok fs -> 0 <= fold_left (lv_step k) fs acc < 2 ^ 64).
  { induction fs as [|[k' r] fs IH]; intros acc Ha Hf; [exact Ha|]. inversion Hf as [|? ? Hr Hf']; subst. cbn [fold_left].
    apply IH; [|exact Hf']. destruct r; cbn [lv_step]; try exact Ha. destruct (k' =? k); [exact Hr|exact Ha]. }
  intros Hf. apply H; [lia|exact Hf].
Qed.
Lemma u32_bound v : u32_ok (u32 v).
Proof. unfold u32_ok, u32. apply Z.mod_pos_bound. lia. Qed.

(* ---------- stream values ---------- *)
Lemma dec_wf_exp_ok d : dec_wf d = true -> exp_ok d.
Proof. unfold dec_wf, exp_ok. lia. Qed.

(* the type tag determines the constructor *)
Lemma sval_unmarshal_fuel_type fuel : forall t data v, sval_unmarshal_fuel fuel (Some (t, data)) = Ok v -> sv_type v = t.
Proof.
  destruct fuel as [|fuel]; intros t data v H; [discriminate|]. cbn [sval_unmarshal_fuel] in H.
  destruct (t =? 0) eqn:E0.
  { destruct (dec_unmarshal data); try discriminate. cbn [bind] in H. inversion H; subst. cbn. lia. }
  destruct (t =? 1) eqn:E1.
  { destruct (parse_fields data) as [fs|]; [|discriminate].
    destruct (dec_unmarshal (last_bytes 1 fs)); try discriminate. cbn [bind] in H.
    destruct (dec_unmarshal (last_bytes 2 fs)); try discriminate. cbn [bind] in H.
    destruct (dec_unmarshal (last_bytes 3 fs)); try discriminate. cbn [bind] in H. inversion H; subst. cbn. lia. }
  destruct (t =? 2) eqn:E2; [|discriminate].
  destruct (parse_fields data) as [fs|]; [|discriminate]. destruct (merged_msg 2 fs) as [body|]; [|discriminate].
  destruct (parse_lsv body) as [[t1 v1]|]; [|discriminate].
  match type of H with match ?g with Some e => _ | None => _ end = _ => destruct g; [discriminate|] end.
  destruct (sval_unmarshal_fuel fuel (Some (t1, v1))); try discriminate. cbn [bind] in H. inversion H; subst. cbn. lia.
Qed.

Lemma sval_unmarshal_fuel_ok fuel : forall t data v,
  sval_unmarshal_fuel fuel (Some (t, data)) = Ok v -> bok data -> sval_ok v.
Proof.
  induction fuel as [|fuel IH]; intros t data v H Hb; [discriminate|]. cbn [sval_unmarshal_fuel] in H.
  destruct (t =? 0).
  { destruct (dec_unmarshal data) as [d| |] eqn:Ed; try discriminate. cbn [bind] in H. inversion H; subst.
    cbn [sval_ok]. apply dec_wf_exp_ok. eapply dec_unmarshal_wf; eassumption. }
  destruct (t =? 1).
  { destruct (parse_fields data) as [fs|] eqn:Ep; [|discriminate]. pose proof (parse_fields_ok _ _ Ep Hb) as Hf.
    destruct (dec_unmarshal (last_bytes 1 fs)) as [a| |] eqn:Ea; try discriminate. cbn [bind] in H.
    destruct (dec_unmarshal (last_bytes 2 fs)) as [b| |] eqn:Eb; try discriminate. cbn [bind] in H.
    destruct (dec_unmarshal (last_bytes 3 fs)) as [c| |] eqn:Ec; try discriminate. cbn [bind] in H.
    inversion H; subst. cbn [sval_ok].
    split; [apply dec_wf_exp_ok; exact (dec_unmarshal_wf _ _ Ea (last_bytes_ok 1 fs Hf))|].
    split; [apply dec_wf_exp_ok; exact (dec_unmarshal_wf _ _ Eb (last_bytes_ok 2 fs Hf))|].
    apply dec_wf_exp_ok; exact (dec_unmarshal_wf _ _ Ec (last_bytes_ok 3 fs Hf)). }
  destruct (t =? 2); [|discriminate].
  destruct (parse_fields data) as [fs|] eqn:Ep; [|discriminate]. pose proof (parse_fields_ok _ _ Ep Hb) as Hf.
  destruct (merged_msg 2 fs) as [body|] eqn:Em; [|discriminate]. pose proof (merged_msg_ok _ _ _ Hf Em) as Hbody.
  destruct (parse_lsv body) as [[t1 v1]|] eqn:El; [|discriminate]. pose proof (parse_lsv_ok _ _ _ El Hbody) as Hv1.
  match type of H with match ?g with Some e => _ | None => _ end = _ => destruct g; [discriminate|] end.
  destruct (sval_unmarshal_fuel fuel (Some (t1, v1))) as [inner| |] eqn:Ei; try discriminate. cbn [bind] in H.
  inversion H; subst. cbn [sval_ok]. split; [apply last_varint_bound; exact Hf|]. eapply IH; eassumption.
Qed.

(* the depth guard of the D7 repair: nothing nested three deep is ever returned *)
Lemma sval_unmarshal_fuel_depth fuel : forall t data v,
  sval_unmarshal_fuel fuel (Some (t, data)) = Ok v -> (sval_depth v <= 2)%nat.
Proof.
  destruct fuel as [|fuel]; intros t data v H; [discriminate|]. cbn [sval_unmarshal_fuel] in H.
  destruct (t =? 0).
  { destruct (dec_unmarshal data); try discriminate. cbn [bind] in H. inversion H; subst. cbn. lia. }
  destruct (t =? 1).
  { destruct (parse_fields data) as [fs|]; [|discriminate].
    destruct (dec_unmarshal (last_bytes 1 fs)); try discriminate. cbn [bind] in H.
    destruct (dec_unmarshal (last_bytes 2 fs)); try discriminate. cbn [bind] in H.
    destruct (dec_unmarshal (last_bytes 3 fs)); try discriminate. cbn [bind] in H. inversion H; subst. cbn. lia. }
  destruct (t =? 2); [|discriminate].
  destruct (parse_fields data) as [fs|]; [|discriminate]. destruct (merged_msg 2 fs) as [body|]; [|discriminate].
  destruct (parse_lsv body) as [[t1 v1]|]; [|discriminate].
  destruct (t1 =? 2) eqn:Et1.
  - (* the inner value is itself timestamped: the guard has looked at ITS inner type *)
    destruct (parse_fields v1) as [fs1|] eqn:Ep1; [|discriminate].
    destruct (merged_msg 2 fs1) as [body2|] eqn:Em1.
    + destruct (parse_lsv body2) as [[t2 v2]|] eqn:El2; [|discriminate].
      destruct (t2 =? 2) eqn:Et2; [discriminate|].
      destruct fuel as [|fuel]; [discriminate|].
      destruct (sval_unmarshal_fuel (S fuel) (Some (t1, v1))) as [inner| |] eqn:Ei; try discriminate. cbn [bind] in H.
      inversion H; subst. clear H. cbn [sval_depth].
      (* unfold the inner call: same parse, its inner value has type t2 <> 2 *)
      cbn [sval_unmarshal_fuel] in Ei. assert (t1 = 2) by lia. subst t1.
      simpl (2 =? 0) in Ei. simpl (2 =? 1) in Ei. simpl (2 =? 2) in Ei. cbv iota in Ei. rewrite Ep1, Em1, El2, Et2 in Ei.
      destruct (sval_unmarshal_fuel fuel (Some (t2, v2))) as [inner2| |] eqn:Ei2; try discriminate. cbn [bind] in Ei.
      inversion Ei; subst. cbn [sval_depth]. apply sval_unmarshal_fuel_type in Ei2.
      destruct inner2; cbn in Ei2 |- *; lia.
    + (* no inner message: the inner call fails *)
      destruct fuel as [|fuel]; [discriminate|].
      destruct (sval_unmarshal_fuel (S fuel) (Some (t1, v1))) as [inner| |] eqn:Ei; try discriminate.
      cbn [sval_unmarshal_fuel] in Ei. assert (t1 = 2) by lia. subst t1.
      simpl (2 =? 0) in Ei. simpl (2 =? 1) in Ei. simpl (2 =? 2) in Ei. cbv iota in Ei. rewrite Ep1, Em1 in Ei. discriminate.
  - destruct (sval_unmarshal_fuel fuel (Some (t1, v1))) as [inner| |] eqn:Ei; try discriminate. cbn [bind] in H.
    inversion H; subst. cbn [sval_depth]. apply sval_unmarshal_fuel_type in Ei. destruct inner; cbn in Ei |- *; lia.
Qed.

Lemma sval_unmarshal_swf t data v : sval_unmarshal t data = Ok v -> bok data -> OutcomeRoundTrip.sval_wf v.
Proof.
  intros H Hb. split; [eapply sval_unmarshal_fuel_ok; eassumption|eapply sval_unmarshal_fuel_depth; exact H].
Qed.

(* ---------- entries ---------- *)
Lemma dec_stream_wf b s : dec_stream b = Ok s -> stream_wf s.
Proof.
  unfold dec_stream. destruct (parse_fields b); [|discriminate]. intros H. inversion H; subst. split; apply u32_bound.
Qed.
Lemma dec_def_wf b cd : dec_def b = Ok cd -> def_wf cd.
Proof.
  unfold dec_def. destruct (parse_fields b) as [fs|]; [|discriminate].
  destruct (sequence_res (map dec_stream (all_bytes 2 fs))) as [ss| |] eqn:Es; try discriminate. cbn [bind]. intros H. inversion H; subst.
  split; [apply u32_bound|]. cbn [cd_streams]. apply Forall_forall. intros s Hs.
  destruct (sequence_res_ok_inv dec_stream _ _ Es s Hs) as (x & _ & Hx). eapply dec_stream_wf. exact Hx.
Qed.
Lemma dec_id_def_wf b e : dec_id_def b = Ok e -> u32_ok (fst e) /\ def_wf (snd e).
Proof.
  unfold dec_id_def. destruct (parse_fields b) as [fs|]; [|discriminate]. destruct (merged_msg 2 fs) as [body|]; [|discriminate].
  destruct (dec_def body) as [cd| |] eqn:Ed; try discriminate. cbn [bind]. intros H. inversion H; subst.
  split; [apply u32_bound|eapply dec_def_wf; exact Ed].
Qed.
Lemma dec_id_val_wf b e : dec_id_val b = Ok e -> bok b -> u32_ok (fst e) /\ u64_ok (snd e).
Proof.
  unfold dec_id_val. destruct (parse_fields b) as [fs|] eqn:Ep; [|discriminate]. intros H Hb. inversion H; subst.
  split; [apply u32_bound|]. apply last_varint_bound. eapply parse_fields_ok; eassumption.
Qed.
Lemma dec_agg_swf b e : dec_agg b = Ok e -> bok b -> agg_wf e.
Proof.
  unfold dec_agg. destruct (parse_fields b) as [fs|] eqn:Ep; [|discriminate]. intros H Hb.
  pose proof (parse_fields_ok _ _ Ep Hb) as Hf.
  destruct (merged_msg 2 fs) as [body|] eqn:Em; [|discriminate]. pose proof (merged_msg_ok _ _ _ Hf Em) as Hbody.
  destruct (parse_lsv body) as [[t data]|] eqn:El; [|discriminate]. pose proof (parse_lsv_ok _ _ _ El Hbody) as Hd.
  destruct (sval_unmarshal t data) as [v'| |] eqn:Ev; try discriminate. cbn [bind] in H. inversion H; subst.
  split; [apply u32_bound|]. split; [apply u32_bound|]. eapply sval_unmarshal_swf; eassumption.
Qed.

Lemma stage_of_bytes_canon b : stage_canon (stage_of_bytes b).
Proof.
  unfold stage_canon, stage_of_bytes.
  destruct (bool_decide (b = str_bytes "staging")) eqn:E1; [reflexivity|].
  destruct (bool_decide (b = str_bytes "production")) eqn:E2; [reflexivity|].
  destruct (bool_decide (b = str_bytes "retired")) eqn:E3; [reflexivity|].
  cbn [stage_bytes]. rewrite E1, E2, E3. reflexivity.
Qed.

Lemma stage_ascii b : ascii_ok b = true -> ascii_ok (stage_bytes (stage_of_bytes b)) = true.
Proof. intros H. unfold stage_of_bytes. repeat case_bool_decide; try reflexivity. exact H. Qed.

Lemma later_wins_Forall {K V} `{Countable K} (P : K -> V -> Prop) (l : list (K * V)) :
  (forall e, In e l -> P (fst e) (snd e)) -> map_Forall P (later_wins l).
Proof.
  intros Hl k v Hkv. unfold later_wins in Hkv. apply elem_of_list_to_map_2 in Hkv.
  apply elem_of_list_In, in_rev in Hkv. exact (Hl (k, v) Hkv).
Qed.

Theorem decoded_outcome_wf pver bs o : decode_outcome pver bs = Ok o -> bok bs -> outcome_wf o.
Proof.
  unfold decode_outcome. destruct (parse_fields bs) as [fs|] eqn:Ep; [|discriminate]. intros H Hb.
  pose proof (parse_fields_ok _ _ Ep Hb) as Hf.
  destruct (negb (ascii_ok (last_bytes 1 fs))); [discriminate|].
  destruct (sequence_res (map dec_id_def (all_bytes 3 fs))) as [defs| |] eqn:Ed; try discriminate. cbn [bind] in H.
  destruct (sequence_res (map dec_agg (all_bytes 5 fs))) as [aggs| |] eqn:Ea; try discriminate. cbn [bind] in H.
  destruct (sequence_res (map dec_id_val (all_bytes 4 fs))) as [vas| |] eqn:Ev; try discriminate. cbn [bind] in H.
  destruct ((pver =? 0) && (2 ^ 63 <=? last_varint 2 fs)); [discriminate|]. inversion H; subst. clear H.
  unfold outcome_wf. cbn [o_stage o_ts o_defs o_va o_aggs].
  split; [apply stage_of_bytes_canon|]. split; [apply last_varint_bound; exact Hf|].
  split; [|split].
  - apply later_wins_Forall. intros e He. destruct (sequence_res_ok_inv dec_id_def _ _ Ed e He) as (b & _ & Hd).
    eapply dec_id_def_wf. exact Hd.
  - apply later_wins_Forall. intros e He. apply in_map_iff in He. destruct He as (e0 & <- & He0).
    destruct (sequence_res_ok_inv dec_id_val _ _ Ev e0 He0) as (b & Hb' & Hd).
    pose proof (all_bytes_ok 4 fs Hf) as Hall. rewrite Forall_forall in Hall.
    destruct (dec_id_val_wf _ _ Hd (Hall _ Hb')) as [Hk Hv]. cbn [fst snd]. split; [exact Hk|].
    destruct (pver =? 0); [|exact Hv]. pose proof (u32_bound (snd e0)) as Hu. unfold u32_ok, u64_ok, ns_per_s in *. lia.
  - apply later_wins_Forall. intros e He. destruct (sequence_res_ok_inv dec_agg _ _ Ea e He) as (b & Hb' & Hd).
    pose proof (all_bytes_ok 5 fs Hf) as Hall. rewrite Forall_forall in Hall.
    pose proof (dec_agg_swf _ _ Hd (Hall _ Hb')) as Hw. destruct e as [[a c] v]. exact Hw.
Qed.

(* arbitrary bytes: if they decode, the outcome re-encodes under version 1, and decoding that gives the same outcome *)
Theorem decode_reencode_v1 bs o : decode_outcome 1 bs = Ok o -> bok bs ->
  exists bs', encode_outcome 1 o = Ok bs' /\ (small bs' -> decode_outcome 1 bs' = Ok o).
Proof.
  intros Hd Hb. pose proof (decoded_outcome_wf 1 bs o Hd Hb) as Hwf.
  assert (Hascii : ascii_ok (stage_bytes (o_stage o)) = true).
  { unfold decode_outcome in Hd. destruct (parse_fields bs) as [fs|]; [|discriminate].
    destruct (negb (ascii_ok (last_bytes 1 fs))) eqn:Ea; [discriminate|].
    destruct (sequence_res (map dec_id_def (all_bytes 3 fs))); try discriminate. cbn [bind] in Hd.
    destruct (sequence_res (map dec_agg (all_bytes 5 fs))); try discriminate. cbn [bind] in Hd.
    destruct (sequence_res (map dec_id_val (all_bytes 4 fs))); try discriminate. cbn [bind] in Hd.
    cbn in Hd. inversion Hd; subst. cbn [o_stage]. apply negb_false_iff in Ea.
    apply stage_ascii. exact Ea. }
  destruct (encode_v1_total o Hascii) as (bs' & He). exists bs'. split; [exact He|].
  intros Hsm. rewrite (decode_encode 1 o bs' Hwf He Hsm). reflexivity.
Qed.
