(* BaseProofs.v — lemmas about Base.v (big-endian bytes, prefixes, equality tests). *)
From DS Require Import Base.
From Coq Require Import ZifyBool.
Ltac Zify.zify_post_hook ::= Z.div_mod_to_equations.

Lemma list_eqb_eq {A} (eqb : A -> A -> bool) (Heq : forall x y, eqb x y = true <-> x = y) :
  forall a b, list_eqb eqb a b = true <-> a = b.
Proof.
  induction a as [|x xs IH]; destruct b as [|y ys]; simpl; split; intros H; try congruence; try discriminate.
  - apply andb_true_iff in H. destruct H as [H1 H2]. apply Heq in H1. apply IH in H2. congruence.
  - inversion H; subst. apply andb_true_iff. split; [apply Heq; reflexivity | apply IH; reflexivity].
Qed.

Lemma bytes_eqb_eq a b : bytes_eqb a b = true <-> a = b.
Proof. apply list_eqb_eq. intros x y. apply Z.eqb_eq. Qed.

Lemma bytes_eqb_refl a : bytes_eqb a a = true.
Proof. apply bytes_eqb_eq. reflexivity. Qed.

Lemma is_prefix_sound p : forall s r, is_prefix p s = Some r -> s = p ++ r.
Proof.
  induction p as [|x p IH]; intros s r H; simpl in H.
  - inversion H. reflexivity.
  - destruct s as [|y s]; [discriminate|]. destruct (x =? y) eqn:E; [|discriminate].
    apply Z.eqb_eq in E. subst. simpl. f_equal. apply IH. exact H.
Qed.

Lemma is_prefix_complete p r : is_prefix p (p ++ r) = Some r.
Proof. induction p as [|x p IH]; simpl; [reflexivity|]. rewrite Z.eqb_refl. exact IH. Qed.

(* ---------- big-endian ---------- *)
Lemma be_value_snoc l b : be_value (l ++ [b]) = be_value l * 256 + b.
Proof. unfold be_value. rewrite fold_left_app. reflexivity. Qed.

Lemma length_be_bytes n : forall v, length (be_bytes n v) = n.
Proof. induction n as [|n IH]; intros v; simpl; [reflexivity|]. rewrite app_length, IH. simpl. lia. Qed.

Lemma be_value_be_bytes n : forall v, 0 <= v < 256 ^ Z.of_nat n -> be_value (be_bytes n v) = v.
Proof.
  induction n as [|n IH]; intros v Hv.
  - simpl in *. unfold be_value. simpl. lia.
  - cbn [be_bytes]. rewrite be_value_snoc.
    rewrite Nat2Z.inj_succ, Z.pow_succ_r in Hv by lia.
    rewrite IH; [lia|]. split; [lia|]. apply Z.div_lt_upper_bound; lia.
Qed.


Lemma be_value_be_bytes_mod n : forall v, 0 <= v -> be_value (be_bytes n v) = v mod 256 ^ Z.of_nat n.
Proof.
  induction n as [|n IH]; intros v Hv.
  - simpl. unfold be_value. simpl. rewrite Z.mod_1_r. reflexivity.
  - cbn [be_bytes]. rewrite be_value_snoc, IH by (apply Z.div_pos; lia).
    rewrite Nat2Z.inj_succ, Z.pow_succ_r by lia.
    assert (Hp : 0 < 256 ^ Z.of_nat n) by (apply Z.pow_pos_nonneg; lia).
    rewrite Z.rem_mul_r by lia. ring.
Qed.

Lemma be_bytes_ok n : forall v, Forall (fun b => 0 <= b < 256) (be_bytes n v).
Proof.
  induction n as [|n IH]; intros v; simpl; [constructor|].
  apply Forall_app. split; [apply IH|]. constructor; [|constructor]. lia.
Qed.

Lemma be_value_app a : forall b, be_value (a ++ b) = be_value a * 256 ^ Z.of_nat (length b) + be_value b.
Proof.
  intros b. induction b as [|x b IH] using rev_ind.
  - rewrite app_nil_r. simpl. unfold be_value at 3. simpl. lia.
  - rewrite app_assoc, !be_value_snoc, IH, app_length. simpl length.
    rewrite Nat2Z.inj_add. simpl Z.of_nat. rewrite Z.pow_add_r by lia. lia.
Qed.

Lemma be_value_repeat0 k : be_value (repeat 0 k) = 0.
Proof.
  induction k as [|k IH]; [reflexivity|].
  change (repeat 0 (S k)) with ([0] ++ repeat 0 k). rewrite be_value_app, IH. change (be_value [0]) with 0. lia.
Qed.

Lemma be_value_repeat255 k : be_value (repeat 255 k) = 256 ^ Z.of_nat k - 1.
Proof.
  induction k as [|k IH]; [reflexivity|].
  change (repeat 255 (S k)) with ([255] ++ repeat 255 k). rewrite be_value_app, IH, repeat_length.
  rewrite Nat2Z.inj_succ, Z.pow_succ_r by lia. change (be_value [255]) with 255. lia.
Qed.

Lemma be_value_bounds bs : Forall (fun b => 0 <= b < 256) bs -> 0 <= be_value bs < 256 ^ Z.of_nat (length bs).
Proof.
  induction bs as [|x bs IH] using rev_ind; intros H.
  - unfold be_value. simpl. lia.
  - apply Forall_app in H. destruct H as [H1 H2]. inversion H2; subst.
    rewrite be_value_snoc, app_length. simpl length. rewrite Nat.add_1_r, Nat2Z.inj_succ, Z.pow_succ_r by lia.
    specialize (IH H1). lia.
Qed.

Lemma pow256 n : 256 ^ n = 2 ^ (8 * n).
Proof. change 256 with (2 ^ 8). destruct (Z.le_gt_cases 0 n); [rewrite <- Z.pow_mul_r by lia; reflexivity|].
  rewrite !Z.pow_neg_r by lia. reflexivity. Qed.
