(* HistoryProofs.v — C03 / C04: validity windows over histories of committed outcomes.
   A history is a list of events (seq, observations, previous outcome, next outcome), each a
   successful non-initial Outcome call, linked by next_i = prev_{i+1}.  (A round whose Outcome call
   errs commits nothing and emits nothing, so it does not appear.) *)
From stdpp Require Import gmap.
From DS Require Import Base Decimal StreamValue Sort Aggregators RepoConstants Outcome.
From DS Require Import SortProofs OutcomeProofs StepTheorems.
From Coq Require Import Lia.
Open Scope Z_scope.

Lemma last_cons {A} (l : list A) : forall a d, last (a :: l) d = last l a.
Proof.
  induction l as [|b l IH]; intros a d; [reflexivity|].
  change (last (a :: b :: l) d) with (last (b :: l) d). rewrite (IH b d), (IH b a). reflexivity.
Qed.

Section History.
  Context (h : Z -> chandef -> list Z).

  Record event := { ev_seq : Z; ev_aos : list (option observation); ev_prev : outcome; ev_next : outcome }.

  Definition valid_event (cf : cfg) (e : event) : Prop :=
    1 < ev_seq e /\ outcome_step h cf (ev_seq e) (ev_prev e) (ev_aos e) = Ok (ev_next e).

  Fixpoint linked (es : list event) : Prop :=
    match es with
    | e1 :: ((e2 :: _) as r) => ev_next e1 = ev_prev e2 /\ linked r
    | _ => True
    end.

  (* more than f removal votes for c among the accepted observations of this round *)
  Definition voted_out (cf : cfg) (e : event) (c : Z) : Prop :=
    exists rr obs, accept_observations (c_has_pred cf) (ev_aos e) = Ok (rr, obs) /\ (c_f cf < remove_votes obs c)%nat.
  Definition promotion (e : event) : Prop := o_stage (ev_prev e) = Staging /\ o_stage (ev_next e) <> Staging.

  Definition reportable (cf : cfg) (o : outcome) (c : Z) : bool := is_reportable o c (c_pver cf) (c_interval cf).

  (* the Report struct handed to the codec for channel c from outcome o *)
  Definition report_of (cf : cfg) (seq : Z) (o : outcome) (c : Z) (r : report) : Prop :=
    r ∈ snd (reports_of cf seq o) /\ r_chan r = c.

  Lemma report_of_inv cf seq o c r :
    report_of cf seq o c r ->
    reportable cf o c = true /\ o_va o !! c = Some (r_va r) /\ r_ts r = o_ts o /\
    (exists cd, o_defs o !! c = Some cd /\ r_def r = cd).
  Proof.
    unfold report_of, reports_of. destruct (seq <=? 1); simpl; [intros [H _]; inversion H|].
    intros [H Hc]. apply elem_of_list_omap in H. destruct H as (c' & Hin & Hm).
    unfold mk_report in Hm. destruct (o_defs o !! c') as [cd|] eqn:Ed; [|discriminate].
    inversion Hm; subst; clear Hm. simpl in *.
    unfold reportable_channels in Hin. apply isort_elem in Hin.
    apply elem_of_list_In in Hin. apply filter_In in Hin. destruct Hin as [_ Hrep].
    split; [exact Hrep|].
    unfold is_reportable in Hrep. destruct (o_stage o); try discriminate;
      rewrite Ed in Hrep; destruct (o_va o !! c') eqn:Ev; try discriminate; simpl; eauto.
  Qed.

  (* ---------- one step of a validity start ---------- *)
  Lemma removed_ids_spec f obs c : c ∈ removed_ids f obs <-> (f < remove_votes obs c)%nat.
  Proof.
    unfold removed_ids. rewrite elem_of_list_In, filter_In. split.
    - intros [_ H]. apply Nat.ltb_lt. exact H.
    - intros H. split; [|apply Nat.ltb_lt; exact H].
      apply elem_of_list_In. apply elem_of_remove_dups.
      unfold remove_votes in H.
      destruct (List.filter (fun ob => bool_decide (c ∈ ob_removes ob)) obs) as [|ob l] eqn:Ef; [simpl in H; lia|].
      assert (Hin : In ob (List.filter (fun ob => bool_decide (c ∈ ob_removes ob)) obs)) by (rewrite Ef; left; reflexivity).
      apply filter_In in Hin. destruct Hin as [Hin Hc]. apply bool_decide_eq_true in Hc.
      apply elem_of_list_In. apply in_flat_map. exists ob. split; [exact Hin|apply elem_of_list_In; exact Hc].
  Qed.

  Lemma va_step cf e c v :
    valid_event cf e -> ~ promotion e -> ~ voted_out cf e c ->
    o_va (ev_prev e) !! c = Some v ->
    o_va (ev_next e) !! c =
      Some (trunc_va (c_pver cf) (if reportable cf (ev_prev e) c then o_ts (ev_prev e) else v)).
  Proof.
    intros [Hseq H] Hnp Hnv Hv.
    destruct (outcome_step_inv h cf _ _ _ _ Hseq H) as (rr & obs & ts & aggs & Ha & _ & _ & _ & Hc).
    destruct (codec_commit_fields _ _ _ Hc) as (Hst & _ & _ & _ & Hva). simpl in Hst, Hva.
    rewrite Hva. clear Hva.
    set (st2 := stage2_of (c_f cf) (ev_prev e) rr obs) in *.
    assert (Hnr : c ∉ (if bool_decide (st2 = Retired) then [] else removed_ids (c_f cf) obs)).
    { destruct (bool_decide (st2 = Retired)); [apply not_elem_of_nil|].
      intros Hin. apply Hnv. exists rr, obs. split; [exact Ha|]. apply removed_ids_spec. exact Hin. }
    rewrite (lookup_foldr_delete_notin _ _ _ Hnr).
    assert (Hcar : carried_va cf (ev_prev e) !! c =
                   Some (if reportable cf (ev_prev e) c then o_ts (ev_prev e) else v)).
    { unfold carried_va. rewrite map_lookup_imap, Hv. reflexivity. }
    assert (Hva0 : va0_of cf (ev_prev e) rr = carried_va cf (ev_prev e)).
    { unfold va0_of. destruct rr as [rva|]; [|reflexivity].
      destruct (promoted_of (ev_prev e) (Some rva)) eqn:Ep; [|reflexivity].
      exfalso. apply Hnp. unfold promoted_of in Ep. apply andb_true_iff in Ep. destruct Ep as [Ep _].
      apply bool_decide_eq_true in Ep. split; [exact Ep|]. rewrite Hst.
      unfold st2, stage2_of, stage1_of, promoted_of. rewrite Ep. simpl.
      destruct (c_f cf <? retire_votes obs)%nat; discriminate. }
    rewrite Hva0, (lookup_union_Some_l _ _ _ _ Hcar). reflexivity.
  Qed.

  Lemma trunc_va_idem pver v : trunc_va pver (trunc_va pver v) = trunc_va pver v.
  Proof.
    unfold trunc_va, floor_s, ns_per_s. destruct (pver =? 0); [|reflexivity].
    rewrite Z.div_mul by lia. reflexivity.
  Qed.

  (* ---------- validity start after the last report: the general chain lemma ---------- *)
  (* es = e_0 :: rest ; channel c has validity start v0 in next(e_0) and is not reportable in any next(e_i)
     for the events strictly before the last one *)
  Lemma va_carried cf (es : list event) : forall e0 c v0,
    Forall (valid_event cf) (e0 :: es) -> linked (e0 :: es) ->
    o_va (ev_next e0) !! c = Some (trunc_va (c_pver cf) v0) ->
    (forall e, e ∈ es -> ~ promotion e /\ ~ voted_out cf e c) ->
    (forall e, e ∈ removelast (e0 :: es) -> reportable cf (ev_next e) c = false) ->
    o_va (ev_next (last es e0)) !! c = Some (trunc_va (c_pver cf) v0).
  Proof.
    induction es as [|e1 es IH]; intros e0 c v0 Hval Hlink Hv Hcond Hnrep; [exact Hv|].
    assert (Hlast : last (e1 :: es) e0 = last es e1) by apply last_cons.
    rewrite Hlast.
    inversion Hval as [|? ? Hv0 Hval']; subst. destruct Hlink as [Hl1 Hlink'].
    apply IH; try assumption.
    - (* one step from next(e0) = prev(e1) *)
      destruct (Hcond e1 (elem_of_list_here _ _)) as [Hnp Hnv].
      inversion Hval' as [|? ? Hv1 _]; subst.
      assert (Hnr0 : reportable cf (ev_next e0) c = false).
      { apply Hnrep. simpl. left. }
      pose proof (va_step cf e1 c (trunc_va (c_pver cf) v0) Hv1 Hnp Hnv) as Hs. rewrite <- Hl1 in Hs. specialize (Hs Hv).
      rewrite Hnr0 in Hs. rewrite Hs, trunc_va_idem. reflexivity.
    - intros e He. apply Hcond. right. exact He.
    - intros e He. apply Hnrep. simpl. destruct es as [|e2 es']; [inversion He|]. right. exact He.
  Qed.

  Definition cfg_accepted (cf : cfg) : Prop :=
    (c_pver cf = 0 /\ c_interval cf = 0) \/ (c_pver cf = 1 /\ 1 <= c_interval cf).

  Lemma reportable_window cf o c va :
    cfg_accepted cf -> reportable cf o c = true -> o_va o !! c = Some va ->
    va < o_ts o /\
    (forall cd, o_defs o !! c = Some cd -> c_pver cf = 0 \/ is_seconds_resolution (cd_fmt cd) = true ->
                va / ns_per_s < o_ts o / ns_per_s).
  Proof.
    intros Hacc Hr Hva. unfold reportable, is_reportable in Hr.
    assert (Hns : 0 < ns_per_s) by (unfold ns_per_s; lia).
    destruct (o_stage o); try discriminate;
      (destruct (o_defs o !! c) as [cd|] eqn:Ed; [|discriminate]; rewrite Hva in Hr;
       apply andb_true_iff in Hr; destruct Hr as [H1 H2];
       split;
       [ destruct Hacc as [[Hp Hi]|[Hp Hi]]; rewrite Hp in *; simpl in *;
         [ apply negb_true_iff in H2; apply Z.leb_gt in H2;
           destruct (Z.lt_ge_cases va (o_ts o)) as [?|Hge]; [assumption|];
           exfalso; apply (Z.div_le_mono _ _ ns_per_s Hns) in Hge; lia
         | apply negb_true_iff in H1; apply orb_false_iff in H1; destruct H1 as [A B];
           apply Z.ltb_ge in A, B; lia ]
       | intros cd' Hcd Hsec; inversion Hcd; subst cd';
         assert (Hc : (c_pver cf =? 0) || is_seconds_resolution (cd_fmt cd) = true)
           by (destruct Hsec as [-> | ->]; [reflexivity|apply orb_true_r]);
         rewrite Hc in H2; apply negb_true_iff in H2; apply Z.leb_gt in H2; exact H2 ]).
  Qed.

  (* ================= C03 ================= *)
  (* events e_j :: mid ++ [e_k]: a report of c from next(e_j), the next report of c from next(e_k),
     none in between, c not voted out and no promotion on the way *)
  Theorem C03_chain cf ej mid ek c rj rk :
    cfg_accepted cf ->
    Forall (valid_event cf) (ej :: mid ++ [ek]) -> linked (ej :: mid ++ [ek]) ->
    report_of cf (ev_seq ej) (ev_next ej) c rj ->
    report_of cf (ev_seq ek) (ev_next ek) c rk ->
    (forall e, e ∈ mid -> reportable cf (ev_next e) c = false) ->
    (forall e, e ∈ mid ++ [ek] -> ~ promotion e /\ ~ voted_out cf e c) ->
    r_va rk = trunc_va (c_pver cf) (r_ts rj) /\
    r_va rk < r_ts rk /\
    (c_pver cf = 0 \/ is_seconds_resolution (cd_fmt (r_def rk)) = true -> r_va rk / ns_per_s < r_ts rk / ns_per_s).
  Proof.
    intros Hacc Hval Hlink Hrj Hrk Hmid Hcond.
    destruct (report_of_inv _ _ _ _ _ Hrj) as (Hrepj & Hvaj & Htsj & _).
    destruct (report_of_inv _ _ _ _ _ Hrk) as (Hrepk & Hvak & Htsk & (cdk & Hdk & Hrdk)).
    (* first step after e_j: the validity start becomes ts_j *)
    destruct (mid ++ [ek]) as [|e1 rest] eqn:Erest; [destruct mid; discriminate|].
    inversion Hval as [|? ? Hvj Hval']; subst. destruct Hlink as [Hl1 Hlink'].
    inversion Hval' as [|? ? Hv1 _]; subst.
    destruct (Hcond e1 (elem_of_list_here _ _)) as [Hnp1 Hnv1].
    pose proof (va_step cf e1 c (r_va rj) Hv1 Hnp1 Hnv1) as Hs. rewrite <- Hl1 in Hs. specialize (Hs Hvaj).
    rewrite Hrepj in Hs.
    (* carried until e_k *)
    assert (Hlastk : last rest e1 = ek).
    { rewrite <- (last_cons rest e1 e1), <- Erest. apply last_last. }
    assert (Hcar : o_va (ev_next (last rest e1)) !! c = Some (trunc_va (c_pver cf) (o_ts (ev_next ej)))).
    { apply va_carried; try assumption.
      - intros e He. apply Hcond. right. exact He.
      - intros e He.
        (* removelast (e1 :: rest) = mid *)
        assert (Hrl : removelast (e1 :: rest) = mid) by (rewrite <- Erest; apply removelast_last).
        rewrite Hrl in He. apply Hmid. exact He. }
    rewrite Hlastk in Hcar. rewrite Hvak in Hcar. inversion Hcar as [Hrv].
    split; [rewrite Htsj; exact Hrv|].
    destruct (reportable_window cf (ev_next ek) c (r_va rk) Hacc Hrepk Hvak) as [Hlt Hsec].
    rewrite Htsk. split; [exact Hlt|]. intros Hs'. apply (Hsec (r_def rk) Hdk). exact Hs'.
  Qed.

  (* the on-chain windows [floor(va/1s)+1, floor(ts/1s)] of consecutive reports are adjacent, disjoint, non-empty *)
  Corollary C03_onchain_windows_adjacent_disjoint cf ej mid ek c rj rk :
    cfg_accepted cf ->
    Forall (valid_event cf) (ej :: mid ++ [ek]) -> linked (ej :: mid ++ [ek]) ->
    report_of cf (ev_seq ej) (ev_next ej) c rj ->
    report_of cf (ev_seq ek) (ev_next ek) c rk ->
    (forall e, e ∈ mid -> reportable cf (ev_next e) c = false) ->
    (forall e, e ∈ mid ++ [ek] -> ~ promotion e /\ ~ voted_out cf e c) ->
    (c_pver cf = 0 \/ is_seconds_resolution (cd_fmt (r_def rk)) = true) ->
    let start_k := r_va rk / ns_per_s + 1 in let end_k := r_ts rk / ns_per_s in let end_j := r_ts rj / ns_per_s in
    start_k = end_j + 1 /\ start_k <= end_k.
  Proof.
    intros Hacc Hval Hlink Hrj Hrk Hmid Hcond Hsec.
    destruct (C03_chain cf ej mid ek c rj rk Hacc Hval Hlink Hrj Hrk Hmid Hcond) as (H1 & _ & H3).
    specialize (H3 Hsec). simpl. split; [|lia].
    rewrite H1. unfold trunc_va, floor_s. destruct (c_pver cf =? 0); [|reflexivity].
    rewrite Z.div_mul by (unfold ns_per_s; lia). reflexivity.
  Qed.

  (* every report, first or not, has a non-empty window *)
  Theorem C03_window_nonempty cf seq o c r :
    cfg_accepted cf -> report_of cf seq o c r ->
    r_va r < r_ts r /\
    (c_pver cf = 0 \/ is_seconds_resolution (cd_fmt (r_def r)) = true -> r_va r / ns_per_s < r_ts r / ns_per_s).
  Proof.
    intros Hacc Hr. destruct (report_of_inv _ _ _ _ _ Hr) as (Hrep & Hva & Hts & (cd & Hd & Hrd)).
    destruct (reportable_window cf o c (r_va r) Hacc Hrep Hva) as [Hlt Hsec].
    rewrite Hts. split; [exact Hlt|]. intros Hs. apply (Hsec cd Hd). rewrite <- Hrd. exact Hs.
  Qed.

  (* ================= C04 ================= *)
  (* (a) the predecessor: after its last report of c (from next(e_j)) no further report of c is produced;
         whatever happens later (including retirement) the recorded validity start is where that report ended *)
  Theorem retirement_value_is_last_end cf ej rest c rj :
    Forall (valid_event cf) (ej :: rest) -> linked (ej :: rest) -> rest <> [] ->
    report_of cf (ev_seq ej) (ev_next ej) c rj ->
    (forall e, e ∈ removelast rest -> reportable cf (ev_next e) c = false) ->
    (forall e, e ∈ rest -> ~ promotion e /\ ~ voted_out cf e c) ->
    o_va (ev_next (last rest ej)) !! c = Some (trunc_va (c_pver cf) (r_ts rj)).
  Proof.
    intros Hval Hlink Hne Hrj Hnrep Hcond.
    destruct (report_of_inv _ _ _ _ _ Hrj) as (Hrepj & Hvaj & Htsj & _).
    destruct rest as [|e1 rest']; [congruence|].
    inversion Hval as [|? ? Hvj Hval']; subst. destruct Hlink as [Hl1 Hlink'].
    inversion Hval' as [|? ? Hv1 _]; subst.
    destruct (Hcond e1 (elem_of_list_here _ _)) as [Hnp1 Hnv1].
    pose proof (va_step cf e1 c (r_va rj) Hv1 Hnp1 Hnv1) as Hs. rewrite <- Hl1 in Hs. specialize (Hs Hvaj).
    rewrite Hrepj in Hs.
    assert (Hlast : last (e1 :: rest') ej = last rest' e1) by apply last_cons.
    rewrite Hlast, Htsj.
    apply va_carried; try assumption.
    - intros e He. apply Hcond. right. exact He.
  Qed.

  (* a retired instance emits the retirement report carrying exactly its validity starts and no channel report *)
  Theorem retired_emits_only_retirement_report cf seq o :
    1 < seq -> o_stage o = Retired -> reports_of cf seq o = (Some (o_va o), []).
  Proof. apply retired_reports. Qed.

  (* (b) the successor: at the promotion event the validity starts of the verified retirement report are adopted *)
  Lemma promotion_adopts cf e :
    valid_event cf e -> promotion e ->
    exists rva ob, Some ob ∈ ev_aos e /\ ob_att ob = GoodAttest rva /\ c_has_pred cf = true /\
      (rva <> ∅ -> forall c v, rva !! c = Some v -> ~ voted_out cf e c ->
         o_va (ev_next e) !! c = Some (trunc_va (c_pver cf) v)).
  Proof.
    intros [Hseq H] [Hp Hn].
    destruct (outcome_step_inv h cf _ _ _ _ Hseq H) as (rr & obs & ts & aggs & Ha & _ & _ & _ & Hc).
    destruct (codec_commit_fields _ _ _ Hc) as (Hst & _ & _ & _ & Hva). simpl in Hst, Hva.
    destruct rr as [rva|].
    2:{ exfalso. apply Hn. rewrite Hst. unfold stage2_of, stage1_of, promoted_of. rewrite Hp. reflexivity. }
    destruct (proj2 (accept_observations_sound _ _ _ _ Ha) rva eq_refl) as (Hpred & ob & Hob & Hatt).
    exists rva, ob. split; [exact Hob|]. split; [exact Hatt|]. split; [exact Hpred|].
    intros Hne c v Hcv Hnv. rewrite Hva.
    set (st2 := stage2_of (c_f cf) (ev_prev e) (Some rva) obs) in *.
    assert (Hnr : c ∉ (if bool_decide (st2 = Retired) then [] else removed_ids (c_f cf) obs)).
    { destruct (bool_decide (st2 = Retired)); [apply not_elem_of_nil|].
      intros Hin. apply Hnv. exists (Some rva), obs. split; [exact Ha|]. apply removed_ids_spec. exact Hin. }
    rewrite (lookup_foldr_delete_notin _ _ _ Hnr).
    assert (Hva0 : va0_of cf (ev_prev e) (Some rva) = rva).
    { unfold va0_of, promoted_of. rewrite Hp. simpl.
      rewrite bool_decide_eq_false_2 by exact Hne. reflexivity. }
    rewrite Hva0, (lookup_union_Some_l _ _ _ _ Hcv). reflexivity.
  Qed.

  (* the successor's first report of a channel listed in the adopted retirement report starts exactly there,
     however many rounds after the promotion the channel gets defined *)
  Theorem handover_start cf ep rest c v rq rva :
    Forall (valid_event cf) (ep :: rest) -> linked (ep :: rest) ->
    promotion ep ->
    (exists ob, Some ob ∈ ev_aos ep /\ ob_att ob = GoodAttest rva) ->
    (* the attestation that was used: the first valid one among the accepted observations *)
    (forall rr obs, accept_observations (c_has_pred cf) (ev_aos ep) = Ok (rr, obs) -> rr = Some rva) ->
    rva <> ∅ -> rva !! c = Some v ->
    ~ voted_out cf ep c ->
    (forall e, e ∈ rest -> ~ promotion e /\ ~ voted_out cf e c) ->
    (forall e, e ∈ removelast (ep :: rest) -> reportable cf (ev_next e) c = false) ->
    report_of cf (ev_seq (last rest ep)) (ev_next (last rest ep)) c rq ->
    r_va rq = trunc_va (c_pver cf) v.
  Proof.
    intros Hval Hlink Hprom _ Hrr Hne Hcv Hnv0 Hcond Hnrep Hrq.
    destruct (report_of_inv _ _ _ _ _ Hrq) as (_ & Hvaq & _ & _).
    inversion Hval as [|? ? Hvp _]; subst.
    (* validity start right after the promotion *)
    assert (Hadopt : o_va (ev_next ep) !! c = Some (trunc_va (c_pver cf) v)).
    { destruct Hvp as [Hseq H].
      destruct (outcome_step_inv h cf _ _ _ _ Hseq H) as (rr & obs & ts & aggs & Ha & _ & _ & _ & Hc).
      specialize (Hrr rr obs Ha). subst rr.
      destruct (codec_commit_fields _ _ _ Hc) as (Hst & _ & _ & _ & Hva). simpl in Hst, Hva.
      rewrite Hva.
      set (st2 := stage2_of (c_f cf) (ev_prev ep) (Some rva) obs) in *.
      assert (Hnr : c ∉ (if bool_decide (st2 = Retired) then [] else removed_ids (c_f cf) obs)).
      { destruct (bool_decide (st2 = Retired)); [apply not_elem_of_nil|].
        intros Hin. apply Hnv0. exists (Some rva), obs. split; [exact Ha|]. apply removed_ids_spec. exact Hin. }
      rewrite (lookup_foldr_delete_notin _ _ _ Hnr).
      destruct Hprom as [Hp _].
      assert (Hva0 : va0_of cf (ev_prev ep) (Some rva) = rva).
      { unfold va0_of, promoted_of. rewrite Hp. simpl. rewrite bool_decide_eq_false_2 by exact Hne. reflexivity. }
      unfold va0_of in Hva0. rewrite Hva0, (lookup_union_Some_l _ _ _ _ Hcv). reflexivity. }
    pose proof (va_carried cf rest ep c v Hval Hlink Hadopt Hcond Hnrep) as Hcar.
    rewrite Hvaq in Hcar. inversion Hcar. reflexivity.
  Qed.

  (* specimen marking: only a production instance emits non-specimen reports, so before promotion the
     successor's reports are all specimen and after retirement the predecessor emits none *)
  Theorem non_production_reports_are_specimen cf seq o r :
    r ∈ snd (reports_of cf seq o) -> o_stage o <> Production -> r_specimen r = true.
  Proof.
    intros Hr Hs. rewrite (specimen_iff_not_production cf seq o r Hr).
    rewrite bool_decide_eq_false_2 by exact Hs. reflexivity.
  Qed.
End History.
