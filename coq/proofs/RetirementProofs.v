(* RetirementProofs.v — C16 / C04: the retirement report survives its JSON transport: decoding what the
   predecessor's codec wrote gives back the protocol version and every validity start (nil map included). *)
From stdpp Require Import gmap.
From DS Require Import Base Sort Outcome TextForms RetirementJson.
From DS Require Import BaseProofs SortProofs TextProofs.
From Coq Require Import Lia.
Open Scope Z_scope.

Lemma span_digits v rest : 0 <= v -> match rest with [] => True | x :: _ => is_digit x = false end ->
  span is_digit (nat_string v ++ rest) = (nat_string v, rest) /\ nat_string v <> [] /\ digits_val (nat_string v) = v.
Proof.
  intros Hv Hr. destruct (nat_string_spec v Hv) as (Hne & Hd & Hval).
  split; [apply span_app; [exact Hd|exact Hr]|]. split; assumption.
Qed.

Definition entry_ok (e : Z * Z) : Prop := 0 <= fst e /\ 0 <= snd e.

Lemma entry_shape k v tl : rr_entry (k, v) ++ tl = 34 :: nat_string k ++ 34 :: 58 :: nat_string v ++ tl.
Proof. unfold rr_entry. cbn [fst snd app]. rewrite <- !app_assoc. reflexivity. Qed.

Lemma parse_entries_join es : es <> [] -> Forall entry_ok es -> forall fuel rest, (length es <= fuel)%nat ->
  parse_entries fuel (join_entries es ++ 125 :: rest) = Some (es, rest).
Proof.
  induction es as [|e es IH]; intros Hne Hok fuel rest Hf; [congruence|].
  inversion Hok as [|? ? [Hk Hv] Hok']; subst. destruct fuel as [|fuel]; [simpl in Hf; lia|].
  destruct e as [k v]. cbn [fst snd] in *.
  destruct es as [|e' es'].
  - change (join_entries [(k, v)]) with (rr_entry (k, v)). rewrite entry_shape. cbn [parse_entries].
    destruct (span_digits k (34 :: 58 :: nat_string v ++ 125 :: rest) Hk eq_refl) as (Hs1 & Hn1 & Hv1).
    rewrite Hs1. destruct (nat_string k) as [|c ks] eqn:Ek; [congruence|].
    destruct (span_digits v (125 :: rest) Hv eq_refl) as (Hs2 & Hn2 & Hv2).
    rewrite Hs2. destruct (nat_string v) as [|c' vs] eqn:Ev; [congruence|]. rewrite Hv1, Hv2. reflexivity.
  - change (join_entries ((k, v) :: e' :: es')) with (rr_entry (k, v) ++ 44 :: join_entries (e' :: es')).
    rewrite <- app_assoc. rewrite entry_shape. cbn [parse_entries]. cbn [app].
    destruct (span_digits k (34 :: 58 :: nat_string v ++ 44 :: join_entries (e' :: es') ++ 125 :: rest) Hk eq_refl) as (Hs1 & Hn1 & Hv1).
    rewrite Hs1. destruct (nat_string k) as [|c ks] eqn:Ek; [congruence|].
    destruct (span_digits v (44 :: join_entries (e' :: es') ++ 125 :: rest) Hv eq_refl) as (Hs2 & Hn2 & Hv2).
    rewrite Hs2. destruct (nat_string v) as [|c' vs] eqn:Ev; [congruence|].
    rewrite IH; [|discriminate|exact Hok'|simpl in Hf |- *; lia]. rewrite Hv1, Hv2. reflexivity.
Qed.

Lemma length_join_entries es : (length es <= S (length (join_entries es)))%nat.
Proof.
  induction es as [|e es IH]; [simpl; lia|]. destruct es as [|e' es']; [simpl; lia|].
  change (join_entries (e :: e' :: es')) with (rr_entry e ++ 44 :: join_entries (e' :: es')).
  rewrite app_length. cbn [length] in *. lia.
Qed.

Lemma rr_entries_perm m : Permutation (rr_entries m) (map_to_list m).
Proof. apply isort_perm. Qed.

Theorem rr_roundtrip pver va :
  0 <= pver -> (forall m, va = Some m -> map_Forall (fun k v => 0 <= k /\ 0 <= v) m) ->
  rr_decode (rr_encode pver va) = Some (pver, va).
Proof.
  intros Hp Hm. unfold rr_decode, rr_encode. rewrite is_prefix_complete.
  set (tail := match va with None => s_null | Some m => 123 :: join_entries (rr_entries m) ++ [125] end ++ [125]).
  destruct (span_digits pver (s_r2 ++ tail) Hp eq_refl) as (Hs & Hn & Hv). rewrite Hs.
  destruct (nat_string pver) as [|c ps] eqn:Ep; [congruence|]. rewrite is_prefix_complete. subst tail.
  destruct va as [m|].
  - specialize (Hm m eq_refl). change (is_prefix s_null ((123 :: join_entries (rr_entries m) ++ [125]) ++ [125])) with (@None bytes).
    destruct (rr_entries m) as [|e es] eqn:Ee.
    + cbn [join_entries app]. rewrite bool_decide_eq_true_2 by reflexivity. rewrite Hv. f_equal. f_equal. f_equal.
      pose proof (rr_entries_perm m) as HP. rewrite Ee in HP. apply Permutation_nil in HP. symmetry. apply map_to_list_empty_iff. exact HP.
    + assert (Hok : Forall entry_ok (e :: es)).
      { apply Forall_forall. intros [k v] Hin. rewrite <- Ee in Hin. apply (Permutation_in _ (rr_entries_perm m)) in Hin.
        apply elem_of_list_In, elem_of_map_to_list in Hin. exact (Hm k v Hin). }
      cbn [app]. rewrite <- app_assoc. cbn [app].
      assert (Hhead : exists r, join_entries (e :: es) ++ [125; 125] = 34 :: r).
      { destruct e as [k v]. destruct es as [|e' es'].
        - change (join_entries [(k, v)]) with (rr_entry (k, v)). rewrite entry_shape. eexists; reflexivity.
        - change (join_entries ((k, v) :: e' :: es')) with (rr_entry (k, v) ++ 44 :: join_entries (e' :: es')).
          rewrite <- app_assoc, entry_shape. eexists; reflexivity. }
      destruct Hhead as (r & Hh). rewrite Hh. cbv iota beta. rewrite <- Hh.
      change (join_entries (e :: es) ++ [125; 125]) with (join_entries (e :: es) ++ 125 :: [125]).
      rewrite parse_entries_join; [|discriminate|exact Hok|].
      2:{ rewrite app_length. pose proof (length_join_entries (e :: es)). cbn [length] in *. lia. }
      rewrite bool_decide_eq_true_2 by reflexivity. rewrite Hv. f_equal. f_equal. f_equal.
      rewrite <- Ee. rewrite <- (list_to_map_to_list m) at 2. apply list_to_map_proper; [|apply rr_entries_perm].
      rewrite (rr_entries_perm m). apply NoDup_fst_map_to_list.
  - cbn [app]. rewrite is_prefix_complete. rewrite bool_decide_eq_true_2 by reflexivity. rewrite Hv. reflexivity.
Qed.

(* ---------- Mercury offchain config (JSON) ---------- *)
Lemma dec_string_num_chars d : forallb is_num_char (dec_string d) = true.
Proof.
  destruct (dec_string_num d) as (neg & body & -> & [Hb _]). rewrite forallb_app. apply andb_true_iff. split.
  - destruct neg; reflexivity.
  - apply forallb_forall. intros c Hc. rewrite forallb_forall in Hb. unfold is_num_char. rewrite (Hb c Hc). reflexivity.
Qed.

Theorem merc_off_roundtrip window fee : 0 <= window ->
  exists fee', merc_off_decode (merc_off_encode window fee) = Some (window, fee') /\ deqvb fee fee' = true.
Proof.
  intros Hw. unfold merc_off_decode, merc_off_encode. rewrite is_prefix_complete.
  destruct (span_digits window (s_m2 ++ dec_string fee ++ [34; 125]) Hw eq_refl) as (Hs & Hn & Hv). rewrite Hs.
  destruct (nat_string window) as [|c ws] eqn:Ew; [congruence|]. rewrite is_prefix_complete.
  rewrite (span_app is_num_char (dec_string fee) [34; 125] (dec_string_num_chars fee) eq_refl).
  rewrite bool_decide_eq_true_2 by reflexivity.
  destruct (dec_text_roundtrip fee) as (fee' & Hp & He). rewrite Hp. exists fee'. rewrite Hv. split; [reflexivity|exact He].
Qed.
